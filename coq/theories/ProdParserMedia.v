(* ProdParserMedia.v -- the media grammar (mediaquery.py / medialist.py production trees of Gen/ProdTrees.v) accepts
   the rendered media queries of the generator grammar Grammar.v in every layout and builds the specified items. *)
From CssV Require Import Base Regex Tokenizer ProdParser ProdParserFacts Gen.ProdTrees Grammar.
Local Open Scope nat_scope.

(* ------------------------------------------------------------------ the trees, structured *)
Definition P (name : string) (m : mcode) (opt : bool) (a : acode) (sto : option str) (stop stopnm : bool) : prod :=
  mkProd (s name) m opt a sto stop false stopnm false false false.

Definition p_onlynot := P "ONLY|NOT" (MAnd (MTy (s "IDENT")) (MNormIn [(s "only"); (s "not")])) true ADefault (Some (s "not simple")) false false.
Definition media_types : list str :=
  [(s "all"); (s "braille"); (s "handheld"); (s "print"); (s "projection"); (s "speech"); (s "screen"); (s "tty"); (s "tv"); (s "embossed"); (s "amzn-mobi"); (s "amzn-kf8")].
Definition p_type_known := P "media_type" (MAnd (MTy (s "IDENT")) (MNormIn media_types)) false ADefault (Some (s "media_type")) false true.
Definition p_type_any := P "media_type" (MTy (s "IDENT")) false ADefault (Some (s "media_type")) false false.
Definition p_and (ns : bool) := P "AND" (MAnd (MTy (s "IDENT")) (MNorm (s "and"))) false ADefault (if ns then Some (s "not simple") else None) false false.
Definition p_open := P "expression" (MVal (s "(")) false ADefault None false false.
Definition p_feat := P "media_feature" (MTy (s "IDENT")) false ADefault None false false.
Definition p_colon := P "colon" (MVal (s ":")) false ADefault None false false.
Definition p_close (pf : bool) := P "expression END" (MVal (s ")")) false ADefault None false pf.
Definition p_color := P "ColorValue"
  (MOr (MAnd (MTy (s "HASH")) MHexRe) (MOr (MAnd (MTy (s "FUNCTION")) (MNormIn [(s "rgb("); (s "rgba("); (s "hsl("); (s "hsla(")])) (MAnd (MTy (s "IDENT")) (MNormIn color_keys))))
  false (ASub (Some (s "ColorValue")) 5) None false false.
Definition p_dim := P "Dimension" (MTyIn [(s "DIMENSION"); (s "NUMBER"); (s "PERCENTAGE")]) false (ASub (Some (s "DIMENSION")) 6) None false false.
Definition p_value := P "Value" (MTyIn [(s "IDENT"); (s "STRING"); (s "UNICODE-RANGE")]) false (ASub (Some (s "Value")) 4) None false false.
Definition p_ratio := P "ratio" (MTy (s "RATIO")) false ALower None false false.
Definition vals_ps : list ptree := [PProd p_color; PProd p_dim; PProd p_value; PProd p_ratio].
Definition colon_ps : list ptree := [PProd p_colon; PCho vals_ps None].
Definition expr_ps (pf : bool) : list ptree :=
  [PProd p_open; PProd p_feat; PSeq colon_ps 0 (Some 1); PProd (p_close pf)].
Definition exprS pf := PSeq (expr_ps pf) 1 (Some 1).
Definition and_ps pf ns : list ptree := [PProd (p_and ns); exprS pf].
Definition alt1_ps pf : list ptree := [PProd p_onlynot; PProd p_type_known; PSeq (and_ps pf true) 0 None].
Definition alt2_ps pf : list ptree := [exprS pf; PSeq (and_ps pf false) 0 None].
Definition alt3_ps pf : list ptree := [PProd p_onlynot; PProd p_type_any; PSeq (and_ps pf true) 0 None].
Definition root_ps pf : list ptree := [PSeq (alt1_ps pf) 1 (Some 1); PSeq (alt2_ps pf) 1 (Some 1); PSeq (alt3_ps pf) 1 (Some 1)].
Definition mq_tree pf : ptree := PCho (root_ps pf) None.

Lemma tree_MediaQuery_eq : tree_MediaQuery = mq_tree false.  Proof. reflexivity. Qed.
Lemma tree_MediaQuery_partof_eq : tree_MediaQuery_partof = mq_tree true.  Proof. reflexivity. Qed.

(* ------------------------------------------------------------------ generic steps of the main loop *)
Definition mst (stk : list frame) (seq : list item) (sto : store) (sd nm strict : bool) (rest : list tok) : lstate :=
  mkLs stk seq sto true sd false true nm false strict None SOff false rest stash0.

Definition gapl (g : list tok) : Prop := Forall (fun t => ty t = s "S" \/ ty t = s "COMMENT") g.
Definition gap_items (g : list tok) : list item :=
  flat_map (fun t => if isC t then [IStr (s "CSSComment") (val t)] else []) g.

Lemma gap_items_app a b : gap_items (a ++ b) = gap_items a ++ gap_items b.
Proof. unfold gap_items. apply flat_map_app. Qed.

(* the items the main loop appends for plain tokens: S dropped, COMMENT -> CSSComment, else (type, value) *)
Definition tok_items (l : list tok) : list item :=
  flat_map (fun t => if isS t then [] else if isC t then [IStr (s "CSSComment") (val t)] else [IStr (ty t) (val t)]) l.
Lemma tok_items_app a b : tok_items (a ++ b) = tok_items a ++ tok_items b.
Proof. unfold tok_items. apply flat_map_app. Qed.
Lemma tok_items_gap g : gapl g -> gap_items g = tok_items g.
Proof.
  induction 1 as [|t g Ht Hg IH]; [reflexivity|]. cbn [gap_items tok_items flat_map]. fold (gap_items g). fold (tok_items g).
  rewrite IH. unfold isS, isC. destruct Ht as [Ht|Ht]; rewrite Ht; reflexivity.
Qed.

Ltac gapl_tac := repeat first [apply Forall_nil | apply Forall_cons; [first [left; reflexivity | right; reflexivity]|]].
Lemma gapl_opt lay g : gapl (gopt lay g).
Proof. unfold gopt, gap_opt. destruct (Nat.modulo (lk lay g) 7) as [|[|[|[|[|[|?]]]]]]; gapl_tac. Qed.
Lemma gapl_req lay g : gapl (greq lay g).
Proof. unfold greq, gap_req. destruct (Nat.modulo (lk lay g) 5) as [|[|[|[|?]]]]; gapl_tac. Qed.

Ltac ls_simpl :=
  unfold mst, set_stream, set_stash, set_afterS, add_item, set_store, set_wf, set_stopall, set_started, set_found, set_stack,
    set_defaultS, set_keep;
  cbn [l_stack l_seq l_store l_wf l_started l_stopall l_defaultS l_stopnm l_afterS l_strict l_keep l_own l_anc l_rest l_stash].

Section Steps.
  Variable sub : nat -> bool -> tok -> list tok -> out.
  Variable postof : nat -> option postcode.
  Notation run k st := (loop opts0 sub postof (length (l_rest st) + k) st).

  (* whitespace is dropped, a comment becomes a CSSComment item (prodparser.py l.516-526) *)
  Lemma run_gap g : gapl g -> forall k stk acc sto sd nm strict rest,
    loop opts0 sub postof (length (g ++ rest) + k) (mst stk (rev acc) sto sd nm strict (g ++ rest)) =
    loop opts0 sub postof (length rest + k) (mst stk (rev (acc ++ gap_items g)) sto sd nm strict rest).
  Proof.
    induction 1 as [|t g Ht Hg IH]; intros k stk acc sto sd nm strict rest.
    - cbn [app gap_items flat_map]. now rewrite app_nil_r.
    - cbn [app length Nat.add]. rewrite loop_unfold. unfold pull. cbn [mst l_stash saved stash0 l_own l_anc l_rest spull].
      unfold body. cbn [opts0 o_checkS o_keepS andb negb set_stream l_defaultS l_started orb]. 
      cbn [gap_items flat_map]. fold (gap_items g). unfold isC.
      destruct Ht as [Ht|Ht]; rewrite Ht.
      + change (eqs (s "S") (s "COMMENT")) with false. change (eqs (s "S") (s "S")) with true. cbn [andb orb negb app].
        apply IH.
      + change (eqs (s "COMMENT") (s "COMMENT")) with true. cbn iota.
        change (add_item (set_stream (mst stk (rev acc) sto sd nm strict (t :: g ++ rest)) SOff false (g ++ rest)) (IStr (s "CSSComment") (val t)))
          with (mst stk (IStr (s "CSSComment") (val t) :: rev acc) sto sd nm strict (g ++ rest)).
        rewrite <- rev_unit. rewrite app_assoc. apply IH.
  Qed.

  Lemma run_gap' g : gapl g -> forall k stk acc sto sd nm strict rest,
    loop opts0 sub postof (length (g ++ rest) + k) (mst stk (rev acc) sto sd nm strict (g ++ rest)) =
    loop opts0 sub postof (length rest + k) (mst stk (rev (acc ++ tok_items g)) sto sd nm strict rest).
  Proof. intros Hg *. rewrite <- (tok_items_gap g Hg). now apply run_gap. Qed.

  Definition plain_ty (t : str) : Prop :=
    eqs t (s "COMMENT") = false /\ eqs t (s "S") = false /\ eqs t (s "INVALID") = false /\ eqs t (s "EOF") = false.

  Lemma body_found tk st p stk' :
    plain_ty (ty tk) -> find (find_fuel (l_stack st)) (l_stack st) tk = FFound p stk' ->
    body opts0 sub postof tk st =
    process sub postof p tk (set_found (set_started st) stk' (negb (p_mayend p)) (p_stopnm p || l_stopnm st)).
  Proof.
    intros (H1 & H2 & H3 & H4) Hf. unfold body. cbn [opts0 o_checkS andb]. rewrite H1, H2, H3, H4.
    rewrite andb_false_r. cbn [andb]. change (l_stack (set_started st)) with (l_stack st). rewrite Hf. reflexivity.
  Qed.

  Lemma process_plain p tk st :
    p_toseq p = ADefault -> p_stop p = false -> p_stopkeep p = false -> p_nextsor p = false ->
    process sub postof p tk st =
    LCont (set_defaultS (set_store (add_item st (IStr (ty tk) (val tk)))
                                   (do_store p tk (IStr (ty tk) (val tk)) (l_store st))) true).
  Proof. intros Ha Hs Hk Hn. unfold process. rewrite Hk, Ha, Hs, Hn. reflexivity. Qed.

  (* a token for which the production stack yields a plain Prod (toSeq = the default lambda, no stop flags) *)
  Lemma run_tok tk p stk' k stk acc sto sd nm strict rest :
    plain_ty (ty tk) ->
    find (find_fuel stk) stk tk = FFound p stk' ->
    p_toseq p = ADefault -> p_stop p = false -> p_stopkeep p = false -> p_nextsor p = false -> p_storetok p = false ->
    loop opts0 sub postof (length (tk :: rest) + k) (mst stk (rev acc) sto sd nm strict (tk :: rest)) =
    loop opts0 sub postof (length rest + k)
      (mst stk' (rev (acc ++ tok_items [tk]))
           (match p_store p with Some key => store_add key (val tk) sto | None => sto end)
           true (p_stopnm p || nm) (negb (p_mayend p)) rest).
  Proof.
    intros Hp Hf Ha Hs Hk Hn Hst.
    replace (tok_items [tk]) with [IStr (ty tk) (val tk)].
    2:{ destruct Hp as (H1 & H2 & _). unfold tok_items, isS, isC. cbn [flat_map]. now rewrite H1, H2. }
    cbn [length Nat.add]. rewrite loop_unfold.
    change (pull (mst stk (rev acc) sto sd nm strict (tk :: rest))) with (Some (tk, mst stk (rev acc) sto sd nm strict rest)).
    cbv iota beta. rewrite (body_found tk (mst stk (rev acc) sto sd nm strict rest) p stk' Hp Hf).
    rewrite (process_plain p tk _ Ha Hs Hk Hn). cbv iota beta. f_equal.
    unfold do_store. rewrite Hst, rev_unit. reflexivity.
  Qed.

  (* the end of the token stream: the closing loop over the production stack *)
  Lemma run_end k stk acc sto sd nm strict it :
    final stk strict true = FinOk true -> eqs (item_ty it) (s "S") = false ->
    loop opts0 sub postof (S k) (mst stk (rev (acc ++ [it])) sto sd nm strict []) =
    Ret (mkRes true (acc ++ [it]) sto false None SOff false [] stash0).
  Proof.
    intros Hf Hit. rewrite loop_unfold. unfold pull. cbn [mst l_stash saved stash0 l_own l_anc l_rest spull].
    unfold finish. ls_simpl. rewrite Hf. rewrite rev_unit. cbn [opts0 o_emptyOk negb andb].
    cbn [rstripS]. rewrite Hit. rewrite <- rev_unit, rev_involutive. reflexivity.
  Qed.
End Steps.

(* ------------------------------------------------------------------ stack frames and transitions of the media query grammar *)
Definition fE pf i rnd := FSeq (expr_ps pf) 1 (Some 1) i rnd true.
Definition fAnd pf ns i rnd := FSeq (and_ps pf ns) 0 None i rnd true.
Definition fColon i rnd := FSeq colon_ps 0 (Some 1) i rnd true.
Definition fVals := FCho vals_ps false true.

Definition kw (b : bool) (x : string) : tok := T "IDENT" (if b then upper (s x) else s x).

Lemma find_and_R pf ns base rnd b fu :
  find (S (S fu)) (fE pf 0 1 :: fAnd pf ns 0 rnd :: base) (kw b "and") = FFound (p_and ns) (fAnd pf ns 1 rnd :: base).
Proof. destruct b, pf, ns; vm_compute; reflexivity. Qed.

Lemma find_open_A pf ns base rnd fu :
  find (S (S fu)) (fAnd pf ns 1 rnd :: base) (ch "(") = FFound p_open (fE pf 1 0 :: fAnd pf ns 0 (S rnd) :: base).
Proof. destruct pf, ns; vm_compute; reflexivity. Qed.

Lemma find_feat pf ctx v fu :
  find (S fu) (fE pf 1 0 :: ctx) (T "IDENT" v) = FFound p_feat (fE pf 2 0 :: ctx).
Proof. destruct pf; lazy; reflexivity. Qed.

Lemma find_close pf ctx fu :
  find (S fu) (fE pf 2 0 :: ctx) (ch ")") = FFound (p_close pf) (fE pf 0 1 :: ctx).
Proof. destruct pf; vm_compute; reflexivity. Qed.

Definition fAlt pf (a : nat) i rnd := FSeq (nth a [alt1_ps pf; alt2_ps pf; alt3_ps pf] []) 1 (Some 1) i rnd true.
Definition fRoot pf exh := FCho (root_ps pf) false exh.
Definition c0 pf := [fRoot pf false].

Lemma enter_mq pf : enter (mq_tree pf) = Some (fRoot pf false).
Proof. destruct pf; reflexivity. Qed.

Definition known_type (t : str) : Prop := mem_s (normalize t) media_types = true.
Definition not_neg (t : str) : Prop := mem_s (normalize t) [s "only"; s "not"] = false.

Lemma find_neg pf b x : x = "only"%string \/ x = "not"%string ->
  find (find_fuel (c0 pf)) (c0 pf) (kw b x) = FFound p_onlynot [fAlt pf 0 1 0; fRoot pf true].
Proof. intros [-> | ->]; destruct b, pf; vm_compute; reflexivity. Qed.


Lemma tm_onlynot t : tok_matches p_onlynot (Some (T "IDENT" t)) = mem_s (normalize t) [s "only"; s "not"].
Proof. reflexivity. Qed.
Lemma tm_known t : tok_matches p_type_known (Some (T "IDENT" t)) = mem_s (normalize t) media_types.
Proof. reflexivity. Qed.

Lemma find_c0_generic p1 p2 x a2 a3 tk fu :
  p_opt p1 = true -> tok_matches p1 (Some tk) = false -> tok_matches p2 (Some tk) = true ->
  find (S (S fu)) [FCho [PSeq [PProd p1; PProd p2; x] 1 (Some 1); a2; a3] false false] tk =
  FFound p2 [FSeq [PProd p1; PProd p2; x] 1 (Some 1) 2 0 true; FCho [PSeq [PProd p1; PProd p2; x] 1 (Some 1); a2; a3] false true].
Proof.
  intros Ho H1 H2. cbn -[tmatches]. cbn [tmatches topt]. rewrite H1, Ho, H2. cbn -[tmatches]. cbn [tmatches topt]. rewrite H1, Ho, H2. reflexivity.
Qed.

Lemma find_seq1_generic p1 p2 x lo hi base tk fu :
  tok_matches p2 (Some tk) = true ->
  find (S fu) (FSeq [PProd p1; PProd p2; x] lo (Some (S hi)) 1 0 true :: base) tk =
  FFound p2 (FSeq [PProd p1; PProd p2; x] lo (Some (S hi)) 2 0 true :: base).
Proof. intros H2. cbn -[tmatches]. cbn [tmatches]. rewrite H2. reflexivity. Qed.

Lemma find_type_known0 pf t : not_neg t -> known_type t ->
  find (find_fuel (c0 pf)) (c0 pf) (T "IDENT" t) = FFound p_type_known [fAlt pf 0 2 0; fRoot pf true].
Proof.
  unfold not_neg, known_type. intros H1 H2. apply find_c0_generic; [reflexivity| |]; [rewrite tm_onlynot|rewrite tm_known]; assumption.
Qed.

Lemma find_type_known1 pf t : known_type t ->
  find (find_fuel [fAlt pf 0 1 0; fRoot pf true]) [fAlt pf 0 1 0; fRoot pf true] (T "IDENT" t) =
  FFound p_type_known [fAlt pf 0 2 0; fRoot pf true].
Proof. unfold known_type. intros H2. apply find_seq1_generic. now rewrite tm_known. Qed.

(* alternative 3 of the root Choice: an IDENT that is neither ONLY/NOT nor a known media type nor "(" *)
Lemma find_c0_alt3_generic p1 p2 x q1 y w p1' p3 z tk fu :
  p_opt p1 = true -> tok_matches p1 (Some tk) = false -> p_opt p2 = false -> tok_matches p2 (Some tk) = false ->
  p_opt q1 = false -> tok_matches q1 (Some tk) = false ->
  p_opt p1' = true -> tok_matches p1' (Some tk) = false -> tok_matches p3 (Some tk) = true ->
  find (S (S fu)) [FCho [PSeq [PProd p1; PProd p2; x] 1 (Some 1); PSeq [PSeq (PProd q1 :: y) 1 (Some 1); w] 1 (Some 1);
                         PSeq [PProd p1'; PProd p3; z] 1 (Some 1)] false false] tk =
  FFound p3 [FSeq [PProd p1'; PProd p3; z] 1 (Some 1) 2 0 true;
             FCho [PSeq [PProd p1; PProd p2; x] 1 (Some 1); PSeq [PSeq (PProd q1 :: y) 1 (Some 1); w] 1 (Some 1);
                   PSeq [PProd p1'; PProd p3; z] 1 (Some 1)] false true].
Proof.
  intros Ho1 H1 Ho2 H2 Hoq Hq Ho1' H1' H3.
  cbn -[tmatches]. cbn [tmatches topt Nat.eqb]. rewrite H1, Ho1, H2, Ho2, Hq, Hoq, H1', Ho1', H3.
  cbn -[tmatches]. cbn [tmatches topt]. rewrite H1', Ho1', H3. reflexivity.
Qed.

Definition unknown_type (t : str) : Prop := mem_s (normalize t) media_types = false /\ eqs t (s "(") = false.

Lemma find_type_any0 pf t : not_neg t -> unknown_type t ->
  find (find_fuel (c0 pf)) (c0 pf) (T "IDENT" t) = FFound p_type_any [fAlt pf 2 2 0; fRoot pf true].
Proof.
  unfold not_neg, unknown_type. intros H1 [H2 H3].
  apply find_c0_alt3_generic; try reflexivity; try (rewrite tm_onlynot; assumption); [rewrite tm_known; assumption|exact H3].
Qed.

Lemma find_open0 pf :
  find (find_fuel (c0 pf)) (c0 pf) (ch "(") = FFound p_open [fE pf 1 0; fAlt pf 1 1 0; fRoot pf true].
Proof. destruct pf; vm_compute; reflexivity. Qed.
Lemma find_and_T1 pf b :
  find (find_fuel [fAlt pf 0 2 0; fRoot pf true]) [fAlt pf 0 2 0; fRoot pf true] (kw b "and") =
  FFound (p_and true) (fAnd pf true 1 0 :: [fAlt pf 0 0 1; fRoot pf true]).
Proof. destruct pf, b; vm_compute; reflexivity. Qed.
Lemma find_and_T2 pf b :
  find (find_fuel [fE pf 0 1; fAlt pf 1 1 0; fRoot pf true]) [fE pf 0 1; fAlt pf 1 1 0; fRoot pf true] (kw b "and") =
  FFound (p_and false) (fAnd pf false 1 0 :: [fAlt pf 1 0 1; fRoot pf true]).
Proof. destruct pf, b; vm_compute; reflexivity. Qed.

Lemma find_and_T3 pf b :
  find (find_fuel [fAlt pf 2 2 0; fRoot pf true]) [fAlt pf 2 2 0; fRoot pf true] (kw b "and") =
  FFound (p_and true) (fAnd pf true 1 0 :: [fAlt pf 2 0 1; fRoot pf true]).
Proof. destruct pf, b; vm_compute; reflexivity. Qed.

Lemma final_R pf ns base rnd st : final (fE pf 0 1 :: fAnd pf ns 0 rnd :: base) st true = final base st true.
Proof. destruct pf, ns; cbn; destruct rnd; reflexivity. Qed.

(* a stack that is ready for "AND expression" or for the end of the query *)
Definition ready pf ns base stk : Prop :=
  (exists r0, forall b, find (find_fuel stk) stk (kw b "and") = FFound (p_and ns) (fAnd pf ns 1 r0 :: base)) /\
  final stk true true = FinOk true /\ final base true true = FinOk true.

Lemma ready_R pf ns base rnd : final base true true = FinOk true -> ready pf ns base (fE pf 0 1 :: fAnd pf ns 0 rnd :: base).
Proof.
  intros Hb. split; [|split; [rewrite final_R; exact Hb|exact Hb]].
  exists rnd. intros b. apply find_and_R.
Qed.
Lemma ready_T1 pf : ready pf true [fAlt pf 0 0 1; fRoot pf true] [fAlt pf 0 2 0; fRoot pf true].
Proof. split; [exists 0; apply find_and_T1|]. destruct pf; split; reflexivity. Qed.
Lemma ready_T3 pf : ready pf true [fAlt pf 2 0 1; fRoot pf true] [fAlt pf 2 2 0; fRoot pf true].
Proof. split; [exists 0; apply find_and_T3|]. destruct pf; split; reflexivity. Qed.
Lemma ready_T2 pf : ready pf false [fAlt pf 1 0 1; fRoot pf true] [fE pf 0 1; fAlt pf 1 1 0; fRoot pf true].
Proof. split; [exists 0; apply find_and_T2|]. destruct pf; split; reflexivity. Qed.

(* ------------------------------------------------------------------ running the media query grammar on a rendered query *)
Lemma plain_ident : plain_ty (s "IDENT").  Proof. repeat split. Qed.
Lemma plain_char : plain_ty (s "CHAR").  Proof. repeat split. Qed.

(* ---- stage 3 (Dimension): a one-token value  NUMBER / DIMENSION / PERCENTAGE  behind the colon *)
Definition is_dim (t : term) : Prop :=
  match t with
  | TmNum _ | TmDim _ _ | TmPct _ => True
  | TmIdent v => mem_s (normalize v) color_keys = false      (* an identifier that is not a colour keyword: a Value object *)
  | _ => False
  end.
Definition wf_val (o : option (nat * term)) : Prop := match o with None => True | Some (_, t) => is_dim t end.
Definition v_toks lay (e : mexpr) : list tok :=
  match me_val e with
  | None => []
  | Some (g, t) => ch ":" :: gopt lay g ++ r_term lay t ++ gopt lay (me_g2 e)
  end.
Definition dim_obj (ty : string) (v : str) : item := IObj (s "DIMENSION") 6 true [IStr (s ty) v] [].
Definition dim_item (t : term) : list item :=
  match t with
  | TmNum n => [dim_obj "NUMBER" (num_lex n)]
  | TmDim n u => [dim_obj "DIMENSION" (normalize (num_lex n ++ u))]
  | TmPct n => [dim_obj "PERCENTAGE" (num_lex n ++ s "%")]
  | TmIdent v => [IObj (s "Value") 4 true [IStr (s "IDENT") v] []]
  | _ => []
  end.
Definition leaf (it : item) (rest : list tok) : result := mkRes true [it] [] false None SOff false rest stash0.
(* what the proofs need from the DimensionValue constructor (proved for the real environment in dim_ok_subE) *)
Definition dim_ok (sub : nat -> bool -> tok -> list tok -> out) (postof : nat -> option postcode) : Prop :=
  postof 6 = Some PostDim /\
  (forall v rest, sub 6 false (T "NUMBER" v) rest = Ret (leaf (IStr (s "NUMBER") v) rest)) /\
  (forall v rest, sub 6 false (T "DIMENSION" v) rest = Ret (leaf (IStr (s "DIMENSION") (normalize v)) rest)) /\
  (forall v rest, sub 6 false (T "PERCENTAGE" v) rest = Ret (leaf (IStr (s "PERCENTAGE") v) rest)) /\
  postof 4 = Some PostFirst /\
  (forall v rest, sub 4 false (T "IDENT" v) rest = Ret (leaf (IStr (s "IDENT") v) rest)).

Lemma find_colon pf ctx fu :
  find (S (S fu)) (fE pf 2 0 :: ctx) (ch ":") = FFound p_colon (fColon 1 0 :: fE pf 3 0 :: ctx).
Proof. destruct pf; vm_compute; reflexivity. Qed.
Lemma find_dimtok pf ctx ty v fu : ty = "NUMBER"%string \/ ty = "DIMENSION"%string \/ ty = "PERCENTAGE"%string ->
  find (S (S fu)) (fColon 1 0 :: fE pf 3 0 :: ctx) (T ty v) = FFound p_dim (fVals :: fColon 0 1 :: fE pf 3 0 :: ctx).
Proof. intros [-> | [-> | ->]]; destruct pf; lazy -[normalize]; reflexivity. Qed.
Lemma find_close_v pf ctx fu :
  find (S (S (S fu))) (fVals :: fColon 0 1 :: fE pf 3 0 :: ctx) (ch ")") = FFound (p_close pf) (fE pf 0 1 :: ctx).
Proof. destruct pf; vm_compute; reflexivity. Qed.
Lemma find_val3_generic pc a b c d0 rest tk fu :
  tok_matches a (Some tk) = false -> tok_matches b (Some tk) = false -> tok_matches c (Some tk) = true ->
  find (S (S fu)) (FSeq [PProd pc; PCho [PProd a; PProd b; PProd c; PProd d0] None] 0 (Some 1) 1 0 true :: rest) tk =
  FFound c (FCho [PProd a; PProd b; PProd c; PProd d0] (topt (PCho [PProd a; PProd b; PProd c; PProd d0] None)) true ::
            FSeq [PProd pc; PCho [PProd a; PProd b; PProd c; PProd d0] None] 0 (Some 1) 0 1 true :: rest).
Proof.
  intros Ha Hb Hc. cbn -[tmatches topt]. cbn [tmatches]. rewrite Ha, Hb, Hc. cbn -[tmatches topt]. cbn [tmatches].
  rewrite Ha, Hb, Hc. reflexivity.
Qed.
Lemma tm_color_ident v : tok_matches p_color (Some (T "IDENT" v)) = mem_s (normalize v) color_keys.
Proof. reflexivity. Qed.
Lemma find_identval pf ctx v fu : mem_s (normalize v) color_keys = false ->
  find (S (S fu)) (fColon 1 0 :: fE pf 3 0 :: ctx) (T "IDENT" v) = FFound p_value (fVals :: fColon 0 1 :: fE pf 3 0 :: ctx).
Proof. intros H. apply find_val3_generic; [rewrite tm_color_ident; exact H|reflexivity|reflexivity]. Qed.
Lemma plain_dim ty : ty = "NUMBER"%string \/ ty = "DIMENSION"%string \/ ty = "PERCENTAGE"%string -> plain_ty (s ty).
Proof. intros [-> | [-> | ->]]; repeat split. Qed.

Section MQ.
  Variable sub : nat -> bool -> tok -> list tok -> out.
  Variable postof : nat -> option postcode.
  Variable lay : layout.
  Hypothesis Hd : dim_ok sub postof.
  Notation LOOP := (loop opts0 sub postof).

  Definition it_close : item := IStr (s "CHAR") (s ")").
  Definition x_val (e : mexpr) : list item :=
    match me_val e with
    | None => []
    | Some (g, t) => tok_items [ch ":"] ++ tok_items (gopt lay g) ++ dim_item t ++ tok_items (gopt lay (me_g2 e))
    end.
  Definition x_inner' (e : mexpr) : list item :=
    tok_items (gopt lay (me_g0 e)) ++ tok_items [T "IDENT" (me_feat e)] ++ tok_items (gopt lay (me_g1 e)) ++ x_val e.
  Definition andtok (gc : nat) : tok := T "IDENT" (cased lay gc (s "and")).
  Fixpoint x_ands (l : list (nat * nat * nat * mexpr)) : list item :=
    match l with
    | [] => []
    | (ga, gc, gb, e) :: r =>
        tok_items (greq lay ga) ++ tok_items [andtok gc] ++ tok_items (greq lay gb) ++ tok_items [ch "("] ++
        x_inner' e ++ [it_close] ++ x_ands r
    end.
  Fixpoint sto_ands (ns : bool) (l : list (nat * nat * nat * mexpr)) (sto : store) : store :=
    match l with
    | [] => sto
    | (ga, gc, gb, e) :: r => sto_ands ns r (if ns then store_add (s "not simple") (cased lay gc (s "and")) sto else sto)
    end.

  Lemma process_sub_g p tk st lab g r pc w its mt :
    p_stopkeep p = false -> p_toseq p = ASub (Some lab) g -> l_own st = SOff -> l_anc st = false ->
    sub g false tk (l_rest st) = Ret r -> postof g = Some pc -> post pc r = PRet w its mt ->
    p_stop p = false -> p_nextsor p = false -> p_store p = None ->
    process sub postof p tk st =
    LCont (set_defaultS (add_item (set_stash (set_stream st SOff (false && r_anc r) (r_rest r)) (r_stash r))
                                  (IObj lab g w its mt)) true).
  Proof.
    intros Hk Ha Hown Hanc Hsub Hpo Hpost Hstop Hns Hsto. unfold process. rewrite Hk, Ha, Hown, Hanc. cbn [orb].
    rewrite Hsub, Hpo, Hpost. rewrite Hstop, Hns. unfold do_store. rewrite Hsto. reflexivity.
  Qed.

  (* the Dimension production: the sub-parser consumes exactly the token *)
  Lemma run_dim ty v v' stk stk' k acc sto sd nm strict rest :
    plain_ty (s ty) -> find (find_fuel stk) stk (T ty v) = FFound p_dim stk' ->
    sub 6 false (T ty v) rest = Ret (leaf (IStr (s ty) v') rest) -> is_comment_item (IStr (s ty) v') = false ->
    LOOP (length (T ty v :: rest) + k) (mst stk (rev acc) sto sd nm strict (T ty v :: rest)) =
    LOOP (length rest + k) (mst stk' (rev (acc ++ [dim_obj ty v'])) sto true nm true rest).
  Proof.
    intros Hp Hf Hsub Hc. destruct Hd as [Hpo _]. cbn [length Nat.add]. rewrite loop_unfold.
    change (pull (mst stk (rev acc) sto sd nm strict (T ty v :: rest)))
      with (Some (T ty v, mst stk (rev acc) sto sd nm strict rest)).
    cbv iota beta. rewrite (body_found sub postof (T ty v) (mst stk (rev acc) sto sd nm strict rest) p_dim stk' Hp Hf).
    erewrite (process_sub_g p_dim (T ty v) _ (s "DIMENSION") 6 _ PostDim true [IStr (s ty) v'] []);
      [|reflexivity|reflexivity|reflexivity|reflexivity|exact Hsub|exact Hpo| |reflexivity..].
    2:{ unfold post, leaf. cbn [r_wf r_items value_item List.find]. rewrite Hc. reflexivity. }
    cbv iota beta. rewrite rev_unit. reflexivity.
  Qed.

  (* the Value production on an identifier *)
  Lemma run_ident4 v stk stk' k acc sto sd nm strict rest :
    find (find_fuel stk) stk (T "IDENT" v) = FFound p_value stk' ->
    LOOP (length (T "IDENT" v :: rest) + k) (mst stk (rev acc) sto sd nm strict (T "IDENT" v :: rest)) =
    LOOP (length rest + k) (mst stk' (rev (acc ++ [IObj (s "Value") 4 true [IStr (s "IDENT") v] []])) sto true nm true rest).
  Proof.
    intros Hf. destruct Hd as (_ & _ & _ & _ & Hpo4 & Hid). cbn [length Nat.add]. rewrite loop_unfold.
    change (pull (mst stk (rev acc) sto sd nm strict (T "IDENT" v :: rest)))
      with (Some (T "IDENT" v, mst stk (rev acc) sto sd nm strict rest)).
    cbv iota beta. rewrite (body_found sub postof (T "IDENT" v) (mst stk (rev acc) sto sd nm strict rest) p_value stk' plain_ident Hf).
    erewrite (process_sub_g p_value (T "IDENT" v) _ (s "Value") 4 _ PostFirst true [IStr (s "IDENT") v] []);
      [|reflexivity|reflexivity|reflexivity|reflexivity|apply Hid|exact Hpo4|reflexivity|reflexivity..].
    cbv iota beta. rewrite rev_unit. reflexivity.
  Qed.

  (* the value part of an expression: nothing, or  ':' gap dimension gap *)
  Lemma run_value pf ctx e k acc sto sd nm rest : wf_val (me_val e) ->
    LOOP (length (v_toks lay e ++ ch ")" :: rest) + k)
         (mst (fE pf 2 0 :: ctx) (rev acc) sto sd nm true (v_toks lay e ++ ch ")" :: rest)) =
    LOOP (length rest + k) (mst (fE pf 0 1 :: ctx) (rev ((acc ++ x_val e) ++ [it_close])) sto true (pf || nm) true rest).
  Proof.
    unfold v_toks, x_val. destruct (me_val e) as [[g t]|]; intros Hw.
    - cbn [wf_val] in Hw. cbn [app]. repeat (rewrite <- app_assoc; cbn [app]).
      rewrite (run_tok sub postof (ch ":") p_colon (fColon 1 0 :: fE pf 3 0 :: ctx));
        [|exact plain_char|apply find_colon|reflexivity..].
      rewrite (run_gap' sub postof _ (gapl_opt lay g)).
      cbn [p_store p_colon P p_stopnm p_mayend orb negb].
      destruct Hd as (_ & Hn & Hdi & Hpc & _ & _).
      assert (Hdimcase : forall ty v v', r_term lay t = [T ty v] -> dim_item t = [dim_obj ty v'] ->
                (ty = "NUMBER"%string \/ ty = "DIMENSION"%string \/ ty = "PERCENTAGE"%string) ->
                (forall rest, sub 6 false (T ty v) rest = Ret (leaf (IStr (s ty) v') rest)) ->
                loop opts0 sub postof (length (r_term lay t ++ gopt lay (me_g2 e) ++ ch ")" :: rest) + k)
                  (mst (fColon 1 0 :: fE pf 3 0 :: ctx) (rev ((acc ++ tok_items [ch ":"]) ++ tok_items (gopt lay g))) sto true nm true
                       (r_term lay t ++ gopt lay (me_g2 e) ++ ch ")" :: rest)) =
                loop opts0 sub postof (length rest + k)
                  (mst (fE pf 0 1 :: ctx)
                       (rev (acc ++ tok_items [ch ":"] ++ tok_items (gopt lay g) ++ dim_item t ++ tok_items (gopt lay (me_g2 e)) ++ [it_close]))
                       sto true (pf || nm) true rest)).
      { intros ty v v' -> -> Hty Hs. cbn [app].
        rewrite (run_dim ty v v' _ (fVals :: fColon 0 1 :: fE pf 3 0 :: ctx));
          [|apply plain_dim, Hty|apply find_dimtok, Hty|apply Hs|destruct Hty as [-> | [-> | ->]]; reflexivity].
        rewrite (run_gap' sub postof _ (gapl_opt lay (me_g2 e))).
        rewrite (run_tok sub postof (ch ")") (p_close pf) (fE pf 0 1 :: ctx));
          [|exact plain_char|apply find_close_v|reflexivity..].
        cbn [p_store p_close P p_stopnm p_mayend orb negb]. rewrite <- !app_assoc. reflexivity. }
      destruct t; cbn [is_dim] in Hw; try contradiction.
      + cbn [r_term dim_item app].
        rewrite (run_ident4 v _ (fVals :: fColon 0 1 :: fE pf 3 0 :: ctx)); [|apply find_identval, Hw].
        rewrite (run_gap' sub postof _ (gapl_opt lay (me_g2 e))).
        rewrite (run_tok sub postof (ch ")") (p_close pf) (fE pf 0 1 :: ctx));
          [|exact plain_char|apply find_close_v|reflexivity..].
        cbn [p_store p_close P p_stopnm p_mayend orb negb]. rewrite <- !app_assoc. reflexivity.
      + apply (Hdimcase "NUMBER"%string (num_lex n) (num_lex n)); auto.
      + apply (Hdimcase "DIMENSION"%string (num_lex n ++ u) (normalize (num_lex n ++ u))); auto.
      + apply (Hdimcase "PERCENTAGE"%string (num_lex n ++ s "%") (num_lex n ++ s "%")); auto.
    - cbn [app].
      rewrite (run_tok sub postof (ch ")") (p_close pf) (fE pf 0 1 :: ctx));
        [|exact plain_char|apply find_close|reflexivity..].
      cbn [p_store p_close P p_stopnm p_mayend orb negb]. rewrite app_nil_r. reflexivity.
  Qed.

  Lemma run_expr_inner pf ctx e k acc sto sd nm strict rest : wf_val (me_val e) ->
    LOOP (length (gopt lay (me_g0 e) ++ T "IDENT" (me_feat e) :: gopt lay (me_g1 e) ++ v_toks lay e ++ ch ")" :: rest) + k)
         (mst (fE pf 1 0 :: ctx) (rev acc) sto sd nm strict
              (gopt lay (me_g0 e) ++ T "IDENT" (me_feat e) :: gopt lay (me_g1 e) ++ v_toks lay e ++ ch ")" :: rest)) =
    LOOP (length rest + k) (mst (fE pf 0 1 :: ctx) (rev ((acc ++ x_inner' e) ++ [it_close])) sto true (pf || nm) true rest).
  Proof.
    intros Hw.
    rewrite (run_gap' sub postof _ (gapl_opt lay (me_g0 e))).
    rewrite (run_tok sub postof (T "IDENT" (me_feat e)) p_feat (fE pf 2 0 :: ctx));
      [|exact plain_ident|apply find_feat|reflexivity..].
    rewrite (run_gap' sub postof _ (gapl_opt lay (me_g1 e))).
    cbn [p_store p_feat P p_stopnm p_mayend orb negb].
    rewrite (run_value pf ctx e k _ _ _ _ rest Hw).
    unfold x_inner'. rewrite <- !app_assoc. reflexivity.
  Qed.

  Lemma mexpr_shape e rest :
    r_mexpr lay e ++ rest =
    ch "(" :: gopt lay (me_g0 e) ++ T "IDENT" (me_feat e) :: gopt lay (me_g1 e) ++ v_toks lay e ++ ch ")" :: rest.
  Proof. unfold r_mexpr, v_toks. cbn [app]. repeat (rewrite <- app_assoc; cbn [app]). reflexivity. Qed.

  Lemma mexprs_shape ga gc gb e r rest :
    r_mexprs lay false ((ga, gc, gb, e) :: r) ++ rest =
    greq lay ga ++ andtok gc :: greq lay gb ++ ch "(" :: gopt lay (me_g0 e) ++ T "IDENT" (me_feat e) :: gopt lay (me_g1 e) ++
    v_toks lay e ++ ch ")" :: r_mexprs lay false r ++ rest.
  Proof.
    cbn [r_mexprs]. unfold andtok. repeat (rewrite <- app_assoc; cbn [app]). rewrite mexpr_shape. reflexivity.
  Qed.

  Lemma run_tail pf ns base : final base true true = FinOk true ->
    forall l, Forall (fun x => wf_val (me_val (snd x))) l ->
    forall stk acc0 it sto sd nm k, ready pf ns base stk -> eqs (item_ty it) (s "S") = false ->
    LOOP (length (r_mexprs lay false l) + S k) (mst stk (rev (acc0 ++ [it])) sto sd nm true (r_mexprs lay false l)) =
    Ret (mkRes true ((acc0 ++ [it]) ++ x_ands l) (sto_ands ns l sto) false None SOff false [] stash0).
  Proof.
    intros Hb. induction 1 as [|[[[ga gc] gb] e] r Hv Hr IH]; intros stk acc0 it sto sd nm k Hrd Hit.
    - cbn [r_mexprs length Nat.add x_ands sto_ands]. rewrite app_nil_r. apply run_end; [apply Hrd|exact Hit].
    - destruct Hrd as [[r0 Hand] _]. cbn [snd] in Hv.
      rewrite <- (app_nil_r (r_mexprs lay false ((ga, gc, gb, e) :: r))). rewrite mexprs_shape. rewrite app_nil_r.
      rewrite (run_gap' sub postof _ (gapl_req lay ga)).
      rewrite (run_tok sub postof (andtok gc) (p_and ns) (fAnd pf ns 1 r0 :: base));
        [|exact plain_ident|exact (Hand (Nat.odd (lk lay gc)))|destruct ns; reflexivity..].
      rewrite (run_gap' sub postof _ (gapl_req lay gb)).
      rewrite (run_tok sub postof (ch "(") p_open (fE pf 1 0 :: fAnd pf ns 0 (S r0) :: base));
        [|exact plain_char|apply find_open_A|reflexivity..].
      rewrite (run_expr_inner _ _ _ _ _ _ _ _ _ _ Hv).
      rewrite (IH _ _ it_close _ _ _ k (ready_R pf ns base (S r0) Hb) eq_refl).
      cbn [x_ands sto_ands]. f_equal. f_equal.
      + rewrite <- !app_assoc. reflexivity.
      + destruct ns; reflexivity.
  Qed.
End MQ.

(* ------------------------------------------------------------------ stage 2: the media query grammar accepts the rendered queries *)
(* side conditions on the AST (all needed, see the comments):
   - a media type must not read as ONLY/NOT (else alternative 1 takes it as the prefix) and must be one of MEDIA_TYPES:
     with only/not an unknown type is a "Missing token for production media_type" error in the implementation
     (the first alternative of the Choice is selected by the prefix), so known types are required there; a query that is a
     bare unknown type takes alternative 3 (not covered here);
   - without a media type there must be an expression;
   - expressions without values (me_val = None): stage 3 is not covered *)
Definition wf_mq (q : mquery) : Prop :=
  match mq_type q with
  | Some t => not_neg t /\ (known_type t \/ (mq_neg q = 0 /\ unknown_type t))
  | None => mq_exprs q <> []
  end /\ Forall (fun x => me_val (snd x) = None) (mq_exprs q).

Definition wf_mqv (q : mquery) : Prop :=
  match mq_type q with
  | Some t => not_neg t /\ (known_type t \/ (mq_neg q = 0 /\ unknown_type t))
  | None => mq_exprs q <> []
  end /\ Forall (fun x => wf_val (me_val (snd x))) (mq_exprs q).
Lemma wf_mq_v q : wf_mq q -> wf_mqv q.
Proof. intros [H1 H2]. split; [exact H1|]. eapply Forall_impl; [|exact H2]. intros x Hx. cbn beta. rewrite Hx. exact I. Qed.

Definition subE (d : nat) : nat -> bool -> tok -> list tok -> out := fun g a t l => pparse_sub d env_real g a (Some t) l.
Definition poE := postof_env env_real.

Lemma dim_ok_subE D : dim_ok (subE (S D)) poE.
Proof. split; [reflexivity|]. repeat split; first [reflexivity | intros v rest; lazy -[normalize]; reflexivity]. Qed.

Definition negtok lay (q : mquery) : tok :=
  T "IDENT" (cased lay (mq_gcase q) (match mq_neg q with 1 => s "only" | _ => s "not" end)).

(* the sequence and the store the parse builds *)
Definition x_mquery lay (q : mquery) : list item :=
  match mq_type q with
  | Some t =>
      match mq_neg q with
      | 0 => []
      | _ => tok_items [negtok lay q] ++ tok_items (greq lay (mq_g0 q))
      end ++ tok_items [T "IDENT" t] ++ x_ands lay (mq_exprs q)
  | None =>
      match mq_exprs q with
      | [] => []
      | (_, _, _, e) :: r => tok_items [ch "("] ++ x_inner' lay e ++ [it_close] ++ x_ands lay r
      end
  end.
Definition sto_mquery lay (q : mquery) : store :=
  match mq_type q with
  | Some t =>
      sto_ands lay true (mq_exprs q)
        (store_add (s "media_type") t
           (match mq_neg q with 0 => [] | _ => [(s "not simple", [val (negtok lay q)])] end))
  | None => []
  end.

Lemma pparse_mq_unfold d lay q :
  pparse d env_real true opts0 tree_MediaQuery (r_mquery lay q) stash0 =
  loop opts0 (fun g' a' t' l' => pparse_sub d env_real g' a' (Some t') l') (postof_env env_real)
       (length (r_mquery lay q) + 3) (mst (c0 false) (rev []) [] false false false (r_mquery lay q)).
Proof.
  unfold pparse, parse_tree. rewrite tree_MediaQuery_eq. unfold init_state. rewrite enter_mq.
  replace (loop_fuel stash0 (r_mquery lay q)) with (length (r_mquery lay q) + 3) by (unfold loop_fuel; cbn; lia).
  reflexivity.
Qed.

Theorem media_query_accepts_items_v d lay q : wf_mqv q ->
  pparse (S d) env_real true opts0 tree_MediaQuery (r_mquery lay q) stash0 =
  Ret (mkRes true (x_mquery lay q) (sto_mquery lay q) false None SOff false [] stash0).
Proof.
  intros [Ht Hv]. rewrite pparse_mq_unfold.
  change (fun g' a' t' l' => pparse_sub (S d) env_real g' a' (Some t') l') with (subE (S d)).
  change (postof_env env_real) with poE.
  set (sub := subE (S d)). set (po := poE). pose proof (dim_ok_subE d : dim_ok sub po) as Hd.
  unfold r_mquery, x_mquery, sto_mquery. destruct (mq_type q) as [t|] eqn:Et.
  - destruct Ht as [Hn Hk]. destruct (mq_neg q) as [|n] eqn:En.
    + cbn [app]. destruct Hk as [Hk|[_ Hu]].
      * rewrite (run_tok sub po (T "IDENT" t) p_type_known [fAlt false 0 2 0; fRoot false true]);
          [|exact plain_ident|apply find_type_known0; assumption|reflexivity..].
        cbn [p_store p_type_known P p_stopnm p_mayend orb negb val T].
        change (rev ([] ++ tok_items [T "IDENT" t])) with (rev ([] ++ [IStr (s "IDENT") t])).
        rewrite (run_tail sub po lay Hd false true _ (proj2 (proj2 (ready_T1 false))) _ Hv _ [] (IStr (s "IDENT") t) _ _ _ 2 (ready_T1 false) eq_refl).
        reflexivity.
      * rewrite (run_tok sub po (T "IDENT" t) p_type_any [fAlt false 2 2 0; fRoot false true]);
          [|exact plain_ident|apply find_type_any0; assumption|reflexivity..].
        cbn [p_store p_type_any P p_stopnm p_mayend orb negb val T].
        change (rev ([] ++ tok_items [T "IDENT" t])) with (rev ([] ++ [IStr (s "IDENT") t])).
        rewrite (run_tail sub po lay Hd false true _ (proj2 (proj2 (ready_T3 false))) _ Hv _ [] (IStr (s "IDENT") t) _ _ _ 2 (ready_T3 false) eq_refl).
        reflexivity.
    + destruct Hk as [Hk|[E0 _]]; [|congruence].
      assert (Hnt : (if match n with 0 => true | _ => false end then T "IDENT" (cased lay (mq_gcase q) (s "only"))
                     else T "IDENT" (cased lay (mq_gcase q) (s "not"))) = negtok lay q)
        by (unfold negtok; rewrite En; destruct n; reflexivity).
      assert (Htoks : match S n with
                      | 0 => []
                      | 1 => T "IDENT" (cased lay (mq_gcase q) (s "only")) :: greq lay (mq_g0 q)
                      | S (S _) => T "IDENT" (cased lay (mq_gcase q) (s "not")) :: greq lay (mq_g0 q)
                      end = negtok lay q :: greq lay (mq_g0 q))
        by (rewrite <- Hnt; destruct n; reflexivity).
      rewrite Htoks. clear Htoks Hnt. cbn [app].
      assert (Hfn : find (find_fuel (c0 false)) (c0 false) (negtok lay q) = FFound p_onlynot [fAlt false 0 1 0; fRoot false true]).
      { unfold negtok. rewrite En. destruct n.
        - exact (find_neg false (Nat.odd (lk lay (mq_gcase q))) "only" (or_introl eq_refl)).
        - exact (find_neg false (Nat.odd (lk lay (mq_gcase q))) "not" (or_intror eq_refl)). }
      rewrite (run_tok sub po (negtok lay q) p_onlynot [fAlt false 0 1 0; fRoot false true]);
        [|exact plain_ident|exact Hfn|reflexivity..].
      rewrite (run_gap' sub po _ (gapl_req lay (mq_g0 q))).
      rewrite (run_tok sub po (T "IDENT" t) p_type_known [fAlt false 0 2 0; fRoot false true]);
        [|exact plain_ident|apply find_type_known1; assumption|reflexivity..].
      cbn [p_store p_type_known p_onlynot P p_stopnm p_mayend orb negb].
      change (tok_items [T "IDENT" t]) with [IStr (s "IDENT") t].
      rewrite (run_tail sub po lay Hd false true _ (proj2 (proj2 (ready_T1 false))) _ Hv _ _ (IStr (s "IDENT") t) _ _ _ 2 (ready_T1 false) eq_refl).
      f_equal. f_equal. rewrite <- !app_assoc. reflexivity.
  - destruct (mq_exprs q) as [|[[[ga gc] gb] e] r] eqn:El; [congruence|].
    inversion Hv as [|? ? Hve Hvr]; subst. cbn [snd] in Hve.
    cbn [r_mexprs app]. rewrite (mexpr_shape lay).
    rewrite (run_tok sub po (ch "(") p_open [fE false 1 0; fAlt false 1 1 0; fRoot false true]);
      [|exact plain_char|apply find_open0|reflexivity..].
    rewrite (run_expr_inner sub po lay Hd _ _ _ _ _ _ _ _ _ _ Hve).
    cbn [p_store p_open P p_stopnm p_mayend orb negb].
    rewrite (run_tail sub po lay Hd false false _ (proj2 (proj2 (ready_T2 false))) _ Hvr _ _ it_close _ _ _ 2 (ready_T2 false) eq_refl).
    f_equal. f_equal.
    + rewrite <- !app_assoc. reflexivity.
    + clear. generalize (@nil (str * list str)). induction r as [|[[[a b] c] e'] r IH]; intros sto; [reflexivity|apply IH].
Qed.

Theorem media_query_accepts_items d lay q : wf_mq q ->
  pparse (S d) env_real true opts0 tree_MediaQuery (r_mquery lay q) stash0 =
  Ret (mkRes true (x_mquery lay q) (sto_mquery lay q) false None SOff false [] stash0).
Proof. intros H. apply media_query_accepts_items_v, wf_mq_v, H. Qed.

(* ------------------------------------------------------------------ MediaQuery.mediaType (mediaquery.py:182-193) *)
Lemma sg_add_same k v sto : store_get k (store_add k v sto) <> None.
Proof.
  induction sto as [|[k' vs] r IH]; cbn [store_add store_get]; [rewrite eqs_refl; discriminate|].
  destruct (eqs k' k) eqn:E; cbn [store_get]; rewrite E; [discriminate|exact IH].
Qed.
Lemma sg_add_pres k k' v sto : store_get k sto <> None -> store_get k (store_add k' v sto) <> None.
Proof.
  induction sto as [|[k2 vs] r IH]; cbn [store_add store_get]; [congruence|]. intros H.
  destruct (eqs k2 k') eqn:E1; cbn [store_get]; destruct (eqs k2 k) eqn:E2; try discriminate; auto.
Qed.
Lemma sto_ands_ns lay l : forall sto, store_get (s "not simple") sto <> None ->
  store_get (s "not simple") (sto_ands lay true l sto) <> None.
Proof. induction l as [|[[[a b] c] e] r IH]; intros sto H; cbn [sto_ands]; [exact H|]. apply IH, sg_add_pres, H. Qed.
Lemma mq_mediatype_ns sto : store_get (s "not simple") sto <> None -> mq_mediatype sto = [].
Proof.
  unfold mq_mediatype. intros H. destruct (store_get (s "media_type") sto) as [[|v vs]|];
    destruct (store_get (s "not simple") sto); congruence.
Qed.

(* the media type is kept iff the query is simple: no only/not, no expression *)
Definition simple_type (q : mquery) : str :=
  match mq_type q, mq_neg q, mq_exprs q with Some t, 0, [] => t | _, _, _ => [] end.
Lemma mq_mediatype_sto lay q : mq_mediatype (sto_mquery lay q) = simple_type q.
Proof.
  unfold sto_mquery, simple_type. destruct (mq_type q) as [t|]; [|reflexivity]. destruct (mq_neg q) as [|n].
  - destruct (mq_exprs q) as [|[[[a b] c] e] r]; [reflexivity|].
    apply mq_mediatype_ns. cbn [sto_ands]. apply sto_ands_ns, sg_add_same.
  - assert (H : mq_mediatype (sto_ands lay true (mq_exprs q)
                 (store_add (s "media_type") t [(s "not simple", [val (negtok lay q)])])) = []).
    { apply mq_mediatype_ns, sto_ands_ns, sg_add_pres. cbn [store_get]. rewrite eqs_refl. discriminate. }
    rewrite H. destruct (mq_exprs q); reflexivity.
Qed.

Theorem media_query_accepts : forall q lay, wf_mq q ->
  exists r, pparse 6 env_real true opts0 tree_MediaQuery (r_mquery lay q) stash0 = Ret r /\
            r_wf r = true /\ r_items r = x_mquery lay q /\ mq_mediatype (r_store r) = simple_type q /\
            r_rest r = [] /\ saved (r_stash r) = [].
Proof.
  intros q lay H. eexists. split; [apply media_query_accepts_items; exact H|]. cbn [r_wf r_items r_store r_rest r_stash].
  repeat split. apply mq_mediatype_sto.
Qed.

(* the hypotheses are satisfiable: `ONLY screen and (color)` in a layout with comments *)
Example media_query_accepts_ex :
  wf_mq (mkMQ 1 0 1 (Some (s "screen")) [(2, 3, 4, mkMExpr 0 (s "color") 1 None 2)]).
Proof. split; [split; [reflexivity|left; reflexivity]|repeat constructor]. Qed.

(* a bare unknown media type takes alternative 3 of the root Choice *)
Example media_query_accepts_ex3 :
  wf_mq (mkMQ 0 0 1 (Some (s "foo")) [(2, 3, 4, mkMExpr 0 (s "color") 1 None 2)]).
Proof. split; [split; [reflexivity|right; repeat split]|repeat constructor]. Qed.

(* ------------------------------------------------------------------ the sequence, token by token *)
Lemma tok_items_cons t l : tok_items (t :: l) = tok_items [t] ++ tok_items l.
Proof. change (t :: l) with ([t] ++ l). apply tok_items_app. Qed.

Lemma x_ands_tok lay l : Forall (fun x => me_val (snd x) = None) l -> x_ands lay l = tok_items (r_mexprs lay false l).
Proof.
  induction 1 as [|[[[ga gc] gb] e] r Hv Hr IH]; [reflexivity|]. cbn [snd] in Hv.
  rewrite <- (app_nil_r (r_mexprs lay false ((ga, gc, gb, e) :: r))), (mexprs_shape lay _ _ _ _ _ []), app_nil_r.
  unfold v_toks. rewrite Hv. cbn [app].
  rewrite tok_items_app, (tok_items_cons (andtok lay gc)), tok_items_app, (tok_items_cons (ch "(")), tok_items_app,
    (tok_items_cons (T "IDENT" (me_feat e))), tok_items_app, (tok_items_cons (ch ")")).
  rewrite <- IH. cbn [x_ands]. unfold x_inner', x_val. rewrite Hv, app_nil_r. rewrite <- !app_assoc. reflexivity.
Qed.

(* every token of the rendering becomes one item, whitespace is dropped, comments become CSSComment items *)
Lemma x_mquery_tok lay q : wf_mq q -> x_mquery lay q = tok_items (r_mquery lay q).
Proof.
  intros [Ht Hv]. unfold r_mquery. destruct (mq_type q) as [t|] eqn:Et.
  - rewrite tok_items_app, (tok_items_cons (T "IDENT" t)), <- (x_ands_tok lay _ Hv).
    unfold x_mquery. rewrite Et. f_equal.
    unfold negtok. destruct (mq_neg q) as [|[|n]]; [reflexivity| |];
      rewrite (tok_items_cons (T "IDENT" _)); reflexivity.
  - unfold x_mquery. rewrite Et. destruct (mq_exprs q) as [|[[[ga gc] gb] e] r]; [reflexivity|].
    inversion Hv as [|? ? Hve Hvr]; subst. cbn [snd] in Hve.
    cbn [r_mexprs app]. unfold r_mexpr. rewrite Hve. cbn [app]. repeat (rewrite <- app_assoc; cbn [app]).
    match goal with |- ?L = _ => set (lhs := L) end.
    rewrite (tok_items_cons (ch "(")), tok_items_app, (tok_items_cons (T "IDENT" (me_feat e))), tok_items_app,
      (tok_items_cons (ch ")")).
    rewrite <- (x_ands_tok lay _ Hvr). subst lhs. unfold x_inner', x_val. rewrite Hve, app_nil_r. rewrite <- !app_assoc. reflexivity.
Qed.

Corollary media_query_accepts_tokens q lay : wf_mq q ->
  exists r, pparse 6 env_real true opts0 tree_MediaQuery (r_mquery lay q) stash0 = Ret r /\
            r_wf r = true /\ r_items r = tok_items (r_mquery lay q) /\ mq_mediatype (r_store r) = simple_type q.
Proof.
  intros H. destruct (media_query_accepts q lay H) as (r & H1 & H2 & H3 & H4 & _). exists r.
  rewrite <- (x_mquery_tok lay q H). auto.
Qed.

(* ================================================================== stage 4: media lists *)
(* ------------------------------------------------------------------ fuel-free runs *)
Section Runs.
  Variable sub : nat -> bool -> tok -> list tok -> out.
  Variable postof : nat -> option postcode.
  Notation LOOP := (loop opts0 sub postof).

  Lemma loop_mono n : forall st x, LOOP n st = x -> x <> OutOfFuel -> forall m, n <= m -> LOOP m st = x.
  Proof.
    induction n as [|n IH]; intros st x H Hx m Hm; [cbn in H; congruence|].
    destruct m as [|m]; [lia|]. rewrite loop_unfold in H |- *.
    destruct (pull st) as [[t st1]|]; [|exact H].
    destruct (body opts0 sub postof t st1); [apply IH; [exact H|exact Hx|lia]|exact H|exact H].
  Qed.

  Definition runs (st : lstate) (r : result) : Prop := exists n, LOOP n st = Ret r.

  Lemma runs_step a b st st' r : (forall k, LOOP (a + k) st = LOOP (b + k) st') -> runs st' r -> runs st r.
  Proof. intros H [n Hn]. exists (a + n). rewrite H. apply (loop_mono n); [exact Hn|discriminate|lia]. Qed.

  Lemma runs_fuel st r m : runs st r -> LOOP m st <> OutOfFuel -> LOOP m st = Ret r.
  Proof.
    intros [n Hn] Hm. destruct (le_lt_dec n m) as [Hle|Hlt].
    - apply (loop_mono n); [exact Hn|discriminate|exact Hle].
    - rewrite <- Hn. symmetry. apply (loop_mono m); [reflexivity|exact Hm|lia].
  Qed.

  Definition last_noS (acc : list item) : Prop := exists a it, acc = a ++ [it] /\ eqs (item_ty it) (s "S") = false.
  Lemma last_noS_gap g : gapl g -> forall acc, last_noS acc -> last_noS (acc ++ tok_items g).
  Proof.
    induction 1 as [|t g Ht Hg IH]; intros acc Ha; [cbn; now rewrite app_nil_r|].
    rewrite tok_items_cons, app_assoc. apply IH.
    unfold tok_items, isS, isC. cbn [flat_map]. destruct Ht as [Ht|Ht]; rewrite Ht.
    - cbn. now rewrite app_nil_r.
    - cbn. exists acc, (IStr (s "CSSComment") (val t)). split; reflexivity.
  Qed.

  Lemma runs_end stk acc sto sd nm strict :
    last_noS acc -> final stk strict true = FinOk true ->
    runs (mst stk (rev acc) sto sd nm strict []) (mkRes true acc sto false None SOff false [] stash0).
  Proof. intros (a & it & -> & Hit) Hf. exists 1. now apply run_end. Qed.

  Lemma body_nomatch tk st stk' :
    plain_ty (ty tk) -> find (find_fuel (l_stack st)) (l_stack st) tk = FNoMatch stk' -> l_stopnm st = true ->
    body opts0 sub postof tk st =
    LBreak (set_stopall (set_stash (set_stack (set_started st) stk' false) (push_saved tk (l_stash st)))).
  Proof.
    intros (H1 & H2 & H3 & H4) Hf Hnm. unfold body. cbn [opts0 o_checkS andb]. rewrite H1, H2, H3, H4.
    rewrite andb_false_r. cbn [andb]. change (l_stack (set_started st)) with (l_stack st). rewrite Hf.
    change (l_stopnm (set_stack (set_started st) stk' false)) with (l_stopnm st). rewrite Hnm. reflexivity.
  Qed.

  Lemma finish_stopall st : l_stopall st = true ->
    finish opts0 st = Ret (mkRes (l_wf st) (rev (rstripS (l_seq st))) (l_store st) false (l_keep st) (l_own st) (l_anc st)
                                 (l_rest st) (l_stash st)).
  Proof. intros H. unfold finish. rewrite H. reflexivity. Qed.

  (* stopIfNoMoreMatch: the token that matches nothing goes to savedTokens, the parse returns what it has *)
  Lemma runs_stop stk stk' acc sto sd strict tl :
    last_noS acc -> find (find_fuel stk) stk (ch ",") = FNoMatch stk' ->
    runs (mst stk (rev acc) sto sd true strict (ch "," :: tl))
         (mkRes true acc sto false None SOff false tl (mkStash [ch ","] [])).
  Proof.
    intros (a & it & -> & Hit) Hf. exists 1. rewrite loop_unfold.
    change (pull (mst stk (rev (a ++ [it])) sto sd true strict (ch "," :: tl)))
      with (Some (ch ",", mst stk (rev (a ++ [it])) sto sd true strict tl)).
    cbv iota beta. rewrite (body_nomatch (ch ",") (mst stk (rev (a ++ [it])) sto sd true strict tl) stk' plain_char Hf eq_refl).
    rewrite finish_stopall by reflexivity.
    change (Ret (mkRes true (rev (rstripS (rev (a ++ [it])))) sto false None SOff false tl (mkStash [ch ","] [])) =
            Ret (mkRes true (a ++ [it]) sto false None SOff false tl (mkStash [ch ","] []))).
    rewrite rev_unit. cbn [rstripS]. rewrite Hit. rewrite <- rev_unit, rev_involutive. reflexivity.
  Qed.
End Runs.

(* ------------------------------------------------------------------ a query followed by a gap and then the end or ',' *)
Definition bse pf (a : nat) : list frame := [fAlt pf a 0 1; fRoot pf true].
Definition cready (stk : list frame) : Prop := exists s2, find (find_fuel stk) stk (ch ",") = FNoMatch s2.

Lemma final_bse pf a : a < 3 -> final (bse pf a) true true = FinOk true.
Proof. intros Ha. destruct pf, a as [|[|[|a]]]; try lia; reflexivity. Qed.
Lemma cready_R pf ns a rnd : a < 3 -> cready (fE pf 0 1 :: fAnd pf ns 0 rnd :: bse pf a).
Proof. intros Ha. destruct pf, ns, a as [|[|[|a]]]; try lia; eexists; vm_compute; reflexivity. Qed.
Lemma cready_T1 pf : cready [fAlt pf 0 2 0; fRoot pf true].
Proof. destruct pf; eexists; vm_compute; reflexivity. Qed.
Lemma cready_T3 pf : cready [fAlt pf 2 2 0; fRoot pf true].
Proof. destruct pf; eexists; vm_compute; reflexivity. Qed.
Lemma cready_T2 pf : cready [fE pf 0 1; fAlt pf 1 1 0; fRoot pf true].
Proof. destruct pf; eexists; vm_compute; reflexivity. Qed.

Lemma and_store ns v sto :
  match p_store (p_and ns) with Some key => store_add key v sto | None => sto end =
  if ns then store_add (s "not simple") v sto else sto.
Proof. destruct ns; reflexivity. Qed.

Section MQ2.
  Variable sub : nat -> bool -> tok -> list tok -> out.
  Variable postof : nat -> option postcode.
  Variable lay : layout.
  Hypothesis Hd : dim_ok sub postof.
  Notation RUNS := (runs sub postof).

  Lemma runs_tail pf ns a : a < 3 ->
    forall l, Forall (fun x => wf_val (me_val (snd x))) l ->
    forall stk acc sto sd nm rest r, ready pf ns (bse pf a) stk -> cready stk ->
    (forall stk' sd' nm', ready pf ns (bse pf a) stk' -> cready stk' -> (nm = true \/ (pf = true /\ l <> []) -> nm' = true) ->
       RUNS (mst stk' (rev (acc ++ x_ands lay l)) (sto_ands lay ns l sto) sd' nm' true rest) r) ->
    RUNS (mst stk (rev acc) sto sd nm true (r_mexprs lay false l ++ rest)) r.
  Proof.
    intros Ha. induction 1 as [|[[[ga gc] gb] e] l Hv Hl IH]; intros stk acc sto sd nm rest r Hrd Hc K.
    - cbn [r_mexprs app]. specialize (K stk sd nm Hrd Hc). cbn [x_ands sto_ands] in K. rewrite app_nil_r in K.
      apply K. intros [H|[_ H]]; [exact H|congruence].
    - destruct Hrd as [[r0 Hand] _]. cbn [snd] in Hv. rewrite (mexprs_shape lay).
      eapply runs_step; [intros k; apply (run_gap' sub postof _ (gapl_req lay ga))|].
      eapply runs_step; [intros k; apply (run_tok sub postof (andtok lay gc) (p_and ns) (fAnd pf ns 1 r0 :: bse pf a));
        [exact plain_ident|exact (Hand (Nat.odd (lk lay gc)))|destruct ns; reflexivity..]|].
      eapply runs_step; [intros k; apply (run_gap' sub postof _ (gapl_req lay gb))|].
      eapply runs_step; [intros k; apply (run_tok sub postof (ch "(") p_open (fE pf 1 0 :: fAnd pf ns 0 (S r0) :: bse pf a));
        [exact plain_char|apply find_open_A|reflexivity..]|].
      eapply runs_step; [intros k; apply (run_expr_inner sub postof lay Hd); exact Hv|].
      rewrite and_store. cbn [p_store p_open P].
      apply IH; [apply ready_R, final_bse, Ha|apply cready_R, Ha|].
      intros stk' sd' nm' Hr' Hc' Hn'.
      specialize (K stk' sd' nm' Hr' Hc'). cbn [x_ands sto_ands] in K.
      match goal with |- RUNS (mst _ (rev ?A) _ _ _ _ _) _ =>
        replace A with (acc ++ tok_items (greq lay ga) ++ tok_items [andtok lay gc] ++ tok_items (greq lay gb) ++
                        tok_items [ch "("] ++ x_inner' lay e ++ [it_close] ++ x_ands lay l)
          by (rewrite <- !app_assoc; reflexivity) end.
      apply K. intros Hor. apply Hn'. left.
      cbn [p_stopnm p_and p_open p_close P orb]. destruct Hor as [->|[-> _]]; [destruct pf|]; reflexivity.
  Qed.

  Definition comma_tail (tl : option (list tok)) : list tok := match tl with Some l => ch "," :: l | None => [] end.
  Definition stop_rest (tl : option (list tok)) : list tok := match tl with Some l => l | None => [] end.
  Definition stop_stash (tl : option (list tok)) : stash := match tl with Some _ => mkStash [ch ","] [] | None => stash0 end.

  Lemma runs_finish pf ns base stk acc sto sd nm g tl r :
    ready pf ns base stk -> cready stk -> last_noS acc -> gapl g -> (tl <> None -> nm = true) ->
    r = mkRes true (acc ++ tok_items g) sto false None SOff false (stop_rest tl) (stop_stash tl) ->
    RUNS (mst stk (rev acc) sto sd nm true (g ++ comma_tail tl)) r.
  Proof.
    intros Hrd [s2 Hc] Hl Hg Hnm ->.
    eapply runs_step; [intros k; apply (run_gap' sub postof _ Hg)|].
    destruct tl as [l|]; cbn [comma_tail stop_rest stop_stash].
    - rewrite (Hnm ltac:(discriminate)). eapply runs_stop; [apply last_noS_gap; assumption|exact Hc].
    - apply runs_end; [apply last_noS_gap; assumption|apply Hrd].
  Qed.
End MQ2.

(* a query that is followed by ',' must have set stopIfNoMoreMatch: a known media type or an expression (an unknown
   type directly before a comma is a NoMatch error of the implementation: `foo, print` is rejected) *)
Definition stopok (q : mquery) : Prop :=
  match mq_type q with Some t => known_type t \/ mq_exprs q <> [] | None => True end.

Definition mq_res lay (q : mquery) (g : list tok) (tl : option (list tok)) : result :=
  mkRes true (x_mquery lay q ++ tok_items g) (sto_mquery lay q) false None SOff false (stop_rest tl) (stop_stash tl).

Lemma last_noS_1 a t v : eqs t (s "S") = false -> last_noS (a ++ [IStr t v]).
Proof. intros H. exists a, (IStr t v). split; [reflexivity|exact H]. Qed.

Lemma last_noS_ands lay l : forall acc, last_noS acc -> last_noS (acc ++ x_ands lay l).
Proof.
  induction l as [|[[[ga gc] gb] e] r IH]; intros acc H; cbn [x_ands]; [now rewrite app_nil_r|].
  replace (acc ++ tok_items (greq lay ga) ++ tok_items [andtok lay gc] ++ tok_items (greq lay gb) ++ tok_items [ch "("] ++
           x_inner' lay e ++ [it_close] ++ x_ands lay r)
    with (((acc ++ tok_items (greq lay ga) ++ tok_items [andtok lay gc] ++ tok_items (greq lay gb) ++ tok_items [ch "("] ++
           x_inner' lay e) ++ [it_close]) ++ x_ands lay r) by (rewrite <- !app_assoc; reflexivity).
  apply IH. apply last_noS_1. reflexivity.
Qed.

Section MQ3.
  Variable sub : nat -> bool -> tok -> list tok -> out.
  Variable postof : nat -> option postcode.
  Variable lay : layout.
  Hypothesis Hd : dim_ok sub postof.
  Notation RUNS := (runs sub postof).

  (* the MediaQuery(_partof=True) parse on the rendering of q, a gap, and then the end of the stream or a comma *)
  Lemma mq_runs q g tl : wf_mqv q -> gapl g -> (tl <> None -> stopok q) ->
    RUNS (mst (c0 true) (rev []) [] false false false (r_mquery lay q ++ g ++ comma_tail tl)) (mq_res lay q g tl).
  Proof.
    intros [Ht Hv] Hg Hs. unfold r_mquery, mq_res, x_mquery, sto_mquery, stopok in *.
    destruct (mq_type q) as [t|] eqn:Et.
    - destruct Ht as [Hn Hk]. destruct (mq_neg q) as [|n] eqn:En.
      + cbn [app]. destruct Hk as [Hk|[_ Hu]].
        * eapply runs_step; [intros k; apply (run_tok sub postof (T "IDENT" t) p_type_known [fAlt true 0 2 0; fRoot true true]);
            [exact plain_ident|apply find_type_known0; assumption|reflexivity..]|].
          cbn [p_store p_type_known P p_stopnm p_mayend orb negb val T].
          apply (runs_tail sub postof lay Hd true true 0 ltac:(lia) _ Hv); [apply ready_T1|apply cready_T1|].
          intros stk' sd' nm' Hr' Hc' Hn'.
          eapply runs_finish; [exact Hr'|exact Hc'| |exact Hg|intros _; apply Hn'; left; reflexivity|].
          { apply last_noS_ands, last_noS_1. reflexivity. }
          f_equal.
        * eapply runs_step; [intros k; apply (run_tok sub postof (T "IDENT" t) p_type_any [fAlt true 2 2 0; fRoot true true]);
            [exact plain_ident|apply find_type_any0; assumption|reflexivity..]|].
          cbn [p_store p_type_any P p_stopnm p_mayend orb negb val T].
          apply (runs_tail sub postof lay Hd true true 2 ltac:(lia) _ Hv); [apply ready_T3|apply cready_T3|].
          intros stk' sd' nm' Hr' Hc' Hn'.
          eapply runs_finish; [exact Hr'|exact Hc'| |exact Hg| |].
          { apply last_noS_ands, last_noS_1. reflexivity. }
          { intros Htl. apply Hn'. right. split; [reflexivity|]. destruct (Hs Htl) as [Hk|Hne]; [|exact Hne].
            destruct Hu as [Hu _]. unfold known_type in Hk. congruence. }
          f_equal.
      + destruct Hk as [Hk|[E0 _]]; [|congruence].
        assert (Hnt : (if match n with 0 => true | _ => false end then T "IDENT" (cased lay (mq_gcase q) (s "only"))
                       else T "IDENT" (cased lay (mq_gcase q) (s "not"))) = negtok lay q)
          by (unfold negtok; rewrite En; destruct n; reflexivity).
        assert (Htoks : match S n with
                        | 0 => []
                        | 1 => T "IDENT" (cased lay (mq_gcase q) (s "only")) :: greq lay (mq_g0 q)
                        | S (S _) => T "IDENT" (cased lay (mq_gcase q) (s "not")) :: greq lay (mq_g0 q)
                        end = negtok lay q :: greq lay (mq_g0 q))
          by (rewrite <- Hnt; destruct n; reflexivity).
        rewrite Htoks. clear Htoks Hnt. cbn [app]. rewrite <- !app_assoc. cbn [app].
        assert (Hfn : find (find_fuel (c0 true)) (c0 true) (negtok lay q) = FFound p_onlynot [fAlt true 0 1 0; fRoot true true]).
        { unfold negtok. rewrite En. destruct n.
          - exact (find_neg true (Nat.odd (lk lay (mq_gcase q))) "only" (or_introl eq_refl)).
          - exact (find_neg true (Nat.odd (lk lay (mq_gcase q))) "not" (or_intror eq_refl)). }
        eapply runs_step; [intros k; apply (run_tok sub postof (negtok lay q) p_onlynot [fAlt true 0 1 0; fRoot true true]);
          [exact plain_ident|exact Hfn|reflexivity..]|].
        eapply runs_step; [intros k; apply (run_gap' sub postof _ (gapl_req lay (mq_g0 q)))|].
        eapply runs_step; [intros k; apply (run_tok sub postof (T "IDENT" t) p_type_known [fAlt true 0 2 0; fRoot true true]);
          [exact plain_ident|apply find_type_known1; assumption|reflexivity..]|].
        cbn [p_store p_type_known p_onlynot P p_stopnm p_mayend orb negb].
        apply (runs_tail sub postof lay Hd true true 0 ltac:(lia) _ Hv); [apply ready_T1|apply cready_T1|].
        intros stk' sd' nm' Hr' Hc' Hn'.
        eapply runs_finish; [exact Hr'|exact Hc'| |exact Hg|intros _; apply Hn'; left; reflexivity|].
        { apply last_noS_ands, last_noS_1. reflexivity. }
        f_equal. rewrite <- !app_assoc. reflexivity.
    - destruct (mq_exprs q) as [|[[[ga gc] gb] e] r] eqn:El; [congruence|].
      inversion Hv as [|? ? Hve Hvr]; subst. cbn [snd] in Hve.
      cbn [r_mexprs app]. rewrite <- !app_assoc. rewrite (mexpr_shape lay).
      eapply runs_step; [intros k; apply (run_tok sub postof (ch "(") p_open [fE true 1 0; fAlt true 1 1 0; fRoot true true]);
        [exact plain_char|apply find_open0|reflexivity..]|].
      eapply runs_step; [intros k; apply (run_expr_inner sub postof lay Hd); exact Hve|].
      cbn [p_store p_open P p_stopnm p_mayend orb negb].
      apply (runs_tail sub postof lay Hd true false 1 ltac:(lia) _ Hvr); [apply ready_T2|apply cready_T2|].
      intros stk' sd' nm' Hr' Hc' Hn'.
      eapply runs_finish; [exact Hr'|exact Hc'| |exact Hg|intros _; apply Hn'; left; reflexivity|].
      { apply last_noS_ands, last_noS_1. reflexivity. }
      f_equal.
      + rewrite <- !app_assoc. reflexivity.
      + clear. generalize (@nil (str * list str)). induction r as [|[[[a b] c] e'] r IH]; intros sto; [reflexivity|apply IH].
  Qed.
End MQ3.

(* ------------------------------------------------------------------ the MediaList grammar (medialist.py) *)
Definition p_mlcomment := mkProd (s "comment") (MTy (s "COMMENT")) true AOpaque None false false false false false false.
Definition p_mqstart := P "MediaQueryStart" (MOr (MTy (s "IDENT")) (MVal (s "("))) false (ASub (Some (s "MediaQuery")) 2) None false false.
Definition p_comma := P "comma" (MVal (s ",")) false AFalse None false false.
Definition cs_ps : list ptree := [PProd p_comma; PProd p_mqstart].
Definition ml_ps : list ptree := [PSeq [PProd p_mlcomment] 0 None; PProd p_mqstart; PSeq cs_ps 0 None].
Lemma tree_MediaList_eq : tree_MediaList = PSeq ml_ps 1 (Some 1).  Proof. reflexivity. Qed.

Definition fML i rnd := FSeq ml_ps 1 (Some 1) i rnd true.
Definition fCS i rnd := FSeq cs_ps 0 None i rnd true.
Definition ml0 : list frame := [FSeq ml_ps 1 (Some 1) 0 0 false].
Definition mlC (r : nat) : list frame := [fCS 1 r; fML 0 1].

Lemma find_seq_skip1 pc p2 x tk fu :
  tok_matches pc (Some tk) = false -> tok_matches p2 (Some tk) = true ->
  find (S fu) [FSeq [PSeq [PProd pc] 0 None; PProd p2; x] 1 (Some 1) 0 0 false] tk =
  FFound p2 [FSeq [PSeq [PProd pc] 0 None; PProd p2; x] 1 (Some 1) 2 0 true].
Proof. intros H1 H2. cbn -[tmatches]. cbn [tmatches topt Nat.eqb]. rewrite H1, H2. destruct (p_opt pc); reflexivity. Qed.
Lemma find_cs1 pc p2 base rnd tk fu :
  tok_matches p2 (Some tk) = true ->
  find (S fu) (FSeq [PProd pc; PProd p2] 0 None 1 rnd true :: base) tk =
  FFound p2 (FSeq [PProd pc; PProd p2] 0 None 0 (S rnd) true :: base).
Proof. intros H2. cbn -[tmatches]. cbn [tmatches]. rewrite H2. reflexivity. Qed.

Definition mlready (stk : list frame) : Prop := stk = ml0 \/ exists r, stk = mlC r.

Lemma ml_trans stk : mlready stk -> exists stk1 r',
  (forall tk, plain_ty (ty tk) -> tok_matches p_mqstart (Some tk) = true ->
     find (find_fuel stk) stk tk = FFound p_mqstart stk1) /\
  final stk1 true true = FinOk true /\
  find (find_fuel stk1) stk1 (ch ",") = FFound p_comma (mlC r').
Proof.
  intros [->|[r ->]].
  - exists [fML 2 0], 0. split; [|split; reflexivity].
    intros tk (Hc & _) Hm. apply find_seq_skip1; [exact Hc|exact Hm].
  - exists [fCS 0 (S r); fML 0 1], (S r). split; [|split; [destruct r; reflexivity|vm_compute; reflexivity]].
    intros tk _ Hm. apply find_cs1. exact Hm.
Qed.

Lemma mq_first lay q : wf_mqv q -> exists tk qs,
  r_mquery lay q = tk :: qs /\ plain_ty (ty tk) /\ tok_matches p_mqstart (Some tk) = true.
Proof.
  intros [Ht Hv]. unfold r_mquery. destruct (mq_type q) as [t|].
  - destruct (mq_neg q) as [|[|n]]; cbn [app]; eexists _, _; (split; [reflexivity|split; [exact plain_ident|reflexivity]]).
  - destruct (mq_exprs q) as [|[[[ga gc] gb] e] r]; [congruence|]. cbn [r_mexprs app]. unfold r_mexpr. cbn [app].
    eexists _, _. split; [reflexivity|split; [exact plain_char|reflexivity]].
Qed.


(* the MediaQuery(_partof=True) constructor that the MediaQueryStart callback runs on pushtoken(tk, tokens) *)
Lemma sub_mq d tk rest r :
  runs (subE d) poE (mst (c0 true) (rev []) [] false false false (tk :: rest)) r ->
  subE (S d) 2 false tk rest = Ret r.
Proof.
  intros Hr. unfold subE at 1. cbn [pparse_sub].
  change (nth_error env_real 2) with (Some (mkGr (s "MediaQuery") tree_MediaQuery_partof opts0 PostMQ)). cbv iota beta.
  cbn [g_opts g_tree]. fold (subE d). fold poE.
  pose proof (parse_tree_sub_ok (subE d) poE opts0 tree_MediaQuery_partof false tk rest (pparse_sub_ok d env_real)) as [Hne _].
  revert Hne. unfold parse_tree. rewrite tree_MediaQuery_partof_eq. unfold init_state. rewrite enter_mq.
  unfold loop_fuel. cbn [saved stash0 length Nat.add].
  assert (E : forall n, loop opts0 (subE d) poE (S n)
               (mkLs [fRoot true false] [] [] true false false true false false false None (SPend tk) false rest stash0) =
             loop opts0 (subE d) poE (S n) (mst (c0 true) (rev []) [] false false false (tk :: rest)))
    by (intros n; rewrite !loop_unfold; reflexivity).
  rewrite E. intros Hne. apply runs_fuel; assumption.
Qed.

Section ML.
  Variable d : nat.
  Notation LOOP := (loop opts0 (subE (S d)) poE).
  Notation RUNS := (runs (subE (S d)) poE).

  Lemma runs_step1 st st' r : (forall n, LOOP (S n) st = LOOP n st') -> RUNS st' r -> RUNS st r.
  Proof. intros H [n Hn]. exists (S n). now rewrite H. Qed.

  Lemma process_sub p tk st lab g r pc w its mt :
    p_stopkeep p = false -> p_toseq p = ASub (Some lab) g -> l_own st = SOff -> l_anc st = false ->
    subE (S d) g false tk (l_rest st) = Ret r -> poE g = Some pc -> post pc r = PRet w its mt ->
    p_stop p = false -> p_nextsor p = false -> p_store p = None ->
    process (subE (S d)) poE p tk st =
    LCont (set_defaultS (add_item (set_stash (set_stream st SOff (false && r_anc r) (r_rest r)) (r_stash r))
                                  (IObj lab g w its mt)) true).
  Proof.
    intros Hk Ha Hown Hanc Hsub Hpo Hpost Hstop Hns Hsto. unfold process. rewrite Hk, Ha, Hown, Hanc. cbn [orb].
    rewrite Hsub, Hpo, Hpost. rewrite Hstop, Hns. unfold do_store. rewrite Hsto. reflexivity.
  Qed.

  (* one MediaQueryStart iteration: the sub-parser consumes the query and hands back what is left *)
  Lemma ml_query_step stk stk1 acc sd strict tk rest its sto rest' sh n :
    plain_ty (ty tk) -> find (find_fuel stk) stk tk = FFound p_mqstart stk1 ->
    subE (S d) 2 false tk rest = Ret (mkRes true its sto false None SOff false rest' sh) ->
    LOOP (S n) (mst stk (rev acc) [] sd false strict (tk :: rest)) =
    LOOP n (mkLs stk1 (rev (acc ++ [IObj (s "MediaQuery") 2 true its (mq_mediatype sto)])) [] true true false true false false
                 true None SOff false rest' sh).
  Proof.
    intros Hp Hf Hsub. rewrite loop_unfold.
    change (pull (mst stk (rev acc) [] sd false strict (tk :: rest))) with (Some (tk, mst stk (rev acc) [] sd false strict rest)).
    cbv iota beta. rewrite (body_found _ _ tk (mst stk (rev acc) [] sd false strict rest) p_mqstart stk1 Hp Hf).
    erewrite (process_sub p_mqstart tk _ (s "MediaQuery") 2 _ PostMQ true its (mq_mediatype sto));
      [|reflexivity|reflexivity|reflexivity|reflexivity|exact Hsub|reflexivity..].
    cbv iota beta. rewrite rev_unit. reflexivity.
  Qed.

  (* the ',' comes back through savedTokens; the comma production has toSeq=False *)
  Lemma ml_comma_step stk1 stk2 seq sd strict rest n :
    find (find_fuel stk1) stk1 (ch ",") = FFound p_comma stk2 ->
    LOOP (S n) (mkLs stk1 seq [] true sd false true false false strict None SOff false rest (mkStash [ch ","] [])) =
    LOOP n (mst stk2 seq [] true false true rest).
  Proof.
    intros Hf. rewrite loop_unfold.
    change (pull (mkLs stk1 seq [] true sd false true false false strict None SOff false rest (mkStash [ch ","] [])))
      with (Some (ch ",", mst stk1 seq [] sd false strict rest)).
    cbv iota beta. rewrite (body_found _ _ (ch ",") (mst stk1 seq [] sd false strict rest) p_comma stk2 plain_char Hf).
    reflexivity.
  Qed.
End ML.

(* ------------------------------------------------------------------ a rendered media list *)
Fixpoint ml_toks lay (q : mquery) (more : mlist) (gend : list tok) : list tok :=
  r_mquery lay q ++ match more with
                    | [] => gend
                    | (ga, gb, q') :: r => gopt lay ga ++ ch "," :: gopt lay gb ++ ml_toks lay q' r gend
                    end.
Definition mq_obj lay (q : mquery) (g : list tok) : item :=
  IObj (s "MediaQuery") 2 true (x_mquery lay q ++ tok_items g) (simple_type q).
(* the comments before a ',' (and at the end) belong to the query in front, those behind a ',' to the list *)
Fixpoint x_ml lay (q : mquery) (more : mlist) (gend : list tok) : list item :=
  match more with
  | [] => [mq_obj lay q gend]
  | (ga, gb, q') :: r => mq_obj lay q (gopt lay ga) :: tok_items (gopt lay gb) ++ x_ml lay q' r gend
  end.
Fixpoint wf_ml' (q : mquery) (more : mlist) : Prop :=
  wf_mqv q /\ match more with [] => True | (_, _, q') :: r => stopok q /\ wf_ml' q' r end.

Lemma r_mlist_toks lay ga gb q more : r_mlist lay true ((ga, gb, q) :: more) = ml_toks lay q more [].
Proof.
  cbn [r_mlist app]. revert q. induction more as [|[[ga' gb'] q'] r IH]; intros q; cbn [r_mlist ml_toks]; [reflexivity|].
  rewrite IH. rewrite <- app_assoc. reflexivity.
Qed.

Section ML2.
  Variable d : nat.
  Variable lay : layout.
  Variable gend : list tok.
  Hypothesis Hgend : gapl gend.
  Notation RUNS := (runs (subE (S (S d))) poE).

  Lemma ml_runs : forall more q stk acc sd strict, mlready stk -> wf_ml' q more ->
    RUNS (mst stk (rev acc) [] sd false strict (ml_toks lay q more gend))
         (mkRes true (acc ++ x_ml lay q more gend) [] false None SOff false [] stash0).
  Proof.
    induction more as [|[[ga gb] q'] r IH]; intros q stk acc sd strict Hst Hwf.
    - destruct Hwf as [Hq _]. cbn [ml_toks x_ml].
      destruct (ml_trans stk Hst) as (stk1 & r' & Hfind & Hfin & _).
      destruct (mq_first lay q Hq) as (tk & qs & Eq & Hp & Hm).
      pose proof (mq_runs (subE (S d)) poE lay (dim_ok_subE d) q gend None Hq Hgend ltac:(congruence)) as Hr.
      cbn [comma_tail] in Hr. rewrite app_nil_r, Eq in Hr. cbn [app] in Hr. apply sub_mq in Hr.
      rewrite Eq. cbn [app].
      eapply runs_step1; [intros n; apply (ml_query_step (S d) stk stk1 acc sd strict tk _ _ _ _ _ n Hp (Hfind tk Hp Hm) Hr)|].
      cbn [stop_rest stop_stash]. rewrite mq_mediatype_sto.
      apply (runs_end (subE (S (S d))) poE stk1 _ [] true false true); [|exact Hfin].
      eexists _, _. split; reflexivity.
    - destruct Hwf as [Hq [Hso Hwf']]. cbn [ml_toks x_ml].
      destruct (ml_trans stk Hst) as (stk1 & r' & Hfind & _ & Hcomma).
      destruct (mq_first lay q Hq) as (tk & qs & Eq & Hp & Hm).
      pose proof (mq_runs (subE (S d)) poE lay (dim_ok_subE d) q (gopt lay ga) (Some (gopt lay gb ++ ml_toks lay q' r gend)) Hq (gapl_opt lay ga)
                    (fun _ => Hso)) as Hr.
      cbn [comma_tail] in Hr. rewrite Eq in Hr. cbn [app] in Hr. apply sub_mq in Hr.
      rewrite Eq. cbn [app].
      eapply runs_step1; [intros n; apply (ml_query_step (S d) stk stk1 acc sd strict tk _ _ _ _ _ n Hp (Hfind tk Hp Hm) Hr)|].
      cbn [stop_rest stop_stash]. rewrite mq_mediatype_sto.
      eapply runs_step1; [intros n; apply (ml_comma_step (S d) stk1 (mlC r') _ true true _ n Hcomma)|].
      eapply runs_step; [intros k; apply (run_gap' (subE (S (S d))) poE _ (gapl_opt lay gb))|].
      specialize (IH q' (mlC r') ((acc ++ [mq_obj lay q (gopt lay ga)]) ++ tok_items (gopt lay gb)) true true
                     (or_intror (ex_intro _ r' eq_refl)) Hwf').
      rewrite <- !app_assoc in IH. cbn [app] in IH. rewrite <- !app_assoc. exact IH.
  Qed.
End ML2.

(* ------------------------------------------------------------------ MediaList._setMediaText: the duplicate / `all` filter *)
Definition wf_ml (ml : mlist) : Prop := match ml with [] => False | (_, _, q) :: more => wf_ml' q more end.
Definition x_mlist lay (ml : mlist) : list item := match ml with [] => [] | (_, _, q) :: more => x_ml lay q more [] end.

Fixpoint ml_pairs lay (q : mquery) (more : mlist) (gend : list tok) : list (mquery * list tok) :=
  match more with [] => [(q, gend)] | (ga, gb, q') :: r => (q, gopt lay ga) :: ml_pairs lay q' r gend end.
Definition pobj lay (p : mquery * list tok) : item := mq_obj lay (fst p) (snd p).
Definition mkey (q : mquery) : str := normalize (simple_type q).
Definition isall (p : mquery * list tok) : bool := eqs (mkey (fst p)) (s "all").
Fixpoint ded (seen : list str) (l : list (mquery * list tok)) : list (mquery * list tok) :=
  match l with
  | [] => []
  | p :: r => match mkey (fst p) with
              | [] => p :: ded seen r
              | _ => if mem_s (mkey (fst p)) seen then ded seen r else p :: ded (seen ++ [mkey (fst p)]) r
              end
  end.
Definition my_eff (l : list (mquery * list tok)) : list (mquery * list tok) :=
  match List.find isall l with Some p => [p] | None => ded [] l end.

Lemma ml_filter_obj lay q g r seen final comments :
  ml_filter (mq_obj lay q g :: r) seen final comments =
  match mkey q with
  | [] => ml_filter r seen (mq_obj lay q g :: final) comments
  | _ => if eqs (mkey q) (s "all") then rev (mq_obj lay q g :: comments)
         else if mem_s (mkey q) seen then ml_filter r seen final comments
         else ml_filter r (seen ++ [mkey q]) (mq_obj lay q g :: final) comments
  end.
Proof. reflexivity. Qed.

Lemma filter_gapitems g : filter is_mq_obj (tok_items g) = [].
Proof.
  induction g as [|t g IH]; [reflexivity|]. rewrite tok_items_cons, filter_app, IH, app_nil_r.
  unfold tok_items. cbn [flat_map]. destruct (isS t); [reflexivity|]. destruct (isC t); reflexivity.
Qed.

Lemma ml_filter_gap g : gapl g -> forall r seen final comments,
  ml_filter (tok_items g ++ r) seen final comments = ml_filter r seen (rev (tok_items g) ++ final) (rev (tok_items g) ++ comments).
Proof.
  induction 1 as [|t g Ht Hg IH]; intros r seen final comments; [reflexivity|].
  rewrite tok_items_cons. unfold tok_items at 1 3 5. unfold isS, isC. cbn [flat_map].
  destruct Ht as [Ht|Ht]; rewrite Ht.
  - cbn [app rev]. apply IH.
  - change (eqs (s "COMMENT") (s "S")) with false. change (eqs (s "COMMENT") (s "COMMENT")) with true. cbv iota. cbn [app].
    change (ml_filter (IStr (s "CSSComment") (val t) :: tok_items g ++ r) seen final comments)
      with (ml_filter (tok_items g ++ r) seen (IStr (s "CSSComment") (val t) :: final) (IStr (s "CSSComment") (val t) :: comments)).
    rewrite IH. cbn [rev app]. rewrite <- !app_assoc. reflexivity.
Qed.

Lemma ml_filter_noall lay gend : forall more q seen final comments,
  List.find isall (ml_pairs lay q more gend) = None ->
  filter is_mq_obj (ml_filter (x_ml lay q more gend) seen final comments) =
  filter is_mq_obj (rev final) ++ map (pobj lay) (ded seen (ml_pairs lay q more gend)).
Proof.
  induction more as [|[[ga gb] q'] r IH]; intros q seen final comments Hf; cbn [x_ml ml_pairs ded fst snd] in *.
  - unfold isall in Hf. cbn [List.find fst] in Hf. rewrite ml_filter_obj.
    destruct (mkey q) as [|c k] eqn:Ek.
    + cbn [ml_filter rev]. rewrite filter_app. reflexivity.
    + destruct (eqs (c :: k) (s "all")); [discriminate|].
      destruct (mem_s (c :: k) seen); cbn [ml_filter map]; [now rewrite app_nil_r|].
      cbn [rev]. rewrite filter_app. reflexivity.
  - unfold isall at 1 in Hf. cbn [List.find fst] in Hf. rewrite ml_filter_obj.
    destruct (mkey q) as [|c k] eqn:Ek.
    + rewrite (ml_filter_gap _ (gapl_opt lay gb)), IH by exact Hf.
      rewrite rev_app_distr, rev_involutive. cbn [rev]. rewrite !filter_app, filter_gapitems, app_nil_r, <- app_assoc. reflexivity.
    + destruct (eqs (c :: k) (s "all")); [discriminate|].
      destruct (mem_s (c :: k) seen).
      * rewrite (ml_filter_gap _ (gapl_opt lay gb)), IH by exact Hf.
        rewrite rev_app_distr, rev_involutive, filter_app, filter_gapitems, app_nil_r. reflexivity.
      * rewrite (ml_filter_gap _ (gapl_opt lay gb)), IH by exact Hf.
        rewrite rev_app_distr, rev_involutive. cbn [rev]. rewrite !filter_app, filter_gapitems, app_nil_r, <- app_assoc. reflexivity.
Qed.

Lemma ml_filter_all lay gend : forall more q seen final comments p,
  List.find isall (ml_pairs lay q more gend) = Some p -> filter is_mq_obj (rev comments) = [] ->
  filter is_mq_obj (ml_filter (x_ml lay q more gend) seen final comments) = [pobj lay p].
Proof.
  induction more as [|[[ga gb] q'] r IH]; intros q seen final comments p Hf Hc; cbn [x_ml ml_pairs fst snd] in *.
  - unfold isall in Hf. cbn [List.find fst] in Hf. rewrite ml_filter_obj.
    destruct (mkey q) as [|c k] eqn:Ek; [discriminate|].
    destruct (eqs (c :: k) (s "all")); [|discriminate]. inversion Hf; subst.
    cbn [rev]. rewrite filter_app, Hc. reflexivity.
  - unfold isall at 1 in Hf. cbn [List.find fst] in Hf. rewrite ml_filter_obj.
    assert (Hc' : filter is_mq_obj (rev (rev (tok_items (gopt lay gb)) ++ comments)) = [])
      by (rewrite rev_app_distr, rev_involutive, filter_app, Hc, filter_gapitems; reflexivity).
    destruct (mkey q) as [|c k] eqn:Ek.
    + rewrite (ml_filter_gap _ (gapl_opt lay gb)). apply IH; assumption.
    + destruct (eqs (c :: k) (s "all")).
      * inversion Hf; subst. cbn [rev]. rewrite filter_app, Hc. reflexivity.
      * destruct (mem_s (c :: k) seen); rewrite (ml_filter_gap _ (gapl_opt lay gb)); apply IH; assumption.
Qed.

Lemma x_ml_objs lay gend : forall more q, filter is_mq_obj (x_ml lay q more gend) = map (pobj lay) (ml_pairs lay q more gend).
Proof.
  induction more as [|[[ga gb] q'] r IH]; intros q; cbn [x_ml ml_pairs map]; [reflexivity|].
  change (filter is_mq_obj (mq_obj lay q (gopt lay ga) :: tok_items (gopt lay gb) ++ x_ml lay q' r gend))
    with (mq_obj lay q (gopt lay ga) :: filter is_mq_obj (tok_items (gopt lay gb) ++ x_ml lay q' r gend)).
  rewrite filter_app, filter_gapitems, IH. reflexivity.
Qed.
Lemma pobj_wf lay l : forallb obj_wf (map (pobj lay) l) = true.
Proof. induction l as [|p l IH]; [reflexivity|]. cbn [map forallb]. rewrite IH. reflexivity. Qed.

Definition mlp lay (ml : mlist) : list (mquery * list tok) :=
  match ml with [] => [] | (_, _, q) :: more => ml_pairs lay q more [] end.

(* the MediaList constructor on the rendered list: the parse *)
Theorem media_list_parse lay ml : wf_ml ml ->
  pparse_env 6 env_real gid_MediaList (r_mlist lay true ml) =
  Ret (mkRes true (x_mlist lay ml) [] false None SOff false [] stash0).
Proof.
  destruct ml as [|[[ga gb] q] more]; [intros []|]. intros Hwf. cbn [wf_ml x_mlist] in *. rewrite r_mlist_toks.
  pose proof (pparse_total_lemma 5 env_real true opts0 tree_MediaList (ml_toks lay q more []) stash0 (or_introl eq_refl)) as Hne.
  unfold pparse_env, gid_MediaList. cbn [pparse_sub].
  change (nth_error env_real 0) with (Some (mkGr (s "MediaList") tree_MediaList opts0 PostML)). cbv iota beta. cbn [g_opts g_tree].
  unfold pparse in Hne. revert Hne. unfold parse_tree. rewrite tree_MediaList_eq. cbn [init_state enter].
  fold (subE 5). fold poE. intros Hne.
  apply runs_fuel; [|exact Hne].
  exact (ml_runs 3 lay [] (Forall_nil _) more q ml0 [] false false (or_introl eq_refl) Hwf).
Qed.

(* medialist.py:116-159: wellformed, and the MediaQuery objects that are kept are those of the effective queries *)
Theorem media_list_spec_items lay ml : wf_ml ml ->
  exists its, build 6 env_real gid_MediaList (r_mlist lay true ml) = Some (PRet true its []) /\
              its = ml_filter (x_mlist lay ml) [] [] [] /\
              filter is_mq_obj its = map (pobj lay) (my_eff (mlp lay ml)).
Proof.
  intros Hwf. unfold build. rewrite (media_list_parse lay ml Hwf).
  change (postof_env env_real gid_MediaList) with (Some PostML). cbv iota beta.
  destruct ml as [|[[ga gb] q] more]; [destruct Hwf|]. cbn [x_mlist mlp].
  unfold post. cbn [r_wf r_items andb]. rewrite x_ml_objs, pobj_wf.
  assert (Hne : negb match map (pobj lay) (ml_pairs lay q more []) with [] => true | _ :: _ => false end = true)
    by (destruct more as [|[[? ?] ?] ?]; reflexivity).
  rewrite Hne. cbn [andb]. eexists. split; [reflexivity|]. split; [reflexivity|].
  unfold my_eff. destruct (List.find isall (ml_pairs lay q more [])) as [p|] eqn:Ef.
  - apply (ml_filter_all lay [] more q [] [] [] p Ef). reflexivity.
  - rewrite (ml_filter_noall lay [] more q [] [] [] Ef). reflexivity.
Qed.

(* ------------------------------------------------------------------ ... and Grammar.media_effective *)
(* the implementation compares normalize(mediaType) (escapes resolved, lower case), the specification lower(type): they
   agree on media types without escapes; an empty type name is not a type *)
Definition type_plain (q : mquery) : Prop := forall t, mq_type q = Some t -> normalize t = lower t /\ lower t <> [].

Lemma mkey_simple q : type_plain q ->
  match mq_simple q with Some k => mkey q = k /\ k <> [] | None => mkey q = [] end.
Proof.
  intros Hp. unfold mq_simple, mkey, simple_type. destruct (mq_type q) as [t|] eqn:Et; [|reflexivity].
  destruct (Hp t Et) as [H1 H2]. destruct (mq_neg q); [|reflexivity]. destruct (mq_exprs q); [|reflexivity]. now split.
Qed.
Lemma isall_is_all q g : type_plain q -> isall (q, g) = is_all q.
Proof.
  intros Hp. unfold isall, is_all. cbn [fst]. pose proof (mkey_simple q Hp) as H. destruct (mq_simple q) as [k|].
  - destruct H as [-> _]. reflexivity.
  - rewrite H. reflexivity.
Qed.
Lemma find_isall l : Forall type_plain (map fst l) ->
  option_map fst (List.find isall l) = List.find is_all (map fst l).
Proof.
  induction l as [|[q g] l IH]; intros H; [reflexivity|]. cbn [map fst] in H. inversion H as [|? ? Hq Hl]; subst.
  cbn [List.find map fst]. rewrite (isall_is_all q g Hq). destruct (is_all q); [reflexivity|]. apply IH, Hl.
Qed.
Lemma mem_s_app x a b : mem_s x (a ++ b) = mem_s x a || mem_s x b.
Proof. induction a as [|y a IH]; [reflexivity|]. cbn [app mem_s]. rewrite IH, orb_assoc. reflexivity. Qed.
Lemma ded_dedupe : forall l sa sb, (forall x, mem_s x sa = mem_str x sb) -> Forall type_plain (map fst l) ->
  map fst (ded sa l) = dedupe sb (map fst l).
Proof.
  induction l as [|[q g] l IH]; intros sa sb Hm H; [reflexivity|]. cbn [map fst] in H. inversion H as [|? ? Hq Hl]; subst.
  cbn [ded map fst dedupe]. pose proof (mkey_simple q Hq) as Hk. destruct (mq_simple q) as [k|].
  - destruct Hk as [-> Hne]. destruct k as [|c k]; [congruence|]. rewrite Hm. destruct (mem_str (c :: k) sb).
    + apply IH; assumption.
    + cbn [map fst]. f_equal. apply IH; [|exact Hl]. intros x. rewrite mem_s_app, Hm. cbn [mem_s mem_str].
      rewrite orb_false_r. apply orb_comm.
  - rewrite Hk. cbn [map fst]. f_equal. apply IH; assumption.
Qed.
Lemma my_eff_effective l : Forall type_plain (map fst l) -> map fst (my_eff l) = media_effective (map fst l).
Proof.
  intros H. unfold my_eff, media_effective. rewrite <- (find_isall l H). destruct (List.find isall l) as [p|]; [reflexivity|].
  cbn [option_map]. apply ded_dedupe; [reflexivity|exact H].
Qed.
Lemma ml_pairs_fst lay gend : forall more q, map fst (ml_pairs lay q more gend) = q :: map snd more.
Proof. induction more as [|[[ga gb] q'] r IH]; intros q; cbn [ml_pairs map fst snd]; [reflexivity|]. now rewrite IH. Qed.

(* stage 4: the MediaList constructor accepts the rendered list and keeps exactly the effective queries *)
Theorem media_list_spec lay ml : wf_ml ml -> Forall type_plain (map snd ml) ->
  exists its ps, build 6 env_real gid_MediaList (r_mlist lay true ml) = Some (PRet true its []) /\
                 filter is_mq_obj its = map (pobj lay) ps /\ map fst ps = media_effective (map snd ml).
Proof.
  intros Hwf Hp. destruct (media_list_spec_items lay ml Hwf) as (its & Hb & _ & Hf).
  exists its, (my_eff (mlp lay ml)). split; [exact Hb|]. split; [exact Hf|].
  destruct ml as [|[[ga gb] q] more]; [destruct Hwf|]. cbn [mlp map snd] in *.
  rewrite my_eff_effective; rewrite ml_pairs_fst; [reflexivity|exact Hp].
Qed.

Example media_list_spec_ex :
  let ml := [(0, 0, mkMQ 0 0 0 (Some (s "print")) []); (1, 2, mkMQ 0 0 0 (Some (s "foo")) [(2, 3, 4, mkMExpr 0 (s "color") 1 None 2)]);
             (3, 4, mkMQ 0 0 0 (Some (s "print")) [])] in
  wf_ml ml /\ Forall type_plain (map snd ml).
Proof.
  split.
  - repeat split; try reflexivity; try (left; reflexivity); try (right; repeat split; discriminate); repeat constructor;
      try discriminate.
  - cbn [map snd]. repeat (apply Forall_cons; [intros t E; inversion E; subst; split; [reflexivity|discriminate]|]).
    apply Forall_nil.
Qed.

(* ------------------------------------------------------------------ stage 3 (Dimension values): the top-level statements *)
Theorem media_query_accepts_v : forall q lay, wf_mqv q ->
  exists r, pparse 6 env_real true opts0 tree_MediaQuery (r_mquery lay q) stash0 = Ret r /\
            r_wf r = true /\ r_items r = x_mquery lay q /\ mq_mediatype (r_store r) = simple_type q /\
            r_rest r = [] /\ saved (r_stash r) = [].
Proof.
  intros q lay H. eexists. split; [apply media_query_accepts_items_v; exact H|]. cbn [r_wf r_items r_store r_rest r_stash].
  repeat split. apply mq_mediatype_sto.
Qed.

(* `screen and (min-width: 25cm)`: the value is a DimensionValue object *)
Example media_query_accepts_v_ex :
  let q := mkMQ 0 0 1 (Some (s "screen")) [(2, 3, 4, mkMExpr 0 (s "min-width") 1 (Some (3, TmDim (mkNum 0 (s "25") None) (s "cm"))) 2)] in
  wf_mqv q /\
  exists its, pparse 6 env_real true opts0 tree_MediaQuery (r_mquery [] q) stash0 =
              Ret (mkRes true its (sto_mquery [] q) false None SOff false [] stash0) /\
              In (dim_obj "DIMENSION" (s "25cm")) its.
Proof.
  intros q. assert (H : wf_mqv q) by (split; [split; [reflexivity|left; reflexivity]|repeat constructor]).
  split; [exact H|]. eexists. split; [apply (media_query_accepts_items_v 5 [] q H)|]. vm_compute. tauto.
Qed.

(* ------------------------------------------------------------------ towards stage 5: the list between two gaps, as
   css/cssmediarule.py hands it to MediaList (GrammarFacts.media_head = greq lay g0 ++ r_mlist lay true media ++ gopt lay g1) *)
Lemma ml_toks_gend lay gend : forall more q, ml_toks lay q more [] ++ gend = ml_toks lay q more gend.
Proof.
  induction more as [|[[ga gb] q'] r IH]; intros q; cbn [ml_toks]; rewrite <- app_assoc; [reflexivity|].
  f_equal. rewrite <- app_assoc. cbn [app]. rewrite <- app_assoc. now rewrite IH.
Qed.

Theorem media_list_parse_gaps lay g0 g1 ga gb q more : gapl g0 -> gapl g1 -> wf_ml' q more ->
  pparse_env 6 env_real gid_MediaList (g0 ++ r_mlist lay true ((ga, gb, q) :: more) ++ g1) =
  Ret (mkRes true (tok_items g0 ++ x_ml lay q more g1) [] false None SOff false [] stash0).
Proof.
  intros Hg0 Hg1 Hwf. rewrite r_mlist_toks, ml_toks_gend.
  pose proof (pparse_total_lemma 5 env_real true opts0 tree_MediaList (g0 ++ ml_toks lay q more g1) stash0 (or_introl eq_refl)) as Hne.
  unfold pparse_env, gid_MediaList. cbn [pparse_sub].
  change (nth_error env_real 0) with (Some (mkGr (s "MediaList") tree_MediaList opts0 PostML)). cbv iota beta. cbn [g_opts g_tree].
  unfold pparse in Hne. revert Hne. unfold parse_tree. rewrite tree_MediaList_eq. cbn [init_state enter].
  fold (subE 5). fold poE. intros Hne.
  apply runs_fuel; [|exact Hne].
  eapply runs_step; [intros k; apply (run_gap' (subE 5) poE _ Hg0 k ml0 [] [] false false false)|].
  exact (ml_runs 3 lay g1 Hg1 more q ml0 (tok_items g0) false false (or_introl eq_refl) Hwf).
Qed.

Theorem media_head_spec lay g0 g1 ml : gapl g0 -> gapl g1 -> wf_ml ml -> Forall type_plain (map snd ml) ->
  exists its ps, build 6 env_real gid_MediaList (g0 ++ r_mlist lay true ml ++ g1) = Some (PRet true its []) /\
                 filter is_mq_obj its = map (pobj lay) ps /\ map fst ps = media_effective (map snd ml).
Proof.
  intros Hg0 Hg1 Hwf Hp. destruct ml as [|[[ga gb] q] more]; [destruct Hwf|]. cbn [wf_ml] in Hwf.
  unfold build. rewrite (media_list_parse_gaps lay g0 g1 ga gb q more Hg0 Hg1 Hwf).
  change (postof_env env_real gid_MediaList) with (Some PostML). cbv iota beta.
  unfold post. cbn [r_wf r_items andb]. rewrite filter_app, filter_gapitems, x_ml_objs. cbn [app]. rewrite pobj_wf.
  assert (Hne : negb match map (pobj lay) (ml_pairs lay q more g1) with [] => true | _ :: _ => false end = true)
    by (destruct more as [|[[? ?] ?] ?]; reflexivity).
  rewrite Hne. cbn [andb]. eexists _, (my_eff (ml_pairs lay q more g1)). split; [reflexivity|]. split.
  - rewrite (ml_filter_gap _ Hg0). unfold my_eff.
    destruct (List.find isall (ml_pairs lay q more g1)) as [p|] eqn:Ef.
    + apply (ml_filter_all lay g1 more q _ _ _ p Ef). rewrite app_nil_r, rev_involutive. apply filter_gapitems.
    + rewrite (ml_filter_noall lay g1 more q _ _ _ Ef). rewrite app_nil_r, rev_involutive, filter_gapitems. reflexivity.
  - cbn [map snd] in *. rewrite my_eff_effective; rewrite ml_pairs_fst; [reflexivity|exact Hp].
Qed.

(* `(orientation: landscape), print`: an identifier value is a Value object; the list keeps both queries *)
Example media_list_value_ex :
  let q1 := mkMQ 0 0 0 None [(0, 0, 0, mkMExpr 0 (s "orientation") 0 (Some (1, TmIdent (s "landscape"))) 0)] in
  let ml := [(0, 0, q1); (1, 2, mkMQ 0 0 0 (Some (s "print")) [])] in
  wf_ml ml /\ Forall type_plain (map snd ml).
Proof.
  split.
  - split; [split; [discriminate|repeat constructor]|]. split; [exact I|]. split; [|exact I].
    split; [split; [reflexivity|left; reflexivity]|constructor].
  - cbn [map snd]. apply Forall_cons; [intros t E; discriminate|].
    apply Forall_cons; [intros t E; inversion E; subst; split; [reflexivity|discriminate]|apply Forall_nil].
Qed.
