(* ProdParserMedia.v -- the media grammar (mediaquery.py / medialist.py production trees of Gen/ProdTrees.v) accepts
   the rendered media queries of the generator grammar Grammar.v in every layout and builds the specified items. *)
From CssV Require Import Base Regex Tokenizer ProdParser ProdParserFacts Gen.ProdTrees Grammar.
Local Open Scope nat_scope.

(* ------------------------------------------------------------------ the trees, structured *)
Definition P (name : string) (m : mcode) (opt : bool) (a : acode) (sto : option str) (stop stopnm : bool) : prod :=
  mkProd (s name) m opt a sto stop false stopnm false false false.

Definition p_onlynot := P "ONLY|NOT" (MAnd (MTy (s "IDENT")) (MNormIn [(s "only"); (s "not")])) true ADefault (Some (s "not simple")) false false.
Definition media_types : list str :=
  [(s "all"); (s "braille"); (s "handheld"); (s "print"); (s "projection"); (s "speech"); (s "screen"); (s "tty"); (s "tv"); (s "embossed"); (s "amzn-mobi"); (s "amzn-kf8")].
Definition p_type_known := P "media_type" (MAnd (MTy (s "IDENT")) (MNormIn media_types)) false ADefault (Some (s "media_type")) false true.
Definition p_type_any := P "media_type" (MTy (s "IDENT")) false ADefault (Some (s "media_type")) false false.
Definition p_and (ns : bool) := P "AND" (MAnd (MTy (s "IDENT")) (MNorm (s "and"))) false ADefault (if ns then Some (s "not simple") else None) false false.
Definition p_open := P "expression" (MVal (s "(")) false ADefault None false false.
Definition p_feat := P "media_feature" (MTy (s "IDENT")) false ADefault None false false.
Definition p_colon := P "colon" (MVal (s ":")) false ADefault None false false.
Definition p_close (pf : bool) := P "expression END" (MVal (s ")")) false ADefault None false pf.
Definition p_color := P "ColorValue"
  (MOr (MAnd (MTy (s "HASH")) MHexRe) (MOr (MAnd (MTy (s "FUNCTION")) (MNormIn [(s "rgb("); (s "rgba("); (s "hsl("); (s "hsla(")])) (MAnd (MTy (s "IDENT")) (MNormIn color_keys))))
  false (ASub (Some (s "ColorValue")) 5) None false false.
Definition p_dim := P "Dimension" (MTyIn [(s "DIMENSION"); (s "NUMBER"); (s "PERCENTAGE")]) false (ASub (Some (s "DIMENSION")) 6) None false false.
Definition p_value := P "Value" (MTyIn [(s "IDENT"); (s "STRING"); (s "UNICODE-RANGE")]) false (ASub (Some (s "Value")) 4) None false false.
Definition p_ratio := P "ratio" (MTy (s "RATIO")) false ALower None false false.
Definition vals_ps : list ptree := [PProd p_color; PProd p_dim; PProd p_value; PProd p_ratio].
Definition colon_ps : list ptree := [PProd p_colon; PCho vals_ps None].
Definition expr_ps (pf : bool) : list ptree :=
  [PProd p_open; PProd p_feat; PSeq colon_ps 0 (Some 1); PProd (p_close pf)].
Definition exprS pf := PSeq (expr_ps pf) 1 (Some 1).
Definition and_ps pf ns : list ptree := [PProd (p_and ns); exprS pf].
Definition alt1_ps pf : list ptree := [PProd p_onlynot; PProd p_type_known; PSeq (and_ps pf true) 0 None].
Definition alt2_ps pf : list ptree := [exprS pf; PSeq (and_ps pf false) 0 None].
Definition alt3_ps pf : list ptree := [PProd p_onlynot; PProd p_type_any; PSeq (and_ps pf true) 0 None].
Definition root_ps pf : list ptree := [PSeq (alt1_ps pf) 1 (Some 1); PSeq (alt2_ps pf) 1 (Some 1); PSeq (alt3_ps pf) 1 (Some 1)].
Definition mq_tree pf : ptree := PCho (root_ps pf) None.

Lemma tree_MediaQuery_eq : tree_MediaQuery = mq_tree false.  Proof. reflexivity. Qed.
Lemma tree_MediaQuery_partof_eq : tree_MediaQuery_partof = mq_tree true.  Proof. reflexivity. Qed.

(* ------------------------------------------------------------------ generic steps of the main loop *)
Definition mst (stk : list frame) (seq : list item) (sto : store) (sd nm strict : bool) (rest : list tok) : lstate :=
  mkLs stk seq sto true sd false true nm false strict None SOff false rest stash0.

Definition gapl (g : list tok) : Prop := Forall (fun t => ty t = s "S" \/ ty t = s "COMMENT") g.
Definition gap_items (g : list tok) : list item :=
  flat_map (fun t => if isC t then [IStr (s "CSSComment") (val t)] else []) g.

Lemma gap_items_app a b : gap_items (a ++ b) = gap_items a ++ gap_items b.
Proof. unfold gap_items. apply flat_map_app. Qed.

(* the items the main loop appends for plain tokens: S dropped, COMMENT -> CSSComment, else (type, value) *)
Definition tok_items (l : list tok) : list item :=
  flat_map (fun t => if isS t then [] else if isC t then [IStr (s "CSSComment") (val t)] else [IStr (ty t) (val t)]) l.
Lemma tok_items_app a b : tok_items (a ++ b) = tok_items a ++ tok_items b.
Proof. unfold tok_items. apply flat_map_app. Qed.
Lemma tok_items_gap g : gapl g -> gap_items g = tok_items g.
Proof.
  induction 1 as [|t g Ht Hg IH]; [reflexivity|]. cbn [gap_items tok_items flat_map]. fold (gap_items g). fold (tok_items g).
  rewrite IH. unfold isS, isC. destruct Ht as [Ht|Ht]; rewrite Ht; reflexivity.
Qed.

Ltac gapl_tac := repeat first [apply Forall_nil | apply Forall_cons; [first [left; reflexivity | right; reflexivity]|]].
Lemma gapl_opt lay g : gapl (gopt lay g).
Proof. unfold gopt, gap_opt. destruct (Nat.modulo (lk lay g) 7) as [|[|[|[|[|[|?]]]]]]; gapl_tac. Qed.
Lemma gapl_req lay g : gapl (greq lay g).
Proof. unfold greq, gap_req. destruct (Nat.modulo (lk lay g) 5) as [|[|[|[|?]]]]; gapl_tac. Qed.

Ltac ls_simpl :=
  unfold mst, set_stream, set_stash, set_afterS, add_item, set_store, set_wf, set_stopall, set_started, set_found, set_stack,
    set_defaultS, set_keep;
  cbn [l_stack l_seq l_store l_wf l_started l_stopall l_defaultS l_stopnm l_afterS l_strict l_keep l_own l_anc l_rest l_stash].

Section Steps.
  Variable sub : nat -> bool -> tok -> list tok -> out.
  Variable postof : nat -> option postcode.
  Notation run k st := (loop opts0 sub postof (length (l_rest st) + k) st).

  (* whitespace is dropped, a comment becomes a CSSComment item (prodparser.py l.516-526) *)
  Lemma run_gap g : gapl g -> forall k stk acc sto sd nm strict rest,
    loop opts0 sub postof (length (g ++ rest) + k) (mst stk (rev acc) sto sd nm strict (g ++ rest)) =
    loop opts0 sub postof (length rest + k) (mst stk (rev (acc ++ gap_items g)) sto sd nm strict rest).
  Proof.
    induction 1 as [|t g Ht Hg IH]; intros k stk acc sto sd nm strict rest.
    - cbn [app gap_items flat_map]. now rewrite app_nil_r.
    - cbn [app length Nat.add]. rewrite loop_unfold. unfold pull. cbn [mst l_stash saved stash0 l_own l_anc l_rest spull].
      unfold body. cbn [opts0 o_checkS o_keepS andb negb set_stream l_defaultS l_started orb]. 
      cbn [gap_items flat_map]. fold (gap_items g). unfold isC.
      destruct Ht as [Ht|Ht]; rewrite Ht.
      + change (eqs (s "S") (s "COMMENT")) with false. change (eqs (s "S") (s "S")) with true. cbn [andb orb negb app].
        apply IH.
      + change (eqs (s "COMMENT") (s "COMMENT")) with true. cbn iota.
        change (add_item (set_stream (mst stk (rev acc) sto sd nm strict (t :: g ++ rest)) SOff false (g ++ rest)) (IStr (s "CSSComment") (val t)))
          with (mst stk (IStr (s "CSSComment") (val t) :: rev acc) sto sd nm strict (g ++ rest)).
        rewrite <- rev_unit. rewrite app_assoc. apply IH.
  Qed.

  Lemma run_gap' g : gapl g -> forall k stk acc sto sd nm strict rest,
    loop opts0 sub postof (length (g ++ rest) + k) (mst stk (rev acc) sto sd nm strict (g ++ rest)) =
    loop opts0 sub postof (length rest + k) (mst stk (rev (acc ++ tok_items g)) sto sd nm strict rest).
  Proof. intros Hg *. rewrite <- (tok_items_gap g Hg). now apply run_gap. Qed.

  Definition plain_ty (t : str) : Prop :=
    eqs t (s "COMMENT") = false /\ eqs t (s "S") = false /\ eqs t (s "INVALID") = false /\ eqs t (s "EOF") = false.

  Lemma body_found tk st p stk' :
    plain_ty (ty tk) -> find (find_fuel (l_stack st)) (l_stack st) tk = FFound p stk' ->
    body opts0 sub postof tk st =
    process sub postof p tk (set_found (set_started st) stk' (negb (p_mayend p)) (p_stopnm p || l_stopnm st)).
  Proof.
    intros (H1 & H2 & H3 & H4) Hf. unfold body. cbn [opts0 o_checkS andb]. rewrite H1, H2, H3, H4.
    rewrite andb_false_r. cbn [andb]. change (l_stack (set_started st)) with (l_stack st). rewrite Hf. reflexivity.
  Qed.

  Lemma process_plain p tk st :
    p_toseq p = ADefault -> p_stop p = false -> p_stopkeep p = false -> p_nextsor p = false ->
    process sub postof p tk st =
    LCont (set_defaultS (set_store (add_item st (IStr (ty tk) (val tk)))
                                   (do_store p tk (IStr (ty tk) (val tk)) (l_store st))) true).
  Proof. intros Ha Hs Hk Hn. unfold process. rewrite Hk, Ha, Hs, Hn. reflexivity. Qed.

  (* a token for which the production stack yields a plain Prod (toSeq = the default lambda, no stop flags) *)
  Lemma run_tok tk p stk' k stk acc sto sd nm strict rest :
    plain_ty (ty tk) ->
    find (find_fuel stk) stk tk = FFound p stk' ->
    p_toseq p = ADefault -> p_stop p = false -> p_stopkeep p = false -> p_nextsor p = false -> p_storetok p = false ->
    loop opts0 sub postof (length (tk :: rest) + k) (mst stk (rev acc) sto sd nm strict (tk :: rest)) =
    loop opts0 sub postof (length rest + k)
      (mst stk' (rev (acc ++ tok_items [tk]))
           (match p_store p with Some key => store_add key (val tk) sto | None => sto end)
           true (p_stopnm p || nm) (negb (p_mayend p)) rest).
  Proof.
    intros Hp Hf Ha Hs Hk Hn Hst.
    replace (tok_items [tk]) with [IStr (ty tk) (val tk)].
    2:{ destruct Hp as (H1 & H2 & _). unfold tok_items, isS, isC. cbn [flat_map]. now rewrite H1, H2. }
    cbn [length Nat.add]. rewrite loop_unfold.
    change (pull (mst stk (rev acc) sto sd nm strict (tk :: rest))) with (Some (tk, mst stk (rev acc) sto sd nm strict rest)).
    cbv iota beta. rewrite (body_found tk (mst stk (rev acc) sto sd nm strict rest) p stk' Hp Hf).
    rewrite (process_plain p tk _ Ha Hs Hk Hn). cbv iota beta. f_equal.
    unfold do_store. rewrite Hst, rev_unit. reflexivity.
  Qed.

  (* the end of the token stream: the closing loop over the production stack *)
  Lemma run_end k stk acc sto sd nm strict it :
    final stk strict true = FinOk true -> eqs (item_ty it) (s "S") = false ->
    loop opts0 sub postof (S k) (mst stk (rev (acc ++ [it])) sto sd nm strict []) =
    Ret (mkRes true (acc ++ [it]) sto false None SOff false [] stash0).
  Proof.
    intros Hf Hit. rewrite loop_unfold. unfold pull. cbn [mst l_stash saved stash0 l_own l_anc l_rest spull].
    unfold finish. ls_simpl. rewrite Hf. rewrite rev_unit. cbn [opts0 o_emptyOk negb andb].
    cbn [rstripS]. rewrite Hit. rewrite <- rev_unit, rev_involutive. reflexivity.
  Qed.
End Steps.

(* ------------------------------------------------------------------ stack frames and transitions of the media query grammar *)
Definition fE pf i rnd := FSeq (expr_ps pf) 1 (Some 1) i rnd true.
Definition fAnd pf ns i rnd := FSeq (and_ps pf ns) 0 None i rnd true.
Definition fColon i rnd := FSeq colon_ps 0 (Some 1) i rnd true.
Definition fVals := FCho vals_ps false true.

Definition kw (b : bool) (x : string) : tok := T "IDENT" (if b then upper (s x) else s x).

Lemma find_and_R pf ns base rnd b fu :
  find (S (S fu)) (fE pf 0 1 :: fAnd pf ns 0 rnd :: base) (kw b "and") = FFound (p_and ns) (fAnd pf ns 1 rnd :: base).
Proof. destruct b, pf, ns; vm_compute; reflexivity. Qed.

Lemma find_open_A pf ns base rnd fu :
  find (S (S fu)) (fAnd pf ns 1 rnd :: base) (ch "(") = FFound p_open (fE pf 1 0 :: fAnd pf ns 0 (S rnd) :: base).
Proof. destruct pf, ns; vm_compute; reflexivity. Qed.

Lemma find_feat pf ctx v fu :
  find (S fu) (fE pf 1 0 :: ctx) (T "IDENT" v) = FFound p_feat (fE pf 2 0 :: ctx).
Proof. destruct pf; lazy; reflexivity. Qed.

Lemma find_close pf ctx fu :
  find (S fu) (fE pf 2 0 :: ctx) (ch ")") = FFound (p_close pf) (fE pf 0 1 :: ctx).
Proof. destruct pf; vm_compute; reflexivity. Qed.

Definition fAlt pf (a : nat) i rnd := FSeq (nth a [alt1_ps pf; alt2_ps pf; alt3_ps pf] []) 1 (Some 1) i rnd true.
Definition fRoot pf exh := FCho (root_ps pf) false exh.
Definition c0 pf := [fRoot pf false].

Lemma enter_mq pf : enter (mq_tree pf) = Some (fRoot pf false).
Proof. destruct pf; reflexivity. Qed.

Definition known_type (t : str) : Prop := mem_s (normalize t) media_types = true.
Definition not_neg (t : str) : Prop := mem_s (normalize t) [s "only"; s "not"] = false.

Lemma find_neg pf b x : x = "only"%string \/ x = "not"%string ->
  find (find_fuel (c0 pf)) (c0 pf) (kw b x) = FFound p_onlynot [fAlt pf 0 1 0; fRoot pf true].
Proof. intros [-> | ->]; destruct b, pf; vm_compute; reflexivity. Qed.


Lemma tm_onlynot t : tok_matches p_onlynot (Some (T "IDENT" t)) = mem_s (normalize t) [s "only"; s "not"].
Proof. reflexivity. Qed.
Lemma tm_known t : tok_matches p_type_known (Some (T "IDENT" t)) = mem_s (normalize t) media_types.
Proof. reflexivity. Qed.

Lemma find_c0_generic p1 p2 x a2 a3 tk fu :
  p_opt p1 = true -> tok_matches p1 (Some tk) = false -> tok_matches p2 (Some tk) = true ->
  find (S (S fu)) [FCho [PSeq [PProd p1; PProd p2; x] 1 (Some 1); a2; a3] false false] tk =
  FFound p2 [FSeq [PProd p1; PProd p2; x] 1 (Some 1) 2 0 true; FCho [PSeq [PProd p1; PProd p2; x] 1 (Some 1); a2; a3] false true].
Proof.
  intros Ho H1 H2. cbn -[tmatches]. cbn [tmatches topt]. rewrite H1, Ho, H2. cbn -[tmatches]. cbn [tmatches topt]. rewrite H1, Ho, H2. reflexivity.
Qed.

Lemma find_seq1_generic p1 p2 x lo hi base tk fu :
  tok_matches p2 (Some tk) = true ->
  find (S fu) (FSeq [PProd p1; PProd p2; x] lo (Some (S hi)) 1 0 true :: base) tk =
  FFound p2 (FSeq [PProd p1; PProd p2; x] lo (Some (S hi)) 2 0 true :: base).
Proof. intros H2. cbn -[tmatches]. cbn [tmatches]. rewrite H2. reflexivity. Qed.

Lemma find_type_known0 pf t : not_neg t -> known_type t ->
  find (find_fuel (c0 pf)) (c0 pf) (T "IDENT" t) = FFound p_type_known [fAlt pf 0 2 0; fRoot pf true].
Proof.
  unfold not_neg, known_type. intros H1 H2. apply find_c0_generic; [reflexivity| |]; [rewrite tm_onlynot|rewrite tm_known]; assumption.
Qed.

Lemma find_type_known1 pf t : known_type t ->
  find (find_fuel [fAlt pf 0 1 0; fRoot pf true]) [fAlt pf 0 1 0; fRoot pf true] (T "IDENT" t) =
  FFound p_type_known [fAlt pf 0 2 0; fRoot pf true].
Proof. unfold known_type. intros H2. apply find_seq1_generic. now rewrite tm_known. Qed.

(* alternative 3 of the root Choice: an IDENT that is neither ONLY/NOT nor a known media type nor "(" *)
Lemma find_c0_alt3_generic p1 p2 x q1 y w p1' p3 z tk fu :
  p_opt p1 = true -> tok_matches p1 (Some tk) = false -> p_opt p2 = false -> tok_matches p2 (Some tk) = false ->
  p_opt q1 = false -> tok_matches q1 (Some tk) = false ->
  p_opt p1' = true -> tok_matches p1' (Some tk) = false -> tok_matches p3 (Some tk) = true ->
  find (S (S fu)) [FCho [PSeq [PProd p1; PProd p2; x] 1 (Some 1); PSeq [PSeq (PProd q1 :: y) 1 (Some 1); w] 1 (Some 1);
                         PSeq [PProd p1'; PProd p3; z] 1 (Some 1)] false false] tk =
  FFound p3 [FSeq [PProd p1'; PProd p3; z] 1 (Some 1) 2 0 true;
             FCho [PSeq [PProd p1; PProd p2; x] 1 (Some 1); PSeq [PSeq (PProd q1 :: y) 1 (Some 1); w] 1 (Some 1);
                   PSeq [PProd p1'; PProd p3; z] 1 (Some 1)] false true].
Proof.
  intros Ho1 H1 Ho2 H2 Hoq Hq Ho1' H1' H3.
  cbn -[tmatches]. cbn [tmatches topt Nat.eqb]. rewrite H1, Ho1, H2, Ho2, Hq, Hoq, H1', Ho1', H3.
  cbn -[tmatches]. cbn [tmatches topt]. rewrite H1', Ho1', H3. reflexivity.
Qed.

Definition unknown_type (t : str) : Prop := mem_s (normalize t) media_types = false /\ eqs t (s "(") = false.

Lemma find_type_any0 pf t : not_neg t -> unknown_type t ->
  find (find_fuel (c0 pf)) (c0 pf) (T "IDENT" t) = FFound p_type_any [fAlt pf 2 2 0; fRoot pf true].
Proof.
  unfold not_neg, unknown_type. intros H1 [H2 H3].
  apply find_c0_alt3_generic; try reflexivity; try (rewrite tm_onlynot; assumption); [rewrite tm_known; assumption|exact H3].
Qed.

Lemma find_open0 pf :
  find (find_fuel (c0 pf)) (c0 pf) (ch "(") = FFound p_open [fE pf 1 0; fAlt pf 1 1 0; fRoot pf true].
Proof. destruct pf; vm_compute; reflexivity. Qed.
Lemma find_and_T1 pf b :
  find (find_fuel [fAlt pf 0 2 0; fRoot pf true]) [fAlt pf 0 2 0; fRoot pf true] (kw b "and") =
  FFound (p_and true) (fAnd pf true 1 0 :: [fAlt pf 0 0 1; fRoot pf true]).
Proof. destruct pf, b; vm_compute; reflexivity. Qed.
Lemma find_and_T2 pf b :
  find (find_fuel [fE pf 0 1; fAlt pf 1 1 0; fRoot pf true]) [fE pf 0 1; fAlt pf 1 1 0; fRoot pf true] (kw b "and") =
  FFound (p_and false) (fAnd pf false 1 0 :: [fAlt pf 1 0 1; fRoot pf true]).
Proof. destruct pf, b; vm_compute; reflexivity. Qed.

Lemma find_and_T3 pf b :
  find (find_fuel [fAlt pf 2 2 0; fRoot pf true]) [fAlt pf 2 2 0; fRoot pf true] (kw b "and") =
  FFound (p_and true) (fAnd pf true 1 0 :: [fAlt pf 2 0 1; fRoot pf true]).
Proof. destruct pf, b; vm_compute; reflexivity. Qed.

Lemma final_R pf ns base rnd st : final (fE pf 0 1 :: fAnd pf ns 0 rnd :: base) st true = final base st true.
Proof. destruct pf, ns; cbn; destruct rnd; reflexivity. Qed.

(* a stack that is ready for "AND expression" or for the end of the query *)
Definition ready pf ns base stk : Prop :=
  (exists r0, forall b, find (find_fuel stk) stk (kw b "and") = FFound (p_and ns) (fAnd pf ns 1 r0 :: base)) /\
  final stk true true = FinOk true /\ final base true true = FinOk true.

Lemma ready_R pf ns base rnd : final base true true = FinOk true -> ready pf ns base (fE pf 0 1 :: fAnd pf ns 0 rnd :: base).
Proof.
  intros Hb. split; [|split; [rewrite final_R; exact Hb|exact Hb]].
  exists rnd. intros b. apply find_and_R.
Qed.
Lemma ready_T1 pf : ready pf true [fAlt pf 0 0 1; fRoot pf true] [fAlt pf 0 2 0; fRoot pf true].
Proof. split; [exists 0; apply find_and_T1|]. destruct pf; split; reflexivity. Qed.
Lemma ready_T3 pf : ready pf true [fAlt pf 2 0 1; fRoot pf true] [fAlt pf 2 2 0; fRoot pf true].
Proof. split; [exists 0; apply find_and_T3|]. destruct pf; split; reflexivity. Qed.
Lemma ready_T2 pf : ready pf false [fAlt pf 1 0 1; fRoot pf true] [fE pf 0 1; fAlt pf 1 1 0; fRoot pf true].
Proof. split; [exists 0; apply find_and_T2|]. destruct pf; split; reflexivity. Qed.

(* ------------------------------------------------------------------ running the media query grammar on a rendered query *)
Lemma plain_ident : plain_ty (s "IDENT").  Proof. repeat split. Qed.
Lemma plain_char : plain_ty (s "CHAR").  Proof. repeat split. Qed.

Section MQ.
  Variable sub : nat -> bool -> tok -> list tok -> out.
  Variable postof : nat -> option postcode.
  Variable lay : layout.
  Notation LOOP := (loop opts0 sub postof).

  Definition it_close : item := IStr (s "CHAR") (s ")").
  Definition x_inner' (e : mexpr) : list item :=
    tok_items (gopt lay (me_g0 e)) ++ tok_items [T "IDENT" (me_feat e)] ++ tok_items (gopt lay (me_g1 e)).
  Definition andtok (gc : nat) : tok := T "IDENT" (cased lay gc (s "and")).
  Fixpoint x_ands (l : list (nat * nat * nat * mexpr)) : list item :=
    match l with
    | [] => []
    | (ga, gc, gb, e) :: r =>
        tok_items (greq lay ga) ++ tok_items [andtok gc] ++ tok_items (greq lay gb) ++ tok_items [ch "("] ++
        x_inner' e ++ [it_close] ++ x_ands r
    end.
  Fixpoint sto_ands (ns : bool) (l : list (nat * nat * nat * mexpr)) (sto : store) : store :=
    match l with
    | [] => sto
    | (ga, gc, gb, e) :: r => sto_ands ns r (if ns then store_add (s "not simple") (cased lay gc (s "and")) sto else sto)
    end.

  Lemma run_expr_inner pf ctx e k acc sto sd nm strict rest :
    LOOP (length (gopt lay (me_g0 e) ++ T "IDENT" (me_feat e) :: gopt lay (me_g1 e) ++ ch ")" :: rest) + k)
         (mst (fE pf 1 0 :: ctx) (rev acc) sto sd nm strict
              (gopt lay (me_g0 e) ++ T "IDENT" (me_feat e) :: gopt lay (me_g1 e) ++ ch ")" :: rest)) =
    LOOP (length rest + k) (mst (fE pf 0 1 :: ctx) (rev ((acc ++ x_inner' e) ++ [it_close])) sto true (pf || nm) true rest).
  Proof.
    rewrite (run_gap' sub postof _ (gapl_opt lay (me_g0 e))).
    rewrite (run_tok sub postof (T "IDENT" (me_feat e)) p_feat (fE pf 2 0 :: ctx));
      [|exact plain_ident|apply find_feat|reflexivity..].
    rewrite (run_gap' sub postof _ (gapl_opt lay (me_g1 e))).
    rewrite (run_tok sub postof (ch ")") (p_close pf) (fE pf 0 1 :: ctx));
      [|exact plain_char|apply find_close|reflexivity..].
    cbn [p_store p_feat p_close P p_stopnm p_mayend orb negb].
    unfold x_inner'. rewrite <- !app_assoc. reflexivity.
  Qed.

  Lemma mexprs_shape ga gc gb e r rest : me_val e = None ->
    r_mexprs lay false ((ga, gc, gb, e) :: r) ++ rest =
    greq lay ga ++ andtok gc :: greq lay gb ++ ch "(" :: gopt lay (me_g0 e) ++ T "IDENT" (me_feat e) :: gopt lay (me_g1 e) ++
    ch ")" :: r_mexprs lay false r ++ rest.
  Proof.
    intros Hv. cbn [r_mexprs]. unfold r_mexpr. rewrite Hv. unfold andtok.
    repeat (rewrite <- app_assoc; cbn [app]). reflexivity.
  Qed.

  Lemma run_tail pf ns base : final base true true = FinOk true ->
    forall l, Forall (fun x => me_val (snd x) = None) l ->
    forall stk acc0 it sto sd nm k, ready pf ns base stk -> eqs (item_ty it) (s "S") = false ->
    LOOP (length (r_mexprs lay false l) + S k) (mst stk (rev (acc0 ++ [it])) sto sd nm true (r_mexprs lay false l)) =
    Ret (mkRes true ((acc0 ++ [it]) ++ x_ands l) (sto_ands ns l sto) false None SOff false [] stash0).
  Proof.
    intros Hb. induction 1 as [|[[[ga gc] gb] e] r Hv Hr IH]; intros stk acc0 it sto sd nm k Hrd Hit.
    - cbn [r_mexprs length Nat.add x_ands sto_ands]. rewrite app_nil_r. apply run_end; [apply Hrd|exact Hit].
    - destruct Hrd as [[r0 Hand] _]. cbn [snd] in Hv.
      rewrite <- (app_nil_r (r_mexprs lay false ((ga, gc, gb, e) :: r))). rewrite (mexprs_shape _ _ _ _ _ _ Hv). rewrite app_nil_r.
      rewrite (run_gap' sub postof _ (gapl_req lay ga)).
      rewrite (run_tok sub postof (andtok gc) (p_and ns) (fAnd pf ns 1 r0 :: base));
        [|exact plain_ident|exact (Hand (Nat.odd (lk lay gc)))|destruct ns; reflexivity..].
      rewrite (run_gap' sub postof _ (gapl_req lay gb)).
      rewrite (run_tok sub postof (ch "(") p_open (fE pf 1 0 :: fAnd pf ns 0 (S r0) :: base));
        [|exact plain_char|apply find_open_A|reflexivity..].
      rewrite run_expr_inner.
      rewrite (IH _ _ it_close _ _ _ k (ready_R pf ns base (S r0) Hb) eq_refl).
      cbn [x_ands sto_ands]. f_equal. f_equal.
      + rewrite <- !app_assoc. reflexivity.
      + destruct ns; reflexivity.
  Qed.
End MQ.

(* ------------------------------------------------------------------ stage 2: the media query grammar accepts the rendered queries *)
(* side conditions on the AST (all needed, see the comments):
   - a media type must not read as ONLY/NOT (else alternative 1 takes it as the prefix) and must be one of MEDIA_TYPES:
     with only/not an unknown type is a "Missing token for production media_type" error in the implementation
     (the first alternative of the Choice is selected by the prefix), so known types are required there; a query that is a
     bare unknown type takes alternative 3 (not covered here);
   - without a media type there must be an expression;
   - expressions without values (me_val = None): stage 3 is not covered *)
Definition wf_mq (q : mquery) : Prop :=
  match mq_type q with
  | Some t => not_neg t /\ (known_type t \/ (mq_neg q = 0 /\ unknown_type t))
  | None => mq_exprs q <> []
  end /\ Forall (fun x => me_val (snd x) = None) (mq_exprs q).

Definition negtok lay (q : mquery) : tok :=
  T "IDENT" (cased lay (mq_gcase q) (match mq_neg q with 1 => s "only" | _ => s "not" end)).

(* the sequence and the store the parse builds *)
Definition x_mquery lay (q : mquery) : list item :=
  match mq_type q with
  | Some t =>
      match mq_neg q with
      | 0 => []
      | _ => tok_items [negtok lay q] ++ tok_items (greq lay (mq_g0 q))
      end ++ tok_items [T "IDENT" t] ++ x_ands lay (mq_exprs q)
  | None =>
      match mq_exprs q with
      | [] => []
      | (_, _, _, e) :: r => tok_items [ch "("] ++ x_inner' lay e ++ [it_close] ++ x_ands lay r
      end
  end.
Definition sto_mquery lay (q : mquery) : store :=
  match mq_type q with
  | Some t =>
      sto_ands lay true (mq_exprs q)
        (store_add (s "media_type") t
           (match mq_neg q with 0 => [] | _ => [(s "not simple", [val (negtok lay q)])] end))
  | None => []
  end.

Lemma pparse_mq_unfold d lay q :
  pparse d env_real true opts0 tree_MediaQuery (r_mquery lay q) stash0 =
  loop opts0 (fun g' a' t' l' => pparse_sub d env_real g' a' (Some t') l') (postof_env env_real)
       (length (r_mquery lay q) + 3) (mst (c0 false) (rev []) [] false false false (r_mquery lay q)).
Proof.
  unfold pparse, parse_tree. rewrite tree_MediaQuery_eq. unfold init_state. rewrite enter_mq.
  replace (loop_fuel stash0 (r_mquery lay q)) with (length (r_mquery lay q) + 3) by (unfold loop_fuel; cbn; lia).
  reflexivity.
Qed.

Theorem media_query_accepts_items d lay q : wf_mq q ->
  pparse d env_real true opts0 tree_MediaQuery (r_mquery lay q) stash0 =
  Ret (mkRes true (x_mquery lay q) (sto_mquery lay q) false None SOff false [] stash0).
Proof.
  intros [Ht Hv]. rewrite pparse_mq_unfold.
  set (sub := fun g' a' t' l' => pparse_sub d env_real g' a' (Some t') l'). set (po := postof_env env_real).
  unfold r_mquery, x_mquery, sto_mquery. destruct (mq_type q) as [t|] eqn:Et.
  - destruct Ht as [Hn Hk]. destruct (mq_neg q) as [|n] eqn:En.
    + cbn [app]. destruct Hk as [Hk|[_ Hu]].
      * rewrite (run_tok sub po (T "IDENT" t) p_type_known [fAlt false 0 2 0; fRoot false true]);
          [|exact plain_ident|apply find_type_known0; assumption|reflexivity..].
        cbn [p_store p_type_known P p_stopnm p_mayend orb negb val T].
        change (rev ([] ++ tok_items [T "IDENT" t])) with (rev ([] ++ [IStr (s "IDENT") t])).
        rewrite (run_tail sub po lay false true _ (proj2 (proj2 (ready_T1 false))) _ Hv _ [] (IStr (s "IDENT") t) _ _ _ 2 (ready_T1 false) eq_refl).
        reflexivity.
      * rewrite (run_tok sub po (T "IDENT" t) p_type_any [fAlt false 2 2 0; fRoot false true]);
          [|exact plain_ident|apply find_type_any0; assumption|reflexivity..].
        cbn [p_store p_type_any P p_stopnm p_mayend orb negb val T].
        change (rev ([] ++ tok_items [T "IDENT" t])) with (rev ([] ++ [IStr (s "IDENT") t])).
        rewrite (run_tail sub po lay false true _ (proj2 (proj2 (ready_T3 false))) _ Hv _ [] (IStr (s "IDENT") t) _ _ _ 2 (ready_T3 false) eq_refl).
        reflexivity.
    + destruct Hk as [Hk|[E0 _]]; [|congruence].
      assert (Hnt : (if match n with 0 => true | _ => false end then T "IDENT" (cased lay (mq_gcase q) (s "only"))
                     else T "IDENT" (cased lay (mq_gcase q) (s "not"))) = negtok lay q)
        by (unfold negtok; rewrite En; destruct n; reflexivity).
      assert (Htoks : match S n with
                      | 0 => []
                      | 1 => T "IDENT" (cased lay (mq_gcase q) (s "only")) :: greq lay (mq_g0 q)
                      | S (S _) => T "IDENT" (cased lay (mq_gcase q) (s "not")) :: greq lay (mq_g0 q)
                      end = negtok lay q :: greq lay (mq_g0 q))
        by (rewrite <- Hnt; destruct n; reflexivity).
      rewrite Htoks. clear Htoks Hnt. cbn [app].
      assert (Hfn : find (find_fuel (c0 false)) (c0 false) (negtok lay q) = FFound p_onlynot [fAlt false 0 1 0; fRoot false true]).
      { unfold negtok. rewrite En. destruct n.
        - exact (find_neg false (Nat.odd (lk lay (mq_gcase q))) "only" (or_introl eq_refl)).
        - exact (find_neg false (Nat.odd (lk lay (mq_gcase q))) "not" (or_intror eq_refl)). }
      rewrite (run_tok sub po (negtok lay q) p_onlynot [fAlt false 0 1 0; fRoot false true]);
        [|exact plain_ident|exact Hfn|reflexivity..].
      rewrite (run_gap' sub po _ (gapl_req lay (mq_g0 q))).
      rewrite (run_tok sub po (T "IDENT" t) p_type_known [fAlt false 0 2 0; fRoot false true]);
        [|exact plain_ident|apply find_type_known1; assumption|reflexivity..].
      cbn [p_store p_type_known p_onlynot P p_stopnm p_mayend orb negb].
      change (tok_items [T "IDENT" t]) with [IStr (s "IDENT") t].
      rewrite (run_tail sub po lay false true _ (proj2 (proj2 (ready_T1 false))) _ Hv _ _ (IStr (s "IDENT") t) _ _ _ 2 (ready_T1 false) eq_refl).
      f_equal. f_equal. rewrite <- !app_assoc. reflexivity.
  - destruct (mq_exprs q) as [|[[[ga gc] gb] e] r] eqn:El; [congruence|].
    inversion Hv as [|? ? Hve Hvr]; subst. cbn [snd] in Hve.
    cbn [r_mexprs app]. unfold r_mexpr. rewrite Hve. cbn [app].
    repeat (rewrite <- app_assoc; cbn [app]).
    rewrite (run_tok sub po (ch "(") p_open [fE false 1 0; fAlt false 1 1 0; fRoot false true]);
      [|exact plain_char|apply find_open0|reflexivity..].
    rewrite run_expr_inner.
    cbn [p_store p_open P p_stopnm p_mayend orb negb].
    rewrite (run_tail sub po lay false false _ (proj2 (proj2 (ready_T2 false))) _ Hvr _ _ it_close _ _ _ 2 (ready_T2 false) eq_refl).
    f_equal. f_equal.
    + rewrite <- !app_assoc. reflexivity.
    + clear. generalize (@nil (str * list str)). induction r as [|[[[a b] c] e'] r IH]; intros sto; [reflexivity|apply IH].
Qed.

(* ------------------------------------------------------------------ MediaQuery.mediaType (mediaquery.py:182-193) *)
Lemma sg_add_same k v sto : store_get k (store_add k v sto) <> None.
Proof.
  induction sto as [|[k' vs] r IH]; cbn [store_add store_get]; [rewrite eqs_refl; discriminate|].
  destruct (eqs k' k) eqn:E; cbn [store_get]; rewrite E; [discriminate|exact IH].
Qed.
Lemma sg_add_pres k k' v sto : store_get k sto <> None -> store_get k (store_add k' v sto) <> None.
Proof.
  induction sto as [|[k2 vs] r IH]; cbn [store_add store_get]; [congruence|]. intros H.
  destruct (eqs k2 k') eqn:E1; cbn [store_get]; destruct (eqs k2 k) eqn:E2; try discriminate; auto.
Qed.
Lemma sto_ands_ns lay l : forall sto, store_get (s "not simple") sto <> None ->
  store_get (s "not simple") (sto_ands lay true l sto) <> None.
Proof. induction l as [|[[[a b] c] e] r IH]; intros sto H; cbn [sto_ands]; [exact H|]. apply IH, sg_add_pres, H. Qed.
Lemma mq_mediatype_ns sto : store_get (s "not simple") sto <> None -> mq_mediatype sto = [].
Proof.
  unfold mq_mediatype. intros H. destruct (store_get (s "media_type") sto) as [[|v vs]|];
    destruct (store_get (s "not simple") sto); congruence.
Qed.

(* the media type is kept iff the query is simple: no only/not, no expression *)
Definition simple_type (q : mquery) : str :=
  match mq_type q, mq_neg q, mq_exprs q with Some t, 0, [] => t | _, _, _ => [] end.
Lemma mq_mediatype_sto lay q : mq_mediatype (sto_mquery lay q) = simple_type q.
Proof.
  unfold sto_mquery, simple_type. destruct (mq_type q) as [t|]; [|reflexivity]. destruct (mq_neg q) as [|n].
  - destruct (mq_exprs q) as [|[[[a b] c] e] r]; [reflexivity|].
    apply mq_mediatype_ns. cbn [sto_ands]. apply sto_ands_ns, sg_add_same.
  - assert (H : mq_mediatype (sto_ands lay true (mq_exprs q)
                 (store_add (s "media_type") t [(s "not simple", [val (negtok lay q)])])) = []).
    { apply mq_mediatype_ns, sto_ands_ns, sg_add_pres. cbn [store_get]. rewrite eqs_refl. discriminate. }
    rewrite H. destruct (mq_exprs q); reflexivity.
Qed.

Theorem media_query_accepts : forall q lay, wf_mq q ->
  exists r, pparse 6 env_real true opts0 tree_MediaQuery (r_mquery lay q) stash0 = Ret r /\
            r_wf r = true /\ r_items r = x_mquery lay q /\ mq_mediatype (r_store r) = simple_type q /\
            r_rest r = [] /\ saved (r_stash r) = [].
Proof.
  intros q lay H. eexists. split; [apply media_query_accepts_items; exact H|]. cbn [r_wf r_items r_store r_rest r_stash].
  repeat split. apply mq_mediatype_sto.
Qed.

(* the hypotheses are satisfiable: `ONLY screen and (color)` in a layout with comments *)
Example media_query_accepts_ex :
  wf_mq (mkMQ 1 0 1 (Some (s "screen")) [(2, 3, 4, mkMExpr 0 (s "color") 1 None 2)]).
Proof. split; [split; [reflexivity|left; reflexivity]|repeat constructor]. Qed.

(* a bare unknown media type takes alternative 3 of the root Choice *)
Example media_query_accepts_ex3 :
  wf_mq (mkMQ 0 0 1 (Some (s "foo")) [(2, 3, 4, mkMExpr 0 (s "color") 1 None 2)]).
Proof. split; [split; [reflexivity|right; repeat split]|repeat constructor]. Qed.

(* ------------------------------------------------------------------ the sequence, token by token *)
Lemma tok_items_cons t l : tok_items (t :: l) = tok_items [t] ++ tok_items l.
Proof. change (t :: l) with ([t] ++ l). apply tok_items_app. Qed.

Lemma x_ands_tok lay l : Forall (fun x => me_val (snd x) = None) l -> x_ands lay l = tok_items (r_mexprs lay false l).
Proof.
  induction 1 as [|[[[ga gc] gb] e] r Hv Hr IH]; [reflexivity|]. cbn [snd] in Hv.
  rewrite <- (app_nil_r (r_mexprs lay false ((ga, gc, gb, e) :: r))), (mexprs_shape lay _ _ _ _ _ [] Hv), app_nil_r.
  rewrite tok_items_app, (tok_items_cons (andtok lay gc)), tok_items_app, (tok_items_cons (ch "(")), tok_items_app,
    (tok_items_cons (T "IDENT" (me_feat e))), tok_items_app, (tok_items_cons (ch ")")).
  rewrite <- IH. cbn [x_ands]. unfold x_inner'. rewrite <- !app_assoc. reflexivity.
Qed.

(* every token of the rendering becomes one item, whitespace is dropped, comments become CSSComment items *)
Lemma x_mquery_tok lay q : wf_mq q -> x_mquery lay q = tok_items (r_mquery lay q).
Proof.
  intros [Ht Hv]. unfold r_mquery. destruct (mq_type q) as [t|] eqn:Et.
  - rewrite tok_items_app, (tok_items_cons (T "IDENT" t)), <- (x_ands_tok lay _ Hv).
    unfold x_mquery. rewrite Et. f_equal.
    unfold negtok. destruct (mq_neg q) as [|[|n]]; [reflexivity| |];
      rewrite (tok_items_cons (T "IDENT" _)); reflexivity.
  - unfold x_mquery. rewrite Et. destruct (mq_exprs q) as [|[[[ga gc] gb] e] r]; [reflexivity|].
    inversion Hv as [|? ? Hve Hvr]; subst. cbn [snd] in Hve.
    cbn [r_mexprs app]. unfold r_mexpr. rewrite Hve. cbn [app]. repeat (rewrite <- app_assoc; cbn [app]).
    match goal with |- ?L = _ => set (lhs := L) end.
    rewrite (tok_items_cons (ch "(")), tok_items_app, (tok_items_cons (T "IDENT" (me_feat e))), tok_items_app,
      (tok_items_cons (ch ")")).
    rewrite <- (x_ands_tok lay _ Hvr). subst lhs. unfold x_inner'. rewrite <- !app_assoc. reflexivity.
Qed.

Corollary media_query_accepts_tokens q lay : wf_mq q ->
  exists r, pparse 6 env_real true opts0 tree_MediaQuery (r_mquery lay q) stash0 = Ret r /\
            r_wf r = true /\ r_items r = tok_items (r_mquery lay q) /\ mq_mediatype (r_store r) = simple_type q.
Proof.
  intros H. destruct (media_query_accepts q lay H) as (r & H1 & H2 & H3 & H4 & _). exists r.
  rewrite <- (x_mquery_tok lay q H). auto.
Qed.
