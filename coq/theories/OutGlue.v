(* OutGlue.v -- property C05: which adjacent item texts would merge into different tokens when glued.
   Glue is a character-class table over (last character of the left text, first character of the right text);
   glue_complete validates it against the shared tokenizer model on all pairs of representative lexemes. *)
From CssV Require Import Base Regex Tokenizer.

Definition ch (x : string) : N := match s x with c :: _ => c | [] => 0%N end.
Definition is_digit (c : N) : bool := (48 <=? c)%N && (c <=? 57)%N.
Definition is_letter (c : N) : bool := ((65 <=? c)%N && (c <=? 90)%N) || ((97 <=? c)%N && (c <=? 122)%N).
Definition nameish (c : N) : bool :=
  is_digit c || is_letter c || N.eqb c (ch "-") || N.eqb c (ch "_") || (128 <=? c)%N.
Definition is_hex (c : N) : bool :=
  is_digit c || ((65 <=? c)%N && (c <=? 70)%N) || ((97 <=? c)%N && (c <=? 102)%N).

Definition glue_chars (a b : N) : bool :=
  (nameish a && (nameish b || N.eqb b (ch "(") || N.eqb b (ch "\")))        (* IDENT/NUMBER/DIMENSION/HASH/ATKEYWORD go on; IDENT( *)
  || (is_digit a && (N.eqb b (ch ".") || N.eqb b (ch "%")))                  (* 1 .5 -> 1.5 ; 1 % *)
  || (N.eqb a (ch ".") && is_digit b)
  || ((N.eqb a (ch "@") || N.eqb a (ch "#")) && (nameish b || N.eqb b (ch "\")))
  || (N.eqb a (ch "+") && (is_digit b || N.eqb b (ch ".")))                  (* + 2 -> +2 *)
  || (N.eqb a (ch "-") && N.eqb b (ch "."))
  || ((N.eqb a (ch "~") || N.eqb a (ch "|") || N.eqb a (ch "^") || N.eqb a (ch "$") || N.eqb a (ch "*"))
      && N.eqb b (ch "="))                                                   (* ~= |= ^= $= *= *)
  || (N.eqb a (ch "/") && N.eqb b (ch "*"))                                  (* comment opener *)
  || (N.eqb a (ch "<") && N.eqb b (ch "!")) || (N.eqb a (ch "-") && N.eqb b (ch ">"))   (* CDO CDC *)
  || ((N.eqb a (ch "u") || N.eqb a (ch "U")) && N.eqb b (ch "+"))            (* unicode-range *)
  || ((is_hex a || N.eqb a (ch "?")) && N.eqb b (ch "?"))
  || (N.eqb a (ch "?") && nameish b)                                         (* u+2? a *)
  || N.eqb a (ch "\").                                                       (* an escape takes the next character *)

Definition Glue (ta tb : str) : bool :=
  match rev ta, tb with
  | a :: _, b :: _ => glue_chars a b
  | _, _ => false
  end.

(* representative lexemes: one or more per token kind of the tokenizer (escape spellings excluded: C10) *)
Open Scope string_scope.
Definition reps : list str :=
  map s ["a"; "-a"; "a1"; "and"; "important"; "u"; "U"; "e3"; "1"; "+2"; "-1"; ".5"; "1.5"; "1px"; "50%";
         "#abc"; "@media"; "f("; "url(x)"; "url('x y')"; """s"""; "'s'"; "U+0-7F"; "u+2?";
         "+"; "-"; "/"; "*"; ">"; "~"; "|"; "^"; "$"; "="; "~="; "|="; "("; ")"; "["; "]"; "{"; "}"; ";"; ":";
         ","; "."; "#"; "@"; "!"; "<!--"; "-->"; "%"; "?"; "<"; " "; "/*c*/"].

Close Scope string_scope.
Definition toks_of (t : str) : option (list (str * str)) :=
  match tokenize true false t with
  | Some l => Some (map (fun k => (k.(ty), k.(val))) (filter (fun k => negb (eqs k.(ty) (s "S"))) l))   (* S tokens are layout *)
  | None => None
  end.

Fixpoint eq_toks (a b : list (str * str)) : bool :=
  match a, b with
  | [], [] => true
  | (x1, y1) :: a', (x2, y2) :: b' => eqs x1 x2 && eqs y1 y2 && eq_toks a' b'
  | _, _ => false
  end.

(* gluing la and lb changes the token sequence *)
Definition merges (la lb : str) : bool :=
  match toks_of la, toks_of lb, toks_of (la ++ lb) with
  | Some a, Some b, Some ab => negb (eq_toks (a ++ b) ab)
  | _, _, _ => true
  end.

Definition glue_table_ok : bool :=
  forallb (fun la => forallb (fun lb => implb (merges la lb) (Glue la lb)) reps) reps.

Definition glue_gaps : list (str * str) :=
  flat_map (fun la => flat_map (fun lb => if implb (merges la lb) (Glue la lb) then [] else [(la, lb)]) reps) reps.
