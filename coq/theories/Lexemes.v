(* Lexemes.v -- the lexeme classes of the CSS token grammar as Gallina data (C09).
   A lexeme is built from *elements* (plain character, hexadecimal escape with its optional
   terminator, literal escape); `text` renders it, `classify` gives the (type, value) the grammar
   assigns to it by construction, `ok_follow` is the adjacency rule ("cannot merge with what
   follows").  harness/props/c09.py mirrors these definitions in Python.                     *)
From CssV Require Import Base Regex Gen.Productions Gen.TokTables Tokenizer.

(* ---- macro shapes, written by hand; LexemeFacts.shapes_ok checks that the regenerated
        productions are exactly these (fail-closed when the source changes) ---- *)
Definition ws_rs : list (N * N) := [(9,9); (13,13); (10,10); (12,12); (32,32)]%N.
Definition hex_rs : list (N * N) := [(48,57); (65,70); (97,102)]%N.
Definition dig_rs : list (N * N) := [(48,57)]%N.
Definition nmstart_rs : list (N * N) := [(95,95); (97,122); (65,90)]%N.
Definition nmchar_rs : list (N * N) := [(45,45); (95,95); (97,122); (65,90); (48,57)]%N.
Definition lit_excl_rs : list (N * N) := [(10,10); (13,13); (12,12); (48,57); (97,102)]%N.
Definition nl_re : re := Alt (Chr 10) (Alt (Cat (Chr 13) (Chr 10)) (Alt (Chr 13) (Chr 12))).
Definition term_re : re := Rep (Alt nl_re (Cls false ws_rs)) 0 (Some 1%nat).
Definition uni_tail : re := Cat (Rep (Cls false hex_rs) 1 (Some 6%nat)) term_re.
Definition esc_tail : re := Alt uni_tail (Cls true lit_excl_rs).
Definition escape_re : re := Cat (Chr 92) esc_tail.
Definition nonascii_re : re := Cls true [(0,127)]%N.
Definition nmstart_re : re := Alt (Cls false nmstart_rs) (Alt nonascii_re escape_re).
Definition nmchar_re : re := Alt (Cls false nmchar_rs) (Alt nonascii_re escape_re).
Definition dash_re : re := Rep (Chr 45) 0 (Some 1%nat).
Definition ident_re : re := Cat dash_re (Cat nmstart_re (Rep nmchar_re 0 None)).
Definition sign_re : re := Rep (Cls false [(43,43); (45,45)]%N) 0 (Some 1%nat).
Definition num_re : re :=
  Alt (Cat sign_re (Cat (Rep (Cls false dig_rs) 0 None) (Cat (Chr 46) (Rep (Cls false dig_rs) 1 None))))
      (Cat sign_re (Rep (Cls false dig_rs) 1 None)).
Definition str_body (q : N) : re :=
  Rep (Alt (Cls true [(10,10); (13,13); (12,12); (92,92); (q,q)]%N)
           (Alt (Cat (Chr 92) nl_re) escape_re)) 0 None.
Definition string_re : re :=
  Alt (Cat (Chr 34) (Cat (str_body 34) (Chr 34))) (Cat (Chr 39) (Cat (str_body 39) (Chr 39))).
Definition comment_re : re :=
  Cat (Chr 47) (Cat (Chr 42) (Cat (Rep (NotChr 42) 0 None) (Cat (Rep (Chr 42) 1 None)
    (Cat (Rep (Cat (Cls true [(47,47); (42,42)]%N) (Cat (Rep (NotChr 42) 0 None) (Rep (Chr 42) 1 None))) 0 None) (Chr 47))))).
Definition ws_re : re := Rep (Cls false ws_rs) 0 None.
Definition ratio_re : re :=
  Cat (NotBehind 40) (Cat ws_re (Cat (Rep (Cls false dig_rs) 1 None) (Cat ws_re (Cat (Chr 47)
    (Cat ws_re (Cat (Rep (Cls false dig_rs) 1 None) (Ahead 41))))))).

(* ------------------------------------------------------------------ elements *)
Inductive el :=
| P (c : N)                         (* a plain character                                   *)
| H (ds : str) (term : str)         (* backslash, 1-6 hex digits, optional white-space terminator *)
| L (c : N)                         (* literal escape: backslash + a char that is neither hex nor newline *)
| E (nl : str).                     (* escaped newline (strings only)                      *)

Definition render_el (e : el) : str :=
  match e with P c => [c] | H ds t => 92%N :: ds ++ t | L c => [92%N; c] | E nl => 92%N :: nl end.
Definition render (els : list el) : str := concat (map render_el els).

(* the character(s) an element denotes after escape resolution; literal escapes and escaped
   newlines stay verbatim (the former for later normalisation, the latter for cleanstring) *)
Definition denote_el (e : el) : str :=
  match e with
  | P c => [c]
  | H ds t => if N.leb (hex_num ds) maxunicode then [hex_num ds] else render_el e
  | L c => [92%N; c]
  | E nl => 92%N :: nl
  end.
Definition denote (els : list el) : str := concat (map denote_el els).

Definition is_ws (c : N) : bool := in_ranges c ws_rs.
Definition is_hex (c : N) : bool := in_ranges c hex_rs.
Definition is_dig (c : N) : bool := in_ranges c dig_rs.
Definition is_c (k c : N) : bool := N.eqb c k.
Definition hd_not (f : N -> bool) (t : str) : bool := match t with [] => true | c :: _ => negb (f c) end.

Definition terms : list str := [[]; [32]; [9]; [10]; [12]; [13]; [13; 10]]%N.
Definition nls : list str := [[10]; [12]; [13]; [13; 10]]%N.

(* an element is canonical w.r.t. the text that follows it: an unterminated hex escape must not be
   followed by white space (it would be swallowed) nor, with fewer than 6 digits, by a hex digit;
   a CR terminator / escaped CR must not be followed by LF *)
Definition wf_el (plain : N -> bool) (allow_nl : bool) (e : el) (nxt : str) : bool :=
  match e with
  | P c => plain c
  | H ds t =>
      Nat.leb 1 (length ds) && Nat.leb (length ds) 6 && forallb is_hex ds && mem_str t terms &&
      match t with
      | [] => hd_not is_ws nxt && (Nat.eqb (length ds) 6 || hd_not is_hex nxt)
      | [13%N] => hd_not (is_c 10) nxt
      | _ => true
      end
  | L c => negb (in_ranges c lit_excl_rs) && negb (is_hex c)
  | E nl => allow_nl && mem_str nl nls && match nl with [13%N] => hd_not (is_c 10) nxt | _ => true end
  end.

Fixpoint wf_els (plain : N -> bool) (allow_nl : bool) (els : list el) (rest : str) : bool :=
  match els with
  | [] => true
  | e :: r => wf_el plain allow_nl e (render r ++ rest) && wf_els plain allow_nl r rest
  end.

Definition nmstart_plain (c : N) : bool := in_ranges c nmstart_rs || N.leb 128 c.
Definition nmchar_plain (c : N) : bool := in_ranges c nmchar_rs || N.leb 128 c.
(* a character that could continue a name: nmchar, non-ASCII or a backslash *)
Definition nm_cont (c : N) : bool := nmchar_plain c || N.eqb c 92.
Definition str_plain (q : N) (c : N) : bool :=
  negb (in_ranges c [(10,10); (13,13); (12,12); (92,92); (q,q)]%N).

(* ------------------------------------------------------------------ numbers *)
Record num := { nsign : str; nint : str; nfrac : option str }.
Definition num_text (n : num) : str :=
  nsign n ++ nint n ++ match nfrac n with Some f => 46%N :: f | None => [] end.
Definition wf_num (n : num) : bool :=
  mem_str (nsign n) [[]; [43]; [45]]%N && forallb is_dig (nint n) &&
  match nfrac n with
  | Some f => negb (Nat.eqb (length f) 0) && forallb is_dig f
  | None => negb (Nat.eqb (length (nint n)) 0)
  end.

(* ------------------------------------------------------------------ comments *)
(* '/*' seg0 stars0 (c seg stars)* '/' : the shape of every comment without an inner '*/' *)
Record cgroup := { gc : N; gseg : str; gstars : nat }.
Definition stars (n : nat) : str := repeat 42%N (S n).
Definition group_text (g : cgroup) : str := gc g :: gseg g ++ stars (gstars g).
Definition not_star (c : N) : bool := negb (N.eqb c 42).
Definition wf_group (g : cgroup) : bool :=
  negb (N.eqb (gc g) 47) && negb (N.eqb (gc g) 42) && forallb not_star (gseg g).

(* ------------------------------------------------------------------ lexemes *)
Inductive opkind := OIncludes | ODash | OPrefix | OSuffix | OSubstr | OCdo | OCdc.
Definition op_text (o : opkind) : str :=
  match o with OIncludes => s "~=" | ODash => s "|=" | OPrefix => s "^=" | OSuffix => s "$="
             | OSubstr => s "*=" | OCdo => s "<!--" | OCdc => s "-->" end.
Definition op_name (o : opkind) : str :=
  match o with OIncludes => s "INCLUDES" | ODash => s "DASHMATCH" | OPrefix => s "PREFIXMATCH"
             | OSuffix => s "SUFFIXMATCH" | OSubstr => s "SUBSTRINGMATCH" | OCdo => s "CDO" | OCdc => s "CDC" end.

(* ------------------------------------------------------------------ letter macros U R L and the URI / UNICODE-RANGE shapes *)
Definition mterm_rs : list (N * N) := [(32,32); (9,9); (13,13); (10,10); (12,12)]%N.
Definition mterm_re : re := Rep (Alt (Cat (Chr 13) (Chr 10)) (Cls false mterm_rs)) 0 (Some 1%nat).
Definition hh_re (a1 a2 : N) (x : re) : re := Alt (Cat (Chr a1) x) (Cat (Chr a2) x).
Definition letter_re (up lo : N) (hh : re) : re :=
  Alt (Chr up) (Alt (Chr lo) (Alt (Cat (Chr 92) (Cat (Rep (Chr 48) 0 (Some 4%nat)) (Cat hh mterm_re)))
    (Alt (Cat (Chr 92) (Chr up)) (Cat (Chr 92) (Chr lo))))).
Definition cC_rs : list (N * N) := [(99,99); (67,67)]%N.
Definition U_re : re := letter_re 85 117 (hh_re 53 55 (Chr 53)).
Definition R_re : re := letter_re 82 114 (hh_re 53 55 (Chr 50)).
Definition L_re : re := letter_re 76 108 (hh_re 52 54 (Cls false cC_rs)).

Definition url_rs : list (N * N) := [(9,9); (33,33); (35,38); (40,40); (42,91); (93,126)]%N.
Definition urlch_re : re := Alt (Cls false url_rs) (Alt nonascii_re escape_re).
Definition quoted_re (q : N) : re := Cat (Chr q) (Cat (str_body q) (Chr q)).
Definition uri_rest : re :=
  Cat (Chr 40) (Cat ws_re (Cat (Alt (Alt (quoted_re 34) (quoted_re 39)) (Rep urlch_re 0 None)) (Cat ws_re (Chr 41)))).
Definition uri_re : re := Cat U_re (Cat R_re (Cat L_re uri_rest)).
Definition hexq_rs : list (N * N) := [(48,57); (65,70); (97,102); (63,63)]%N.
Definition ur_rest : re :=
  Cat (Chr 43) (Cat (Rep (Cls false hexq_rs) 1 (Some 6%nat))
                    (Rep (Cat (Chr 45) (Rep (Cls false hex_rs) 1 (Some 6%nat))) 0 (Some 1%nat))).
Definition urange_re : re := Cat U_re ur_rest.

(* the spellings a letter macro accepts at the start of t, as consumed lengths in the macro's priority order
   (plain upper, plain lower, backslash + up to four zeros + two hex digits + optional terminator - longest
   terminator first: CR LF, one white-space character, none -, backslash + upper, backslash + lower)          *)
Record letter := { l_up : N; l_lo : N; l_hhb : N -> N -> bool }.
Definition LU : letter := {| l_up := 85; l_lo := 117; l_hhb := fun a b => (N.eqb a 53 || N.eqb a 55) && N.eqb b 53 |}.
Definition LR : letter := {| l_up := 82; l_lo := 114; l_hhb := fun a b => (N.eqb a 53 || N.eqb a 55) && N.eqb b 50 |}.
Definition LL : letter := {| l_up := 76; l_lo := 108;
                             l_hhb := fun a b => (N.eqb a 52 || N.eqb a 54) && in_ranges b cC_rs |}.

Fixpoint zeros_n (n : nat) (t : str) : nat :=
  match n, t with
  | S n', x :: r => if N.eqb x 48 then S (zeros_n n' r) else O
  | _, _ => O
  end.
Definition term_lens (t : str) : list nat :=
  match t with
  | c :: r => if N.eqb c 13 && match r with d :: _ => N.eqb d 10 | [] => false end then [2; 1; 0]%nat
              else if in_ranges c mterm_rs then [1; 0]%nat else [0%nat]
  | [] => [0%nat]
  end.
Definition single_len (c : N) (t : str) : list nat :=
  match t with x :: _ => if N.eqb x c then [1%nat] else [] | [] => [] end.
Definition bs_lit_len (c : N) (t : str) : list nat :=
  match t with
  | x :: y :: _ => if N.eqb x 92 && N.eqb y c then [2%nat] else []
  | _ => []
  end.
Definition bs_hex_len (hhb : N -> N -> bool) (t : str) : list nat :=
  match t with
  | x :: r => if N.eqb x 92 then
                let z := zeros_n 4 r in
                match skipn z r with
                | a :: b :: r2 => if hhb a b then map (fun n => (1 + (z + (2 + n)))%nat) (term_lens r2) else []
                | _ => []
                end
              else []
  | [] => []
  end.
Definition lspell (lt : letter) (t : str) : list nat :=
  single_len (l_up lt) t ++ single_len (l_lo lt) t ++ bs_hex_len (l_hhb lt) t ++
  bs_lit_len (l_up lt) t ++ bs_lit_len (l_lo lt) t.

(* t starts with a spelling of  u r l (  : the URI production can get past its keyword *)
Definition url_open (t : str) : bool :=
  existsb (fun n1 => let t1 := skipn n1 t in
    existsb (fun n2 => let t2 := skipn n2 t1 in
      existsb (fun n3 => match skipn n3 t2 with c :: _ => N.eqb c 40 | [] => false end) (lspell LL t2))
      (lspell LR t1)) (lspell LU t).
(* t starts with a spelling of  u +  : the UNICODE-RANGE production can get past its keyword *)
Definition ur_open (t : str) : bool :=
  existsb (fun n1 => match skipn n1 t with c :: _ => N.eqb c 43 | [] => false end) (lspell LU t).
(* neither: URI and UNICODE-RANGE cannot match, whatever follows *)
Definition kw_free (t : str) : bool := negb (url_open t) && negb (ur_open t).

(* an element that is one of the macro's spellings of the letter *)
Definition spells (lt : letter) (e : el) : bool :=
  match e with
  | P c | L c => N.eqb c (l_up lt) || N.eqb c (l_lo lt)
  | H ds _ => match skipn (zeros_n 4 ds) ds with [a; b] => l_hhb lt a b | _ => false end
  | E _ => false
  end.

Inductive ubody := UQuoted (q : N) (els : list el) | UBare (els : list el).
Definition ubody_text (b : ubody) : str :=
  match b with UQuoted q els => q :: render els ++ [q] | UBare els => render els end.
Definition url_plain (c : N) : bool := in_ranges c url_rs || N.leb 128 c.
Definition url_cont (c : N) : bool := url_plain c || N.eqb c 92.
Definition is_hexq (c : N) : bool := in_ranges c hexq_rs.

Inductive lexeme :=
| LIdent (dash : bool) (e0 : el) (els : list el)
| LFunction (dash : bool) (e0 : el) (els : list el)      (* ident immediately followed by '(' *)
| LHash (els : list el)
| LAt (dash : bool) (e0 : el) (els : list el)
| LNum (n : num)
| LPct (n : num)
| LDim (n : num) (dash : bool) (e0 : el) (els : list el)
| LStr (q : N) (els : list el)
| LComment (seg0 : str) (st0 : nat) (gs : list cgroup)
| LWs (xs : str)
| LOp (o : opkind)
| LDelim (c : N)
| LUri (eu er el_ : el) (w1 : str) (body : ubody) (w2 : str)    (* url( w (string | url-chars) w ) *)
| LUrange (eu : el) (a : str) (b : option str).                  (* u+hex?{1,6}(-hex{1,6})? *)

Definition dash_text (d : bool) : str := if d then [45%N] else [].
Definition ident_text (d : bool) (e0 : el) (els : list el) : str := dash_text d ++ render (e0 :: els).

Definition text (l : lexeme) : str :=
  match l with
  | LIdent d e0 els => ident_text d e0 els
  | LFunction d e0 els => ident_text d e0 els ++ [40%N]
  | LHash els => 35%N :: render els
  | LAt d e0 els => 64%N :: ident_text d e0 els
  | LNum n => num_text n
  | LPct n => num_text n ++ [37%N]
  | LDim n d e0 els => num_text n ++ ident_text d e0 els
  | LStr q els => q :: render els ++ [q]
  | LComment seg0 st0 gs => 47%N :: 42%N :: seg0 ++ stars st0 ++ concat (map group_text gs) ++ [47%N]
  | LWs xs => xs
  | LOp o => op_text o
  | LDelim c => [c]
  | LUri eu er el_ w1 body w2 => render [eu; er; el_] ++ 40%N :: w1 ++ ubody_text body ++ w2 ++ [41%N]
  | LUrange eu a b => render_el eu ++ 43%N :: a ++ match b with Some bs => 45%N :: bs | None => [] end
  end.

(* name of the production that recognises the lexeme *)
Definition cls (l : lexeme) : str :=
  match l with
  | LIdent _ _ _ => s "IDENT" | LFunction _ _ _ => s "FUNCTION" | LHash _ => s "HASH" | LAt _ _ _ => s "ATKEYWORD"
  | LNum _ => s "NUMBER" | LPct _ => s "PERCENTAGE" | LDim _ _ _ _ => s "DIMENSION"
  | LStr _ _ => s "STRING" | LComment _ _ _ => s "COMMENT" | LWs _ => s "S"
  | LOp o => op_name o | LDelim _ => s "CHAR"
  | LUri _ _ _ _ _ _ => s "URI" | LUrange _ _ _ => s "UNICODE-RANGE"
  end.

(* (type, value) of a token whose production is `name` and whose text is `found`
   (tokenize2.py l.209-236 without the '@charset ' special case, which ok_follow excludes) *)
Definition tokval (name found : str) : str * str :=
  if mem_str name resolved_types then
    let v := unicodesub found in (name, if mem_str name clean_types then cleanstring v else v)
  else if eqs name (s "ATKEYWORD") then
    match assoc_str (normalize_u found) atkeywords with
    | Some sym => (sym, found)
    | None => (s "ATKEYWORD", unicodesub found)     (* unknown at-keyword: escapes resolved *)
    end
  else (name, found).

Definition classify (l : lexeme) : str * str := tokval (cls l) (text l).

(* ---- well-formedness of a lexeme relative to the text that follows (adjacency) ---- *)
(* no-dash identifiers / function names starting with u, U or an escape compete with URI and UNICODE-RANGE, which
   come first in the production list: the name wins exactly when neither keyword can be read at the start of the
   text (kw_free: no spelling of  u r l (  and no spelling of  u + ).  LexemeUri.ident_kw_free discharges this for
   every identifier that is not followed by '(' or '+'.                                                        *)
Definition u_safe (nxt : str) : bool :=
  hd_not (fun c => N.eqb c 82 || N.eqb c 114 || N.eqb c 92 || N.eqb c 43) nxt.
Definition first_plain_ok (d : bool) (e0 : el) (nxt : str) : bool :=
  d || match e0 with
       | P c => if N.eqb c 85 || N.eqb c 117 then kw_free (render_el e0 ++ nxt) else true
       | _ => kw_free (render_el e0 ++ nxt)
       end.

Definition wf_ident (d : bool) (e0 : el) (els : list el) (rest : str) : bool :=
  wf_el nmstart_plain false e0 (render els ++ rest) && wf_els nmchar_plain false els rest &&
  hd_not nm_cont rest.

Definition skip_ws (t : str) : str :=
  (fix go (t : str) := match t with c :: r => if is_ws c then go r else t | [] => [] end) t.
Definition ratio_risk (t : str) : bool :=
  match skip_ws t with
  | 47%N :: r => match skip_ws r with d :: _ => is_dig d | [] => false end
  | _ => false
  end.

Definition fast (c : N) : bool := mem c fastchars.

(* delimiters covered by the theorems: the fast-path characters and the characters that start no other
   token ('*' '/' '.' '+' '-' '<' '@' '#' '~' '|' '^' '$' depend on what follows: harness only) *)
Definition pure_delims : str := s "()!=&%?`" ++ [1%N; 127%N].

(* can an identifier start here?  nmstart character, non-ASCII, or a backslash that begins an escape
   (followed by anything but a newline character) *)
Definition is_nlc (c : N) : bool := in_ranges c [(10,10); (13,13); (12,12)]%N.
Definition nmstart_at (t : str) : bool :=
  match t with
  | c :: r => nmstart_plain c ||
              (N.eqb c 92 && match r with c2 :: _ => negb (is_nlc c2) | [] => false end)
  | [] => false
  end.
Definition ident_at (t : str) : bool :=
  match t with 45%N :: r => nmstart_at r | _ => nmstart_at t end.
Definition dot_digit (t : str) : bool := match t with 46%N :: d :: _ => is_dig d | _ => false end.

(* the delimiters whose class depends on what follows: sufficient (and, except for '/' and '@'
   followed by a lone backslash, necessary) conditions for the character to be a CHAR token *)
Definition ctx_delim_ok (c : N) (rest : str) : bool :=
  if mem c (s "~|^$*") then hd_not (is_c 61) rest                       (* not the match operator *)
  else if N.eqb c 47 then hd_not (is_c 42) rest                          (* not a comment opener *)
  else if N.eqb c 46 then hd_not is_dig rest                             (* not a fraction *)
  else if N.eqb c 43 then hd_not is_dig rest && negb (dot_digit rest)    (* not a signed number *)
  else if N.eqb c 60 then negb (starts (s "!--") rest)                   (* not CDO *)
  else if N.eqb c 64 then negb (ident_at rest)                           (* not an at-keyword *)
  else if N.eqb c 35 then hd_not nm_cont rest                            (* not a hash *)
  else if N.eqb c 45 then negb (nmstart_at rest) && hd_not is_dig rest && negb (dot_digit rest) &&
                          negb (starts (s "->") rest)                    (* not ident / number / CDC *)
  else if N.eqb c 92 then match rest with c2 :: _ => is_nlc c2 | [] => true end   (* not an escape *)
  else false.

Definition ok_follow (l : lexeme) (rest : str) : bool :=
  match l with
  | LIdent d e0 els => wf_ident d e0 els rest && first_plain_ok d e0 (render els ++ rest) &&
                       (hd_not (is_c 40) rest || eqs (lower (ident_text d e0 els)) (s "and"))   (* the and( exception *)
  | LFunction d e0 els => wf_ident d e0 els (40%N :: rest) && first_plain_ok d e0 (render els ++ 40%N :: rest) &&
                          negb (eqs (lower (ident_text d e0 els)) (s "and"))
  | LHash els => negb (Nat.eqb (length els) 0) && wf_els nmchar_plain false els rest && hd_not nm_cont rest
  | LAt d e0 els => wf_ident d e0 els rest &&
                    negb (eqs (ident_text d e0 els) (s "charset") && starts (s " ") rest)
  | LNum n => wf_num n && hd_not nm_cont rest && hd_not (is_c 37) rest && hd_not (is_c 46) rest &&
              negb (ratio_risk rest)
  | LPct n => wf_num n
  | LDim n d e0 els => wf_num n && wf_ident d e0 els rest
  | LStr q els => (N.eqb q 34 || N.eqb q 39) && wf_els (str_plain q) true els (q :: rest)
  | LComment seg0 st0 gs => forallb not_star seg0 && forallb wf_group gs
  | LWs xs => negb (Nat.eqb (length xs) 0) && forallb is_ws xs && hd_not is_ws rest
  | LOp o => true
  | LDelim c => fast c || mem c pure_delims || ctx_delim_ok c rest
  | LUri eu er el_ w1 body w2 =>
      spells LU eu && spells LR er && spells LL el_ &&
      wf_els (fun _ => true) false [eu; er; el_] (40%N :: w1 ++ ubody_text body ++ w2 ++ 41%N :: rest) &&
      forallb is_ws w1 && forallb is_ws w2 &&
      match body with
      | UQuoted q els => (N.eqb q 34 || N.eqb q 39) && wf_els (str_plain q) true els (q :: w2 ++ 41%N :: rest)
      | UBare els => wf_els url_plain false els (w2 ++ 41%N :: rest) &&
                     hd_not is_ws (render els ++ w2 ++ 41%N :: rest) &&   (* white space belongs to w1 *)
                     hd_not url_cont (w2 ++ 41%N :: rest)                   (* a tab after the url would be a url char *)
      end
  | LUrange eu a b =>
      spells LU eu && wf_el (fun _ => true) false eu (43%N :: a) &&
      Nat.leb 1 (length a) && Nat.leb (length a) 6 && forallb is_hexq a &&
      match b with
      | Some bs => Nat.leb 1 (length bs) && Nat.leb (length bs) 6 && forallb is_hex bs &&
                   (Nat.eqb (length bs) 6 || hd_not is_hex rest)
      | None => (Nat.eqb (length a) 6 || hd_not is_hexq rest) &&
                negb (match rest with 45%N :: h :: _ => is_hex h | _ => false end)
      end
  end.
