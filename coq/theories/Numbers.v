(* Numbers.v -- executable model of how css_parser reads and writes numbers (C17)
     css/value.py  DimensionValue._setCssText   : split of the normalised token value, int / float conversion
     serialize.py  CSSSerializer.do_css_Value   : '0' / str(int) / _strip_zeros('%f' % v), leading-zero surgery, '+'
     serialize.py  CSSSerializer._strip_zeros
   A decimal lexeme is kept exactly (sign, integer digits, fraction digits, unit); its value is a rational with a
   power-of-ten denominator.  Python's float() is the parameter [dbl : Q -> Q] (binary64 round-to-nearest-even);
   [dbl_exec] is an executable definition of it in integer arithmetic, compared bit-for-bit with CPython by the
   harness.  '%f' is the exact value rounded half-even to 6 places ([fmt6]).                                          *)
From Coq Require Import QArith Qabs Qround.
From CssV Require Import Base Regex Gen.NumConsts.
Local Open Scope Z_scope.

(* ------------------------------------------------------------------ lexemes *)
Inductive sign := SNone | SPlus | SMinus.
Record lexeme := mkLex { lsign : sign; lint : str; lfrac : option str; lunit : str }.

Definition sign_str (sg : sign) : str :=
  match sg with SNone => [] | SPlus => [43%N] | SMinus => [45%N] end.
Definition frac_str (f : option str) : str :=
  match f with Some d => 46%N :: d | None => [] end.
Definition render (lx : lexeme) : str :=
  sign_str (lsign lx) ++ lint lx ++ frac_str (lfrac lx) ++ lunit lx.

Definition is_digit (c : N) : bool := N.leb 48 c && N.leb c 57.

Fixpoint span_digits (t : str) : str * str :=
  match t with
  | [] => ([], [])
  | c :: r => if is_digit c then (let p := span_digits r in (c :: fst p, snd p)) else ([], t)
  end.

Definition take_sign (t : str) : sign * str :=
  match t with
  | [] => (SNone, [])
  | c :: r => if N.eqb c 43 then (SPlus, r) else if N.eqb c 45 then (SMinus, r) else (SNone, t)
  end.

(* value.py:520  sign, v, d = __reUnNumDim.findall(normalize(item.value))[0]
   with __reUnNumDim = optional sign, then [0-9]* . [0-9]+ or [0-9]+, then anything (re.S), anchored.
   None = findall returned [] (IndexError). *)
Definition split_num (t : str) : option lexeme :=
  let sg := fst (take_sign t) in
  let t1 := snd (take_sign t) in
  let p1 := span_digits t1 in
  let ds := fst p1 in
  let t2 := snd p1 in
  let plain := match ds with [] => None | _ => Some (mkLex sg ds None t2) end in
  match t2 with
  | c :: t3 =>
    if N.eqb c 46 then
      let p2 := span_digits t3 in
      match fst p2 with
      | [] => plain
      | fs => Some (mkLex sg ds (Some fs) (snd p2))
      end
    else plain
  | [] => plain
  end.

(* the same split computed with the regenerated regex under Python's backtracking semantics;
   the driver checks split_num against it on every case                                        *)
Definition end_ok (strict : bool) (t : str) : bool :=
  match t with
  | [] => true
  | [c] => negb strict && N.eqb c 10
  | _ => false
  end.
Definition split_num_re (t : str) : option (str * str * str) :=
  m re_num_sign None t (fun p1 t1 =>
  m re_num_body p1 t1 (fun p2 t2 =>
  m re_num_rest p2 t2 (fun _ t3 =>
    if end_ok num_end_strict t3
    then Some (firstn (length t - length t1) t,
               firstn (length t1 - length t2) t1,
               firstn (length t2 - length t3) t2)
    else None))).
Definition split_agree (t : str) : bool :=
  match split_num t, split_num_re t with
  | None, None => true
  | Some lx, Some (a, b, c) =>
    eqs a (sign_str (lsign lx)) && eqs b (lint lx ++ frac_str (lfrac lx)) && eqs c (lunit lx)
  | _, _ => false
  end.

(* ------------------------------------------------------------------ exact values *)
Definition digit_val (c : N) : Z := Z.of_N c - 48.
Definition dstep (a : Z) (c : N) : Z := 10 * a + digit_val c.
Definition digits_from (a : Z) (ds : str) : Z := fold_left dstep ds a.
Definition digits_val (ds : str) : Z := digits_from 0 ds.

Fixpoint pow10 (k : nat) : positive :=
  match k with O => 1%positive | S k' => (10 * pow10 k')%positive end.

Definition frac_digits (lx : lexeme) : str := match lfrac lx with Some f => f | None => [] end.
Definition sign_z (sg : sign) : Z := match sg with SMinus => -1 | _ => 1 end.
Definition lex_num (lx : lexeme) : Z := sign_z (lsign lx) * digits_val (lint lx ++ frac_digits lx).
Definition lex_Q (lx : lexeme) : Q := lex_num lx # pow10 (length (frac_digits lx)).

(* what DimensionValue stores: int(sign+v) when there is no '.', else float(sign+v) *)
Inductive pynum := PyInt (z : Z) | PyFloat (q : Q) | PyInf.   (* PyInf: float() overflowed; rejected by parse_num *)

(* smallest magnitude that binary64 round-to-nearest turns into inf: 2^1024 - 2^970 *)
Definition ovf_threshold : Q := inject_Z (2 ^ 1024 - 2 ^ 970).

Definition Qlt_b (x y : Q) : bool := negb (Qle_bool y x).

(* ------------------------------------------------------------------ integer / fixed printing *)
Fixpoint print_fuel (fuel : nat) (n : N) (acc : str) : str :=
  match fuel with
  | O => acc
  | S f => let acc' := (48 + n mod 10)%N :: acc in
           if (n <? 10)%N then acc' else print_fuel f (n / 10)%N acc'
  end.
Definition print_N (n : N) : str := print_fuel (S (N.to_nat (N.log2 n))) n [].
Definition print_Z (z : Z) : str :=
  if z <? 0 then 45%N :: print_N (Z.to_N (- z)) else print_N (Z.to_N z).

Fixpoint fixed_digits (k : nat) (x : N) : str :=
  match k with
  | O => []
  | S k' => fixed_digits k' (x / 10)%N ++ [(48 + x mod 10)%N]
  end.

(* round half to even of a / b   (a >= 0, b > 0) *)
Definition rne_div (a b : Z) : Z :=
  let q := a / b in
  let r := a mod b in
  match Z.compare (2 * r) b with
  | Lt => q
  | Gt => q + 1
  | Eq => if Z.even q then q else q + 1
  end.
Definition rhe (x : Q) : Z :=
  if Qnum x <? 0 then - rne_div (- Qnum x) (Zpos (Qden x)) else rne_div (Qnum x) (Zpos (Qden x)).

Definition qtrunc (x : Q) : Z := Z.quot (Qnum x) (Zpos (Qden x)).      (* int(x) *)

(* '%f' % v : sign, integer part, '.', exactly six digits; correctly rounded (half-even on the exact value) *)
Definition million : N := 1000000%N.
Definition fmt6 (v : Q) : str :=
  let R := Z.to_N (rhe (Qabs v * inject_Z 1000000)) in
  (if Qlt_b v 0 then [45%N] else []) ++ print_N (R / million)%N ++ [46%N] ++ fixed_digits 6 (R mod million)%N.

(* ------------------------------------------------------------------ _strip_zeros (serialize.py:1048) *)
Fixpoint index_of (c : N) (t : str) : option nat :=
  match t with
  | [] => None
  | x :: r => if N.eqb x c then Some O else option_map S (index_of c r)
  end.
Fixpoint dropwhile_eq (c : N) (t : str) : str :=
  match t with
  | [] => []
  | x :: r => if N.eqb x c then dropwhile_eq c r else t
  end.
Definition rstrip (c : N) (t : str) : str := rev (dropwhile_eq c (rev t)).
Definition strip_zeros (t : str) : option str :=            (* None = ValueError of s.index('.') *)
  match index_of sz_point t with
  | None => None
  | Some i => let j := (i + sz_keep)%nat in Some (firstn j t ++ rstrip sz_strip (skipn j t))
  end.

(* the leading-zero surgery of do_css_Value (after the fix):  '-0.x' -> '-.x',  '0.x' -> '.x' *)
Definition strip_lead0 (v : str) : str :=
  if starts olz_neg_prefix v then firstn 1 v ++ skipn 2 v
  else if starts olz_pos_prefix v then skipn 1 v
  else v.
(* the surgery before the fix (serialize.py@6216312): decided by the written sign, not by the text *)
Definition strip_lead0_old (sg : sign) (v : str) : str :=
  match sg with SMinus => firstn 1 v ++ skipn 2 v | _ => skipn 1 v end.

Fixpoint mem_s (x : str) (l : list str) : bool :=
  match l with [] => false | y :: r => eqs x y || mem_s x r end.

Inductive outcome := Text (t : str) | Crash (what : str).

Definition pyq (v : pynum) : Q :=
  match v with PyInt z => inject_Z z | PyFloat q => q | PyInf => 0 end.

(* do_css_Value for DIMENSION / NUMBER / PERCENTAGE (serialize.py:1060-1090); [surgery] is strip_lead0 *)
Definition ser_with (surgery : str -> str) (olz : bool) (sg : sign) (v : pynum) (unit : str) : outcome :=
  match v with
  | PyInf => Crash (s "OverflowError")                      (* int(inf); unreachable through parse_num *)
  | _ =>
    let q := pyq v in
    if Qeq_bool q 0 then Text (48%N :: (if mem_s unit zero_units then [] else unit))
    else
      let val :=
        if Qeq_bool q (inject_Z (qtrunc q)) then Some (print_Z (qtrunc q))
        else match strip_zeros (fmt6 q) with
             | None => None
             | Some v' => Some (if olz && Qlt_b (-1 # 1) q && Qlt_b q 1 then surgery v' else v')
             end in
      match val with
      | None => Crash (s "ValueError")
      | Some val => Text ((match sg with SPlus => [43%N] | _ => [] end) ++ val ++ unit)
      end
  end.
Definition ser_num := ser_with strip_lead0.
Definition ser_num_old (olz : bool) (sg : sign) := ser_with (strip_lead0_old sg) olz sg.

Section WithDbl.
  Variable dbl : Q -> Q.             (* float(): binary64 round to nearest even, as an exact rational *)

  Definition to_value (lx : lexeme) : pynum :=
    match lfrac lx with
    | None => PyInt (lex_num lx)
    | Some _ => if Qle_bool ovf_threshold (Qabs (lex_Q lx)) then PyInf else PyFloat (dbl (lex_Q lx))
    end.

  (* parse a normalised token value: (lexeme, stored value).  value.py:541-553 (after fix 5180c6a): a value that
     float() turns into +-inf is 'Number out of range': the DimensionValue is not well-formed, nothing is stored.
     (int()'s digit limit, sys.get_int_max_str_digits() = 4300 digits, is not modelled.)                       *)
  Definition parse_num (t : str) : option (lexeme * pynum) :=
    match split_num t with
    | Some lx => match to_value lx with PyInf => None | v => Some (lx, v) end
    | None => None
    end.

  (* cssText of a freshly parsed DimensionValue *)
  Definition ser_lex (olz : bool) (lx : lexeme) : outcome :=
    ser_num olz (lsign lx) (to_value lx) (lunit lx).

  (* parse -> serialise -> parse *)
  Definition roundtrip (olz : bool) (lx : lexeme) : option (lexeme * pynum) :=
    match ser_lex olz lx with Text t => parse_num t | Crash _ => None end.
End WithDbl.

(* ------------------------------------------------------------------ binary64, executably *)
Definition scaled (n d e : Z) : Z * Z := if 0 <=? e then (n, d * 2 ^ e) else (n * 2 ^ (- e), d).
Definition q_of_me (mz e : Z) : Q :=
  if 0 <=? e then inject_Z (mz * 2 ^ e) else Qred (mz # Z.to_pos (2 ^ (- e))).
Definition dbl_pos (n d : Z) : Q :=        (* n > 0, d > 0 *)
  let e0 := Z.log2 n - Z.log2 d - 53 in
  let e1 := if fst (scaled n d e0) / snd (scaled n d e0) <? 2 ^ 53 then e0 else e0 + 1 in
  let e := Z.max e1 (-1074) in
  q_of_me (rne_div (fst (scaled n d e)) (snd (scaled n d e))) e.
Definition dbl_core (q : Q) : Q :=
  match Qnum q with
  | Z0 => 0
  | Zpos p => dbl_pos (Zpos p) (Zpos (Qden q))
  | Zneg p => Qopp (dbl_pos (Zpos p) (Zpos (Qden q)))
  end.
(* on the reduced fraction, so that == arguments give == results by construction *)
Definition dbl_exec (q : Q) : Q := dbl_core (Qred q).
