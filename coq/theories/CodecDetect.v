(* CodecDetect.v -- facts about the regenerated functions of Gen/CodecFns.v (detectencoding_str, detectencoding_unicode, fixencoding). *)
From CssV Require Import Base CodecPyLib Gen.CodecFns Codec.
Local Open Scope Z_scope.

(* ------------------------------------------------------------------ slices / find on in-range arguments *)
Lemma clampi_nat len n : (n <= len)%nat -> clampi (Z.of_nat len) (Z.of_nat n) = n.
Proof. intros H. rewrite clampi_nonneg by lia. apply Nat2Z.id. Qed.

Lemma clampi_over len n : (len <= n)%nat -> clampi (Z.of_nat len) (Z.of_nat n) = len.
Proof.
  intros H. unfold clampi. destruct (Z.of_nat n <? 0) eqn:E; [lia|].
  rewrite Z.min_r by lia. apply Nat2Z.id.
Qed.

Lemma py_find_char_nat x c n : (n <= length x)%nat ->
  py_find_char x c (Z.of_nat n) =
  match find_char c (skipn n x) with Some k => Z.of_nat (n + k) | None => -1 end.
Proof. intros H. unfold py_find_char, py_len. now rewrite clampi_nat. Qed.

Lemma py_slice_from x n : (n <= length x)%nat -> py_slice x (Some (Z.of_nat n)) None = skipn n x.
Proof.
  intros H. unfold py_slice, py_len. rewrite clampi_nat by exact H.
  apply firstn_all2. rewrite skipn_length. lia.
Qed.

Lemma py_slice_range x a b : (a <= b)%nat -> (b <= length x)%nat ->
  py_slice x (Some (Z.of_nat a)) (Some (Z.of_nat b)) = firstn (b - a) (skipn a x).
Proof. intros H1 H2. unfold py_slice, py_len. rewrite !clampi_nat by lia. reflexivity. Qed.

Lemma eqs_firstn_starts p x : eqs (firstn (length p) x) p = starts p x.
Proof.
  revert x; induction p as [|a p IH]; intros [|c x]; simpl; try reflexivity.
  rewrite IH. now rewrite N.eqb_sym.
Qed.

Lemma py_slice_prefix_test x p :
  eqs (py_slice x None (Some (py_len p))) p = starts p x.
Proof.
  unfold py_slice, py_len. rewrite Nat.sub_0_r. simpl skipn.
  destruct (le_lt_dec (length p) (length x)) as [H|H].
  - rewrite clampi_nat by exact H. apply eqs_firstn_starts.
  - rewrite clampi_over by lia. rewrite firstn_all.
    destruct (starts p x) eqn:E.
    + apply starts_length in E. lia.
    + destruct (eqs x p) eqn:E2; [|reflexivity]. apply eqs_spec in E2. subst. lia.
Qed.

(* ------------------------------------------------------------------ reference forms of the generated functions *)
Definition prefix : str := [64; 99; 104; 97; 114; 115; 101; 116; 32; 34]%N.   (* the text: at-charset, space, double quote *)
Definition utf8 : str := s "utf-8".

Definition fix_ref (input enc : str) (final : bool) : option str :=
  if starts prefix input then
    match find_char 34%N (skipn 10 input) with
    | Some k => Some (prefix ++ nosig enc ++ skipn (10 + k) input)
    | None => if final then Some input else None
    end
  else if (10 <? length input)%nat || negb (starts input prefix) || final then Some input else None.

Definition detectu_ref (input : str) (final : bool) : option str * bool :=
  if starts prefix input then
    match find_char 34%N (skipn 10 input) with
    | Some k => (Some (firstn k (skipn 10 input)), true)
    | None => (None, false)
    end
  else if final || negb (starts input prefix) then (Some utf8, false) else (None, false).

Lemma len_gt_10 (x : str) : (py_len x >? 10) = (10 <? length x)%nat.
Proof.
  unfold py_len. destruct (10 <? length x)%nat eqn:E.
  - apply Nat.ltb_lt in E. apply Z.gtb_lt. lia.
  - apply Nat.ltb_ge in E. destruct (Z.of_nat (length x) >? 10) eqn:E2; [|reflexivity]. apply Z.gtb_lt in E2. lia.
Qed.

Lemma starts_prefix_len x : starts prefix x = true -> (10 <= length x)%nat.
Proof. intros H. apply starts_length in H. exact H. Qed.

Lemma fix_eq input enc final : fixencoding input enc final = fix_ref input enc final.
Proof.
  unfold fixencoding, fix_ref. fold prefix. change (py_len prefix) with (Z.of_nat 10).
  change (Z.of_nat 10) with 10 at 1. rewrite len_gt_10.
  destruct (starts prefix input) eqn:Hs.
  - pose proof (starts_prefix_len _ Hs) as Hl.
    rewrite py_find_char_nat by exact Hl.
    destruct (find_char 34%N (skipn 10 input)) as [k|] eqn:Hf.
    + assert (Hk : (k < length (skipn 10 input))%nat) by (eapply find_char_lt; eauto).
      rewrite skipn_length in Hk.
      assert (Hlt : (10 <? length input)%nat = true) by (apply Nat.ltb_lt; lia).
      rewrite Hlt.
      assert (Hge : (Z.of_nat (10 + k) >=? 0) = true) by (apply Z.geb_le; lia).
      rewrite Hge. rewrite py_slice_from by lia.
      unfold nosig, is_sig. rewrite <- app_assoc.
      destruct (eqs (lower (py_replace_char enc 95%N 45%N)) (s "utf-8-sig")); reflexivity.
    + change (-1 >=? 0) with false. cbv iota.
      destruct (10 <? length input)%nat eqn:Hlt.
      * destruct final; reflexivity.
      * apply Nat.ltb_ge in Hlt. assert (length input = 10%nat) by lia.
        assert (Hsp : starts input prefix = true).
        { apply starts_spec in Hs as [r Hr]. subst input. rewrite app_length in H. simpl in H.
          destruct r; [|simpl in H; lia]. rewrite app_nil_r. apply starts_spec. exists []. now rewrite app_nil_r. }
        rewrite Hsp. simpl. destruct final; reflexivity.
  - destruct (10 <? length input)%nat eqn:Hlt; [reflexivity|]. simpl.
    destruct (starts input prefix); simpl; destruct final; reflexivity.
Qed.

Lemma detectu_eq input final : detectencoding_unicode input final = detectu_ref input final.
Proof.
  unfold detectencoding_unicode, detectu_ref. fold prefix. change (py_len prefix) with (Z.of_nat 10).
  destruct (starts prefix input) eqn:Hs; [|reflexivity].
  pose proof (starts_prefix_len _ Hs) as Hl.
  rewrite py_find_char_nat by exact Hl.
  destruct (find_char 34%N (skipn 10 input)) as [k|] eqn:Hf.
  - assert (Hk : (k < length (skipn 10 input))%nat) by (eapply find_char_lt; eauto).
    rewrite skipn_length in Hk.
    assert (Hge : (Z.of_nat (10 + k) >=? 0) = true) by (apply Z.geb_le; lia).
    rewrite Hge. rewrite py_slice_range by lia. replace (10 + k - 10)%nat with k by lia. reflexivity.
  - reflexivity.
Qed.

(* ------------------------------------------------------------------ detectencoding_str: closed forms of the candidate mask *)
Lemma bind_if_land (t : bool) (c m : Z) {B} (k : Z -> option B) :
  bind (if t then Some (Z.land c m) else Some c) k = k (Z.land c (if t then m else -1)).
Proof. destruct t; simpl; [reflexivity|]. now rewrite Z.land_m1_r. Qed.

Lemma geb_false n m : n < m -> (n >=? m) = false.
Proof. intros H. destruct (n >=? m) eqn:E; [|reflexivity]. apply Z.geb_le in E. lia. Qed.
Lemma geb_true n m : m <= n -> (n >=? m) = true.
Proof. intros H. now apply Z.geb_le. Qed.

Ltac li_tests li := repeat match goal with
  | |- context[Z.geb li ?k] => first [ rewrite (geb_true li k) by lia | rewrite (geb_false li k) by lia ] end.

Lemma py_index_0 b r : py_index (b :: r) 0 = Some (Z.of_N b). Proof. reflexivity. Qed.
Lemma py_index_1 a b r : py_index (a :: b :: r) 1 = Some (Z.of_N b). Proof. reflexivity. Qed.
Lemma py_index_2 a a' b r : py_index (a :: a' :: b :: r) 2 = Some (Z.of_N b). Proof. reflexivity. Qed.
Lemma py_index_3 a a' a'' b r : py_index (a :: a' :: a'' :: b :: r) 3 = Some (Z.of_N b). Proof. reflexivity. Qed.

Ltac norm_pre :=
  cbv zeta;
  repeat first
   [ rewrite bind_if_land
   | rewrite py_index_0 | rewrite py_index_1 | rewrite py_index_2 | rewrite py_index_3
   | progress cbn [bind] ].

Lemma py_slice_2_4 (b0 b1 b2 b3 : N) r : py_slice (b0 :: b1 :: b2 :: b3 :: r) (Some 2) (Some 4) = [b2; b3].
Proof.
  change 2 with (Z.of_nat 2). change 4 with (Z.of_nat 4). rewrite py_slice_range; [reflexivity|lia|simpl; lia].
Qed.

Ltac pre_sig n :=
  eexists; unfold detectencoding_str_pre;
  set (li := py_len _); assert (Hli : li = n) by reflexivity;
  li_tests li; norm_pre; subst li; reflexivity.

Definition pre0_sig f : { c | detectencoding_str_pre [] f = Some (c, 0) }.
Proof. pre_sig 0. Defined.
Definition pre1_sig b0 f : { c | detectencoding_str_pre [b0] f = Some (c, 1) }.
Proof. pre_sig 1. Defined.
Definition pre2_sig b0 b1 f : { c | detectencoding_str_pre [b0; b1] f = Some (c, 2) }.
Proof. pre_sig 2. Defined.
Definition pre3_sig b0 b1 b2 f : { c | detectencoding_str_pre [b0; b1; b2] f = Some (c, 3) }.
Proof. pre_sig 3. Defined.
Definition pre4_sig b0 b1 b2 b3 r f :
  { c | detectencoding_str_pre (b0 :: b1 :: b2 :: b3 :: r) f = Some (c, py_len (b0 :: b1 :: b2 :: b3 :: r)) }.
Proof.
  eexists. unfold detectencoding_str_pre. rewrite py_slice_2_4.
  set (li := py_len _).
  assert (Hli : 4 <= li) by (subst li; rewrite !py_len_cons; pose proof (py_len_nonneg r); lia).
  li_tests li. norm_pre. reflexivity.
Defined.

Definition C1 b0 := Eval cbv [pre1_sig proj1_sig] in proj1_sig (pre1_sig b0 false).
Definition C2 b0 b1 := Eval cbv [pre2_sig proj1_sig] in proj1_sig (pre2_sig b0 b1 false).
Definition C3 b0 b1 b2 := Eval cbv [pre3_sig proj1_sig] in proj1_sig (pre3_sig b0 b1 b2 false).
Definition C4 b0 b1 b2 b3 := Eval cbv [pre4_sig proj1_sig] in proj1_sig (pre4_sig b0 b1 b2 b3 [] false).

Notation dpost := detectencoding_str_post.

Lemma detect_0 f : detectencoding_str [] f = dpost 1023 0 [] f.
Proof. unfold detectencoding_str. now rewrite (proj2_sig (pre0_sig f)). Qed.
Lemma detect_1 b0 f : detectencoding_str [b0] f = dpost (C1 b0) 1 [b0] f.
Proof. unfold detectencoding_str. now rewrite (proj2_sig (pre1_sig b0 f)). Qed.
Lemma detect_2 b0 b1 f : detectencoding_str [b0; b1] f = dpost (C2 b0 b1) 2 [b0; b1] f.
Proof. unfold detectencoding_str. now rewrite (proj2_sig (pre2_sig b0 b1 f)). Qed.
Lemma detect_3 b0 b1 b2 f : detectencoding_str [b0; b1; b2] f = dpost (C3 b0 b1 b2) 3 [b0; b1; b2] f.
Proof. unfold detectencoding_str. now rewrite (proj2_sig (pre3_sig b0 b1 b2 f)). Qed.
Lemma detect_4 b0 b1 b2 b3 r f :
  detectencoding_str (b0 :: b1 :: b2 :: b3 :: r) f =
  dpost (C4 b0 b1 b2 b3) (py_len (b0 :: b1 :: b2 :: b3 :: r)) (b0 :: b1 :: b2 :: b3 :: r) f.
Proof. unfold detectencoding_str. now rewrite (proj2_sig (pre4_sig b0 b1 b2 b3 r f)). Qed.

(* ------------------------------------------------------------------ detectencoding_str: the decision part *)
Ltac case_ifs := repeat match goal with |- context[if ?c then _ else _] => destruct c eqn:? end.

Lemma post_total c li input f : exists r, dpost c li input f = Some r.
Proof. unfold dpost. cbv beta zeta. case_ifs; eexists; reflexivity. Qed.

Lemma post_final c li input : exists e x, dpost c li input true = Some (Some e, x).
Proof. unfold dpost. cbv beta zeta iota. case_ifs; do 2 eexists; reflexivity. Qed.

Lemma post_nonfinal_final c li input e x :
  dpost c li input false = Some (Some e, x) -> dpost c li input true = Some (Some e, x).
Proof.
  unfold dpost. cbv beta zeta iota. case_ifs; intros H; first [exact H | discriminate H].
Qed.

Lemma skipn_app_le {A} n (l1 l2 : list A) : (n <= length l1)%nat -> skipn n (l1 ++ l2) = skipn n l1 ++ l2.
Proof. intros H. rewrite skipn_app. replace (n - length l1)%nat with 0%nat by lia. reflexivity. Qed.

Lemma firstn_app_lt {A} n (l1 l2 : list A) : (n <= length l1)%nat -> firstn n (l1 ++ l2) = firstn n l1.
Proof.
  intros H. rewrite firstn_app. replace (n - length l1)%nat with 0%nat by lia. simpl. apply app_nil_r.
Qed.

(* the @charset branch (candidates = CHARSET, li >= 4), isolated *)
Definition charset_branch (input : str) (k : option (option str * bool)) : option (option str * bool) :=
  if starts prefix input then
    match find_char 34%N (skipn 10 input) with
    | Some n => Some (Some (firstn n (skipn 10 input)), true)
    | None => k
    end
  else k.

Lemma charset_branch_eq input k :
  (if eqs (py_slice input None (Some (py_len prefix))) prefix
   then if py_find_char input 34%N (py_len prefix) >=? 0
        then Some (Some (py_slice input (Some (py_len prefix)) (Some (py_find_char input 34%N (py_len prefix)))), true)
        else k
   else k) = charset_branch input k.
Proof.
  unfold charset_branch. rewrite py_slice_prefix_test. change (py_len prefix) with (Z.of_nat 10).
  destruct (starts prefix input) eqn:Hs; [|reflexivity].
  pose proof (starts_prefix_len _ Hs) as Hl. rewrite py_find_char_nat by exact Hl.
  destruct (find_char 34%N (skipn 10 input)) as [n|] eqn:Hf; [|reflexivity].
  assert (Hn : (n < length (skipn 10 input))%nat) by (eapply find_char_lt; eauto). rewrite skipn_length in Hn.
  rewrite geb_true by lia. rewrite py_slice_range by lia. now replace (10 + n - 10)%nat with n by lia.
Qed.

Lemma charset_branch_mono p q k k' r :
  charset_branch p k = Some r -> k = Some (None, false) -> (exists e x, r = (Some e, x)) ->
  charset_branch (p ++ q) k' = Some r.
Proof.
  unfold charset_branch. intros H -> [e [x ->]].
  destruct (starts prefix p) eqn:Hs; [|discriminate H].
  rewrite (starts_app _ _ q Hs). pose proof (starts_prefix_len _ Hs) as Hl.
  rewrite skipn_app_le by exact Hl.
  destruct (find_char 34%N (skipn 10 p)) as [n|] eqn:Hf; [|discriminate H].
  rewrite (find_char_app _ _ q _ Hf).
  rewrite firstn_app_lt; [exact H|]. apply find_char_lt in Hf. lia.
Qed.

Lemma post_mono c li li' p q fin e x : 4 <= li -> 4 <= li' ->
  dpost c li p false = Some (Some e, x) -> dpost c li' (p ++ q) fin = Some (Some e, x).
Proof.
  intros H1 H2. unfold dpost. cbv beta zeta iota. fold prefix.
  rewrite !charset_branch_eq. li_tests li. li_tests li'. rewrite !andb_true_r.
  repeat match goal with
         | |- context[if (?a =? ?b) then _ else _] => destruct (a =? b) eqn:?
         end; intros H; try exact H; try discriminate H.
  eapply charset_branch_mono; [exact H|reflexivity|eauto].
Qed.

Lemma post_li c li li' input f : 4 <= li -> 4 <= li' -> dpost c li input f = dpost c li' input f.
Proof.
  intros H1 H2. unfold dpost. cbv beta zeta. li_tests li. li_tests li'. reflexivity.
Qed.

(* ------------------------------------------------------------------ case analysis on the leading bytes *)
Lemma eqbZ_ne b k : b <> k -> (Z.of_N b =? Z.of_N k) = false.
Proof. intros H. apply Z.eqb_neq. intros E. apply N2Z.inj in E. contradiction. Qed.
Lemma eqbN_ne b k : b <> k -> N.eqb b k = false.
Proof. intros H. now apply N.eqb_neq. Qed.

Ltac split_on b ks :=
  lazymatch ks with
  | nil => idtac
  | cons ?k ?r =>
    let H := fresh "Hne" in
    destruct (N.eq_dec b k) as [->|H];
    [| let Hz := fresh "Hz" in let Hn := fresh "Hn" in
       pose proof (eqbZ_ne b k H) as Hz; cbn [Z.of_N] in Hz;
       pose proof (eqbN_ne b k H) as Hn; clear H;
       rewrite ?Hz, ?Hn; clear Hz Hn;
       split_on b r ]
  end.
Ltac sp0 b := split_on b [239; 255; 254; 64; 0]%N.
Ltac sp1 b := split_on b [187; 254; 255; 0; 64; 99]%N.
Ltac sp2 b := split_on b [191; 99; 0; 254; 104]%N.
Ltac sp3 b := split_on b [0; 255; 64; 97]%N.
Ltac leaf := let H := fresh "H" in intros H; vm_compute in H; vm_compute; first [exact H | discriminate H].
Ltac tl := try solve [leaf].

Lemma step0 c e x : detectencoding_str [] false = Some (Some e, x) -> detectencoding_str [c] false = Some (Some e, x).
Proof. rewrite detect_0. intros H. vm_compute in H. discriminate H. Qed.

Lemma step1 b0 c e x :
  detectencoding_str [b0] false = Some (Some e, x) -> detectencoding_str [b0; c] false = Some (Some e, x).
Proof. rewrite detect_1, detect_2. unfold C1, C2. sp0 b0; tl; sp1 c; leaf. Qed.

Lemma step2 b0 b1 c e x :
  detectencoding_str [b0; b1] false = Some (Some e, x) -> detectencoding_str [b0; b1; c] false = Some (Some e, x).
Proof. rewrite detect_2, detect_3. unfold C2, C3. sp0 b0; tl; sp1 b1; tl; sp2 c; leaf. Qed.

Lemma step3 b0 b1 b2 c e x :
  detectencoding_str [b0; b1; b2] false = Some (Some e, x) ->
  detectencoding_str [b0; b1; b2; c] false = Some (Some e, x).
Proof. rewrite detect_3, detect_4. unfold C3, C4. cbn [eqs]. sp0 b0; tl; sp1 b1; tl; sp2 b2; tl; sp3 c; leaf. Qed.

Lemma len4 (b0 b1 b2 b3 : N) r : 4 <= py_len (b0 :: b1 :: b2 :: b3 :: r).
Proof. rewrite !py_len_cons. pose proof (py_len_nonneg r). lia. Qed.

Lemma detect_mono_false q : forall p e x,
  detectencoding_str p false = Some (Some e, x) -> detectencoding_str (p ++ q) false = Some (Some e, x).
Proof.
  induction q as [|c q IH]; intros p e x H; [now rewrite app_nil_r|].
  destruct p as [|b0 [|b1 [|b2 [|b3 r]]]].
  - apply step0 with (c := c) in H. exact (IH [c] e x H).
  - apply step1 with (c := c) in H. exact (IH [b0; c] e x H).
  - apply step2 with (c := c) in H. exact (IH [b0; b1; c] e x H).
  - apply step3 with (c := c) in H. exact (IH [b0; b1; b2; c] e x H).
  - change ((b0 :: b1 :: b2 :: b3 :: r) ++ c :: q) with (b0 :: b1 :: b2 :: b3 :: (r ++ c :: q)).
    rewrite detect_4 in *.
    change (b0 :: b1 :: b2 :: b3 :: (r ++ c :: q)) with ((b0 :: b1 :: b2 :: b3 :: r) ++ c :: q) at 2.
    eapply post_mono; [apply len4|apply len4|exact H].
Qed.

Lemma detect_post input f : exists c, detectencoding_str input f = dpost c (py_len input) input f.
Proof.
  destruct input as [|b0 [|b1 [|b2 [|b3 r]]]]; eexists;
    [apply detect_0|apply detect_1|apply detect_2|apply detect_3|apply detect_4].
Qed.

(* no IndexError: the guards `li >= k` protect every input[k] *)
Lemma detect_total input f : exists r, detectencoding_str input f = Some r.
Proof. destruct (detect_post input f) as [c ->]. apply post_total. Qed.

(* final=True never answers None *)
Lemma detect_final input : exists e x, detectencoding_str input true = Some (Some e, x).
Proof. destruct (detect_post input true) as [c ->]. apply post_final. Qed.

Lemma detect_nonfinal_final input e x :
  detectencoding_str input false = Some (Some e, x) -> detectencoding_str input true = Some (Some e, x).
Proof.
  intros H. destruct input as [|b0 [|b1 [|b2 [|b3 r]]]];
    [rewrite detect_0 in *|rewrite detect_1 in *|rewrite detect_2 in *|rewrite detect_3 in *|rewrite detect_4 in *];
    now apply post_nonfinal_final.
Qed.

(* what makes buffering sound: a verdict reached on a prefix is the verdict on every extension *)
Lemma detect_monotone p q fin e x :
  detectencoding_str p false = Some (Some e, x) -> detectencoding_str (p ++ q) fin = Some (Some e, x).
Proof.
  intros H. apply detect_mono_false with (q := q) in H.
  destruct fin; [now apply detect_nonfinal_final|exact H].
Qed.
