(* Namespaces.v -- C15: selectors are bound to namespace URIs, not prefixes.
   Executable model of
     util._Namespaces (util.py:743-860)            view / findrule / __setitem__ / __delitem__ / prefixForNamespaceURI
     CSSStyleSheet._cleanNamespaces, _getUsedURIs, deleteRule, insertRule (@namespace branch),
       the parse-time namespacerule handler         (cssstylesheet.py:97-120, 200-221, 318-328, 448-501, 668-716)
     CSSNamespaceRule constructor / _setPrefix / _setNamespaceURI / _replaceNamespaceURI  (cssnamespacerule.py:36-87, 221-291)
     Selector.append (prefix -> URI at parse time)  (selector.py:304-381), Selector._getUsedUris (149-157)
     CSSSerializer.do_css_Selector / do_CSSNamespaceRule (serialize.py:536-559, 834-873)
   Definitions only.  _setPrefix is modelled as repaired by the commit
   "fix: CSSNamespaceRule._setPrefix replaces the prefix item ..." (search by item type, insert when absent). *)
From CssV Require Import Base.

(* ------------------------------------------------------------------ data *)
Inductive nsuri := UNone | UAny | UStr (u : str).         (* None | css_parser._ANYNS | a string ('' = no namespace) *)
Inductive kind := KType | KUniv | KAttr | KNeg.           (* type-selector universal attribute-selector negation-type-selector *)
Inductive item :=
| IPair (k : kind) (u : nsuri) (n : str)                  (* Item whose value is the tuple (uri, name) *)
| IAttr (n : str)                                         (* attribute-selector with a plain str value ([a], [|a]) *)
| IOther.                                                 (* any other Item of a selector *)
Inductive nsitem := NPrefix (p : str) | NUri (u : str) | NComment.
Record nsrule := mkNs { prefix : str; uri : str; items : list nsitem }.
Inductive rule :=
| RNs (r : nsrule)
| RStyle (its : list item)
| RMedia (rs : list (list item))
| RCharset
| RComment.
Definition sheet := list rule.

Inductive err := EIndex | EHier | ENoMod | ENamespace | ESyntax.
Inductive outcome := Ok | Raise (e : err) | Skip.

(* ------------------------------------------------------------------ dict (insertion ordered, like a Python dict) *)
Definition dict := list (str * str).
Fixpoint dget (d : dict) (k : str) : option str :=
  match d with [] => None | (k', v) :: t => if eqs k' k then Some v else dget t k end.
Fixpoint dset (d : dict) (k v : str) : dict :=
  match d with
  | [] => [(k, v)]
  | (k', v') :: t => if eqs k' k then (k', v) :: t else (k', v') :: dset t k v
  end.
Definition dhas (d : dict) (k : str) : bool := match dget d k with Some _ => true | None => false end.
Fixpoint mems (x : str) (l : list str) : bool :=
  match l with [] => false | y :: t => eqs y x || mems x t end.
Definition dvals (d : dict) : list str := map snd d.
Fixpoint pair_in (p u : str) (d : dict) : bool :=
  match d with [] => false | (p', u') :: t => (eqs p' p && eqs u' u) || pair_in p u t end.
(* _Namespaces.prefixForNamespaceURI: first key whose value is the URI *)
Fixpoint prefix_for (d : dict) (u : str) : option str :=
  match d with [] => None | (p, u') :: t => if eqs u' u then Some p else prefix_for t u end.

(* ------------------------------------------------------------------ the computed view (util.py:824-835) *)
Fixpoint nsl (sh : sheet) : list nsrule :=
  match sh with [] => [] | RNs r :: t => r :: nsl t | _ :: t => nsl t end.
(* reversed walk over the @namespace rules = fold_right over the forward list *)
Definition view_step (r : nsrule) (d : dict) : dict :=
  if mems (uri r) (dvals d) then d else dset d (prefix r) (uri r).
Definition view_of (l : list nsrule) : dict := fold_right view_step [] l.
Definition view (sh : sheet) : dict := view_of (nsl sh).

(* __findrule: the LAST rule with that prefix; returned as its index among the @namespace rules *)
Fixpoint find_last_from (p : str) (l : list nsrule) (i : nat) (acc : option nat) : option nat :=
  match l with
  | [] => acc
  | r :: t => find_last_from p t (S i) (if eqs (prefix r) p then Some i else acc)
  end.
Definition find_last (p : str) (l : list nsrule) : option nat := find_last_from p l 0 None.

(* ------------------------------------------------------------------ used URIs (selector.py:149-157, cssstylesheet.py:110-120) *)
Definition item_uses (u : str) (it : item) : bool :=
  match it with
  | IPair _ (UStr v) _ => eqs v u
  | IPair _ _ _ => false
  | IAttr (c :: _) => eqs [c] u          (* `val[0]` of a plain str value: its first character (as written) *)
  | IAttr [] => false
  | IOther => false
  end.
Definition rule_uses (u : str) (r : rule) : bool :=
  match r with
  | RStyle its => existsb (item_uses u) its
  | RMedia rs => existsb (existsb (item_uses u)) rs
  | _ => false
  end.
Definition used (u : str) (sh : sheet) : bool := existsb (rule_uses u) sh.
Fixpoint count_uri (u : str) (l : list nsrule) : nat :=
  match l with [] => 0 | r :: t => (if eqs (uri r) u then 1 else 0) + count_uri u t end.

(* deleteRule's in-use protection (cssstylesheet.py:488-498) *)
Definition can_delete (r : nsrule) (sh : sheet) : bool :=
  negb (used (uri r) sh && Nat.eqb (count_uri (uri r) (nsl sh)) 1).

Fixpoint remove_at {A} (i : nat) (l : list A) : list A :=
  match l, i with
  | [], _ => []
  | _ :: t, O => t
  | x :: t, S j => x :: remove_at j t
  end.
Fixpoint insert_at {A} (i : nat) (x : A) (l : list A) : list A :=
  match i, l with
  | O, _ => x :: l
  | S j, [] => [x]
  | S j, y :: t => y :: insert_at j x t
  end.

Definition delete_rule (i : nat) (sh : sheet) : sheet * outcome :=
  match nth_error sh i with
  | None => (sh, Raise EIndex)
  | Some (RNs r) => if can_delete r sh then (remove_at i sh, Ok) else (sh, Raise ENoMod)
  | Some _ => (remove_at i sh, Ok)
  end.

(* _cleanNamespaces (cssstylesheet.py:97-108): the view is read once, then every rule that is not one of its
   items goes through deleteRule; a refusal propagates and leaves the sheet half cleaned *)
Fixpoint clean_loop (vitems : dict) (kept rest : list rule) : sheet * outcome :=
  match rest with
  | [] => (kept, Ok)
  | RNs r :: t =>
      if pair_in (prefix r) (uri r) vitems then clean_loop vitems (kept ++ [RNs r]) t
      else if can_delete r (kept ++ rest) then clean_loop vitems kept t
      else (kept ++ rest, Raise ENoMod)
  | x :: t => clean_loop vitems (kept ++ [x]) t
  end.
Definition clean (sh : sheet) : sheet * outcome := clean_loop (view sh) [] sh.

(* ------------------------------------------------------------------ insertRule, @namespace branch (cssstylesheet.py:537-546, 668-716) *)
Definition is_body (r : rule) : bool := match r with RStyle _ | RMedia _ => true | _ => false end.
Definition is_ns (r : rule) : bool := match r with RNs _ => true | _ => false end.
Definition is_charset (r : rule) : bool := match r with RCharset => true | _ => false end.
Definition stops_ns (r : rule) : bool := match r with RStyle _ | RMedia _ | RComment => true | _ => false end.

Fixpoint after_last_ns (sh : sheet) (i : nat) (acc : option nat) : option nat :=
  match sh with
  | [] => acc
  | r :: t => after_last_ns t (S i) (if is_ns r then Some (S i) else acc)
  end.
Fixpoint first_index {A} (f : A -> bool) (l : list A) (i : nat) : option nat :=
  match l with [] => None | x :: t => if f x then Some i else first_index f t (S i) end.

Definition place_ns (idx : option nat) (inorder : bool) (sh : sheet) : nat + err :=
  let n := length sh in
  let i0 := match idx with None => n | Some i => i end in
  if Nat.ltb n i0 then inr EIndex
  else if inorder then
    match after_last_ns sh 0 None with
    | Some j => inl j
    | None => match first_index stops_ns sh 0 with Some j => inl j | None => inl i0 end
    end
  else if existsb is_charset (skipn i0 sh) then inr EHier
  else if existsb is_body (firstn i0 sh) then inr EHier
  else inl i0.

Definition same_binding (d : dict) (r : nsrule) : bool :=
  match dget d (prefix r) with Some u => eqs u (uri r) | None => false end.

Definition insert_ns (r : nsrule) (idx : option nat) (inorder : bool) (sh : sheet) : sheet * outcome :=
  match place_ns idx inorder sh with
  | inr e => (sh, Raise e)
  | inl i =>
      if same_binding (view sh) r then (sh, Ok)              (* "no doublettes" *)
      else match clean (insert_at i (RNs r) sh) with
           | (_, Raise e) => (sh, Raise e)     (* a refusal of _cleanNamespaces is rolled back: the rule list is restored *)
           | res => res
           end
  end.

(* rule objects: CSSNamespaceRule(prefix=, namespaceURI=) has a prefix item even for '' ; a parsed rule has not *)
Definition mk_obj (p u : str) : nsrule := mkNs p u [NPrefix p; NUri u].
Definition mk_text (p u : str) : nsrule :=
  mkNs p u (match p with [] => [NUri u] | _ => [NPrefix p; NUri u] end).

(* ------------------------------------------------------------------ _setPrefix's item update (repaired) *)
Fixpoint set_prefix_item (p : str) (l : list nsitem) : option (list nsitem) :=
  match l with
  | [] => None
  | NPrefix _ :: t => Some (NPrefix p :: t)
  | x :: t => match set_prefix_item p t with Some t' => Some (x :: t') | None => None end
  end.
Definition set_prefix (p : str) (r : nsrule) : nsrule :=
  mkNs p (uri r) (match set_prefix_item p (items r) with Some l => l | None => NPrefix p :: items r end).

Fixpoint upd_ns (k : nat) (f : nsrule -> nsrule) (sh : sheet) : sheet :=
  match sh with
  | [] => []
  | RNs r :: t => match k with O => RNs (f r) :: t | S j => RNs r :: upd_ns j f t end
  | x :: t => x :: upd_ns k f t
  end.

(* _Namespaces.__setitem__ (util.py:801-815) *)
Definition setitem (p u : str) (sh : sheet) : sheet * outcome :=
  match find_last p (nsl sh) with
  | None =>
      match u with
      | [] => (sh, Raise ESyntax)           (* rule without URI is not wellformed: "Invalid rules cannot be added" *)
      | _ => insert_ns (mk_obj p u) None true sh
      end
  | Some k =>
      let v := view sh in
      match nth_error (nsl sh) k with
      | None => (sh, Raise EIndex)          (* unreachable: find_last returns a valid index *)
      | Some r =>
          if dhas v p && negb (eqs (uri r) u) then (sh, Raise ENoMod)     (* namespaceURI is readonly *)
          else if mems u (dvals v) then (upd_ns k (set_prefix p) sh, Ok)  (* rule.prefix = prefix *)
          else (sh, Ok)
      end
  end.

(* _Namespaces.__delitem__ (util.py:771-786), as repaired by "fix: del sheet.namespaces[prefix] passes the rule's
   index in cssRules": the rule found by __findrule is deleted through its ABSOLUTE index *)
Fixpoint ns_abs (k : nat) (sh : sheet) : option nat :=
  match sh with
  | [] => None
  | RNs _ :: t => match k with O => Some O | S k' => option_map S (ns_abs k' t) end
  | _ :: t => option_map S (ns_abs k t)
  end.
Definition delitem (p : str) (sh : sheet) : sheet * outcome :=
  match find_last p (nsl sh) with
  | None => (sh, Raise ENamespace)
  | Some k => match ns_abs k sh with
              | Some j => delete_rule j sh
              | None => (sh, Raise EIndex)      (* unreachable: k indexes an @namespace rule *)
              end
  end.

(* ------------------------------------------------------------------ operations *)
Inductive op :=
| OSet (p u : str)                (* sheet.namespaces[p] = u *)
| ODel (p : str)                  (* del sheet.namespaces[p] *)
| OAddObj (p u : str)             (* sheet.add(CSSNamespaceRule(prefix=p, namespaceURI=u)) *)
| OInsObj (p u : str) (i : nat)   (* sheet.insertRule(CSSNamespaceRule(...), i) *)
| OAddText (p u : str)            (* sheet.add('@namespace p "u";') *)
| OInsText (p u : str) (i : nat)  (* sheet.insertRule('@namespace p "u";', i) *)
| ODelRule (i : nat).             (* sheet.deleteRule(i), issued only when rule i is an @namespace rule *)

(* a string is parsed in a temporary sheet primed with a copy of the view: a prefix that is already a key
   never yields a rule ("Not a CSSRule"); the index is validated before the text is parsed *)
Definition insert_text (p u : str) (idx : option nat) (inorder : bool) (sh : sheet) : sheet * outcome :=
  let i0 := match idx with None => length sh | Some i => i end in
  if Nat.ltb (length sh) i0 then (sh, Raise EIndex)
  else if dhas (view sh) p then (sh, Raise ESyntax)
  else insert_ns (mk_text p u) idx inorder sh.

Definition step (o : op) (sh : sheet) : sheet * outcome :=
  match o with
  | OSet p u => setitem p u sh
  | ODel p => delitem p sh
  | OAddObj p u => insert_ns (mk_obj p u) None true sh
  | OInsObj p u i => insert_ns (mk_obj p u) (Some i) false sh
  | OAddText p u => insert_text p u None true sh
  | OInsText p u i => insert_text p u (Some i) false sh
  | ODelRule i =>
      match nth_error sh i with
      | Some (RNs _) => delete_rule i sh
      | _ => (sh, Skip)
      end
  end.
Definition run (ops : list op) (sh : sheet) : sheet := fold_left (fun s o => fst (step o s)) ops sh.

(* ------------------------------------------------------------------ parsing a sheet (statement level) *)
Inductive pform := FNone | FEmpty | FStar | FPfx (p : str).      (* e   |e   *|e   p|e *)
Inductive pitem := PSel (k : kind) (f : pform) (n : str) | POther.
Inductive stmt :=
| SNs (p u : str)
| SStyle (l : list pitem)
| SMedia (l : list (list pitem))
| SCharset
| SComment.

(* Selector.append (selector.py:322-365) against the namespaces in force *)
Definition resolve (d : dict) (pi : pitem) : option item :=
  match pi with
  | POther => Some IOther
  | PSel KAttr FNone n | PSel KAttr FEmpty n => Some (IAttr n)          (* an attribute is never in the default namespace *)
  | PSel k FStar n => Some (IPair k UAny n)
  | PSel k FNone n => Some (IPair k (match dget d [] with Some u => UStr u | None => UNone end) n)
  | PSel k FEmpty n => Some (IPair k (UStr []) n)
  | PSel k (FPfx p) n => match dget d p with Some u => Some (IPair k (UStr u) n) | None => None end
  end.
Fixpoint resolve_all (d : dict) (l : list pitem) : option (list item) :=
  match l with
  | [] => Some []
  | x :: t => match resolve d x, resolve_all d t with
              | Some i, Some r => Some (i :: r)
              | _, _ => None
              end
  end.
Fixpoint resolve_rules (d : dict) (l : list (list pitem)) : list (list item) :=
  match l with
  | [] => []
  | x :: t => match resolve_all d x with Some r => r :: resolve_rules d t | None => resolve_rules d t end
  end.

(* _replaceNamespaceURI on every rule with that prefix (cssstylesheet.py:214-217) *)
Fixpoint replace_uri_item (u : str) (l : list nsitem) : list nsitem :=
  match l with
  | [] => []
  | NUri _ :: t => NUri u :: t
  | x :: t => x :: replace_uri_item u t
  end.
Definition replace_uri (p u : str) (r : rule) : rule :=
  match r with
  | RNs n => if eqs (prefix n) p then RNs (mkNs (prefix n) u (replace_uri_item u (items n))) else r
  | _ => r
  end.

(* the sheet-level loop: `expected` 0 start, 1 after @charset/comment, 2 after @namespace, 3 after a rule set;
   d is the temporary prefix -> URI dict used while parsing *)
Fixpoint parse_loop (d : dict) (expected : nat) (sh : sheet) (l : list stmt) : sheet :=
  match l with
  | [] => sh
  | SCharset :: t => if Nat.ltb 0 expected then parse_loop d expected sh t
                     else parse_loop d 1 (sh ++ [RCharset]) t
  | SComment :: t => parse_loop d (Nat.max 1 expected) (sh ++ [RComment]) t
  | SNs p u :: t =>
      if Nat.ltb 2 expected then parse_loop d expected sh t
      else if dhas d p then parse_loop (dset d p u) 2 (map (replace_uri p u) sh) t
      else parse_loop (dset d p u) 2 (sh ++ [RNs (mk_text p u)]) t
  | SStyle its :: t =>
      match resolve_all d its with
      | Some r => parse_loop d 3 (sh ++ [RStyle r]) t
      | None => parse_loop d 3 sh t
      end
  | SMedia rs :: t => parse_loop d 3 (sh ++ [RMedia (resolve_rules d rs)]) t
  end.
Definition parse (l : list stmt) : sheet * outcome := clean (parse_loop [] 0 [] l).

(* ------------------------------------------------------------------ serialising *)
Definition is_none (u : nsuri) : bool := match u with UNone => true | _ => false end.
(* do_css_Selector (serialize.py:848-867) *)
Definition form_of (v : dict) (u : nsuri) : pform :=
  let d := dget v [] in
  if (match d, u with
      | Some du, UStr x => eqs du x
      | None, UNone => true
      | Some [], UNone => true              (* `not DEFAULTURI and namespaceURI is None` with DEFAULTURI == '' *)
      | _, _ => false
      end) then FNone
  else match u with
       | UAny => FStar
       | UNone => FEmpty                    (* prefixForNamespaceURI raises IndexError -> '' *)
       | UStr x => match prefix_for v x with
                   | Some [] => FEmpty
                   | Some p => FPfx p
                   | None => FEmpty
                   end
       end.
Definition ser_item (v : dict) (it : item) : pitem :=
  match it with
  | IPair k u n => PSel k (form_of v u) n
  | IAttr n => PSel KAttr FNone n
  | IOther => POther
  end.
(* do_CSSNamespaceRule prints the items; what the printed text declares when parsed again *)
Fixpoint strip_comments (l : list nsitem) : list nsitem :=
  match l with [] => [] | NComment :: t => strip_comments t | x :: t => x :: strip_comments t end.
Definition ser_ns (r : nsrule) : option (str * str) :=
  match strip_comments (items r) with
  | [NUri u] => Some ([], u)
  | [NPrefix p; NUri u] => Some (p, u)
  | _ => None
  end.
Definition ser_rule (v : dict) (r : rule) : list stmt :=
  match r with
  | RNs n => match ser_ns n with Some (p, u) => [SNs p u] | None => [] end
  | RStyle its => [SStyle (map (ser_item v) its)]
  | RMedia [] => []                        (* an @media block without rules is not written *)
  | RMedia rs => [SMedia (map (map (ser_item v)) rs)]
  | RCharset => [SCharset]
  | RComment => [SComment]
  end.
Definition ser (sh : sheet) : list stmt := flat_map (ser_rule (view sh)) sh.
Definition reparse (sh : sheet) : sheet := fst (parse (ser sh)).

(* ------------------------------------------------------------------ selector-side operations
   Selector.selectorText (in place), SelectorList.__setitem__/selectorText/appendSelector/__delitem__,
   CSSStyleRule.selectorText, insertion/deletion of rule sets at top level (cssstylesheet.py:768-784) and inside
   @media (cssrule.py:192-280, with the sheet's namespaces since "fix: CSSMediaRule/CSSPageRule.insertRule(text)
   parses the text with the namespaces of the rule's style sheet").  A rule set is a list of one-item selectors.
   Every new selector is resolved against the sheet's view; an undeclared prefix raises NamespaceErr. *)
Inductive addr := ATop (r : nat) | AIn (r j : nat).

Fixpoint set_nth {A} (i : nat) (x : A) (l : list A) : list A :=
  match l, i with
  | [], _ => []
  | _ :: t, O => x :: t
  | y :: t, S j => y :: set_nth j x t
  end.
Definition get_style (a : addr) (sh : sheet) : option (list item) :=
  match a with
  | ATop r => match nth_error sh r with Some (RStyle its) => Some its | _ => None end
  | AIn r j => match nth_error sh r with Some (RMedia rs) => nth_error rs j | _ => None end
  end.
Definition put_style (a : addr) (its : list item) (sh : sheet) : sheet :=
  match a with
  | ATop r => set_nth r (RStyle its) sh
  | AIn r j => match nth_error sh r with
               | Some (RMedia rs) => set_nth r (RMedia (set_nth j its rs)) sh
               | _ => sh
               end
  end.

Definition kind_eqb (a b : kind) : bool :=
  match a, b with KType, KType | KUniv, KUniv | KAttr, KAttr | KNeg, KNeg => true | _, _ => false end.
Definition pform_eqb (a b : pform) : bool :=
  match a, b with
  | FNone, FNone | FEmpty, FEmpty | FStar, FStar => true
  | FPfx p, FPfx q => eqs p q
  | _, _ => false
  end.
Definition pitem_eqb (a b : pitem) : bool :=
  match a, b with
  | POther, POther => true
  | PSel k f n, PSel k2 f2 n2 => kind_eqb k k2 && pform_eqb f f2 && eqs n n2
  | _, _ => false
  end.

Inductive sop :=
| SReplace (a : addr) (i : nat) (pi : pitem)          (* selector.selectorText = t  /  selectorList[i] = t *)
| SListText (a : addr) (l : list pitem)               (* selectorList.selectorText = t  /  rule.selectorText = t *)
| SAppend (a : addr) (pi : pitem)                     (* selectorList.appendSelector(t): equal spellings are dropped *)
| SDelItem (a : addr) (i : nat)                       (* del selectorList[i]   (issued only when >= 2 selectors) *)
| SInsStyle (l : list pitem) (idx : option nat)       (* sheet.insertRule(text, idx) / sheet.add(text) *)
| SInsInner (r : nat) (l : list pitem) (idx : option nat)   (* media.insertRule(text, idx) / media.add(text) *)
| SDelStyle (a : addr).                               (* sheet.deleteRule(r) on a rule set / media.deleteRule(j) *)

Definition blocks_body (r : rule) : bool := is_charset r || is_ns r.

Definition sstep (o : sop) (sh : sheet) : sheet * outcome :=
  let v := view sh in
  match o with
  | SReplace a i pi =>
      match get_style a sh with
      | None => (sh, Skip)
      | Some its =>
          if Nat.ltb i (length its) then
            match resolve v pi with
            | None => (sh, Raise ENamespace)
            | Some it => (put_style a (set_nth i it its) sh, Ok)
            end
          else (sh, Skip)
      end
  | SListText a l =>
      match get_style a sh with
      | None => (sh, Skip)
      | Some _ => match resolve_all v l with
                  | None => (sh, Raise ENamespace)
                  | Some its' => (put_style a its' sh, Ok)
                  end
      end
  | SAppend a pi =>
      match get_style a sh with
      | None => (sh, Skip)
      | Some its =>
          match resolve v pi with
          | None => (sh, Raise ENamespace)
          | Some it =>
              (put_style a (filter (fun x => negb (pitem_eqb (ser_item v x) (ser_item v it))) its ++ [it]) sh, Ok)
          end
      end
  | SDelItem a i =>
      match get_style a sh with
      | None => (sh, Skip)
      | Some its => if Nat.ltb i (length its) && Nat.ltb 1 (length its)
                    then (put_style a (remove_at i its) sh, Ok) else (sh, Skip)
      end
  | SInsStyle l idx =>
      match idx with
      | None => match resolve_all v l with
                | None => (sh, Raise ENamespace)
                | Some its => (sh ++ [RStyle its], Ok)
                end
      | Some i =>
          if Nat.ltb (length sh) i then (sh, Raise EIndex)
          else match resolve_all v l with
               | None => (sh, Raise ENamespace)
               | Some its => if existsb blocks_body (skipn i sh) then (sh, Raise EHier)
                             else (insert_at i (RStyle its) sh, Ok)
               end
      end
  | SInsInner r l idx =>
      match nth_error sh r with
      | Some (RMedia rs) =>
          let i := match idx with None => length rs | Some i => i end in
          if Nat.ltb (length rs) i then (sh, Raise EIndex)
          else match resolve_all v l with
               | None => (sh, Raise ENamespace)
               | Some its => (set_nth r (RMedia (insert_at i its rs)) sh, Ok)
               end
      | _ => (sh, Skip)
      end
  | SDelStyle (ATop r) =>
      match nth_error sh r with
      | Some (RStyle _) => (remove_at r sh, Ok)
      | _ => (sh, Skip)
      end
  | SDelStyle (AIn r j) =>
      match nth_error sh r with
      | Some (RMedia rs) => if Nat.ltb j (length rs) then (set_nth r (RMedia (remove_at j rs)) sh, Ok) else (sh, Skip)
      | _ => (sh, Skip)
      end
  end.

(* histories that mix namespace operations and selector-side operations *)
Inductive mop := MN (o : op) | MS (o : sop).
Definition mstep (o : mop) (sh : sheet) : sheet * outcome :=
  match o with MN o => step o sh | MS o => sstep o sh end.
Definition mrun (ops : list mop) (sh : sheet) : sheet := fold_left (fun s o => fst (mstep o s)) ops sh.

(* ------------------------------------------------------------------ observations *)
Definition rule_items (r : rule) : list item :=
  match r with RStyle its => its | RMedia rs => concat rs | _ => [] end.
Definition items_of (sh : sheet) : list item := flat_map rule_items sh.
Definition is_pair (it : item) : bool := match it with IPair _ _ _ => true | _ => false end.
(* the (URI, local-name) pairs of all selectors of the sheet, in document order *)
Definition pairs (sh : sheet) : list item := filter is_pair (items_of sh).
Definition ns_pairs (sh : sheet) : dict := map (fun r => (prefix r, uri r)) (nsl sh).
