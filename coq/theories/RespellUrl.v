(* RespellUrl.v -- C10: the URI production (letter macros U R L of cssproductions.py, regenerated into
   Gen/Productions.v) accepts every case / escape spelling of `url(`: 74 x 74 x 144 = 788 544 spellings,
   each checked by running the regex model (vm_compute, about 30 s).                              *)
From CssV Require Import Base Regex Gen.Productions Gen.TokTables Tokenizer Respell.

Definition uri_accepts (x : str) : bool :=
  let t := x ++ s "(x)" in
  match rmatch re_URI None t with Some n => Nat.eqb n (length t) | None => false end.

(* each listed spelling is a spelling of its letter: followed by anything that can come next inside
   `url(` (a letter of either case, a backslash starting the next escape, the paren) the tokenizer's own
   normalisation (normalize after unicodesub) gives the lower-case letter and leaves the follower alone *)
Definition followers : list N := [117; 85; 114; 82; 108; 76; 40]%N.
Definition spells_letter (lo : N) (x : str) : bool :=
  forallb (fun f => eqs (normalize_u (x ++ [f])) (lo :: normalize [f])) followers &&
  eqs (normalize_u (x ++ [92%N; 108%N])) [lo; 108%N].

Lemma letter_spellings_checked :
  forallb (spells_letter 117) (letter_spellings 117) && forallb (spells_letter 114) (letter_spellings 114) &&
  forallb (spells_letter 108) (letter_spellings 108) = true.
Proof. vm_compute. reflexivity. Qed.

Lemma url_spellings_checked :
  forallb (fun u => forallb (fun r => forallb (fun l => uri_accepts (u ++ r ++ l)) (letter_spellings 108))
                            (letter_spellings 114))
          (letter_spellings 117) = true.
Proof. vm_compute. reflexivity. Qed.

Lemma url_spellings_count :
  (length (letter_spellings 117), length (letter_spellings 114), length (letter_spellings 108)) = (74, 74, 144)%nat.
Proof. vm_compute. reflexivity. Qed.

Theorem url_letters_respell_lemma : forall u r l,
  In u (letter_spellings 117) -> In r (letter_spellings 114) -> In l (letter_spellings 108) ->
  rmatch re_URI None ((u ++ r ++ l) ++ s "(x)") = Some (length ((u ++ r ++ l) ++ s "(x)")).
Proof.
  intros u r l Hu Hr Hl. pose proof url_spellings_checked as H.
  rewrite forallb_forall in H. specialize (H _ Hu).
  rewrite forallb_forall in H. specialize (H _ Hr).
  rewrite forallb_forall in H. specialize (H _ Hl).
  unfold uri_accepts in H. destruct (rmatch re_URI None ((u ++ r ++ l) ++ s "(x)")) as [n|]; [|discriminate].
  apply Nat.eqb_eq in H. congruence.
Qed.

Theorem letter_spelling_normalizes_lemma : forall lo x f,
  In (lo, x) (map (pair 117%N) (letter_spellings 117) ++ map (pair 114%N) (letter_spellings 114) ++
              map (pair 108%N) (letter_spellings 108)) ->
  In f followers -> normalize_u (x ++ [f]) = lo :: normalize [f].
Proof.
  intros lo x f Hin Hf. pose proof letter_spellings_checked as H.
  apply andb_true_iff in H as [H H3]. apply andb_true_iff in H as [H1 H2].
  rewrite forallb_forall in H1, H2, H3.
  assert (Hs : spells_letter lo x = true).
  { apply in_app_or in Hin as [Hin|Hin]; [|apply in_app_or in Hin as [Hin|Hin]];
      apply in_map_iff in Hin as (y & Hy & Hiny); inversion Hy; subst; auto. }
  unfold spells_letter in Hs. apply andb_true_iff in Hs as [Hs _].
  rewrite forallb_forall in Hs. apply eqs_spec. apply Hs. exact Hf.
Qed.

(* before fix df72edd the L macro listed 4c|6c only; the upper-case digit spelling is in the list *)
Example upper_hex_digit_spelling_listed : In [92; 54; 67]%N (letter_spellings 108).   (* \6C *)
Proof. vm_compute. tauto. Qed.
