(* ProdParserSafe.v -- safety of the production-engine model ProdParser.v: on well-formed trees a parse never spins,
   under decidable side conditions it never crashes, ranked environments never run out of depth, and the MediaList /
   MediaQuery constructors always return (media_leaf_total).  Proofs only; stdlib only. *)
From CssV Require Import Base Regex Tokenizer ProdParser ProdParserFacts Gen.ProdTrees.
Local Open Scope nat_scope.

(* ------------------------------------------------------------------ all productions of a tree *)
Fixpoint tall (Q : prod -> Prop) (t : ptree) : Prop :=
  match t with
  | PProd p => Q p
  | PSeq ps _ _ | PCho ps _ =>
      (fix all (l : list ptree) : Prop := match l with [] => True | c :: r => tall Q c /\ all r end) ps
  end.
Fixpoint tallb (q : prod -> bool) (t : ptree) : bool :=
  match t with
  | PProd p => q p
  | PSeq ps _ _ | PCho ps _ =>
      (fix all (l : list ptree) : bool := match l with [] => true | c :: r => tallb q c && all r end) ps
  end.
Definition tkids (t : ptree) : list ptree := match t with PSeq ps _ _ | PCho ps _ => ps | _ => [] end.

Lemma tall_all Q ps :
  (fix all (l : list ptree) : Prop := match l with [] => True | c :: r => tall Q c /\ all r end) ps <-> Forall (tall Q) ps.
Proof.
  induction ps as [|c r IH]; [split; intros; [constructor|exact I]|].
  split; intros H.
  - destruct H as [H1 H2]. constructor; [exact H1|]. apply IH. exact H2.
  - inversion H; subst. split; [assumption|]. apply IH. assumption.
Qed.
Lemma tall_kids Q t : tall Q t -> Forall (tall Q) (tkids t).
Proof. destruct t as [p|ps lo hi|ps oo]; cbn [tall tkids]; intros H; [constructor|apply tall_all, H|apply tall_all, H]. Qed.

Lemma tallb_tall (q : prod -> bool) (Q : prod -> Prop) :
  (forall p, q p = true -> Q p) -> forall t, tallb q t = true -> tall Q t.
Proof.
  intros HqQ. fix F 1. intros t. destruct t as [p|ps lo hi|ps oo]; cbn [tallb tall]; intros H.
  - apply HqQ, H.
  - induction ps as [|c r IH]; [exact I|]. apply andb_true_iff in H. destruct H as [H1 H2]. split; [exact (F c H1)|exact (IH H2)].
  - induction ps as [|c r IH]; [exact I|]. apply andb_true_iff in H. destruct H as [H1 H2]. split; [exact (F c H1)|exact (IH H2)].
Qed.
Lemma tall_impl (Q Q' : prod -> Prop) :
  (forall p, Q p -> Q' p) -> forall t, tall Q t -> tall Q' t.
Proof.
  intros HQ. fix F 1. intros t. destruct t as [p|ps lo hi|ps oo]; cbn [tall]; intros H.
  - apply HQ, H.
  - induction ps as [|c r IH]; [exact I|]. destruct H as [H1 H2]. split; [exact (F c H1)|exact (IH H2)].
  - induction ps as [|c r IH]; [exact I|]. destruct H as [H1 H2]. split; [exact (F c H1)|exact (IH H2)].
Qed.

Lemma tall_True : forall t, tall (fun _ => True) t.
Proof.
  fix F 1. intros t. destruct t as [p|ps lo hi|ps oo]; cbn [tall]; [exact I| |];
    (induction ps as [|c r IH]; [exact I|split; [exact (F c)|exact IH]]).
Qed.

Definition frame_all (Q : prod -> Prop) (f : frame) : Prop := Forall (tall Q) (children f).
Definition stack_all (Q : prod -> Prop) (st : list frame) : Prop := Forall (frame_all Q) st.

Lemma enter_all Q t f : tall Q t -> enter t = Some f -> frame_all Q f.
Proof.
  intros Ht He. pose proof (tall_kids Q t Ht) as Hk.
  destruct t as [p|ps lo hi|ps oo]; cbn [enter] in He; inversion He; subst; exact Hk.
Qed.

(* ------------------------------------------------------------------ nextProd returns one of its productions (any frame) *)
Lemma seq_loop_in k ps lo hi i rnd st tk :
  match fst (seq_loop k ps lo hi i rnd st tk) with
  | NProd p => In (PProd p) ps /\ tok_matches p tk = true
  | NNest t => In t ps
  | _ => True
  end.
Proof.
  revert i rnd st. induction k as [|k IH]; intros i rnd st; cbn [seq_loop].
  - destruct (below rnd hi); [destruct hi|]; cbn; destruct tk; exact I.
  - destruct (below rnd hi); [|cbn; destruct tk; exact I].
    destruct (nth_error ps i) as [p|] eqn:Hn; [|exact I].
    destruct (tmatches p tk) eqn:Hm.
    { apply nth_error_In in Hn. destruct p; cbn [ret fst]; auto. }
    destruct (topt p); [apply IH|]. destruct (_ || _); [exact I|]. destruct tk; exact I.
Qed.

Lemma next_in tk f :
  children (snd (next tk f)) = children f /\
  match fst (next tk f) with
  | NProd p => In (PProd p) (children f) /\ tok_matches p tk = true
  | NNest t => In t (children f)
  | _ => True
  end.
Proof.
  destruct f as [ps lo hi i rnd st|ps oo exh]; cbn [next children].
  - destruct ps as [|c0 ps0] eqn:Eps.
    + destruct (below rnd hi); cbn; split; auto; destruct tk; exact I.
    + rewrite <- Eps. split.
      * destruct (seq_frame_shape (length ps) ps lo hi i rnd st tk) as [i' [r' [s' Hs]]]. rewrite Hs. reflexivity.
      * apply seq_loop_in.
  - destruct exh; [cbn; split; auto; destruct tk; exact I|].
    pose proof (cho_scan_spec ps tk false) as Hs. destruct (cho_scan ps tk false) as [[c|] [|]]; cbn; split; auto;
      destruct Hs as [H1 H2]; destruct c; cbn [ret]; auto.
Qed.

Lemma find_all Q fu stack tk :
  stack_all Q stack ->
  match find fu stack tk with
  | FFound p st' => Q p /\ tok_matches p (Some tk) = true /\ stack_all Q st'
  | FNoMatch st' | FParseErr st' => stack_all Q st'
  | _ => True
  end.
Proof.
  revert stack. induction fu as [|fu IH]; intros stack Hall; [exact I|].
  destruct stack as [|fr rest]; [exact I|]. inversion Hall as [|? ? Hfr Hrest]; subst. cbn [find].
  destruct (next_in (Some tk) fr) as [Hch Hin]. destruct (next (Some tk) fr) as [r fr']. cbn [fst snd] in *.
  assert (Hfr' : frame_all Q fr') by (unfold frame_all; rewrite Hch; exact Hfr).
  assert (Hpop : match (match rest with [] => FNoMatch [fr'] | _ :: _ => find fu rest tk end) with
                 | FFound p st' => Q p /\ tok_matches p (Some tk) = true /\ stack_all Q st'
                 | FNoMatch st' | FParseErr st' => stack_all Q st'
                 | _ => True end).
  { destruct rest as [|f2 r2]; [constructor; [exact Hfr'|constructor]|]. apply IH. exact Hrest. }
  unfold frame_all in Hfr. rewrite Forall_forall in Hfr.
  destruct r; try exact Hpop; try exact I; try (constructor; assumption).
  - destruct Hin as [Hi Hm]. split; [exact (Hfr _ Hi)|]. split; [exact Hm|constructor; assumption].
  - destruct (enter t) as [nf|] eqn:He; [|exact I]. apply IH. constructor; [|constructor; assumption].
    eapply enter_all; [|exact He]. exact (Hfr _ Hin).
Qed.

(* ------------------------------------------------------------------ "process prod": toSeq part and tail *)
Section Proc.
  Variable sub : nat -> bool -> tok -> list tok -> out.
  Variable postof : nat -> option postcode.

  Definition pseq (p : prod) (t : tok) (st : lstate) : lres :=
    if p_stopkeep p then LCont st else
    match p_toseq p with
    | AFalse => LCont st
    | AOpaque => LOut Crash
    | ASub label g =>
        let anc' := l_anc st || match l_own st with SOn => true | _ => false end in
        let l := match l_own st with SPend x => x :: l_rest st | _ => l_rest st end in
        let own' := match l_own st with SPend _ => SOff | m => m end in
        match sub g anc' t l, postof g with
        | Ret r, Some pc =>
            match post pc r with
            | PRet w its mt =>
                let it := IObj (match label with Some x => x | None => ty t end) g w its mt in
                let own'' := match own' with SOn => if r_anc r then SOn else SOff | m => m end in
                let st' := set_stash (set_stream st own'' (l_anc st && r_anc r) (r_rest r)) (r_stash r) in
                LCont (set_store (add_item st' it) (do_store p t it (l_store st')))
            | PCrash => LOut Crash
            end
        | Ret _, None => LOut Crash
        | x, _ => LOut x
        end
    | a => match aplain a t with
           | Some (ty', v') => let it := IStr ty' v' in
                               LCont (set_store (add_item st it) (do_store p t it (l_store st)))
           | None => LOut Crash
           end
    end.
  Definition ptail (p : prod) (t : tok) (st2 : lstate) : lres :=
    if p_stop p then LBreak st2
    else if p_stopkeep p then
      LBreak (set_stopall (set_keep (set_stash st2 (push_pushed t (l_stash st2))) t))
    else if p_nextsor p then
      let l := match l_own st2 with SPend x => x :: l_rest st2 | _ => l_rest st2 end in
      LCont (set_defaultS (set_stream st2 SOn (l_anc st2) l) false)
    else LCont (set_defaultS st2 true).

  Lemma process_eq p t st :
    process sub postof p t st = match pseq p t st with LCont st2 => ptail p t st2 | _ => pseq p t st end.
  Proof. reflexivity. Qed.

  Lemma ptail_spec p t st2 :
    match ptail p t st2 with
    | LCont st' | LBreak st' => l_stack st' = l_stack st2 /\ l_wf st' = l_wf st2 /\ l_seq st' = l_seq st2
    | LOut _ => False
    end.
  Proof. unfold ptail. destruct (p_stop p), (p_stopkeep p), (p_nextsor p); cbn; auto. Qed.

  (* what the toSeq part appends *)
  Definition appended (p : prod) (t : tok) (old new : list item) : Prop :=
    if p_stopkeep p then new = old else
    match p_toseq p with
    | AFalse => new = old
    | ASub lab g => exists w its mt, new = IObj (match lab with Some x => x | None => ty t end) g w its mt :: old
    | AOpaque => False
    | AConstTy c => exists v, new = IStr c v :: old
    | _ => exists v, new = IStr (ty t) v :: old
    end.

  Lemma pseq_spec p t st :
    match pseq p t st with
    | LCont st' => l_stack st' = l_stack st /\ l_wf st' = l_wf st /\ appended p t (l_seq st) (l_seq st')
    | LBreak _ => False
    | LOut _ => True
    end.
  Proof.
    unfold pseq, appended. destruct (p_stopkeep p); [cbn; auto|].
    destruct (p_toseq p) as [| | | | | |c|lab g|]; cbn [aplain]; try (cbn; eauto; fail).
    - destruct (stringvalue (val t)); cbn; eauto.
    - destruct (urivalue (val t)); cbn; eauto.
    - destruct (sub g _ t _); auto. destruct (postof g); auto. destruct (post _ _); cbn; eauto 8.
  Qed.

  Lemma process_seq p t st :
    match process sub postof p t st with
    | LCont st' | LBreak st' => l_stack st' = l_stack st /\ l_wf st' = l_wf st /\ appended p t (l_seq st) (l_seq st')
    | LOut _ => True
    end.
  Proof.
    rewrite process_eq. pose proof (pseq_spec p t st) as H1. destruct (pseq p t st) as [st2|st2|x]; [|contradiction|exact I].
    pose proof (ptail_spec p t st2) as H2. destruct H1 as [A1 [A2 A3]].
    destruct (ptail p t st2) as [st'|st'|x]; [| |contradiction]; destruct H2 as [B1 [B2 B3]];
      (split; [congruence|]; split; [congruence|]; rewrite B3; exact A3).
  Qed.

  (* an outcome that ends the parse is a Crash of this level or the outcome of a sub-parser *)
  Lemma process_out p t st x :
    process sub postof p t st = LOut x ->
    x = Crash \/ exists lab g anc l, p_toseq p = ASub lab g /\ sub g anc t l = x.
  Proof.
    rewrite process_eq. destruct (pseq p t st) as [st2|st2|y] eqn:Hs.
    - pose proof (ptail_spec p t st2) as H2. intros E. rewrite E in H2. contradiction.
    - discriminate.
    - intros E; inversion E; subst y; clear E. revert Hs. unfold pseq. destruct (p_stopkeep p); [discriminate|].
      destruct (p_toseq p) as [| | | | | |c|lab g|] eqn:Ha; cbn [aplain]; try discriminate;
        try (intros E; inversion E; auto; fail).
      + destruct (stringvalue (val t)); cbn; [discriminate|]. intros E; inversion E; auto.
      + destruct (urivalue (val t)); cbn; [discriminate|]. intros E; inversion E; auto.
      + destruct (sub g _ t _) as [r| | | |] eqn:Hg; try (intros E; inversion E; subst; right; eauto 8; fail).
        destruct (postof g); [|intros E; inversion E; auto]. destruct (post _ _); [discriminate|]. intros E; inversion E; auto.
  Qed.
End Proc.

(* ------------------------------------------------------------------ the main loop avoids an outcome X *)
Section Avoid.
  Variable o : opts.
  Variable sub : nat -> bool -> tok -> list tok -> out.
  Variable postof : nat -> option postcode.
  Hypothesis Hsub : sub_ok sub.
  Variable X : out.
  Hypothesis HXret : forall r, X <> Ret r.
  Hypothesis HXfuel : X <> OutOfFuel.
  Variable T : tok -> Prop.          (* token sanity *)
  Variable Q : prod -> Prop.         (* holds of every production of the tree *)
  Variable W : list frame -> Prop.   (* stack invariant *)
  Hypothesis HWfind : forall stack t, W stack -> notc t ->
    match find (find_fuel stack) stack t with
    | FFound _ st' | FNoMatch st' | FParseErr st' => W st'
    | FSpin => X <> Spin
    | FCrash => X <> Crash
    end.
  Hypothesis HWfinal : forall stack strict wf, W stack ->
    match final stack strict wf with FinOk _ => True | FinSpin => X <> Spin | FinCrash => X <> Crash end.
  Hypothesis Hproc : forall p t st, Q p -> T t -> notc t -> eqs (ty t) (s "EOF") = false ->
    tok_matches p (Some t) = true -> Forall T (full st) ->
    process sub postof p t st <> LOut X.

  Lemma finish_avoid st : W (l_stack st) -> finish o st <> X.
  Proof.
    intros HW. unfold finish. destruct (l_stopall st); [intros E; exact (HXret _ (eq_sym E))|].
    pose proof (HWfinal (l_stack st) (l_strict st) (l_wf st) HW) as Hf.
    destruct (final _ _ _) as [wf| |].
    - destruct (_ && _); intros E; exact (HXret _ (eq_sym E)).
    - intros E. apply Hf. symmetry. exact E.
    - intros E. apply Hf. symmetry. exact E.
  Qed.

  Lemma body_inv t st :
    W (l_stack st) -> stack_all Q (l_stack st) -> T t -> Forall T (full st) ->
    match body o sub postof t st with
    | LCont st' | LBreak st' => W (l_stack st') /\ stack_all Q (l_stack st')
    | LOut x => x <> X
    end.
  Proof.
    intros HW HQ Ht Hf. unfold body.
    destruct (o_checkS o && negb (eqs (ty t) (s "COMMENT")) && eqs (ty t) (s "S") && l_afterS st); [split; assumption|].
    set (st1 := if o_checkS o && negb (eqs (ty t) (s "COMMENT")) then set_afterS st (eqs (ty t) (s "S")) else st).
    assert (Hst1 : l_stack st1 = l_stack st /\ full st1 = full st) by (unfold st1; destruct (_ && _); split; reflexivity).
    destruct Hst1 as [E1 E2].
    assert (HW1 : W (l_stack st1)) by (rewrite E1; exact HW).
    assert (HQ1 : stack_all Q (l_stack st1)) by (rewrite E1; exact HQ).
    destruct (eqs (ty t) (s "COMMENT")) eqn:Hc; [cbn; split; assumption|].
    destruct (l_defaultS st1 && eqs (ty t) (s "S") && negb (o_checkS o)).
    { destruct (_ || _); cbn; split; assumption. }
    destruct (eqs (ty t) (s "INVALID")); [cbn; split; assumption|].
    destruct (eqs (ty t) (s "EOF")) eqn:HnE; [cbn; split; assumption|].
    cbn [l_stack set_started].
    pose proof (HWfind (l_stack st1) t HW1 Hc) as Hfd.
    pose proof (find_all Q (find_fuel (l_stack st1)) (l_stack st1) t HQ1) as Hfa.
    destruct (find _ (l_stack st1) t) as [p stack|stack|stack| |].
    - destruct Hfa as [Hqp [Hm Hqs]].
      match goal with |- context [process sub postof p t ?stx] => set (sx := stx) end.
      pose proof (process_seq sub postof p t sx) as Hps.
      assert (Hfx : Forall T (full sx)) by (unfold sx, full; cbn; fold (full st1); rewrite E2; exact Hf).
      pose proof (Hproc p t sx Hqp Ht Hc HnE Hm Hfx) as Hp.
      destruct (process sub postof p t sx) as [st'|st'|x].
      + destruct Hps as [A1 _]. rewrite A1. cbn. split; assumption.
      + destruct Hps as [A1 _]. rewrite A1. cbn. split; assumption.
      + intros E. apply Hp. rewrite E. reflexivity.
    - cbn. destruct (l_stopnm st1); cbn; split; assumption.
    - cbn. destruct (l_stopnm st1); cbn; split; assumption.
    - intros E. apply Hfd. symmetry. exact E.
    - intros E. apply Hfd. symmetry. exact E.
  Qed.

  Lemma pull_fields st t st1 :
    pull st = Some (t, st1) -> l_stack st1 = l_stack st /\ l_seq st1 = l_seq st /\ l_wf st1 = l_wf st.
  Proof.
    unfold pull. destruct (saved (l_stash st)); [|intros H; inversion H; subst; cbn; auto].
    destruct (spull _ _ _) as [[[[t0 own] anc] l]|]; [|discriminate]. intros H; inversion H; subst; cbn; auto.
  Qed.

  Theorem loop_avoids n st :
    (forall t, T t) \/ length (saved (l_stash st)) <= 1 -> W (l_stack st) -> stack_all Q (l_stack st) ->
    Forall T (saved (l_stash st) ++ full st) ->
    loop o sub postof n st <> X.
  Proof.
    revert st. induction n as [|n IH]; intros st Hs HW HQ HT; [intros E; exact (HXfuel (eq_sym E))|].
    rewrite loop_unfold. destruct (pull st) as [[t st1]|] eqn:Hp; [|apply finish_avoid; exact HW].
    destruct (pull_fields st t st1 Hp) as [Hst1 _].
    destruct Hs as [Hall|Hs].
    { assert (HallF : forall l, Forall T l) by (intros l; apply Forall_forall; intros; apply Hall).
      pose proof (body_inv t st1 ltac:(rewrite Hst1; exact HW) ltac:(rewrite Hst1; exact HQ) (Hall t) (HallF _)) as Hi.
      destruct (body o sub postof t st1) as [st2|st2|x].
      - destruct Hi as [I1 I2]. apply IH; auto.
      - destruct Hi as [I1 I2]. apply finish_avoid. exact I1.
      - exact Hi. }
    destruct (pull_spec st t st1 Hs Hp) as [Hsv1 [Hsuf1 [_ [Hin1 _]]]].
    rewrite Forall_forall in HT.
    assert (Ht : T t) by (apply HT; exact Hin1).
    assert (Hf1 : Forall T (full st1)).
    { apply Forall_forall. intros x Hx. apply HT. apply in_or_app. right. eapply suffix_In; eauto. }
    pose proof (body_ok o sub postof Hsub t st1 Hsv1) as Hb.
    pose proof (body_inv t st1 ltac:(rewrite Hst1; exact HW) ltac:(rewrite Hst1; exact HQ) Ht Hf1) as Hi.
    destruct (body o sub postof t st1) as [st2|st2|x].
    - destruct Hb as [H1 [H2 [H3 H4]]]. destruct Hi as [I1 I2]. apply IH; auto.
      apply Forall_forall. intros x Hx. apply in_app_or in Hx. destruct Hx as [Hx|Hx].
      + rewrite Forall_forall in H4. destruct (H4 x Hx) as [<-|Hx']; [exact Ht|]. rewrite Forall_forall in Hf1. auto.
      + rewrite Forall_forall in Hf1. apply Hf1. eapply suffix_In; eauto.
    - destruct Hi as [I1 I2]. apply finish_avoid. exact I1.
    - exact Hi.
  Qed.

  Lemma parse_tree_avoids clear tr anc first toks sh f :
    enter tr = Some f -> W [f] -> tall Q tr ->
    (forall t, T t) \/ clear = true \/ length (saved sh) <= 1 ->
    Forall T ((if clear then [] else saved sh) ++ optl first ++ toks) ->
    parse_tree sub postof clear o tr anc first toks sh <> X.
  Proof.
    intros He HW HQ Hc HT. unfold parse_tree, init_state. rewrite He.
    apply loop_avoids; cbn [l_stash l_stack].
    - destruct Hc as [Hc|Hc]; [left; exact Hc|right]. destruct clear; [cbn; lia|]. destruct Hc; [discriminate|assumption].
    - exact HW.
    - constructor; [|constructor]. eapply enter_all; eauto.
    - unfold full. cbn [l_own l_rest]. destruct clear; cbn [saved stash0 app] in *; destruct first; exact HT.
  Qed.
End Avoid.

Lemma Forall_True {A} (l : list A) : Forall (fun _ => True) l.
Proof. apply Forall_forall. auto. Qed.

(* ------------------------------------------------------------------ S1: never Spin on well-formed trees *)
Definition env_wf (env : genv) : Prop := forall g gr, nth_error env g = Some gr -> wf_tree (g_tree gr) = true.

Lemma wf_find_ok X stack t : wf_stack stack -> notc t ->
  match find (find_fuel stack) stack t with
  | FFound _ st' | FNoMatch st' | FParseErr st' => wf_stack st'
  | FSpin => X <> Spin
  | FCrash => X <> Crash
  end.
Proof.
  intros Hw Hn.
  assert (Hfu : length stack + stack_height stack < find_fuel stack) by (unfold find_fuel; lia).
  pose proof (find_total (find_fuel stack) stack t Hw Hn Hfu) as H.
  destruct (find _ _ _); cbn in H; try exact H; contradiction.
Qed.
Lemma wf_final_ok X stack strict wf : wf_stack stack ->
  match final stack strict wf with FinOk _ => True | FinSpin => X <> Spin | FinCrash => X <> Crash end.
Proof. intros [_ Hw]. destruct (final_ok stack strict wf Hw) as [b ->]. exact I. Qed.

Lemma parse_tree_no_spin sub postof clear o tr anc first toks sh :
  sub_ok sub -> (forall g a t l, sub g a t l <> Spin) -> wf_tree tr = true ->
  parse_tree sub postof clear o tr anc first toks sh <> Spin.
Proof.
  intros Hsub Hns Hw. assert (Hc : (forall t : tok, True) \/ clear = true \/ length (saved sh) <= 1) by (left; auto). destruct (enter tr) as [f|] eqn:He.
  2:{ unfold parse_tree, init_state. rewrite He. discriminate. }
  apply (parse_tree_avoids o sub postof Hsub Spin ltac:(discriminate) ltac:(discriminate)
           (fun _ => True) (fun _ => True) wf_stack) with (f := f); auto.
  - intros stack t. apply wf_find_ok.
  - intros stack strict wf. apply wf_final_ok.
  - intros p t st _ _ _ _ _ _ E. apply process_out in E. destruct E as [E|[lab [g [a [l [_ E]]]]]]; [discriminate|].
    exact (Hns _ _ _ _ E).
  - destruct (enter_wf tr f Hw He) as [Hf _]. split; [discriminate|constructor; [exact Hf|constructor]].
  - apply tall_True.
  - apply Forall_True.
Qed.

Lemma pparse_sub_no_spin env :
  env_wf env -> forall d g anc first l, pparse_sub d env g anc first l <> Spin.
Proof.
  intros Hwf. induction d as [|d IH]; intros g anc first l; cbn [pparse_sub]; [discriminate|].
  destruct (nth_error env g) as [gr|] eqn:Hg; [|discriminate].
  apply parse_tree_no_spin; [apply pparse_sub_ok|intros; apply IH|eapply Hwf; eauto].
Qed.

(* S1 *)
Theorem pparse_no_spin : forall d env clear o t toks sh,
  env_wf env -> wf_tree t = true ->
  pparse d env clear o t toks sh <> Spin.
Proof.
  intros d env clear o t toks sh Hwf Hw. unfold pparse.
  apply parse_tree_no_spin; [apply pparse_sub_ok|intros; apply pparse_sub_no_spin; exact Hwf|exact Hw].
Qed.

(* ------------------------------------------------------------------ S3: ranked environments never run out of depth *)
Definition rkof (rk : list (option nat)) (g : nat) : option nat :=
  match nth_error rk g with Some (Some r) => Some r | _ => None end.
(* every sub-parser a production starts is ranked below d *)
Definition sub_below (rk : list (option nat)) (d : nat) (p : prod) : bool :=
  match p_toseq p with
  | ASub _ g => match rkof rk g with Some r => Nat.ltb r d | None => false end
  | _ => true
  end.
Definition ranked (rk : list (option nat)) (env : genv) : Prop :=
  forall g r gr, rkof rk g = Some r -> nth_error env g = Some gr -> tallb (sub_below rk r) (g_tree gr) = true.
Fixpoint rankedb_from (rk : list (option nat)) (i : nat) (env : genv) : bool :=
  match env with
  | [] => true
  | gr :: rest => match rkof rk i with Some r => tallb (sub_below rk r) (g_tree gr) | None => true end
                  && rankedb_from rk (S i) rest
  end.
Definition rankedb (rk : list (option nat)) (env : genv) : bool := rankedb_from rk 0 env.

Lemma rankedb_ranked rk env : rankedb rk env = true -> ranked rk env.
Proof.
  unfold rankedb, ranked.
  assert (H : forall env i, rankedb_from rk i env = true -> forall g r gr,
            rkof rk (i + g) = Some r -> nth_error env g = Some gr -> tallb (sub_below rk r) (g_tree gr) = true).
  { clear env. induction env as [|gr0 rest IH]; intros i Hb g r gr Hr Hn; [destruct g; discriminate|].
    cbn [rankedb_from] in Hb. apply andb_true_iff in Hb. destruct Hb as [Hb1 Hb2]. destruct g as [|g]; cbn in Hn.
    - inversion Hn; subst. rewrite Nat.add_0_r in Hr. rewrite Hr in Hb1. exact Hb1.
    - apply (IH (S i) Hb2 g r gr); [|exact Hn]. replace (S i + g) with (i + S g) by lia. exact Hr. }
  intros Hb g r gr. apply (H env 0 Hb).
Qed.

Lemma parse_tree_no_depthout sub postof clear o tr anc first toks sh :
  sub_ok sub ->
  tall (fun p => forall lab g, p_toseq p = ASub lab g -> forall a t l, sub g a t l <> DepthOut) tr ->
  parse_tree sub postof clear o tr anc first toks sh <> DepthOut.
Proof.
  intros Hsub Hq. assert (Hc : (forall t : tok, True) \/ clear = true \/ length (saved sh) <= 1) by (left; auto). destruct (enter tr) as [f|] eqn:He.
  2:{ unfold parse_tree, init_state. rewrite He. discriminate. }
  apply (parse_tree_avoids o sub postof Hsub DepthOut ltac:(discriminate) ltac:(discriminate)
           (fun _ => True)
           (fun p => forall lab g, p_toseq p = ASub lab g -> forall a t l, sub g a t l <> DepthOut)
           (fun _ => True)) with (f := f); auto.
  - intros stack t _ _. destruct (find _ _ _); try exact I; discriminate.
  - intros stack strict wf _. destruct (final _ _ _); try exact I; discriminate.
  - intros p t st Hp _ _ _ _ _ E. apply process_out in E. destruct E as [E|[lab [g [a [l [Ha E]]]]]]; [discriminate|].
    exact (Hp lab g Ha _ _ _ E).
  - apply Forall_True.
Qed.

Lemma sub_below_tall rk env d r t :
  (forall g r', rkof rk g = Some r' -> r' < d -> forall a first l, pparse_sub d env g a first l <> DepthOut) ->
  r <= d -> tallb (sub_below rk r) t = true ->
  tall (fun p => forall lab g, p_toseq p = ASub lab g -> forall a t l, pparse_sub d env g a (Some t) l <> DepthOut) t.
Proof.
  intros IH Hr. apply tallb_tall. intros p Hp lab g Ha a t0 l. unfold sub_below in Hp. rewrite Ha in Hp.
  destruct (rkof rk g) as [r'|] eqn:Hg; [|discriminate]. apply Nat.ltb_lt in Hp. apply (IH g r' Hg). lia.
Qed.

Theorem pparse_sub_depth rk env :
  ranked rk env ->
  forall d g r, rkof rk g = Some r -> r < d -> forall anc first toks, pparse_sub d env g anc first toks <> DepthOut.
Proof.
  intros Hrk. induction d as [|d IH]; intros g r Hg Hr anc first toks; [lia|]. cbn [pparse_sub].
  destruct (nth_error env g) as [gr|] eqn:Hn; [|discriminate].
  apply parse_tree_no_depthout; [apply pparse_sub_ok|].
  apply (sub_below_tall rk env d r); [exact IH|lia|]. exact (Hrk g r gr Hg Hn).
Qed.

Theorem pparse_no_depthout rk env d clear o t toks sh :
  ranked rk env -> tallb (sub_below rk d) t = true ->
  pparse d env clear o t toks sh <> DepthOut.
Proof.
  intros Hrk Ht. unfold pparse. apply parse_tree_no_depthout; [apply pparse_sub_ok|].
  apply (sub_below_tall rk env d d); [|lia|exact Ht].
  intros g r' Hg Hr. apply (pparse_sub_depth rk env Hrk d g r' Hg Hr).
Qed.

(* ------------------------------------------------------------------ S2: never Crash *)
Lemma urivalue_some x : exists v, urivalue x = Some v.
Proof.
  unfold urivalue. destruct (strip _) as [|q r] eqn:E; [eauto|].
  destruct (_ && _); [|eauto]. cbn [stringvalue]. eauto.
Qed.

Definition post_total (pc : postcode) : bool :=
  match pc with PostOk | PostFirst | PostColor | PostVar | PostMQ | PostPV | PostML => true | PostDim => false end.
Lemma post_total_ok pc r : post_total pc = true -> post pc r <> PCrash.
Proof.
  destruct pc; cbn; try discriminate; intros _; try discriminate.
  destruct (r_wf r); [|discriminate]. destruct (value_item (r_items r)); [|discriminate].
  destruct (eqs _ _); discriminate.
Qed.

Section Crash.
  Variable o : opts.
  Variable sub : nat -> bool -> tok -> list tok -> out.
  Variable postof : nat -> option postcode.
  Hypothesis Hsub : sub_ok sub.
  Variable T : tok -> Prop.

  (* semantic side condition of a production that starts a sub-parser *)
  Definition sub_safe (p : prod) (g : nat) : Prop :=
    forall t anc l, T t -> Forall T l -> notc t -> eqs (ty t) (s "EOF") = false -> tok_matches p (Some t) = true ->
      sub g anc t l <> Crash /\
      forall r, sub g anc t l = Ret r -> exists pc, postof g = Some pc /\ post pc r <> PCrash.
  Definition prod_safe (p : prod) : Prop :=
    match p_toseq p with
    | AOpaque => is_c (p_match p) = true
    | AStrVal => forall t, T t -> tok_matches p (Some t) = true -> val t <> []
    | ASub _ g => sub_safe p g
    | _ => True
    end.

  Lemma process_no_crash p t st :
    prod_safe p -> T t -> notc t -> eqs (ty t) (s "EOF") = false -> tok_matches p (Some t) = true -> Forall T (full st) ->
    process sub postof p t st <> LOut Crash.
  Proof.
    intros Hp Ht Hn HnE Hm Hf. rewrite process_eq. destruct (pseq sub postof p t st) as [st2|st2|y] eqn:Hs.
    - pose proof (ptail_spec p t st2) as H2. intros E. rewrite E in H2. contradiction.
    - discriminate.
    - intros E; inversion E; subst y; clear E. revert Hs. unfold pseq. destruct (p_stopkeep p); [discriminate|].
      unfold prod_safe in Hp.
      destruct (p_toseq p) as [| | | | | |c|lab g|] eqn:Ha; cbn [aplain]; try discriminate.
      + specialize (Hp t Ht Hm). unfold stringvalue. destruct (val t); [congruence|cbn; discriminate].
      + destruct (urivalue_some (val t)) as [v ->]. cbn. discriminate.
      + assert (Hl : match l_own st with SPend x => x :: l_rest st | _ => l_rest st end = full st)
          by (unfold full; destruct (l_own st); reflexivity).
        rewrite Hl. destruct (Hp t (l_anc st || match l_own st with SOn => true | _ => false end) (full st) Ht Hf Hn HnE Hm) as [H1 H2].
        destruct (sub g _ t (full st)) as [r| | | |] eqn:Hg; try discriminate; [|congruence].
        destruct (H2 r eq_refl) as [pc [Hpc Hpost]]. rewrite Hpc. destruct (post pc r); [discriminate|congruence].
      + intros _. pose proof (dead_nomatch (PProd p) t Hp Hn) as Hd. cbn in Hd. unfold tok_matches in Hm. congruence.
  Qed.

  Lemma parse_tree_no_crash clear tr anc first toks sh :
    wf_tree tr = true -> (forall p, tr <> PProd p) -> tall prod_safe tr ->
    clear = true \/ length (saved sh) <= 1 ->
    Forall T ((if clear then [] else saved sh) ++ optl first ++ toks) ->
    parse_tree sub postof clear o tr anc first toks sh <> Crash.
  Proof.
    intros Hw Hnp Hq Hc HT. destruct (enter tr) as [f|] eqn:He.
    2:{ destruct tr; cbn in He; try discriminate. exfalso. eapply Hnp. reflexivity. }
    apply (parse_tree_avoids o sub postof Hsub Crash ltac:(discriminate) ltac:(discriminate)
             T prod_safe wf_stack) with (f := f); auto.
    - intros stack t. apply wf_find_ok.
    - intros stack strict wf. apply wf_final_ok.
    - intros p t st. apply process_no_crash.
    - destruct (enter_wf tr f Hw He) as [Hf _]. split; [discriminate|constructor; [exact Hf|constructor]].
  Qed.
End Crash.

(* the decidable side condition on trees for an arbitrary environment *)
Definition safe_prodb (env : genv) (p : prod) : bool :=
  match p_toseq p with
  | AOpaque => is_c (p_match p)
  | ASub _ g => match nth_error env g with Some gr => post_total (g_post gr) | None => false end
  | _ => true
  end.
Definition safe_tree (env : genv) (t : ptree) : Prop := tallb (safe_prodb env) t = true.
Definition not_prod (t : ptree) : bool := match t with PProd _ => false | _ => true end.
Definition env_safe (env : genv) : Prop :=
  forall g gr, nth_error env g = Some gr -> safe_tree env (g_tree gr) /\ not_prod (g_tree gr) = true.
Definition nev (t : tok) : Prop := val t <> [].

Lemma not_prod_ne t : not_prod t = true -> forall p, t <> PProd p.
Proof. destruct t; cbn; intros H p0 E; discriminate. Qed.

Lemma safe_tree_tall env d t :
  (forall g gr, nth_error env g = Some gr -> forall a t l, nev t -> Forall nev l -> pparse_sub d env g a (Some t) l <> Crash) ->
  safe_tree env t ->
  tall (prod_safe (fun g a t l => pparse_sub d env g a (Some t) l) (postof_env env) nev) t.
Proof.
  intros IH. apply tallb_tall. intros p Hp. unfold safe_prodb in Hp. unfold prod_safe.
  destruct (p_toseq p) as [| | | | | |c|lab g|]; try exact I.
  - intros t0 Ht _. exact Ht.
  - destruct (nth_error env g) as [gr|] eqn:Hg; [|discriminate].
    intros t0 a l Ht Hl _ _ _. split; [exact (IH g gr Hg a t0 l Ht Hl)|].
    intros r _. exists (g_post gr). split; [unfold postof_env; rewrite Hg; reflexivity|apply post_total_ok, Hp].
  - exact Hp.
Qed.

Lemma pparse_sub_no_crash env :
  env_wf env -> env_safe env ->
  forall d g gr, nth_error env g = Some gr -> forall a t l, nev t -> Forall nev l ->
  pparse_sub d env g a (Some t) l <> Crash.
Proof.
  intros Hwf Hsafe. induction d as [|d IH]; intros g gr Hg a t l Ht Hl; cbn [pparse_sub]; [discriminate|].
  rewrite Hg. destruct (Hsafe g gr Hg) as [Hs Hnp].
  apply parse_tree_no_crash with (T := nev);
    [apply pparse_sub_ok|exact (Hwf g gr Hg)|apply not_prod_ne, Hnp|apply safe_tree_tall; [exact IH|exact Hs]|left; reflexivity|].
  cbn. constructor; assumption.
Qed.

Theorem pparse_never_crashes : forall d env clear o t toks sh,
  env_wf env -> env_safe env ->
  wf_tree t = true -> safe_tree env t -> not_prod t = true ->
  clear = true \/ length (saved sh) <= 1 ->
  Forall nev ((if clear then [] else saved sh) ++ toks) ->
  pparse d env clear o t toks sh <> Crash.
Proof.
  intros d env clear o t toks sh Hwf Hsafe Hw Hs Hnp Hc HT. unfold pparse.
  apply parse_tree_no_crash with (T := nev);
    [apply pparse_sub_ok|exact Hw|apply not_prod_ne, Hnp| |exact Hc|exact HT].
  apply safe_tree_tall; [|exact Hs]. intros g gr Hg. apply (pparse_sub_no_crash env Hwf Hsafe d g gr Hg).
Qed.

(* ------------------------------------------------------------------ S4: the first item of a sub-parse on a pushed token *)
Lemma final_mono stack strict : forall wf b, final stack strict wf = FinOk b -> b = true -> wf = true.
Proof.
  induction stack as [|fr rest IH]; intros wf b; cbn [final]; [intros H; inversion H; auto|].
  destruct (fst (next None fr)); try discriminate; intros H Hb; try exact (IH _ _ H Hb).
  - pose proof (IH _ _ H Hb) as E. discriminate.
  - pose proof (IH _ _ H Hb) as E. discriminate.
  - pose proof (IH _ _ H Hb) as E. destruct strict; [discriminate|exact E].
Qed.

Lemma rstripS_last pre it : eqs (item_ty it) (s "S") = false -> exists pre', rstripS (pre ++ [it]) = pre' ++ [it].
Proof.
  intros Hn. induction pre as [|x pre IH]; cbn [app rstripS].
  - rewrite Hn. exists []. reflexivity.
  - destruct (eqs (item_ty x) (s "S")); [exact IH|]. exists (x :: pre). reflexivity.
Qed.

(* productions whose toSeq appends an item typed like the token *)
Definition tp_prod (plain : bool) (p : prod) : bool :=
  negb (p_stopkeep p) &&
  match p_toseq p with
  | ADefault | ANorm | ALower | AStrVal | AUriVal => true
  | ASub None _ => negb plain
  | _ => false
  end.

Section First.
  Variable o : opts.
  Variable sub : nat -> bool -> tok -> list tok -> out.
  Variable postof : nat -> option postcode.
  Variable t0 : tok.
  Variable plain : bool.
  Variable Q : prod -> Prop.
  Hypothesis HQ : forall p, Q p -> tp_prod plain p = true.
  Hypothesis Hc0 : notc t0.
  Hypothesis HnS : eqs (ty t0) (s "S") = false.
  Hypothesis HnE : eqs (ty t0) (s "EOF") = false.

  Definition Fit (it : item) : Prop :=
    item_ty it = ty t0 /\ (plain = true -> is_obj it = false) /\ exists p, Q p /\ tok_matches p (Some t0) = true.
  Definition J (st : lstate) : Prop := l_wf st = false \/ exists pre it, l_seq st = pre ++ [it] /\ Fit it.
  Definition ext (st st' : lstate) : Prop :=
    (l_wf st' = l_wf st \/ l_wf st' = false) /\ (l_seq st' = l_seq st \/ exists it, l_seq st' = it :: l_seq st).

  Lemma ext_J st st' : J st -> ext st st' -> J st'.
  Proof.
    intros HJ [[Hw|Hw] Hq]; [|left; exact Hw]. destruct HJ as [Hf|[pre [it [Hs Hi]]]]; [left; congruence|]. right.
    destruct Hq as [Hq|[it' Hq]]; rewrite Hq, Hs; [eauto|]. exists (it' :: pre), it. split; [reflexivity|exact Hi].
  Qed.

  Lemma appended_ext p t old new : appended p t old new -> new = old \/ exists it, new = it :: old.
  Proof.
    unfold appended. destruct (p_stopkeep p); [auto|].
    destruct (p_toseq p) as [| | | | | |c|lab g|]; intros H; auto; try contradiction;
      try (destruct H as [v H]; eauto; fail). destruct H as [w [its [mt H]]]. eauto.
  Qed.

  Lemma process_out_nret p t st x : process sub postof p t st = LOut x -> forall r, x <> Ret r.
  Proof.
    rewrite process_eq. destruct (pseq sub postof p t st) as [st2|st2|y] eqn:Hs.
    - pose proof (ptail_spec p t st2) as H2. intros E. rewrite E in H2. contradiction.
    - discriminate.
    - intros E; inversion E; subst y; clear E. revert Hs. unfold pseq. destruct (p_stopkeep p); [discriminate|].
      destruct (p_toseq p) as [| | | | | |c|lab g|]; cbn [aplain]; try discriminate;
        try (intros E; inversion E; discriminate).
      + destruct (stringvalue (val t)); cbn; [discriminate|]. intros E; inversion E; discriminate.
      + destruct (urivalue (val t)); cbn; [discriminate|]. intros E; inversion E; discriminate.
      + destruct (sub g _ t _) as [r| | | |]; try (intros E; inversion E; discriminate).
        destruct (postof g); [|intros E; inversion E; discriminate].
        destruct (post _ _); [discriminate|]. intros E; inversion E; discriminate.
  Qed.

  Lemma body_ext t st :
    match body o sub postof t st with
    | LCont st' | LBreak st' => ext st st'
    | LOut x => forall r, x <> Ret r
    end.
  Proof.
    assert (Hsame : forall st', l_wf st' = l_wf st -> l_seq st' = l_seq st -> ext st st') by (intros st' H1 H2; split; auto).
    unfold body.
    destruct (o_checkS o && negb (eqs (ty t) (s "COMMENT")) && eqs (ty t) (s "S") && l_afterS st); [apply Hsame; reflexivity|].
    set (st1 := if o_checkS o && negb (eqs (ty t) (s "COMMENT")) then set_afterS st (eqs (ty t) (s "S")) else st).
    assert (Hst1 : l_wf st1 = l_wf st /\ l_seq st1 = l_seq st) by (unfold st1; destruct (_ && _); split; reflexivity).
    destruct Hst1 as [E1 E2].
    destruct (eqs (ty t) (s "COMMENT")); [split; [left; exact E1|right; cbn; rewrite E2; eauto]|].
    destruct (l_defaultS st1 && eqs (ty t) (s "S") && negb (o_checkS o)).
    { destruct (_ || _); [apply Hsame; assumption|]. split; [left; exact E1|right; cbn; rewrite E2; eauto]. }
    destruct (eqs (ty t) (s "INVALID")); [split; [right; reflexivity|left; exact E2]|].
    destruct (eqs (ty t) (s "EOF")); [apply Hsame; assumption|].
    cbn [l_stack set_started].
    destruct (find _ (l_stack st1) t) as [p stack|stack|stack| |]; try discriminate.
    - match goal with |- context [process sub postof p t ?stx] => set (sx := stx) end.
      pose proof (process_seq sub postof p t sx) as Hps. pose proof (process_out_nret p t sx) as Hpo.
      destruct (process sub postof p t sx) as [st'|st'|x]; [| |exact (Hpo x eq_refl)];
        destruct Hps as [_ [A2 A3]]; apply appended_ext in A3; (split; [left; rewrite A2; exact E1|]);
        cbn [sx l_seq set_found set_started] in A3; rewrite E2 in A3; exact A3.
    - cbn. destruct (l_stopnm st1); cbn; [apply Hsame; assumption|]. split; [right; reflexivity|left; exact E2].
    - cbn. split; [right; reflexivity|left; exact E2].
  Qed.

  Lemma finish_J st r : J st -> finish o st = Ret r -> r_wf r = true -> exists it rest, r_items r = it :: rest /\ Fit it.
  Proof.
    intros HJ. unfold finish.
    assert (Hmk : forall wf : bool, wf = true -> l_wf st = true -> forall none : bool,
              Ret (mkRes (if none then false else wf) (if none then [] else rev (rstripS (l_seq st)))
                         (if none then [] else l_store st) none (l_keep st) (l_own st) (l_anc st) (l_rest st) (l_stash st)) = Ret r ->
              r_wf r = true -> exists it rest, r_items r = it :: rest /\ Fit it).
    { intros wf Hwf Hl none H Hr. inversion H; subst r; clear H. cbn in Hr |- *. destruct none; [discriminate|].
      destruct HJ as [Hf|[pre [it [Hs Hi]]]]; [congruence|]. rewrite Hs.
      destruct (rstripS_last pre it) as [pre' Hp]; [destruct Hi as [Hi _]; rewrite Hi; exact HnS|].
      rewrite Hp, rev_app_distr. cbn. eauto. }
    destruct (l_stopall st).
    - intros H Hr. assert (Hl : l_wf st = true) by (inversion H; subst r; exact Hr). exact (Hmk _ Hl Hl false H Hr).
    - destruct (final _ _ _) as [wf| |] eqn:Hfin; try discriminate.
      destruct (_ && _); intros H Hr.
      + inversion H; subst r. cbn in Hr. discriminate.
      + assert (Hwf : wf = true) by (inversion H; subst r; exact Hr).
        exact (Hmk wf Hwf (final_mono _ _ _ _ Hfin Hwf) false H Hr).
  Qed.

  Lemma loop_J n : forall st r, J st -> loop o sub postof n st = Ret r -> r_wf r = true ->
    exists it rest, r_items r = it :: rest /\ Fit it.
  Proof.
    induction n as [|n IH]; intros st r HJ; [discriminate|]. rewrite loop_unfold.
    destruct (pull st) as [[t st1]|] eqn:Hp; [|apply finish_J; exact HJ].
    destruct (pull_fields st t st1 Hp) as [_ [Hq Hw]].
    assert (HJ1 : J st1) by (apply (ext_J st); [exact HJ|split; auto]).
    pose proof (body_ext t st1) as Hb. destruct (body o sub postof t st1) as [st2|st2|x].
    - apply IH. exact (ext_J _ _ HJ1 Hb).
    - apply finish_J. exact (ext_J _ _ HJ1 Hb).
    - intros E. exfalso. exact (Hb r E).
  Qed.

  (* the first iteration, on the pushed token *)
  Lemma body_first st :
    l_seq st = [] -> l_stopnm st = false -> stack_all Q (l_stack st) ->
    match body o sub postof t0 st with
    | LCont st' | LBreak st' => J st'
    | LOut x => forall r, x <> Ret r
    end.
  Proof.
    intros Hq Hnm Hall. pose proof (body_ext t0 st) as Hb. unfold body in *. unfold notc in Hc0. rewrite Hc0, HnS, HnE in *.
    replace (o_checkS o && negb false && false && l_afterS st) with false in * by (destruct (o_checkS o); reflexivity).
    set (st1 := if o_checkS o && negb false then set_afterS st false else st) in *.
    assert (Hst1 : l_stack st1 = l_stack st /\ l_seq st1 = [] /\ l_stopnm st1 = false)
      by (unfold st1; destruct (_ && _); repeat split; assumption).
    destruct Hst1 as [E1 [E2 E3]].
    replace (l_defaultS st1 && false && negb (o_checkS o)) with false in * by (destruct (l_defaultS st1); reflexivity).
    destruct (eqs (ty t0) (s "INVALID")); [left; reflexivity|].
    cbn [l_stack set_started] in *.
    pose proof (find_all Q (find_fuel (l_stack st1)) (l_stack st1) t0 ltac:(rewrite E1; exact Hall)) as Hfa.
    destruct (find _ (l_stack st1) t0) as [p stack|stack|stack| |]; try exact Hb.
    - destruct Hfa as [Hqp [Hm _]]. clear Hb.
      match goal with |- context [process sub postof p t0 ?stx] => set (sx := stx) end.
      pose proof (process_seq sub postof p t0 sx) as Hps. pose proof (process_out_nret p t0 sx) as Hpo.
      assert (Hit : forall new, appended p t0 [] new -> exists it, new = [] ++ [it] /\ Fit it).
      { pose proof (HQ p Hqp) as Htp. unfold tp_prod in Htp. apply andb_true_iff in Htp. destruct Htp as [Hk Ha].
        apply negb_true_iff in Hk. unfold appended. rewrite Hk.
        assert (Hstr : forall new, (exists v, new = [IStr (ty t0) v]) -> exists it, new = [] ++ [it] /\ Fit it).
        { intros new [v ->]. eexists. split; [reflexivity|]. split; [reflexivity|]. split; [reflexivity|eauto]. }
        destruct (p_toseq p) as [| | | | | |c|lab g|]; try discriminate; try (apply Hstr).
        destruct lab; [discriminate|]. apply negb_true_iff in Ha. intros new [w [its [mt ->]]].
        eexists. split; [reflexivity|]. split; [reflexivity|]. split; [congruence|eauto]. }
      assert (Hsx : l_seq sx = []) by exact E2.
      destruct (process sub postof p t0 sx) as [st'|st'|x]; [| |exact (Hpo x eq_refl)];
        destruct Hps as [_ [_ A3]]; rewrite Hsx in A3; destruct (Hit _ A3) as [it [H1 H2]]; right; eauto.
    - cbn. rewrite E3. cbn. left. reflexivity.
    - cbn. left. reflexivity.
  Qed.

  Lemma parse_tree_first tr anc l r :
    tall Q tr ->
    parse_tree sub postof true o tr anc (Some t0) l stash0 = Ret r -> r_wf r = true ->
    exists it rest, r_items r = it :: rest /\ Fit it.
  Proof.
    intros Hall. unfold parse_tree, init_state. destruct (enter tr) as [f|] eqn:He; [|discriminate].
    unfold loop_fuel. cbn [stash0 saved length Nat.add]. rewrite loop_unfold. unfold pull. cbn [l_stash saved stash0 l_own spull].
    match goal with |- context [body o sub postof t0 ?stx] => set (sx := stx) end.
    pose proof (body_first sx eq_refl eq_refl) as Hb.
    destruct (body o sub postof t0 sx) as [st2|st2|x].
    - apply loop_J. apply Hb. constructor; [|constructor]. eapply enter_all; eauto.
    - apply finish_J. apply Hb. constructor; [|constructor]. eapply enter_all; eauto.
    - intros E. exfalso. refine (Hb _ r E). constructor; [|constructor]. eapply enter_all; eauto.
  Qed.
End First.

(* ------------------------------------------------------------------ token types a match predicate admits *)
Fixpoint mtypes (m : mcode) : option (list str) :=
  match m with
  | MTy x => Some [x]
  | MTyIn l => Some l
  | MFalse => Some []
  | MAnd a b => match mtypes a with Some l => Some l | None => mtypes b end
  | MOr a b => match mtypes a, mtypes b with Some l1, Some l2 => Some (l1 ++ l2) | _, _ => None end
  | _ => None
  end.
Lemma mem_s_app x l1 l2 : mem_s x (l1 ++ l2) = mem_s x l1 || mem_s x l2.
Proof. induction l1 as [|y r IH]; cbn; [reflexivity|]. rewrite IH. apply orb_assoc. Qed.
Lemma mem_s_In x l : mem_s x l = true -> In x l.
Proof.
  induction l as [|y r IH]; cbn; [discriminate|]. intros H. apply orb_true_iff in H. destruct H as [H|H]; [|right; auto].
  left. apply eqs_spec in H. congruence.
Qed.
Lemma mtypes_ok m t v : forall l, meval m t v = true -> mtypes m = Some l -> mem_s t l = true.
Proof.
  induction m as [| |x|l0|c|c|l0|c|c|c|l0| |a IHa b IHb|a IHa b IHb]; intros l; cbn [meval mtypes]; try discriminate.
  - intros H E; inversion E; subst. cbn. rewrite H. reflexivity.
  - intros H E; inversion E; subst. exact H.
  - intros H E. apply andb_true_iff in H. destruct H as [H1 H2]. destruct (mtypes a) as [la|]; [inversion E; subst; auto|auto].
  - intros H E. destruct (mtypes a) as [la|]; [|discriminate]. destruct (mtypes b) as [lb|]; [|discriminate].
    inversion E; subst. rewrite mem_s_app. apply orb_true_iff in H. destruct H as [H|H]; [rewrite (IHa la H eq_refl)|rewrite (IHb lb H eq_refl)];
      [reflexivity|apply orb_true_r].
Qed.

Definition badtys : list str := [s "S"; s "EOF"; s "CSSComment"].
Definition typed_good (p : prod) : bool :=
  match mtypes (p_match p) with Some l => forallb (fun x => negb (mem_s x badtys)) l | None => false end.
Lemma typed_good_ok p t :
  typed_good p = true -> tok_matches p (Some t) = true ->
  eqs (ty t) (s "S") = false /\ eqs (ty t) (s "EOF") = false /\ eqs (ty t) (s "CSSComment") = false.
Proof.
  unfold typed_good, tok_matches. destruct (mtypes (p_match p)) as [l|] eqn:Hm; [|discriminate]. intros Hf Ht.
  pose proof (mtypes_ok _ _ _ l Ht Hm) as Hin. apply mem_s_In in Hin. rewrite forallb_forall in Hf.
  specialize (Hf _ Hin). apply negb_true_iff in Hf. unfold badtys in Hf. cbn [mem_s] in Hf.
  apply orb_false_iff in Hf. destruct Hf as [H1 Hf]. apply orb_false_iff in Hf. destruct Hf as [H2 Hf].
  apply orb_false_iff in Hf. destruct Hf as [H3 _]. auto.
Qed.

(* what the tokenizer guarantees and the leaf needs: a STRING token is not empty (string[0] in stringvalue), and a
   token spelled + or - is not whitespace *)
Definition sane (t : tok) : Prop :=
  (eqs (ty t) (s "STRING") = true -> val t <> []) /\
  (mem_s (val t) [s "+"; s "-"] = true -> eqs (ty t) (s "S") = false).

Definition entry_ok (p : prod) : bool :=
  typed_good p || match p_match p with MValIn vs => forallb (fun v => mem_s v [s "+"; s "-"]) vs | _ => false end.
Lemma entry_ok_E p t : entry_ok p = true -> sane t -> tok_matches p (Some t) = true ->
  eqs (ty t) (s "S") = false.
Proof.
  unfold entry_ok. intros H [_ Hs] Hm. apply orb_true_iff in H. destruct H as [H|H].
  - destruct (typed_good_ok p t H Hm) as [H1 _]. exact H1.
  - unfold tok_matches in Hm. destruct (p_match p); try discriminate. cbn in Hm. apply mem_s_In in Hm.
    rewrite forallb_forall in H. apply Hs. apply H. exact Hm.
Qed.

Lemma post_ok_first pc r :
  pc = PostFirst \/ pc = PostDim \/ pc = PostColor ->
  (r_wf r = true -> exists it rest, r_items r = it :: rest /\ eqs (item_ty it) (s "CSSComment") = false /\
                                   (pc = PostDim -> is_obj it = false)) ->
  post pc r <> PCrash.
Proof.
  intros Hpc H. destruct Hpc as [->|[->| ->]]; try (apply post_total_ok; reflexivity).
  unfold post. destruct (r_wf r); [|discriminate].
  destruct (H eq_refl) as [it [rest [Hi [Hc Ho]]]]. rewrite Hi. specialize (Ho eq_refl).
  unfold value_item. cbn [List.find]. unfold is_comment_item. rewrite Hc. cbn [negb].
  destruct it; [discriminate|discriminate].
Qed.

(* ------------------------------------------------------------------ the media part of env_real *)
Lemma env0 : nth_error env_real 0 = Some (mkGr (s "MediaList") tree_MediaList (mkOpts false false false) PostML).
Proof. reflexivity. Qed.
Lemma env1 : nth_error env_real 1 = Some (mkGr (s "MediaQuery") tree_MediaQuery (mkOpts false false false) PostMQ).
Proof. reflexivity. Qed.
Lemma env2 : nth_error env_real 2 = Some (mkGr (s "MediaQuery") tree_MediaQuery_partof (mkOpts false false false) PostMQ).
Proof. reflexivity. Qed.
Lemma env4 : nth_error env_real 4 = Some (mkGr (s "Value") tree_Value (mkOpts false false false) PostFirst).
Proof. reflexivity. Qed.
Lemma env5 : nth_error env_real 5 = Some (mkGr (s "ColorValue") tree_ColorValue (mkOpts false false false) PostColor).
Proof. reflexivity. Qed.
Lemma env6 : nth_error env_real 6 = Some (mkGr (s "DimensionValue") tree_DimensionValue (mkOpts false false false) PostDim).
Proof. reflexivity. Qed.

(* the decidable classification of the productions of the media trees *)
Definition cls (p : prod) : bool :=
  match p_toseq p with
  | AOpaque => is_c (p_match p)
  | AStrVal => match mtypes (p_match p) with Some l => forallb (fun x => eqs x (s "STRING")) l | None => false end
  | ASub _ g => (Nat.eqb g 6 && entry_ok p) || ((Nat.eqb g 4 || Nat.eqb g 5) && typed_good p) || Nat.eqb g 2
  | _ => true
  end.
Definition q6 (p : prod) : bool := tp_prod true p && typed_good p.

Lemma cls_trees :
  tallb cls tree_MediaList = true /\ tallb cls tree_MediaQuery = true /\ tallb cls tree_MediaQuery_partof = true /\
  tallb cls tree_Value = true /\ tallb cls tree_ColorValue = true /\ tallb cls tree_DimensionValue = true /\
  tallb (tp_prod false) tree_Value = true /\ tallb (tp_prod false) tree_ColorValue = true /\
  tallb q6 tree_DimensionValue = true.
Proof. vm_compute. repeat split. Qed.
Lemma wf_trees : forallb (fun g => wf_tree (g_tree g) && not_prod (g_tree g)) env_real = true.
Proof. vm_compute. reflexivity. Qed.

Local Opaque tree_MediaList tree_MediaQuery tree_MediaQuery_partof tree_Value tree_ColorValue tree_DimensionValue env_real.

Lemma env_real_wf_np g gr : nth_error env_real g = Some gr -> wf_tree (g_tree gr) = true /\ forall p, g_tree gr <> PProd p.
Proof.
  intros H. apply nth_error_In in H. pose proof wf_trees as Hw. rewrite forallb_forall in Hw. specialize (Hw _ H).
  apply andb_true_iff in Hw. destruct Hw as [H1 H2]. split; [exact H1|apply not_prod_ne, H2].
Qed.

Definition subR (d : nat) : nat -> bool -> tok -> list tok -> out := fun g a t l => pparse_sub d env_real g a (Some t) l.

(* the contract of sub-grammar g entered on a pushed token that satisfies E *)
Definition Dg (g : nat) (E : tok -> Prop) (d : nat) : Prop :=
  forall t anc l, sane t -> Forall sane l -> notc t -> E t ->
    subR d g anc t l <> Crash /\
    forall r, subR d g anc t l = Ret r -> exists pc, postof_env env_real g = Some pc /\ post pc r <> PCrash.
Definition E6 (t : tok) : Prop := eqs (ty t) (s "S") = false /\ eqs (ty t) (s "EOF") = false.
Definition E45 (t : tok) : Prop :=
  eqs (ty t) (s "S") = false /\ eqs (ty t) (s "EOF") = false /\ eqs (ty t) (s "CSSComment") = false.
Definition Dall (d : nat) : Prop := Dg 6 E6 d /\ Dg 4 E45 d /\ Dg 5 E45 d /\ Dg 2 (fun _ => True) d.

Lemma cls_safe d : Dall d -> forall p, cls p = true -> prod_safe (subR d) (postof_env env_real) sane p.
Proof.
  intros [D6 [D4 [D5 D2]]] p Hp. unfold cls in Hp. unfold prod_safe.
  destruct (p_toseq p) as [| | | | | |c|lab g|]; try exact I.
  - intros t [Hs _] Hm. apply Hs. unfold tok_matches in Hm. destruct (mtypes (p_match p)) as [l|] eqn:Hl; [|discriminate].
    pose proof (mtypes_ok _ _ _ l Hm Hl) as Hin. apply mem_s_In in Hin. rewrite forallb_forall in Hp.
    specialize (Hp _ Hin). apply eqs_spec in Hp. rewrite Hp. apply eqs_refl.
  - intros t anc l Ht Hl Hn HnE Hm. apply orb_true_iff in Hp. destruct Hp as [Hp|Hp]; [apply orb_true_iff in Hp; destruct Hp as [Hp|Hp]|].
    + apply andb_true_iff in Hp. destruct Hp as [Hg He]. apply Nat.eqb_eq in Hg. subst g.
      apply D6; auto. split; [exact (entry_ok_E p t He Ht Hm)|exact HnE].
    + apply andb_true_iff in Hp. destruct Hp as [Hg He]. pose proof (typed_good_ok p t He Hm) as HE.
      apply orb_true_iff in Hg. destruct Hg as [Hg|Hg]; apply Nat.eqb_eq in Hg; subst g; [apply D4|apply D5]; auto.
    + apply Nat.eqb_eq in Hp. subst g. apply D2; auto.
  - exact Hp.
Qed.

Lemma Dall_0 : Dall 0.
Proof. repeat split; try discriminate. Qed.

(* one step of depth for grammar g of the media part *)
Lemma Dg_crash d g gr anc t l :
  Dall d -> nth_error env_real g = Some gr -> tallb cls (g_tree gr) = true ->
  sane t -> Forall sane l -> subR (S d) g anc t l <> Crash.
Proof.
  intros HD Hg Hc Ht Hl. unfold subR. cbn [pparse_sub]. rewrite Hg. destruct (env_real_wf_np g gr Hg) as [Hw Hnp].
  apply parse_tree_no_crash with (T := sane);
    [apply pparse_sub_ok|exact Hw|exact Hnp| |left; reflexivity|cbn; constructor; assumption].
  apply (tallb_tall cls); [|exact Hc]. exact (cls_safe d HD).
Qed.

Lemma Dall_S d : Dall d -> Dall (S d).
Proof.
  intros HD. destruct cls_trees as [C0 [C1 [C2 [C4 [C5 [C6 [T4 [T5 T6]]]]]]]].
  split; [|split; [|split]]; intros t anc l Ht Hl Hn HE.
  - split; [apply (Dg_crash d 6 _ anc t l HD env6 C6 Ht Hl)|]. destruct HE as [HS HEo].
    unfold subR. cbn [pparse_sub]. rewrite env6. cbn [g_tree g_opts]. intros r Hr. exists PostDim.
    split; [unfold postof_env; rewrite env6; reflexivity|]. apply post_ok_first; [auto|]. intros Hwf.
    destruct (parse_tree_first _ _ _ t true (fun p => q6 p = true)
                ltac:(intros p Hp; apply andb_true_iff in Hp; exact (proj1 Hp)) Hn HS HEo _ anc l r
                (tallb_tall q6 _ (fun p H => H) _ T6) Hr Hwf) as [it [rest [Hi [Hty [Hpl [p [Hq Hm]]]]]]].
    exists it, rest. split; [exact Hi|]. apply andb_true_iff in Hq. destruct Hq as [_ Hq].
    destruct (typed_good_ok p t Hq Hm) as [_ [_ HC]]. rewrite Hty. auto.
  - split; [apply (Dg_crash d 4 _ anc t l HD env4 C4 Ht Hl)|]. destruct HE as [HS [HEo HC]].
    unfold subR. cbn [pparse_sub]. rewrite env4. cbn [g_tree g_opts]. intros r Hr. exists PostFirst.
    split; [unfold postof_env; rewrite env4; reflexivity|]. apply post_ok_first; [auto|]. intros Hwf.
    destruct (parse_tree_first _ _ _ t false (fun p => tp_prod false p = true) (fun p H => H) Hn HS HEo _ anc l r
                (tallb_tall (tp_prod false) _ (fun p H => H) _ T4) Hr Hwf) as [it [rest [Hi [Hty _]]]].
    exists it, rest. split; [exact Hi|]. rewrite Hty. split; [exact HC|discriminate].
  - split; [apply (Dg_crash d 5 _ anc t l HD env5 C5 Ht Hl)|]. destruct HE as [HS [HEo HC]].
    unfold subR. cbn [pparse_sub]. rewrite env5. cbn [g_tree g_opts]. intros r Hr. exists PostColor.
    split; [unfold postof_env; rewrite env5; reflexivity|]. apply post_ok_first; [auto|]. intros Hwf.
    destruct (parse_tree_first _ _ _ t false (fun p => tp_prod false p = true) (fun p H => H) Hn HS HEo _ anc l r
                (tallb_tall (tp_prod false) _ (fun p H => H) _ T5) Hr Hwf) as [it [rest [Hi [Hty _]]]].
    exists it, rest. split; [exact Hi|]. rewrite Hty. split; [exact HC|discriminate].
  - split; [apply (Dg_crash d 2 _ anc t l HD env2 C2 Ht Hl)|]. intros r _. exists PostMQ.
    split; [unfold postof_env; rewrite env2; reflexivity|apply post_total_ok; reflexivity].
Qed.

Lemma Dall_all d : Dall d.
Proof. induction d as [|d IH]; [exact Dall_0|exact (Dall_S d IH)]. Qed.

(* ranks of the media part: MediaList 3, MediaQuery 2, MediaQuery_partof 2, Value 0, ColorValue 1, DimensionValue 0 *)
Definition rk_media : list (option nat) := [Some 3; Some 2; Some 2; None; Some 0; Some 1; Some 0].
Lemma media_ranked_b : rankedb rk_media env_real = true.
Proof. vm_compute. reflexivity. Qed.
Lemma media_ranked : ranked rk_media env_real.
Proof. exact (rankedb_ranked _ _ media_ranked_b). Qed.
Lemma env_real_wf : env_wf env_real.
Proof. intros g gr H. exact (proj1 (env_real_wf_np g gr H)). Qed.

Definition sane_toks (toks : list tok) : Prop := Forall sane toks.

Lemma media_build_total g gr toks :
  nth_error env_real g = Some gr -> tallb cls (g_tree gr) = true -> tallb (sub_below rk_media 5) (g_tree gr) = true ->
  post_total (g_post gr) = true -> sane_toks toks ->
  exists w its mt, build 6 env_real g toks = Some (PRet w its mt).
Proof.
  intros Hg Hc Hr Hpt Hs. unfold build, pparse_env.
  assert (Hunf : forall d, pparse_sub (S d) env_real g false None toks = pparse d env_real true (g_opts gr) (g_tree gr) toks stash0).
  { intros d. cbn [pparse_sub]. rewrite Hg. reflexivity. }
  rewrite (Hunf 5). unfold postof_env. rewrite Hg. cbn [option_map].
  destruct (env_real_wf_np g gr Hg) as [Hw Hnp].
  pose proof (pparse_total_lemma 5 env_real true (g_opts gr) (g_tree gr) toks stash0 (or_introl eq_refl)) as H1.
  pose proof (pparse_no_spin 5 env_real true (g_opts gr) (g_tree gr) toks stash0 env_real_wf Hw) as H2.
  pose proof (pparse_no_depthout rk_media env_real 5 true (g_opts gr) (g_tree gr) toks stash0 media_ranked Hr) as H3.
  assert (H4 : pparse 5 env_real true (g_opts gr) (g_tree gr) toks stash0 <> Crash).
  { unfold pparse. apply parse_tree_no_crash with (T := sane);
      [apply pparse_sub_ok|exact Hw|exact Hnp| |left; reflexivity|exact Hs].
    apply (tallb_tall cls); [|exact Hc]. exact (cls_safe 5 (Dall_all 5)). }
  destruct (pparse 5 env_real true (g_opts gr) (g_tree gr) toks stash0) as [r| | | |]; try congruence.
  destruct (post (g_post gr) r) as [w its mt|] eqn:Hp; [exists w, its, mt; reflexivity|]. exfalso. exact (post_total_ok _ r Hpt Hp).
Qed.

(* S4 *)
Theorem media_leaf_total : forall toks, sane_toks toks ->
  exists w its mt, build 6 env_real gid_MediaList toks = Some (PRet w its mt).
Proof.
  intros toks Hs. destruct cls_trees as [C0 _].
  apply (media_build_total 0 _ toks env0); [exact C0|vm_compute; reflexivity|reflexivity|exact Hs].
Qed.
Theorem media_query_total : forall toks, sane_toks toks ->
  exists w its mt, build 6 env_real gid_MediaQuery toks = Some (PRet w its mt).
Proof.
  intros toks Hs. destruct cls_trees as [_ [C1 _]].
  apply (media_build_total 1 _ toks env1); [exact C1|vm_compute; reflexivity|reflexivity|exact Hs].
Qed.

(* ------------------------------------------------------------------ decidable forms of the side conditions, examples *)
Definition env_wfb (env : genv) : bool := forallb (fun gr => wf_tree (g_tree gr)) env.
Definition env_safeb (env : genv) : bool := forallb (fun gr => tallb (safe_prodb env) (g_tree gr) && not_prod (g_tree gr)) env.
Lemma env_wfb_ok env : env_wfb env = true -> env_wf env.
Proof. intros H g gr Hg. apply nth_error_In in Hg. unfold env_wfb in H. rewrite forallb_forall in H. exact (H _ Hg). Qed.
Lemma env_safeb_ok env : env_safeb env = true -> env_safe env.
Proof.
  intros H g gr Hg. apply nth_error_In in Hg. unfold env_safeb in H. rewrite forallb_forall in H.
  specialize (H _ Hg). apply andb_true_iff in H. exact H.
Qed.

Example env_real_wfb : env_wfb env_real = true.
Proof. vm_compute. reflexivity. Qed.
Example env_real_is_wf : env_wf env_real.
Proof. exact (env_wfb_ok _ env_real_wfb). Qed.
Example media_part_ranked : ranked rk_media env_real /\ rkof rk_media gid_MediaList = Some 3 /\ rkof rk_media gid_MediaQuery = Some 2.
Proof. split; [exact media_ranked|split; reflexivity]. Qed.
(* the whole of env_real is NOT ranked: CSSFunction, MSValue, CSSVariable are recursive (Python: RecursionError on deep nesting) *)
Example env_real_not_ranked_by_depth :
  rankedb [Some 3; Some 2; Some 2; Some 9; Some 0; Some 1; Some 0; Some 0; Some 8; Some 8; Some 8; Some 8] env_real = false.
Proof. vm_compute. reflexivity. Qed.

(* a toy environment that satisfies the decidable side condition of pparse_never_crashes: the real MediaList tree over a
   one-production media query (env_real itself does not: PostDim is partial -- a DimensionValue whose first non-comment
   item is an object; value_leaf_ctor_total shows the real DimensionValue tree never produces one) *)
Definition env_toy : genv :=
  [ mkGr (s "MediaList") tree_MediaList opts0 PostML;
    mkGr (s "MediaQuery") (PSeq [PProd (mkProd (s "t") (MTy (s "IDENT")) false ADefault None false false false false false false)] 1 (Some 1)) opts0 PostMQ;
    mkGr (s "MediaQuery") (PSeq [PProd (mkProd (s "t") (MTy (s "IDENT")) false ADefault None false false false false false false)] 1 (Some 1)) opts0 PostMQ ].
Example env_toy_ok : env_wf env_toy /\ env_safe env_toy /\ safe_tree env_toy tree_MediaList /\ env_safeb env_real = false.
Proof.
  split; [apply env_wfb_ok; vm_compute; reflexivity|]. split; [apply env_safeb_ok; vm_compute; reflexivity|].
  split; vm_compute; reflexivity.
Qed.
Example pparse_never_crashes_toy :
  forall d toks, Forall nev toks -> pparse d env_toy true opts0 tree_MediaList toks stash0 <> Crash.
Proof.
  intros d toks H. destruct env_toy_ok as [H1 [H2 [H3 _]]].
  apply pparse_never_crashes; auto; vm_compute; reflexivity.
Qed.

(* a non-trivial sane token list:  screen and (color: +1)  *)
Definition tk (t v : string) : tok := mkTok (s t) (s v) (s v) 1 1.
Definition toks_ex : list tok :=
  [tk "IDENT" "screen"; tk "S" " "; tk "IDENT" "and"; tk "S" " "; tk "CHAR" "("; tk "IDENT" "color"; tk "CHAR" ":";
   tk "S" " "; tk "NUMBER" "1"; tk "CHAR" ")"; mkTok (s "EOF") [] [] 1 1].
Example toks_ex_sane : sane_toks toks_ex.
Proof. repeat constructor; cbn; try discriminate. Qed.
Example media_leaf_ex : exists its mt, build 6 env_real gid_MediaList toks_ex = Some (PRet true its mt).
Proof. vm_compute. eauto. Qed.
(* the token the sanity condition excludes: an empty STRING makes helper.stringvalue read string[0] (modelled Crash).
   (The second half of `sane` is a proof convenience: in ColorValue an S token never reaches the `unary +-` production,
   because no production there has nextSor and defaultS stays true; the proof does not track that flag.) *)
Example sane_needed : pparse_sub 2 env_real gid_Value false (Some (tk "STRING" "")) [] = Crash.
Proof. vm_compute. reflexivity. Qed.

Print Assumptions pparse_no_spin.
Print Assumptions pparse_never_crashes.
Print Assumptions pparse_sub_depth.
Print Assumptions pparse_no_depthout.
Print Assumptions media_leaf_total.
Print Assumptions media_query_total.

(* ================================================================== the VALUE part of env_real (gids 3..11)
   The sub-parser call graph is cyclic (CSSFunction -> CSSFunction, MSValue -> MSValue, CSSVariable -> CSSFunction ...),
   so DepthOut (Python: RecursionError) is a genuine outcome; everything else is excluded for EVERY depth budget. *)
Local Transparent env_real.
Lemma env3 : nth_error env_real 3 = Some (mkGr (s "PropertyValue") tree_PropertyValue (mkOpts false false false) PostPV).
Proof. reflexivity. Qed.
Lemma env7 : nth_error env_real 7 = Some (mkGr (s "URIValue") tree_URIValue (mkOpts false false false) PostFirst).
Proof. reflexivity. Qed.
Lemma env8 : nth_error env_real 8 = Some (mkGr (s "CSSFunction") tree_CSSFunction (mkOpts false false false) PostOk).
Proof. reflexivity. Qed.
Lemma env9 : nth_error env_real 9 = Some (mkGr (s "MSValue") tree_MSValue (mkOpts false false false) PostOk).
Proof. reflexivity. Qed.
Lemma env10 : nth_error env_real 10 = Some (mkGr (s "CSSCalc") tree_CSSCalc (mkOpts false true false) PostOk).
Proof. reflexivity. Qed.
Lemma env11 : nth_error env_real 11 = Some (mkGr (s "CSSVariable") tree_CSSVariable (mkOpts false false false) PostVar).
Proof. reflexivity. Qed.
Local Opaque env_real.

(* classification of the productions of the value trees: cls, plus URIValue (7) entered on a typed token and the
   grammars 8..11 whose constructors are total *)
Definition cls2 (p : prod) : bool :=
  match p_toseq p with
  | ASub _ g => cls p || (Nat.eqb g 7 && typed_good p) || (Nat.leb 8 g && Nat.leb g 11)
  | _ => cls p
  end.
Lemma cls2_trees :
  tallb cls2 tree_PropertyValue = true /\ tallb cls2 tree_Value = true /\ tallb cls2 tree_ColorValue = true /\
  tallb cls2 tree_DimensionValue = true /\ tallb cls2 tree_URIValue = true /\ tallb cls2 tree_CSSFunction = true /\
  tallb cls2 tree_MSValue = true /\ tallb cls2 tree_CSSCalc = true /\ tallb cls2 tree_CSSVariable = true /\
  tallb (tp_prod false) tree_URIValue = true.
Proof. vm_compute. repeat split. Qed.
Local Opaque tree_PropertyValue tree_URIValue tree_CSSFunction tree_MSValue tree_CSSCalc tree_CSSVariable.

Definition Tr (_ : tok) : Prop := True.
Definition DV (d : nat) : Prop := Dg 7 E45 d /\ Dg 8 Tr d /\ Dg 9 Tr d /\ Dg 10 Tr d /\ Dg 11 Tr d.

Lemma cls2_safe d : DV d -> forall p, cls2 p = true -> prod_safe (subR d) (postof_env env_real) sane p.
Proof.
  intros [D7 [D8 [D9 [D10 D11]]]] p Hp. unfold cls2 in Hp.
  destruct (p_toseq p) as [| | | | | |c|lab g|] eqn:Ha; try (apply (cls_safe d (Dall_all d)); exact Hp).
  apply orb_true_iff in Hp. destruct Hp as [Hp|Hp]; [apply orb_true_iff in Hp; destruct Hp as [Hp|Hp]|].
  - apply (cls_safe d (Dall_all d)); exact Hp.
  - apply andb_true_iff in Hp. destruct Hp as [Hg He]. apply Nat.eqb_eq in Hg. subst g.
    unfold prod_safe. rewrite Ha. intros t anc l Ht Hl Hn HnE Hm. apply D7; auto. exact (typed_good_ok p t He Hm).
  - apply andb_true_iff in Hp. destruct Hp as [H1 H2]. apply Nat.leb_le in H1. apply Nat.leb_le in H2.
    unfold prod_safe. rewrite Ha. intros t anc l Ht Hl Hn HnE Hm.
    assert (Hg : g = 8 \/ g = 9 \/ g = 10 \/ g = 11) by lia.
    destruct Hg as [->|[->|[->| ->]]]; [apply D8|apply D9|apply D10|apply D11]; auto; exact I.
Qed.

Lemma DV_0 : DV 0.
Proof. repeat split; try discriminate. Qed.

Lemma Dg_crash2 d g gr anc t l :
  DV d -> nth_error env_real g = Some gr -> tallb cls2 (g_tree gr) = true ->
  sane t -> Forall sane l -> subR (S d) g anc t l <> Crash.
Proof.
  intros HD Hg Hc Ht Hl. unfold subR. cbn [pparse_sub]. rewrite Hg. destruct (env_real_wf_np g gr Hg) as [Hw Hnp].
  apply parse_tree_no_crash with (T := sane);
    [apply pparse_sub_ok|exact Hw|exact Hnp| |left; reflexivity|cbn; constructor; assumption].
  apply (tallb_tall cls2); [|exact Hc]. exact (cls2_safe d HD).
Qed.

Lemma Dg_total d g gr :
  DV d -> nth_error env_real g = Some gr -> tallb cls2 (g_tree gr) = true -> post_total (g_post gr) = true ->
  Dg g Tr (S d).
Proof.
  intros HD Hg Hc Hpt t anc l Ht Hl Hn _. split; [exact (Dg_crash2 d g gr anc t l HD Hg Hc Ht Hl)|].
  intros r _. exists (g_post gr). split; [unfold postof_env; rewrite Hg; reflexivity|apply post_total_ok, Hpt].
Qed.

Lemma DV_S d : DV d -> DV (S d).
Proof.
  intros HD. destruct cls2_trees as [_ [_ [_ [_ [C7 [C8 [C9 [C10 [C11 T7]]]]]]]]].
  split; [|split; [|split; [|split]]].
  - intros t anc l Ht Hl Hn HE. split; [apply (Dg_crash2 d 7 _ anc t l HD env7 C7 Ht Hl)|]. destruct HE as [HS [HEo HC]].
    unfold subR. cbn [pparse_sub]. rewrite env7. cbn [g_tree g_opts]. intros r Hr. exists PostFirst.
    split; [unfold postof_env; rewrite env7; reflexivity|]. apply post_ok_first; [auto|]. intros Hwf.
    destruct (parse_tree_first _ _ _ t false (fun p => tp_prod false p = true) (fun p H => H) Hn HS HEo _ anc l r
                (tallb_tall (tp_prod false) _ (fun p H => H) _ T7) Hr Hwf) as [it [rest [Hi [Hty _]]]].
    exists it, rest. split; [exact Hi|]. rewrite Hty. split; [exact HC|discriminate].
  - exact (Dg_total d 8 _ HD env8 C8 eq_refl).
  - exact (Dg_total d 9 _ HD env9 C9 eq_refl).
  - exact (Dg_total d 10 _ HD env10 C10 eq_refl).
  - exact (Dg_total d 11 _ HD env11 C11 eq_refl).
Qed.

Lemma DV_all d : DV d.
Proof. induction d as [|d IH]; [exact DV_0|exact (DV_S d IH)]. Qed.

(* a constructor of the value part on a sane token list: it returns, or the depth budget is exhausted *)
Lemma value_parse_mod_depth g gr d toks :
  nth_error env_real g = Some gr -> tallb cls2 (g_tree gr) = true -> sane_toks toks ->
  pparse_env d env_real g toks = DepthOut \/ exists r, pparse_env d env_real g toks = Ret r.
Proof.
  intros Hg Hc Hs. unfold pparse_env. destruct d as [|d]; [left; reflexivity|].
  assert (Hunf : pparse_sub (S d) env_real g false None toks = pparse d env_real true (g_opts gr) (g_tree gr) toks stash0).
  { cbn [pparse_sub]. rewrite Hg. reflexivity. }
  rewrite Hunf. destruct (env_real_wf_np g gr Hg) as [Hw Hnp].
  pose proof (pparse_total_lemma d env_real true (g_opts gr) (g_tree gr) toks stash0 (or_introl eq_refl)) as H1.
  pose proof (pparse_no_spin d env_real true (g_opts gr) (g_tree gr) toks stash0 env_real_wf Hw) as H2.
  assert (H4 : pparse d env_real true (g_opts gr) (g_tree gr) toks stash0 <> Crash).
  { unfold pparse. apply parse_tree_no_crash with (T := sane);
      [apply pparse_sub_ok|exact Hw|exact Hnp| |left; reflexivity|exact Hs].
    apply (tallb_tall cls2); [|exact Hc]. exact (cls2_safe d (DV_all d)). }
  destruct (pparse d env_real true (g_opts gr) (g_tree gr) toks stash0) as [r| | | |]; try congruence; eauto.
Qed.

Lemma value_build_mod_depth g gr d toks :
  nth_error env_real g = Some gr -> tallb cls2 (g_tree gr) = true -> post_total (g_post gr) = true -> sane_toks toks ->
  pparse_env d env_real g toks = DepthOut \/
  exists r, pparse_env d env_real g toks = Ret r /\ post (g_post gr) r <> PCrash.
Proof.
  intros Hg Hc Hpt Hs. destruct (value_parse_mod_depth g gr d toks Hg Hc Hs) as [H|[r H]]; [left; exact H|right].
  exists r. split; [exact H|apply post_total_ok, Hpt].
Qed.

(* V1 *)
Theorem property_value_total_mod_depth : forall d toks, sane_toks toks ->
  pparse_env d env_real gid_PropertyValue toks = DepthOut \/
  exists r, pparse_env d env_real gid_PropertyValue toks = Ret r /\ post PostPV r <> PCrash.
Proof.
  intros d toks Hs. destruct cls2_trees as [C3 _]. exact (value_build_mod_depth 3 _ d toks env3 C3 eq_refl Hs).
Qed.
(* the same in the shape  exists r, (Ret r /\ ...) \/ DepthOut *)
Corollary property_value_total_mod_depth' : forall d toks, sane_toks toks ->
  exists r, (pparse_env d env_real gid_PropertyValue toks = Ret r /\ post PostPV r <> PCrash) \/
            pparse_env d env_real gid_PropertyValue toks = DepthOut.
Proof.
  intros d toks Hs. destruct (property_value_total_mod_depth d toks Hs) as [H|[r H]].
  - exists (mkRes false [] [] false None SOff false [] stash0). right. exact H.
  - exists r. left. exact H.
Qed.

(* V2: the constructors with a total post, used on their own *)
Theorem value_ctor_total_mod_depth : forall g, 8 <= g <= 11 -> forall d toks, sane_toks toks ->
  exists pc, postof_env env_real g = Some pc /\
  (pparse_env d env_real g toks = DepthOut \/ exists r, pparse_env d env_real g toks = Ret r /\ post pc r <> PCrash).
Proof.
  intros g Hg d toks Hs. destruct cls2_trees as [_ [_ [_ [_ [_ [C8 [C9 [C10 [C11 _]]]]]]]]].
  assert (Hc : g = 8 \/ g = 9 \/ g = 10 \/ g = 11) by lia. destruct Hc as [->|[->|[->| ->]]].
  - exists PostOk. split; [unfold postof_env; rewrite env8; reflexivity|exact (value_build_mod_depth 8 _ d toks env8 C8 eq_refl Hs)].
  - exists PostOk. split; [unfold postof_env; rewrite env9; reflexivity|exact (value_build_mod_depth 9 _ d toks env9 C9 eq_refl Hs)].
  - exists PostOk. split; [unfold postof_env; rewrite env10; reflexivity|exact (value_build_mod_depth 10 _ d toks env10 C10 eq_refl Hs)].
  - exists PostVar. split; [unfold postof_env; rewrite env11; reflexivity|exact (value_build_mod_depth 11 _ d toks env11 C11 eq_refl Hs)].
Qed.
(* Value / ColorValue / DimensionValue / URIValue on their own: the parse never crashes *)
Theorem value_leaf_parse_mod_depth : forall g, 4 <= g <= 7 -> forall d toks, sane_toks toks ->
  pparse_env d env_real g toks = DepthOut \/ exists r, pparse_env d env_real g toks = Ret r.
Proof.
  intros g Hg d toks Hs. destruct cls2_trees as [_ [C4 [C5 [C6 [C7 _]]]]].
  assert (Hc : g = 4 \/ g = 5 \/ g = 6 \/ g = 7) by lia. destruct Hc as [->|[->|[->| ->]]].
  - exact (value_parse_mod_depth 4 _ d toks env4 C4 Hs).
  - exact (value_parse_mod_depth 5 _ d toks env5 C5 Hs).
  - exact (value_parse_mod_depth 6 _ d toks env6 C6 Hs).
  - exact (value_parse_mod_depth 7 _ d toks env7 C7 Hs).
Qed.
(* ------------------------------------------------------------------ a tree without sub-parsers only produces text items *)
Definition noasub (p : prod) : bool := match p_toseq p with ASub _ _ => false | _ => true end.
Definition allstr (l : list item) : Prop := Forall (fun it => is_obj it = false) l.

Section Str.
  Variable o : opts.
  Variable sub : nat -> bool -> tok -> list tok -> out.
  Variable postof : nat -> option postcode.
  Definition Qs (p : prod) : Prop := noasub p = true.

  Lemma appended_str p t old new : noasub p = true -> appended p t old new -> allstr old -> allstr new.
  Proof.
    unfold appended, noasub. destruct (p_stopkeep p); [intros _ -> Ho; exact Ho|].
    destruct (p_toseq p) as [| | | | | |c|lab g|]; intros Hn H Ho; try discriminate; try contradiction;
      try (subst new; exact Ho); destruct H as [v ->]; (constructor; [reflexivity|exact Ho]).
  Qed.

  Lemma body_str t st :
    stack_all Qs (l_stack st) -> allstr (l_seq st) ->
    match body o sub postof t st with
    | LCont st' | LBreak st' => stack_all Qs (l_stack st') /\ allstr (l_seq st')
    | LOut _ => True
    end.
  Proof.
    intros HQ HS. unfold body.
    destruct (o_checkS o && negb (eqs (ty t) (s "COMMENT")) && eqs (ty t) (s "S") && l_afterS st); [split; assumption|].
    set (st1 := if o_checkS o && negb (eqs (ty t) (s "COMMENT")) then set_afterS st (eqs (ty t) (s "S")) else st).
    assert (Hst1 : l_stack st1 = l_stack st /\ l_seq st1 = l_seq st) by (unfold st1; destruct (_ && _); split; reflexivity).
    destruct Hst1 as [E1 E2].
    assert (HQ1 : stack_all Qs (l_stack st1)) by (rewrite E1; exact HQ).
    assert (HS1 : allstr (l_seq st1)) by (rewrite E2; exact HS).
    destruct (eqs (ty t) (s "COMMENT")); [cbn; split; [assumption|constructor; [reflexivity|assumption]]|].
    destruct (l_defaultS st1 && eqs (ty t) (s "S") && negb (o_checkS o)).
    { destruct (_ || _); cbn; split; try assumption. constructor; [reflexivity|assumption]. }
    destruct (eqs (ty t) (s "INVALID")); [cbn; split; assumption|].
    destruct (eqs (ty t) (s "EOF")); [cbn; split; assumption|].
    cbn [l_stack set_started].
    pose proof (find_all Qs (find_fuel (l_stack st1)) (l_stack st1) t HQ1) as Hfa.
    destruct (find _ (l_stack st1) t) as [p stack|stack|stack| |]; try exact I.
    - destruct Hfa as [Hqp [Hm Hqs]].
      match goal with |- context [process sub postof p t ?stx] => set (sx := stx) end.
      pose proof (process_seq sub postof p t sx) as Hps.
      destruct (process sub postof p t sx) as [st'|st'|x]; [| |exact I];
        destruct Hps as [A1 [_ A3]]; rewrite A1; (split; [exact Hqs|]); exact (appended_str p t _ _ Hqp A3 HS1).
    - cbn. destruct (l_stopnm st1); cbn; split; assumption.
    - cbn. split; assumption.
  Qed.

  Lemma rstripS_str l : allstr l -> allstr (rstripS l).
  Proof.
    induction l as [|x r IH]; cbn [rstripS]; intros H; [exact H|]. inversion H; subst.
    destruct (eqs (item_ty x) (s "S")); [apply IH; assumption|exact H].
  Qed.

  Lemma finish_str st r : allstr (l_seq st) -> finish o st = Ret r -> allstr (r_items r).
  Proof.
    intros HS. assert (Hrev : allstr (rev (rstripS (l_seq st)))).
    { apply Forall_forall. intros it Hin. apply in_rev in Hin. pose proof (rstripS_str _ HS) as H.
      unfold allstr in H. rewrite Forall_forall in H. exact (H it Hin). }
    unfold finish. destruct (l_stopall st); [intros H; inversion H; subst r; exact Hrev|].
    destruct (final _ _ _); try discriminate. destruct (_ && _); intros H; inversion H; subst r; cbn; [constructor|exact Hrev].
  Qed.

  Lemma loop_str n : forall st r,
    stack_all Qs (l_stack st) -> allstr (l_seq st) -> loop o sub postof n st = Ret r -> allstr (r_items r).
  Proof.
    induction n as [|n IH]; intros st r HQ HS; [discriminate|]. rewrite loop_unfold.
    destruct (pull st) as [[t st1]|] eqn:Hp; [|apply finish_str; exact HS].
    destruct (pull_fields st t st1 Hp) as [E1 [E2 _]].
    pose proof (body_str t st1 ltac:(rewrite E1; exact HQ) ltac:(rewrite E2; exact HS)) as Hb.
    pose proof (body_ext o sub postof t st1) as Hx.
    destruct (body o sub postof t st1) as [st2|st2|x].
    - destruct Hb as [B1 B2]. apply IH; assumption.
    - destruct Hb as [B1 B2]. apply finish_str. exact B2.
    - intros E. exfalso. exact (Hx r E).
  Qed.

  Lemma parse_tree_str clear tr anc first toks sh r :
    tallb noasub tr = true -> parse_tree sub postof clear o tr anc first toks sh = Ret r -> allstr (r_items r).
  Proof.
    intros Ht. unfold parse_tree, init_state. destruct (enter tr) as [f|] eqn:He; [|discriminate].
    apply loop_str; cbn [l_stack l_seq]; [|constructor].
    constructor; [|constructor]. eapply enter_all; [|exact He]. exact (tallb_tall noasub Qs (fun p H => H) tr Ht).
  Qed.
End Str.

Lemma post_dim_str r : allstr (r_items r) -> post PostDim r <> PCrash.
Proof.
  intros H. unfold post. destruct (r_wf r); [|discriminate].
  destruct (value_item (r_items r)) as [it|] eqn:Hv; [|discriminate].
  unfold value_item in Hv. apply find_some in Hv. destruct Hv as [Hin _].
  unfold allstr in H. rewrite Forall_forall in H. specialize (H it Hin). destruct it; discriminate.
Qed.

Lemma dim_tree_noasub : tallb noasub tree_DimensionValue = true.
Proof. vm_compute. reflexivity. Qed.

(* ... and after the repair of value.py (_valueitem: the first non-comment item) so do their constructors *)
Theorem value_leaf_ctor_total : forall g, 4 <= g <= 7 -> forall toks d, sane_toks toks ->
  exists pc, postof_env env_real g = Some pc /\
  (pparse_env d env_real g toks = DepthOut \/ exists r, pparse_env d env_real g toks = Ret r /\ post pc r <> PCrash).
Proof.
  intros g Hg toks d Hs. destruct cls2_trees as [_ [C4 [C5 [C6 [C7 _]]]]].
  assert (Hc : g = 4 \/ g = 5 \/ g = 6 \/ g = 7) by lia. destruct Hc as [->|[->|[->| ->]]].
  - exists PostFirst. split; [unfold postof_env; rewrite env4; reflexivity|exact (value_build_mod_depth 4 _ d toks env4 C4 eq_refl Hs)].
  - exists PostColor. split; [unfold postof_env; rewrite env5; reflexivity|exact (value_build_mod_depth 5 _ d toks env5 C5 eq_refl Hs)].
  - exists PostDim. split; [unfold postof_env; rewrite env6; reflexivity|].
    destruct (value_parse_mod_depth 6 _ d toks env6 C6 Hs) as [H|[r H]]; [left; exact H|right].
    exists r. split; [exact H|]. apply post_dim_str. unfold pparse_env in H. destruct d as [|d]; [discriminate|].
    cbn [pparse_sub] in H. rewrite env6 in H. cbn [g_tree g_opts] in H.
    exact (parse_tree_str _ _ _ _ _ _ _ _ _ r dim_tree_noasub H).
  - exists PostFirst. split; [unfold postof_env; rewrite env7; reflexivity|exact (value_build_mod_depth 7 _ d toks env7 C7 eq_refl Hs)].
Qed.

(* the four inputs on which the constructors raised before the repair (IndexError, IndexError, TypeError,
   UnboundLocalError) now build an object: not wellformed for the lone EOF, wellformed after a leading comment *)
Definition eof_tok : tok := mkTok (s "EOF") [] [] 1 1.
Example value_ctor_witnesses_fixed :
  sane_toks [eof_tok] /\ sane_toks [tk "COMMENT" "/**/"; tk "NUMBER" "1"] /\
  (exists its mt, build 3 env_real gid_Value [eof_tok] = Some (PRet false its mt)) /\
  (exists its mt, build 3 env_real gid_URIValue [eof_tok] = Some (PRet false its mt)) /\
  (exists its mt, build 3 env_real gid_DimensionValue [tk "COMMENT" "/**/"; tk "NUMBER" "1"] = Some (PRet true its mt)) /\
  (exists its mt, build 3 env_real gid_ColorValue [tk "COMMENT" "/**/"; tk "IDENT" "red"] = Some (PRet true its mt)).
Proof.
  split; [repeat constructor; cbn; discriminate|]. split; [repeat constructor; cbn; discriminate|].
  vm_compute. repeat split; eauto.
Qed.
Example property_value_ex :
  exists r, pparse_env 4 env_real gid_PropertyValue [tk "IDENT" "red"; tk "S" " "; tk "FUNCTION" "f("; tk "NUMBER" "1"; tk "CHAR" ")"] = Ret r
            /\ r_wf r = true.
Proof. vm_compute. eauto. Qed.
(* DepthOut is genuine: one FUNCTION token per level *)
Example property_value_depthout :
  pparse_env 3 env_real gid_PropertyValue [tk "FUNCTION" "f("; tk "FUNCTION" "g("; tk "FUNCTION" "h("; tk "CHAR" ")"] = DepthOut.
Proof. vm_compute. reflexivity. Qed.

Print Assumptions property_value_total_mod_depth.
Print Assumptions value_ctor_total_mod_depth.
Print Assumptions value_leaf_parse_mod_depth.
Print Assumptions value_leaf_ctor_total.
