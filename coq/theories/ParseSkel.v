(* ParseSkel.v -- C01 (extension): the never-raises outcome of a parse evaluated over C04's
   statement skeleton (Skeleton.v: top-level dispatch, rule-set split, declaration loop, @media
   split + inner dispatch with nesting, unknown rule), with ONLY the leaf parsers left abstract.

   A leaf receives a FINITE token run that the skeleton already pulled with _tokensupto2
   (Upto.upto); it no longer sees the token generator, so "the callback leaves a suffix of the
   generator" (part of the old hypothesis handlers_total) is proved, not assumed.

   Leaves (Section variable `leaf`, hypothesis ParseSkelFacts.leaves_total):
     LSelector    SelectorList.selectorText = tokens of a rule-set head    (selector machine)
     LProperty    Property(cssText = one declaration run)   name / value (ProdParser value
                  grammars) / priority / profiles validation
     LMediaQuery  MediaList.mediaText = head of an @media rule              (ProdParser media grammar)
     LImport LNamespace LPage LFontFace LVariables   rule.cssText = the statement run
   Modelled and total by construction or by theorem: dispatch loops, rule-set and @media splits,
   CSSUnknownRule (Skeleton.unknown_rule), CSSCharsetRule (ParseTotal.charset_rule), comments.
   Definitions only; proofs in ParseSkelFacts.v.                                              *)
From CssV Require Import Base Regex Tokenizer Quote Gen.StrTokenValue Upto Skeleton ParseTotal.
Local Open Scope nat_scope.

Inductive leafkind :=
| LSelector | LProperty | LMediaQuery | LImport | LNamespace | LPage | LFontFace | LVariables.

Section Skel.
  Variable St : Type.
  Variable leaf : leafkind -> St -> list tok -> outcome St.
  Variable flag : St -> St.                                   (* an error is logged *)
  Variable add_comment : St -> tok -> St.
  Variable on_unknown : St -> option (tok * list uitem) -> St.
  Variable charset_commit : St -> charset_result -> St.

  Definition seq_items (f : St -> item -> outcome St) (items : list item) (st : St) : outcome St :=
    fold_left (fun acc it => bind acc (fun st' => f st' it)) items (Returned st).

  (* cssstyledeclaration.py:307-348: ident -> Property; unexpected -> logged; ATKEYWORD -> unknown rule *)
  Definition eval_decl (st : St) (it : item) : outcome St :=
    match it with
    | IComment t => Returned (add_comment st t)
    | IStmt KDeclIdent run => leaf LProperty st run
    | IStmt KDeclAt run => Returned (on_unknown st (unknown_rule run))
    | IStmt _ _ => Returned (flag st)
    end.

  (* cssstylerule.py:107-159 *)
  Definition rs_gate (p : ruleset_parts) : bool :=
    match rs_trail p, rs_selector p with
    | None, t0 :: _ => negb (starts (s "@") (val t0))
    | _, _ => false
    end.
  Definition eval_ruleset (st : St) (run : list tok) : outcome St :=
    let p := ruleset_split run in
    if rs_gate p then
      bind (leaf LSelector st (removelast (rs_selector p)))
           (fun st' => match rs_decls p with
                       | Some items => seq_items eval_decl items st'
                       | None => Returned (flag st')
                       end)
    else Returned (flag st).

  (* cssstylesheet.py:160-317 (inmedia = false) and cssmediarule.py:176-236 (inmedia = true);
     fuel bounds the @media nesting depth (>= length of the statement run) *)
  Fixpoint eval_stmt (fuel : nat) (inmedia : bool) (st : St) (it : item) : outcome St :=
    match it with
    | IComment t => Returned (add_comment st t)
    | IStmt k run =>
      match k with
      | KRuleset => eval_ruleset st run
      | KUnknown => Returned (on_unknown st (unknown_rule run))
      | KPage => leaf LPage st run
      | KMedia =>
        match fuel with
        | O => OutOfFuel
        | S f =>
          let p := media_split (tl run) in
          bind (leaf LMediaQuery st (mp_media p))
               (fun st' => match mp_inner p with
                           | Some items => seq_items (eval_stmt f true) items st'
                           | None => Returned (flag st')
                           end)
        end
      | KCharset => if inmedia then Returned (flag st)
                    else bind (charset_rule run) (fun r => Returned (charset_commit st r))
      | KImport => if inmedia then Returned (flag st) else leaf LImport st run
      | KNamespace => if inmedia then Returned (flag st) else leaf LNamespace st run
      | KVariables => if inmedia then Returned (flag st) else leaf LVariables st run
      | KFontFace => if inmedia then Returned (flag st) else leaf LFontFace st run
      | KDeclIdent | KDeclUnexpected | KDeclAt => Returned (flag st)     (* not produced by cls_sheet / cls_media *)
      end
    end.

  Variable st0 : St.
  Definition eval_sheet (ts : list tok) : outcome St :=
    seq_items (eval_stmt (length ts) false) (skeleton ts) st0.
  Definition eval_style (ts : list tok) : outcome St :=
    seq_items eval_decl (decl_block ts) st0.

  (* api = true: parseString (full-sheet tokens); false: parseStyle.  dc = parseComments *)
  Definition parse_outcome_skel (api dc : bool) (text : str) : outcome St :=
    match tokenize dc api text with
    | None => OutOfFuel
    | Some toks => if api then eval_sheet toks else eval_style toks
    end.
End Skel.
