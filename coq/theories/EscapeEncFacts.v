(* EscapeEncFacts.v -- proofs about the C13 model (EscapeEnc.v): hex formatting, the escape is matched
   whole by the tokenizer's unicodesub regex, escape_resolves, escapecss_decodes, token values,
   the @charset rule comes first and is what the css codec reads back, the ATKEYWORD refutation.   *)
From CssV Require Import Base Regex RegexFacts Gen.TokTables Tokenizer TokenizerFacts Gen.EscapeConsts Gen.Quote EscapeEnc.

(* ------------------------------------------------------------------ hex digits *)
Definition hstep (acc c : N) : N := match hexval c with Some d => N.add (N.mul acc 16) d | None => acc end.
Definition hn (a : N) (t : str) : N := fold_left hstep t a.
Lemma hex_num_hn t : hex_num t = hn 0 t.
Proof. reflexivity. Qed.

Definition is_hex (c : N) : bool := in_ranges c [(48, 57); (97, 102); (65, 70)]%N.

Lemma hexdigit_cases u d : (d < 16)%N ->
  hexval (hexdigit u d) = Some d /\ is_hex (hexdigit u d) = true /\ upper_ascii (hexdigit false d) = hexdigit true d.
Proof.
  intros H.
  assert (Hc : In d [0;1;2;3;4;5;6;7;8;9;10;11;12;13;14;15]%N).
  { destruct d as [|p]; [simpl; tauto|].
    do 4 (destruct p as [p|p|]; [| |simpl; tauto]); try (simpl; tauto); exfalso; lia. }
  simpl in Hc. destruct u;
  repeat (destruct Hc as [<-|Hc]; [vm_compute; repeat split; reflexivity|]); destruct Hc.
Qed.

Lemma hex_fuel_acc u : forall f c acc,
  hex_fuel f u c acc = option_map (fun h => h ++ acc) (hex_fuel f u c []).
Proof.
  induction f as [|f IH]; intros c acc; [reflexivity|]. cbn [hex_fuel].
  destruct (N.ltb c 16); [reflexivity|].
  rewrite (IH _ (_ :: acc)), (IH _ [_]). destruct (hex_fuel f u (c / 16) []); simpl; [|reflexivity].
  now rewrite <- app_assoc.
Qed.

Lemma hex_fuel_S f u c acc : hex_fuel (S f) u c acc =
  if N.ltb c 16 then Some (hexdigit u c :: acc)
  else hex_fuel f u (N.div c 16) (hexdigit u (N.modulo c 16) :: acc).
Proof. reflexivity. Qed.

Lemma hex_fuel_spec u : forall f c, (c < 16 ^ N.of_nat (S f))%N ->
  exists h, hex_fuel (S f) u c [] = Some h /\ (1 <= length h)%nat /\
            forallb is_hex h = true /\ (forall a, hn a h = a * 16 ^ N.of_nat (length h) + c)%N /\
            (length h = 1%nat \/ 16 ^ N.of_nat (length h - 1) <= c)%N.
Proof.
  induction f as [|f IH]; intros c Hc.
  - assert (Hlt : (c < 16)%N) by (simpl in Hc; lia).
    cbn [hex_fuel]. destruct (N.ltb_spec c 16) as [_|Hge]; [|lia].
    destruct (hexdigit_cases u c Hlt) as (Hv & Hh & _).
    exists [hexdigit u c]. repeat split; simpl; try lia.
    + now rewrite Hh.
    + intros a. unfold hn, hstep. simpl. rewrite Hv. lia.
  - rewrite hex_fuel_S. destruct (N.ltb_spec c 16) as [Hlt|Hge].
    + destruct (hexdigit_cases u c Hlt) as (Hv & Hh & _).
      exists [hexdigit u c]. repeat split; simpl; try lia.
      * now rewrite Hh.
      * intros a. unfold hn, hstep. simpl. rewrite Hv. lia.
    + assert (Hq : (c / 16 < 16 ^ N.of_nat (S f))%N).
      { apply N.div_lt_upper_bound; [lia|]. rewrite (Nat2N.inj_succ (S f)), N.pow_succ_r' in Hc. exact Hc. }
      destruct (IH _ Hq) as (h & Hh & Hl & Hx & Ha & Hlead).
      assert (Hm : (c mod 16 < 16)%N) by (apply N.mod_lt; lia).
      destruct (hexdigit_cases u _ Hm) as (Hv & Hhx & _).
      change (hex_fuel (S f) u (c / 16) [hexdigit u (c mod 16)]) with
             (hex_fuel (S f) u (c / 16) [hexdigit u (c mod 16)]).
      rewrite hex_fuel_acc, Hh. cbn [option_map].
      exists (h ++ [hexdigit u (c mod 16)]). split; [reflexivity|].
      pose proof (N.div_mod c 16 ltac:(lia)) as Hdm.
      rewrite app_length. cbn [length]. replace (length h + 1)%nat with (S (length h)) by lia.
      repeat split.
      * lia.
      * rewrite forallb_app, Hx. simpl. now rewrite Hhx.
      * intros a. unfold hn. rewrite fold_left_app. cbn [fold_left]. fold (hn a h). rewrite Ha. unfold hstep. rewrite Hv.
        rewrite Nat2N.inj_succ, N.pow_succ_r'. lia.
      * right. replace (S (length h) - 1)%nat with (length h) by lia.
        destruct Hlead as [H1|H1].
        -- rewrite H1. simpl. lia.
        -- replace (length h) with (S (length h - 1)) at 1 by lia.
           rewrite Nat2N.inj_succ, N.pow_succ_r'. remember (16 ^ N.of_nat (length h - 1))%N as X. clear HeqX. clear Ha Hq Hv Hhx Hm. remember (c / 16)%N as q. remember (c mod 16)%N as r. clear Heqq Heqr. lia.
Qed.

Lemma size_bound c : (c < 16 ^ N.of_nat (S (N.to_nat (N.log2 c))))%N.
Proof.
  rewrite Nat2N.inj_succ, N2Nat.id.
  apply N.lt_le_trans with (2 ^ N.succ (N.log2 c))%N.
  - destruct c as [|p]; [vm_compute; reflexivity|]. apply N.log2_spec. lia.
  - apply N.pow_le_mono_l. lia.
Qed.

Lemma hexdigits_spec u c : exists h, hexdigits u c = Some h /\ (1 <= length h)%nat /\
  forallb is_hex h = true /\ (forall a, hn a h = a * 16 ^ N.of_nat (length h) + c)%N /\
  (length h = 1%nat \/ 16 ^ N.of_nat (length h - 1) <= c)%N.
Proof. exact (hex_fuel_spec u _ c (size_bound c)). Qed.

(* a code point has at most six hex digits *)
Lemma hexdigits_len u c h : (c <= maxunicode)%N -> hexdigits u c = Some h -> (length h <= 6)%nat.
Proof.
  intros Hc Hh. destruct (hexdigits_spec u c) as (h' & H1 & H2 & H3 & H4 & H5).
  rewrite Hh in H1. injection H1 as <-.
  destruct H5 as [H5|H5]; [lia|].
  destruct (Nat.le_gt_cases (length h) 6) as [|Hgt]; [assumption|exfalso].
  assert (16 ^ 6 <= 16 ^ N.of_nat (length h - 1))%N by (apply N.pow_le_mono_r; lia).
  unfold maxunicode in Hc. change (16 ^ 6)%N with 16777216%N in *. lia.
Qed.

Lemma hexdigits_value u c h : hexdigits u c = Some h -> hex_num (h ++ [32%N]) = c.
Proof.
  intros Hh. destruct (hexdigits_spec u c) as (h' & H1 & H2 & H3 & H4 & H5).
  rewrite Hh in H1. injection H1 as <-.
  rewrite hex_num_hn. unfold hn. rewrite fold_left_app. simpl. fold (hn 0 h). rewrite H4.
  unfold hstep. simpl. lia.
Qed.

(* ------------------------------------------------------------------ the handler's text *)
Lemma map_upper_hex : forall f c acc h, hex_fuel f false c acc = Some h ->
  (forall x, In x acc -> exists d, (d < 16)%N /\ x = hexdigit false d) ->
  hex_fuel f true c (map upper_ascii acc) = Some (map upper_ascii h).
Proof.
  induction f as [|f IH]; intros c acc h H Hacc; [discriminate|].
  rewrite hex_fuel_S in *. destruct (N.ltb_spec c 16) as [Hlt|Hge].
  - injection H as <-. simpl. f_equal. f_equal.
    symmetry. apply (hexdigit_cases true c Hlt).
  - assert (Hm : (c mod 16 < 16)%N) by (apply N.mod_lt; lia).
    apply IH in H.
    + simpl in H. destruct (hexdigit_cases true _ Hm) as (_ & _ & Hu). rewrite Hu in H. exact H.
    + intros x [<-|Hx]; [eauto|auto].
Qed.

Lemma esc_shape c : exists h, hexdigits true c = Some h /\ esc c = Some (92%N :: h ++ [32%N]).
Proof.
  destruct (hexdigits_spec false c) as (h & Hh & _).
  exists (map upper_ascii h). split.
  - unfold hexdigits in *. apply (map_upper_hex _ _ [] h Hh). intros x [].
  - unfold esc, py_hex. rewrite Hh. reflexivity.
Qed.

Lemma esc_or_nil_shape c : exists h, hexdigits true c = Some h /\ esc_or_nil c = 92%N :: h ++ [32%N].
Proof. destruct (esc_shape c) as (h & H1 & H2). exists h. unfold esc_or_nil. now rewrite H2. Qed.

(* ------------------------------------------------------------------ the escape is matched whole *)
Lemma rep_cls_run {R} rs (k : cont R) v x rest : in_ranges x rs = false ->
  forall h fuel lo hi prev,
  forallb (fun c => in_ranges c rs) h = true ->
  (length h <= hi)%nat -> (lo <= length h)%nat -> (length h < fuel)%nat ->
  (forall p, k p (x :: rest) = Some v) ->
  rep_iter (m (Cls false rs)) k fuel lo (Some hi) prev (h ++ x :: rest) = Some v.
Proof.
  intros Hx. set (ma := m (R:=R) (Cls false rs)).
  assert (Hma : forall p d t kk, ma p (d :: t) kk = if in_ranges d rs then kk (Some d) t else None).
  { intros p d t kk. unfold ma. cbn [m xorb]. destruct (in_ranges d rs); reflexivity. }
  induction h as [|d h IH]; intros fuel lo hi prev Hh Hhi Hlo Hf Hk.
  - destruct fuel as [|f]; [simpl in Hf; lia|]. simpl in Hlo. assert (lo = O) by lia. subst lo.
    cbn [rep_iter app]. destruct hi as [|hi]; [apply Hk|].
    rewrite Hma, Hx. apply Hk.
  - destruct fuel as [|f]; [simpl in Hf; lia|]. simpl in Hhi, Hlo, Hf.
    destruct hi as [|hi]; [lia|].
    simpl in Hh. apply andb_true_iff in Hh as [Hd Hh].
    cbn [rep_iter]. rewrite <- app_comm_cons. rewrite Hma, Hd.
    assert (Hlt : Nat.ltb (length (h ++ x :: rest)) (length (d :: h ++ x :: rest)) = true)
      by (apply Nat.ltb_lt; simpl; lia).
    rewrite Hlt. cbn [option_map Nat.pred].
    rewrite (IH f (Nat.pred lo) hi (Some d) Hh); try lia; [reflexivity|exact Hk].
Qed.

Lemma is_hex_32 : is_hex 32%N = false. Proof. reflexivity. Qed.

Lemma m_cat {R} a b p t (k : cont R) : m (Cat a b) p t k = m a p t (fun p' t' => m b p' t' k).
Proof. reflexivity. Qed.
Lemma m_chr_eq {R} c p t (k : cont R) : m (Chr c) p (c :: t) k = k (Some c) t.
Proof. cbn [m]. now rewrite N.eqb_refl. Qed.
Lemma m_rep {R} a lo hi p t (k : cont R) : m (Rep a lo hi) p t k = rep_iter (m a) k (S (length t)) lo hi p t.
Proof. reflexivity. Qed.

Lemma rmatch_unicodesub_esc prev h rest :
  forallb is_hex h = true -> (1 <= length h <= 6)%nat ->
  rmatch re_unicodesub prev (92%N :: h ++ 32%N :: rest) = Some (S (S (length h))).
Proof.
  intros Hh [Hl1 Hl6]. unfold rmatch, re_unicodesub.
  rewrite m_cat, m_chr_eq, m_cat, m_rep.
  erewrite (rep_cls_run _ _ _ 32%N rest is_hex_32 h); [reflexivity|exact Hh|exact Hl6|exact Hl1|rewrite app_length; simpl; lia|intros p].
  (* the optional white space takes exactly the terminating space *)
  rewrite m_rep. cbn [rep_iter length m].
  cbn [N.eqb Pos.eqb in_ranges N.leb N.compare Pos.compare Pos.compare_cont andb orb xorb].
  assert (Hlt : Nat.ltb (length rest) (S (length rest)) = true) by (apply Nat.ltb_lt; lia).
  rewrite Hlt. cbn [option_map Nat.pred rep_iter].
  f_equal. rewrite app_length. cbn [length]. lia.
Qed.

Lemma firstn_exact {A} (a b : list A) : firstn (length a) (a ++ b) = a.
Proof. induction a; simpl; congruence. Qed.
Lemma skipn_exact {A} (a b : list A) : skipn (length a) (a ++ b) = b.
Proof. induction a; simpl; congruence. Qed.

Lemma is_hex_ascii c : is_hex c = true -> (c < 128)%N.
Proof.
  unfold is_hex, in_ranges. rewrite !orb_true_iff, !andb_true_iff, !N.leb_le. lia.
Qed.

Definition valid (t : str) : Prop := forall c, In c t -> (c <= maxunicode)%N.

(* ================================================================== one codec *)
Section CodecFacts.
  Variable encc : N -> option (list N).
  Variable dec : list N -> option str.
  Variable bom : list N.
  Variable good : N -> bool.

  Notation encodable := (encodable encc).
  Notation enc1 := (enc1 encc).
  Notation E := (escape_unenc encc).

  (* what the harness validates for every real codec it uses *)
  Definition dec_enc_text_hyp : Prop :=
    forall t, forallb (fun c => encodable c && good c) t = true -> dec (enc_strict encc bom t) = Some t.
  Definition ascii_encodable_hyp : Prop :=
    forall c, (c < 128)%N -> encodable c = true /\ good c = true.
  Definition ascii_transparent_hyp : Prop :=
    bom = [] /\ forall c, (c < 128)%N -> encc c = Some [c].

  Lemma E_cons c r : E (c :: r) = (if encodable c then [c] else esc_or_nil c) ++ E r.
  Proof. reflexivity. Qed.

  (* ---- escape_resolves ---- *)
  Lemma resolves_fuel : forall text fuel prev,
    ~ In 92%N text -> valid text -> (length (E text) < fuel)%nat ->
    sub_all_fuel fuel re_unicodesub repl prev (E text) = text.
  Proof.
    induction text as [|c r IH]; intros fuel prev Hn Hv Hf.
    - destruct fuel; reflexivity.
    - rewrite E_cons in *. destruct fuel as [|fu]; [simpl in Hf; lia|].
      assert (Hn' : ~ In 92%N r) by (intros H; apply Hn; right; exact H).
      assert (Hv' : valid r) by (intros x Hx; apply Hv; right; exact Hx).
      destruct (encodable c).
      + cbn [app] in *. cbn [sub_all_fuel].
        unfold re_unicodesub at 1. rewrite rmatch_bs_none by (intros ->; apply Hn; left; reflexivity).
        f_equal. apply IH; auto. simpl in Hf. lia.
      + destruct (esc_or_nil_shape c) as (h & Hh & Hesc). rewrite Hesc in *.
        destruct (hexdigits_spec true c) as (h' & Hh' & Hl1 & Hx & _). rewrite Hh in Hh'. injection Hh' as <-.
        assert (Hl6 : (length h <= 6)%nat) by (eapply hexdigits_len; [apply Hv; left; reflexivity|exact Hh]).
        assert (Hshape : (92%N :: h ++ [32%N]) ++ E r = 92%N :: h ++ 32%N :: E r)
          by (simpl; now rewrite <- app_assoc).
        rewrite Hshape in *. cbn [sub_all_fuel].
        rewrite (rmatch_unicodesub_esc prev h (E r) Hx (conj Hl1 Hl6)).
        replace (firstn (S (S (length h))) (92%N :: h ++ 32%N :: E r)) with (92%N :: h ++ [32%N]).
        2:{ rewrite <- Hshape. symmetry. replace (S (S (length h))) with (length (92%N :: h ++ [32%N])).
            - apply firstn_exact. - simpl. rewrite app_length. simpl. lia. }
        replace (skipn (S (S (length h))) (92%N :: h ++ 32%N :: E r)) with (E r).
        2:{ rewrite <- Hshape. symmetry. replace (S (S (length h))) with (length (92%N :: h ++ [32%N])).
            - apply skipn_exact. - simpl. rewrite app_length. simpl. lia. }
        unfold repl at 1. cbn [tl]. rewrite (hexdigits_value true c h Hh).
        assert (Hle : N.leb c maxunicode = true) by (apply N.leb_le, Hv; left; reflexivity).
        rewrite Hle. cbn [app]. f_equal. apply IH; auto.
        cbn [length] in Hf. rewrite app_length in Hf. cbn [length] in Hf. lia.
  Qed.

  Theorem escape_resolves_lemma text :
    ~ In 92%N text -> valid text -> unicodesub (E text) = text.
  Proof. intros Hn Hv. unfold unicodesub, sub_all. apply resolves_fuel; auto. Qed.

  (* ---- escapecss_decodes ---- *)
  Lemma esc_chars_ascii c x : In x (esc_or_nil c) -> (x < 128)%N.
  Proof.
    destruct (esc_or_nil_shape c) as (h & Hh & ->).
    destruct (hexdigits_spec true c) as (h' & Hh' & _ & Hx & _). rewrite Hh in Hh'. injection Hh' as <-.
    intros [<-|Hin]; [lia|]. apply in_app_or in Hin as [Hin|[<-|[]]]; [|lia].
    apply is_hex_ascii. rewrite forallb_forall in Hx. auto.
  Qed.

  Lemma esc_total c : esc c = Some (esc_or_nil c).
  Proof. destruct (esc_shape c) as (h & _ & H). unfold esc_or_nil. now rewrite H. Qed.

  Hypothesis Hasc : ascii_encodable_hyp.

  Lemma enc_char_esc_spec c :
    enc_char_esc encc c = Some (flat_map enc1 (if encodable c then [c] else esc_or_nil c)).
  Proof.
    unfold enc_char_esc. destruct (encodable c) eqn:Ec.
    - simpl. now rewrite app_nil_r.
    - rewrite esc_total.
      replace (forallb encodable (esc_or_nil c)) with true; [reflexivity|].
      symmetry. apply forallb_forall. intros x Hx. apply Hasc. eapply esc_chars_ascii; eauto.
  Qed.

  Lemma enc_body_esc_spec text : enc_body_esc encc text = Some (flat_map enc1 (E text)).
  Proof.
    induction text as [|c r IH]; [reflexivity|].
    cbn [enc_body_esc]. rewrite enc_char_esc_spec, IH, E_cons, flat_map_app. reflexivity.
  Qed.

  Lemma E_encodable_good text :
    forallb (fun c => negb (encodable c) || good c) text = true ->
    forallb (fun c => encodable c && good c) (E text) = true.
  Proof.
    induction text as [|c r IH]; intros H; [reflexivity|].
    simpl in H. apply andb_true_iff in H as [Hc Hr]. rewrite E_cons, forallb_app, (IH Hr), andb_true_r.
    destruct (encodable c) eqn:Ec.
    - simpl in *. now rewrite Ec, Hc.
    - apply forallb_forall. intros x Hx. apply esc_chars_ascii in Hx.
      destruct (Hasc x Hx) as [-> ->]. reflexivity.
  Qed.

  Hypothesis Hdec : dec_enc_text_hyp.

  Theorem escapecss_decodes_lemma text :
    forallb (fun c => negb (encodable c) || good c) text = true ->
    exists b, encode_esc encc bom text = Some b /\ dec b = Some (E text).
  Proof.
    intros Hg. unfold encode_esc. rewrite enc_body_esc_spec. cbn [option_map].
    eexists. split; [reflexivity|]. apply (Hdec (E text)). apply E_encodable_good. exact Hg.
  Qed.

  (* what the re-parse sees: decoding succeeds and the tokenizer's escape resolution gives the text back *)
  Corollary encode_decode_resolve_lemma text :
    forallb (fun c => negb (encodable c) || good c) text = true -> ~ In 92%N text -> valid text ->
    exists b u, encode_esc encc bom text = Some b /\ dec b = Some u /\ unicodesub u = text.
  Proof.
    intros Hg Hn Hv. destruct (escapecss_decodes_lemma text Hg) as (b & Hb & Hd).
    exists b, (E text). repeat split; auto. apply escape_resolves_lemma; auto.
  Qed.

  (* ---- token values: every token class whose text can carry an escaped character gives the lexeme back:
     the tokenizer's escape-resolved list, and (since fix b051860) unknown at-keywords ---- *)
  Definition carries_text (name lexeme : str) : Prop :=
    mem_str name resolved_types = true \/
    (name = s "ATKEYWORD" /\ assoc_str (normalize lexeme) atkeywords = None /\
     eqs (E lexeme) (s "@charset") = false).

  Theorem escape_value_stable_lemma name lexeme after :
    carries_text name lexeme -> ~ In 92%N lexeme -> valid lexeme ->
    finish_token name (E lexeme) after = (name, E lexeme, lexeme).
  Proof.
    intros [Hm|(-> & Hk & Hc)] Hn Hv; unfold finish_token.
    - rewrite Hm, (escape_resolves_lemma lexeme Hn Hv).
      rewrite (cleanstring_nobs lexeme Hn). now destruct (mem_str name clean_types).
    - change (mem_str (s "ATKEYWORD") resolved_types) with false.
      change (eqs (s "ATKEYWORD") (s "ATKEYWORD")) with true. cbv iota.
      unfold normalize_u. rewrite (escape_resolves_lemma lexeme Hn Hv), Hk, Hc. reflexivity.
  Qed.
End CodecFacts.


(* ================================================================== the sheet: @charset first, and detected *)
Lemma join_cons sep x r : join sep (x :: r) = x ++ match r with [] => [] | _ => sep ++ join sep r end.
Proof. destruct r; simpl; [now rewrite app_nil_r|reflexivity]. Qed.

Definition charset_text (n : str) : str := charset_fmt_pre ++ py_string n ++ charset_fmt_post.

Lemma get_set_encoding e sh : get_encoding (set_encoding e sh) = lower e.
Proof. destruct sh as [|[x|x] r]; reflexivity. Qed.

Lemma set_encoding_first e sh : exists r, set_encoding e sh = Charset (lower e) :: r.
Proof. destruct sh as [|[x|x] r]; simpl; eauto. Qed.

Theorem charset_rule_first_text_lemma e sh :
  exists rest, sheet_text (set_encoding e sh) = charset_text (lower e) ++ rest.
Proof.
  destruct (set_encoding_first e sh) as (r & ->). unfold sheet_text. cbn [map]. rewrite join_cons.
  cbn [rule_text]. eauto.
Qed.

(* ---- histories of encoding assignments: the sheet's encoding is always one that was accepted ---- *)
Definition enc_ok (usable : str -> bool) (sh : list rule) : Prop :=
  match sh with Charset n :: _ => exists e, usable e = true /\ n = lower e | _ => True end.

Lemma assign_refused usable sh e : usable e = false -> assign usable sh (Some e) = sh.
Proof. intros H. unfold assign. now rewrite H. Qed.

Definition one_charset (sh : list rule) : Prop :=
  forall r, In r (tl sh) -> match r with Charset _ => False | Other _ => True end.

Lemma assign_one_charset usable sh a : one_charset sh -> one_charset (assign usable sh a).
Proof.
  intros H. destruct a as [e|]; unfold assign.
  - destruct (usable e); [|exact H]. destruct sh as [|[n|x] r]; simpl; intros q Hq.
    + destruct Hq.
    + apply H. exact Hq.
    + destruct Hq as [<-|Hq]; [exact I|]. apply H. exact Hq.
  - destruct sh as [|[n|x] r]; try exact H. intros q Hq. apply H. simpl. destruct r; [destruct Hq|]. right. exact Hq.
Qed.

Lemma assign_ok usable sh a : one_charset sh -> enc_ok usable sh -> enc_ok usable (assign usable sh a).
Proof.
  intros H1 H. destruct a as [e|]; unfold assign.
  - destruct (usable e) eqn:E; [|exact H].
    destruct (set_encoding_first e sh) as (r & ->). simpl. eauto.
  - destruct sh as [|[n|x] r]; try exact H.
    destruct r as [|[n'|x'] r']; simpl; auto.
    exfalso. apply (H1 (Charset n')). simpl. left. reflexivity.
Qed.

Theorem history_encoding_accepted_lemma usable : forall ops sh,
  one_charset sh -> enc_ok usable sh ->
  one_charset (run_history usable sh ops) /\ enc_ok usable (run_history usable sh ops).
Proof.
  induction ops as [|a ops IH]; intros sh H1 H2; [split; assumption|].
  unfold run_history. simpl. apply IH; [apply assign_one_charset|apply assign_ok]; assumption.
Qed.

(* an encoding name as the charset rule's setter accepts them: ASCII, and none of the characters helper.string
   rewrites (quote, backslash, newline, CR, FF) *)
Definition name_char (c : N) : bool :=
  N.ltb c 128 && negb (N.eqb c 34) && negb (N.eqb c 92) && negb (N.eqb c 10) && negb (N.eqb c 13) && negb (N.eqb c 12).
Definition ascii_name (n : str) : bool := forallb name_char n.

Lemma name_char_facts c : name_char c = true ->
  (c < 128)%N /\ N.eqb c 34 = false /\ N.eqb c 92 = false /\ N.eqb c 10 = false /\ N.eqb c 13 = false /\ N.eqb c 12 = false.
Proof.
  unfold name_char. rewrite !andb_true_iff, !negb_true_iff, N.ltb_lt. tauto.
Qed.

(* helper.string (the regenerated three-state writer) leaves such a name alone and puts it between quotes *)
Lemma hstring_name n : ascii_name n = true -> hstring n = 34%N :: n ++ [34%N].
Proof.
  intros H. unfold hstring. change str_fmt_pre with [34%N]. change str_fmt_post with [34%N]. cbn [app]. f_equal. f_equal.
  induction n as [|c r IH]; [reflexivity|]. simpl in H. apply andb_true_iff in H as [Hc Hr].
  destruct (name_char_facts c Hc) as (_ & H34 & H92 & H10 & H13 & H12).
  cbn [hstringc_loop]. unfold str_bs. rewrite H92. unfold Gen.Quote.str_plain, str_quote. rewrite H34.
  unfold str_newlines. cbn [str_assoc]. rewrite (N.eqb_sym 10 c), (N.eqb_sym 13 c), (N.eqb_sym 12 c), H10, H13, H12.
  cbn [app]. now rewrite (IH Hr).
Qed.

Lemma until_quote_name n rest : ascii_name n = true -> until_quote (n ++ 34%N :: rest) = Some n.
Proof.
  induction n as [|c n IH]; intros H; [reflexivity|].
  simpl in H. apply andb_true_iff in H as [Hc Hn]. destruct (name_char_facts c Hc) as (_ & Hq & _).
  simpl. rewrite Hq. now rewrite (IH Hn).
Qed.

(* the serializer's at-charset text plus helper.string's opening quote is exactly the prefix the codec looks for *)
Lemma serializer_prefix_is_codec_prefix : charset_fmt_pre ++ str_fmt_pre = codec_charset_prefix.
Proof. reflexivity. Qed.

Lemma charset_text_shape n : ascii_name n = true ->
  charset_text n = codec_charset_prefix ++ n ++ 34%N :: charset_fmt_post.
Proof.
  intros Hn. unfold charset_text, py_string. rewrite (hstring_name n Hn), <- serializer_prefix_is_codec_prefix.
  change str_fmt_pre with [34%N]. cbn [app]. rewrite <- !app_assoc. reflexivity.
Qed.

Lemma detect_charset_text n rest : ascii_name n = true ->
  detect_charset (charset_text n ++ rest) = Some n.
Proof.
  intros Hn. unfold detect_charset. rewrite (charset_text_shape n Hn), <- app_assoc.
  replace (starts codec_charset_prefix (codec_charset_prefix ++ (n ++ 34%N :: charset_fmt_post) ++ rest)) with true
    by (symmetry; apply starts_spec; eauto).
  rewrite skipn_exact, <- app_assoc. cbn [app]. apply until_quote_name. exact Hn.
Qed.

Section Transparent.
  Variable encc : N -> option (list N).
  Hypothesis Htr : forall c, (c < 128)%N -> encc c = Some [c].

  Lemma enc_body_ascii a t : forallb (fun c => N.ltb c 128) a = true ->
    enc_body_esc encc (a ++ t) = option_map (app a) (enc_body_esc encc t).
  Proof.
    induction a as [|c a IH]; intros H.
    - cbn [app]. destruct (enc_body_esc encc t); reflexivity.
    - simpl in H. apply andb_true_iff in H as [Hc Ha]. apply N.ltb_lt in Hc.
      cbn [app enc_body_esc]. rewrite (IH Ha). unfold enc_char_esc, encodable, EscapeEnc.enc1. rewrite (Htr c Hc).
      destruct (enc_body_esc encc t); reflexivity.
  Qed.

  Lemma charset_text_ascii n : ascii_name n = true -> forallb (fun c => N.ltb c 128) (charset_text n) = true.
  Proof.
    intros Hn. rewrite (charset_text_shape n Hn), !forallb_app. cbn [forallb].
    replace (forallb (fun c => N.ltb c 128) n) with true.
    - reflexivity.
    - symmetry. apply forallb_forall. intros x Hx. unfold ascii_name in Hn. rewrite forallb_forall in Hn.
      apply Hn, name_char_facts in Hx. apply N.ltb_lt. tauto.
  Qed.

  (* "begins with an @charset rule naming it whenever one is set", and the css codec reads that name back *)
  Theorem charset_rule_first_lemma e sh b :
    ascii_name (lower e) = true ->
    encode_esc encc [] (sheet_text (set_encoding e sh)) = Some b ->
    (exists rest, b = charset_text (lower e) ++ rest) /\ detect_charset b = Some (get_encoding (set_encoding e sh)).
  Proof.
    intros Hn Hb. destruct (charset_rule_first_text_lemma e sh) as (rest & Ht). rewrite Ht in Hb.
    unfold encode_esc in Hb. rewrite (enc_body_ascii _ _ (charset_text_ascii _ Hn)) in Hb.
    destruct (enc_body_esc encc rest) as [r|]; [|discriminate]. unfold option_map in Hb. rewrite app_nil_l in Hb. assert (Hb2 : charset_text (lower e) ++ r = b) by congruence. subst b.
    split; [eauto|]. rewrite get_set_encoding. apply detect_charset_text. exact Hn.
  Qed.
End Transparent.

(* ================================================================== closed instances: the ascii codec *)
Lemma ascii_hyps : dec_enc_text_hyp ascii_encc ascii_dec [] (fun _ => true) /\
                   ascii_encodable_hyp ascii_encc (fun _ => true) /\ ascii_transparent_hyp ascii_encc [].
Proof.
  assert (Htr : forall c, (c < 128)%N -> ascii_encc c = Some [c]).
  { intros c Hc. unfold ascii_encc. apply N.ltb_lt in Hc. now rewrite Hc. }
  split; [|split; [|split; [reflexivity|exact Htr]]].
  - intros t Ht. unfold enc_strict, ascii_dec. cbn [app].
    assert (H : flat_map (enc1 ascii_encc) t = t /\ forallb (fun c => N.ltb c 128) t = true).
    { induction t as [|c r IH]; [split; reflexivity|]. simpl in Ht. apply andb_true_iff in Ht as [Hc Hr].
      destruct (IH Hr) as [I1 I2]. rewrite andb_true_r in Hc. unfold encodable, ascii_encc in Hc.
      destruct (N.ltb c 128) eqn:E; [|discriminate]. simpl. unfold enc1 at 1, ascii_encc at 1. rewrite E.
      simpl. rewrite I1, I2. split; reflexivity. }
    destruct H as [-> ->]. reflexivity.
  - intros c Hc. unfold encodable. rewrite (Htr c Hc). split; reflexivity.
Qed.

(* the at-rule of finding C13-atkeyword-unresolved (fixed by b051860), through the whole tokenizer *)
Lemma atkeyword_tokens_stable_ex :
  let text := ([64; 233] ++ s " x;@x{@" ++ [1076] ++ s "a y;}")%N in
  option_map (map (fun t => (ty t, val t))) (tokenize true true (escape_unenc ascii_encc text)) =
  option_map (map (fun t => (ty t, val t))) (tokenize true true text).
Proof. vm_compute. reflexivity. Qed.
