(* Atomic.v -- C19: commit/raise scripts of the text setters and the `atomic` analysis.

   A setter of the object model is abstracted to a `script`: the order in which it
   (a) may reject (Check / CheckRO / CallTemp) and (b) writes to the object itself (WriteSelf f).
   The scripts are generated from the Python AST by translate/scripts.py (Gen/Scripts.v).

     Check        self._log.error/warn/info(...) without neverraise=True, or `raise` : may raise
     CheckRO      self._checkReadonly(): raises iff the (constant) readonly flag of the object is set
     CallTemp     constructor / setter / parser call on a temporary: may raise, does not touch self
     WriteSelf f  assignment to an attribute of self (or call of a reviewed self-mutating method)
     If a b       alternatives (conditions are not modelled: both arms are possible)
     Loop a       zero or more iterations of a (for/while)
     Break        break/continue: abandons the rest of the loop body
     Return       return: abandons the rest of the enclosing Scope
     Scope a      an inlined function body (Return stops here)

   Semantics: big-step evaluation  exec ro s (ws, o)  -- running s on an object whose readonly flag
   is `ro` may write exactly the fields ws (in order) and end with outcome o.  Deviation from
   DESIGN.md (which says small-step): the big-step relation describes the same finite executions and a
   raising execution is finite, so nothing is lost for the property.                              *)
From CssV Require Import Base.
Open Scope string_scope.
Open Scope list_scope.

Definition field := string.

Inductive script :=
| Skip | Check | CheckRO | CallTemp | Return | Break
| WriteSelf (f : field)
| Seq (a b : script) | If (a b : script) | Loop (a : script) | Scope (a : script).

Inductive outcome := ONormal | OBreak | OReturn | ORaise.

Definition run := (list field * outcome)%type.
Definition written (r : run) : list field := fst r.
Definition raises (r : run) : Prop := snd r = ORaise.

Inductive exec (ro : bool) : script -> run -> Prop :=
| ESkip : exec ro Skip ([], ONormal)
| ECheckPass : exec ro Check ([], ONormal)
| ECheckRaise : exec ro Check ([], ORaise)
| ECheckRO : exec ro CheckRO ([], if ro then ORaise else ONormal)
| ECallPass : exec ro CallTemp ([], ONormal)
| ECallRaise : exec ro CallTemp ([], ORaise)
| EReturn : exec ro Return ([], OReturn)
| EBreak : exec ro Break ([], OBreak)
| EWrite f : exec ro (WriteSelf f) ([f], ONormal)
| ESeqStop a b ws o : exec ro a (ws, o) -> o <> ONormal -> exec ro (Seq a b) (ws, o)
| ESeq a b ws1 ws2 o : exec ro a (ws1, ONormal) -> exec ro b (ws2, o) -> exec ro (Seq a b) (ws1 ++ ws2, o)
| EIfL a b r : exec ro a r -> exec ro (If a b) r
| EIfR a b r : exec ro b r -> exec ro (If a b) r
| ELoopDone a : exec ro (Loop a) ([], ONormal)
| ELoopBreak a ws : exec ro a (ws, OBreak) -> exec ro (Loop a) (ws, ONormal)
| ELoopStop a ws o : exec ro a (ws, o) -> o = OReturn \/ o = ORaise -> exec ro (Loop a) (ws, o)
| ELoopStep a ws1 ws2 o o1 : exec ro a (ws1, o1) -> o1 = ONormal \/ o1 = OBreak ->
                             exec ro (Loop a) (ws2, o) -> exec ro (Loop a) (ws1 ++ ws2, o)
| EScopeRet a ws : exec ro a (ws, OReturn) -> exec ro (Scope a) (ws, ONormal)
| EScope a ws o : exec ro a (ws, o) -> o <> OReturn -> exec ro (Scope a) (ws, o).

(* ---------------------------------------------------------------- the analysis
   eff ro s : for each outcome, None = not reachable, Some fs = reachable and every execution with that
   outcome has written only fields of fs.  (Writes only accumulate, so the may-set of a state is empty
   exactly when every path to it is Clean: this is the two-point Clean/Dirty interpretation of the
   design, refined to name the fields.)                                                           *)
Record res := mkres { rN : option (list field); rB : option (list field);
                      rR : option (list field); rX : option (list field) }.

Fixpoint memf (f : field) (l : list field) : bool :=
  match l with [] => false | x :: r => String.eqb x f || memf f r end.

Fixpoint union (a b : list field) : list field :=
  match a with
  | [] => b
  | x :: r => if memf x b then union r b else x :: union r b
  end.

Definition join (a b : option (list field)) : option (list field) :=
  match a, b with
  | None, x => x
  | x, None => x
  | Some x, Some y => Some (union x y)
  end.

Definition after (pre : list field) (a : option (list field)) : option (list field) :=
  match a with None => None | Some x => Some (union pre x) end.

Definition sel (o : outcome) (r : res) : option (list field) :=
  match o with ONormal => rN r | OBreak => rB r | OReturn => rR r | ORaise => rX r end.

Definition seq_res (ra rb : res) : res :=
  match rN ra with
  | None => mkres None (rB ra) (rR ra) (rX ra)
  | Some pre => mkres (after pre (rN rb)) (join (rB ra) (after pre (rB rb)))
                      (join (rR ra) (after pre (rR rb))) (join (rX ra) (after pre (rX rb)))
  end.

Fixpoint eff (ro : bool) (s : script) : res :=
  match s with
  | Skip => mkres (Some []) None None None
  | Check | CallTemp => mkres (Some []) None None (Some [])
  | CheckRO => if ro then mkres None None None (Some []) else mkres (Some []) None None None
  | Return => mkres None None (Some []) None
  | Break => mkres None (Some []) None None
  | WriteSelf f => mkres (Some [f]) None None None
  | Seq a b => seq_res (eff ro a) (eff ro b)
  | If a b => let ra := eff ro a in let rb := eff ro b in
              mkres (join (rN ra) (rN rb)) (join (rB ra) (rB rb)) (join (rR ra) (rR rb)) (join (rX ra) (rX rb))
  | Loop a => let ra := eff ro a in
              (* fields that completed iterations may have written *)
              let it := match join (rN ra) (rB ra) with None => [] | Some x => x end in
              mkres (Some it) None (after it (rR ra)) (after it (rX ra))
  | Scope a => let ra := eff ro a in mkres (join (rN ra) (rR ra)) (rB ra) None (rX ra)
  end.

Definition clean (a : option (list field)) : bool :=
  match a with None => true | Some [] => true | Some (_ :: _) => false end.

(* no execution writes to the object and then raises, whatever the readonly flag *)
Definition atomic (s : script) : bool := clean (rX (eff false s)) && clean (rX (eff true s)).

(* the fields a rejected assignment may have touched / a completed assignment may have touched *)
Definition fields_of (a : option (list field)) : list field := match a with None => [] | Some x => x end.
Definition raise_fields (s : script) : list field :=
  union (fields_of (rX (eff false s))) (fields_of (rX (eff true s))).
Definition normal_fields (s : script) : list field :=
  let r := eff false s in union (fields_of (rN r)) (fields_of (rR r)).
Definition can_raise (s : script) : bool :=
  match rX (eff false s), rX (eff true s) with None, None => false | _, _ => true end.

(* summary used by the correspondence: (atomic?, may raise?, fields before a raise, fields on success) *)
Definition summary (s : script) := (atomic s, can_raise s, raise_fields s, normal_fields s).
