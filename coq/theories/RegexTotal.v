(* RegexTotal.v -- a syntactic sufficient condition for "this expression matches
   every text (beginning with c)" -- used to show that some production always
   matches, hence that the tokenizer loop never gets stuck.                  *)
From CssV Require Import Base Regex RegexFacts.

Definition ktotal {R} (k : cont R) : Prop := forall p t, exists v, k p t = Some v.

(* matches whatever the input is *)
Fixpoint total0 (r : re) : bool :=
  match r with
  | Eps => true
  | Rep _ O _ => true
  | Cat a b => total0 a && total0 b
  | Alt a b => total0 a || total0 b
  | _ => false
  end.

(* matches every input that starts with c *)
Fixpoint total1 (r : re) (c : N) : bool :=
  match r with
  | Chr x => N.eqb c x
  | NotChr x => negb (N.eqb c x)
  | Any => negb (N.eqb c 10)
  | Cls neg rs => xorb neg (in_ranges c rs)
  | Cat a b => (total1 a c || total0 a) && total0 b
  | Alt a b => total1 a c || total1 b c
  | Rep _ O _ => true
  | Eps => true
  | _ => false
  end.

Lemma rep_iter_total {R} (ma : matcher R) k fuel hi p t :
  ktotal k -> exists v, rep_iter ma k (S fuel) O hi p t = Some v.
Proof.
  intros Hk. cbn [rep_iter].
  match goal with |- exists v, match ?more with _ => _ end = _ => destruct more as [v0|] end.
  - eauto.
  - apply Hk.
Qed.

Lemma total0_sound {R} r : total0 r = true ->
  forall p t (k : cont R), ktotal k -> exists v, m r p t k = Some v.
Proof.
  induction r as [|c|c| |neg rs|a IHa b IHb|a IHa b IHb|a IHa lo hi|a IHa lo hi|c|c|c| |];
    cbn [total0]; intros H p t k Hk; try discriminate.
  - apply Hk.
  - apply andb_true_iff in H as [Ha Hb]. cbn [m]. apply IHa; auto.
    intros p' t'. apply IHb; auto.
  - cbn [m]. apply orb_true_iff in H as [Ha|Hb].
    + destruct (IHa Ha p t k Hk) as [v Hv]. rewrite Hv. eauto.
    + destruct (m a p t k) as [v|]; [eauto|]. apply IHb; auto.
  - destruct lo; [|discriminate]. cbn [m]. apply rep_iter_total; auto.
Qed.

Lemma total1_sound {R} r c : total1 r c = true ->
  forall p t (k : cont R), ktotal k -> exists v, m r p (c :: t) k = Some v.
Proof.
  induction r as [|x|x| |neg rs|a IHa b IHb|a IHa b IHb|a IHa lo hi|a IHa lo hi|x|x|x| |];
    cbn [total1]; intros H p t k Hk; try discriminate; cbn [m].
  - apply Hk.
  - rewrite H. apply Hk.
  - apply negb_true_iff in H. rewrite H. apply Hk.
  - apply negb_true_iff in H. rewrite H. apply Hk.
  - rewrite H. apply Hk.
  - apply andb_true_iff in H as [Ha Hb]. apply orb_true_iff in Ha as [Ha|Ha].
    + apply IHa; auto. intros p' t'. apply total0_sound; auto.
    + apply total0_sound; auto. intros p' t'. apply total0_sound; auto.
  - apply orb_true_iff in H as [Ha|Hb].
    + destruct (IHa Ha p t k Hk) as [v Hv]. rewrite Hv. eauto.
    + destruct (m a p (c :: t) k) as [v|]; [eauto|]. apply IHb; auto.
  - destruct lo; [|discriminate]. apply rep_iter_total; auto.
Qed.

Lemma rmatch_total1 r c p t : total1 r c = true -> exists n, rmatch r p (c :: t) = Some n.
Proof. intros H. unfold rmatch. apply total1_sound; auto. intros p' t'. eauto. Qed.
