(* Upto.v -- hand-written model of css_parser.util.Base._tokensupto2 (util.py:287-401)
   over the tokens of the shared tokenizer model (CssV.Tokenizer.tok).
   Definitions only; proofs are in UptoFacts.v.  Line references: /repo/src/css_parser/util.py.

   The model follows the repaired code (fix: "_tokensupto2 counts a FUNCTION start token as an
   opening parenthesis": `start_count` has the FUNCTION disjunct; fix: "_tokensupto2 never takes an
   IDENT for a bracket or an end character": the `is_ident` guards).  `start_count_pinned` is the
   accounting of the pinned tree (kept for the refutation witness in UptoFacts).            *)
From CssV Require Import Base Tokenizer Gen.UptoGen.
Open Scope Z_scope.

(* the keyword flags; FDefault = no flag given (ends ';}')                                  *)
Inductive uptoflag :=
| FDefault | FBlockStart | FBlockEnd | FMediaEnd | FImportMQEnd | FMQEnd | FSemicolon
| FPropName | FPropValue | FPropPriority | FSelAttEnd | FFuncEnd | FListSep.

Definition counters := (Z * Z * Z)%type.        (* brace, bracket, parant *)

(* what the if/elif ladder l.310-349 computes: ends, endtypes, initial counters, and whether
   the mediaqueryendonly special case of l.389-392 is armed                                  *)
Record mode := mkMode { ends : str; endtypes : list str; c0 : counters; mq : bool }.

(* the Python keyword of a flag; the table rows come from Gen/UptoGen.v (translate/upto.py reads them off
   the if/elif ladder of the current source), so `mode_of` is generated data: a changed `ends`, `endtypes`
   or initial counter changes the term the theorems compute with                                        *)
Definition flag_name (fl : uptoflag) : str :=
  match fl with
  | FDefault => []
  | FBlockStart => s "blockstartonly" | FBlockEnd => s "blockendonly" | FMediaEnd => s "mediaendonly"
  | FImportMQEnd => s "importmediaqueryendonly" | FMQEnd => s "mediaqueryendonly" | FSemicolon => s "semicolon"
  | FPropName => s "propertynameendonly" | FPropValue => s "propertyvalueendonly"
  | FPropPriority => s "propertypriorityendonly" | FSelAttEnd => s "selectorattendonly"
  | FFuncEnd => s "funcendonly" | FListSep => s "listseponly"
  end.

Definition all_flags : list uptoflag :=
  [FBlockStart; FBlockEnd; FMediaEnd; FImportMQEnd; FMQEnd; FSemicolon; FPropName; FPropValue; FPropPriority;
   FSelAttEnd; FFuncEnd; FListSep].

Fixpoint assoc_s {A} (x : str) (l : list (str * A)) : option A :=
  match l with [] => None | (k, v) :: r => if eqs k x then Some v else assoc_s x r end.

Definition mk_mode (row : str * list str * (Z * Z * Z)) (is_mq : bool) : mode :=
  let '(e, et, c) := row in mkMode e et c is_mq.

Definition mode_of (fl : uptoflag) (start : option tok) : mode :=
  match fl with
  | FDefault => mk_mode gen_default_mode false
  | _ =>
    let n := flag_name fl in
    match assoc_s n gen_modes with
    | None => mk_mode gen_default_mode false      (* excluded by UptoFacts.flags_generated *)
    | Some row =>
      let md := mk_mode row (eqs n gen_mq_flag) in
      match assoc_s n gen_selatt, start with                                (* l.341-344 *)
      | Some (ch, d), Some t =>
        if eqs (val t) ch then mkMode (ends md) (endtypes md) (let '(br, _, pa) := c0 md in (br, d, pa)) (mq md)
        else md
      | _, _ => md
      end
    end
  end.

(* Python  `x in y`  for two strings: substring test ('' in y is True)                    *)
Fixpoint is_sub (pat text : str) : bool :=
  starts pat text || match text with [] => false | _ :: r => is_sub pat r end.

Definition is_eof (t : tok) : bool := eqs (ty t) (s "EOF").
(* fix "never takes an IDENT for a bracket or an end character": for an IDENT token `val` is None *)
Definition is_ident (t : tok) : bool := eqs (ty t) (s "IDENT").
Definition is_function (t : tok) : bool := eqs (ty t) (s "FUNCTION").

(* l.352-360: accounting of the start token (closing brackets are NOT counted here) *)
Definition start_count (c : counters) (t : tok) : counters :=
  let '(br, bk, pa) := c in
  let v := val t in
  if is_ident t then c
  else if eqs v (s "[") then (br, bk + 1, pa)
  else if eqs v (s "{") then (br + 1, bk, pa)
  else if eqs v (s "(") || is_function t then (br, bk, pa + 1)
  else c.

Definition start_count_pinned (c : counters) (t : tok) : counters :=
  let '(br, bk, pa) := c in
  let v := val t in
  if eqs v (s "[") then (br, bk + 1, pa)
  else if eqs v (s "{") then (br + 1, bk, pa)
  else if eqs v (s "(") then (br, bk, pa + 1)
  else c.

(* l.369-382 *)
Definition bump (c : counters) (t : tok) : counters :=
  let '(br, bk, pa) := c in
  let v := val t in
  if is_ident t then c
  else if eqs v (s "{") then (br + 1, bk, pa)
  else if eqs v (s "}") then (br - 1, bk, pa)
  else if eqs v (s "[") then (br, bk + 1, pa)
  else if eqs v (s "]") then (br, bk - 1, pa)
  else if eqs v (s "(") || is_function t then (br, bk, pa + 1)
  else if eqs v (s ")") then (br, bk, pa - 1)
  else c.

Definition shift (k : nat) (d : Z) (c : counters) : counters :=
  let '(br, bk, pa) := c in
  match k with O => (br + d, bk, pa) | S O => (br, bk + d, pa) | _ => (br, bk, pa + d) end.

(* reading of a generated if/elif chain of bracket tests (Gen/UptoGen.v) *)
Fixpoint ladder_apply (l : list (str * bool * nat * Z)) (v : str) (isfn : bool) (c : counters) : counters :=
  match l with
  | [] => c
  | (ch, fn, k, d) :: r => if eqs v ch || (fn && isfn) then shift k d c else ladder_apply r v isfn c
  end.

Definition zero (c : counters) : bool :=
  let '(br, bk, pa) := c in Z.eqb br 0 && Z.eqb bk 0 && Z.eqb pa 0.

(* `val in ends or typ in endtypes` *)
Definition isendtok (md : mode) (t : tok) : bool :=
  (negb (is_ident t) && is_sub (val t) (ends md)) || mem_str (ty t) (endtypes md).

(* l.386-392, evaluated after the counters were updated with the token *)
Definition stops (md : mode) (c : counters) (t : tok) : bool :=
  (zero c && isendtok md t)
  || (mq md && (let '(br, bk, pa) := c in Z.eqb br (-1) && Z.eqb bk 0 && Z.eqb pa 0)
      && mem_str (ty t) (endtypes md)).

(* l.363-392: (tokens appended to resulttokens, tokens left in the generator) *)
Fixpoint upto_loop (md : mode) (c : counters) (ts : list tok) : list tok * list tok :=
  match ts with
  | [] => ([], [])
  | t :: r =>
    if is_eof t then ([t], r)                                              (* l.365-367 *)
    else
      let c' := bump c t in
      if stops md c' t then ([t], r)
      else let '(run, rest) := upto_loop md c' r in (t :: run, rest)
  end.

Definition upto_md (md : mode) (sc : counters -> tok -> counters) (start : option tok)
           (ts : list tok) : list tok * list tok :=
  match start with
  | Some t => let '(run, rest) := upto_loop md (sc (c0 md) t) ts in (t :: run, rest)
  | None => upto_loop md (c0 md) ts
  end.

(* _tokensupto2(tokenizer, starttoken, <flag>=True)  ->  (resulttokens, what is left) *)
Definition upto (fl : uptoflag) (start : option tok) (ts : list tok) : list tok * list tok :=
  upto_md (mode_of fl start) start_count start ts.

Definition upto_pinned (fl : uptoflag) (start : option tok) (ts : list tok) :=
  upto_md (mode_of fl start) start_count_pinned start ts.

(* separateEnd=True (l.393-398): (resulttokens[:-1], resulttokens[-1]) *)
Definition separate_end (run : list tok) : list tok * option tok :=
  match run with
  | [] => ([], None)
  | x :: r => (removelast run, Some (last r x))
  end.

(* ---- boolean view used by the theorems: the loop neither stops nor meets EOF inside ts *)
Fixpoint closed (md : mode) (c : counters) (ts : list tok) : bool :=
  match ts with
  | [] => true
  | t :: r => negb (is_eof t) && negb (stops md (bump c t) t) && closed md (bump c t) r
  end.

Definition after (c : counters) (ts : list tok) : counters := fold_left bump ts c.

(* ---- the token-soup grammar of the theorems -------------------------------------------
   How the counters see a token (same ladder as `bump`): k = 0 brace, 1 bracket, 2 parenthesis *)
Inductive bclass := BOpen (k : nat) | BClose (k : nat) | BAtom.

Definition bclass_of (t : tok) : bclass :=
  let v := val t in
  if is_ident t then BAtom
  else if eqs v (s "{") then BOpen 0
  else if eqs v (s "}") then BClose 0
  else if eqs v (s "[") then BOpen 1
  else if eqs v (s "]") then BClose 1
  else if eqs v (s "(") || is_function t then BOpen 2
  else if eqs v (s ")") then BClose 2
  else BAtom.

(* Balanced token soup: atoms, ( B ), [ B ], { B }, FUNCTION B ), closed under concatenation
   (UptoFacts.Balanced_app); EOF tokens never occur.  Right-nested presentation.            *)
Inductive Balanced : list tok -> Prop :=
| Bal_nil : Balanced []
| Bal_atom t x : bclass_of t = BAtom -> is_eof t = false -> Balanced x -> Balanced (t :: x)
| Bal_group o b c x k :
    bclass_of o = BOpen k -> bclass_of c = BClose k -> is_eof o = false -> is_eof c = false ->
    Balanced b -> Balanced x -> Balanced (o :: b ++ c :: x).

(* balanced soup with no end token of mode md at nesting depth 0 (a top-level group whose
   closer is an end token -- '}' in the default mode -- counts as a top-level end)           *)
Inductive TopFree (md : mode) : list tok -> Prop :=
| TF_nil : TopFree md []
| TF_atom t x : bclass_of t = BAtom -> is_eof t = false -> isendtok md t = false ->
                TopFree md x -> TopFree md (t :: x)
| TF_group o b c x k :
    bclass_of o = BOpen k -> bclass_of c = BClose k -> is_eof o = false -> is_eof c = false ->
    Balanced b -> isendtok md c = false -> TopFree md x -> TopFree md (o :: b ++ c :: x).

(* one complete statement / declaration as mode md delimits it: a non-empty top-free run
   closed by an end token (';'), or a top-free run followed by a group whose closer is an end
   token ('{ B }' in the default mode)                                                        *)
Inductive StmtRun (md : mode) : list tok -> Prop :=
| SR_end pre e : TopFree md pre -> pre <> [] -> is_eof e = false -> bclass_of e = BAtom ->
                 isendtok md e = true -> StmtRun md (pre ++ [e])
| SR_block pre o b c k :
    TopFree md pre -> bclass_of o = BOpen k -> bclass_of c = BClose k -> is_eof o = false ->
    is_eof c = false -> Balanced b -> isendtok md c = true -> StmtRun md (pre ++ o :: b ++ [c]).

(* balanced soup in front of the first top-level '{' (modes whose brace counter starts at -1: blockstartonly,
   mediaqueryendonly): atoms on which the loop does not stop at the initial counters (for mediaqueryendonly: no
   STRING token at depth 0), and ( ) / [ ] groups; a { } group at depth 0 would be the end                    *)
Inductive PreBrace (md : mode) : list tok -> Prop :=
| PB_nil : PreBrace md []
| PB_atom t x : bclass_of t = BAtom -> is_eof t = false -> stops md (c0 md) t = false ->
                PreBrace md x -> PreBrace md (t :: x)
| PB_group o b c x k :
    bclass_of o = BOpen (S k) -> bclass_of c = BClose (S k) -> is_eof o = false -> is_eof c = false ->
    Balanced b -> stops md (c0 md) c = false -> PreBrace md x -> PreBrace md (o :: b ++ c :: x).

Definition flag_of_nat (n : nat) : uptoflag :=
  match n with
  | 0 => FDefault | 1 => FBlockStart | 2 => FBlockEnd | 3 => FMediaEnd | 4 => FImportMQEnd
  | 5 => FMQEnd | 6 => FSemicolon | 7 => FPropName | 8 => FPropValue | 9 => FPropPriority
  | 10 => FSelAttEnd | 11 => FFuncEnd | _ => FListSep
  end%nat.
