(* OutModelPP.v -- property C05: the hypothesis `reparse_faithful` of prefs_preserve_meaning, discharged for a fragment.
   The abstract re-parse of props/C05.v is instantiated with the EXECUTABLE parse of the framework
       tokenize (Tokenizer.v)  ->  skeleton (Skeleton.v)  ->  build_item with the ProdParser engine's value builder
       (ProdParserValue.build_valuex) and media builder (GrammarPP.build_media_pp)
   i.e. the parse for which C02 proves parse_faithful_pp with no handler hypothesis, and the abstract filter_model with
   Grammar.expected_model / expected_model_nocomments of C02's sheet pp_sheet (a comment, a rule set with a two-selector
   group and three declarations -- ident, signed number, string, !important, dimension / percentage, rgb(), url(), hash --,
   an @media rule with a two-query media list containing a rule set and a nested @media).
   Fragment: that sheet, written by the serializer skeleton do_sheet, under EVERY preference record of frag_prefs
   (146 records: both presets; every combination of spacer (= paranthesisSpacer), listItemSpacer, propertyNameSpacer,
   selectorCombinatorSpacer '' or ' ' x lineSeparator '\n' '' ' ' x
   keepComments; indent 4 blanks / none x omitLastSemicolon x indentClosingBrace x lineSeparator with all spacers ' ' / '').  The piece texts (selector, value, media
   query) are spelled with the record's own spacers the way Out.append does. *)
From CssV Require Import Base Regex Tokenizer Grammar GrammarFacts ProdParserValue GrammarPP.
From CssV Require Import Gen.Prefs OutModel OutFacts.

Definition parse_model_pp (t : str) : option js :=
  match tokenize true true t with
  | Some toks =>
    Some (JL (map (build_item ProdParserValue.build_valuex build_media_pp (fun _ _ => JL []) 2 [])
                  (Skeleton.skeleton toks)))
  | None => None
  end.

Definition filter_model_pp (p : prefs) : js :=
  if p.(keepComments) then expected_model pp_sheet else expected_model_nocomments pp_sheet.

(* pp_sheet as the serializer skeleton sees it *)
Definition pp_sel (p : prefs) : str :=
  s "a.b" ++ p.(selectorCombinatorSpacer) ++ s ">" ++ p.(selectorCombinatorSpacer) ++ s "#i".
Definition pp_props (p : prefs) : list ditem :=
  [DProp (mkProp (s "color") (s "color") (s "red -1.5," ++ p.(listItemSpacer) ++ s """x;}""") true
                 (s "important") (s "important") true true true true);
   DProp (mkProp (s "Width") (s "width") (s "10px/+5%") false [] [] true true true true);
   DProp (mkProp (s "background") (s "background") (s "rgb(255," ++ p.(listItemSpacer) ++ s "0," ++ p.(listItemSpacer)
                   ++ s "17) url(a.png) #0af") false [] [] true true true true)].
Definition pp_style (p : prefs) (sel : str) : OutModel.rule := RStyle sel true (pp_props p).
Definition pp_rules (p : prefs) : list OutModel.rule :=
  [RComment (s "/*c*/");
   pp_style p (pp_sel p ++ s "," ++ p.(listItemSpacer) ++ pp_sel p);
   RMedia None (s "only screen and (min-width:" ++ p.(propertyNameSpacer) ++ s "25cm)," ++ p.(listItemSpacer) ++ s "print")
          true
          [pp_style p (pp_sel p); RMedia None (s "print") true [pp_style p (pp_sel p)]]].

Definition frag_ok (p : prefs) : bool :=
  match do_sheet p (pp_rules p) with
  | Some t => match parse_model_pp t with
              | Some m => js_eqb 60 m (filter_model_pp p)
              | None => false
              end
  | None => false
  end.

Definition mk_frag (sp li pn pa sc ls ind : str) (kc ol icb : bool) : prefs :=
  {| defaultAtKeyword := true; defaultPropertyName := true; defaultPropertyPriority := true;
     formatUnknownAtRules := true; importHrefFormat := None; indent := ind; indentClosingBrace := icb;
     indentSpecificities := false; keepAllProperties := true; keepComments := kc; keepEmptyRules := false;
     keepUnknownAtRules := true; keepUsedNamespaceRulesOnly := false; lineNumbers := false; lineSeparator := ls;
     linesAfterRules := []; listItemSpacer := li; minimizeColorHash := true; normalizedVarNames := true;
     omitLastSemicolon := ol; omitLeadingZero := false; paranthesisSpacer := pa; propertyNameSpacer := pn;
     resolveVariables := true; selectorCombinatorSpacer := sc; spacer := sp; validOnly := false |}.

Definition two : list str := [[]; [32%N]].
Definition bools : list bool := [true; false].
Definition linesep3 : list str := [[10%N]; []; [32%N]].
Definition frag_prefs : list prefs :=
  prefs_default :: prefs_minified ::
  (* every combination of spacer (= paranthesisSpacer), listItemSpacer, propertyNameSpacer, selectorCombinatorSpacer
     x line separator x keepComments *)
  flat_map (fun sp => flat_map (fun li => flat_map (fun pn => flat_map (fun sc =>
  flat_map (fun ls => map (fun kc => mk_frag sp li pn sp sc ls (s "    ") kc true true) bools) linesep3)
  two) two) two) two ++
  (* indent x omitLastSemicolon x indentClosingBrace x line separator, with all spacers ' ' and with all spacers '' *)
  flat_map (fun x => flat_map (fun ind => flat_map (fun ol => flat_map (fun icb => map (fun ls =>
    mk_frag x x x x x ls ind true ol icb) linesep3) bools) bools) [s "    "; []]) two.

Definition frag_all_ok : bool := forallb frag_ok frag_prefs.

Lemma frag_all_ok_true : forallb frag_ok frag_prefs = true.
Proof. vm_compute. reflexivity. Qed.

Lemma frag_prefs_ws : forallb ws_prefs frag_prefs = true.
Proof. vm_compute. reflexivity. Qed.

(* reparse_faithful on the fragment, with no hypothesis *)
Lemma reparse_faithful_pp_lemma p t :
  In p frag_prefs -> do_sheet p (pp_rules p) = Some t -> parse_model_pp t = Some (filter_model_pp p).
Proof.
  intros Hin Ht.
  pose proof (proj1 (forallb_forall frag_ok frag_prefs) frag_all_ok_true p Hin) as H.
  unfold frag_ok in H. rewrite Ht in H.
  destruct (parse_model_pp t) as [m|]; [|discriminate]. apply js_eqb_sound in H. rewrite H. reflexivity.
Qed.

(* the full statement on the fragment: serialising succeeds and the text re-parses to the documented model *)
Lemma prefs_preserve_meaning_pp_lemma p :
  In p frag_prefs ->
  ws_prefs p = true /\
  exists t, do_sheet p (pp_rules p) = Some t /\ parse_model_pp t = Some (filter_model_pp p).
Proof.
  intros Hin. split.
  - exact (proj1 (forallb_forall ws_prefs frag_prefs) frag_prefs_ws p Hin).
  - destruct (do_sheet p (pp_rules p)) as [t|] eqn:Ht; [|exfalso; exact (prefs_total_lemma p (pp_rules p) Ht)].
    exists t. split; [reflexivity|]. apply reparse_faithful_pp_lemma; assumption.
Qed.
