(* StyleDecl.v -- CSSStyleDeclaration as an ordered item sequence (property C11).

   Transcription of /repo/src/css_parser/css/cssstyledeclaration.py (tree after the
   three fix: commits of C11) and of the name plumbing of cssproperties.py.  Definitions only.

   What is abstract:
   * `norm` = Base._normalize (helper.normalize): a Section variable, so every theorem holds for any
     normalisation function; the extracted model and the Examples instantiate it with
     CssV.Tokenizer.normalize (regenerated `_simpleescapes` + str.lower table).
   * a name argument carries its raw spelling and what the Property constructor makes of it
     (`plit` = Property(raw).literalname, `nok` = the name parsed); the harness checks these digests
     against the implementation for every spelling it uses.
   * values are opaque atoms (N) with the verdict of the value parser (VOk / VBad / VEmpty);
     priorities are  none / important / unparsable.                                                    *)
From CssV Require Import Base.
From CssV Require Tokenizer Gen.CssProperties.

Fixpoint mems (x : str) (l : list str) : bool :=            (* x in l *)
  match l with [] => false | y :: r => eqs y x || mems x r end.

Fixpoint assocs (x : str) (l : list (str * str)) : option str :=
  match l with [] => None | (k, v) :: r => if eqs k x then Some v else assocs x r end.

Definition is_nil {A} (l : list A) : bool := match l with [] => true | _ => false end.

(* ---- cssproperties._toDOMname (l.86-94):  re.compile('-[a-z]', re.I).sub(m -> m.group(0)[1].capitalize()) ;
        ASCII letters only (the generated names are [a-z-]+ ; see toDOM_table in StyleDeclFacts) *)
Definition ascii_letter (c : N) : bool :=
  ((65 <=? c) && (c <=? 90))%N || ((97 <=? c) && (c <=? 122))%N.
Definition ascii_upper (c : N) : N :=
  if ((97 <=? c) && (c <=? 122))%N then (c - 32)%N else c.

Fixpoint toDOM (x : str) : str :=
  match x with
  | [] => []
  | c :: r =>
      match r with
      | d :: r' => if N.eqb c 45 && ascii_letter d then ascii_upper d :: toDOM r' else c :: toDOM r
      | [] => [c]
      end
  end.

(* ---- Python list indexing with a possibly negative index; None = IndexError *)
Definition py_nth {A} (l : list A) (i : Z) : option A :=
  let n := Z.of_nat (length l) in
  let j := if (i <? 0)%Z then (i + n)%Z else i in
  if (j <? 0)%Z || (n <=? j)%Z then None else nth_error l (Z.to_nat j).

Definition val := N.

Record prop := mkProp { lit : str; name : str; value : val; imp : bool }.

Inductive item := IProp (p : prop) | IComment (c : N) | IUnknown (u : N).
Definition block := list item.

Record namearg := mkName { raw : str; plit : str; nok : bool }.
Inductive valarg := VEmpty | VBad | VOk (v : val).
Inductive prioarg := PNone | PImportant | PBad.

Inductive exn := ESyntax | EReadonly | EAttr | ECrash.
Inductive ret := RNone | REmpty | RVal (v : val).                (* None / '' / a value string *)
Inductive outcome :=
| Done (b : block) (r : ret)                                     (* normal return, new sequence *)
| Raised (e : exn).                                              (* exception; the sequence is not touched *)

(* what the parser hands to _setSeq for one declaration / comment / unknown at-rule *)
Inductive parsed := DDecl (l : str) (v : val) (i : bool) | DComment (c : N) | DUnknown (u : N).

Definition indexed (b : block) : list (nat * item) := combine (seq 0 (length b)) b.

Definition set_vp (p : prop) (v : val) (im : bool) : prop := mkProp (lit p) (name p) v im.

(* property.propertyValue = newp.propertyValue.cssText; property.priority = newp.priority  on the object
   at position i (state passing instead of object mutation) *)
Fixpoint replace_at (i : nat) (v : val) (im : bool) (b : block) : block :=
  match b, i with
  | [], _ => []
  | IProp p :: r, O => IProp (set_vp p v im) :: r
  | it :: r, O => it :: r
  | it :: r, S k => it :: replace_at k v im r
  end.

Section Model.
  Variable norm : str -> str.                  (* Base._normalize *)
  Variable attrs : list (str * str).           (* DOM attribute -> CSS name bound in its accessors *)
  Variable settable : list str.                (* CSS2Properties._properties *)

  (* ---- __nnames (l.204-213) *)
  Definition nn_step (names : list str) (it : item) : list str :=
    match it with
    | IProp p => if mems (name p) names then names else names ++ [name p]
    | _ => names
    end.
  Definition nnames (b : block) : list str := rev (fold_left nn_step (rev b) []).

  (* ---- the reversed scan shared by getProperty (l.422-445) and __effective (l.215-228):
          return at once on a match with a priority, else remember the first match seen *)
  Fixpoint scan_rev (m : prop -> bool) (l : list (nat * item)) (found : option (nat * prop))
    : option (nat * prop) :=
    match l with
    | [] => found
    | (i, IProp p) :: r =>
        if m p then
          if imp p then Some (i, p)
          else scan_rev m r (match found with None => Some (i, p) | Some _ => found end)
        else scan_rev m r found
    | _ :: r => scan_rev m r found
    end.
  Definition find_prop (m : prop -> bool) (b : block) : option (nat * prop) :=
    scan_rev m (rev (indexed b)) None.

  (* (normalize and nname == val.name) or name == val.literalname *)
  Definition matches (nm : str) (normalize : bool) (p : prop) : bool :=
    (normalize && eqs (norm nm) (name p)) || eqs nm (lit p).
  Definition getProperty (nm : str) (normalize : bool) (b : block) := find_prop (matches nm normalize) b.
  Definition effective_n (nname : str) (b : block) := find_prop (fun p => eqs (name p) nname) b.

  Definition getPropertyValue nm normalize b : ret :=
    match getProperty nm normalize b with Some (_, p) => RVal (value p) | None => REmpty end.
  Definition getPropertyPriority nm normalize b : bool :=        (* 'important' / '' *)
    match getProperty nm normalize b with Some (_, p) => imp p | None => false end.

  Definition contains (nm : str) (b : block) : bool := mems (norm nm) (nnames b).
  Definition contains_prop (p : prop) (b : block) : bool := mems (name p) (nnames b).
  Definition keys (b : block) : list str := nnames b.
  Definition length_ (b : block) : nat := length (nnames b).
  Definition item_at (b : block) (i : Z) : str :=                (* IndexError -> '' (l.681-685) *)
    match py_nth (nnames b) i with Some x => x | None => [] end.
  Definition iter (b : block) : list (option (nat * prop)) := map (fun n => effective_n n b) (nnames b).

  (* getProperties (l.382-420); a falsy name (None or '') is [] *)
  Definition getProperties (nm : str) (all : bool) (b : block) : list (option (nat * prop)) :=
    if negb (is_nil nm) && negb all then
      match getProperty nm true b with Some x => [Some x] | None => [] end
    else if negb all then iter b
    else
      let nname := norm nm in
      flat_map (fun ip => match ip with
                          | (i, IProp p) => if is_nil nname || eqs (name p) nname then [Some (i, p)] else []
                          | _ => []
                          end) (indexed b).

  (* removeProperty (l.531-577) *)
  Definition removeProperty (ro : bool) (nm : str) (normalize : bool) (b : block) : outcome :=
    if ro then Raised EReadonly else
    let r := getPropertyValue nm normalize b in
    let keep it := match it with
                   | IProp p => negb (if normalize then eqs (name p) (norm nm) else eqs (lit p) nm)
                   | _ => true
                   end in
    Done (filter keep b) r.

  (* Property(name, value, priority, parent=self) (property.py l.54-87) with the outcomes that matter here *)
  Inductive built := BRaise | BProp (wellformed : bool) (p : prop).
  Definition build (raising : bool) (a : namearg) (v : valarg) (pr : prioarg) : built :=
    if negb (nok a) then
      (if raising && negb (is_nil (raw a)) then BRaise else BProp false (mkProp [] [] 0%N false))
    else match v with
         | VEmpty => BProp false (mkProp (plit a) (norm (plit a)) 0%N false)   (* not reached: removal *)
         | VBad => if raising then BRaise else BProp false (mkProp (plit a) (norm (plit a)) 0%N false)
         | VOk x =>
             match pr with
             | PBad => if raising then BRaise else BProp true (mkProp (plit a) (norm (plit a)) x false)
             | PNone => BProp true (mkProp (plit a) (norm (plit a)) x false)
             | PImportant => BProp true (mkProp (plit a) (norm (plit a)) x true)
             end
         end.

  Inductive setarg := ByName (a : namearg) (v : valarg) (pr : prioarg) | ByProp (wellformed : bool) (p : prop).

  (* the loop  for property in reversed(properties)  of setProperty (l.637-646); None in the list would be
     an AttributeError on `property.name` *)
  Inductive hit := HNone | HAt (i : nat) | HCrash.
  Fixpoint first_hit (nm nname : str) (normalize : bool) (l : list (option (nat * prop))) : hit :=
    match l with
    | [] => HNone
    | None :: _ => HCrash
    | Some (i, p) :: r =>
        if normalize && eqs (name p) nname then HAt i
        else if eqs (lit p) nm then HAt i
        else first_hit nm nname normalize r
    end.

  (* setProperty (l.579-656) *)
  Definition setProperty (ro raising : bool) (arg : setarg) (normalize replace : bool) (b : block) : outcome :=
    if ro then Raised EReadonly else
    let go (nm : str) (wf : bool) (newp : prop) : outcome :=
      if wf then
        if replace then
          match first_hit nm (norm nm) normalize (rev (getProperties nm (negb normalize) b)) with
          | HAt i => Done (replace_at i (value newp) (imp newp) b) RNone
          | HNone => Done (b ++ [IProp newp]) RNone
          | HCrash => Raised ECrash
          end
        else Done (b ++ [IProp newp]) RNone
      else if raising then Raised ESyntax                (* self._log.warn('Invalid Property ...') raises *)
      else Done b RNone in
    match arg with
    | ByProp wf p => go (lit p) wf p
    | ByName a VEmpty _ => removeProperty ro (raw a) true b     (* l.627-629: `normalize` is not passed on *)
    | ByName a v pr =>
        match build raising a v pr with
        | BRaise => Raised ESyntax
        | BProp wf p =>
            (* fix C11-set-name-as-stored: if newp.wellformed and self._normalize(name) != newp.name:
               name = newp.literalname   -- the property is replaced under the name it is stored with *)
            go (if wf && negb (eqs (norm (raw a)) (name p)) then lit p else raw a) wf p
        end
    end.

  Definition mk_item (d : parsed) : item :=
    match d with
    | DDecl l v i => IProp (mkProp l (norm l) v i)
    | DComment c => IComment c
    | DUnknown u => IUnknown u
    end.

  (* _setCssText (l.292-355): the text is parsed elsewhere (C02/C04); `malformed` = some declaration of it is
     rejected by Property.cssText, which raises when log.raiseExceptions is on, before _setSeq *)
  Definition setText (ro raising : bool) (ds : list parsed) (malformed : bool) (b : block) : outcome :=
    if ro then Raised EReadonly
    else if malformed && raising then Raised ESyntax
    else Done (map mk_item ds) RNone.

  Inductive op :=
  | OSet (raising : bool) (arg : setarg) (normalize replace : bool)
  | ORemove (nm : str) (normalize : bool)
  | OSetItem (raising : bool) (a : namearg) (v : valarg) (pr : prioarg)   (* style[n] = v | (v, prio) *)
  | ODelItem (nm : str)
  | OSetAttr (raising : bool) (dom : str) (v : valarg)                    (* style.fontStyle = v *)
  | ODelAttr (dom : str)
  | OSetText (raising : bool) (ds : list parsed) (malformed : bool).

  Definition cssname_arg (c : str) : namearg := mkName c c true.

  Definition step (ro : bool) (o : op) (b : block) : outcome :=
    match o with
    | OSet raising arg normalize replace => setProperty ro raising arg normalize replace b
    | ORemove nm normalize => removeProperty ro nm normalize b
    | OSetItem raising a v pr => setProperty ro raising (ByName a v pr) true true b
    | ODelItem nm => removeProperty ro nm true b
    | OSetAttr raising dom v =>
        (* __setattr__ (l.172-190) then the generated fset -> _setP -> setProperty(CSSname, value) *)
        if mems dom settable then
          match assocs dom attrs with
          | Some c => match setProperty ro raising (ByName (cssname_arg c) v PNone) true true b with
                      | Done b' _ => Done b' RNone
                      | r => r
                      end
          | None => Raised EAttr
          end
        else Raised EAttr
    | ODelAttr dom =>
        match assocs dom attrs with
        | Some c => match removeProperty ro c true b with Done b' _ => Done b' RNone | r => r end
        | None => Raised EAttr
        end
    | OSetText raising ds malformed => setText ro raising ds malformed b
    end.

  Definition after (b : block) (r : outcome) : block := match r with Done b' _ => b' | Raised _ => b end.

  Fixpoint run (ro : bool) (ops : list op) (b : block) : block :=
    match ops with [] => b | o :: r => run ro r (after b (step ro o b)) end.

  Definition get_attr (dom : str) (b : block) : option ret :=      (* None = AttributeError *)
    match assocs dom attrs with Some c => Some (getPropertyValue c true b) | None => None end.

  (* ---- everything the harness looks at after every step *)
  Record probe_obs := mkPO {
    po_val_n : ret; po_val_l : ret; po_pri_n : bool; po_pri_l : bool; po_in : bool;
    po_gp : list (option (nat * prop)); po_gp_all : list (option (nat * prop)); po_attr : option ret }.
  Record obs := mkObs {
    o_items : block; o_keys : list str; o_len : nat; o_item : list str;
    o_iter : list (option (nat * prop)); o_eff : list (option (nat * prop));
    o_all : list (option (nat * prop)); o_probe : list probe_obs }.

  Definition observe (probes : list str) (b : block) : obs :=
    let n := Z.of_nat (length_ b) in
    mkObs b (keys b) (length_ b)
          (map (fun k => item_at b (Z.of_nat k - n - 1)%Z) (seq 0 (2 * length_ b + 2)))
          (iter b) (getProperties [] false b) (getProperties [] true b)
          (map (fun nm => mkPO (getPropertyValue nm true b) (getPropertyValue nm false b)
                               (getPropertyPriority nm true b) (getPropertyPriority nm false b)
                               (contains nm b) (getProperties nm false b) (getProperties nm true b)
                               (get_attr nm b)) probes).

  Fixpoint trace (ro : bool) (probes : list str) (ops : list op) (b : block) : list (outcome * obs) :=
    match ops with
    | [] => []
    | o :: r => let res := step ro o b in
                let b' := after b res in
                (res, observe probes b') :: trace ro probes r b'
    end.
End Model.

(* ---- the instance that is extracted and used by the Examples: norm = the model of helper.normalize over the
        regenerated tables, attribute tables regenerated from cssproperties.py *)
Definition norm_i : str -> str := CssV.Tokenizer.normalize.
Definition attrs_i := CssV.Gen.CssProperties.attr_table.
Definition settable_i := CssV.Gen.CssProperties.dom_known.
Definition step_i := step norm_i attrs_i settable_i.
Definition run_i := run norm_i attrs_i settable_i.
Definition trace_i := trace norm_i attrs_i settable_i.
Definition observe_i := observe norm_i attrs_i.
Definition mk_item_i := mk_item norm_i.
