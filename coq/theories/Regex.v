(* Regex.v -- Python `re` prefix matching (leftmost-first alternation, greedy
   repeats with backtracking) over code-point lists, as an executable
   continuation-passing matcher.  Only the node kinds that occur in the
   patterns of /repo (surveyed by translate/regexlib.py with CPython's own
   re._parser) are present; the translator refuses anything else.          *)
From CssV Require Import Base.

Inductive re :=
| Eps
| Chr (c : N)                         (* LITERAL            *)
| NotChr (c : N)                      (* NOT_LITERAL        *)
| Any                                 (* ANY: . without DOTALL = anything but \n *)
| Cls (neg : bool) (rs : list (N * N)) (* IN: ranges lo..hi (a literal is lo=hi) *)
| Cat (a b : re)
| Alt (a b : re)                      (* BRANCH, tried left to right *)
| Rep (a : re) (lo : nat) (hi : option nat)   (* MAX_REPEAT (greedy)  *)
| LazyRep (a : re) (lo : nat) (hi : option nat) (* MIN_REPEAT         *)
| NotBehind (c : N)                   (* (?<!c) one literal *)
| Ahead (c : N)                       (* (?=c)  one literal *)
| NotAhead (c : N)                    (* (?!c)  one literal *)
| Bos                                 (* AT_BEGINNING / AT_BEGINNING_STRING with pos = 0 *)
| Eos.                                (* AT_END ($ without MULTILINE): at end, or before a final \n *)

Fixpoint in_ranges (c : N) (rs : list (N * N)) : bool :=
  match rs with
  | [] => false
  | (lo, hi) :: r => (N.leb lo c && N.leb c hi) || in_ranges c r
  end.

Definition cont (R : Type) := option N -> str -> option R.
Definition matcher (R : Type) := option N -> str -> cont R -> option R.

(* greedy repeat: try one more iteration (which must consume), else stop   *)
Fixpoint rep_iter {R} (ma : matcher R) (k : cont R) (fuel lo : nat) (hi : option nat)
         (prev : option N) (t : str) : option R :=
  match fuel with
  | O => None
  | S f =>
    let more :=
      match hi with
      | Some O => None
      | _ => ma prev t (fun p t' =>
               if Nat.ltb (length t') (length t)
               then rep_iter ma k f (Nat.pred lo) (option_map Nat.pred hi) p t'
               else None)
      end in
    match more with
    | Some v => Some v
    | None => match lo with O => k prev t | _ => None end
    end
  end.

(* lazy repeat: stop as early as allowed *)
Fixpoint lazy_iter {R} (ma : matcher R) (k : cont R) (fuel lo : nat) (hi : option nat)
         (prev : option N) (t : str) : option R :=
  match fuel with
  | O => None
  | S f =>
    let more (_ : unit) :=
      match hi with
      | Some O => None
      | _ => ma prev t (fun p t' =>
               if Nat.ltb (length t') (length t)
               then lazy_iter ma k f (Nat.pred lo) (option_map Nat.pred hi) p t'
               else None)
      end in
    match lo with
    | O => match k prev t with Some v => Some v | None => more tt end
    | _ => more tt
    end
  end.

Fixpoint m {R} (r : re) : matcher R :=
  fun prev t k =>
  match r with
  | Eps => k prev t
  | Chr c => match t with x :: t' => if N.eqb x c then k (Some x) t' else None | [] => None end
  | NotChr c => match t with x :: t' => if N.eqb x c then None else k (Some x) t' | [] => None end
  | Any => match t with x :: t' => if N.eqb x 10 then None else k (Some x) t' | [] => None end
  | Cls neg rs => match t with
                  | x :: t' => if xorb neg (in_ranges x rs) then k (Some x) t' else None
                  | [] => None end
  | Cat a b => m a prev t (fun p t' => m b p t' k)
  | Alt a b => match m a prev t k with Some v => Some v | None => m b prev t k end
  | Rep a lo hi => rep_iter (m a) k (S (length t)) lo hi prev t
  | LazyRep a lo hi => lazy_iter (m a) k (S (length t)) lo hi prev t
  | NotBehind c => match prev with
                   | Some x => if N.eqb x c then None else k prev t
                   | None => k prev t end
  | Ahead c => match t with x :: _ => if N.eqb x c then k prev t else None | [] => None end
  | NotAhead c => match t with x :: _ => if N.eqb x c then None else k prev t | [] => k prev t end
  | Bos => match prev with None => k prev t | Some _ => None end
  | Eos => match t with [] => k prev t | [x] => if N.eqb x 10 then k prev t else None | _ => None end
  end.

(* pattern.match(text, pos): `before` = text[pos-1] if pos > 0; result = len(group(0)) *)
Definition rmatch (r : re) (before : option N) (t : str) : option nat :=
  m r before t (fun _ t' => Some (length t - length t')).

(* pattern.match(text) followed by `.end() == len(text)` is not needed; fullmatch-style helper *)
Definition rfull (r : re) (t : str) : bool :=
  match m r None t (fun _ t' => match t' with [] => Some tt | _ => None end) with
  | Some _ => true | None => false end.

Fixpoint nullable (r : re) : bool :=
  match r with
  | Eps | NotBehind _ | Ahead _ | NotAhead _ | Bos | Eos => true
  | Chr _ | NotChr _ | Any | Cls _ _ => false
  | Cat a b => nullable a && nullable b
  | Alt a b => nullable a || nullable b
  | Rep a lo _ | LazyRep a lo _ => match lo with O => true | _ => nullable a end
  end.

(* every repeat body consumes: then Python's empty-iteration rule is never exercised *)
Fixpoint rep_bodies_ok (r : re) : bool :=
  match r with
  | Cat a b | Alt a b => rep_bodies_ok a && rep_bodies_ok b
  | Rep a _ _ | LazyRep a _ _ => negb (nullable a) && rep_bodies_ok a
  | _ => true
  end.

(* pattern.sub(f, text): leftmost non-overlapping matches, scanning left to right.
   f receives the matched text.  Only used with non-nullable patterns.       *)
Fixpoint sub_all_fuel (fuel : nat) (r : re) (f : str -> str) (prev : option N) (t : str) : str :=
  match fuel with
  | O => t
  | S fu =>
    match t with
    | [] => []
    | x :: t' =>
      match rmatch r prev t with
      | Some (S n) => f (firstn (S n) t) ++
                      sub_all_fuel fu r f (Some (last (firstn (S n) t) x)) (skipn (S n) t)
      | _ => x :: sub_all_fuel fu r f (Some x) t'
      end
    end
  end.
Definition sub_all (r : re) (f : str -> str) (t : str) : str :=
  sub_all_fuel (S (length t)) r f None t.

(* pattern.search(text) is not None *)
Fixpoint search_fuel (r : re) (prev : option N) (t : str) : bool :=
  match rmatch r prev t with
  | Some _ => true
  | None => match t with [] => false | x :: t' => search_fuel r (Some x) t' end
  end.
