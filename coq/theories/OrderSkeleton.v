(* OrderSkeleton.v -- the 0..3 `expected` machine of Order.v (parse_step / accept_kinds, tables from Gen/Kinds.v) and
   the one of C04's Skeleton.v (ord_step / sheet_ord, table Gen/UptoGen.gen_sheet_order) are the same machine.
   Skeleton has its own statement-kind type, so it is required without being imported. *)
From CssV Require Import Base Order OrderFacts OrderRefine.
From CssV.Gen Require Import Kinds.
From CssV Require Skeleton.

(* the handler a rule kind is built by (cssstylesheet.py productions dict); a comment is not a statement of
   Skeleton (class CComment: the state becomes max(1, state)) *)
Definition skel_kind (k : kind) : option Skeleton.kind :=
  match k with
  | CHARSET_RULE => Some Skeleton.KCharset
  | IMPORT_RULE => Some Skeleton.KImport
  | NAMESPACE_RULE => Some Skeleton.KNamespace
  | VARIABLES_RULE => Some Skeleton.KVariables
  | FONT_FACE_RULE => Some Skeleton.KFontFace
  | MEDIA_RULE => Some Skeleton.KMedia
  | PAGE_RULE => Some Skeleton.KPage
  | UNKNOWN_RULE | MARGIN_RULE => Some Skeleton.KUnknown
  | STYLE_RULE => Some Skeleton.KRuleset
  | COMMENT => None
  end.

(* the two regenerated tables say the same *)
Lemma ord_tables_agree k sk :
  skel_kind k = Some sk ->
  Skeleton.ord_sig sk = (parse_threshold k, parse_next k, kin k parse_malformed_keeps_state).
Proof. destruct k; intros H; inversion H; subst; vm_compute; reflexivity. Qed.

(* state transition of the kinds-level machine = ord_step on a well-formed statement *)
Theorem accept_step_is_ord_step acc e k sk run :
  skel_kind k = Some sk ->
  snd (accept_step acc e k) = fst (Skeleton.ord_step (fun _ _ => true) e sk run).
Proof.
  intros H. unfold Skeleton.ord_step. rewrite (ord_tables_agree _ _ H). cbv zeta.
  change (match parse_threshold k with Some t => Nat.ltb t e | None => false end) with (over_threshold k e).
  change (match parse_next k with Some n => n | None => Nat.max 1 e end) with (next_of k e).
  unfold accept_step. destruct (over_threshold k e); [reflexivity|]. cbn [orb fst].
  destruct (kin k parse_discarded_kinds); [reflexivity|].
  destruct (place acc k (length acc) false); reflexivity.
Qed.

Theorem accept_step_comment acc e : snd (accept_step acc e COMMENT) = Nat.max 1 e.
Proof.
  unfold accept_step. change (over_threshold COMMENT e) with false. change (kin COMMENT parse_discarded_kinds) with false.
  cbv iota. destruct (place acc COMMENT (length acc) false); reflexivity.
Qed.

(* the whole run: the states accept_loop passes through are those of Skeleton's fold *)
Definition skel_next (e : nat) (k : kind) : nat :=
  match skel_kind k with
  | Some sk => fst (Skeleton.ord_step (fun _ _ => true) e sk [])
  | None => Nat.max 1 e
  end.

Fixpoint accept_states (acc : list kind) (e : nat) (ks : list kind) : list nat :=
  match ks with
  | [] => []
  | k :: r => snd (accept_step acc e k) :: accept_states (fst (accept_step acc e k)) (snd (accept_step acc e k)) r
  end.

Fixpoint skel_states (e : nat) (ks : list kind) : list nat :=
  match ks with [] => [] | k :: r => skel_next e k :: skel_states (skel_next e k) r end.

Theorem accept_kinds_is_sheet_ord ks : forall acc e, accept_states acc e ks = skel_states e ks.
Proof.
  induction ks as [|k r IH]; intros acc e; cbn [accept_states skel_states]; auto.
  assert (E : snd (accept_step acc e k) = skel_next e k).
  { unfold skel_next. destruct (skel_kind k) as [sk|] eqn:Ek.
    - now apply accept_step_is_ord_step.
    - destruct k; try discriminate. apply accept_step_comment. }
  rewrite E. f_equal. apply IH.
Qed.

(* the full parser model, malformed statements included: the state after a statement is ord_step's, with
   "well-formed" = not a style rule whose prefixes cannot be resolved *)
Definition proto_wellformed (st : pstate) (p : proto) : bool :=
  negb (kind_beq (pkind p) STYLE_RULE && match resolve (p_ns st) (ppfx p) with Some _ => false | None => true end).

Theorem parse_step_is_ord_step rx st p st1 sk run :
  parse_step rx st p = inl st1 -> skel_kind (pkind p) = Some sk ->
  p_expected st1 = fst (Skeleton.ord_step (fun _ _ => proto_wellformed st p) (p_expected st) sk run).
Proof.
  intros E H. unfold Skeleton.ord_step. rewrite (ord_tables_agree _ _ H).
  revert E. unfold parse_step. fold (over_threshold (pkind p) (p_expected st)). fold (next_of (pkind p) (p_expected st)).
  destruct (over_threshold (pkind p) (p_expected st)).
  { destruct rx; [discriminate|]. intros E; inversion E; reflexivity. }
  cbn [fst].
  destruct (kin (pkind p) parse_discarded_kinds) eqn:Ed.
  { assert (Hk : kin (pkind p) parse_malformed_keeps_state = false)
      by (destruct (pkind p); try discriminate; reflexivity).
    intros E; inversion E; subst. rewrite Hk. cbn [negb p_expected]. now rewrite orb_true_r. }
  destruct (kind_beq (pkind p) NAMESPACE_RULE) eqn:Ens.
  { assert (Hwf : proto_wellformed st p = true).
    { unfold proto_wellformed. apply kind_beq_eq in Ens. rewrite Ens. reflexivity. }
    rewrite Hwf. simpl.
    destruct (dict_get (p_ns st) (pprefix p)).
    - intros E; inversion E; reflexivity.
    - destruct (insert_rule rx (Some (p_ns st)) false (p_rules st) _ None false) as [rs res].
      destruct res; intros E; inversion E; reflexivity. }
  unfold proto_wellformed.
  destruct (kind_beq (pkind p) STYLE_RULE) eqn:E1.
  { destruct (resolve (p_ns st) (ppfx p)).
    - simpl. destruct (insert_rule rx (Some (p_ns st)) true (p_rules st) _ None false) as [rs res].
      destruct res; intros E; inversion E; reflexivity.
    - destruct rx; [discriminate|]. cbn [negb andb orb].
      destruct (kin (pkind p) parse_malformed_keeps_state); intros E; inversion E; reflexivity. }
  simpl.
  destruct (kind_beq (pkind p) MEDIA_RULE).
  { destruct (media_children rx (pkids p)); [|discriminate].
    destruct (insert_rule rx (Some (p_ns st)) true (p_rules st) _ None false) as [rs res].
    destruct res; intros E; inversion E; reflexivity. }
  destruct (kind_beq (pkind p) PAGE_RULE);
    destruct (insert_rule rx (Some (p_ns st)) true (p_rules st) _ None false) as [rs res];
    destruct res; intros E; inversion E; reflexivity.
Qed.

(* non-vacuity of parse_refines: a text with two @namespace statements, a namespaced style rule of the environment's
   prefix, a misplaced @import and a top-level margin rule *)
Definition refine_env : dict := [(7%N, 9%N)].
Definition refine_text : list proto :=
  [ P COMMENT; P IMPORT_RULE; mkProto NAMESPACE_RULE 1 1 0 [] []; mkProto NAMESPACE_RULE 2 2 0 [] [];
    mkProto STYLE_RULE 0 0 0 [7%N] []; P MARGIN_RULE; P IMPORT_RULE; mkProto MEDIA_RULE 0 0 0 [] [STYLE_RULE] ].

Lemma refine_text_ok : Forall (proto_wf (mkP [] refine_env 0)) refine_text /\ protos_distinct refine_text.
Proof.
  split.
  - repeat constructor; try discriminate; reflexivity.
  - cbn. repeat split; intros; try discriminate; repeat constructor; intros; try discriminate; cbn; congruence.
Qed.

Lemma refine_text_run :
  exists rs, parse_sheet false refine_env (stmts refine_text) = inl (rs, None)
             /\ kinds rs = [COMMENT; IMPORT_RULE; NAMESPACE_RULE; NAMESPACE_RULE; STYLE_RULE; MEDIA_RULE].
Proof. eexists. split; vm_compute; reflexivity. Qed.
