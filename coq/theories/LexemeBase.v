(* LexemeBase.v -- C09 (first part of the former LexemeFacts.v): which production wins on a lexeme of each class, for all lexemes of the
   class and every admissible following text.  Built from LexemeRegex (First / Fails / fc). *)
From CssV Require Import Base Regex RegexFacts LexemeRegex Gen.Productions Gen.TokTables Tokenizer
  TokenizerFacts Lexemes.

(* ------------------------------------------------------------------ tie to the generated productions *)
Lemma shapes_ok :
  re_IDENT = ident_re /\
  re_FUNCTION = Cat dash_re (Cat nmstart_re (Cat (Rep nmchar_re 0 None) (Chr 40))) /\
  re_DIMENSION = Cat num_re ident_re /\ re_PERCENTAGE = Cat num_re (Chr 37) /\ re_NUMBER = num_re /\
  re_HASH = Cat (Chr 35) (Rep nmchar_re 1 None) /\ re_ATKEYWORD = Cat (Chr 64) ident_re /\
  re_STRING = string_re /\ re_COMMENT = comment_re /\ re_S = Rep (Cls false ws_rs) 1 None /\
  re_RATIO = ratio_re.
Proof. repeat split; reflexivity. Qed.

(* ------------------------------------------------------------------ try_prods, one production at a time *)
Lemma try_prods_miss name r ps dc prev rest :
  rmatch r prev rest = None ->
  try_prods ((name, r) :: ps) dc false prev rest = try_prods ps dc false prev rest.
Proof. intros H. cbn [try_prods andb]. now rewrite H. Qed.

Lemma try_prods_hit name r ps dc prev rest n :
  rmatch r prev rest = Some n -> eqs name (s "IDENT") = false ->
  try_prods ((name, r) :: ps) dc false prev rest = Some (Step name (firstn n rest) true).
Proof. intros H Hn. cbn [try_prods andb]. rewrite H, Hn. reflexivity. Qed.

Lemma try_prods_ident r ps dc prev rest n :
  rmatch r prev rest = Some n ->
  (match skipn n rest with c :: _ => N.eqb c 40 | [] => false end) = false ->
  try_prods ((s "IDENT", r) :: ps) dc false prev rest = Some (Step (s "IDENT") (firstn n rest) true).
Proof.
  intros H Hp. cbn [try_prods andb]. rewrite H, Hp. rewrite andb_false_r. reflexivity.
Qed.

Lemma try_prods_ident2 r ps dc prev rest n :
  rmatch r prev rest = Some n ->
  (eqs (lower (firstn n rest)) (s "and") ||
   negb (match skipn n rest with c :: _ => N.eqb c 40 | [] => false end)) = true ->
  try_prods ((s "IDENT", r) :: ps) dc false prev rest = Some (Step (s "IDENT") (firstn n rest) true).
Proof.
  intros H Hp. cbn [try_prods andb]. rewrite H. apply orb_true_iff in Hp as [Hp|Hp].
  - rewrite Hp. cbn [negb andb]. reflexivity.
  - apply negb_true_iff in Hp. rewrite Hp, andb_false_r. reflexivity.
Qed.

(* IDENT matched, is followed by '(' and is not "and": the loop moves on to the next production (l.186-190) *)
Lemma try_prods_ident_skip r ps dc prev rest n :
  rmatch r prev rest = Some n -> eqs (lower (firstn n rest)) (s "and") = false ->
  (match skipn n rest with c :: _ => N.eqb c 40 | [] => false end) = true ->
  try_prods ((s "IDENT", r) :: ps) dc false prev rest = try_prods ps dc false prev rest.
Proof. intros H H1 H2. cbn [try_prods andb]. rewrite H, H1, H2. reflexivity. Qed.

Lemma try_prods_filter keep ps dc prev rest :
  (forall n r, In (n, r) ps -> keep (n, r) = false -> rmatch r prev rest = None) ->
  try_prods ps dc false prev rest = try_prods (filter keep ps) dc false prev rest.
Proof.
  induction ps as [|[n r] ps IH]; intros H; [reflexivity|]. cbn [filter].
  assert (IH' : try_prods ps dc false prev rest = try_prods (filter keep ps) dc false prev rest).
  { apply IH. intros n0 r0 Hin. apply H. now right. }
  destruct (keep (n, r)) eqn:Ek.
  - cbn [try_prods andb]. destruct (rmatch r prev rest) as [k|]; [|exact IH'].
    destruct (eqs n (s "IDENT") && negb (eqs (lower (firstn k rest)) (s "and")) &&
              match skipn k rest with c :: _ => N.eqb c 40 | [] => false end); [exact IH'|reflexivity].
  - rewrite try_prods_miss; [exact IH'|]. apply (H n r); [now left|exact Ek].
Qed.

(* ------------------------------------------------------------------ first_char_dispatch *)
Definition BD : list N := nodup N.eq_dec (flat_map (fun p => bounds (snd p)) productions).

Lemma bounds_in_BD n r : In (n, r) productions -> incl (bounds r) BD.
Proof.
  intros Hin b Hb. unfold BD. apply nodup_In. apply in_flat_map. exists (n, r). auto.
Qed.

Lemma prod_nonnullable n r : In (n, r) productions -> nullable r = false.
Proof.
  intros Hin. pose proof prods_nonnullable as H. rewrite forallb_forall in H.
  specialize (H _ Hin). cbn [snd] in H. now apply negb_true_iff in H.
Qed.

Definition cands (c : N) : list (str * re) := filter (fun p => fc (snd p) c) productions.

(* a text starting with c can only be matched by the productions whose first-character set contains
   the representative of c's boundary interval: a finite, computed table speaks about all characters *)
Theorem first_char_dispatch_lemma : forall c dc prev t,
  try_prods productions dc false prev (c :: t) = try_prods (cands (repr BD c)) dc false prev (c :: t).
Proof.
  intros c dc prev t. unfold cands. apply try_prods_filter. intros n r Hin Hk. cbn [snd] in Hk.
  apply fails_rmatch. apply fc_fails; [now apply (prod_nonnullable n)|].
  rewrite (fc_same r c (repr BD c)); [exact Hk|].
  apply (sameb_incl BD); [now apply (bounds_in_BD n)|apply repr_same].
Qed.

Definition dispatch_table : list (N * list str) := map (fun b => (b, map fst (cands b))) (0%N :: BD).

(* productions selected by name *)
Definition sel (names : list str) : list (str * re) := filter (fun p => mem_str (fst p) names) productions.

Definition in_rng (lo : N) (hi : option N) (b : N) : bool :=
  N.leb lo b && match hi with Some h => N.leb b h | None => true end.

Definition range_ok (lo : N) (hi : option N) (names : list str) : bool :=
  mem lo (0%N :: BD) &&
  forallb (fun b => implb (in_rng lo hi b)
                          (forallb (fun p => mem_str (fst p) names || negb (fc (snd p) b)) productions))
          (0%N :: BD).

Lemma in_rng_repr_aux lo hi c x : (lo = 0%N \/ (lo <= c -> lo <= x)%N) -> (x <= c)%N ->
  in_rng lo hi c = true -> in_rng lo hi x = true.
Proof.
  intros Hge Hle Hc. unfold in_rng in *. apply andb_true_iff in Hc as [H1 H2]. apply andb_true_iff. split.
  - apply N.leb_le. apply N.leb_le in H1. destruct Hge as [->|Hge]; [lia|]. now apply Hge.
  - destruct hi as [h|]; [|reflexivity]. apply N.leb_le. apply N.leb_le in H2. lia.
Qed.

Lemma in_rng_repr B lo hi c : mem lo (0%N :: B) = true -> in_rng lo hi c = true -> in_rng lo hi (repr B c) = true.
Proof.
  intros Hlo Hc. apply (in_rng_repr_aux lo hi c); [|apply repr_le|exact Hc].
  apply mem_In in Hlo. destruct Hlo as [<-|Hlo]; [now left|right]. intros H. now apply repr_ge.
Qed.

Lemma dispatch_range lo hi names : range_ok lo hi names = true ->
  forall c, in_rng lo hi c = true -> forall dc prev t,
  try_prods productions dc false prev (c :: t) = try_prods (sel names) dc false prev (c :: t).
Proof.
  intros Hok c Hc dc prev t. apply andb_true_iff in Hok as [Hlo Hok]. rewrite forallb_forall in Hok.
  unfold sel. apply try_prods_filter. intros n r Hin Hk. cbn [fst] in Hk.
  apply fails_rmatch. apply fc_fails; [now apply (prod_nonnullable n)|].
  rewrite (fc_same r c (repr BD c));
    [|apply (sameb_incl BD); [now apply (bounds_in_BD n)|apply repr_same]].
  specialize (Hok (repr BD c) (repr_in BD c)).
  assert (Hr : in_rng lo hi (repr BD c) = true) by (apply in_rng_repr; assumption).
  rewrite Hr in Hok. cbn [implb] in Hok. rewrite forallb_forall in Hok. specialize (Hok _ Hin).
  cbn [fst snd] in Hok. rewrite Hk in Hok. cbn [orb] in Hok. now apply negb_true_iff in Hok.
Qed.

(* from First / Fails to one step of try_prods *)
Lemma hit_first name r ps dc prev e rest :
  First (R:=nat) (m r) e rest -> eqs name (s "IDENT") = false ->
  try_prods ((name, r) :: ps) dc false prev (e ++ rest) = Some (Step name e true).
Proof.
  intros Hf Hn. rewrite (try_prods_hit _ _ _ _ _ _ (length e)); auto using first_rmatch.
  now rewrite firstn_app, Nat.sub_diag, firstn_all, app_nil_r.
Qed.

Lemma miss_fails name r ps dc prev t :
  Fails (R:=nat) (m r) t ->
  try_prods ((name, r) :: ps) dc false prev t = try_prods ps dc false prev t.
Proof. intros F. apply try_prods_miss. now apply fails_rmatch. Qed.

Lemma ltb_len_S' {A} (x : A) (t : list A) : Nat.ltb (length t) (S (length t)) = true.
Proof. apply Nat.ltb_lt. lia. Qed.

Lemma firstn_app_exact {A} (e rest : list A) : firstn (length e) (e ++ rest) = e.
Proof. now rewrite firstn_app, Nat.sub_diag, firstn_all, app_nil_r. Qed.
Lemma skipn_app_exact {A} (e rest : list A) : skipn (length e) (e ++ rest) = rest.
Proof. now rewrite skipn_app, Nat.sub_diag, skipn_all. Qed.

(* ------------------------------------------------------------------ small boolean facts *)
Lemma hd_not_head f t : hd_not f t = head_not f t.
Proof. reflexivity. Qed.

Ltac ranges :=
  repeat match goal with
         | |- context [N.leb ?a ?b] => destruct (N.leb_spec a b); try lia
         | |- context [N.eqb ?a ?b] => destruct (N.eqb_spec a b); try lia
         end; simpl; try reflexivity; try discriminate; try lia.

Lemma fc_nmchar c : fc nmchar_re c = nm_cont c.
Proof.
  unfold nm_cont, nmchar_plain, nmchar_re, nonascii_re, escape_re. cbn [fc nullable].
  unfold nmchar_rs. cbn [in_ranges]. ranges.
Qed.

Lemma nmchar_nonnull : nullable nmchar_re = false. Proof. reflexivity. Qed.
Lemma nmstart_nonnull : nullable nmstart_re = false. Proof. reflexivity. Qed.

Lemma nmchar_stops rest : hd_not nm_cont rest = true -> Fails (R:=nat) (m nmchar_re) rest.
Proof.
  intros H. apply fc_head_fails; [reflexivity|]. destruct rest as [|c rest]; [reflexivity|].
  cbn [fc_head hd_not] in *. rewrite fc_nmchar. now apply negb_true_iff in H.
Qed.

(* ------------------------------------------------------------------ escapes *)
Lemma in_terms t : mem_str t terms = true ->
  t = [] \/ t = [32%N] \/ t = [9%N] \/ t = [10%N] \/ t = [12%N] \/ t = [13%N] \/ t = [13%N; 10%N].
Proof.
  unfold terms. cbn [mem_str]. rewrite !orb_true_iff, !eqs_spec. intros H.
  repeat (destruct H as [H|H]; [subst; tauto|]). discriminate.
Qed.

Lemma fails_term_alt rest : hd_not is_ws rest = true -> Fails (R:=nat) (m (Alt nl_re (Cls false ws_rs))) rest.
Proof.
  intros H. apply fc_head_fails; [reflexivity|]. destruct rest as [|c rest]; [reflexivity|].
  simpl in H. apply negb_true_iff in H. unfold is_ws, ws_rs in H. cbn [in_ranges] in H.
  cbn [fc_head fc nl_re nullable]. unfold ws_rs. cbn [in_ranges]. revert H. ranges.
Qed.

Lemma first_opt_one a e rest : e <> [] -> First (R:=nat) (m a) e rest ->
  First (R:=nat) (m (Rep a 0 (Some 1%nat))) e rest.
Proof.
  intros Hne Hf. rewrite <- (app_nil_r e). change (e ++ []) with (concat [e]). apply first_rep.
  - cbn [FirstSeq concat]. rewrite app_nil_l. auto.
  - cbn [length]. lia.
  - cbn [hi_ok length]. lia.
  - left. reflexivity.
Qed.

(* the optional terminator after the hex digits *)
Lemma first_term t rest : mem_str t terms = true ->
  match t with [] => hd_not is_ws rest | [13%N] => hd_not (is_c 10) rest | _ => true end = true ->
  First (R:=nat) (m term_re) t rest.
Proof.
  intros Ht Hn. unfold term_re. apply in_terms in Ht.
  destruct Ht as [->|[->|[->|[->|[->|[->| ->]]]]]].
  - apply first_rep_none. now apply fails_term_alt.
  - apply first_opt_one; [discriminate|]. apply first_alt_r; [apply fc_fails; reflexivity|].
    now apply (first_single _ (fun x => xorb false (in_ranges x ws_rs))).
  - apply first_opt_one; [discriminate|]. apply first_alt_r; [apply fc_fails; reflexivity|].
    now apply (first_single _ (fun x => xorb false (in_ranges x ws_rs))).
  - apply first_opt_one; [discriminate|]. apply first_alt_l. unfold nl_re. apply first_alt_l.
    now apply (first_single _ (fun x => N.eqb x 10)).
  - apply first_opt_one; [discriminate|]. apply first_alt_l. unfold nl_re.
    apply first_alt_r; [apply fc_fails; reflexivity|].
    apply first_alt_r; [apply fc_fails; reflexivity|].
    apply first_alt_r; [apply fc_fails; reflexivity|].
    now apply (first_single _ (fun x => N.eqb x 12)).
  - apply first_opt_one; [discriminate|]. apply first_alt_l. unfold nl_re.
    apply first_alt_r; [apply fc_fails; reflexivity|].
    apply first_alt_r.
    { simpl app. apply (fails_cat_single _ (fun x => N.eqb x 13)); [reflexivity|].
      apply (fails_head _ (fun x => N.eqb x 10)); [reflexivity|exact Hn]. }
    apply first_alt_l. now apply (first_single _ (fun x => N.eqb x 13)).
  - apply first_opt_one; [discriminate|]. apply first_alt_l. unfold nl_re.
    apply first_alt_r; [apply fc_fails; reflexivity|].
    apply first_alt_l. change [13%N; 10%N] with ([13%N] ++ [10%N]). apply first_cat.
    + now apply (first_single _ (fun x => N.eqb x 13)).
    + now apply (first_single _ (fun x => N.eqb x 10)).
Qed.

Lemma forallb_ext' {A} (f g : A -> bool) l : (forall x, f x = g x) -> forallb f l = forallb g l.
Proof. intros H. induction l; simpl; [reflexivity|]. now rewrite H, IHl. Qed.

Lemma head_not_xorb f t : head_not (fun x => xorb false (f x)) t = head_not f t.
Proof. destruct t; simpl; [reflexivity|]. now destruct (f n). Qed.

Lemma first_hexrun ds t rest :
  Nat.leb 1 (length ds) = true -> Nat.leb (length ds) 6 = true -> forallb is_hex ds = true ->
  (Nat.eqb (length ds) 6 = true \/ hd_not is_hex (t ++ rest) = true) ->
  First (R:=nat) (m (Rep (Cls false hex_rs) 1 (Some 6%nat))) ds (t ++ rest).
Proof.
  intros H1 H6 Hh Hstop. rewrite <- (concat_singletons ds). apply first_rep.
  - apply (firstseq_run _ (fun x => xorb false (in_ranges x hex_rs))); [reflexivity|].
    rewrite <- Hh. apply forallb_ext'. intros x. apply xorb_false_l.
  - rewrite map_length. now apply Nat.leb_le.
  - simpl. rewrite map_length. now apply Nat.leb_le.
  - rewrite map_length. destruct Hstop as [E|Hn].
    + left. apply Nat.eqb_eq in E. now rewrite E.
    + right. apply (fails_head _ (fun x => xorb false (in_ranges x hex_rs))); [reflexivity|].
      rewrite (head_not_xorb (fun x => in_ranges x hex_rs)). exact Hn.
Qed.

Lemma term_not_hex t rest : mem_str t terms = true -> t <> [] -> hd_not is_hex (t ++ rest) = true.
Proof.
  intros Ht Hne. apply in_terms in Ht.
  destruct Ht as [->|[->|[->|[->|[->|[->| ->]]]]]]; try congruence; reflexivity.
Qed.

Lemma first_hex_escape ds t rest : wf_el (fun _ => false) false (H ds t) rest = true ->
  First (R:=nat) (m escape_re) (render_el (H ds t)) rest.
Proof.
  cbn [wf_el render_el]. rewrite !andb_true_iff. intros [[[[H1 H6] Hh] Ht] Hn].
  change (92%N :: ds ++ t) with ([92%N] ++ (ds ++ t)). unfold escape_re. apply first_cat.
  { now apply (first_single _ (fun x => N.eqb x 92)). }
  unfold esc_tail. apply first_alt_l. unfold uni_tail. apply first_cat.
  - apply first_hexrun; auto. destruct t as [|t0 t1].
    + apply andb_true_iff in Hn as [_ Hn]. apply orb_true_iff in Hn. simpl. tauto.
    + right. apply term_not_hex; [assumption|discriminate].
  - apply first_term; [assumption|]. destruct t as [|t0 [|t1 t2]]; auto.
    + apply andb_true_iff in Hn. tauto.
Qed.

Lemma first_lit_escape c rest : wf_el (fun _ => false) false (L c) rest = true ->
  First (R:=nat) (m escape_re) (render_el (L c)) rest.
Proof.
  cbn [wf_el render_el]. rewrite andb_true_iff, !negb_true_iff. intros [Hx Hh].
  change [92%N; c] with ([92%N] ++ [c]). unfold escape_re. apply first_cat.
  { now apply (first_single _ (fun x => N.eqb x 92)). }
  unfold esc_tail. apply first_alt_r.
  - unfold uni_tail. apply fails_cat_l. apply fails_rep_pos; [|discriminate].
    apply (fails_single _ (fun x => xorb false (in_ranges x hex_rs))); [reflexivity|]. rewrite xorb_false_l. exact Hh.
  - apply (first_single _ (fun x => xorb true (in_ranges x lit_excl_rs))); [reflexivity|].
    now rewrite Hx.
Qed.

(* ---- one name element is taken by one iteration of nmchar (resp. nmstart) ---- *)
Lemma first_nm_el (cls : list (N * N)) plain e rest :
  (forall c, plain c = in_ranges c cls || N.leb 128 c) ->
  in_ranges 92 cls = false ->
  wf_el plain false e rest = true ->
  First (R:=nat) (m (Alt (Cls false cls) (Alt nonascii_re escape_re))) (render_el e) rest.
Proof.
  intros Hp H92 Hwf. destruct e as [c|ds t|c|nl].
  - cbn [wf_el] in Hwf. rewrite Hp in Hwf. cbn [render_el].
    destruct (in_ranges c cls) eqn:E.
    + apply first_alt_l. apply (first_single _ (fun x => xorb false (in_ranges x cls))); [reflexivity|].
      now rewrite E.
    + simpl in Hwf. apply first_alt_r.
      { apply (fails_single _ (fun x => xorb false (in_ranges x cls))); [reflexivity|]. now rewrite E. }
      apply first_alt_l. apply (first_single _ (fun x => xorb true (in_ranges x [(0,127)]%N))); [reflexivity|].
      cbn [in_ranges]. apply N.leb_le in Hwf. ranges.
  - apply first_alt_r.
    { apply (fails_single _ (fun x => xorb false (in_ranges x cls))); [reflexivity|]. simpl. now rewrite H92. }
    apply first_alt_r; [apply fc_fails; reflexivity|]. now apply first_hex_escape.
  - apply first_alt_r.
    { apply (fails_single _ (fun x => xorb false (in_ranges x cls))); [reflexivity|]. simpl. now rewrite H92. }
    apply first_alt_r; [apply fc_fails; reflexivity|]. now apply first_lit_escape.
  - cbn [wf_el] in Hwf. discriminate.
Qed.

Lemma render_el_nonempty e : render_el e <> [].
Proof. destruct e; discriminate. Qed.

Lemma firstseq_nmchars els rest : wf_els nmchar_plain false els rest = true ->
  FirstSeq (R:=nat) (m nmchar_re) (map render_el els) rest.
Proof.
  induction els as [|e els IH]; cbn [wf_els map FirstSeq]; [trivial|].
  rewrite andb_true_iff. intros [He Hels]. repeat split.
  - apply render_el_nonempty.
  - apply (first_nm_el nmchar_rs nmchar_plain); [reflexivity|reflexivity|exact He].
  - now apply IH.
Qed.

Lemma first_nmchars lo els rest :
  wf_els nmchar_plain false els rest = true -> hd_not nm_cont rest = true -> (lo <= length els)%nat ->
  First (R:=nat) (m (Rep nmchar_re lo None)) (render els) rest.
Proof.
  intros Hwf Hn Hlo. unfold render. apply first_rep.
  - now apply firstseq_nmchars.
  - now rewrite map_length.
  - exact I.
  - right. now apply nmchar_stops.
Qed.

(* ---- identifiers ---- *)
Lemma el_head_not_dash e nxt : wf_el nmstart_plain false e nxt = true ->
  head_not (fun x => N.eqb x 45) (render_el e ++ nxt) = true.
Proof.
  destruct e as [c|ds t|c|nl]; cbn [wf_el render_el]; intros Hw; try reflexivity; try discriminate.
  simpl. unfold nmstart_plain, nmstart_rs in Hw. cbn [in_ranges] in Hw. revert Hw. ranges.
Qed.

Lemma first_dash d rest : (d = false -> head_not (fun x => N.eqb x 45) rest = true) ->
  First (R:=nat) (m dash_re) (dash_text d) rest.
Proof.
  intros Hd. unfold dash_re. destruct d; cbn [dash_text].
  - apply first_opt_one; [discriminate|]. now apply (first_single _ (fun x => N.eqb x 45)).
  - apply first_rep_none. apply (fails_head _ (fun x => N.eqb x 45)); [reflexivity|auto].
Qed.

Lemma first_ident d e0 els rest : wf_ident d e0 els rest = true ->
  First (R:=nat) (m ident_re) (ident_text d e0 els) rest.
Proof.
  unfold wf_ident. rewrite !andb_true_iff. intros [[H0 Hels] Hn].
  unfold ident_re, ident_text, render. cbn [map concat]. apply first_cat.
  - apply first_dash. intros _. rewrite <- app_assoc. now apply el_head_not_dash.
  - apply first_cat.
    + apply (first_nm_el nmstart_rs nmstart_plain); [reflexivity|reflexivity|exact H0].
    + now apply first_nmchars; [| |lia].
Qed.

(* ------------------------------------------------------------------ per-class first-token lemmas *)
Definition wins (l : lexeme) (rest : str) : Prop :=
  forall dc prev, try_prods productions dc false prev (text l ++ rest) = Some (Step (cls l) (text l) true).

Lemma prods_head : exists ps, productions = (s "S", re_S) :: ps.
Proof. exists (tl productions). reflexivity. Qed.

(* ---- white space ---- *)
Lemma ws_lexeme xs rest : ok_follow (LWs xs) rest = true -> wins (LWs xs) rest.
Proof.
  cbn [ok_follow]. rewrite !andb_true_iff, negb_true_iff. intros [[Hne Hws] Hn] dc prev.
  destruct prods_head as [ps ->]. cbn [text cls]. apply hit_first; [|reflexivity].
  destruct shapes_ok as (_ & _ & _ & _ & _ & _ & _ & _ & _ & -> & _).
  apply (first_run _ (fun x => xorb false (in_ranges x ws_rs))); [reflexivity| | |].
  - rewrite <- Hws. apply forallb_ext'. intros x. apply xorb_false_l.
  - apply Nat.eqb_neq in Hne. lia.
  - rewrite (head_not_xorb (fun x => in_ranges x ws_rs)). exact Hn.
Qed.

(* ---- '#' name ---- *)
Lemma sel_hash : sel [s "HASH"; s "CHAR"] = [(s "HASH", re_HASH); (s "CHAR", re_CHAR)].
Proof. reflexivity. Qed.
Lemma range_hash : range_ok 35 (Some 35%N) [s "HASH"; s "CHAR"] = true.
Proof. vm_compute. reflexivity. Qed.

Lemma hash_lexeme els rest : ok_follow (LHash els) rest = true -> wins (LHash els) rest.
Proof.
  cbn [ok_follow]. rewrite !andb_true_iff, negb_true_iff. intros [[Hne Hwf] Hn] dc prev.
  cbn [text cls]. change ((35%N :: render els) ++ rest) with (35%N :: render els ++ rest).
  rewrite (dispatch_range _ _ _ range_hash) by reflexivity. rewrite sel_hash.
  change (35%N :: render els ++ rest) with ((35%N :: render els) ++ rest).
  apply hit_first; [|reflexivity].
  destruct shapes_ok as (_ & _ & _ & _ & _ & -> & _).
  change (35%N :: render els) with ([35%N] ++ render els). apply first_cat.
  - now apply (first_single _ (fun x => N.eqb x 35)).
  - apply first_nmchars; auto. apply Nat.eqb_neq in Hne. lia.
Qed.

(* ---- '@' ident ---- *)
Lemma sel_at : sel [s "ATKEYWORD"; s "CHAR"] = [(s "ATKEYWORD", re_ATKEYWORD); (s "CHAR", re_CHAR)].
Proof. reflexivity. Qed.
Lemma range_at : range_ok 64 (Some 64%N) [s "ATKEYWORD"; s "CHAR"] = true.
Proof. vm_compute. reflexivity. Qed.

Lemma at_lexeme d e0 els rest : ok_follow (LAt d e0 els) rest = true -> wins (LAt d e0 els) rest.
Proof.
  cbn [ok_follow]. rewrite !andb_true_iff. intros [Hwf _] dc prev.
  cbn [text cls]. change ((64%N :: ident_text d e0 els) ++ rest) with (64%N :: ident_text d e0 els ++ rest).
  rewrite (dispatch_range _ _ _ range_at) by reflexivity. rewrite sel_at.
  change (64%N :: ident_text d e0 els ++ rest) with ((64%N :: ident_text d e0 els) ++ rest).
  apply hit_first; [|reflexivity].
  destruct shapes_ok as (_ & _ & _ & _ & _ & _ & -> & _).
  change (64%N :: ident_text d e0 els) with ([64%N] ++ ident_text d e0 els). apply first_cat.
  - now apply (first_single _ (fun x => N.eqb x 64)).
  - now apply first_ident.
Qed.

(* ---- identifiers (not followed by an opening parenthesis) ---- *)
Definition id_names : list str := [s "IDENT"; s "FUNCTION"; s "CHAR"].
Definition dash_names : list str :=
  [s "IDENT"; s "FUNCTION"; s "DIMENSION"; s "PERCENTAGE"; s "NUMBER"; s "CDC"; s "CHAR"].
Lemma sel_id : exists ps, sel id_names = (s "IDENT", re_IDENT) :: ps.
Proof. exists (tl (sel id_names)). vm_compute. reflexivity. Qed.
Lemma sel_dash : exists ps, sel dash_names = (s "IDENT", re_IDENT) :: ps.
Proof. exists (tl (sel dash_names)). vm_compute. reflexivity. Qed.
Lemma range_dash : range_ok 45 (Some 45%N) dash_names = true. Proof. vm_compute. reflexivity. Qed.
Lemma range_id1 : range_ok 65 (Some 84%N) id_names = true. Proof. vm_compute. reflexivity. Qed.
Lemma range_id2 : range_ok 86 (Some 90%N) id_names = true. Proof. vm_compute. reflexivity. Qed.
Lemma range_id3 : range_ok 95 (Some 95%N) id_names = true. Proof. vm_compute. reflexivity. Qed.
Lemma range_id4 : range_ok 97 (Some 116%N) id_names = true. Proof. vm_compute. reflexivity. Qed.
Lemma range_id5 : range_ok 118 (Some 122%N) id_names = true. Proof. vm_compute. reflexivity. Qed.
Lemma range_id6 : range_ok 128 None id_names = true. Proof. vm_compute. reflexivity. Qed.

Lemma ident_hit ps dc prev d e0 els rest :
  wf_ident d e0 els rest = true ->
  (hd_not (is_c 40) rest || eqs (lower (ident_text d e0 els)) (s "and")) = true ->
  try_prods ((s "IDENT", re_IDENT) :: ps) dc false prev (ident_text d e0 els ++ rest) =
  Some (Step (s "IDENT") (ident_text d e0 els) true).
Proof.
  intros Hwf Hp. destruct shapes_ok as (-> & _).
  rewrite (try_prods_ident2 _ _ _ _ _ (length (ident_text d e0 els))).
  - now rewrite firstn_app_exact.
  - apply first_rmatch. now apply first_ident.
  - rewrite firstn_app_exact, skipn_app_exact. apply orb_true_iff in Hp as [Hp|Hp].
    + apply orb_true_iff. right. destruct rest as [|c rest]; [reflexivity|].
      simpl in Hp. unfold is_c in Hp. exact Hp.
    + now rewrite Hp.
Qed.

Lemma plain_start_cases c : nmstart_plain c = true -> negb (N.eqb c 85) && negb (N.eqb c 117) = true ->
  in_rng 65 (Some 84%N) c = true \/ in_rng 86 (Some 90%N) c = true \/ in_rng 95 (Some 95%N) c = true \/
  in_rng 97 (Some 116%N) c = true \/ in_rng 118 (Some 122%N) c = true \/ in_rng 128 None c = true.
Proof.
  intros H1 H2. apply andb_true_iff in H2 as [A B]. apply negb_true_iff in A, B. apply N.eqb_neq in A, B.
  unfold nmstart_plain, nmstart_rs in H1. cbn [in_ranges] in H1.
  rewrite !orb_true_iff, !andb_true_iff, !N.leb_le in H1.
  unfold in_rng. rewrite andb_true_r, !andb_true_iff, !N.leb_le. clear -H1 A B. lia.
Qed.

Lemma fails_cat_alt {R} a b c t : Fails (R:=R) (m (Cat a c)) t -> Fails (R:=R) (m (Cat b c)) t -> Fails (R:=R) (m (Cat (Alt a b) c)) t.
Proof. intros Fa Fb p k. cbn [m]. specialize (Fa p k). specialize (Fb p k). cbn [m] in Fa, Fb. now rewrite Fa. Qed.

Definition plain_first (d : bool) (e0 : el) : bool :=
  d || match e0 with P c => negb (N.eqb c 85) && negb (N.eqb c 117) | _ => false end.

Lemma shapes_ok2 : re_URI = uri_re /\ re_UNICODE_RANGE = urange_re.
Proof. split; reflexivity. Qed.

Lemma ident_lexeme_plain d e0 els rest : wf_ident d e0 els rest = true -> plain_first d e0 = true ->
  (hd_not (is_c 40) rest || eqs (lower (ident_text d e0 els)) (s "and")) = true ->
  forall dc prev, try_prods productions dc false prev (ident_text d e0 els ++ rest) =
                  Some (Step (s "IDENT") (ident_text d e0 els) true).
Proof.
  intros Hwf Hfirst Hp dc prev.
  destruct d.
  - (* leading dash *)
    unfold ident_text at 1. cbn [dash_text]. change (([45%N] ++ render (e0 :: els)) ++ rest)
      with (45%N :: render (e0 :: els) ++ rest).
    rewrite (dispatch_range _ _ _ range_dash) by reflexivity. destruct sel_dash as [ps ->].
    change (45%N :: render (e0 :: els) ++ rest) with (ident_text true e0 els ++ rest).
    now apply ident_hit.
  - cbn [plain_first orb] in Hfirst. destruct e0 as [c| | |]; try discriminate.
    assert (Hc : nmstart_plain c = true).
    { unfold wf_ident in Hwf. rewrite !andb_true_iff in Hwf. tauto. }
    pose proof (ident_hit) as Hit.
    unfold ident_text at 1. cbn [dash_text app render map concat render_el].
    change (([c] ++ concat (map render_el els)) ++ rest) with (c :: concat (map render_el els) ++ rest).
    destruct (plain_start_cases c Hc Hfirst) as [R|[R|[R|[R|[R|R]]]]].
    + rewrite (dispatch_range _ _ _ range_id1 c R). destruct sel_id as [ps ->]. now apply (Hit ps dc prev false (P c)).
    + rewrite (dispatch_range _ _ _ range_id2 c R). destruct sel_id as [ps ->]. now apply (Hit ps dc prev false (P c)).
    + rewrite (dispatch_range _ _ _ range_id3 c R). destruct sel_id as [ps ->]. now apply (Hit ps dc prev false (P c)).
    + rewrite (dispatch_range _ _ _ range_id4 c R). destruct sel_id as [ps ->]. now apply (Hit ps dc prev false (P c)).
    + rewrite (dispatch_range _ _ _ range_id5 c R). destruct sel_id as [ps ->]. now apply (Hit ps dc prev false (P c)).
    + rewrite (dispatch_range _ _ _ range_id6 c R). destruct sel_id as [ps ->]. now apply (Hit ps dc prev false (P c)).
Qed.

(* ---- strings ---- *)
Lemma in_nls t : mem_str t nls = true -> t = [10%N] \/ t = [12%N] \/ t = [13%N] \/ t = [13%N; 10%N].
Proof.
  unfold nls. cbn [mem_str]. rewrite !orb_true_iff, !eqs_spec. intros H.
  repeat (destruct H as [H|H]; [subst; tauto|]). discriminate.
Qed.

Lemma first_nl nl rest : mem_str nl nls = true ->
  match nl with [13%N] => hd_not (is_c 10) rest | _ => true end = true ->
  First (R:=nat) (m nl_re) nl rest.
Proof.
  intros Ht Hn. apply in_nls in Ht. unfold nl_re. destruct Ht as [->|[->|[->| ->]]].
  - apply first_alt_l. now apply (first_single _ (fun x => N.eqb x 10)).
  - apply first_alt_r; [apply fc_fails; reflexivity|].
    apply first_alt_r; [apply fc_fails; reflexivity|].
    apply first_alt_r; [apply fc_fails; reflexivity|].
    now apply (first_single _ (fun x => N.eqb x 12)).
  - apply first_alt_r; [apply fc_fails; reflexivity|].
    apply first_alt_r.
    { simpl app. apply (fails_cat_single _ (fun x => N.eqb x 13)); [reflexivity|].
      apply (fails_head _ (fun x => N.eqb x 10)); [reflexivity|exact Hn]. }
    apply first_alt_l. now apply (first_single _ (fun x => N.eqb x 13)).
  - apply first_alt_r; [apply fc_fails; reflexivity|].
    apply first_alt_l. change [13%N; 10%N] with ([13%N] ++ [10%N]). apply first_cat.
    + now apply (first_single _ (fun x => N.eqb x 13)).
    + now apply (first_single _ (fun x => N.eqb x 10)).
Qed.

Lemma hex_not_nl d t : is_hex d = true -> Fails (R:=nat) (m nl_re) (d :: t).
Proof.
  intros Hd. apply fc_fails; [reflexivity|]. unfold is_hex, hex_rs in Hd. cbn [in_ranges] in Hd.
  cbn [fc nl_re nullable]. revert Hd. ranges.
Qed.

Lemma lit_not_nl c t : in_ranges c lit_excl_rs = false -> Fails (R:=nat) (m nl_re) (c :: t).
Proof.
  intros Hd. apply fc_fails; [reflexivity|]. unfold lit_excl_rs in Hd. cbn [in_ranges] in Hd.
  cbn [fc nl_re nullable]. revert Hd. ranges.
Qed.

Definition body_alt (q : N) : re :=
  Alt (Cls true [(10,10); (13,13); (12,12); (92,92); (q,q)]%N) (Alt (Cat (Chr 92) nl_re) escape_re).

Lemma first_str_el q e rest : q = 34%N \/ q = 39%N -> wf_el (str_plain q) true e rest = true ->
  First (R:=nat) (m (body_alt q)) (render_el e) rest.
Proof.
  intros Hq Hwf. unfold body_alt.
  assert (F92 : forall t, Fails (R:=nat) (m (Cls true [(10,10); (13,13); (12,12); (92,92); (q,q)]%N)) (92%N :: t)).
  { intros t. destruct Hq as [-> | ->]; apply fc_fails; reflexivity. }
  destruct e as [c|ds t|c|nl]; cbn [render_el].
  - cbn [wf_el] in Hwf. apply first_alt_l.
    apply (first_single _ (fun x => xorb true (in_ranges x [(10,10); (13,13); (12,12); (92,92); (q,q)]%N)));
      [reflexivity|]. unfold str_plain in Hwf. apply negb_true_iff in Hwf. now rewrite Hwf.
  - apply first_alt_r; [apply F92|]. apply first_alt_r.
    + pose proof Hwf as Hw. cbn [wf_el] in Hw. rewrite !andb_true_iff in Hw. destruct Hw as [[[[H1 _] Hh] _] _].
      destruct ds as [|d ds]; [discriminate|]. simpl in Hh. apply andb_true_iff in Hh as [Hd _].
      simpl app. apply (fails_cat_single _ (fun x => N.eqb x 92)); [reflexivity|]. now apply hex_not_nl.
    + apply first_hex_escape. cbn [wf_el] in *. exact Hwf.
  - apply first_alt_r; [apply F92|]. apply first_alt_r.
    + cbn [wf_el] in Hwf. apply andb_true_iff in Hwf as [Hx _]. apply negb_true_iff in Hx.
      simpl app. apply (fails_cat_single _ (fun x => N.eqb x 92)); [reflexivity|]. now apply lit_not_nl.
    + apply first_lit_escape. cbn [wf_el] in *. exact Hwf.
  - cbn [wf_el] in Hwf. rewrite !andb_true_iff in Hwf. destruct Hwf as [[_ Hnl] Hn].
    apply first_alt_r; [apply F92|]. apply first_alt_l.
    change (92%N :: nl) with ([92%N] ++ nl). apply first_cat.
    + now apply (first_single _ (fun x => N.eqb x 92)).
    + apply first_nl; auto.
Qed.

Lemma firstseq_str q els rest : q = 34%N \/ q = 39%N -> wf_els (str_plain q) true els rest = true ->
  FirstSeq (R:=nat) (m (body_alt q)) (map render_el els) rest.
Proof.
  intros Hq. induction els as [|e els IH]; cbn [wf_els map FirstSeq]; [trivial|].
  rewrite andb_true_iff. intros [He Hels]. repeat split.
  - apply render_el_nonempty.
  - now apply first_str_el.
  - now apply IH.
Qed.

Lemma first_quoted q els rest : q = 34%N \/ q = 39%N -> wf_els (str_plain q) true els (q :: rest) = true ->
  First (R:=nat) (m (Cat (Chr q) (Cat (str_body q) (Chr q)))) (q :: render els ++ [q]) rest.
Proof.
  intros Hq Hwf. change (q :: render els ++ [q]) with ([q] ++ (render els ++ [q])). apply first_cat.
  { apply (first_single _ (fun x => N.eqb x q)); [reflexivity|apply N.eqb_refl]. }
  apply first_cat.
  - unfold str_body, render. apply first_rep.
    + now apply (firstseq_str q).
    + lia.
    + exact I.
    + right. simpl app. destruct Hq as [-> | ->]; apply fc_fails; reflexivity.
  - apply (first_single _ (fun x => N.eqb x q)); [reflexivity|apply N.eqb_refl].
Qed.

Definition str_names : list str := [s "STRING"; s "INVALID"].
Lemma sel_str : exists ps, sel str_names = (s "STRING", re_STRING) :: ps.
Proof. exists (tl (sel str_names)). vm_compute. reflexivity. Qed.
Lemma range_dq : range_ok 34 (Some 34%N) str_names = true. Proof. vm_compute. reflexivity. Qed.
Lemma range_sq : range_ok 39 (Some 39%N) str_names = true. Proof. vm_compute. reflexivity. Qed.

Lemma string_lexeme q els rest : ok_follow (LStr q els) rest = true -> wins (LStr q els) rest.
Proof.
  cbn [ok_follow]. rewrite andb_true_iff, orb_true_iff, !N.eqb_eq. intros [Hq Hwf] dc prev.
  cbn [text cls]. destruct shapes_ok as (_ & _ & _ & _ & _ & _ & _ & Hs & _).
  destruct Hq as [-> | ->].
  - change ((34%N :: render els ++ [34%N]) ++ rest) with (34%N :: (render els ++ [34%N]) ++ rest).
    rewrite (dispatch_range _ _ _ range_dq) by reflexivity. destruct sel_str as [ps ->].
    change (34%N :: (render els ++ [34%N]) ++ rest) with ((34%N :: render els ++ [34%N]) ++ rest).
    apply hit_first; [|reflexivity]. rewrite Hs. unfold string_re. apply first_alt_l.
    apply first_quoted; auto.
  - change ((39%N :: render els ++ [39%N]) ++ rest) with (39%N :: (render els ++ [39%N]) ++ rest).
    rewrite (dispatch_range _ _ _ range_sq) by reflexivity. destruct sel_str as [ps ->].
    change (39%N :: (render els ++ [39%N]) ++ rest) with ((39%N :: render els ++ [39%N]) ++ rest).
    apply hit_first; [|reflexivity]. rewrite Hs. unfold string_re. apply first_alt_r.
    + apply fc_fails; reflexivity.
    + apply first_quoted; auto.
Qed.

(* ---- comments ---- *)
Definition is42 (x : N) : bool := N.eqb x 42.
Definition group_re : re :=
  Cat (Cls true [(47,47); (42,42)]%N) (Cat (Rep (NotChr 42) 0 None) (Rep (Chr 42) 1 None)).

Lemma stars_all n : forallb is42 (stars n) = true.
Proof. unfold stars. induction (S n) as [|k IH]; simpl; auto. Qed.

Lemma stars_len n : (1 <= length (stars n))%nat.
Proof. unfold stars. simpl. lia. Qed.

Definition ctail (gs : list cgroup) (rest : str) : str := concat (map group_text gs) ++ [47%N] ++ rest.

Lemma ctail_head gs rest : forallb wf_group gs = true -> head_not is42 (ctail gs rest) = true.
Proof.
  destruct gs as [|g gs]; [reflexivity|]. cbn [forallb]. rewrite andb_true_iff. intros [Hg _].
  unfold wf_group in Hg. rewrite !andb_true_iff, !negb_true_iff in Hg. destruct Hg as [[_ H] _].
  simpl. unfold is42. now rewrite H.
Qed.

Lemma first_seg seg rest : forallb not_star seg = true -> head_not (fun x => negb (N.eqb x 42)) rest = true ->
  First (R:=nat) (m (Rep (NotChr 42) 0 None)) seg rest.
Proof.
  intros Hs Hh. apply (first_run _ (fun x => negb (N.eqb x 42))); [reflexivity|exact Hs|lia|exact Hh].
Qed.

Lemma first_stars n rest : head_not is42 rest = true -> First (R:=nat) (m (Rep (Chr 42) 1 None)) (stars n) rest.
Proof.
  intros Hh. apply (first_run _ (fun x => N.eqb x 42)); [reflexivity|apply stars_all|apply stars_len|exact Hh].
Qed.

Lemma stars_head n t : head_not (fun x => negb (N.eqb x 42)) (stars n ++ t) = true.
Proof. reflexivity. Qed.

Lemma first_group g rest : wf_group g = true -> head_not is42 rest = true ->
  First (R:=nat) (m group_re) (group_text g) rest.
Proof.
  unfold wf_group. rewrite !andb_true_iff, !negb_true_iff. intros [[H47 H42] Hseg] Hh.
  unfold group_re, group_text. change (gc g :: gseg g ++ stars (gstars g)) with ([gc g] ++ (gseg g ++ stars (gstars g))).
  apply first_cat.
  - apply (first_single _ (fun x => xorb true (in_ranges x [(47,47); (42,42)]%N))); [reflexivity|].
    cbn [in_ranges]. revert H47 H42. ranges.
  - apply first_cat.
    + apply first_seg; [exact Hseg|apply stars_head].
    + now apply first_stars.
Qed.

Lemma firstseq_groups gs rest : forallb wf_group gs = true ->
  FirstSeq (R:=nat) (m group_re) (map group_text gs) (47%N :: rest).
Proof.
  induction gs as [|g gs IH]; cbn [forallb map FirstSeq]; [trivial|].
  rewrite andb_true_iff. intros [Hg Hgs]. repeat split.
  - discriminate.
  - apply first_group; [exact Hg|]. apply (ctail_head gs rest Hgs).
  - now apply IH.
Qed.

Definition com_names : list str := [s "COMMENT"; s "CHAR"].
Lemma sel_com : exists ps, sel com_names = (s "COMMENT", re_COMMENT) :: ps.
Proof. exists (tl (sel com_names)). vm_compute. reflexivity. Qed.
Lemma range_slash : range_ok 47 (Some 47%N) com_names = true. Proof. vm_compute. reflexivity. Qed.

Lemma comment_lexeme seg0 st0 gs rest : ok_follow (LComment seg0 st0 gs) rest = true -> wins (LComment seg0 st0 gs) rest.
Proof.
  cbn [ok_follow]. rewrite andb_true_iff. intros [Hseg Hgs] dc prev. cbn [text cls].
  set (body := 42%N :: seg0 ++ stars st0 ++ concat (map group_text gs) ++ [47%N]).
  change ((47%N :: body) ++ rest) with (47%N :: body ++ rest).
  rewrite (dispatch_range _ _ _ range_slash) by reflexivity. destruct sel_com as [ps ->].
  change (47%N :: body ++ rest) with ((47%N :: body) ++ rest).
  apply hit_first; [|reflexivity].
  destruct shapes_ok as (_ & _ & _ & _ & _ & _ & _ & _ & -> & _). unfold comment_re, body.
  change (47%N :: 42%N :: seg0 ++ stars st0 ++ concat (map group_text gs) ++ [47%N])
    with ([47%N] ++ [42%N] ++ seg0 ++ stars st0 ++ concat (map group_text gs) ++ [47%N]).
  apply first_cat; [now apply (first_single _ (fun x => N.eqb x 47))|].
  apply first_cat; [now apply (first_single _ (fun x => N.eqb x 42))|].
  apply first_cat; [apply first_seg; [exact Hseg|]; rewrite <- app_assoc; apply stars_head|].
  apply first_cat.
  { apply first_stars. rewrite <- app_assoc. apply (ctail_head gs rest Hgs). }
  apply first_cat.
  - apply first_rep.
    + now apply firstseq_groups.
    + lia.
    + exact I.
    + right. apply fails_cat_l. simpl app.
      apply (fails_single _ (fun x => xorb true (in_ranges x [(47,47); (42,42)]%N))); reflexivity.
  - now apply (first_single _ (fun x => N.eqb x 47)).
Qed.

(* ------------------------------------------------------------------ numbers *)
Definition D0 : re := Rep (Cls false dig_rs) 0 None.
Definition D1 : re := Rep (Cls false dig_rs) 1 None.
Definition digt (x : N) : bool := xorb false (in_ranges x dig_rs).
Definition sgnt (x : N) : bool := xorb false (in_ranges x [(43,43); (45,45)]%N).

Lemma digt_is x : digt x = is_dig x. Proof. apply xorb_false_l. Qed.
Lemma forallb_digt xs : forallb is_dig xs = true -> forallb digt xs = true.
Proof. intros H. rewrite <- H. apply forallb_ext'. apply digt_is. Qed.
Lemma head_digt t : hd_not is_dig t = true -> head_not digt t = true.
Proof. intros H. unfold digt. rewrite (head_not_xorb (fun x => in_ranges x dig_rs)). exact H. Qed.

Lemma fails_cat_assoc {R} a b c t : Fails (R:=R) (m (Cat a (Cat b c))) t -> Fails (R:=R) (m (Cat (Cat a b) c)) t.
Proof. intros F p k. exact (F p k). Qed.

Lemma fails_cat_chr_head {R} c b t : head_not (fun x => N.eqb x c) t = true -> Fails (R:=R) (m (Cat (Chr c) b)) t.
Proof. intros H. apply fails_cat_l. apply (fails_head _ (fun x => N.eqb x c)); [reflexivity|exact H]. Qed.

Lemma fails_cat_notbehind {R} c b t : Fails (R:=R) (m b) t -> Fails (R:=R) (m (Cat (NotBehind c) b)) t.
Proof. intros F p k. cbn [m]. destruct p as [x|]; [destruct (N.eqb x c)|]; auto. Qed.

Lemma skipn_app_le {A} i (xs rest : list A) : (i <= length xs)%nat -> skipn i (xs ++ rest) = skipn i xs ++ rest.
Proof. intros H. rewrite skipn_app. replace (i - length xs)%nat with O by lia. reflexivity. Qed.

(* what remains of xs ++ rest after dropping i <= |xs| characters starts with an element of xs or is rest *)
Lemma skipn_cases {A} i (xs : list A) : (i <= length xs)%nat ->
  (skipn i xs = [] /\ i = length xs) \/ exists x t, skipn i xs = x :: t /\ In x xs.
Proof.
  revert i. induction xs as [|x xs IH]; intros i Hi.
  - left. simpl in Hi. assert (i = O) by lia. subst. auto.
  - destruct i as [|i]; [right; exists x, xs; simpl; auto|]. simpl in Hi.
    destruct (IH i) as [[E L]|(y & t & E & Hin)]; [lia| |].
    + left. simpl. split; [exact E|lia].
    + right. exists y, t. simpl. auto.
Qed.

Lemma forallb_In {A} (f : A -> bool) l x : forallb f l = true -> In x l -> f x = true.
Proof. intros H Hin. rewrite forallb_forall in H. auto. Qed.

(* a continuation that fails on every digit-headed text and on `tail` fails after any part of a digit run *)
Lemma run_fails {R} a f b xs tail : chartest a = Some f -> forallb f xs = true -> head_not f tail = true ->
  (forall x t, f x = true -> Fails (R:=R) (m b) (x :: t)) -> Fails (R:=R) (m b) tail ->
  forall lo hi, Fails (R:=R) (m (Cat (Rep a lo hi) b)) (xs ++ tail).
Proof.
  intros Ha Hxs Hh Hb Ht lo hi. apply (fails_cat_run _ f); auto.
  intros i Hi. destruct (skipn_cases i xs Hi) as [[E _]|(x & t & E & Hin)]; rewrite E.
  - exact Ht.
  - simpl. apply Hb. now apply (forallb_In f xs).
Qed.

Definition numtail (n : num) (rest : str) : str :=
  match nfrac n with Some f => 46%N :: f ++ rest | None => rest end.

Lemma num_text_split n rest : num_text n ++ rest = nsign n ++ nint n ++ numtail n rest.
Proof. unfold num_text, numtail. destruct (nfrac n); rewrite <- !app_assoc; reflexivity. Qed.

Lemma in_signs t : mem_str t [[]; [43]; [45]]%N = true -> t = [] \/ t = [43%N] \/ t = [45%N].
Proof.
  cbn [mem_str]. rewrite !orb_true_iff, !eqs_spec. intros H.
  repeat (destruct H as [H|H]; [subst; tauto|]). discriminate.
Qed.

Section Num.
Variable n : num.
Variable rest : str.
Hypothesis Hwf : wf_num n = true.
Hypothesis Hnd : hd_not is_dig rest = true.
Hypothesis Hdot : nfrac n = None -> hd_not (is_c 46) rest = true.

Let Hsign : nsign n = [] \/ nsign n = [43%N] \/ nsign n = [45%N].
Proof. pose proof Hwf as Hw. unfold wf_num in Hw. rewrite !andb_true_iff in Hw. apply in_signs. tauto. Qed.
Let Hint : forallb is_dig (nint n) = true.
Proof. pose proof Hwf as Hw. unfold wf_num in Hw. rewrite !andb_true_iff in Hw. tauto. Qed.

Lemma numtail_nodig : hd_not is_dig (numtail n rest) = true.
Proof. unfold numtail. destruct (nfrac n); [reflexivity|exact Hnd]. Qed.

(* the text after the sign starts with a digit or the dot: not a sign character *)
Lemma body_head : head_not sgnt (nint n ++ numtail n rest) = true.
Proof.
  pose proof Hwf as Hw. unfold wf_num in Hw. rewrite !andb_true_iff in Hw. destruct Hw as [[_ Hi] Hf].
  destruct (nint n) as [|d ds] eqn:Ei.
  - unfold numtail. destruct (nfrac n); [reflexivity|]. simpl in Hf. discriminate.
  - simpl in Hi. apply andb_true_iff in Hi as [Hd _]. simpl. unfold sgnt, is_dig, dig_rs in *.
    cbn [in_ranges] in *. revert Hd. ranges.
Qed.

Lemma first_sign t : head_not sgnt t = true -> First (R:=nat) (m sign_re) (nsign n) t.
Proof.
  intros Ht. unfold sign_re. destruct Hsign as [->|[->| ->]].
  - apply first_rep_none. now apply (fails_head _ sgnt).
  - apply first_opt_one; [discriminate|]. now apply (first_single _ sgnt).
  - apply first_opt_one; [discriminate|]. now apply (first_single _ sgnt).
Qed.

(* ---- the NUMBER expression matches exactly the number ---- *)
Lemma first_num : First (R:=nat) (m num_re) (num_text n) rest.
Proof.
  pose proof body_head as Hb. unfold num_re, num_text.
  pose proof Hwf as Hw. unfold wf_num in Hw. rewrite !andb_true_iff in Hw. destruct Hw as [[_ Hi] Hf].
  unfold numtail in Hb. destruct (nfrac n) as [f|] eqn:Ef.
  - rewrite andb_true_iff, negb_true_iff in Hf. destruct Hf as [Hlen Hfd].
    apply first_alt_l. apply first_cat; [apply first_sign; rewrite <- app_assoc; exact Hb|].
    apply first_cat.
    { apply (first_run _ digt); [reflexivity|now apply forallb_digt|lia|reflexivity]. }
    change (46%N :: f) with ([46%N] ++ f). apply first_cat.
    { now apply (first_single _ (fun x => N.eqb x 46)). }
    apply (first_run _ digt); [reflexivity|now apply forallb_digt| |now apply head_digt].
    apply Nat.eqb_neq in Hlen. lia.
  - rewrite app_nil_r in *. rewrite negb_true_iff in Hf. apply Nat.eqb_neq in Hf.
    apply first_alt_r.
    + (* the alternative with a fraction cannot match *)
      rewrite <- app_assoc. unfold sign_re.
      apply (fails_cat_run _ sgnt); [reflexivity| |exact Hb|].
      { destruct Hsign as [->|[->| ->]]; reflexivity. }
      intros i Hi'. destruct (skipn_cases i (nsign n) Hi') as [[E _]|(x & t & E & Hin)]; rewrite E.
      * simpl app. apply (run_fails _ digt); [reflexivity|now apply forallb_digt|now apply head_digt| |].
        -- intros x t Hx. apply fails_cat_chr_head. simpl. unfold digt, dig_rs in Hx. cbn [in_ranges] in Hx.
           revert Hx. ranges.
        -- apply fails_cat_chr_head. specialize (Hdot eq_refl). destruct rest; [reflexivity|exact Hdot].
      * simpl app. apply (fails_cat_run _ digt _ _ _ []); [reflexivity|reflexivity| |].
        -- simpl. destruct Hsign as [Es|[Es|Es]]; rewrite Es in Hin; simpl in Hin; try tauto;
             destruct Hin as [<-|[]]; reflexivity.
        -- intros j Hj. simpl in Hj. assert (j = O) by lia. subst j. cbn [skipn app].
           apply fails_cat_chr_head. simpl.
           destruct Hsign as [Es|[Es|Es]]; rewrite Es in Hin; simpl in Hin; try tauto;
             destruct Hin as [<-|[]]; reflexivity.
    + apply first_cat; [apply first_sign; exact Hb|].
      apply (first_run _ digt); [reflexivity|now apply forallb_digt|lia|now apply head_digt].
Qed.

(* ---- num followed by something that is not there: DIMENSION / PERCENTAGE on a plain number ---- *)
Lemma num_cat_fails b :
  (forall x t, (is_dig x || N.eqb x 46) = true -> Fails (R:=nat) (m b) (x :: t)) ->
  Fails (R:=nat) (m b) rest ->
  Fails (R:=nat) (m (Cat num_re b)) (num_text n ++ rest).
Proof.
  intros Hb Hr. pose proof body_head as Hbh. rewrite num_text_split. unfold num_re.
  assert (Hbd : forall x t, digt x = true -> Fails (R:=nat) (m b) (x :: t)).
  { intros x t Hx. apply Hb. rewrite digt_is in Hx. now rewrite Hx. }
  assert (Hb46 : forall t, Fails (R:=nat) (m b) (46%N :: t)).
  { intros t. apply Hb. apply orb_true_r. }
  assert (Htail : Fails (R:=nat) (m b) (numtail n rest)).
  { unfold numtail. destruct (nfrac n); [apply Hb46|exact Hr]. }
  (* D1 b after the dot *)
  assert (Hfrac : Fails (R:=nat) (m (Cat (Chr 46) (Cat D1 b))) (numtail n rest)).
  { unfold numtail. destruct (nfrac n) as [f|] eqn:Ef.
    - apply (fails_cat_single _ (fun x => N.eqb x 46)); [reflexivity|].
      pose proof Hwf as Hw. unfold wf_num in Hw. rewrite Ef, !andb_true_iff in Hw. destruct Hw as [_ [_ Hfd]].
      apply (run_fails _ digt); [reflexivity|now apply forallb_digt|now apply head_digt|exact Hbd|exact Hr].
    - apply fails_cat_chr_head. specialize (Hdot eq_refl). destruct rest; [reflexivity|exact Hdot]. }
  apply fails_cat_alt; apply fails_cat_assoc; unfold sign_re.
  - apply (fails_cat_run _ sgnt); [reflexivity| |exact Hbh|].
    { destruct Hsign as [->|[->| ->]]; reflexivity. }
    intros i Hi. destruct (skipn_cases i (nsign n) Hi) as [[E _]|(x & t & E & Hin)]; rewrite E.
    + simpl app. apply fails_cat_assoc. apply (run_fails _ digt); [reflexivity|now apply forallb_digt|apply head_digt; apply numtail_nodig| |].
      * intros x t Hx. apply fails_cat_assoc. apply fails_cat_chr_head. simpl. unfold digt, dig_rs in Hx.
        cbn [in_ranges] in Hx. revert Hx. ranges.
      * apply fails_cat_assoc. exact Hfrac.
    + simpl app. apply fails_cat_assoc. apply (fails_cat_run _ digt _ _ _ []); [reflexivity|reflexivity| |].
      * simpl. destruct Hsign as [Es|[Es|Es]]; rewrite Es in Hin; simpl in Hin; try tauto;
          destruct Hin as [<-|[]]; reflexivity.
      * intros j Hj. simpl in Hj. assert (j = O) by lia. subst j. cbn [skipn app].
        apply fails_cat_assoc. apply fails_cat_chr_head. simpl.
        destruct Hsign as [Es|[Es|Es]]; rewrite Es in Hin; simpl in Hin; try tauto;
          destruct Hin as [<-|[]]; reflexivity.
  - apply (fails_cat_run _ sgnt); [reflexivity| |exact Hbh|].
    { destruct Hsign as [->|[->| ->]]; reflexivity. }
    intros i Hi. destruct (skipn_cases i (nsign n) Hi) as [[E _]|(x & t & E & Hin)]; rewrite E.
    + simpl app. apply (run_fails _ digt); [reflexivity|now apply forallb_digt|apply head_digt; apply numtail_nodig|exact Hbd|exact Htail].
    + simpl app. apply fails_cat_l. apply fails_rep_pos; [|discriminate].
      apply (fails_single _ digt); [reflexivity|].
      destruct Hsign as [Es|[Es|Es]]; rewrite Es in Hin; simpl in Hin; try tauto;
        destruct Hin as [<-|[]]; reflexivity.
Qed.
End Num.

(* ---- RATIO cannot take a number that is not followed by  w '/' w digit ---- *)
Definition wst (x : N) : bool := xorb false (in_ranges x ws_rs).
Lemma wst_is x : wst x = is_ws x. Proof. apply xorb_false_l. Qed.

Fixpoint take_ws (t : str) : str := match t with c :: r => if is_ws c then c :: take_ws r else [] | [] => [] end.

Lemma ws_split t : t = take_ws t ++ skip_ws t /\ forallb wst (take_ws t) = true /\ head_not wst (skip_ws t) = true.
Proof.
  induction t as [|c r IH]; [repeat split|]. simpl. destruct (is_ws c) eqn:E.
  - destruct IH as (E1 & E2 & E3). repeat split.
    + simpl. now rewrite <- E1.
    + simpl. now rewrite wst_is, E, E2.
    + exact E3.
  - repeat split. simpl. now rewrite wst_is, E.
Qed.

Lemma ws_not_dig x : wst x = true -> digt x = false.
Proof. unfold wst, digt, ws_rs, dig_rs. cbn [in_ranges]. ranges. Qed.
Lemma dig_not_ws x : digt x = true -> wst x = false.
Proof. unfold wst, digt, ws_rs, dig_rs. cbn [in_ranges]. ranges. Qed.
Lemma ws_not_47 x : wst x = true -> N.eqb x 47 = false.
Proof. unfold wst, ws_rs. cbn [in_ranges]. ranges. Qed.
Lemma dig_not_47 x : digt x = true -> N.eqb x 47 = false.
Proof. unfold digt, dig_rs. cbn [in_ranges]. ranges. Qed.

Lemma ratio_fails ds tail : ds <> [] -> forallb is_dig ds = true -> hd_not is_dig tail = true ->
  ratio_risk tail = false -> Fails (R:=nat) (m ratio_re) (ds ++ tail).
Proof.
  intros Hne Hds Hnd Hrisk. unfold ratio_re, ws_re. apply fails_cat_notbehind.
  assert (Hd0 : head_not wst (ds ++ tail) = true).
  { destruct ds as [|d ds']; [congruence|]. simpl in Hds. apply andb_true_iff in Hds as [Hd _].
    simpl. rewrite <- digt_is in Hd. now rewrite (dig_not_ws _ Hd). }
  apply (fails_cat_run _ wst _ _ _ []); [reflexivity|reflexivity|exact Hd0|].
  intros i Hi. simpl in Hi. assert (i = O) by lia. subst i. cbn [skipn app].
  apply (run_fails _ digt); [reflexivity|now apply forallb_digt|now apply head_digt| |].
  - intros x t Hx. apply (fails_cat_run _ wst _ _ _ []); [reflexivity|reflexivity| |].
    + simpl. now rewrite (dig_not_ws _ Hx).
    + intros j Hj. simpl in Hj. assert (j = O) by lia. subst j. cbn [skipn app].
      apply fails_cat_chr_head. simpl. now rewrite (dig_not_47 _ Hx).
  - destruct (ws_split tail) as (Et & Hw & Hr). unfold ratio_risk in Hrisk. rewrite Et.
    apply (run_fails _ wst); [reflexivity|exact Hw|exact Hr| |].
    + intros x t Hx. apply fails_cat_chr_head. simpl. now rewrite (ws_not_47 _ Hx).
    + destruct (skip_ws tail) as [|c r1]; [now apply fails_cat_chr_head|].
      destruct (N.eqb_spec c 47) as [->|Hc].
      * apply (fails_cat_single _ (fun x => N.eqb x 47)); [reflexivity|].
        destruct (ws_split r1) as (Er & Hw1 & Hr1). rewrite Er.
        apply (run_fails _ wst); [reflexivity|exact Hw1|exact Hr1| |].
        -- intros x t Hx. apply fails_cat_l. apply fails_rep_pos; [|discriminate].
           apply (fails_single _ digt); [reflexivity|now apply ws_not_dig].
        -- apply fails_cat_l. apply fails_rep_pos; [|discriminate].
           apply (fails_head _ digt); [reflexivity|]. apply head_digt.
           destruct (skip_ws r1) as [|d r2]; [reflexivity|]. simpl. now rewrite Hrisk.
      * apply fails_cat_chr_head. simpl. apply N.eqb_neq in Hc. now rewrite Hc.
Qed.

(* ---- an identifier cannot start here ---- *)
Lemma fc_nmstart_cont c : fc (Cat nmstart_re (Rep nmchar_re 0 None)) c = true -> nm_cont c = true.
Proof.
  unfold nm_cont, nmchar_plain, nmstart_re, nonascii_re, escape_re. cbn [fc nullable].
  unfold nmchar_rs, nmstart_rs. cbn [in_ranges]. ranges.
Qed.

Lemma nmstart_cat_fails b t : hd_not nm_cont t = true -> Fails (R:=nat) (m (Cat nmstart_re b)) t.
Proof.
  intros H. apply fails_cat_l. apply fc_head_fails; [reflexivity|].
  destruct t as [|c t]; [reflexivity|]. cbn [fc_head hd_not] in *. apply negb_true_iff in H.
  destruct (fc nmstart_re c) eqn:E; [|reflexivity].
  assert (nm_cont c = true); [|congruence]. apply fc_nmstart_cont. cbn [fc]. now rewrite E.
Qed.

(* ident / FUNCTION / '@'ident bodies fail on a text that does not start a name; also on '-' followed
   by something that is not a name start *)
Lemma dash_ident_fails b t : hd_not nm_cont t = true ->
  Fails (R:=nat) (m (Cat dash_re (Cat nmstart_re b))) t /\
  Fails (R:=nat) (m (Cat dash_re (Cat nmstart_re b))) (45%N :: t).
Proof.
  intros H. unfold dash_re. split.
  - apply (fails_cat_run _ (fun x => N.eqb x 45) _ _ _ []); [reflexivity|reflexivity| |].
    + destruct t as [|c t]; [reflexivity|]. simpl in *. apply negb_true_iff in H.
      destruct (N.eqb_spec c 45) as [->|]; [discriminate|reflexivity].
    + intros i Hi. simpl in Hi. assert (i = O) by lia. subst i. cbn [skipn app]. now apply nmstart_cat_fails.
  - change (45%N :: t) with ([45%N] ++ t).
    apply (fails_cat_run _ (fun x => N.eqb x 45)); [reflexivity|reflexivity| |].
    + destruct t as [|c t]; [reflexivity|]. simpl in *. apply negb_true_iff in H.
      destruct (N.eqb_spec c 45) as [->|]; [discriminate|reflexivity].
    + intros i Hi. simpl in Hi. destruct i as [|[|i]]; [| |lia]; cbn [skipn app].
      * apply fails_cat_l. apply fc_fails; reflexivity.
      * now apply nmstart_cat_fails.
Qed.

Lemma dig_dot_not_cont x : (is_dig x || N.eqb x 46) = true -> nm_cont x = false \/ is_dig x = true.
Proof. destruct (is_dig x); auto. simpl. intros H. apply N.eqb_eq in H. subst. left. reflexivity. Qed.

Lemma dash_ident_fails2 b t : fc_head nmstart_re t = false -> head_not (fun x => N.eqb x 45) t = true ->
  Fails (R:=nat) (m (Cat dash_re (Cat nmstart_re b))) t /\
  Fails (R:=nat) (m (Cat dash_re (Cat nmstart_re b))) (45%N :: t).
Proof.
  intros H H45. unfold dash_re.
  assert (F : Fails (R:=nat) (m (Cat nmstart_re b)) t).
  { apply fails_cat_l. now apply fc_head_fails. }
  split.
  - apply (fails_cat_run _ (fun x => N.eqb x 45) _ _ _ []); [reflexivity|reflexivity|exact H45|].
    intros i Hi. simpl in Hi. assert (i = O) by lia. subst i. cbn [skipn app]. exact F.
  - change (45%N :: t) with ([45%N] ++ t).
    apply (fails_cat_run _ (fun x => N.eqb x 45)); [reflexivity|reflexivity|exact H45|].
    intros i Hi. simpl in Hi. destruct i as [|[|i]]; [| |lia]; cbn [skipn app].
    + apply fails_cat_l. apply fc_fails; reflexivity.
    + exact F.
Qed.

Lemma dig_dot_nostart x : (is_dig x || N.eqb x 46) = true ->
  fc nmstart_re x = false /\ N.eqb x 45 = false.
Proof.
  unfold is_dig, dig_rs, nmstart_re, nonascii_re, escape_re. cbn [fc nullable in_ranges].
  unfold nmstart_rs. cbn [in_ranges]. ranges.
Qed.

Lemma ident_fails_digdot x t : (is_dig x || N.eqb x 46) = true -> Fails (R:=nat) (m ident_re) (x :: t).
Proof.
  intros H. destruct (dig_dot_nostart x H) as [H1 H2]. unfold ident_re.
  apply dash_ident_fails2; simpl; [exact H1|now rewrite H2].
Qed.

Lemma ident_fails_rest t : hd_not nm_cont t = true -> Fails (R:=nat) (m ident_re) t.
Proof. intros H. unfold ident_re. now apply dash_ident_fails. Qed.

(* head of an identifier: not a digit, dot, white space, slash or percent sign *)
Definition id_head_ok (c : N) : bool :=
  negb (is_dig c) && negb (N.eqb c 46) && negb (is_ws c) && negb (N.eqb c 47) && negb (N.eqb c 37).

Lemma ident_head d e0 els rest : wf_ident d e0 els rest = true ->
  exists c t, ident_text d e0 els ++ rest = c :: t /\ id_head_ok c = true.
Proof.
  unfold wf_ident, ident_text. rewrite !andb_true_iff. intros [[H0 _] _]. destruct d; cbn [dash_text].
  - eexists _, _. split; [reflexivity|reflexivity].
  - unfold render. cbn [map concat app]. destruct e0 as [c|ds t|c|nl]; cbn [render_el wf_el] in *; try discriminate.
    + eexists _, _. split; [reflexivity|]. unfold id_head_ok, nmstart_plain, nmstart_rs, is_dig, dig_rs, is_ws, ws_rs in *.
      cbn [in_ranges] in *. revert H0. ranges.
    + eexists _, _. split; [reflexivity|reflexivity].
    + eexists _, _. split; [reflexivity|reflexivity].
Qed.

Lemma head_ok_facts c t : id_head_ok c = true ->
  hd_not is_dig (c :: t) = true /\ hd_not (is_c 46) (c :: t) = true /\ ratio_risk (c :: t) = false /\
  hd_not (is_c 37) (c :: t) = true.
Proof.
  unfold id_head_ok. rewrite !andb_true_iff, !negb_true_iff. intros [[[[H1 H2] H3] H4] H5].
  unfold ratio_risk, is_c. cbn [hd_not skip_ws]. rewrite H1, H2, H3, H5. repeat split.
  destruct (N.eqb_spec c 47); [discriminate|]. destruct c as [|p]; [reflexivity|].
  do 6 (destruct p as [p|p|]; try reflexivity); congruence.
Qed.

(* ---- strip the productions in front of DIMENSION for a text that starts with a number ---- *)
Definition numprods (ps : list (str * re)) : list (str * re) :=
  (s "DIMENSION", re_DIMENSION) :: (s "PERCENTAGE", re_PERCENTAGE) :: (s "NUMBER", re_NUMBER) :: ps.

Definition dig_names : list str := [s "RATIO"; s "DIMENSION"; s "PERCENTAGE"; s "NUMBER"; s "CHAR"].
Definition sgn_names : list str := [s "DIMENSION"; s "PERCENTAGE"; s "NUMBER"; s "CHAR"].
Lemma range_dig : range_ok 48 (Some 57%N) dig_names = true. Proof. vm_compute. reflexivity. Qed.
Lemma range_plus : range_ok 43 (Some 43%N) sgn_names = true. Proof. vm_compute. reflexivity. Qed.
Lemma range_dot : range_ok 46 (Some 46%N) sgn_names = true. Proof. vm_compute. reflexivity. Qed.
Lemma sel_dig : exists ps, sel dig_names = (s "RATIO", re_RATIO) :: numprods ps.
Proof. exists (skipn 4 (sel dig_names)). vm_compute. reflexivity. Qed.
Lemma sel_sgn : exists ps, sel sgn_names = numprods ps.
Proof. exists (skipn 3 (sel sgn_names)). vm_compute. reflexivity. Qed.
Lemma sel_dash_num : exists ps, sel dash_names = (s "IDENT", re_IDENT) :: (s "FUNCTION", re_FUNCTION) :: numprods ps.
Proof. exists (skipn 5 (sel dash_names)). vm_compute. reflexivity. Qed.

Lemma num_dispatch n tail dc prev : wf_num n = true -> hd_not is_dig (numtail n tail) = true ->
  ratio_risk (numtail n tail) = false ->
  exists ps, try_prods productions dc false prev (num_text n ++ tail) =
             try_prods (numprods ps) dc false prev (num_text n ++ tail).
Proof.
  intros Hwf Hnd Hrisk. rewrite num_text_split.
  pose proof Hwf as Hw. unfold wf_num in Hw. rewrite !andb_true_iff in Hw. destruct Hw as [[Hs Hi] Hf].
  apply in_signs in Hs. destruct Hs as [Es|[Es|Es]]; rewrite Es; cbn [app].
  - destruct (nint n) as [|d ds] eqn:Ei.
    + unfold numtail in *. destruct (nfrac n) as [f|]; [|simpl in Hf; discriminate]. cbn [app].
      rewrite (dispatch_range _ _ _ range_dot) by reflexivity. destruct sel_sgn as [ps ->]. now exists ps.
    + pose proof Hi as Hi'. simpl in Hi'. apply andb_true_iff in Hi' as [Hd _].
      cbn [app]. rewrite (dispatch_range _ _ _ range_dig d).
      2:{ unfold in_rng. unfold is_dig, dig_rs in Hd. cbn [in_ranges] in Hd. now rewrite orb_false_r in Hd. }
      destruct sel_dig as [ps ->]. exists ps.
      change (d :: ds ++ numtail n tail) with ((d :: ds) ++ numtail n tail).
      apply miss_fails. destruct shapes_ok as (_ & _ & _ & _ & _ & _ & _ & _ & _ & _ & ->).
      apply ratio_fails; auto. discriminate.
  - rewrite (dispatch_range _ _ _ range_plus) by reflexivity. destruct sel_sgn as [ps ->]. now exists ps.
  - rewrite (dispatch_range _ _ _ range_dash) by reflexivity. destruct sel_dash_num as [ps ->]. exists ps.
    assert (Hh : exists x t, nint n ++ numtail n tail = x :: t /\ (is_dig x || N.eqb x 46) = true).
    { destruct (nint n) as [|d ds] eqn:Ei.
      - unfold numtail. destruct (nfrac n) as [f|]; [|simpl in Hf; discriminate]. eexists _, _. split; reflexivity.
      - simpl in Hi. apply andb_true_iff in Hi as [Hd _]. eexists _, _. split; [reflexivity|]. now rewrite Hd. }
    destruct Hh as (x & t & -> & Hx). destruct (dig_dot_nostart x Hx) as [H1 H2].
    destruct shapes_ok as (-> & -> & _).
    rewrite miss_fails.
    2:{ unfold ident_re. apply dash_ident_fails2; simpl; [exact H1|now rewrite H2]. }
    rewrite miss_fails.
    2:{ apply dash_ident_fails2; simpl; [exact H1|now rewrite H2]. }
    reflexivity.
Qed.

Lemma number_lexeme n rest : ok_follow (LNum n) rest = true -> wins (LNum n) rest.
Proof.
  cbn [ok_follow]. rewrite !andb_true_iff, negb_true_iff. intros [[[[Hwf Hcont] H37] H46] Hrisk] dc prev.
  cbn [text cls].
  assert (Hnd : hd_not is_dig rest = true).
  { destruct rest as [|c r]; [reflexivity|]. simpl in *. apply negb_true_iff in Hcont. apply negb_true_iff.
    unfold nm_cont, nmchar_plain, nmchar_rs, is_dig, dig_rs in *. cbn [in_ranges] in *. revert Hcont. ranges. }
  destruct (num_dispatch n rest dc prev Hwf) as [ps ->].
  - unfold numtail. destruct (nfrac n); [reflexivity|exact Hnd].
  - unfold numtail. destruct (nfrac n); [reflexivity|exact Hrisk].
  - unfold numprods. destruct shapes_ok as (_ & _ & -> & -> & -> & _).
    rewrite miss_fails.
    2:{ apply num_cat_fails; auto. intros x t Hx. now apply ident_fails_digdot. now apply ident_fails_rest. }
    rewrite miss_fails.
    2:{ apply num_cat_fails; auto.
        - intros x t Hx. apply (fails_single _ (fun y => N.eqb y 37)); [reflexivity|].
          unfold is_dig, dig_rs in Hx. cbn [in_ranges] in Hx. revert Hx. ranges.
        - apply (fails_head _ (fun y => N.eqb y 37)); [reflexivity|exact H37]. }
    apply hit_first; [|reflexivity]. apply first_num; auto.
Qed.

Lemma percentage_lexeme n rest : ok_follow (LPct n) rest = true -> wins (LPct n) rest.
Proof.
  cbn [ok_follow]. intros Hwf dc prev. cbn [text cls]. rewrite <- app_assoc.
  destruct (num_dispatch n ([37%N] ++ rest) dc prev Hwf) as [ps ->].
  - unfold numtail. destruct (nfrac n); reflexivity.
  - unfold numtail. destruct (nfrac n); reflexivity.
  - unfold numprods. destruct shapes_ok as (_ & _ & -> & -> & _).
    rewrite miss_fails.
    2:{ apply num_cat_fails; auto; try reflexivity.
        - intros x t Hx. now apply ident_fails_digdot.
        - now apply ident_fails_rest. }
    rewrite app_assoc. apply hit_first; [|reflexivity]. apply first_cat.
    + apply first_num; auto; reflexivity.
    + now apply (first_single _ (fun y => N.eqb y 37)).
Qed.

Lemma dimension_lexeme n d e0 els rest : ok_follow (LDim n d e0 els) rest = true -> wins (LDim n d e0 els) rest.
Proof.
  cbn [ok_follow]. rewrite andb_true_iff. intros [Hwf Hid] dc prev. cbn [text cls]. rewrite <- app_assoc.
  destruct (ident_head d e0 els rest Hid) as (c & t & Eh & Hc).
  destruct (head_ok_facts c t Hc) as (A1 & A2 & A3 & A4).
  destruct (num_dispatch n (ident_text d e0 els ++ rest) dc prev Hwf) as [ps ->].
  - unfold numtail. destruct (nfrac n); [reflexivity|]. now rewrite Eh.
  - unfold numtail. destruct (nfrac n); [reflexivity|]. now rewrite Eh.
  - unfold numprods. destruct shapes_ok as (_ & _ & -> & _).
    rewrite app_assoc. apply hit_first; [|reflexivity]. apply first_cat.
    + apply first_num; auto; rewrite Eh; auto.
    + now apply first_ident.
Qed.

(* ---- operators, CDO, CDC ---- *)
Lemma num_fails xs rest : forallb sgnt xs = true -> head_not sgnt rest = true ->
  hd_not is_dig rest = true -> hd_not (is_c 46) rest = true -> Fails (R:=nat) (m num_re) (xs ++ rest).
Proof.
  intros Hxs Hs Hd H46.
  assert (Hh : forall i, (i <= length xs)%nat -> exists t, (skipn i xs ++ rest = t) /\
            head_not digt t = true /\ head_not (fun x => N.eqb x 46) t = true).
  { intros i Hi. eexists. split; [reflexivity|].
    destruct (skipn_cases i xs Hi) as [[E _]|(x & t & E & Hin)]; rewrite E.
    - simpl. split; [now apply head_digt|]. destruct rest; [reflexivity|exact H46].
    - pose proof (forallb_In _ _ _ Hxs Hin) as Hx. simpl. unfold sgnt, digt, dig_rs in *.
      cbn [in_ranges] in *. revert Hx. ranges. }
  unfold num_re, sign_re. apply fails_alt.
  - apply (fails_cat_run _ sgnt); [reflexivity|exact Hxs|exact Hs|].
    intros i Hi. destruct (Hh i Hi) as (t & -> & T1 & T2).
    apply (fails_cat_run _ digt _ _ _ []); [reflexivity|reflexivity|exact T1|].
    intros j Hj. simpl in Hj. assert (j = O) by lia. subst j. cbn [skipn app]. now apply fails_cat_chr_head.
  - apply (fails_cat_run _ sgnt); [reflexivity|exact Hxs|exact Hs|].
    intros i Hi. destruct (Hh i Hi) as (t & -> & T1 & T2).
    apply fails_rep_pos; [|discriminate]. now apply (fails_head _ digt).
Qed.

Definition op_names (o : opkind) : list str := [op_name o; s "CHAR"].
Lemma range_ops :
  range_ok 126 (Some 126%N) (op_names OIncludes) = true /\ range_ok 124 (Some 124%N) (op_names ODash) = true /\
  range_ok 94 (Some 94%N) (op_names OPrefix) = true /\ range_ok 36 (Some 36%N) (op_names OSuffix) = true /\
  range_ok 42 (Some 42%N) (op_names OSubstr) = true /\ range_ok 60 (Some 60%N) (op_names OCdo) = true.
Proof. repeat split; vm_compute; reflexivity. Qed.

Lemma sel_ops :
  (exists ps, sel (op_names OIncludes) = (s "INCLUDES", re_INCLUDES) :: ps) /\
  (exists ps, sel (op_names ODash) = (s "DASHMATCH", re_DASHMATCH) :: ps) /\
  (exists ps, sel (op_names OPrefix) = (s "PREFIXMATCH", re_PREFIXMATCH) :: ps) /\
  (exists ps, sel (op_names OSuffix) = (s "SUFFIXMATCH", re_SUFFIXMATCH) :: ps) /\
  (exists ps, sel (op_names OSubstr) = (s "SUBSTRINGMATCH", re_SUBSTRINGMATCH) :: ps) /\
  (exists ps, sel (op_names OCdo) = (s "CDO", re_CDO) :: ps).
Proof.
  repeat split.
  - exists (tl (sel (op_names OIncludes))). vm_compute. reflexivity.
  - exists (tl (sel (op_names ODash))). vm_compute. reflexivity.
  - exists (tl (sel (op_names OPrefix))). vm_compute. reflexivity.
  - exists (tl (sel (op_names OSuffix))). vm_compute. reflexivity.
  - exists (tl (sel (op_names OSubstr))). vm_compute. reflexivity.
  - exists (tl (sel (op_names OCdo))). vm_compute. reflexivity.
Qed.

Lemma first_lit2 a b rest : First (R:=nat) (m (Cat (Chr a) (Chr b))) [a; b] rest.
Proof.
  change [a; b] with ([a] ++ [b]). apply first_cat.
  - apply (first_single _ (fun x => N.eqb x a)); [reflexivity|apply N.eqb_refl].
  - apply (first_single _ (fun x => N.eqb x b)); [reflexivity|apply N.eqb_refl].
Qed.

Lemma sel_dash_cdc : exists ps, sel dash_names =
  (s "IDENT", re_IDENT) :: (s "FUNCTION", re_FUNCTION) :: numprods ((s "CDC", re_CDC) :: ps).
Proof. exists (skipn 6 (sel dash_names)). vm_compute. reflexivity. Qed.

Lemma op_lexeme o rest : wins (LOp o) rest.
Proof.
  intros dc prev. destruct range_ops as (R1 & R2 & R3 & R4 & R5 & R6).
  destruct sel_ops as (S1 & S2 & S3 & S4 & S5 & S6).
  destruct o; cbn [text cls op_text op_name].
  - change (s "~=") with [126%N; 61%N]. cbn [app].
    rewrite (dispatch_range _ _ _ R1) by reflexivity. destruct S1 as [ps ->].
    apply (hit_first _ _ _ _ _ [126%N; 61%N]); [apply first_lit2|reflexivity].
  - change (s "|=") with [124%N; 61%N]. cbn [app].
    rewrite (dispatch_range _ _ _ R2) by reflexivity. destruct S2 as [ps ->].
    apply (hit_first _ _ _ _ _ [124%N; 61%N]); [apply first_lit2|reflexivity].
  - change (s "^=") with [94%N; 61%N]. cbn [app].
    rewrite (dispatch_range _ _ _ R3) by reflexivity. destruct S3 as [ps ->].
    apply (hit_first _ _ _ _ _ [94%N; 61%N]); [apply first_lit2|reflexivity].
  - change (s "$=") with [36%N; 61%N]. cbn [app].
    rewrite (dispatch_range _ _ _ R4) by reflexivity. destruct S4 as [ps ->].
    apply (hit_first _ _ _ _ _ [36%N; 61%N]); [apply first_lit2|reflexivity].
  - change (s "*=") with [42%N; 61%N]. cbn [app].
    rewrite (dispatch_range _ _ _ R5) by reflexivity. destruct S5 as [ps ->].
    apply (hit_first _ _ _ _ _ [42%N; 61%N]); [apply first_lit2|reflexivity].
  - change (s "<!--") with [60%N; 33%N; 45%N; 45%N]. cbn [app].
    rewrite (dispatch_range _ _ _ R6) by reflexivity. destruct S6 as [ps ->].
    apply (hit_first _ _ _ _ _ [60%N; 33%N; 45%N; 45%N]); [|reflexivity].
    change [60%N; 33%N; 45%N; 45%N] with ([60%N] ++ [33%N] ++ [45%N] ++ [45%N]). unfold re_CDO.
    repeat (apply first_cat; [eapply first_single; [reflexivity|reflexivity]|]).
    eapply first_single; [reflexivity|reflexivity].
  - (* CDC: '-->' ; IDENT, FUNCTION and the numeric productions start with '-' too *)
    change (s "-->") with [45%N; 45%N; 62%N]. cbn [app].
    rewrite (dispatch_range _ _ _ range_dash) by reflexivity. destruct sel_dash_cdc as [ps ->].
    unfold numprods. destruct shapes_ok as (-> & -> & -> & -> & -> & _).
    assert (Fid : forall b, Fails (R:=nat) (m (Cat dash_re (Cat nmstart_re b))) ([45%N; 45%N] ++ 62%N :: rest)).
    { intros b. unfold dash_re. apply (fails_cat_run _ (fun x => N.eqb x 45)); [reflexivity|reflexivity|reflexivity|].
      intros i Hi. simpl in Hi. destruct i as [|[|[|i]]]; [| | |lia]; cbn [skipn app];
        apply fails_cat_l; apply fc_fails; reflexivity. }
    assert (Fnum : Fails (R:=nat) (m num_re) ([45%N; 45%N] ++ 62%N :: rest)).
    { apply num_fails; reflexivity. }
    change (45%N :: 45%N :: 62%N :: rest) with ([45%N; 45%N] ++ 62%N :: rest).
    rewrite miss_fails by apply Fid. rewrite miss_fails by apply Fid.
    rewrite miss_fails by (apply fails_cat_l; exact Fnum).
    rewrite miss_fails by (apply fails_cat_l; exact Fnum).
    rewrite miss_fails by exact Fnum.
    change ([45%N; 45%N] ++ 62%N :: rest) with ([45%N; 45%N; 62%N] ++ rest).
    apply hit_first; [|reflexivity]. unfold re_CDC.
    change [45%N; 45%N; 62%N] with ([45%N] ++ [45%N] ++ [62%N]).
    repeat (apply first_cat; [eapply first_single; [reflexivity|reflexivity]|]).
    eapply first_single; [reflexivity|reflexivity].
Qed.

(* ---- delimiters that start no other token ---- *)
Definition only_char (c : N) : bool :=
  forallb (fun p => eqs (fst p) (s "CHAR") || negb (fc (snd p) c)) productions.
Lemma pure_only_char : forallb only_char pure_delims = true.
Proof. vm_compute. reflexivity. Qed.
Lemma sel_char : filter (fun p => eqs (fst p) (s "CHAR")) productions = [(s "CHAR", re_CHAR)].
Proof. vm_compute. reflexivity. Qed.

Lemma pure_delim_lexeme c rest : mem c pure_delims = true -> wins (LDelim c) rest.
Proof.
  intros Hc dc prev. cbn [text cls app].
  pose proof pure_only_char as Hp. rewrite forallb_forall in Hp. apply mem_In in Hc.
  pose proof (Hp c Hc) as Ho. unfold only_char in Ho. rewrite forallb_forall in Ho.
  rewrite (try_prods_filter (fun p => eqs (fst p) (s "CHAR"))).
  - rewrite sel_char. apply (hit_first _ _ _ _ _ [c]); [|reflexivity].
    unfold re_CHAR. apply (first_single _ (fun x => xorb true (in_ranges x [(34,34); (39,39)]%N))); [reflexivity|].
    clear -Hc. unfold pure_delims in Hc. simpl in Hc.
    repeat (destruct Hc as [<-|Hc]; [reflexivity|]). contradiction.
  - intros n r Hin Hk. cbn [fst] in Hk. specialize (Ho _ Hin). cbn [fst snd] in Ho. rewrite Hk in Ho.
    cbn [orb] in Ho. apply negb_true_iff in Ho. apply fails_rmatch. apply fc_fails; [|exact Ho].
    now apply (prod_nonnullable n).
Qed.


(* ------------------------------------------------------------------ FUNCTION versus IDENT *)
Lemma sel_id2 : exists ps, sel id_names = (s "IDENT", re_IDENT) :: (s "FUNCTION", re_FUNCTION) :: ps.
Proof. exists (skipn 2 (sel id_names)). vm_compute. reflexivity. Qed.
Lemma sel_dash2 : exists ps, sel dash_names = (s "IDENT", re_IDENT) :: (s "FUNCTION", re_FUNCTION) :: ps.
Proof. exists (skipn 2 (sel dash_names)). vm_compute. reflexivity. Qed.

Lemma first_function d e0 els rest : wf_ident d e0 els (40%N :: rest) = true ->
  First (R:=nat) (m (Cat dash_re (Cat nmstart_re (Cat (Rep nmchar_re 0 None) (Chr 40))))) (ident_text d e0 els ++ [40%N]) rest.
Proof.
  unfold wf_ident. rewrite !andb_true_iff. intros [[H0 Hels] Hn].
  unfold ident_text, render. cbn [map concat].
  replace ((dash_text d ++ render_el e0 ++ concat (map render_el els)) ++ [40%N])
    with (dash_text d ++ (render_el e0 ++ (concat (map render_el els) ++ [40%N])))
    by (rewrite <- !app_assoc; reflexivity).
  apply first_cat.
  - apply first_dash. intros _. rewrite <- !app_assoc. cbn [app]. now apply el_head_not_dash.
  - apply first_cat.
    + rewrite <- !app_assoc. cbn [app].
      apply (first_nm_el nmstart_rs nmstart_plain); [reflexivity|reflexivity|exact H0].
    + apply first_cat.
      * apply first_nmchars; [exact Hels|exact Hn|lia].
      * now apply (first_single _ (fun x => N.eqb x 40)).
Qed.

(* ident ( : IDENT matches the name but is skipped (next character is the parenthesis and the raw
   name is not "and" in any letter case), FUNCTION takes name + parenthesis *)
Lemma function_hit ps dc prev d e0 els rest :
  wf_ident d e0 els (40%N :: rest) = true -> eqs (lower (ident_text d e0 els)) (s "and") = false ->
  try_prods ((s "IDENT", re_IDENT) :: (s "FUNCTION", re_FUNCTION) :: ps) dc false prev
            ((ident_text d e0 els ++ [40%N]) ++ rest) =
  Some (Step (s "FUNCTION") (ident_text d e0 els ++ [40%N]) true).
Proof.
  intros Hwf Hand. destruct shapes_ok as (Hi & Hf & _).
  rewrite (try_prods_ident_skip _ _ _ _ _ (length (ident_text d e0 els))).
  - apply hit_first; [|reflexivity]. rewrite Hf. now apply first_function.
  - rewrite Hi, <- app_assoc. apply first_rmatch. now apply first_ident.
  - rewrite <- app_assoc, firstn_app_exact. exact Hand.
  - rewrite <- app_assoc, skipn_app_exact. reflexivity.
Qed.

Lemma function_lexeme_plain d e0 els rest : wf_ident d e0 els (40%N :: rest) = true -> plain_first d e0 = true ->
  eqs (lower (ident_text d e0 els)) (s "and") = false ->
  forall dc prev, try_prods productions dc false prev ((ident_text d e0 els ++ [40%N]) ++ rest) =
                  Some (Step (s "FUNCTION") (ident_text d e0 els ++ [40%N]) true).
Proof.
  intros Hwf Hfirst Hand dc prev.
  destruct d.
  - unfold ident_text at 1. cbn [dash_text]. change ((([45%N] ++ render (e0 :: els)) ++ [40%N]) ++ rest)
      with (45%N :: (render (e0 :: els) ++ [40%N]) ++ rest).
    rewrite (dispatch_range _ _ _ range_dash) by reflexivity. destruct sel_dash2 as [ps ->].
    change (45%N :: (render (e0 :: els) ++ [40%N]) ++ rest) with ((ident_text true e0 els ++ [40%N]) ++ rest).
    now apply function_hit.
  - cbn [plain_first orb] in Hfirst. destruct e0 as [c| | |]; try discriminate.
    assert (Hc : nmstart_plain c = true).
    { unfold wf_ident in Hwf. rewrite !andb_true_iff in Hwf. tauto. }
    pose proof (function_hit) as Hit.
    unfold ident_text at 1. cbn [dash_text app render map concat render_el].
    change ((([c] ++ concat (map render_el els)) ++ [40%N]) ++ rest)
      with (c :: (concat (map render_el els) ++ [40%N]) ++ rest).
    destruct (plain_start_cases c Hc Hfirst) as [R|[R|[R|[R|[R|R]]]]].
    + rewrite (dispatch_range _ _ _ range_id1 c R). destruct sel_id2 as [ps ->]. now apply (Hit ps dc prev false (P c)).
    + rewrite (dispatch_range _ _ _ range_id2 c R). destruct sel_id2 as [ps ->]. now apply (Hit ps dc prev false (P c)).
    + rewrite (dispatch_range _ _ _ range_id3 c R). destruct sel_id2 as [ps ->]. now apply (Hit ps dc prev false (P c)).
    + rewrite (dispatch_range _ _ _ range_id4 c R). destruct sel_id2 as [ps ->]. now apply (Hit ps dc prev false (P c)).
    + rewrite (dispatch_range _ _ _ range_id5 c R). destruct sel_id2 as [ps ->]. now apply (Hit ps dc prev false (P c)).
    + rewrite (dispatch_range _ _ _ range_id6 c R). destruct sel_id2 as [ps ->]. now apply (Hit ps dc prev false (P c)).
Qed.

(* ------------------------------------------------------------------ context-dependent delimiters *)
Lemma fails_opt1_cat a f b x t : chartest a = Some f ->
  Fails (R:=nat) (m b) (x :: t) -> (f x = true -> Fails (R:=nat) (m b) t) ->
  Fails (R:=nat) (m (Cat (Rep a 0 (Some 1%nat)) b)) (x :: t).
Proof.
  intros Ha F1 F2 p k. cbn [m length rep_iter]. rewrite (m_single _ _ Ha).
  destruct (f x) eqn:Ex.
  - rewrite (ltb_len_S' x). cbn [Nat.pred option_map]. rewrite (F2 eq_refl (Some x) k). apply (F1 p k).
  - apply (F1 p k).
Qed.

Lemma fails_opt1_nil a b : Fails (R:=nat) (m b) [] -> Fails (R:=nat) (m (Cat (Rep a 0 (Some 1%nat)) b)) [].
Proof.
  intros F p k. cbn [m length rep_iter].
  destruct (m a p [] _) as [v|] eqn:E.
  - apply m_sound in E as (p' & t' & E & L & _). destruct t'; [|simpl in L; lia]. simpl in E. discriminate.
  - apply F.
Qed.

Lemma char_hit ps dc prev c rest : N.eqb c 34 = false -> N.eqb c 39 = false ->
  try_prods ((s "CHAR", re_CHAR) :: ps) dc false prev (c :: rest) = Some (Step (s "CHAR") [c] true).
Proof.
  intros H1 H2. apply (hit_first _ _ _ _ _ [c]); [|reflexivity]. unfold re_CHAR.
  apply (first_single _ (fun x => xorb true (in_ranges x [(34,34); (39,39)]%N))); [reflexivity|].
  cbn [in_ranges]. revert H1 H2. ranges.
Qed.

(* num cannot match at u: u starts neither with a digit nor with '.' digit *)
Definition nonum (u : str) : bool := hd_not is_dig u && negb (dot_digit u).

Lemma nonum_fails u : nonum u = true ->
  Fails (R:=nat) (m (Cat D0 (Cat (Chr 46) D1))) u /\ Fails (R:=nat) (m D1) u.
Proof.
  unfold nonum. rewrite andb_true_iff, negb_true_iff. intros [Hd Hdot].
  assert (F2 : Fails (R:=nat) (m D1) u).
  { apply fails_rep_pos; [|discriminate]. apply (fails_head _ digt); [reflexivity|now apply head_digt]. }
  split; [|exact F2]. unfold D0.
  apply (fails_cat_run _ digt _ _ _ []); [reflexivity|reflexivity|now apply head_digt|].
  intros i Hi. simpl in Hi. assert (i = O) by lia. subst i. cbn [skipn app].
  destruct u as [|x t]; [now apply fails_cat_chr_head|].
  destruct (N.eqb_spec x 46) as [->|Hx].
  - apply (fails_cat_single _ (fun y => N.eqb y 46)); [reflexivity|].
    apply fails_rep_pos; [|discriminate]. apply (fails_head _ digt); [reflexivity|]. apply head_digt.
    destruct t as [|d r]; [reflexivity|]. simpl in Hdot. simpl. now rewrite Hdot.
  - apply fails_cat_chr_head. simpl. apply N.eqb_neq in Hx. now rewrite Hx.
Qed.

Lemma num_fails_x x t : nonum (x :: t) = true -> (sgnt x = true -> nonum t = true) ->
  Fails (R:=nat) (m num_re) (x :: t).
Proof.
  intros H1 H2. destruct (nonum_fails _ H1) as [A1 B1]. unfold num_re, sign_re. apply fails_alt.
  - apply (fails_opt1_cat _ sgnt); [reflexivity|exact A1|]. intros Hs. now destruct (nonum_fails _ (H2 Hs)).
  - apply (fails_opt1_cat _ sgnt); [reflexivity|exact B1|]. intros Hs. now destruct (nonum_fails _ (H2 Hs)).
Qed.

Lemma nmstart_at_fails b t : nmstart_at t = false -> Fails (R:=nat) (m (Cat nmstart_re b)) t.
Proof.
  intros H. apply fails_cat_l. destruct t as [|c r]; [apply fails_nil; reflexivity|].
  cbn [nmstart_at] in H. apply orb_false_iff in H as [Hp Hb]. unfold nmstart_plain in Hp.
  apply orb_false_iff in Hp as [Hr H128]. unfold nmstart_re, nonascii_re.
  apply fails_alt; [|apply fails_alt].
  - apply (fails_single _ (fun x => xorb false (in_ranges x nmstart_rs))); [reflexivity|]. now rewrite Hr.
  - apply (fails_single _ (fun x => xorb true (in_ranges x [(0,127)]%N))); [reflexivity|].
    cbn [in_ranges]. apply N.leb_gt in H128. ranges.
  - unfold escape_re. destruct (N.eqb_spec c 92) as [->|Hc].
    + apply (fails_cat_single _ (fun x => N.eqb x 92)); [reflexivity|]. simpl in Hb.
      destruct r as [|c2 r2]; [apply fails_nil; reflexivity|]. apply negb_false_iff in Hb.
      unfold is_nlc in Hb. cbn [in_ranges] in Hb. unfold esc_tail, uni_tail. apply fails_alt.
      * apply fails_cat_l. apply fails_rep_pos; [|discriminate].
        apply (fails_single _ (fun x => xorb false (in_ranges x hex_rs))); [reflexivity|].
        unfold hex_rs. cbn [in_ranges]. revert Hb. ranges.
      * apply (fails_single _ (fun x => xorb true (in_ranges x lit_excl_rs))); [reflexivity|].
        unfold lit_excl_rs. cbn [in_ranges]. revert Hb. ranges.
    + apply fails_cat_l. apply (fails_single _ (fun x => N.eqb x 92)); [reflexivity|]. now apply N.eqb_neq.
Qed.

Lemma ident_at_fails b t : ident_at t = false -> Fails (R:=nat) (m (Cat dash_re (Cat nmstart_re b))) t.
Proof.
  intros H. unfold dash_re. destruct t as [|x r].
  - apply fails_opt1_nil. now apply nmstart_at_fails.
  - apply (fails_opt1_cat _ (fun y => N.eqb y 45)); [reflexivity| |].
    + apply nmstart_at_fails. destruct (N.eqb_spec x 45) as [->|Hx]; [reflexivity|].
      unfold ident_at in H. destruct x as [|q]; [exact H|].
      do 6 (destruct q as [q|q|]; try exact H); congruence.
    + intros Hx. apply N.eqb_eq in Hx. subst x. apply nmstart_at_fails. exact H.
Qed.

Lemma sel_ops2 :
  sel (op_names OIncludes) = [(s "INCLUDES", re_INCLUDES); (s "CHAR", re_CHAR)] /\
  sel (op_names ODash) = [(s "DASHMATCH", re_DASHMATCH); (s "CHAR", re_CHAR)] /\
  sel (op_names OPrefix) = [(s "PREFIXMATCH", re_PREFIXMATCH); (s "CHAR", re_CHAR)] /\
  sel (op_names OSuffix) = [(s "SUFFIXMATCH", re_SUFFIXMATCH); (s "CHAR", re_CHAR)] /\
  sel (op_names OSubstr) = [(s "SUBSTRINGMATCH", re_SUBSTRINGMATCH); (s "CHAR", re_CHAR)] /\
  sel (op_names OCdo) = [(s "CDO", re_CDO); (s "CHAR", re_CHAR)] /\
  sel com_names = [(s "COMMENT", re_COMMENT); (s "CHAR", re_CHAR)] /\
  sel sgn_names = numprods [(s "CHAR", re_CHAR)] /\
  sel dash_names = (s "IDENT", re_IDENT) :: (s "FUNCTION", re_FUNCTION) :: numprods [(s "CDC", re_CDC); (s "CHAR", re_CHAR)].
Proof. repeat split; vm_compute; reflexivity. Qed.

Lemma lit2_fails a b rest : hd_not (is_c b) rest = true -> Fails (R:=nat) (m (Cat (Chr a) (Chr b))) (a :: rest).
Proof.
  intros H. apply (fails_cat_single _ (fun x => N.eqb x a)); [reflexivity|].
  apply (fails_head _ (fun x => N.eqb x b)); [reflexivity|exact H].
Qed.

Lemma ctx_delim_lexeme c rest : ctx_delim_ok c rest = true -> c <> 92%N -> wins (LDelim c) rest.
Proof.
  intros H Hnbs dc prev. cbn [text cls app]. unfold ctx_delim_ok in H.
  destruct range_ops as (R1 & R2 & R3 & R4 & R5 & R6).
  destruct sel_ops2 as (S1 & S2 & S3 & S4 & S5 & S6 & S7 & S8 & S9).
  destruct (mem c (s "~|^$*")) eqn:Eop.
  { apply mem_In in Eop. simpl in Eop.
    destruct Eop as [<-|[<-|[<-|[<-|[<-|[]]]]]].
    - rewrite (dispatch_range _ _ _ R1) by reflexivity. rewrite S1, miss_fails by (now apply lit2_fails). now apply char_hit.
    - rewrite (dispatch_range _ _ _ R2) by reflexivity. rewrite S2, miss_fails by (now apply lit2_fails). now apply char_hit.
    - rewrite (dispatch_range _ _ _ R3) by reflexivity. rewrite S3, miss_fails by (now apply lit2_fails). now apply char_hit.
    - rewrite (dispatch_range _ _ _ R4) by reflexivity. rewrite S4, miss_fails by (now apply lit2_fails). now apply char_hit.
    - rewrite (dispatch_range _ _ _ R5) by reflexivity. rewrite S5, miss_fails by (now apply lit2_fails). now apply char_hit. }
  destruct (N.eqb_spec c 47) as [->|_].
  { rewrite (dispatch_range _ _ _ range_slash) by reflexivity. rewrite S7.
    destruct shapes_ok as (_ & _ & _ & _ & _ & _ & _ & _ & -> & _).
    rewrite miss_fails; [now apply char_hit|]. unfold comment_re.
    apply (fails_cat_single _ (fun x => N.eqb x 47)); [reflexivity|]. now apply fails_cat_chr_head. }
  destruct (N.eqb_spec c 46) as [->|_].
  { rewrite (dispatch_range _ _ _ range_dot) by reflexivity. rewrite S8. unfold numprods.
    destruct shapes_ok as (_ & _ & -> & -> & -> & _).
    assert (F : Fails (R:=nat) (m num_re) (46%N :: rest)).
    { apply num_fails_x; [|intros Hs; discriminate Hs]. unfold nonum. cbn [hd_not dot_digit].
      destruct rest as [|d r]; [reflexivity|]. simpl in H. apply negb_true_iff in H. now rewrite H. }
    rewrite miss_fails by (now apply fails_cat_l). rewrite miss_fails by (now apply fails_cat_l).
    rewrite miss_fails by exact F. now apply char_hit. }
  destruct (N.eqb_spec c 43) as [->|_].
  { rewrite (dispatch_range _ _ _ range_plus) by reflexivity. rewrite S8. unfold numprods.
    destruct shapes_ok as (_ & _ & -> & -> & -> & _).
    assert (F : Fails (R:=nat) (m num_re) (43%N :: rest)).
    { apply num_fails_x; [reflexivity|]. intros _. exact H. }
    rewrite miss_fails by (now apply fails_cat_l). rewrite miss_fails by (now apply fails_cat_l).
    rewrite miss_fails by exact F. now apply char_hit. }
  destruct (N.eqb_spec c 60) as [->|_].
  { rewrite (dispatch_range _ _ _ R6) by reflexivity. rewrite S6.
    rewrite miss_fails; [now apply char_hit|]. unfold re_CDO.
    apply (fails_cat_single _ (fun x => N.eqb x 60)); [reflexivity|]. apply negb_true_iff in H.
    destruct rest as [|a r]; [now apply fails_cat_chr_head|].
    destruct (N.eqb_spec a 33) as [->|Ha]; [|apply fails_cat_chr_head; simpl; apply N.eqb_neq in Ha; now rewrite Ha].
    apply (fails_cat_single _ (fun x => N.eqb x 33)); [reflexivity|].
    destruct r as [|b r]; [now apply fails_cat_chr_head|].
    destruct (N.eqb_spec b 45) as [->|Hb]; [|apply fails_cat_chr_head; simpl; apply N.eqb_neq in Hb; now rewrite Hb].
    apply (fails_cat_single _ (fun x => N.eqb x 45)); [reflexivity|].
    apply (fails_head _ (fun x => N.eqb x 45)); [reflexivity|].
    destruct r as [|d r]; [reflexivity|]. simpl in H. simpl.
    destruct (N.eqb_spec d 45) as [->|]; [discriminate H|reflexivity]. }
  destruct (N.eqb_spec c 64) as [->|_].
  { rewrite (dispatch_range _ _ _ range_at) by reflexivity. rewrite sel_at.
    destruct shapes_ok as (_ & _ & _ & _ & _ & _ & -> & _).
    rewrite miss_fails; [now apply char_hit|].
    apply (fails_cat_single _ (fun x => N.eqb x 64)); [reflexivity|]. unfold ident_re.
    apply ident_at_fails. now apply negb_true_iff in H. }
  destruct (N.eqb_spec c 35) as [->|_].
  { rewrite (dispatch_range _ _ _ range_hash) by reflexivity. rewrite sel_hash.
    destruct shapes_ok as (_ & _ & _ & _ & _ & -> & _).
    rewrite miss_fails; [now apply char_hit|].
    apply (fails_cat_single _ (fun x => N.eqb x 35)); [reflexivity|].
    apply fails_rep_pos; [|discriminate]. now apply nmchar_stops. }
  destruct (N.eqb_spec c 45) as [->|_].
  2:{ destruct (N.eqb_spec c 92); [congruence|discriminate H]. }
  rewrite !andb_true_iff, !negb_true_iff in H. destruct H as [[[Hns Hd] Hdot] Hcdc].
  rewrite (dispatch_range _ _ _ range_dash) by reflexivity. rewrite S9. unfold numprods.
  destruct shapes_ok as (-> & -> & -> & -> & -> & _).
  assert (Fid : forall b, Fails (R:=nat) (m (Cat dash_re (Cat nmstart_re b))) (45%N :: rest)).
  { intros b. apply ident_at_fails. exact Hns. }
  assert (F : Fails (R:=nat) (m num_re) (45%N :: rest)).
  { apply num_fails_x; [reflexivity|]. intros _. unfold nonum. now rewrite Hd, Hdot. }
  rewrite miss_fails by apply Fid. rewrite miss_fails by apply Fid.
  rewrite miss_fails by (now apply fails_cat_l). rewrite miss_fails by (now apply fails_cat_l).
  rewrite miss_fails by exact F. rewrite miss_fails; [now apply char_hit|].
  unfold re_CDC. apply (fails_cat_single _ (fun x => N.eqb x 45)); [reflexivity|].
  destruct rest as [|a r]; [now apply fails_cat_chr_head|].
  destruct (N.eqb_spec a 45) as [->|Ha]; [|apply fails_cat_chr_head; simpl; apply N.eqb_neq in Ha; now rewrite Ha].
  apply (fails_cat_single _ (fun x => N.eqb x 45)); [reflexivity|].
  apply (fails_head _ (fun x => N.eqb x 62)); [reflexivity|].
  destruct r as [|d r]; [reflexivity|]. simpl in Hcdc. simpl.
  destruct (N.eqb_spec d 62) as [->|]; [discriminate Hcdc|reflexivity].
Qed.


(* ------------------------------------------------------------------ fast-path characters, token value *)
Lemma fast_only_char : forallb only_char fastchars = true.
Proof. vm_compute. reflexivity. Qed.

Lemma fast_not_quote c : mem c fastchars = true -> xorb true (in_ranges c [(34,34); (39,39)]%N) = true.
Proof.
  intros Hc. apply mem_In in Hc. unfold fastchars in Hc. simpl in Hc.
  repeat (destruct Hc as [<-|Hc]; [reflexivity|]). contradiction.
Qed.

Lemma fast_char_wins c t dc prev : mem c fastchars = true ->
  try_prods productions dc false prev (c :: t) = Some (Step (s "CHAR") [c] true).
Proof.
  intros Hc. pose proof fast_only_char as Hp. rewrite forallb_forall in Hp.
  pose proof (Hp c (proj1 (mem_In _ _) Hc)) as Ho. unfold only_char in Ho. rewrite forallb_forall in Ho.
  rewrite (try_prods_filter (fun p => eqs (fst p) (s "CHAR"))).
  - rewrite sel_char. apply (hit_first _ _ _ _ _ [c]); [|reflexivity].
    unfold re_CHAR. apply (first_single _ (fun x => xorb true (in_ranges x [(34,34); (39,39)]%N))); [reflexivity|].
    now apply fast_not_quote.
  - intros n r Hin Hk. cbn [fst] in Hk. specialize (Ho _ Hin). cbn [fst snd] in Ho. rewrite Hk in Ho.
    cbn [orb] in Ho. apply negb_true_iff in Ho. apply fails_rmatch. apply fc_fails; [|exact Ho].
    now apply (prod_nonnullable n).
Qed.

(* ------------------------------------------------------------------ token value *)
Lemma finish_tokval name found after :
  eqs name (s "ATKEYWORD") = false \/ (eqs found (s "@charset") && starts (s " ") after) = false ->
  finish_token name found after = (fst (tokval name found), found, snd (tokval name found)).
Proof.
  intros H. unfold finish_token, tokval. destruct (mem_str name resolved_types); [reflexivity|].
  destruct (eqs name (s "ATKEYWORD")) eqn:E; [|reflexivity].
  destruct (assoc_str (normalize_u found) atkeywords); [reflexivity|].
  destruct H as [H|H]; [discriminate|]. rewrite H. reflexivity.
Qed.

Definition tv (t : tok) : str * str := (ty t, val t).

