(* CodecInverse.v -- decode after encode when the encoding is DETECTED (no explicit argument):
   the text comes back up to the documented rewrite of the @charset rule. *)
From CssV Require Import Base CodecPyLib Gen.CodecFns Codec CodecDetect CodecFacts.
Local Open Scope Z_scope.

Lemma starts_prefix_app x : starts prefix (prefix ++ x) = true.
Proof. apply starts_spec. eauto. Qed.

(* a complete leading rule: the text-level detector reads its name *)
Lemma detectu_rule e rest f : ~ In 34%N e ->
  detectencoding_unicode (prefix ++ e ++ 34%N :: rest) f = (Some e, true).
Proof.
  intros H. rewrite detectu_eq. unfold detectu_ref. rewrite starts_prefix_app.
  change (skipn 10 (prefix ++ e ++ 34%N :: rest)) with (e ++ 34%N :: rest).
  rewrite find_char_skip by exact H. rewrite firstn_app_lt by lia. now rewrite firstn_all.
Qed.

(* an unterminated rule at the end of the text: no name *)
Lemma detectu_unterminated e : ~ In 34%N e -> detectencoding_unicode (prefix ++ e) true = (None, false).
Proof.
  intros H. rewrite detectu_eq. unfold detectu_ref. rewrite starts_prefix_app.
  change (skipn 10 (prefix ++ e)) with e. now rewrite notin_find_none.
Qed.

Lemma detectu_norule t : starts prefix t = false -> detectencoding_unicode t true = (Some utf8, false).
Proof. intros H. rewrite detectu_eq. unfold detectu_ref. now rewrite H. Qed.

(* _fixencoding on a text with a complete rule: exactly the name changes *)
Lemma fix_rename e0 rest e f : ~ In 34%N e0 ->
  fixencoding (prefix ++ e0 ++ 34%N :: rest) e f = Some (prefix ++ nosig e ++ 34%N :: rest).
Proof.
  intros H. rewrite fix_eq. unfold fix_ref. rewrite starts_prefix_app.
  change (skipn 10 (prefix ++ e0 ++ 34%N :: rest)) with (e0 ++ 34%N :: rest).
  rewrite find_char_skip by exact H.
  change (skipn (10 + length e0) (prefix ++ e0 ++ 34%N :: rest)) with (skipn (length e0) (e0 ++ 34%N :: rest)).
  rewrite skipn_app_le by lia. rewrite skipn_all. reflexivity.
Qed.

Lemma fix_unterminated e0 e : ~ In 34%N e0 -> fixencoding (prefix ++ e0) e true = Some (prefix ++ e0).
Proof.
  intros H. rewrite fix_eq. unfold fix_ref. rewrite starts_prefix_app.
  change (skipn 10 (prefix ++ e0)) with e0. now rewrite notin_find_none.
Qed.

Lemma fix_norule t e : starts prefix t = false -> fixencoding t e true = Some t.
Proof. intros H. rewrite fix_eq. unfold fix_ref. rewrite H. now rewrite !orb_true_r. Qed.

Lemma nosig_plain e : is_sig e = false -> nosig e = e.
Proof. intros H. unfold nosig. now rewrite H. Qed.

Lemma pick_detected input force e x :
  detectencoding_str input true = Some (Some e, x) -> is_css e = false ->
  pick_encoding None force input true = PEnc e.
Proof. intros H C. unfold pick_encoding. now rewrite H, C. Qed.


(* ------------------------------------------------------------------ more default-UTF-8 shapes at the end of input *)
(* '@' in front, but not the head of an @charset rule, and no NUL behind it *)
Lemma default_utf8_at r :
  starts prefix (64 :: r)%N = false -> match r with b1 :: _ => b1 <> 0%N | [] => True end ->
  detectencoding_str (64 :: r)%N true = Some (Some utf8, false).
Proof.
  intros Hs Hb1. destruct r as [|b1 [|b2 [|b3 r]]].
  - reflexivity.
  - rewrite detect_2. unfold C2. sp1 b1; try contradiction; done_leaf.
  - rewrite detect_3. unfold C3. sp1 b1; try contradiction; try solve [done_leaf]; sp2 b2; done_leaf.
  - to4. sp1 b1; try contradiction; try solve [done_leaf]; sp2 b2; try solve [done_leaf]; sp3 b3; try solve [done_leaf].
    replace (Z.land _ _) with 512%Z by (vm_compute; reflexivity).
    rewrite post_charset. unfold charset_branch. now rewrite Hs.
Qed.

Definition bom_utf8 : str := [239; 187; 191]%N.

(* ef in front, but not the UTF-8 BOM *)
Lemma default_utf8_ef r :
  starts bom_utf8 (239 :: r)%N = false -> detectencoding_str (239 :: r)%N true = Some (Some utf8, false).
Proof.
  intros Hs. destruct r as [|b1 [|b2 [|b3 r]]].
  - reflexivity.
  - rewrite detect_2. unfold C2. sp1 b1; done_leaf.
  - rewrite detect_3. unfold C3. sp1 b1; try solve [done_leaf]; sp2 b2; try solve [done_leaf]. discriminate Hs.
  - to4. sp1 b1; try solve [done_leaf]; sp2 b2; try solve [done_leaf]; [discriminate Hs|..]; sp3 b3; done_leaf.
Qed.

(* the byte strings on which the detector answers "UTF-8, implicitly" at the end of input, as far as needed here *)
Definition default_shape (b : str) : Prop :=
  match b with
  | [] => True
  | b0 :: r =>
    (b0 <> 239 /\ b0 <> 255 /\ b0 <> 254 /\ b0 <> 64 /\ b0 <> 0)%N
    \/ (b0 = 64%N /\ starts prefix b = false /\ match r with b1 :: _ => b1 <> 0%N | [] => True end)
    \/ (b0 = 239%N /\ starts bom_utf8 b = false)
  end.

Lemma default_shape_detect b : default_shape b -> detectencoding_str b true = Some (Some utf8, false).
Proof.
  destruct b as [|b0 r]; [reflexivity|]. intros [[H1 [H2 [H3 [H4 H5]]]]|[[-> [Hs Hb]]|[-> Hs]]].
  - now apply default_utf8_first.
  - now apply default_utf8_at.
  - now apply default_utf8_ef.
Qed.

Section Inverse.
  Variable dshot : str -> str -> res str.      (* codecs.getdecoder(name)(bytes)[0] *)
  Variable eshot : str -> str -> res str.      (* codecs.getencoder(name)(text)[0] *)

  (* the general step: whatever the byte-level detector answers on the encoded bytes, if the codec of that
     name decodes them back to the text that was encoded, decode returns that text with its rule renamed *)
  Lemma decode_detected_general b force e2 x2 t' :
    detectencoding_str b true = Some (Some e2, x2) -> is_css e2 = false ->
    dshot e2 b = Ok t' ->
    decode dshot b None force = match fixencoding t' e2 true with Some r => Ok r | None => Err EType end.
  Proof. intros Hd Hc Hi. unfold decode. rewrite (pick_detected _ _ _ _ Hd Hc), Hi. reflexivity. Qed.

  (* (A) the rule names a codec that leaves the (ASCII) rule head readable in the bytes: utf-8, latin-1, ascii,
         cp1252, ...: the text comes back unchanged *)
  Theorem decode_encode_charset_thm e rest b force :
    ~ In 34%N e -> is_css e = false -> is_sig e = false ->
    (forall x y, eshot e x = Ok y -> dshot e y = Ok x) ->
    (forall y, eshot e (prefix ++ e ++ 34%N :: rest) = Ok y -> exists tl, y = prefix ++ e ++ 34%N :: tl) ->
    encode eshot (prefix ++ e ++ 34%N :: rest) None = Ok b ->
    decode dshot b None force = Ok (prefix ++ e ++ 34%N :: rest).
  Proof.
    intros Hq Hc Hs Hinv Hhead. unfold encode. rewrite (detectu_rule _ _ _ Hq). cbn [fst].
    rewrite Hs. unfold encode_with. rewrite Hc. intros Hb.
    destruct (Hhead _ Hb) as [tl ->].
    rewrite (decode_detected_general _ force e true _ (charset_rule_detected _ _ true Hq) Hc (Hinv _ _ Hb)).
    rewrite (fix_rename _ _ _ _ Hq), (nosig_plain _ Hs). reflexivity.
  Qed.

  (* (C) the rule names utf-8-sig (any spelling): the bytes start with the UTF-8 BOM, the text comes back with
         the rule renamed to utf-8 -- the documented rewrite *)
  Theorem decode_encode_sig_thm e rest b force :
    ~ In 34%N e -> is_css e = false -> is_sig e = true ->
    (forall y, eshot e (prefix ++ utf8 ++ 34%N :: rest) = Ok y ->
       (exists tl, y = (239 :: 187 :: 191 :: tl)%N) /\ dshot sig_name y = Ok (prefix ++ utf8 ++ 34%N :: rest)) ->
    encode eshot (prefix ++ e ++ 34%N :: rest) None = Ok b ->
    decode dshot b None force = Ok (prefix ++ utf8 ++ 34%N :: rest).
  Proof.
    intros Hq Hc Hs Hcodec. unfold encode. rewrite (detectu_rule _ _ _ Hq). cbn [fst].
    rewrite Hs. fold utf8. rewrite (fix_rename _ _ utf8 true Hq).
    change (nosig utf8) with utf8. unfold encode_with. rewrite Hc. intros Hb.
    destruct (Hcodec _ Hb) as [[tl ->] Hdec].
    rewrite (decode_detected_general _ force sig_name true _ (bom_utf8sig tl true) eq_refl Hdec).
    assert (Hq8 : ~ In 34%N utf8) by (vm_compute; intuition discriminate).
    rewrite (fix_rename _ _ sig_name true Hq8). reflexivity.
  Qed.

  (* (D) the encoded bytes start with the UTF-16 little-endian BOM: the text comes back with the rule renamed
         to utf-16, whatever spelling it had *)
  Theorem decode_encode_utf16_thm e rest b b2 b3 tl force :
    ~ In 34%N e -> is_css e = false -> is_sig e = false ->
    b = (255 :: 254 :: b2 :: b3 :: tl)%N -> (b2 <> 0 \/ b3 <> 0)%N ->
    (forall y, eshot e (prefix ++ e ++ 34%N :: rest) = Ok y -> dshot utf16 y = Ok (prefix ++ e ++ 34%N :: rest)) ->
    encode eshot (prefix ++ e ++ 34%N :: rest) None = Ok b ->
    decode dshot b None force = Ok (prefix ++ utf16 ++ 34%N :: rest).
  Proof.
    intros Hq Hc Hs -> Hb23 Hcodec. unfold encode. rewrite (detectu_rule _ _ _ Hq). cbn [fst].
    rewrite Hs. unfold encode_with. rewrite Hc. intros Hb.
    rewrite (decode_detected_general _ force utf16 true _ (bom_utf16_le _ _ tl true Hb23) eq_refl (Hcodec _ Hb)).
    rewrite (fix_rename _ _ utf16 true Hq). reflexivity.
  Qed.

  (* (B) no leading rule: UTF-8 both ways, the text comes back unchanged.  The premise on the bytes covers texts that
         begin with '@' (at-import, at-media, ...) as long as they are not the head of an @charset rule *)
  Theorem decode_encode_norule_thm t b force :
    starts prefix t = false ->
    (forall x y, eshot utf8 x = Ok y -> dshot utf8 y = Ok x) ->
    default_shape b ->
    encode eshot t None = Ok b ->
    decode dshot b None force = Ok t.
  Proof.
    intros Hs Hinv Hb0. unfold encode. rewrite (detectu_norule _ Hs). cbn [fst].
    rewrite is_sig_utf8. unfold encode_with. change (is_css utf8) with false. cbv iota. intros Hb.
    rewrite (decode_detected_general _ force utf8 false _ (default_shape_detect _ Hb0) eq_refl (Hinv _ _ Hb)).
    now rewrite (fix_norule _ _ Hs).
  Qed.

  (* (B') an unterminated rule (the repaired defect): encoded as UTF-8, comes back unchanged *)
  Theorem decode_encode_unterminated_thm e0 b force :
    ~ In 34%N e0 ->
    (forall x y, eshot utf8 x = Ok y -> dshot utf8 y = Ok x) ->
    (forall y, eshot utf8 (prefix ++ e0) = Ok y -> exists tl, y = prefix ++ tl /\ ~ In 34%N tl) ->
    encode eshot (prefix ++ e0) None = Ok b ->
    decode dshot b None force = Ok (prefix ++ e0).
  Proof.
    intros Hq Hinv Hhead. unfold encode. rewrite (detectu_unterminated _ Hq). cbn [fst].
    fold utf8. rewrite is_sig_utf8. unfold encode_with. change (is_css utf8) with false. cbv iota. intros Hb.
    destruct (Hhead _ Hb) as [tl [-> Htl]].
    rewrite (decode_detected_general _ force utf8 false _ (charset_unterminated _ Htl) eq_refl (Hinv _ _ Hb)).
    now rewrite (fix_unterminated _ _ Hq).
  Qed.
End Inverse.
