(* ProdParser.v -- executable model of the production-combinator engine css_parser.prodparser
   (Prod / Sequence / Choice / ProdParser.parse / _SorTokens / savedTokens / tokenizer.push).
   Line references are to /repo/src/css_parser/prodparser.py.   Definitions only; proofs: ProdParserFacts.v.

   Production objects are first-order data (`ptree`): a Prod carries a *code* for its match predicate (mcode),
   for its toSeq action (acode) and its toStore key; Sequence = children + (min, max); Choice = children +
   the explicit `optional=` option.  The mutable cursor state of the Python objects (_i, _round, _roundstarted,
   _exhausted) lives in the stack frames of the interpreter: every selection of a nested production calls
   reset() (l.114, l.220), so the state of an object is live exactly from its selection to its pop and a tree
   with shared sub-objects (value.py uses one Choice object at two places) behaves like its unshared expansion.

   Streams.  `tokens` is a Python generator, possibly wrapped in _SorTokens generators (one per matched Prod with
   nextSor) and shared with the sub-parsers that toSeq callbacks start on  pushtoken(token, tokens).  The model
   keeps the remaining tokens as a list plus
     own : smode   state of the wrappers created by THIS parse (SOn: filtering, SPend t: a wrapper has pulled the
                   lookahead t and yields it next; it is lost when the parse returns, as in Python)
     anc : bool    a wrapper of an enclosing parse is still filtering (its lookahead, if any, is part of the list,
                   because that wrapper survives the sub-parse)
   _SorTokens is idempotent as a stream transformer, so stacked wrappers collapse to these two cells.

   Sub-parsers.  acode ASub label g: the toSeq callback constructs an object whose constructor runs
   ProdParser().parse(pushtoken(t, tokens), ...) on grammar g of the environment; recursion on the depth fuel d
   (Python: the interpreter stack; DepthOut = RecursionError).  The loop fuel is the number of tokens in the
   stash plus the stream plus one; ProdParserFacts.loop_fuel_enough shows it is never exhausted.                *)
From CssV Require Import Base Regex Tokenizer Gen.PyTables.
Local Open Scope nat_scope.

(* ------------------------------------------------------------------ small string library *)
Fixpoint is_sub (x t : str) : bool :=            (* x in t  (substring test, '' in t is True) *)
  starts x t || match t with [] => false | _ :: t' => is_sub x t' end.
Fixpoint mem_s (x : str) (l : list str) : bool :=
  match l with [] => false | y :: r => eqs x y || mem_s x r end.
Definition is_hex (c : N) : bool := match hexval c with Some _ => true | None => false end.
(* prodparser.py:692 / value.py:954  ^\#(?:[0-9a-fA-F]{3}|[0-9a-fA-F]{6})\Z *)
Definition hexcolor_re (v : str) : bool :=
  match v with
  | 35%N :: d => forallb is_hex d && (Nat.eqb (length d) 3 || Nat.eqb (length d) 6)
  | _ => false
  end.
Fixpoint replace2 (a b : N) (x : str) : str :=     (* x.replace(chr a + chr b, chr b), left to right, non-overlapping *)
  match x with
  | c :: ((c' :: r) as t) => if N.eqb c a && N.eqb c' b then b :: replace2 a b r else c :: replace2 a b t
  | _ => x
  end.
(* helper.stringvalue (helper.py):  string.replace('\\'+string[0], string[0])[1:-1];  None = IndexError *)
Definition stringvalue (x : str) : option str :=
  match x with
  | [] => None
  | q :: _ => Some (removelast (tl (replace2 92 q x)))
  end.
Fixpoint lstrip (x : str) : str := match x with c :: r => if mem c py_space then lstrip r else x | [] => [] end.
Definition strip (x : str) : str := rev (lstrip (rev (lstrip x))).
Fixpoint after_paren (x : str) : option str :=     (* text after the first '(' *)
  match x with [] => None | c :: r => if N.eqb c 40 then Some r else after_paren r end.
(* helper.urivalue:  uri = uri[uri.find('(')+1:-1].strip(); quoted -> stringvalue *)
Definition urivalue (x : str) : option str :=
  let inner := strip (removelast (match after_paren x with Some r => r | None => x end)) in
  match inner with
  | [] => Some inner
  | q :: _ => if (N.eqb q 39 || N.eqb q 34) && N.eqb q (last inner 0%N) then stringvalue inner else Some inner
  end.

(* ------------------------------------------------------------------ productions as data *)
Inductive mcode :=
| MTrue | MFalse
| MTy (t : str)              (* t == 'X' *)
| MTyIn (l : list str)       (* t in ('X', 'Y') *)
| MVal (c : str)             (* v == 'c' *)
| MValNe (c : str)           (* v != 'c' *)
| MValIn (l : list str)      (* v in ('+', '-') *)
| MValSubstr (c : str)       (* v in '*/'   (substring test) *)
| MValStarts (c : str)       (* v.startswith('c') *)
| MNorm (c : str)            (* normalize(v) == 'c' *)
| MNormIn (l : list str)     (* normalize(v) in (...) *)
| MHexRe                     (* reHexcolor.match(v) *)
| MAnd (a b : mcode) | MOr (a b : mcode).

Fixpoint meval (m : mcode) (t v : str) : bool :=
  match m with
  | MTrue => true | MFalse => false
  | MTy x => eqs t x
  | MTyIn l => mem_s t l
  | MVal c => eqs v c
  | MValNe c => negb (eqs v c)
  | MValIn l => mem_s v l
  | MValSubstr c => is_sub v c
  | MValStarts c => starts c v
  | MNorm c => eqs (normalize v) c
  | MNormIn l => mem_s (normalize v) l
  | MHexRe => hexcolor_re v
  | MAnd a b => meval a t v && meval b t v
  | MOr a b => meval a t v || meval b t v
  end.

Inductive acode :=
| ADefault                   (* lambda t, tokens: (t[0], t[1])   (l.325; also explicit lambdas of that shape) *)
| AFalse                     (* toSeq=False: nothing is appended, toStore is not called (l.598) *)
| ANorm                      (* (t[0], normalize(t[1])) *)
| ALower                     (* (t[0], t[1].lower()) *)
| AStrVal                    (* (t[0], stringvalue(t[1])) *)
| AUriVal                    (* (t[0], urivalue(t[1])) *)
| AConstTy (ty : str)        (* ('operator', t[1]) *)
| ASub (label : option str) (g : nat)   (* (label, Cls(pushtoken(t, tokens), ...)): sub-parser on grammar g; None: label = t[0] *)
| AOpaque.                   (* a callback the model does not interpret (PreDef.comment, unknownrule) *)

Record prod := mkProd {
  p_name : str; p_match : mcode; p_opt : bool; p_toseq : acode; p_store : option str;
  p_stop : bool; p_stopkeep : bool; p_stopnm : bool; p_nextsor : bool; p_mayend : bool; p_storetok : bool }.

Inductive ptree :=
| PProd (p : prod)
| PSeq (ps : list ptree) (lo : nat) (hi : option nat)       (* hi = None: max is None -> sys.maxsize (l.153-160) *)
| PCho (ps : list ptree) (oopt : option bool).              (* options['optional'] if given (l.75-83) *)

Fixpoint topt (t : ptree) : bool :=                         (* .optional *)
  match t with
  | PProd p => p_opt p
  | PSeq _ lo _ => Nat.eqb lo 0                             (* l.192 *)
  | PCho ps o => match o with
                 | Some b => b
                 | None => (fix ex (l : list ptree) : bool := match l with [] => false | c :: r => topt c || ex r end) ps
                 end
  end.

Definition tok_matches (p : prod) (tk : option tok) : bool :=          (* Prod.matches l.335-340 *)
  match tk with None => false | Some t => meval (p_match p) (ty t) (val t) end.

Fixpoint tmatches (t : ptree) (tk : option tok) : bool :=
  match t with
  | PProd p => tok_matches p tk
  | PSeq ps _ _ =>                                                     (* l.165-175 *)
      (fix go (l : list ptree) : bool :=
         match l with [] => false | c :: r => if tmatches c tk then true else if topt c then go r else false end) ps
  | PCho ps _ =>                                                       (* l.91-96 *)
      (fix go (l : list ptree) : bool := match l with [] => false | c :: r => tmatches c tk || go r end) ps
  end.

Fixpoint theight (t : ptree) : nat :=
  match t with
  | PProd _ => 0
  | PSeq ps _ _ | PCho ps _ => S ((fix mx (l : list ptree) : nat := match l with [] => 0 | c :: r => Nat.max (theight c) (mx r) end) ps)
  end.

(* ------------------------------------------------------------------ cursor state: stack frames *)
Inductive frame :=
| FSeq (ps : list ptree) (lo : nat) (hi : option nat) (i rnd : nat) (started : bool)
| FCho (ps : list ptree) (opt : bool) (exh : bool).

Definition enter (t : ptree) : option frame :=              (* reset(): l.87-89, l.177-181 *)
  match t with
  | PProd _ => None
  | PSeq ps lo hi => Some (FSeq ps lo hi 0 0 false)
  | PCho ps _ => Some (FCho ps (topt t) false)
  end.
Definition fopt (f : frame) : bool := match f with FSeq _ lo _ _ _ _ => Nat.eqb lo 0 | FCho _ o _ => o end.
Definition fheight (f : frame) : nat :=
  match f with FSeq ps _ _ _ _ _ | FCho ps _ _ => S (fold_right (fun c n => Nat.max (theight c) n) 0 ps) end.

Inductive nres :=
| NProd (p : prod) | NNest (t : ptree) | NNone
| NExh | NNoMatch | NMissing | NDone            (* the ParseError subclasses l.38-60 *)
| NSpin                                         (* the while loop of Sequence.nextProd does not end (max = sys.maxsize) *)
| NCrash.                                       (* IndexError: Sequence() without productions *)
Definition ret (t : ptree) : nres := match t with PProd p => NProd p | _ => NNest t end.
Definition below (rnd : nat) (hi : option nat) : bool := match hi with None => true | Some h => Nat.ltb rnd h end.
Definition tend (tk : option tok) : nres := match tk with Some _ => NExh | None => NNone end.

(* Sequence.nextProd l.194-240.  k counts consecutive optional non-matching productions: after len(ps) of them
   every further iteration is the same, the loop ends only when _round reaches _max. *)
Fixpoint seq_loop (k : nat) (ps : list ptree) (lo : nat) (hi : option nat) (i rnd : nat) (st : bool)
         (tk : option tok) : nres * frame :=
  if below rnd hi then
    match k with
    | O => match hi with
           | None => (NSpin, FSeq ps lo hi i rnd st)
           | Some h => (tend tk, FSeq ps lo hi 0 h false)
           end
    | S k' =>
      match nth_error ps i with
      | None => (NCrash, FSeq ps lo hi i rnd st)
      | Some p =>
        let st1 := if Nat.eqb i 0 then false else st in                         (* l.208-209 *)
        let i' := if Nat.eqb (S i) (length ps) then 0 else S i in               (* l.212-215 *)
        let rnd' := if Nat.eqb (S i) (length ps) then S rnd else rnd in
        if tmatches p tk then (ret p, FSeq ps lo hi i' rnd' true)               (* l.217-222 *)
        else if topt p then seq_loop k' ps lo hi i' rnd' st1 tk                 (* l.224 *)
        else if Nat.ltb rnd lo || st1 then (NMissing, FSeq ps lo hi i' rnd' st1)   (* l.227 *)
        else (match tk with None => NDone | Some _ => NNoMatch end, FSeq ps lo hi i' rnd' st1)   (* l.230-237 *)
      end
    end
  else (tend tk, FSeq ps lo hi i rnd st).                                       (* l.239-240 *)

Fixpoint cho_scan (ps : list ptree) (tk : option tok) (anyopt : bool) : option ptree * bool :=   (* l.111-118 *)
  match ps with
  | [] => (None, anyopt)
  | c :: r => if tmatches c tk then (Some c, anyopt) else cho_scan r tk (anyopt || topt c)
  end.

Definition next (tk : option tok) (f : frame) : nres * frame :=
  match f with
  | FSeq ps lo hi i rnd st =>
      match ps with
      | [] => if below rnd hi then (NCrash, f) else (tend tk, f)               (* self._prods[0]: IndexError *)
      | _ => seq_loop (length ps) ps lo hi i rnd st tk
      end
  | FCho ps o exh =>                                                            (* Choice.nextProd l.98-125 *)
      if exh then (tend tk, f)
      else match cho_scan ps tk false with
           | (Some c, _) => (ret c, FCho ps o true)
           | (None, true) => (NNone, f)
           | (None, false) => (NNoMatch, f)
           end
  end.

(* the inner `while True` of parse, l.546-565 *)
Inductive fres :=
| FFound (p : prod) (stack : list frame)
| FNoMatch (stack : list frame)              (* raise NoMatch('No match') at the root; prod = None *)
| FParseErr (stack : list frame)             (* Missing / Done leave the loop; prod keeps its old value *)
| FSpin | FCrash.

Fixpoint find (fu : nat) (stack : list frame) (tk : tok) : fres :=
  match fu with
  | O => FSpin
  | S fu' =>
    match stack with
    | [] => FCrash
    | fr :: rest =>
      match next (Some tk) fr with
      | (NProd p, fr') => FFound p (fr' :: rest)
      | (NNest t, fr') => match enter t with
                          | Some nf => find fu' (nf :: fr' :: rest) tk
                          | None => FCrash
                          end
      | (NNone, fr') | (NExh, fr') | (NNoMatch, fr') =>
          match rest with
          | [] => FNoMatch [fr']
          | _ => find fu' rest tk                                               (* prods.pop() *)
          end
      | (NMissing, fr') | (NDone, fr') => FParseErr (fr' :: rest)
      | (NSpin, _) => FSpin
      | (NCrash, _) => FCrash
      end
    end
  end.

(* the closing loop "all productions exhausted?" l.640-676: nextProd(None) never returns a production, so each
   frame is asked once and popped.  strict = hasattr(lastprod,'mayEnd') and not lastprod.mayEnd *)
Inductive finres := FinOk (wf : bool) | FinSpin | FinCrash.
Fixpoint final (stack : list frame) (strict : bool) (wf : bool) : finres :=
  match stack with
  | [] => FinOk wf
  | fr :: rest =>
    match fst (next None fr) with
    | NDone | NNone => final rest strict wf
    | NMissing => final rest strict (if strict then false else wf)
    | NNoMatch | NExh => final rest strict false
    | NProd _ | NNest _ => FinCrash           (* unreachable: nothing matches None *)
    | NSpin => FinSpin
    | NCrash => FinCrash
    end
  end.

(* ------------------------------------------------------------------ streams *)
Inductive smode := SOff | SOn | SPend (t : tok).
Definition isS (t : tok) : bool := eqs (ty t) (s "S").
Definition isC (t : tok) : bool := eqs (ty t) (s "COMMENT").
Definition until : str := s ",/".
Fixpoint dropS (l : list tok) : list tok := match l with t :: r => if isS t then dropS r else l | [] => [] end.

(* one pull from a filtering _SorTokens over the raw list, l.397-434:
   (yielded token, still filtering, lookahead held back, rest) *)
Definition sor_raw (l : list tok) : option (tok * bool * option tok * list tok) :=
  match l with
  | [] => None
  | t :: r =>
    if isS t then
      match dropS r with
      | [] => Some (t, false, None, [])                                     (* l.408-409 *)
      | n :: r' => if is_sub (val n) until then Some (n, false, None, r')    (* l.411-414 *)
                   else if isC n then Some (n, true, None, r')               (* l.415-417 *)
                   else Some (t, false, Some n, r')                          (* l.419-424 *)
      end
    else if isC t then Some (t, true, None, r)                               (* l.426-428 *)
    else Some (t, false, None, r)                                            (* l.430-431 *)
  end.

Definition spull (own : smode) (anc : bool) (l : list tok) : option (tok * smode * bool * list tok) :=
  match own with
  | SPend x => Some (x, SOff, anc, l)
  | SOn => match sor_raw l with
           | None => None
           | Some (t, on, pend, l') =>
               Some (t, match pend with Some x => SPend x | None => if on then SOn else SOff end, anc && on, l')
           end
  | SOff => if anc then
              match sor_raw l with
              | None => None
              | Some (t, on, pend, l') => Some (t, SOff, on, match pend with Some x => x :: l' | None => l' end)
              end
            else match l with [] => None | t :: r => Some (t, SOff, false, r) end
  end.

(* list(tokens): what the caller sees when it drains the returned generator *)
Fixpoint drain (fu : nat) (own : smode) (anc : bool) (l : list tok) : list tok :=
  match fu with
  | O => []
  | S fu' => match spull own anc l with
             | None => []
             | Some (t, own', anc', l') => t :: drain fu' own' anc' l'
             end
  end.

(* ------------------------------------------------------------------ results *)
Inductive item :=
| IStr (ty v : str)
| IObj (label : str) (g : nat) (wf : bool) (its : list item) (mtype : str).   (* mtype: MediaQuery.mediaType, else '' *)
Definition item_ty (it : item) : str := match it with IStr t _ => t | IObj l _ _ _ _ => l end.
Definition item_text (it : item) : str := match it with IStr _ v => v | IObj _ _ _ _ _ => [] end.

Definition store := list (str * list str).
Fixpoint store_add (k v : str) (st : store) : store :=                         (* makeToStore l.308-319 *)
  match st with
  | [] => [(k, [v])]
  | (k', vs) :: r => if eqs k' k then (k', vs ++ [v]) :: r else (k', vs) :: store_add k v r
  end.
Fixpoint store_get (k : str) (st : store) : option (list str) :=
  match st with [] => None | (k', vs) :: r => if eqs k' k then Some vs else store_get k r end.

Record stash := mkStash { saved : list tok (* head = top of the stack *); pushed : list tok }.
Definition stash0 : stash := mkStash [] [].

Record result := mkRes {
  r_wf : bool; r_items : list item; r_store : store;
  r_none : bool;                 (* the early  return False, [], None, None  (l.475, l.680) *)
  r_keep : option tok;           (* stopAndKeep: tokens = itertools.chain(token, tokens)  (l.622) *)
  r_own : smode; r_anc : bool; r_rest : list tok;
  r_stash : stash }.

Inductive out := Ret (r : result) | OutOfFuel | DepthOut | Spin | Crash.

Record opts := mkOpts { o_keepS : bool; o_checkS : bool; o_emptyOk : bool }.
Definition opts0 := mkOpts false false false.

(* what the constructor of the object does with the parse result *)
Inductive postcode :=
| PostOk           (* wellformed = ok *)
| PostFirst        (* Value / URIValue: read their first non-comment item when ok *)
| PostDim          (* DimensionValue: the first non-comment item must be a text item; number conversion *)
| PostColor        (* ColorValue: value.py:380-476 *)
| PostVar          (* CSSVariable: 'ident' in store *)
| PostMQ           (* MediaQuery: wellformed = ok; mediaType from the store *)
| PostPV           (* PropertyValue: at least one Value object, every object wellformed *)
| PostML.          (* MediaList: every query wellformed, at least one; duplicate filter *)

Record grammar := mkGr { g_name : str; g_tree : ptree; g_opts : opts; g_post : postcode }.
Definition genv := list grammar.

(* ------------------------------------------------------------------ the object built from a parse result *)
Definition is_obj (it : item) : bool := match it with IObj _ _ _ _ _ => true | _ => false end.
Definition obj_wf (it : item) : bool := match it with IObj _ _ w _ _ => w | _ => true end.
Definition is_comment_item (it : item) : bool := eqs (item_ty it) (s "CSSComment").
(* classes derived from value.Value: everything a value grammar builds except MediaQuery *)
Definition is_value_obj (it : item) : bool :=
  match it with IObj l _ _ _ _ => negb (eqs l (s "MediaQuery")) | _ => false end.

(* MediaQuery._setMediaText l.182-193 + _setMediaType l.198-233 (the seq update only changes the spelling source) *)
Definition mq_mediatype (st : store) : str :=
  match store_get (s "media_type") st, store_get (s "not simple") st with
  | Some (v :: _), None => v
  | _, _ => []
  end.

(* ColorValue: N / P signature of the components (value.py:403-424); objects of other types are skipped *)
Definition comp_sig (its : list item) : list bool :=            (* true = NUMBER, false = PERCENTAGE *)
  flat_map (fun it => match it with
                      | IObj _ _ _ (IStr t _ :: _) _ =>
                          if eqs t (s "NUMBER") then [true] else if eqs t (s "PERCENTAGE") then [false] else []
                      | _ => [] end) its.

(* MediaList._setMediaText l.134-159: duplicate / `all` filter on normalised media types.
   final, comments: reversed accumulators (finalseq, commentseqonly) *)
Definition is_mq_obj (it : item) : bool := match it with IObj l _ _ _ _ => eqs l (s "MediaQuery") | _ => false end.
Fixpoint ml_filter (its : list item) (seen : list str) (final comments : list item) : list item :=
  match its with
  | [] => rev final
  | it :: r =>
    if is_mq_obj it then
      let mt := normalize (match it with IObj _ _ _ _ m => m | _ => [] end) in
      match mt with
      | [] => ml_filter r seen (it :: final) comments
      | _ => if eqs mt (s "all") then rev (it :: comments)
             else if mem_s mt seen then ml_filter r seen final comments
             else ml_filter r (seen ++ [mt]) (it :: final) comments
      end
    else if is_comment_item it then ml_filter r seen (it :: final) (it :: comments)
    else ml_filter r seen (it :: final) comments
  end.

(* value._valueitem: the item that holds the value = the first one that is not a comment *)
Definition value_item (its : list item) : option item := List.find (fun it => negb (is_comment_item it)) its.

Inductive postres := PRet (wf : bool) (its : list item) (mtype : str) | PCrash.

Definition post (pc : postcode) (r : result) : postres :=
  let ok := r_wf r in
  let its := r_items r in
  let keep (w : bool) := PRet w (if w then its else []) [] in
  match pc with
  | PostOk => keep ok
  | PostFirst => keep (ok && match value_item its with Some _ => true | None => false end)
  | PostDim => if ok then match value_item its with
                          | Some (IStr _ _) => keep true
                          | Some (IObj _ _ _ _ _) => PCrash          (* normalize(object): TypeError *)
                          | None => keep false
                          end
               else keep false
  | PostColor =>
      if ok then
        match value_item its with
        | None => keep false
        | Some it0 =>
          if eqs (item_ty it0) (s "FUNCTION") then keep (Nat.leb 3 (length (comp_sig its))) else keep true
        end
      else keep false
  | PostVar => keep (ok && match store_get (s "ident") (r_store r) with Some _ => true | None => false end)
  | PostMQ => PRet ok (if ok then its else []) (if ok then mq_mediatype (r_store r) else [])
  | PostPV => keep (ok && existsb is_value_obj its && forallb obj_wf its)
  | PostML =>                                                                    (* medialist.py:116-159 *)
      let mqs := filter is_mq_obj its in
      let ok' := ok && forallb obj_wf mqs && negb (match mqs with [] => true | _ => false end) in
      PRet ok' (if ok' then ml_filter its [] [] [] else []) []
  end.

(* ------------------------------------------------------------------ ProdParser.parse l.436-684 *)
Record lstate := mkLs {
  l_stack : list frame; l_seq : list item (* reversed *); l_store : store; l_wf : bool;
  l_started : bool; l_stopall : bool; l_defaultS : bool; l_stopnm : bool; l_afterS : bool;
  l_strict : bool;               (* lastprod is a Prod whose mayEnd is false *)
  l_keep : option tok;
  l_own : smode; l_anc : bool; l_rest : list tok; l_stash : stash }.

Definition set_stream (st : lstate) (own : smode) (anc : bool) (l : list tok) : lstate :=
  mkLs (l_stack st) (l_seq st) (l_store st) (l_wf st) (l_started st) (l_stopall st) (l_defaultS st) (l_stopnm st)
       (l_afterS st) (l_strict st) (l_keep st) own anc l (l_stash st).
Definition set_stash (st : lstate) (sh : stash) : lstate :=
  mkLs (l_stack st) (l_seq st) (l_store st) (l_wf st) (l_started st) (l_stopall st) (l_defaultS st) (l_stopnm st)
       (l_afterS st) (l_strict st) (l_keep st) (l_own st) (l_anc st) (l_rest st) sh.
Definition set_afterS (st : lstate) (b : bool) : lstate :=
  mkLs (l_stack st) (l_seq st) (l_store st) (l_wf st) (l_started st) (l_stopall st) (l_defaultS st) (l_stopnm st)
       b (l_strict st) (l_keep st) (l_own st) (l_anc st) (l_rest st) (l_stash st).
Definition add_item (st : lstate) (it : item) : lstate :=
  mkLs (l_stack st) (it :: l_seq st) (l_store st) (l_wf st) (l_started st) (l_stopall st) (l_defaultS st) (l_stopnm st)
       (l_afterS st) (l_strict st) (l_keep st) (l_own st) (l_anc st) (l_rest st) (l_stash st).
Definition set_store (st : lstate) (so : store) : lstate :=
  mkLs (l_stack st) (l_seq st) so (l_wf st) (l_started st) (l_stopall st) (l_defaultS st) (l_stopnm st)
       (l_afterS st) (l_strict st) (l_keep st) (l_own st) (l_anc st) (l_rest st) (l_stash st).
Definition set_wf (st : lstate) (b : bool) : lstate :=
  mkLs (l_stack st) (l_seq st) (l_store st) b (l_started st) (l_stopall st) (l_defaultS st) (l_stopnm st)
       (l_afterS st) (l_strict st) (l_keep st) (l_own st) (l_anc st) (l_rest st) (l_stash st).
Definition set_stopall (st : lstate) : lstate :=
  mkLs (l_stack st) (l_seq st) (l_store st) (l_wf st) (l_started st) true (l_defaultS st) (l_stopnm st)
       (l_afterS st) (l_strict st) (l_keep st) (l_own st) (l_anc st) (l_rest st) (l_stash st).
Definition set_started (st : lstate) : lstate :=
  mkLs (l_stack st) (l_seq st) (l_store st) (l_wf st) true (l_stopall st) (l_defaultS st) (l_stopnm st)
       (l_afterS st) (l_strict st) (l_keep st) (l_own st) (l_anc st) (l_rest st) (l_stash st).
Definition set_found (st : lstate) (stack : list frame) (strict stopnm : bool) : lstate :=
  mkLs stack (l_seq st) (l_store st) (l_wf st) (l_started st) (l_stopall st) (l_defaultS st) stopnm
       (l_afterS st) strict (l_keep st) (l_own st) (l_anc st) (l_rest st) (l_stash st).
Definition set_stack (st : lstate) (stack : list frame) (strict : bool) : lstate :=
  mkLs stack (l_seq st) (l_store st) (l_wf st) (l_started st) (l_stopall st) (l_defaultS st) (l_stopnm st)
       (l_afterS st) strict (l_keep st) (l_own st) (l_anc st) (l_rest st) (l_stash st).
Definition set_defaultS (st : lstate) (b : bool) : lstate :=
  mkLs (l_stack st) (l_seq st) (l_store st) (l_wf st) (l_started st) (l_stopall st) b (l_stopnm st)
       (l_afterS st) (l_strict st) (l_keep st) (l_own st) (l_anc st) (l_rest st) (l_stash st).
Definition set_keep (st : lstate) (t : tok) : lstate :=
  mkLs (l_stack st) (l_seq st) (l_store st) (l_wf st) (l_started st) (l_stopall st) (l_defaultS st) (l_stopnm st)
       (l_afterS st) (l_strict st) (Some t) (l_own st) (l_anc st) (l_rest st) (l_stash st).

Definition push_saved (t : tok) (sh : stash) : stash := mkStash (t :: saved sh) (pushed sh).
Definition push_pushed (t : tok) (sh : stash) : stash := mkStash (saved sh) (t :: pushed sh).

Definition stack_height (stack : list frame) : nat := fold_right (fun f n => Nat.max (fheight f) n) 0 stack.
Definition find_fuel (stack : list frame) : nat := S (S (length stack + stack_height stack)).

Fixpoint rstripS (rev_items : list item) : list item :=                      (* Seq.rstrip on the reversed list *)
  match rev_items with
  | it :: r => if eqs (item_ty it) (s "S") then rstripS r else rev_items     (* also an object labelled t[0] = S *)
  | [] => []
  end.

(* after the main loop: l.635-684 *)
Definition finish (o : opts) (st : lstate) : out :=
  let mk (wf : bool) (none : bool) :=
    Ret (mkRes (if none then false else wf) (if none then [] else rev (rstripS (l_seq st)))
               (if none then [] else l_store st) none (l_keep st) (l_own st) (l_anc st) (l_rest st) (l_stash st)) in
  if l_stopall st then mk (l_wf st) false
  else match final (l_stack st) (l_strict st) (l_wf st) with
       | FinOk wf => if negb (o_emptyOk o) && match l_seq st with [] => true | _ => false end
                     then mk false true else mk wf false
       | FinSpin => Spin
       | FinCrash => Crash
       end.

Section Loop.
  Variable o : opts.
  (* the sub-parser started by a toSeq callback:  grammar id -> anc -> pushed token -> rest -> out *)
  Variable sub : nat -> bool -> tok -> list tok -> out.
  Variable postof : nat -> option postcode.

  (* the plain toSeq callbacks; None = the callback raises (IndexError of string[0]) *)
  Definition aplain (a : acode) (t : tok) : option (str * str) :=
    match a with
    | ADefault => Some (ty t, val t)
    | ANorm => Some (ty t, normalize (val t))
    | ALower => Some (ty t, lower (val t))
    | AStrVal => option_map (fun v => (ty t, v)) (stringvalue (val t))
    | AUriVal => option_map (fun v => (ty t, v)) (urivalue (val t))
    | AConstTy c => Some (c, val t)
    | _ => None
    end.

  Definition do_store (p : prod) (t : tok) (it : item) (so : store) : store :=     (* l.602-609 *)
    match p_store p with
    | None => so
    | Some k => store_add k (if p_storetok p then val t else item_text it) so
    end.

  Inductive lres := LCont (st : lstate) | LBreak (st : lstate) | LOut (x : out).

  (* "process prod" l.595-633 *)
  Definition process (p : prod) (t : tok) (st : lstate) : lres :=
    let st1 :=                                                                       (* l.598-609 *)
      if p_stopkeep p then LCont st else
      match p_toseq p with
      | AFalse => LCont st
      | AOpaque => LOut Crash
      | ASub label g =>
          let anc' := l_anc st || match l_own st with SOn => true | _ => false end in
          let l := match l_own st with SPend x => x :: l_rest st | _ => l_rest st end in
          let own' := match l_own st with SPend _ => SOff | m => m end in
          match sub g anc' t l, postof g with
          | Ret r, Some pc =>
              match post pc r with
              | PRet w its mt =>
                  let it := IObj (match label with Some x => x | None => ty t end) g w its mt in
                  (* the wrappers of this parse that were filtering keep doing so iff nothing deactivated them *)
                  let own'' := match own' with SOn => if r_anc r then SOn else SOff | m => m end in
                  let st' := set_stash (set_stream st own'' (l_anc st && r_anc r) (r_rest r)) (r_stash r) in
                  LCont (set_store (add_item st' it) (do_store p t it (l_store st')))
              | PCrash => LOut Crash
              end
          | Ret _, None => LOut Crash
          | x, _ => LOut x
          end
      | a => match aplain a t with
             | Some (ty', v') => let it := IStr ty' v' in
                                 LCont (set_store (add_item st it) (do_store p t it (l_store st)))
             | None => LOut Crash
             end
      end in
    match st1 with
    | LCont st2 =>
        if p_stop p then LBreak st2                                                  (* l.611-614 *)
        else if p_stopkeep p then                                                    (* l.616-625 *)
          LBreak (set_stopall (set_keep (set_stash st2 (push_pushed t (l_stash st2))) t))
        else if p_nextsor p then                                                     (* l.627-631 *)
          let l := match l_own st2 with SPend x => x :: l_rest st2 | _ => l_rest st2 end in
          LCont (set_defaultS (set_stream st2 SOn (l_anc st2) l) false)
        else LCont (set_defaultS st2 true)                                           (* l.633 *)
    | x => x
    end.

  (* one iteration of the main loop on the token t (l.506-633); the stream cells are already advanced *)
  Definition body (t : tok) (st : lstate) : lres :=
    let tyv := ty t in
    let isc := eqs tyv (s "COMMENT") in
    let iss := eqs tyv (s "S") in
    if o_checkS o && negb isc && iss && l_afterS st then LCont st                    (* l.508-512 *)
    else
    let st := if o_checkS o && negb isc then set_afterS st iss else st in            (* l.513 *)
    if isc then LCont (add_item st (IStr (s "CSSComment") (val t)))                  (* l.516-519 *)
    else if l_defaultS st && iss && negb (o_checkS o) then                           (* l.521-526 *)
      if negb (o_keepS o) || negb (l_started st) then LCont st
      else LCont (add_item st (IStr tyv (val t)))
    else if eqs tyv (s "INVALID") then LBreak (set_wf st false)                      (* l.532-536 *)
    else if eqs tyv (s "EOF") then LCont (set_stopall st)                            (* l.538-540 *)
    else
      let st := set_started st in                                                    (* l.543 *)
      match find (find_fuel (l_stack st)) (l_stack st) t with
      | FNoMatch stack =>                                                            (* l.567-577 *)
          let st := set_stack st stack false in
          if l_stopnm st then LBreak (set_stopall (set_stash st (push_saved t (l_stash st))))
          else LBreak (set_wf st false)
      | FParseErr stack =>                                                           (* l.579-586: Missing is an error *)
          LBreak (set_wf (set_stack st stack (l_strict st)) false)
      | FFound p stack =>
          process p t (set_found st stack (negb (p_mayend p)) (p_stopnm p || l_stopnm st))   (* l.595 *)
      | FSpin => LOut Spin
      | FCrash => LOut Crash
      end.

  Fixpoint loop (n : nat) (st : lstate) : out :=
    match n with
    | O => OutOfFuel
    | S n' =>
      (* l.495-502: savedTokens.pop() else next(tokens) *)
      let got :=
        match saved (l_stash st) with
        | t :: sv => Some (t, set_stash st (mkStash sv (pushed (l_stash st))))
        | [] => match spull (l_own st) (l_anc st) (l_rest st) with
                | Some (t, own, anc, l) => Some (t, set_stream st own anc l)
                | None => None
                end
        end in
      match got with
      | None => finish o st
      | Some (t, st1) =>
        match body t st1 with
        | LCont st2 => loop n' st2
        | LBreak st2 => finish o st2
        | LOut x => x
        end
      end
    end.
End Loop.

(* first: the token of pushtoken(token, tokens); it is yielded as it is, the rest comes through the wrappers of the
   enclosing parses *)
Definition init_state (t : ptree) (anc : bool) (first : option tok) (toks : list tok) (sh : stash) : option lstate :=
  match enter t with
  | Some f => Some (mkLs [f] [] [] true false false true false false false None
                         (match first with Some x => SPend x | None => SOff end) anc toks sh)
  | None => None              (* a bare Prod as `productions`: Prod has no nextProd -> AttributeError *)
  end.

Definition loop_fuel (sh : stash) (toks : list tok) : nat := S (S (S (length (saved sh) + length toks))).

(* parse_tree: ProdParser(clear).parse(tokens, name, tree, **opts) with sub-parsers run by `sub` *)
Definition parse_tree (sub : nat -> bool -> tok -> list tok -> out) (postof : nat -> option postcode)
           (clear : bool) (o : opts) (t : ptree) (anc : bool) (first : option tok) (toks : list tok) (sh : stash) : out :=
  let sh0 := if clear then stash0 else sh in                                       (* __init__ l.363-370 *)
  match init_state t anc first toks sh0 with
  | Some st => loop o sub postof (loop_fuel sh0 toks) st
  | None => Crash
  end.

Definition postof_env (env : genv) (g : nat) : option postcode := option_map g_post (nth_error env g).

(* every constructor in the library calls ProdParser() (clear=True) *)
Fixpoint pparse_sub (d : nat) (env : genv) (g : nat) (anc : bool) (first : option tok) (toks : list tok) : out :=
  match d with
  | O => DepthOut
  | S d' =>
    match nth_error env g with
    | None => Crash
    | Some gr => parse_tree (fun g' a' t' l' => pparse_sub d' env g' a' (Some t') l') (postof_env env) true (g_opts gr) (g_tree gr)
                            anc first toks stash0
    end
  end.

(* the entry point compared with the implementation: one ProdParser(clear).parse on a tree, sub-parsers from env *)
Definition pparse (d : nat) (env : genv) (clear : bool) (o : opts) (t : ptree) (toks : list tok) (sh : stash) : out :=
  parse_tree (fun g' a' t' l' => pparse_sub d env g' a' (Some t') l') (postof_env env) clear o t false None toks sh.

(* Cls(tokens): the constructor of grammar g on a token list *)
Definition pparse_env (d : nat) (env : genv) (g : nat) (toks : list tok) : out := pparse_sub d env g false None toks.

(* the object a top-level constructor builds: Cls(tokens) for grammar g *)
Definition build (d : nat) (env : genv) (g : nat) (toks : list tok) : option postres :=
  match pparse_env d env g toks, postof_env env g with
  | Ret r, Some pc => Some (post pc r)
  | _, _ => None
  end.

Definition unused_of (r : result) : list tok :=
  drain (S (S (length (r_rest r)))) (r_own r) (r_anc r) (r_rest r).
