(* ParseTotal.v -- C01: the crash sites of a parse, partial Python operations modelled as partial.
   Definitions only; proofs are in ParseTotalFacts.v.  Line references: /repo/src/css_parser.

   What is modelled (each follows the REPAIRED code; the `_pinned` variants are the code as it was
   before the fix: commits, kept for the refutation witnesses):
     strval            util.Base._stringtokenvalue     = the regenerated Gen.StrTokenValue.stringtokenvalue
                       (IndexError on a token with an empty value)
     charset_rule      css/csscharsetrule.py:96-124    reads the token after CHARSET_SYM
     color_fn          css/value.py:401-470            component access raw[0..2], raw[3], 4-tuple unpack
     default handlers  util.py:402-447 / 506-556       ATKEYWORD / COMMENT / S / EOF of _parse
     parse_loop        util.py:450-493                 token dispatch of _parse
     parse_outcome     parse.py:81-160                 tokenize + top-level dispatch
   Imported: the tokenizer model (shared), Upto.upto (C04's model of _tokensupto2; the two facts
   C01 needs about it are proved in ParseTotalFacts.v), Quote.v (C03: the Gallina reading of the string operations) + Gen.StrTokenValue (own translator translate/parsetotal.py, reusing C03's translator class).
   Everything a rule object does with the token run it is handed (selectors, values, media
   queries, profiles validation) is NOT modelled: those handlers are Section variables constrained
   by the named hypothesis handlers_total.                                                      *)
From CssV Require Import Base Regex Gen.Productions Gen.TokTables Tokenizer Quote Gen.StrTokenValue Upto.
Local Open Scope nat_scope.

Inductive exn := IndexError | TypeError | ValueError.

Inductive outcome (A : Type) : Type :=
| Returned (a : A)
| Raised (e : exn)
| OutOfFuel.                 (* model artefact; excluded by the theorems *)
Arguments Returned {A} a.
Arguments Raised {A} e.
Arguments OutOfFuel {A}.

Definition bind {A B} (x : outcome A) (f : A -> outcome B) : outcome B :=
  match x with Returned a => f a | Raised e => Raised e | OutOfFuel => OutOfFuel end.

(* ------------------------------------------------------------------ _stringtokenvalue *)
Definition strval (t : option tok) : outcome (option str) :=
  match stringtokenvalue t with Ok v => Returned v | Crash => Raised IndexError end.

(* q :: body ++ [q] with q a quote character *)
Definition quoted (v : str) : Prop :=
  exists q body, (q = 34%N \/ q = 39%N) /\ v = q :: body ++ [q].

(* ------------------------------------------------------------------ @charset rule handler *)
Definition nexttoken (ts : list tok) : option tok * list tok :=      (* util.py:234-240 *)
  match ts with [] => (None, []) | t :: r => (Some t, r) end.
Definition typ_is (t : option tok) (name : str) : bool :=             (* _type(token) == name *)
  match t with Some t => eqs (ty t) name | None => false end.
Definition value_is (t : option tok) (v : str) : bool :=              (* _tokenvalue(token) == v *)
  match t with Some t => eqs (val t) v | None => false end.
Definition nonempty (v : option str) : bool :=
  match v with Some (_ :: _) => true | _ => false end.

Record charset_result := mkCs { cs_wellformed : bool; cs_encoding : option str }.

(* csscharsetrule.py:96-124; `guard` = the repaired code asks for the string value only of a
   STRING token (fix: "'@charset ' followed by a token that is not a STRING ...")              *)
Definition charset_rule_gen (guard : bool) (ts : list tok) : outcome charset_result :=
  let '(t1, r1) := nexttoken ts in
  let wf1 := typ_is t1 charset_sym in
  let '(enct, r2) := nexttoken r1 in
  bind (if guard then (if typ_is enct (s "STRING") then strval enct else Returned None)
        else strval enct)
       (fun encoding =>
          let wf2 := wf1 && typ_is enct (s "STRING") && nonempty encoding in
          let '(semi, r3) := nexttoken r2 in
          let '(eoft, _) := nexttoken r3 in
          let wf3 := wf2 && value_is semi (s ";") &&
                     (match eoft with None => true | Some _ => typ_is eoft (s "EOF") end) in
          Returned (mkCs wf3 (if wf3 then encoding else None))).
Definition charset_rule := charset_rule_gen true.
Definition charset_rule_pinned := charset_rule_gen false.

(* ------------------------------------------------------------------ colour function arguments
   value.py:401-470.  The numeric type and the arithmetic are abstract (Section variables):
   only list accesses and the final 4-tuple unpacking can raise here.                          *)
Inductive cfn := Rgb | Rgba | Hsl | Hsla.
Definition is_hsl (f : cfn) : bool := match f with Hsl | Hsla => true | _ => false end.

Section Color.
  Variable A : Type.
  Variable hls : A -> A -> A -> list A.          (* the three rounded channels; total *)
  Variable one : A.

  (* `guard` = the repaired code rejects fewer than three components before using them *)
  Definition color_fn_gen (guard : bool) (f : cfn) (raw : list A) : outcome (option (A * A * A * A)) :=
    if guard && Nat.ltb (length raw) 3 then Returned None            (* logged, not wellformed *)
    else
      bind (if is_hsl f then
              match raw with
              | h :: sa :: li :: rest =>                               (* raw[0], raw[1], raw[2] *)
                  Returned (hls h li sa ++ match rest with a :: _ => [a] | [] => [] end)
              | _ => Raised IndexError
              end
            else Returned raw)
           (fun rgba =>
              let rgba := if Nat.ltb (length rgba) 4 then rgba ++ [one] else rgba in
              match rgba with
              | [r; g; b; a] => Returned (Some (r, g, b, a))
              | _ => Raised ValueError                                  (* tuple unpacking *)
              end).
  Definition color_fn := color_fn_gen true.
  Definition color_fn_pinned := color_fn_gen false.
End Color.

(* ------------------------------------------------------------------ _parse and its defaults *)
Section Parse.
  Variable St : Type.
  (* a production callback: state, the token, the tokens still in the generator ->
     new state and what the callback left in the generator *)
  Definition handler := St -> tok -> list tok -> outcome (St * list tok).

  Variable expects_eof : St -> bool.                 (* expected == 'EOF' *)
  Variable set_eof : St -> St.                       (* return 'EOF' *)
  Variable flag : St -> St.                          (* new['wellformed'] = False / wellformed = False *)
  Variable add_unknown : St -> list tok -> St.       (* CSSUnknownRule().cssText = run; seq.append *)
  Variable add_comment : St -> tok -> St.

  (* util.py:418-431.  has_new = the caller passed a dict (or, repaired, the handler made one) *)
  Definition default_atkeyword (has_new : bool) : handler := fun st t r =>
    if negb (expects_eof st) then
      let '(run, rest) := upto FDefault (Some t) r in Returned (add_unknown st run, rest)
    else if has_new then Returned (flag st, r)
    else Raised TypeError.                            (* None['wellformed'] = False *)
  (* util.py:533-546 (Base2; Base's versions never touch `new`) *)
  Definition default_comment (has_new : bool) : handler := fun st t r =>
    if expects_eof st && negb has_new then Raised TypeError
    else Returned (add_comment (if expects_eof st then flag st else st) t, r).
  Definition default_s (has_new : bool) : handler := fun st t r =>
    if expects_eof st && negb has_new then Raised TypeError
    else Returned ((if expects_eof st then flag st else st), r).
  Definition default_eof : handler := fun st t r => Returned (set_eof st, r).

  Definition defaults (has_new : bool) (name : str) : option handler :=
    if eqs name (s "ATKEYWORD") then Some (default_atkeyword has_new)
    else if eqs name (s "COMMENT") then Some (default_comment has_new)
    else if eqs name (s "S") then Some (default_s has_new)
    else if eqs name (s "EOF") then Some default_eof
    else None.

  (* p = prods.get(token[0], default)   with prods = defaults updated by the caller's dict *)
  Definition lookup (has_new : bool) (prods : str -> option handler) (dflt : option handler)
             (name : str) : option handler :=
    match prods name with
    | Some h => Some h
    | None => match defaults has_new name with Some h => Some h | None => dflt end
    end.

  (* util.py:484-493: for token in fulltokenizer: ...   (callbacks pull from the same generator) *)
  Fixpoint parse_loop (fuel : nat) (has_new : bool) (prods : str -> option handler)
           (dflt : option handler) (st : St) (ts : list tok) : outcome St :=
    match ts with
    | [] => Returned st
    | t :: r =>
      match fuel with
      | O => OutOfFuel
      | S f =>
        match lookup has_new prods dflt (ty t) with
        | Some h => bind (h st t r) (fun '(st', r') => parse_loop f has_new prods dflt st' r')
        | None => parse_loop f has_new prods dflt (flag st) r     (* 'Unexpected token' is logged *)
        end
      end
    end.

  (* ---- the top level: cssstylesheet.py:160-317 (sheet) and cssstyledeclaration.py:307-348 (style) *)
  Variable charset_commit : St -> charset_result -> St.
  (* cssstylesheet.py:171-183: parse and consume tokens in any case *)
  Definition charsetrule (guard : bool) : handler := fun st t r =>
    let '(run, rest) := upto FDefault (Some t) r in
    bind (charset_rule_gen guard run) (fun res => Returned (charset_commit st res, rest)).

  Variable sheet_others : str -> option handler.     (* importrule, namespacerule, ..., unmodelled *)
  Variable sheet_default : handler.                  (* ruleset *)
  Variable style_prods : str -> option handler.      (* ident, char *)
  Variable style_default : handler.                  (* unexpected *)
  Variable st0 : St.

  Definition sheet_prods (guard : bool) (name : str) : option handler :=
    if eqs name charset_sym then Some (charsetrule guard) else sheet_others name.

  (* api = true: parseString (full-sheet tokens);  false: parseStyle.  dc = parseComments.
     Neither top-level _parse call passes `new` (cssstylesheet.py:305, cssstyledeclaration.py:345):
     has_new is the `repaired` flag.                                                           *)
  Definition parse_outcome_gen (repaired : bool) (api dc : bool) (text : str) : outcome St :=
    match tokenize dc api text with
    | None => OutOfFuel
    | Some toks =>
      if api then parse_loop (length toks) repaired (sheet_prods repaired) (Some sheet_default) st0 toks
      else parse_loop (length toks) repaired style_prods (Some style_default) st0 toks
    end.
  Definition parse_outcome := parse_outcome_gen true.
  Definition parse_outcome_pinned := parse_outcome_gen false.
End Parse.
