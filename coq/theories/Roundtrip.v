(* Roundtrip.v -- C03: how the component round trips compose into "serialise, re-parse, get an equal
   object, serialise again, get the same text".  Definitions only.

   A value (the right-hand side of a declaration, an @import/@namespace operand, an attribute-selector
   operand) is modelled as a list of items: a STRING item carries its string value (what
   Base._stringtokenvalue / helper.stringvalue produced), every other token is an opaque lexeme with
   its token type.  Serialising writes STRING items through helper.string (the generated [hstring]) and
   hands the lexemes to the serializer's `Out` (spacing; owned by C05), re-parsing runs the shared
   tokenizer model and the value grammar (prodparser; unmodelled).  `Out` and the grammar are Section
   variables of RoundtripFacts.v with named hypotheses.                                              *)
From CssV Require Import Base Regex Tokenizer Quote Gen.Quote QuoteFacts QuoteStrFacts.

Inductive item :=
| IStr (v : str)               (* a STRING token's value *)
| ILex (ty0 : str) (x : str).  (* any other value token: type and lexeme *)

Definition ser_item (i : item) : str :=
  match i with IStr v => hstring v | ILex _ x => x end.

(* what the parser makes of one token *)
Definition item_of_tok (t : tok) : option item :=
  if eqs (ty t) (s "STRING")
  then match stringtokenvalue (Some t) with Ok (Some v) => Some (IStr v) | _ => None end
  else Some (ILex (ty t) (val t)).

Definition non_S (t : tok) : bool := negb (eqs (ty t) (s "S")).

(* [sepok follow]: the texts the serializer may put after a token (separator + the next tokens); the
   set is a parameter: it belongs to the `Out` model (C05)                                        *)
Section WithSeparators.
  Variable sepok : str -> Prop.

  (* the token an item's text yields when such a text follows it *)
  Definition yields (i : item) (t : tok) : Prop :=
    exists follow t', sepok follow /\ first_token true false (ser_item i ++ follow) = Some t' /\
                      ty t' = ty t /\ val t' = val t.

  (* items whose own text is read back as themselves: for representable strings (QuoteStrFacts.rep_okc) this is proved
     (QuoteFacts.string_roundtrip_lemma, for every following text); for the other tokens it is a
     hypothesis about the lexeme (numbers: C17 number_roundtrip; identifiers, hashes, functions: C09/C10) *)
  Definition wf_item (i : item) : Prop :=
    match i with
    | IStr v => representable_str v
    | ILex ty0 x => ty0 <> s "STRING" /\
                    forall follow t, sepok follow -> first_token true false (x ++ follow) = Some t ->
                                     ty t = ty0 /\ val t = x
    end.
End WithSeparators.
