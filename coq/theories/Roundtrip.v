(* Roundtrip.v -- C03: how the component round trips compose into "serialise, re-parse, get an equal
   object, serialise again, get the same text".  Definitions only.

   A value (the right-hand side of a declaration, an @import/@namespace operand, an attribute-selector
   operand) is modelled as a list of items: a STRING item carries its string value (what
   Base._stringtokenvalue / helper.stringvalue produced), every other token is an opaque lexeme with
   its token type.  Serialising writes STRING items through helper.string (the generated [hstring]) and
   hands the lexemes to the serializer's `Out` (spacing; owned by C05), re-parsing runs the shared
   tokenizer model and the value grammar (prodparser; unmodelled).  `Out` and the grammar are Section
   variables of RoundtripFacts.v with named hypotheses.                                              *)
From CssV Require Import Base Regex Tokenizer Quote Gen.Quote QuoteFacts QuoteStrFacts Upto Skeleton SkeletonFacts.

Inductive item :=
| IStr (v : str)               (* a STRING token's value *)
| ILex (ty0 : str) (x : str).  (* any other value token: type and lexeme *)

Definition ser_item (i : item) : str :=
  match i with IStr v => hstring v | ILex _ x => x end.

(* what the parser makes of one token *)
Definition item_of_tok (t : tok) : option item :=
  if eqs (ty t) (s "STRING")
  then match stringtokenvalue (Some t) with Ok (Some v) => Some (IStr v) | _ => None end
  else Some (ILex (ty t) (val t)).

Definition non_S (t : tok) : bool := negb (eqs (ty t) (s "S")).

(* [sepok follow]: the texts the serializer may put after a token (separator + the next tokens); the
   set is a parameter: it belongs to the `Out` model (C05)                                        *)
Section WithSeparators.
  Variable sepok : str -> Prop.

  (* the token an item's text yields when such a text follows it *)
  Definition yields (i : item) (t : tok) : Prop :=
    exists follow t', sepok follow /\ first_token true false (ser_item i ++ follow) = Some t' /\
                      ty t' = ty t /\ val t' = val t.

  (* items whose own text is read back as themselves: for representable strings (QuoteStrFacts.rep_okc) this is proved
     (QuoteFacts.string_roundtrip_lemma, for every following text); for the other tokens it is a
     hypothesis about the lexeme (numbers: C17 number_roundtrip; identifiers, hashes, functions: C09/C10) *)
  Definition wf_item (i : item) : Prop :=
    match i with
    | IStr v => representable_str v
    | ILex ty0 x => ty0 <> s "STRING" /\
                    forall follow t, sepok follow -> first_token true false (x ++ follow) = Some t ->
                                     ty t = ty0 /\ val t = x
    end.
End WithSeparators.

(* ------------------------------------------------------------------ sheet layout: rule lists *)
(* What the serializer writes for a rule list (do_CSSStyleSheet, the body of do_CSSMediaRule) is
   lineSeparator.join(rule texts).  At token level: the token runs of the rules, joined by the tokens of the separator
   (none for '', one S token for a blank-only or newline separator, plus the indentation inside @media), possibly
   with skipped tokens in front and behind (indentation, the EOF token of full-sheet mode).                      *)
Inductive piece :=
| PStmt (k : kind) (run : list tok)     (* a rule / statement: its handler kind and its token run *)
| PComment (t : tok).                   (* a comment between the rules *)

Definition ptoks (p : piece) : list tok := match p with PStmt _ run => run | PComment t => [t] end.
Definition pitem (p : piece) : Skeleton.item :=
  match p with PStmt k run => Skeleton.IStmt k run | PComment t => Skeleton.IComment t end.

(* IsStatement: the run is one complete statement for its handler (C04: JunkStmt = first token selects handler k and
   the run is exactly what k's _tokensupto2 call pulls); a comment token is classified as a comment *)
Definition wf_piece (cls : tok -> tclass) (p : piece) : Prop :=
  match p with PStmt k run => JunkStmt cls k run | PComment t => cls t = CComment end.

Fixpoint join_toks (sep : list tok) (ps : list (list tok)) : list tok :=      (* sep.join(ps) *)
  match ps with
  | [] => []
  | [p] => p
  | p :: r => p ++ sep ++ join_toks sep r
  end.

Definition skips (cls : tok -> tclass) (l : list tok) : Prop := Forall (fun t => cls t = CSkip) l.
