(* RespellFacts.v -- C10: proofs about the respelling relations of Respell.v *)
From CssV Require Import Base Regex RegexFacts RegexTotal Gen.TokTables Gen.PyTables Tokenizer Respell.

(* ------------------------------------------------------------------ the tie to the generated regexes *)
Lemma re_unicodesub_is : re_unicodesub = my_unicodesub.
Proof. reflexivity. Qed.
Lemma re_simpleescapes_is : re_simpleescapes = my_simpleescapes.
Proof. reflexivity. Qed.

(* the side condition on str.lower(): on ASCII the generated per-character exception table says
   exactly what the hard-coded ASCII rule of Tokenizer.lower_char says (checked on all 128) *)
Lemma lower_table_ascii_ok :
  forallb (fun c => eqs (assoc_lower c lower_table)
                        (if N.leb 65 c && N.leb c 90 then [N.add c 32] else [c]))
          (map N.of_nat (seq 0 128)) = true.
Proof. vm_compute. reflexivity. Qed.

(* ------------------------------------------------------------------ small arithmetic facts *)
Lemma leb_t a b : (a <= b)%N -> N.leb a b = true.
Proof. intros; apply N.leb_le; assumption. Qed.
Lemma leb_f a b : (b < a)%N -> N.leb a b = false.
Proof. intros; apply N.leb_gt; assumption. Qed.

Lemma is_hexb_spec c : is_hexb c = true <->
  ((48 <= c /\ c <= 57) \/ (97 <= c /\ c <= 102) \/ (65 <= c /\ c <= 70))%N.
Proof.
  unfold is_hexb, hex_ranges; cbn [in_ranges].
  rewrite !orb_true_iff, !andb_true_iff, !N.leb_le. intuition (try discriminate).
Qed.

Lemma case_var_hex c c' : case_var c c' -> is_hexb c' = is_hexb c.
Proof.
  intros H. destruct (is_hexb c) eqn:E.
  - apply is_hexb_spec. apply is_hexb_spec in E. destruct H as [->|[(?&?&->)|(?&?&->)]]; lia.
  - destruct (is_hexb c') eqn:E'; [|reflexivity]. exfalso.
    assert (is_hexb c = true); [|congruence].
    apply is_hexb_spec. apply is_hexb_spec in E'. destruct H as [->|[(?&?&->)|(?&?&->)]]; lia.
Qed.

Lemma case_var_not_bs c c' : c <> 92%N -> case_var c c' -> c' <> 92%N.
Proof. intros Hc [->|[(?&?&->)|(?&?&->)]]; lia. Qed.

Lemma lower_char_ascii c : (c < 128)%N ->
  lower_char c = if N.leb 65 c && N.leb c 90 then [N.add c 32] else [c].
Proof. intros H. unfold lower_char. apply N.ltb_lt in H. rewrite H. reflexivity. Qed.

Lemma case_var_lower c c' : case_var c c' -> lower_char c' = lower_char c.
Proof.
  intros [->|[(H1&H2&->)|(H1&H2&->)]]; [reflexivity| |].
  - rewrite !lower_char_ascii by lia.
    rewrite (leb_t 65 c), (leb_t c 90) by lia. rewrite (leb_f (c + 32) 90) by lia.
    rewrite andb_false_r. reflexivity.
  - rewrite !lower_char_ascii by lia.
    rewrite (leb_t 65 (c - 32)), (leb_t (c - 32) 90) by lia. rewrite (leb_f c 90) by lia.
    rewrite andb_false_r. cbn [andb]. f_equal. lia.
Qed.

Lemma lower_cons c x : lower (c :: x) = lower_char c ++ lower x.
Proof. reflexivity. Qed.

(* ------------------------------------------------------------------ normalize *)
Lemma rmatch_simple p t :
  rmatch my_simpleescapes p t =
  match t with
  | x :: c :: _ => if N.eqb x 92 then if is_hexb c then None else Some 2%nat else None
  | _ => None
  end.
Proof.
  unfold rmatch, my_simpleescapes. cbn [m].
  destruct t as [|x t]; [reflexivity|]. destruct (N.eqb x 92); [|destruct t; reflexivity].
  destruct t as [|c r]; [reflexivity|]. unfold is_hexb.
  destruct (in_ranges c hex_ranges); cbn [xorb]; [reflexivity|]. f_equal. cbn [length]. lia.
Qed.

Lemma strip_eq : forall fuel prev t, (length t < fuel)%nat ->
  sub_all_fuel fuel my_simpleescapes (fun mt => tl mt) prev t = strip_spec t.
Proof.
  induction fuel as [|fu IH]; intros prev t Hl; [lia|].
  destruct t as [|x t]; [reflexivity|]. cbn [sub_all_fuel]. rewrite rmatch_simple.
  cbn [strip_spec]. cbn [length] in Hl.
  destruct t as [|c r].
  - destruct (N.eqb x 92); destruct fu; try lia; reflexivity.
  - destruct (N.eqb x 92) eqn:Ex.
    + destruct (is_hexb c) eqn:Eh.
      * f_equal. apply IH. lia.
      * cbn [firstn skipn tl app]. f_equal. apply IH. cbn [length] in Hl. lia.
    + f_equal. apply IH. lia.
Qed.

Lemma normalize_strip x : normalize x = lower (strip_spec x).
Proof.
  unfold normalize. destruct x as [|c r]; [reflexivity|].
  unfold sub_all. rewrite re_simpleescapes_is, strip_eq by lia. reflexivity.
Qed.

Lemma strip_plain c x : c <> 92%N -> strip_spec (c :: x) = c :: strip_spec x.
Proof. intros H. cbn [strip_spec]. apply N.eqb_neq in H. rewrite H. reflexivity. Qed.
Lemma strip_esc c x : is_hexb c = false -> strip_spec (92%N :: c :: x) = c :: strip_spec x.
Proof. intros H. cbn [strip_spec]. rewrite N.eqb_refl, H. reflexivity. Qed.
Lemma strip_hexesc h x : is_hexb h = true -> strip_spec (92%N :: h :: x) = 92%N :: strip_spec (h :: x).
Proof. intros H. cbn [strip_spec]. rewrite N.eqb_refl, H. reflexivity. Qed.

Lemma hex_not_bs h : is_hexb h = true -> h <> 92%N.
Proof. intros H ->. vm_compute in H. discriminate. Qed.

Lemma respell_strip x x' : CaseOrLiteralRespelling x x' -> lower (strip_spec x') = lower (strip_spec x).
Proof.
  induction 1 as [|c c' x x' Hc Hv _ IH|c c' x x' Hc Hh Hv _ IH|c c' x x' Hc Hh Hv _ IH
                  |c c' x x' Hh Hv _ IH|h h' x x' Hh Hv _ IH|].
  - reflexivity.
  - rewrite (strip_plain c) by assumption. rewrite (strip_plain c') by (eapply case_var_not_bs; eauto).
    rewrite !lower_cons, IH, (case_var_lower _ _ Hv). reflexivity.
  - rewrite (strip_plain c) by assumption.
    rewrite (strip_esc c') by (rewrite (case_var_hex _ _ Hv); assumption).
    rewrite !lower_cons, IH, (case_var_lower _ _ Hv). reflexivity.
  - rewrite (strip_esc c) by assumption. rewrite (strip_plain c') by (eapply case_var_not_bs; eauto).
    rewrite !lower_cons, IH, (case_var_lower _ _ Hv). reflexivity.
  - rewrite (strip_esc c) by assumption.
    rewrite (strip_esc c') by (rewrite (case_var_hex _ _ Hv); assumption).
    rewrite !lower_cons, IH, (case_var_lower _ _ Hv). reflexivity.
  - assert (Hh' : is_hexb h' = true) by (rewrite (case_var_hex _ _ Hv); assumption).
    rewrite (strip_hexesc h), (strip_hexesc h') by assumption.
    rewrite (strip_plain h) by (apply hex_not_bs; assumption).
    rewrite (strip_plain h') by (apply hex_not_bs; assumption).
    rewrite !lower_cons, IH, (case_var_lower _ _ Hv). reflexivity.
  - reflexivity.
Qed.

Theorem normalize_respell_lemma : forall x x',
  CaseOrLiteralRespelling x x' -> normalize x' = normalize x.
Proof. intros x x' H. rewrite !normalize_strip. apply respell_strip. exact H. Qed.

(* ------------------------------------------------------------------ the unicodesub regex, exactly *)
Definition kconst {R} (k : cont R) : Prop := forall p p' t, k p t = k p' t.

Lemma ltb_len_S {A} (x : A) (t : list A) : Nat.ltb (length t) (length (x :: t)) = true.
Proof. apply Nat.ltb_lt. cbn [length]. lia. Qed.
Lemma ltb_len_SS {A} (x y : A) (t : list A) : Nat.ltb (length t) (length (x :: y :: t)) = true.
Proof. apply Nat.ltb_lt. cbn [length]. lia. Qed.

Lemma rep_iter_done {R} (ma : matcher R) k f p t : rep_iter ma k (S f) 0 (Some 0%nat) p t = k p t.
Proof. reflexivity. Qed.

Lemma total_match {R} (k : cont R) p t (alt : option R) : kconst k -> ktotal k ->
  match k p t with Some v => Some v | None => alt end = k None t.
Proof. intros Hc Ht. destruct (Ht p t) as [v Hv]. rewrite Hv, (Hc None p). symmetry. exact Hv. Qed.

Definition re_wsalt : re := Alt (Cat (Chr 13) (Chr 10)) (Cls false ws_ranges).
Lemma m_wsalt {R} p t (kk : cont R) : m re_wsalt p t kk =
  match t with
  | [] => None
  | x :: r =>
    match (if N.eqb x 13 then match r with y :: r' => if N.eqb y 10 then kk (Some y) r' else None | [] => None end
           else None) with
    | Some v => Some v
    | None => if is_wsb x then kk (Some x) r else None
    end
  end.
Proof.
  unfold re_wsalt. cbn [m]. destruct t as [|x r]; [reflexivity|]. unfold is_wsb.
  destruct (in_ranges x ws_ranges); reflexivity.
Qed.

(* (?:\r\n|[\t\r\n\f ])?  followed by a continuation that always succeeds: takes the terminator *)
Lemma m_optws {R} (k : cont R) p t : kconst k -> ktotal k ->
  m re_optws p t k = k None (skipn (wslen t) t).
Proof.
  intros Hc Ht. unfold re_optws. fold re_wsalt. cbn [m]. cbn [rep_iter]. rewrite m_wsalt.
  destruct t as [|x r]; [apply Hc|]. cbn [wslen].
  destruct (N.eqb x 13) eqn:E13.
  - apply N.eqb_eq in E13; subst x. destruct r as [|y r'].
    + cbn. apply total_match; assumption.
    + destruct (N.eqb y 10) eqn:E10.
      * cbn [andb skipn]. rewrite ltb_len_SS. cbn [length Nat.pred option_map]. rewrite rep_iter_done.
        rewrite !total_match by assumption. reflexivity.
      * cbn [andb]. change (is_wsb 13) with true. cbn iota. rewrite ltb_len_S.
        cbn [length Nat.pred option_map skipn]. rewrite rep_iter_done. apply total_match; assumption.
  - cbn [andb]. destruct (is_wsb x) eqn:Ew.
    + rewrite ltb_len_S. cbn [length Nat.pred option_map skipn]. rewrite rep_iter_done. apply total_match; assumption.
    + apply Hc.
Qed.

(* [0-9a-fA-F]{lo,hi} followed by a continuation that always succeeds: takes the longest run *)
Lemma rep_hex {R} (k : cont R) : kconst k -> ktotal k ->
  forall hi fuel lo p t, (length t < fuel)%nat ->
  rep_iter (m (Cls false hex_ranges)) k fuel lo (Some hi) p t =
  if Nat.leb lo (hexrun hi t) then k None (skipn (hexrun hi t) t) else None.
Proof.
  intros Hc Ht. induction hi as [|h IH]; intros fuel lo p t Hl.
  - destruct fuel as [|f]; [lia|]. cbn [rep_iter hexrun]. destruct lo; cbn; [apply Hc|reflexivity].
  - destruct fuel as [|f]; [lia|]. cbn [rep_iter]. cbn [m].
    destruct t as [|x r].
    + cbn [hexrun]. destruct lo; cbn; [apply Hc|reflexivity].
    + cbn [hexrun]. unfold is_hexb. destruct (in_ranges x hex_ranges) eqn:Eh; cbn [xorb].
      * rewrite ltb_len_S. cbn [option_map Nat.pred]. cbn [length] in Hl.
        rewrite IH by lia. cbn [skipn].
        destruct lo as [|lo'].
        -- cbn [Nat.pred Nat.leb]. destruct (Ht None (skipn (hexrun h r) r)) as [v Hv]. rewrite Hv. reflexivity.
        -- cbn [Nat.pred Nat.leb]. destruct (Nat.leb lo' (hexrun h r)); [|reflexivity].
           destruct (Ht None (skipn (hexrun h r) r)) as [v Hv]. rewrite Hv. reflexivity.
      * destruct lo; cbn; [apply Hc|reflexivity].
Qed.

Lemma hexrun_le n t : (hexrun n t <= length t)%nat.
Proof.
  revert t; induction n as [|n IH]; intros [|x r]; cbn [hexrun length]; try lia.
  destruct (is_hexb x); [specialize (IH r)|]; lia.
Qed.
Lemma wslen_le t : (wslen t <= length t)%nat.
Proof.
  destruct t as [|x r]; cbn [wslen length]; [lia|].
  destruct (N.eqb x 13 && _) eqn:E.
  - destruct r; [rewrite andb_false_r in E; discriminate|cbn [length]; lia].
  - destruct (is_wsb x); lia.
Qed.

Lemma rmatch_unicodesub p t : rmatch re_unicodesub p t = usub_len t.
Proof.
  rewrite re_unicodesub_is. unfold rmatch, my_unicodesub, usub_len.
  destruct t as [|x r]; [reflexivity|]. cbn [m]. destruct (N.eqb x 92); [|reflexivity].
  set (k0 := fun (_ : option N) (t' : str) => Some (length (x :: r) - length t')%nat).
  assert (Hk0c : kconst k0) by (intros ? ? ?; reflexivity).
  assert (Hk0t : ktotal k0) by (intros ? ?; eexists; reflexivity).
  set (K := fun (p0 : option N) (t' : str) => m re_optws p0 t' k0).
  assert (HKc : kconst K) by (intros p1 p2 t'; unfold K; rewrite !m_optws by assumption; reflexivity).
  assert (HKt : ktotal K) by (intros p1 t'; unfold K; rewrite m_optws by assumption; apply Hk0t).
  change (m re_hexrun (Some x) r K = match hexrun 6 r with O => None | S n => Some (S (S n + wslen (skipn (S n) r))) end).
  unfold re_hexrun. cbn [m]. rewrite (rep_hex K HKc HKt) by lia.
  destruct (hexrun 6 r) as [|n] eqn:En; [reflexivity|]. cbn [Nat.leb].
  unfold K. rewrite m_optws by assumption. unfold k0. f_equal.
  pose proof (hexrun_le 6 r) as H1. pose proof (wslen_le (skipn (S n) r)) as H2.
  rewrite !skipn_length in *. cbn [length]. lia.
Qed.

(* ------------------------------------------------------------------ hex respelling *)
Lemma firstn_len_app {A} (a b : list A) : firstn (length a) (a ++ b) = a.
Proof. induction a; cbn; [destruct b; reflexivity|f_equal; assumption]. Qed.
Lemma skipn_len_app {A} (a b : list A) : skipn (length a) (a ++ b) = b.
Proof. induction a; cbn; [reflexivity|assumption]. Qed.

Lemma hexrun_app ds : hexdigits ds -> forall n rest, (length ds <= n)%nat ->
  ((length ds < n)%nat -> head_not is_hexb rest) -> hexrun n (ds ++ rest) = length ds.
Proof.
  unfold hexdigits. induction ds as [|d ds IH]; intros Hd n rest Hn Hr.
  - cbn [app length]. destruct n; [reflexivity|]. destruct rest as [|x r]; [reflexivity|].
    cbn [hexrun]. cbn in Hr. rewrite Hr by lia. reflexivity.
  - cbn in Hd. apply andb_true_iff in Hd as [Hd1 Hd2]. destruct n; [cbn in Hn; lia|].
    cbn [app hexrun length]. rewrite Hd1. f_equal. apply IH; auto; cbn in Hn; try lia.
    intros; apply Hr; cbn; lia.
Qed.

Lemma term_head_not_hex tm rest : Terminator tm -> tm <> [] -> head_not is_hexb (tm ++ rest).
Proof. intros [] H; try congruence; reflexivity. Qed.

Lemma wslen_term nd tm rest : Terminator tm -> term_ok nd tm rest -> wslen (tm ++ rest) = length tm.
Proof.
  intros [] H; cbn [app length].
  - destruct H as [H _]. destruct rest as [|x r]; [reflexivity|]. cbn in H. cbn [wslen].
    rewrite H. destruct (N.eqb x 13) eqn:E; [|reflexivity].
    apply N.eqb_eq in E. subst x. vm_compute in H. discriminate.
  - reflexivity.
  - reflexivity.
  - reflexivity.
  - reflexivity.
  - cbn in H. destruct rest as [|x r]; [reflexivity|]. cbn in H. cbn [wslen].
    rewrite N.eqb_refl, H. reflexivity.
  - reflexivity.
Qed.

Lemma hex_num_term ds tm : Terminator tm -> hex_num (ds ++ tm) = hex_num ds.
Proof. intros []; unfold hex_num; rewrite fold_left_app; reflexivity. Qed.

Lemma usub_len_esc ds tm rest : ds <> [] -> (length ds <= 6)%nat -> hexdigits ds ->
  Terminator tm -> term_ok (length ds) tm rest ->
  usub_len (92%N :: ds ++ tm ++ rest) = Some (length (92%N :: ds ++ tm)).
Proof.
  intros Hne Hl Hd Ht Hok. unfold usub_len. rewrite N.eqb_refl.
  assert (Hrun : hexrun 6 (ds ++ tm ++ rest) = length ds).
  { apply hexrun_app; auto. intros Hlt. destruct tm as [|t0 tm'] eqn:Etm.
    - cbn [app]. destruct Hok as [_ Hok]. apply Hok. exact Hlt.
    - rewrite <- Etm. apply term_head_not_hex; [rewrite Etm; exact Ht|rewrite Etm; discriminate]. }
  rewrite Hrun. destruct ds as [|d ds']; [congruence|]. cbn [length].
  change (S (length ds')) with (length (d :: ds')). rewrite skipn_len_app.
  rewrite (wslen_term _ _ _ Ht Hok). f_equal. cbn [length]. rewrite app_length. cbn [length]. lia.
Qed.

Lemma usub_len_plain c x' : (c <> 92%N \/ head_not is_hexb x') -> usub_len (c :: x') = None.
Proof.
  intros H. unfold usub_len. destruct (N.eqb c 92) eqn:E; [|reflexivity].
  destruct H as [H|H]; [apply N.eqb_eq in E; congruence|].
  destruct x' as [|y r]; [reflexivity|]. cbn in H. cbn [hexrun]. rewrite H. reflexivity.
Qed.

Lemma hexspell_fuel x x' : HexRespelling x x' -> forall fuel prev, (length x' < fuel)%nat ->
  sub_all_fuel fuel re_unicodesub repl prev x' = x.
Proof.
  induction 1 as [|c x x' Hc _ IH|c ds tm x x' Hne Hl Hd Hv Hmax Ht Hok _ IH
                  |ds tm x x' Hne Hl Hd Hmax Ht Hok _ IH]; intros fuel prev Hf.
  - destruct fuel; [lia|reflexivity].
  - destruct fuel as [|fu]; [lia|]. cbn [sub_all_fuel]. rewrite rmatch_unicodesub, usub_len_plain by assumption.
    f_equal. apply IH. cbn [length] in Hf. lia.
  - destruct fuel as [|fu]; [lia|]. cbn [sub_all_fuel]. rewrite rmatch_unicodesub.
    rewrite usub_len_esc by assumption. cbn [length firstn skipn].
    rewrite (app_assoc ds tm x'), firstn_len_app, skipn_len_app.
    unfold repl at 1. cbn [tl]. rewrite (hex_num_term _ _ Ht), Hv.
    apply N.leb_le in Hmax. rewrite Hmax. cbn [app]. f_equal. apply IH.
    cbn [length] in Hf. rewrite !app_length in Hf. lia.
  - destruct fuel as [|fu]; [lia|]. cbn [sub_all_fuel]. rewrite rmatch_unicodesub.
    rewrite usub_len_esc by assumption. cbn [length firstn skipn].
    rewrite (app_assoc ds tm x'), firstn_len_app, skipn_len_app.
    unfold repl at 1. cbn [tl]. rewrite (hex_num_term _ _ Ht).
    apply N.leb_gt in Hmax. rewrite Hmax. cbn [app]. f_equal. rewrite <- app_assoc. f_equal. f_equal.
    apply IH. cbn [length] in Hf. rewrite !app_length in Hf. lia.
Qed.

Theorem unicodesub_hexspell_lemma : forall x x', HexRespelling x x' -> unicodesub x' = x.
Proof. intros x x' H. unfold unicodesub, sub_all. apply (hexspell_fuel _ _ H). lia. Qed.

Theorem normalize_u_respell_lemma : forall name spelled,
  Respelling name spelled -> normalize_u spelled = normalize name.
Proof.
  intros name spelled (mid & H1 & H2). unfold normalize_u.
  rewrite (unicodesub_hexspell_lemma _ _ H2). apply normalize_respell_lemma. exact H1.
Qed.

(* ------------------------------------------------------------------ at-keywords, !important *)
Lemma atkeywords_normal : forallb (fun p => eqs (normalize (fst p)) (fst p)) atkeywords = true.
Proof. vm_compute. reflexivity. Qed.
Lemma atkeywords_six : map snd atkeywords =
  [s "FONT_FACE_SYM"; s "IMPORT_SYM"; s "MEDIA_SYM"; s "NAMESPACE_SYM"; s "PAGE_SYM"; s "VARIABLES_SYM"].
Proof. reflexivity. Qed.
Lemma atkeywords_lookup : forallb (fun p => match assoc_str (fst p) atkeywords with
                                            | Some v => eqs v (snd p) | None => false end) atkeywords = true.
Proof. vm_compute. reflexivity. Qed.
Lemma atkeyword_not_resolved : mem_str (s "ATKEYWORD") resolved_types = false.
Proof. vm_compute. reflexivity. Qed.

Theorem atkeyword_lookup_normalized_lemma : forall kw sym found after,
  In (kw, sym) atkeywords -> normalize_u found = kw ->
  finish_token (s "ATKEYWORD") found after = (sym, found, found).
Proof.
  intros kw sym found after Hin Hn. unfold finish_token.
  rewrite atkeyword_not_resolved, eqs_refl, Hn.
  pose proof atkeywords_lookup as H. rewrite forallb_forall in H. specialize (H _ Hin). cbn [fst snd] in H.
  destruct (assoc_str kw atkeywords) as [v|]; [|discriminate]. apply eqs_spec in H. subst v. reflexivity.
Qed.

Theorem atkeyword_respell_lemma : forall kw sym found after,
  In (kw, sym) atkeywords -> Respelling kw found ->
  finish_token (s "ATKEYWORD") found after = (sym, found, found).
Proof.
  intros kw sym found after Hin Hr. apply (atkeyword_lookup_normalized_lemma kw); [exact Hin|].
  rewrite (normalize_u_respell_lemma _ _ Hr).
  pose proof atkeywords_normal as H. rewrite forallb_forall in H. specialize (H _ Hin).
  apply eqs_spec in H. exact H.
Qed.

Theorem important_respell_lemma : forall p,
  CaseOrLiteralRespelling (s "important") p -> priority_of p = s "important".
Proof. intros p H. unfold priority_of. rewrite (normalize_respell_lemma _ _ H). vm_compute. reflexivity. Qed.

(* ------------------------------------------------------------------ quote kind *)
Lemma replace_escq q : forall v fuel, ~ In 92%N v -> q <> 92%N -> (length (escq q v ++ [q]) < fuel)%nat ->
  py_replace_fuel fuel (escq q v ++ [q]) [92%N; q] [q] = v ++ [q].
Proof.
  induction v as [|c v IH]; intros fuel Hn Hq Hf.
  - cbn in *. destruct fuel as [|[|f]]; try lia. cbn [py_replace_fuel starts].
    apply N.eqb_neq in Hq. rewrite N.eqb_sym, Hq. reflexivity.
  - assert (Hc : c <> 92%N) by (intros ->; apply Hn; left; reflexivity).
    assert (Hn' : ~ In 92%N v) by (intros H; apply Hn; right; exact H).
    unfold escq in *. cbn [flat_map] in *. destruct (N.eqb c q) eqn:E.
    + apply N.eqb_eq in E. subst c. cbn [app] in *. destruct fuel as [|f]; [lia|].
      cbn [py_replace_fuel starts]. rewrite !N.eqb_refl. cbn [andb length skipn app].
      f_equal. apply IH; auto. cbn [length] in Hf. lia.
    + cbn [app] in *. destruct fuel as [|f]; [lia|]. cbn [py_replace_fuel starts].
      apply N.eqb_neq in Hc. rewrite N.eqb_sym, Hc. cbn [andb]. f_equal. apply IH; auto.
      cbn [length] in Hf. lia.
Qed.

Lemma slice_1_1 c d (y : str) : py_slice_nn 1 1 (c :: y ++ [d]) = y.
Proof.
  unfold py_slice_nn. cbn [skipn length]. rewrite app_length. cbn [length].
  replace (S (length y + 1) - 1 - 1)%nat with (length y) by lia. apply firstn_len_app.
Qed.

Lemma unquote_quoted q v : ~ In 92%N v -> q <> 92%N ->
  py_slice_nn 1 1 (py_replace (quoted q v) [92%N; q] [q]) = v.
Proof.
  intros Hn Hq. unfold py_replace, quoted. cbn [length].
  change (py_replace_fuel (S (S (length (escq q v ++ [q])))) (q :: escq q v ++ [q]) [92%N; q] [q])
    with (if starts [92%N; q] (q :: escq q v ++ [q])
          then [q] ++ py_replace_fuel (S (length (escq q v ++ [q]))) (skipn 2 (q :: escq q v ++ [q])) [92%N; q] [q]
          else q :: py_replace_fuel (S (length (escq q v ++ [q]))) (escq q v ++ [q]) [92%N; q] [q]).
  cbn [starts]. pose proof Hq as Hq'. apply N.eqb_neq in Hq'. rewrite N.eqb_sym, Hq'. cbn [andb].
  rewrite replace_escq by (auto; lia). apply slice_1_1.
Qed.

(* util.Base._stringtokenvalue and helper.stringvalue give the content whichever quote is used *)
Theorem quote_kind_irrelevant_lemma : forall v ty0 raw0 l c ty1 raw1 l1 c1,
  ~ In 92%N v ->
  stringtokenvalue (Some (mkTok ty0 raw0 (quoted 34 v) l c)) = Ok (Some v) /\
  stringtokenvalue (Some (mkTok ty1 raw1 (quoted 39 v) l1 c1)) = Ok (Some v) /\
  hstringvalue (quoted 34 v) = Ok v /\ hstringvalue (quoted 39 v) = Ok v.
Proof.
  intros v ty0 raw0 l c ty1 raw1 l1 c1 Hn. unfold stringtokenvalue, hstringvalue. cbn [val].
  unfold quoted at 1 3 5 7. cbn [py_index0]. fold (quoted 34 v). fold (quoted 39 v).
  rewrite !unquote_quoted by (auto; discriminate). auto.
Qed.

(* ------------------------------------------------------------------ URL quoting *)
Definition all_pyspace (w : str) : Prop := forallb is_pyspace w = true.

Lemma lstrip_app w u : all_pyspace w -> head_not is_pyspace u -> lstrip (w ++ u) = lstrip u.
Proof.
  unfold all_pyspace. induction w as [|c w IH]; intros Hw Hu; [reflexivity|].
  cbn in Hw. apply andb_true_iff in Hw as [H1 H2]. cbn [app lstrip]. rewrite H1. apply IH; auto.
Qed.
Lemma lstrip_id u : head_not is_pyspace u -> lstrip u = u.
Proof. destruct u as [|c r]; [reflexivity|]. cbn. intros ->. reflexivity. Qed.

Lemma all_pyspace_rev w : all_pyspace w -> all_pyspace (rev w).
Proof.
  unfold all_pyspace. rewrite !forallb_forall. intros H x Hx. apply H. apply in_rev. exact Hx.
Qed.

(* u is not empty, and neither starts nor ends with Python whitespace *)
Definition trimmed (u : str) : Prop := u <> [] /\ head_not is_pyspace u /\ head_not is_pyspace (rev u).

Lemma strip_padded w1 u w2 : all_pyspace w1 -> all_pyspace w2 -> trimmed u -> py_strip (w1 ++ u ++ w2) = u.
Proof.
  intros H1 H2 (Hne & Hh & Hl). unfold py_strip.
  assert (Hh' : head_not is_pyspace (u ++ w2)) by (destruct u; [congruence|exact Hh]).
  rewrite lstrip_app, (lstrip_id (u ++ w2)) by assumption.
  rewrite rev_app_distr. rewrite lstrip_app, lstrip_id by (auto using all_pyspace_rev).
  apply rev_involutive.
Qed.

Lemma after_paren_aux_pre pre rest : ~ In 40%N pre -> after_paren_aux (pre ++ 40%N :: rest) = Some rest.
Proof.
  induction pre as [|c pre IH]; intros H.
  - reflexivity.
  - cbn [app after_paren_aux]. destruct (N.eqb c 40) eqn:E.
    + apply N.eqb_eq in E. subst c. exfalso. apply H. left. reflexivity.
    + apply IH. intros Hin. apply H. right. exact Hin.
Qed.
Lemma after_paren_pre pre rest : ~ In 40%N pre -> after_paren (pre ++ 40%N :: rest) = rest.
Proof. intros H. unfold after_paren. rewrite after_paren_aux_pre by assumption. reflexivity. Qed.

Lemma removelast_snoc {A} (l : list A) x : removelast (l ++ [x]) = l.
Proof. apply removelast_last. Qed.

Lemma uricontent_padded pre w1 u w2 : ~ In 40%N pre -> all_pyspace w1 -> all_pyspace w2 -> trimmed u ->
  uricontent (pre ++ [40%N] ++ w1 ++ u ++ w2 ++ [41%N]) = u.
Proof.
  intros Hp H1 H2 Hu. unfold uricontent. cbn [app]. rewrite after_paren_pre by assumption.
  replace (w1 ++ u ++ w2 ++ [41%N]) with ((w1 ++ u ++ w2) ++ [41%N]) by (rewrite <- !app_assoc; reflexivity).
  rewrite removelast_snoc. apply strip_padded; assumption.
Qed.

Lemma last_snoc (l : str) x d : last (l ++ [x]) d = x.
Proof. apply last_last. Qed.

Lemma quoted_trimmed q v : is_quote q = true -> trimmed (quoted q v).
Proof.
  intros Hq. assert (Hs : is_pyspace q = false).
  { unfold is_quote in Hq. apply orb_true_iff in Hq as [H|H]; apply N.eqb_eq in H; subst q; vm_compute; reflexivity. }
  unfold trimmed, quoted. repeat split.
  - discriminate.
  - exact Hs.
  - change (q :: escq q v ++ [q]) with ((q :: escq q v) ++ [q]). rewrite rev_app_distr. exact Hs.
Qed.

(* the bare form is read back as written when it is trimmed and is not itself "quoted-looking" *)
Definition UrlSafeBare (v : str) : Prop :=
  trimmed v /\ ~ In 92%N v /\
  (match v with c :: _ => is_quote c && N.eqb c (last v 0%N) = false | [] => True end).

Theorem url_quoting_irrelevant_lemma : forall pre w1 w2 w1' w2' q v,
  ~ In 40%N pre -> all_pyspace w1 -> all_pyspace w2 -> all_pyspace w1' -> all_pyspace w2' ->
  is_quote q = true -> UrlSafeBare v ->
  urivalue (url_bare pre w1 v w2) = v /\ urivalue (url_quoted pre w1' q v w2') = v.
Proof.
  intros pre w1 w2 w1' w2' q v Hp H1 H2 H1' H2' Hq (Ht & Hn & Hnq). unfold urivalue, url_bare, url_quoted. split.
  - rewrite uricontent_padded by assumption. unfold unquote_if_quoted.
    destruct v as [|c r]; [reflexivity|]. rewrite Hnq. reflexivity.
  - rewrite uricontent_padded by (auto using quoted_trimmed). unfold unquote_if_quoted.
    assert (Hlast : last (quoted q v) 0%N = q).
    { unfold quoted. change (q :: escq q v ++ [q]) with ((q :: escq q v) ++ [q]). apply last_snoc. }
    rewrite Hlast. unfold quoted at 1. rewrite Hq, N.eqb_refl. cbn [andb]. apply unquote_quoted; [exact Hn|].
    unfold is_quote in Hq. apply orb_true_iff in Hq as [H|H]; apply N.eqb_eq in H; subst q; discriminate.
Qed.

(* ------------------------------------------------------------------ refutations of weaker side conditions *)
Example hex_needs_terminator : unicodesub (s "\41b") <> s "Ab".
Proof. vm_compute. discriminate. Qed.
Example hex_terminator_eats_space : unicodesub (92%N :: s "41 b") = s "Ab" /\ unicodesub (92%N :: s "41  b") = s "A b".
Proof. split; vm_compute; reflexivity. Qed.
Example hex_six_digits_need_none : unicodesub (92%N :: s "000041b") = s "Ab".
Proof. vm_compute. reflexivity. Qed.
Example hex_cr_then_nl : unicodesub ([92; 52; 49; 13; 10; 98]%N) = s "Ab".   (* \41 CR LF b: both eaten *)
Proof. vm_compute. reflexivity. Qed.
Example hex_above_maxunicode_verbatim : unicodesub (92%N :: s "110000 x") = 92%N :: s "110000 x".
Proof. vm_compute. reflexivity. Qed.
Example literal_escape_of_hex_letter_is_not_literal : normalize (92%N :: s "a") <> s "a".
Proof. vm_compute. discriminate. Qed.
