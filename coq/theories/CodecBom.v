(* CodecBom.v -- the BOM-sniffing Gallina decoders (utf-16, utf-32, utf-8-sig) and the full decoder table cd_*:
   * the concat / error laws hold for EVERY state of cd_step (so chunking can never be the problem);
   * the one-shot law  cd_shot e b = final-step-from-the-initial-state  holds exactly when `divergent e b` is false;
   * hence incdec_chunking for the whole table on every input that is not `divergent_input`, and on those inputs the
     one-shot and the incremental result really differ: the two open findings are delimited by theorems. *)
From CssV Require Import Base CodecPyLib Gen.CodecFns Codec CodecConcrete CodecDetect CodecFacts CodecInverse CodecInstances CodecStream.
Local Open Scope N_scope.

(* ------------------------------------------------------------------ more about the scanner *)
Section ScanMore.
  Variable next : str -> nxt.
  Hypothesis N2 : forall x cp rest, next x = Complete cp rest -> (length rest < length x)%nat.

  Lemma scan_err_unicode fuel : forall x fin e, (length x < fuel)%nat -> scan next fuel x fin = Err e -> e = EUnicode.
  Proof.
    induction fuel as [|fuel IH]; intros x fin e Hl; [lia|].
    destruct x as [|c x]; [discriminate|]. rewrite scan_S.
    destruct (next (c :: x)) as [cp rest| |] eqn:Hn.
    - destruct (scan next fuel rest fin) as [[o p]|e'] eqn:Hr; [discriminate|]. intros [= <-].
      apply (IH rest fin e'); [|exact Hr]. apply N2 in Hn. simpl in *. lia.
    - destruct fin; [congruence|discriminate].
    - congruence.
  Qed.

  Lemma scan_pending_len fuel : forall x fin o p, (length x < fuel)%nat ->
    scan next fuel x fin = Ok (o, p) -> (length p <= length x)%nat.
  Proof.
    induction fuel as [|fuel IH]; intros x fin o p Hl; [lia|].
    destruct x as [|c x]; [cbn [scan]; intros [= <- <-]; simpl; lia|]. rewrite scan_S.
    destruct (next (c :: x)) as [cp rest| |] eqn:Hn.
    - destruct (scan next fuel rest fin) as [[o' p']|e'] eqn:Hr; [|discriminate]. intros [= <- <-].
      apply N2 in Hn. apply IH in Hr; [|simpl in *; lia]. simpl in *. lia.
    - destruct fin; [discriminate|]. intros [= <- <-]. lia.
    - discriminate.
  Qed.

  Lemma scan_final_nopending fuel : forall x o p, (length x < fuel)%nat ->
    scan next fuel x true = Ok (o, p) -> p = [].
  Proof.
    induction fuel as [|fuel IH]; intros x o p Hl; [lia|].
    destruct x as [|c x]; [cbn [scan]; now intros [= <- <-]|]. rewrite scan_S.
    destruct (next (c :: x)) as [cp rest| |] eqn:Hn; try discriminate.
    destruct (scan next fuel rest true) as [[o' p']|e'] eqn:Hr; [|discriminate]. intros [= <- <-].
    apply N2 in Hn. apply (IH rest o'); [simpl in *; lia|exact Hr].
  Qed.
End ScanMore.

(* ------------------------------------------------------------------ cd_step, with the accumulated bytes made explicit *)
Definition cd_go (k : kind) (ord : option bool) (b : str) (final : bool) : cdst * res str :=
  cd_step (mkCD k [] ord) b final.

Lemma cd_step_go st input final : cd_step st input final = cd_go (cd_kind st) (cd_order st) (cd_pend st ++ input) final.
Proof. reflexivity. Qed.

Definition law_ok (k : kind) (ord : option bool) (x : str) : Prop :=
  forall st' o1 b fin, cd_go k ord x false = (st', Ok o1) ->
  cd_go k ord (x ++ b) fin =
  (fst (cd_step st' b fin), match snd (cd_step st' b fin) with Ok o2 => Ok (o1 ++ o2) | Err e => Err e end).

Definition law_err (k : kind) (ord : option bool) (x : str) : Prop :=
  forall st' e b fin, cd_go k ord x false = (st', Err e) -> snd (cd_go k ord (x ++ b) fin) = Err e.

Lemma cd_scan_ok k le x st' o1 b fin : cd_scan k le x false = (st', Ok o1) ->
  cd_scan k le (x ++ b) fin =
  (fst (cd_step st' b fin), match snd (cd_step st' b fin) with Ok o2 => Ok (o1 ++ o2) | Err e => Err e end).
Proof.
  unfold cd_scan at 1.
  destruct (scan (next_of k le) (S (length x)) x false) as [[o p']|e] eqn:Hs; [|discriminate].
  intros [= <- <-]. unfold cd_step, cd_scan. cbn [cd_kind cd_pend cd_order].
  rewrite (scan_app_ok _ (next_of_N1 k le) (next_of_N2 k le) _ _ _ _ (Nat.lt_succ_diag_r _) Hs b fin).
  destruct (scan (next_of k le) (S (length (p' ++ b))) (p' ++ b) fin) as [[o2 p'']|e]; reflexivity.
Qed.

Lemma cd_scan_err k le x st' e b fin : cd_scan k le x false = (st', Err e) -> snd (cd_scan k le (x ++ b) fin) = Err e.
Proof.
  unfold cd_scan at 1.
  destruct (scan (next_of k le) (S (length x)) x false) as [[o p']|e'] eqn:Hs; [discriminate|].
  intros [= <- <-]. unfold cd_scan.
  now rewrite (scan_app_err _ (next_of_N1 k le) (next_of_N2 k le) (next_of_N3 k le) _ _ _ (Nat.lt_succ_diag_r _) Hs b fin).
Qed.

(* BOM-less data under a BOM-requiring decoder *)
Lemma nobom_ok k x st' o1 : nobom k x false = (st', Ok o1) -> st' = mkCD k x None /\ o1 = [].
Proof.
  unfold nobom. destruct (scan (next_of k true) (S (length x)) x false) as [[o p]|e]; [|discriminate].
  destruct (length p <? length x)%nat; [discriminate|]. now intros [= <- <-].
Qed.

Lemma nobom_err k x st' e b fin : nobom k x false = (st', Err e) -> snd (nobom k (x ++ b) fin) = Err e.
Proof.
  unfold nobom at 1.
  destruct (scan (next_of k true) (S (length x)) x false) as [[o p]|e'] eqn:Hs.
  - destruct (length p <? length x)%nat eqn:Hl; [|discriminate]. intros [= <- <-]. unfold nobom.
    rewrite (scan_app_ok _ (next_of_N1 k true) (next_of_N2 k true) _ _ _ _ (Nat.lt_succ_diag_r _) Hs b fin).
    destruct (scan (next_of k true) (S (length (p ++ b))) (p ++ b) fin) as [[o2 p'']|e2] eqn:H2.
    + apply (scan_pending_len _ (next_of_N2 k true)) in H2; [|lia]. apply Nat.ltb_lt in Hl.
      assert (E : (length p'' <? length (x ++ b))%nat = true) by (apply Nat.ltb_lt; rewrite !app_length in *; lia).
      now rewrite E.
    + apply (scan_err_unicode _ (next_of_N2 k true)) in H2; [|lia]. now subst.
  - intros [= <- <-]. unfold nobom.
    now rewrite (scan_app_err _ (next_of_N1 k true) (next_of_N2 k true) (next_of_N3 k true) _ _ _ (Nat.lt_succ_diag_r _) Hs b fin).
Qed.

(* ------------------------------------------------------------------ the laws, kind by kind *)
Lemma go_some k le x : cd_go k (Some le) x = cd_scan k le x.
Proof. reflexivity. Qed.

Lemma law_ok_some k le x : law_ok k (Some le) x.
Proof. intros st' o1 b fin. rewrite !go_some. apply cd_scan_ok. Qed.
Lemma law_err_some k le x : law_err k (Some le) x.
Proof. intros st' e b fin. rewrite !go_some. apply cd_scan_err. Qed.

(* kinds that do not sniff: order None behaves as Some true *)
Lemma go_plain k x fin : (k = K8 \/ k = KLatin \/ k = KAscii) -> cd_go k None x fin = cd_scan k true x fin.
Proof. intros [-> | [-> | ->]]; reflexivity. Qed.

(* utf-8-sig *)
Lemma go_sig x fin :
  cd_go K8sig None x fin =
  if (length x <? 3)%nat then (if starts x bom8 then (mkCD K8sig x None, Ok []) else cd_scan K8sig true x fin)
  else if starts bom8 x then cd_scan K8sig true (skipn 3 x) fin else cd_scan K8sig true x fin.
Proof. reflexivity. Qed.

Lemma sig_not_bom_ext x b fin : (length x < 3)%nat -> starts x bom8 = false ->
  cd_go K8sig None (x ++ b) fin = cd_scan K8sig true (x ++ b) fin.
Proof.
  intros Hl Hs. rewrite go_sig. destruct (length (x ++ b) <? 3)%nat.
  - now rewrite (not_prefix_ext _ _ b Hs).
  - rewrite not_prefix_ext_starts; [reflexivity|simpl; lia|exact Hs].
Qed.

Lemma law_ok_sig x : law_ok K8sig None x.
Proof.
  intros st' o1 b fin. rewrite go_sig. destruct (length x <? 3)%nat eqn:Hl.
  - apply Nat.ltb_lt in Hl. destruct (starts x bom8) eqn:Hs.
    + intros [= <- <-]. rewrite cd_step_go. cbn [cd_kind cd_order cd_pend].
      destruct (cd_go K8sig None (x ++ b) fin) as [s1 [o|e]]; reflexivity.
    + intros H. rewrite (sig_not_bom_ext _ _ _ Hl Hs). now apply cd_scan_ok.
  - apply Nat.ltb_ge in Hl. rewrite go_sig.
    assert (E : (length (x ++ b) <? 3)%nat = false) by (apply Nat.ltb_ge; rewrite app_length; lia). rewrite E.
    rewrite (starts_app_long bom8 x b) by (simpl; lia).
    destruct (starts bom8 x); [rewrite skipn_app_le by lia|]; apply cd_scan_ok.
Qed.

Lemma law_err_sig x : law_err K8sig None x.
Proof.
  intros st' e b fin. rewrite go_sig. destruct (length x <? 3)%nat eqn:Hl.
  - apply Nat.ltb_lt in Hl. destruct (starts x bom8) eqn:Hs; [discriminate|].
    intros H. rewrite (sig_not_bom_ext _ _ _ Hl Hs). now apply (cd_scan_err _ _ _ st').
  - apply Nat.ltb_ge in Hl. rewrite go_sig.
    assert (E : (length (x ++ b) <? 3)%nat = false) by (apply Nat.ltb_ge; rewrite app_length; lia). rewrite E.
    rewrite (starts_app_long bom8 x b) by (simpl; lia).
    destruct (starts bom8 x); [rewrite skipn_app_le by lia|]; apply cd_scan_err.
Qed.

(* utf-16 *)
Lemma law_ok_16 bo x : law_ok (K16 bo) None x.
Proof.
  intros st' o1 b fin. destruct x as [|a0 [|a1 r]].
  - intros [= <- <-]. rewrite cd_step_go. cbn [cd_kind cd_order cd_pend app].
    destruct (cd_go (K16 bo) None b fin) as [s1 [o|e]]; reflexivity.
  - intros [= <- <-]. rewrite cd_step_go. cbn [cd_kind cd_order cd_pend].
    destruct (cd_go (K16 bo) None ([a0] ++ b) fin) as [s1 [o|e]]; reflexivity.
  - change ((a0 :: a1 :: r) ++ b) with (a0 :: a1 :: (r ++ b)). unfold cd_go, cd_step. cbn [cd_kind cd_order cd_pend app].
    destruct ((a0 =? 255) && (a1 =? 254)) eqn:E1; [apply cd_scan_ok|].
    destruct ((a0 =? 254) && (a1 =? 255)) eqn:E2; [apply cd_scan_ok|].
    intros H. apply nobom_ok in H as [-> ->]. unfold cd_step. cbn [cd_kind cd_order cd_pend app]. rewrite E1, E2.
    destruct (nobom (K16 bo) (a0 :: a1 :: r ++ b) fin) as [s1 [o|e]]; reflexivity.
Qed.

Lemma law_err_16 bo x : law_err (K16 bo) None x.
Proof.
  intros st' e b fin. destruct x as [|a0 [|a1 r]]; [discriminate|discriminate|].
  change ((a0 :: a1 :: r) ++ b) with (a0 :: a1 :: (r ++ b)). unfold cd_go, cd_step. cbn [cd_kind cd_order cd_pend app].
  destruct ((a0 =? 255) && (a1 =? 254)); [apply cd_scan_err|].
  destruct ((a0 =? 254) && (a1 =? 255)); [apply cd_scan_err|].
  change (a0 :: a1 :: r ++ b) with ((a0 :: a1 :: r) ++ b). apply nobom_err.
Qed.

(* utf-32 *)
Lemma law_ok_32 bo x : law_ok (K32 bo) None x.
Proof.
  intros st' o1 b fin. destruct x as [|a0 [|a1 [|a2 [|a3 r]]]].
  1-4: intros [= <- <-]; rewrite cd_step_go; cbn [cd_kind cd_order cd_pend app];
       match goal with |- ?l = _ => destruct l as [s1 [o|e]] end; reflexivity.
  change ((a0 :: a1 :: a2 :: a3 :: r) ++ b) with (a0 :: a1 :: a2 :: a3 :: (r ++ b)).
  unfold cd_go, cd_step. cbn [cd_kind cd_order cd_pend app].
  destruct ((a0 =? 255) && (a1 =? 254) && (a2 =? 0) && (a3 =? 0)) eqn:E1; [apply cd_scan_ok|].
  destruct ((a0 =? 0) && (a1 =? 0) && (a2 =? 254) && (a3 =? 255)) eqn:E2; [apply cd_scan_ok|].
  intros H. apply nobom_ok in H as [-> ->]. unfold cd_step. cbn [cd_kind cd_order cd_pend app]. rewrite E1, E2.
  destruct (nobom (K32 bo) (a0 :: a1 :: a2 :: a3 :: r ++ b) fin) as [s1 [o|e]]; reflexivity.
Qed.

Lemma law_err_32 bo x : law_err (K32 bo) None x.
Proof.
  intros st' e b fin. destruct x as [|a0 [|a1 [|a2 [|a3 r]]]]; try discriminate.
  change ((a0 :: a1 :: a2 :: a3 :: r) ++ b) with (a0 :: a1 :: a2 :: a3 :: (r ++ b)).
  unfold cd_go, cd_step. cbn [cd_kind cd_order cd_pend app].
  destruct ((a0 =? 255) && (a1 =? 254) && (a2 =? 0) && (a3 =? 0)); [apply cd_scan_err|].
  destruct ((a0 =? 0) && (a1 =? 0) && (a2 =? 254) && (a3 =? 255)); [apply cd_scan_err|].
  change (a0 :: a1 :: a2 :: a3 :: r ++ b) with ((a0 :: a1 :: a2 :: a3 :: r) ++ b). apply nobom_err.
Qed.

Lemma law_ok_all k ord x : law_ok k ord x.
Proof.
  destruct ord as [le|]; [apply law_ok_some|].
  destruct k as [| |bo|bo| |]; try apply law_ok_sig; try apply law_ok_16; try apply law_ok_32;
    intros st' o1 b fin; rewrite !go_plain by tauto; apply cd_scan_ok.
Qed.

Lemma law_err_all k ord x : law_err k ord x.
Proof.
  destruct ord as [le|]; [apply law_err_some|].
  destruct k as [| |bo|bo| |]; try apply law_err_sig; try apply law_err_16; try apply law_err_32;
    intros st' e b fin; rewrite !go_plain by tauto; apply cd_scan_err.
Qed.

(* the two incremental laws for EVERY state of EVERY Gallina decoder *)
Theorem cd_concat d a b fin d' o1 : cd_step d a false = (d', Ok o1) ->
  cd_step d (a ++ b) fin =
  (fst (cd_step d' b fin), match snd (cd_step d' b fin) with Ok o2 => Ok (o1 ++ o2) | Err e => Err e end).
Proof. rewrite !cd_step_go, app_assoc. apply law_ok_all. Qed.

Theorem cd_error d a b fin d' e : cd_step d a false = (d', Err e) -> snd (cd_step d (a ++ b) fin) = Err e.
Proof. rewrite !cd_step_go, app_assoc. apply law_err_all. Qed.

(* ------------------------------------------------------------------ the one-shot law and where exactly it fails *)
Definition has_bom (k : kind) (b : str) : bool :=
  match k, b with
  | K16 None, a0 :: a1 :: _ => ((a0 =? 255) && (a1 =? 254)) || ((a0 =? 254) && (a1 =? 255))
  | K32 None, a0 :: a1 :: a2 :: a3 :: _ =>
    ((a0 =? 255) && (a1 =? 254) && (a2 =? 0) && (a3 =? 0)) || ((a0 =? 0) && (a1 =? 0) && (a2 =? 254) && (a3 =? 255))
  | _, _ => false
  end.
Definition is_ok {A} (r : res A) : bool := match r with Ok _ => true | Err _ => false end.
Definition isnil {A} (l : list A) : bool := match l with [] => true | _ => false end.

(* CPython's one-shot decoder and its incremental decoder (fed everything, final=True) disagree exactly here:
   - 'utf-16' / 'utf-32' (the BOM-sniffing names), data without BOM that the little-endian decoder accepts:
     one-shot returns that text, incremental raises "stream does not start with BOM";
   - 'utf-8-sig', data = a proper non-empty prefix of the BOM: one-shot raises, incremental returns '' *)
Definition divergent (e : str) (b : str) : bool :=
  match lookup e with
  | Some (K16 None) => negb (has_bom (K16 None) b) && negb (isnil b) && is_ok (scan_all (K16 None) true b)
  | Some (K32 None) => negb (has_bom (K32 None) b) && negb (isnil b) && is_ok (scan_all (K32 None) true b)
  | Some K8sig => eqs b [239] || eqs b [239; 187]
  | _ => false
  end.

Definition cd_final (e : str) (b : str) : res str :=
  match cd_init e with None => Err ELookup | Some d => snd (cd_step d b true) end.

Lemma snd_cd_scan k le b : snd (cd_scan k le b true) = scan_all k le b.
Proof. unfold cd_scan, scan_all. destruct (scan (next_of k le) (S (length b)) b true) as [[o p]|e]; reflexivity. Qed.

Lemma nobom_final k b : b <> [] ->
  snd (nobom k b true) = match scan_all k true b with Ok _ => Err EUnicode | Err e => Err e end.
Proof.
  intros Hb. unfold nobom, scan_all.
  destruct (scan (next_of k true) (S (length b)) b true) as [[o p]|e] eqn:Hs; [|reflexivity].
  apply (scan_final_nopending _ (next_of_N2 k true)) in Hs; [|lia]. subst p.
  destruct b; [congruence|]. reflexivity.
Qed.

Theorem cd_shot_vs_final e b :
  if divergent e b then is_ok (cd_shot e b) = negb (is_ok (cd_final e b)) else cd_shot e b = cd_final e b.
Proof.
  unfold cd_shot, cd_final, cd_init, divergent. destruct (lookup e) as [k|]; [|reflexivity].
  destruct k as [| |[le|]|[le|]| |];
    try (cbn [cd_step cd_kind cd_pend cd_order app]; rewrite snd_cd_scan; reflexivity).
  - (* utf-8-sig *)
    change (cd_step (mkCD K8sig [] None) b true) with (cd_go K8sig None b true). rewrite go_sig.
    destruct b as [|a0 [|a1 [|a2 r]]].
    + reflexivity.
    + cbn [eqs starts length Nat.ltb Nat.leb bom8]. destruct (N.eqb a0 239) eqn:E.
      * apply N.eqb_eq in E. subst. vm_compute. reflexivity.
      * rewrite N.eqb_sym in E. cbn [andb orb]. rewrite E. cbn [andb]. now rewrite snd_cd_scan.
    + cbn [eqs starts length Nat.ltb Nat.leb bom8]. destruct (N.eqb a0 239) eqn:E0; destruct (N.eqb a1 187) eqn:E1;
        cbn [andb orb].
      * apply N.eqb_eq in E0, E1. subst. vm_compute. reflexivity.
      * rewrite N.eqb_sym in E0, E1. rewrite E0, E1. cbn [andb]. now rewrite snd_cd_scan.
      * rewrite N.eqb_sym in E0. rewrite E0. cbn [andb]. now rewrite snd_cd_scan.
      * rewrite N.eqb_sym in E0. rewrite E0. cbn [andb]. now rewrite snd_cd_scan.
    + cbn [eqs]. rewrite !andb_false_r. cbn [orb length Nat.ltb Nat.leb].
      destruct (starts bom8 (a0 :: a1 :: a2 :: r)); now rewrite snd_cd_scan.
  - (* utf-16 *)
    cbn [cd_step cd_kind cd_pend cd_order app].
    destruct b as [|a0 [|a1 r]]; [reflexivity|reflexivity|].
    cbn [has_bom isnil negb]. destruct ((a0 =? 255) && (a1 =? 254)) eqn:E1; [now rewrite snd_cd_scan|].
    destruct ((a0 =? 254) && (a1 =? 255)) eqn:E2; [now rewrite snd_cd_scan|]. cbn [orb negb andb].
    rewrite nobom_final by discriminate. destruct (scan_all (K16 None) true (a0 :: a1 :: r)); reflexivity.
  - (* utf-32 *)
    cbn [cd_step cd_kind cd_pend cd_order app].
    destruct b as [|a0 [|a1 [|a2 [|a3 r]]]]; [reflexivity|reflexivity|reflexivity|reflexivity|].
    cbn [has_bom isnil negb].
    destruct ((a0 =? 255) && (a1 =? 254) && (a2 =? 0) && (a3 =? 0)) eqn:E1; [now rewrite snd_cd_scan|].
    destruct ((a0 =? 0) && (a1 =? 0) && (a2 =? 254) && (a3 =? 255)) eqn:E2; [now rewrite snd_cd_scan|]. cbn [orb negb andb].
    rewrite nobom_final by discriminate.
    destruct (scan_all (K32 None) true (a0 :: a1 :: a2 :: a3 :: r)); reflexivity.
Qed.

Corollary cd_shot_cond e b : divergent e b = false -> cd_shot e b = cd_final e b.
Proof. intros H. pose proof (cd_shot_vs_final e b) as L. now rewrite H in L. Qed.

Corollary cd_shot_div e b : divergent e b = true -> is_ok (cd_shot e b) = negb (is_ok (cd_final e b)).
Proof. intros H. pose proof (cd_shot_vs_final e b) as L. now rewrite H in L. Qed.

(* ------------------------------------------------------------------ the whole Gallina decoder table *)
Definition divergent_input (enc : option str) (force : bool) (w : str) : bool :=
  match pick_encoding enc force w true with PEnc e => divergent e w | _ => false end.

(* chunking invariance of the css incremental decoder over ALL Gallina codecs (BOM sniffers included), for every
   input on which CPython's own one-shot and incremental decoders agree *)
Theorem incdec_chunking_full enc force chunks last :
  divergent_input enc force (concat chunks ++ last) = false ->
  c_dec_feed enc force chunks last = c_decode (concat chunks ++ last) enc force.
Proof.
  intros H. unfold c_dec_feed, c_decode.
  apply (incdec_chunking_cond_thm cdst cd_init cd_step cd_shot cd_concat cd_error).
  intros e He. apply cd_shot_cond. unfold divergent_input in H. now rewrite He in H.
Qed.

(* ... and on the remaining inputs the two results really differ, already for the single chunk: one side raises,
   the other returns text *)
Theorem divergence_is_real enc force w :
  divergent_input enc force w = true ->
  is_ok (c_dec_feed enc force [] w) = negb (is_ok (c_decode w enc force)).
Proof.
  unfold divergent_input, c_dec_feed, c_decode, decode. cbn [dec_feed].
  unfold dec_step, dec_init. cbn [ds_dec ds_enc ds_force ds_buf ds_fixed app].
  destruct (pick_encoding enc force w true) as [|x|e]; try discriminate. intros Hd.
  pose proof (cd_shot_div _ _ Hd) as L. unfold cd_final in L.
  assert (Hi : cd_init e <> None).
  { unfold cd_init. unfold divergent in Hd. destruct (lookup e); [discriminate|discriminate Hd]. }
  destruct (cd_init e) as [d|]; [|congruence].
  unfold dec_with. cbn [ds_dec ds_enc ds_force ds_buf ds_fixed app].
  destruct (cd_step d w true) as [d' [o|x]]; cbn [snd is_ok negb] in *.
  - destruct (cd_shot e w) as [t|x]; [discriminate L|].
    destruct (fix_final_some o (nosig e)) as [r Hr]. rewrite Hr. reflexivity.
  - destruct (cd_shot e w) as [t|y]; [|discriminate L].
    destruct (fix_final_some t e) as [r Hr]. rewrite Hr. reflexivity.
Qed.

(* detection by BOM never leads into the divergent set: only an explicit encoding argument or an (ASCII) @charset
   rule can name a BOM-requiring codec for data that has no BOM *)
Lemma pick_none_of_detect w force e x : detectencoding_str w true = Some (Some e, x) -> is_css e = false ->
  pick_encoding None force w true = PEnc e.
Proof. apply pick_detected. Qed.

Theorem bom_detected_not_divergent force w :
  (exists r, w = 239 :: 187 :: 191 :: r) \/
  (exists b2 b3 r, w = 255 :: 254 :: b2 :: b3 :: r /\ (b2 <> 0 \/ b3 <> 0)) \/
  (exists r, w = 254 :: 255 :: r) \/
  (exists r, w = 255 :: 254 :: 0 :: 0 :: r) \/
  (exists r, w = 0 :: 0 :: 254 :: 255 :: r) ->
  divergent_input None force w = false.
Proof.
  unfold divergent_input.
  intros [[r ->]|[[b2 [b3 [r [-> H]]]]|[[r ->]|[[r ->]|[r ->]]]]].
  - rewrite (pick_detected _ force _ _ (bom_utf8sig r true) eq_refl). reflexivity.
  - rewrite (pick_detected _ force _ _ (bom_utf16_le b2 b3 r true H) eq_refl). reflexivity.
  - rewrite (pick_detected _ force _ _ (bom_utf16_be r true) eq_refl).
    unfold divergent. change (lookup utf16) with (Some (K16 None)). destruct r as [|c r]; reflexivity.
  - rewrite (pick_detected _ force _ _ (bom_utf32_le r true) eq_refl). reflexivity.
  - rewrite (pick_detected _ force _ _ (bom_utf32_be r true) eq_refl). reflexivity.
Qed.

(* ------------------------------------------------------------------ StreamReader over the whole Gallina table *)
Theorem sr_chunking_full enc force chunks :
  collapse (c_sr_trace enc force chunks) =
  snd (sr_step cdst cd_init cd_step (sr_init cdst enc force) (concat chunks)).
Proof. exact (sr_chunking_thm cdst cd_init cd_step cd_concat cd_error chunks (sr_init cdst enc force)). Qed.

Theorem sr_decided_full enc force w st' r d' :
  sr_step cdst cd_init cd_step (sr_init cdst enc force) w = (st', Ok r) -> rs_dec st' = Some d' ->
  divergent_input enc force w = false ->
  c_decode w enc force = match snd (cd_step d' [] true) with Ok o2 => Ok (r ++ o2) | Err e => Err e end.
Proof.
  intros Hs Hd Hdiv. apply (sr_decided_thm cdst cd_init cd_step cd_shot cd_concat enc force w st' r d' Hs Hd).
  intros e He. apply cd_shot_cond. unfold divergent_input in Hdiv. now rewrite He in Hdiv.
Qed.
