(* StyleDeclFacts.v -- proofs about the CSSStyleDeclaration model (property C11).
   Everything in Section Facts holds for ANY normalisation function norm and any attribute tables. *)
From CssV Require Import Base StyleDecl.
From CssV Require Gen.CssProperties.

(* ------------------------------------------------------------------ generic list facts *)
Lemma eqs_sym a b : eqs a b = eqs b a.
Proof.
  destruct (eqs a b) eqn:E1, (eqs b a) eqn:E2; auto.
  - apply eqs_spec in E1. subst. rewrite eqs_refl in E2. discriminate.
  - apply eqs_spec in E2. subst. rewrite eqs_refl in E1. discriminate.
Qed.

Lemma eqs_false a b : eqs a b = false <-> a <> b.
Proof.
  split.
  - intros H E. subst. rewrite eqs_refl in H. discriminate.
  - intros H. destruct (eqs a b) eqn:E; auto. apply eqs_spec in E. contradiction.
Qed.

Lemma mems_In x l : mems x l = true <-> In x l.
Proof.
  induction l as [|y r IH]; simpl; [split; [discriminate|tauto]|].
  rewrite orb_true_iff, eqs_spec, IH. tauto.
Qed.

Lemma mems_false x l : mems x l = false <-> ~ In x l.
Proof. rewrite <- mems_In. destruct (mems x l); split; congruence. Qed.

Lemma mems_rev x l : mems x (rev l) = mems x l.
Proof.
  destruct (mems x l) eqn:E.
  - apply mems_In. apply -> in_rev. now apply mems_In.
  - apply mems_false. intros H. apply in_rev in H. apply mems_false in E. contradiction.
Qed.

Lemma NoDup_snoc {A} (l : list A) x : NoDup l -> ~ In x l -> NoDup (l ++ [x]).
Proof.
  induction l as [|y r IH]; simpl; intros Hn Hx.
  - constructor; [tauto|constructor].
  - inversion Hn as [|? ? Hy Hr]; subst. constructor.
    + rewrite in_app_iff. simpl. intros [H|[H|[]]]; [contradiction|subst; tauto].
    + apply IH; tauto.
Qed.

(* the last element satisfying f, defined by a forward scan *)
Definition last_where {A} (f : A -> bool) (l : list A) : option A :=
  fold_left (fun acc x => if f x then Some x else acc) l None.

Lemma last_where_snoc {A} (f : A -> bool) l x :
  last_where f (l ++ [x]) = if f x then Some x else last_where f l.
Proof. unfold last_where. rewrite fold_left_app. reflexivity. Qed.

Lemma last_where_spec {A} (f : A -> bool) l x :
  last_where f l = Some x ->
  exists l1 l2, l = l1 ++ x :: l2 /\ f x = true /\ forallb (fun y => negb (f y)) l2 = true.
Proof.
  induction l as [|y l IH] using rev_ind; [discriminate|].
  rewrite last_where_snoc. destruct (f y) eqn:Fy.
  - intros H; inversion H; subst. exists l, []. auto.
  - intros H. destruct (IH H) as (l1 & l2 & -> & Fx & Hall).
    exists l1, (l2 ++ [y]). rewrite <- app_assoc. simpl. repeat split; auto.
    rewrite forallb_app, Hall. simpl. now rewrite Fy.
Qed.

Lemma last_where_none {A} (f : A -> bool) l :
  last_where f l = None <-> forall x, In x l -> f x = false.
Proof.
  induction l as [|y l IH] using rev_ind.
  - split; [intros _ x []|reflexivity].
  - rewrite last_where_snoc. destruct (f y) eqn:Fy.
    + split; [discriminate|]. intros H. rewrite (H y) in Fy; [discriminate|]. apply in_or_app; simpl; auto.
    + rewrite IH. split.
      * intros H x Hx. apply in_app_or in Hx as [Hx|[<-|[]]]; auto.
      * intros H x Hx. apply H. apply in_or_app; auto.
Qed.

Lemma last_where_ext {A} (f g : A -> bool) l :
  (forall x, In x l -> f x = g x) -> last_where f l = last_where g l.
Proof.
  induction l as [|y l IH] using rev_ind; [reflexivity|].
  intros H. rewrite !last_where_snoc, IH.
  - rewrite (H y); [reflexivity|]. apply in_or_app; simpl; auto.
  - intros x Hx. apply H. apply in_or_app; auto.
Qed.

(* distinct elements in the order of their LAST occurrence *)
Fixpoint dedup_last (l : list str) : list str :=
  match l with [] => [] | x :: r => if mems x r then dedup_last r else x :: dedup_last r end.

Lemma dedup_last_In x l : In x (dedup_last l) <-> In x l.
Proof.
  induction l as [|y r IH]; simpl; [tauto|].
  destruct (mems y r) eqn:E; simpl; rewrite IH; [|tauto].
  apply mems_In in E. split; [tauto|]. intros [<-|H]; auto.
Qed.

Lemma dedup_last_NoDup l : NoDup (dedup_last l).
Proof.
  induction l as [|y r IH]; simpl; [constructor|].
  destruct (mems y r) eqn:E; auto. constructor; auto.
  rewrite dedup_last_In. now apply mems_false.
Qed.

(* ------------------------------------------------------------------ views of a block *)
Definition props_of (b : block) : list prop :=
  flat_map (fun it => match it with IProp p => [p] | _ => [] end) b.
Definition others_of (b : block) : list item :=
  filter (fun it => match it with IProp _ => false | _ => true end) b.
Definition names (b : block) : list str := map name (props_of b).
Definition NoDupNames (b : block) : Prop := NoDup (names b).

Lemma props_of_app b1 b2 : props_of (b1 ++ b2) = props_of b1 ++ props_of b2.
Proof. unfold props_of. apply flat_map_app. Qed.

Lemma in_props_of p b : In p (props_of b) <-> In (IProp p) b.
Proof.
  unfold props_of. rewrite in_flat_map. split.
  - intros (it & Hin & Hp). destruct it; simpl in Hp; try tauto. destruct Hp as [<-|[]]. exact Hin.
  - intros H. exists (IProp p). simpl. auto.
Qed.

Lemma In_indexed_gen (b : block) : forall s i it,
  In (i, it) (combine (seq s (length b)) b) -> s <= i /\ nth_error b (i - s) = Some it.
Proof.
  induction b as [|x b IH]; simpl; intros s i it H; [tauto|].
  destruct H as [H|H].
  - inversion H; subst. rewrite Nat.sub_diag. auto.
  - apply IH in H as [H1 H2]. split; [lia|].
    replace (i - s) with (S (i - S s)) by lia. exact H2.
Qed.

Lemma In_indexed i it b : In (i, it) (indexed b) -> nth_error b i = Some it.
Proof. intros H. apply In_indexed_gen in H as [_ H]. now rewrite Nat.sub_0_r in H. Qed.

Lemma indexed_In_gen it (b : block) : forall s, In it b -> exists i, In (i, it) (combine (seq s (length b)) b).
Proof.
  induction b as [|x b IH]; simpl; intros s H; [tauto|].
  destruct H as [->|H]; [exists s; auto|].
  destruct (IH (S s) H) as [i Hi]. exists i. auto.
Qed.

Lemma indexed_In it b : In it b -> exists i, In (i, it) (indexed b).
Proof. apply indexed_In_gen. Qed.

Lemma nth_indexed_gen (b : block) : forall s k x,
  nth_error b k = Some x -> In (s + k, x) (combine (seq s (length b)) b).
Proof.
  induction b as [|y b IH]; intros s k x Hk; destruct k; simpl in *; try discriminate.
  - inversion Hk; subst. rewrite Nat.add_0_r. auto.
  - right. replace (s + S k) with (S s + k) by lia. now apply IH.
Qed.

Lemma nth_indexed b k x : nth_error b k = Some x -> In (k, x) (indexed b).
Proof. intros H. apply (nth_indexed_gen b 0 k x H). Qed.

Lemma indexed_split_lt (b : block) : forall s l1 x l2,
  combine (seq s (length b)) b = l1 ++ x :: l2 -> forall y, In y l1 -> fst y < fst x.
Proof.
  induction b as [|z b IH]; intros s l1 x l2 E y Hy; simpl in E.
  - destruct l1; discriminate.
  - destruct l1 as [|w l1]; [destruct Hy|]. simpl in E. inversion E as [[Ew Et]]. subst w.
    destruct Hy as [<-|Hy].
    + simpl. assert (Hx : In x (combine (seq (S s) (length b)) b)) by (rewrite Et; apply in_or_app; simpl; auto).
      destruct x as [xi xt]. apply In_indexed_gen in Hx. simpl. lia.
    + eapply IH; eauto.
Qed.

(* ------------------------------------------------------------------ replace_at: the frame *)
Lemma replace_at_length i v im b : length (replace_at i v im b) = length b.
Proof.
  revert i; induction b as [|it b IH]; intros [|i]; simpl; auto; destruct it; simpl; auto.
Qed.

Lemma replace_at_other i v im b j : j <> i -> nth_error (replace_at i v im b) j = nth_error b j.
Proof.
  revert i j; induction b as [|it b IH]; intros [|i] [|j] H; simpl; auto; try congruence;
    destruct it; simpl; auto.
Qed.

Lemma replace_at_hit i v im b p :
  nth_error b i = Some (IProp p) -> nth_error (replace_at i v im b) i = Some (IProp (set_vp p v im)).
Proof.
  revert i; induction b as [|it b IH]; intros [|i] H; simpl in *; try discriminate.
  - inversion H; subst. reflexivity.
  - destruct it; simpl; auto.
Qed.

Lemma names_replace_at i v im b : names (replace_at i v im b) = names b.
Proof.
  unfold names. revert i; induction b as [|it b IH]; intros [|i]; simpl; auto.
  - destruct it; reflexivity.
  - specialize (IH i). destruct it; simpl; rewrite ?map_app; simpl; congruence.
Qed.

Lemma others_replace_at i v im b : others_of (replace_at i v im b) = others_of b.
Proof.
  revert i; induction b as [|it b IH]; intros [|i]; simpl; auto.
  - destruct it; reflexivity.
  - specialize (IH i). destruct it; simpl; congruence.
Qed.

Lemma nodup_name_unique (ps : list prop) p q :
  NoDup (map name ps) -> In p ps -> In q ps -> name p = name q -> p = q.
Proof.
  induction ps as [|x ps IH]; simpl; intros Hn Hp Hq E; [tauto|].
  inversion Hn as [|? ? Hx Hr]; subst.
  destruct Hp as [->|Hp], Hq as [->|Hq]; auto.
  - exfalso. apply Hx. rewrite E. now apply in_map.
  - exfalso. apply Hx. rewrite <- E. now apply in_map.
Qed.

(* ------------------------------------------------------------------ the specification of "effective" *)
Definition is_match (m : prop -> bool) (ip : nat * item) : bool :=
  match snd ip with IProp p => m p | _ => false end.
Definition is_imp_match (m : prop -> bool) (ip : nat * item) : bool :=
  match snd ip with IProp p => m p && imp p | _ => false end.
Definition as_prop (ip : nat * item) : option (nat * prop) :=
  match ip with (i, IProp p) => Some (i, p) | _ => None end.

(* the effective entry among those selected by m: the last !important one, else the last one *)
Definition effective_l (m : prop -> bool) (l : list (nat * item)) : option (nat * prop) :=
  match last_where (is_imp_match m) l with
  | Some ip => as_prop ip
  | None => match last_where (is_match m) l with Some ip => as_prop ip | None => None end
  end.
Definition effective (m : prop -> bool) (b : block) : option (nat * prop) := effective_l m (indexed b).

Definition Inv_item (norm : str -> str) (it : item) : Prop :=
  match it with IProp p => name p = norm (lit p) | _ => True end.

Section Facts.
  Variable norm : str -> str.
  Variable attrs : list (str * str).
  Variable settable : list str.

  Notation nnames := StyleDecl.nnames.
  Notation getProperty := (StyleDecl.getProperty norm).
  Notation getPropertyValue := (StyleDecl.getPropertyValue norm).
  Notation getPropertyPriority := (StyleDecl.getPropertyPriority norm).
  Notation setProperty := (StyleDecl.setProperty norm).
  Notation removeProperty := (StyleDecl.removeProperty norm).
  Notation step := (StyleDecl.step norm attrs settable).
  Notation run := (StyleDecl.run norm attrs settable).

  Definition by_name (n : str) (p : prop) : bool := eqs (name p) n.

  (* every entry was made by the Property constructor: name = normalize(literalname) *)
  Definition Inv (b : block) : Prop := Forall (Inv_item norm) b.
  (* the look-up name of a spelling is the name the Property constructor gives it *)
  Definition WfName (a : namearg) : Prop := nok a = true /\ norm (raw a) = norm (plit a).

  (* ---------------- get_is_effective *)
  Lemma scan_rev_spec m l : forall found,
    scan_rev m (rev l) found =
    match last_where (is_imp_match m) l with
    | Some ip => as_prop ip
    | None => match found with
              | Some f => Some f
              | None => match last_where (is_match m) l with Some ip => as_prop ip | None => None end
              end
    end.
  Proof.
    induction l as [|[i it] l IH] using rev_ind; intros found.
    - simpl. destruct found; reflexivity.
    - rewrite rev_unit, !last_where_snoc. simpl scan_rev.
      destruct it as [p|c|u].
      + change (is_imp_match m (i, IProp p)) with (m p && imp p).
        change (is_match m (i, IProp p)) with (m p).
        destruct (m p) eqn:Mp; simpl; [|apply IH].
        destruct (imp p) eqn:Ip; simpl; [reflexivity|].
        rewrite IH. destruct (last_where (is_imp_match m) l); [reflexivity|].
        destruct found; reflexivity.
      + change (is_imp_match m (i, IComment c)) with false.
        change (is_match m (i, IComment c)) with false. apply IH.
      + change (is_imp_match m (i, IUnknown u)) with false.
        change (is_match m (i, IUnknown u)) with false. apply IH.
  Qed.

  Lemma find_prop_effective m b : find_prop m b = effective m b.
  Proof. unfold find_prop, effective, effective_l. now rewrite scan_rev_spec. Qed.

  Lemma as_prop_some ip i p : as_prop ip = Some (i, p) -> ip = (i, IProp p).
  Proof. destruct ip as [j [q|c|u]]; simpl; intros H; inversion H; subst; reflexivity. Qed.

  Lemma effective_sound m b i p :
    effective m b = Some (i, p) -> nth_error b i = Some (IProp p) /\ m p = true.
  Proof.
    unfold effective, effective_l. intros H.
    destruct (last_where (is_imp_match m) (indexed b)) as [ip|] eqn:E1.
    - apply as_prop_some in H; subst. apply last_where_spec in E1 as (l1 & l2 & E & F & _).
      split.
      + apply In_indexed. rewrite E. apply in_or_app. simpl. auto.
      + unfold is_imp_match in F. simpl in F. now apply andb_true_iff in F.
    - destruct (last_where (is_match m) (indexed b)) as [ip|] eqn:E2; [|discriminate].
      apply as_prop_some in H; subst. apply last_where_spec in E2 as (l1 & l2 & E & F & _).
      split; [|exact F]. apply In_indexed. rewrite E. apply in_or_app. simpl. auto.
  Qed.

  Lemma effective_none m b : effective m b = None <-> forall p, In (IProp p) b -> m p = false.
  Proof.
    unfold effective, effective_l. split.
    - intros H p Hp.
      destruct (last_where (is_imp_match m) (indexed b)) as [ip|] eqn:E1.
      { apply last_where_spec in E1 as (l1 & l2 & _ & F & _). unfold is_imp_match in F.
        destruct ip as [j [q|c|u]]; simpl in *; discriminate. }
      destruct (last_where (is_match m) (indexed b)) as [ip|] eqn:E2.
      { apply last_where_spec in E2 as (l1 & l2 & _ & F & _). unfold is_match in F.
        destruct ip as [j [q|c|u]]; simpl in *; discriminate. }
      destruct (indexed_In _ _ Hp) as [i Hi].
      apply (proj1 (last_where_none _ _) E2) in Hi. exact Hi.
    - intros H.
      assert (H2 : last_where (is_match m) (indexed b) = None).
      { apply last_where_none. intros [i it] Hi. unfold is_match. simpl.
        destruct it; auto. apply H. apply In_indexed in Hi. eapply nth_error_In; eauto. }
      assert (H1 : last_where (is_imp_match m) (indexed b) = None).
      { apply last_where_none. intros [i it] Hi. unfold is_imp_match. simpl.
        destruct it; auto. rewrite (H p); auto. apply In_indexed in Hi. eapply nth_error_In; eauto. }
      now rewrite H1, H2.
  Qed.

  Lemma effective_ext m m' b :
    (forall p, In (IProp p) b -> m p = m' p) -> effective m b = effective m' b.
  Proof.
    intros H. unfold effective, effective_l.
    rewrite (last_where_ext (is_imp_match m) (is_imp_match m')), (last_where_ext (is_match m) (is_match m')); auto.
    - intros [i it] Hi. unfold is_match. simpl. destruct it; auto. apply H.
      apply In_indexed in Hi. eapply nth_error_In; eauto.
    - intros [i it] Hi. unfold is_imp_match. simpl. destruct it; auto. rewrite H; auto.
      apply In_indexed in Hi. eapply nth_error_In; eauto.
  Qed.

  (* the effective entry is !important whenever some selected entry is; and nothing selected comes after a
     non-important effective entry, no !important selected entry after an !important one *)
  Lemma effective_cascade m b i p :
    effective m b = Some (i, p) ->
    (forall j q, nth_error b j = Some (IProp q) -> m q = true -> imp q = true -> imp p = true /\ j <= i)
    /\ (imp p = false -> forall j q, nth_error b j = Some (IProp q) -> m q = true -> j <= i).
  Proof.
    unfold effective, effective_l. intros H.
    assert (Hidx : forall l1 l2 j it, indexed b = l1 ++ (i, IProp p) :: l2 -> nth_error b j = Some it ->
                   In (j, it) l2 \/ j <= i).
    { intros l1 l2 j it E Hj.
      destruct (Nat.le_gt_cases j i) as [L|G]; auto. left.
      pose proof (nth_indexed _ _ _ Hj) as Hin.
      rewrite E in Hin. apply in_app_or in Hin as [Hin|[Hin|Hin]]; auto.
      - exfalso. pose proof (indexed_split_lt b 0 l1 (i, IProp p) l2 E (j, it) Hin) as Hlt.
        simpl in Hlt. lia.
      - inversion Hin; subst. lia. }
    destruct (last_where (is_imp_match m) (indexed b)) as [ip|] eqn:E1.
    - apply as_prop_some in H; subst.
      pose proof (last_where_spec _ _ _ E1) as (l1 & l2 & E & F & Hall).
      unfold is_imp_match in F. simpl in F. apply andb_true_iff in F as [Fm Fi].
      split; [|congruence].
      intros j q Hj Mq Iq. split; auto.
      destruct (Hidx l1 l2 j (IProp q) E Hj) as [Hin|]; auto.
      rewrite forallb_forall in Hall. apply Hall in Hin. unfold is_imp_match in Hin. simpl in Hin.
      rewrite Mq, Iq in Hin. discriminate.
    - destruct (last_where (is_match m) (indexed b)) as [ip|] eqn:E2; [|discriminate].
      apply as_prop_some in H; subst.
      pose proof (last_where_spec _ _ _ E2) as (l1 & l2 & E & F & Hall).
      assert (Hno : forall j q, nth_error b j = Some (IProp q) -> m q = true -> imp q = false).
      { intros j q Hj Mq. destruct (imp q) eqn:Iq; auto.
        assert (Hin : In (IProp q) b) by (eapply nth_error_In; eauto).
        destruct (indexed_In _ _ Hin) as [k Hk].
        apply (proj1 (last_where_none _ _) E1) in Hk. unfold is_imp_match in Hk. simpl in Hk.
        rewrite Mq, Iq in Hk. discriminate. }
      split.
      + intros j q Hj Mq Iq. rewrite (Hno j q Hj Mq) in Iq. discriminate.
      + intros _ j q Hj Mq. destruct (Hidx l1 l2 j (IProp q) E Hj) as [Hin|]; auto.
        rewrite forallb_forall in Hall. apply Hall in Hin. unfold is_match in Hin. simpl in Hin.
        rewrite Mq in Hin. discriminate.
  Qed.

  Lemma matches_by_name nm b :
    Inv b -> forall p, In (IProp p) b -> matches norm nm true p = by_name (norm nm) p.
  Proof.
    intros HI p Hp. unfold matches, by_name. simpl. unfold Inv in HI.
    rewrite Forall_forall in HI. specialize (HI _ Hp). simpl in HI.
    rewrite (eqs_sym (norm nm)). destruct (eqs (name p) (norm nm)) eqn:E; simpl; auto.
    destruct (eqs nm (lit p)) eqn:E2; auto. apply eqs_spec in E2. subst nm.
    rewrite HI, eqs_refl in E. discriminate.
  Qed.

  Lemma get_is_effective_gen nm normalize b :
    getProperty nm normalize b = effective (matches norm nm normalize) b.
  Proof. apply find_prop_effective. Qed.

  Lemma get_is_effective nm b :
    Inv b -> getProperty nm true b = effective (by_name (norm nm)) b.
  Proof.
    intros HI. rewrite get_is_effective_gen. apply effective_ext. now apply matches_by_name.
  Qed.

  Lemma effective_n_spec n b : effective_n n b = effective (by_name n) b.
  Proof. apply find_prop_effective. Qed.

  Lemma value_priority_of_effective nm normalize b :
    getPropertyValue nm normalize b =
      match effective (matches norm nm normalize) b with Some (_, p) => RVal (value p) | None => REmpty end
    /\ getPropertyPriority nm normalize b =
      match effective (matches norm nm normalize) b with Some (_, p) => imp p | None => false end.
  Proof.
    unfold StyleDecl.getPropertyValue, StyleDecl.getPropertyPriority. now rewrite get_is_effective_gen.
  Qed.

  (* ---------------- keys *)
  Lemma nn_fold l : forall acc,
    fold_left nn_step l acc =
    fold_left (fun names x => if mems x names then names else names ++ [x]) (names l) acc.
  Proof.
    unfold names. induction l as [|it l IH]; intros acc; simpl; auto.
    destruct it; simpl; rewrite IH; reflexivity.
  Qed.

  Lemma names_rev b : names (rev b) = rev (names b).
  Proof.
    unfold names. induction b as [|it b IH]; simpl; auto.
    rewrite props_of_app, map_app, IH. simpl. destruct it; simpl; rewrite ?app_nil_r; auto.
  Qed.

  Lemma keys_loop ns :
    rev (fold_left (fun names x => if mems x names then names else names ++ [x]) (rev ns) []) = dedup_last ns.
  Proof.
    induction ns as [|x ns IH]; simpl; auto.
    rewrite fold_left_app. simpl.
    set (a := fold_left (fun names x => if mems x names then names else names ++ [x]) (rev ns) []) in *.
    assert (E : mems x a = mems x ns).
    { rewrite <- (mems_rev x a), IH.
      destruct (mems x ns) eqn:M.
      - apply mems_In, dedup_last_In, mems_In. exact M.
      - apply mems_false. rewrite dedup_last_In. now apply mems_false. }
    rewrite E. destruct (mems x ns); auto. rewrite rev_unit. now rewrite IH.
  Qed.

  Theorem keys_spec b : keys b = dedup_last (names b).
  Proof. unfold keys, nnames. rewrite nn_fold, names_rev. apply keys_loop. Qed.

  Lemma keys_NoDup b : NoDup (keys b).
  Proof. rewrite keys_spec. apply dedup_last_NoDup. Qed.

  Lemma keys_In n b : In n (keys b) <-> exists p, In (IProp p) b /\ name p = n.
  Proof.
    rewrite keys_spec, dedup_last_In. unfold names. rewrite in_map_iff.
    split; intros (p & H1 & H2).
    - exists p. split; auto. now apply in_props_of.
    - exists p. split; auto. now apply in_props_of.
  Qed.

  Lemma length_keys b : length_ b = length (keys b).
  Proof. reflexivity. Qed.

  Lemma py_nth_spec {A} (l : list A) (i : Z) :
    let n := Z.of_nat (length l) in
    ((0 <= i < n)%Z -> py_nth l i = nth_error l (Z.to_nat i)) /\
    ((- n <= i < 0)%Z -> py_nth l i = nth_error l (Z.to_nat (n + i))) /\
    ((i < - n \/ n <= i)%Z -> py_nth l i = None).
  Proof.
    unfold py_nth. cbv zeta. set (n := Z.of_nat (length l)).
    assert (Hn : (0 <= n)%Z) by (unfold n; lia).
    repeat split; intros H.
    - destruct (Z.ltb_spec i 0); [lia|]. destruct (Z.ltb_spec i 0); [lia|].
      destruct (Z.leb_spec n i); [lia|]. reflexivity.
    - destruct (Z.ltb_spec i 0); [|lia]. destruct (Z.ltb_spec (i + n) 0); [lia|].
      destruct (Z.leb_spec n (i + n)); [lia|]. simpl. now rewrite Z.add_comm.
    - destruct (Z.ltb_spec i 0).
      + destruct (Z.ltb_spec (i + n) 0); [reflexivity|]. destruct (Z.leb_spec n (i + n)); [reflexivity|lia].
      + destruct (Z.ltb_spec i 0); [lia|]. destruct (Z.leb_spec n i); [reflexivity|lia].
  Qed.

  Lemma item_keys b i :
    item_at b i = match py_nth (keys b) i with Some x => x | None => [] end.
  Proof. reflexivity. Qed.

  Lemma contains_keys nm b : contains norm nm b = true <-> In (norm nm) (keys b).
  Proof. unfold contains, keys. apply mems_In. Qed.

  Theorem iter_effective b :
    iter b = map (fun n => effective (by_name n) b) (keys b)
    /\ Forall (fun x => x <> None) (iter b).
  Proof.
    split.
    - unfold iter, keys. apply map_ext. intros n. apply effective_n_spec.
    - unfold iter. rewrite Forall_map. rewrite Forall_forall. intros n Hn.
      apply keys_In in Hn as (p & Hp & E).
      rewrite effective_n_spec. intros Hnone.
      rewrite effective_none in Hnone. specialize (Hnone p Hp). unfold by_name in Hnone.
      rewrite E, eqs_refl in Hnone. discriminate.
  Qed.

  Lemma flat_map_indexed_props (f : prop -> bool) (b : block) : forall s,
    map (option_map snd)
        (flat_map (fun ip : nat * item => match ip with
                                | (i, IProp p) => if f p then [Some (i, p)] else []
                                | _ => []
                                end) (combine (seq s (length b)) b))
    = map Some (filter f (props_of b)).
  Proof.
    induction b as [|it b IH]; intros s; simpl; auto.
    destruct it as [p|c|u]; simpl; auto.
    rewrite map_app, IH. destruct (f p); reflexivity.
  Qed.

  Theorem getProperties_all_is_props b :
    norm [] = [] ->
    map (option_map snd) (getProperties norm [] true b) = map Some (props_of b).
  Proof.
    intros Hn. unfold getProperties. simpl. rewrite Hn. simpl.
    unfold indexed. rewrite (flat_map_indexed_props (fun _ => true)).
    f_equal. induction (props_of b); simpl; congruence.
  Qed.

  Theorem getProperties_name_filter nm b :
    norm nm <> [] ->
    map (option_map snd) (getProperties norm nm true b) = map Some (filter (by_name (norm nm)) (props_of b)).
  Proof.
    intros Hn. unfold getProperties. rewrite andb_false_r. simpl.
    destruct (norm nm) as [|c0 r0] eqn:E; [congruence|]. simpl.
    unfold indexed. apply (flat_map_indexed_props (by_name (c0 :: r0))).
  Qed.

  Theorem getProperties_effective b :
    getProperties norm [] false b = map (fun n => effective (by_name n) b) (keys b).
  Proof. unfold getProperties. simpl. apply iter_effective. Qed.

  (* ---------------- setProperty *)
  Definition new_prop (a : namearg) (v : val) (im : bool) : prop := mkProp (plit a) (norm (plit a)) v im.
  Definition prio_imp (raising : bool) (pr : prioarg) : option bool :=
    match pr with PNone => Some false | PImportant => Some true | PBad => if raising then None else Some false end.

  Lemma build_ok raising a v pr im :
    nok a = true -> prio_imp raising pr = Some im ->
    build norm raising a (VOk v) pr = BProp true (new_prop a v im).
  Proof.
    intros Hn Hp. unfold build. rewrite Hn. simpl.
    destruct pr; simpl in Hp; try (inversion Hp; subst; reflexivity).
    destruct raising; inversion Hp; subst; reflexivity.
  Qed.

  (* a name argument setProperty accepts: the Property constructor parsed it *)
  Definition Accepted (a : namearg) : Prop := nok a = true /\ raw a <> [] /\ plit a <> [].
  (* the name the replace look-up uses (fix C11-set-name-as-stored): the spelling itself when it normalises to
     the stored name, else the stored literal name *)
  Definition set_name (a : namearg) : str :=
    if negb (eqs (norm (raw a)) (norm (plit a))) then plit a else raw a.

  Lemma norm_set_name a : norm (set_name a) = norm (plit a).
  Proof.
    unfold set_name. destruct (eqs (norm (raw a)) (norm (plit a))) eqn:E; simpl; auto.
    now apply eqs_spec in E.
  Qed.

  Lemma set_name_nonnil a : Accepted a -> is_nil (set_name a) = false.
  Proof.
    intros (_ & Hr & Hl). unfold set_name. destruct (negb _).
    - destruct (plit a); [congruence|reflexivity].
    - destruct (raw a); [congruence|reflexivity].
  Qed.

  Theorem set_replaces_effective_or_appends raising a v pr im b :
    Inv b -> Accepted a -> prio_imp raising pr = Some im ->
    setProperty false raising (ByName a (VOk v) pr) true true b =
    Done (match effective (by_name (norm (plit a))) b with
          | Some (i, _) => replace_at i v im b
          | None => b ++ [IProp (new_prop a v im)]
          end) RNone.
  Proof.
    intros HI Ha Hp. pose proof Ha as (Hn & _ & _).
    unfold StyleDecl.setProperty. rewrite (build_ok _ _ _ _ _ Hn Hp).
    change (if true && negb (eqs (norm (raw a)) (name (new_prop a v im))) then lit (new_prop a v im) else raw a)
      with (set_name a).
    pose proof (set_name_nonnil a Ha) as Hnil. pose proof (norm_set_name a) as Hnm.
    unfold getProperties. simpl. rewrite Hnil. simpl.
    rewrite (get_is_effective _ _ HI), Hnm.
    destruct (effective (by_name (norm (plit a))) b) as [[i p]|] eqn:E; simpl; [|reflexivity].
    apply effective_sound in E as [_ M]. unfold by_name in M. rewrite M. reflexivity.
  Qed.

  Theorem set_frame i v im b :
    length (replace_at i v im b) = length b
    /\ (forall j, j <> i -> nth_error (replace_at i v im b) j = nth_error b j)
    /\ (forall p, nth_error b i = Some (IProp p) ->
                  nth_error (replace_at i v im b) i = Some (IProp (mkProp (lit p) (name p) v im)))
    /\ others_of (replace_at i v im b) = others_of b.
  Proof.
    repeat split.
    - apply replace_at_length.
    - intros; now apply replace_at_other.
    - intros p H. now apply replace_at_hit.
    - apply others_replace_at.
  Qed.

  Theorem set_noreplace_appends raising a v pr im normalize b :
    nok a = true -> prio_imp raising pr = Some im ->
    setProperty false raising (ByName a (VOk v) pr) normalize false b =
    Done (b ++ [IProp (new_prop a v im)]) RNone.
  Proof.
    intros Hn Hp. unfold StyleDecl.setProperty. now rewrite (build_ok _ _ _ _ _ Hn Hp).
  Qed.

  (* an unparsable name or value: the block is not touched, whatever the mode *)
  Theorem set_invalid_rejected ro raising a v pr normalize replace b :
    (nok a = false \/ v = VBad) -> v <> VEmpty ->
    after b (setProperty ro raising (ByName a v pr) normalize replace b) = b.
  Proof.
    intros H Hv. unfold StyleDecl.setProperty. destruct ro; [reflexivity|].
    destruct v as [| |x]; [congruence| |].
    - unfold build. destruct (nok a); simpl.
      + destruct raising; reflexivity.
      + destruct (raising && negb (is_nil (raw a))); simpl; [reflexivity|]. destruct raising; reflexivity.
    - destruct H as [H|H]; [|discriminate]. unfold build. rewrite H. simpl.
      destruct (raising && negb (is_nil (raw a))); simpl; [reflexivity|]. destruct raising; reflexivity.
  Qed.

  (* ---------------- removeProperty *)
  Theorem remove_exact nm b :
    removeProperty false nm true b =
    Done (filter (fun it => match it with IProp p => negb (by_name (norm nm) p) | _ => true end) b)
         (getPropertyValue nm true b).
  Proof. reflexivity. Qed.

  Lemma filter_props f (b : block) :
    props_of (filter (fun it => match it with IProp p => f p | _ => true end) b) = filter f (props_of b).
  Proof.
    induction b as [|it b IH]; simpl; auto.
    destruct it as [p|c|u]; simpl; auto. destruct (f p); simpl; congruence.
  Qed.

  Lemma filter_others f (b : block) :
    others_of (filter (fun it => match it with IProp p => f p | _ => true end) b) = others_of b.
  Proof.
    induction b as [|it b IH]; simpl; auto.
    destruct it as [p|c|u]; simpl; try congruence. destruct (f p); simpl; congruence.
  Qed.

  Theorem remove_exact_views nm b b' r :
    removeProperty false nm true b = Done b' r ->
    props_of b' = filter (fun p => negb (by_name (norm nm) p)) (props_of b)
    /\ others_of b' = others_of b
    /\ r = match effective (matches norm nm true) b with Some (_, p) => RVal (value p) | None => REmpty end.
  Proof.
    rewrite remove_exact. intros H. inversion H; subst. repeat split.
    - apply filter_props.
    - apply filter_others.
    - apply value_priority_of_effective.
  Qed.

  (* ---------------- the invariant and reachability *)
  Definition arg_ok (arg : setarg) : Prop :=
    match arg with ByProp _ p => name p = norm (lit p) | ByName _ _ _ => True end.
  Definition op_ok (o : op) : Prop :=
    match o with OSet _ arg _ _ => arg_ok arg | _ => True end.

  Lemma Inv_replace_at i v im b : Inv b -> Inv (replace_at i v im b).
  Proof.
    unfold Inv. revert i. induction b as [|it b IH]; intros [|i] H; simpl; auto;
      inversion H as [|? ? H1 H2]; subst.
    - destruct it; constructor; auto.
    - destruct it; constructor; auto.
  Qed.

  Lemma Inv_filter f b : Inv b -> Inv (filter f b).
  Proof.
    unfold Inv. rewrite !Forall_forall. intros H x Hx. apply filter_In in Hx as [Hx _]. auto.
  Qed.

  Lemma Inv_snoc b p : Inv b -> name p = norm (lit p) -> Inv (b ++ [IProp p]).
  Proof. intros H E. apply Forall_app. split; auto. Qed.

  Lemma Inv_remove ro nm normalize b : Inv b -> Inv (after b (removeProperty ro nm normalize b)).
  Proof.
    intros H. unfold StyleDecl.removeProperty. destruct ro; simpl; auto. now apply Inv_filter.
  Qed.

  Lemma build_name raising a v pr wf p : build norm raising a v pr = BProp wf p -> wf = true -> name p = norm (lit p).
  Proof.
    unfold build. destruct (nok a); simpl.
    - destruct v; [intros H; inversion H; subst; discriminate| |].
      + destruct raising; intros H; inversion H; subst; discriminate.
      + destruct pr; try (intros H; inversion H; subst; reflexivity).
        destruct raising; intros H; inversion H; subst; reflexivity.
    - destruct (raising && negb (is_nil (raw a))); intros H; inversion H; subst; discriminate.
  Qed.

  Lemma Inv_set ro raising arg normalize replace b :
    Inv b -> arg_ok arg -> Inv (after b (setProperty ro raising arg normalize replace b)).
  Proof.
    intros H Ha. unfold StyleDecl.setProperty. destruct ro; [exact H|].
    assert (G : forall nm wf newp, (wf = true -> name newp = norm (lit newp)) ->
      Inv (after b (if wf then
                      if replace then
                        match first_hit nm (norm nm) normalize (rev (getProperties norm nm (negb normalize) b)) with
                        | HAt i => Done (replace_at i (value newp) (imp newp) b) RNone
                        | HNone => Done (b ++ [IProp newp]) RNone
                        | HCrash => Raised ECrash
                        end
                      else Done (b ++ [IProp newp]) RNone
                    else if raising then Raised ESyntax else Done b RNone))).
    { intros nm wf newp Hw. destruct wf.
      - destruct replace.
        + destruct (first_hit _ _ _ _); simpl; auto using Inv_replace_at, Inv_snoc.
        + simpl. auto using Inv_snoc.
      - destruct raising; exact H. }
    destruct arg as [a v pr|wf p].
    - destruct v.
      + apply (Inv_remove false). exact H.
      + destruct (build norm raising a VBad pr) as [|wf p] eqn:B; [exact H|].
        apply G. intros Hw. eapply build_name; eauto.
      + destruct (build norm raising a (VOk v) pr) as [|wf p] eqn:B; [exact H|].
        apply G. intros Hw. eapply build_name; eauto.
    - apply G. intros _. exact Ha.
  Qed.

  Lemma Inv_mk_items ds : Inv (map (mk_item norm) ds).
  Proof. unfold Inv. rewrite Forall_map. apply Forall_forall. intros [l v i|c|u] _; simpl; auto. Qed.

  Theorem step_preserves_Inv ro o b : Inv b -> op_ok o -> Inv (after b (step ro o b)).
  Proof.
    intros H Ho. destruct o; simpl.
    - now apply Inv_set.
    - now apply Inv_remove.
    - now apply Inv_set.
    - now apply Inv_remove.
    - destruct (mems dom settable); [|exact H]. destruct (assocs dom attrs); [|exact H].
      pose proof (Inv_set ro raising (ByName (cssname_arg s) v PNone) true true b H I) as G.
      destruct (setProperty ro raising (ByName (cssname_arg s) v PNone) true true b); exact G.
    - destruct (assocs dom attrs); [|exact H].
      pose proof (Inv_remove ro s true b H) as G.
      destruct (removeProperty ro s true b); exact G.
    - unfold setText. destruct ro; [exact H|]. destruct (malformed && raising); [exact H|].
      apply Inv_mk_items.
  Qed.

  Theorem reachable_Inv ro ops : forall b, Inv b -> Forall op_ok ops -> Inv (run ro ops b).
  Proof.
    induction ops as [|o ops IH]; intros b H Ho; simpl; auto.
    inversion Ho; subst. apply IH; auto. now apply step_preserves_Inv.
  Qed.

  (* read-only blocks: every mutator raises and nothing changes *)
  Theorem readonly_unchanged o b : after b (step true o b) = b.
  Proof.
    destruct o; simpl; try reflexivity.
    - destruct (mems dom settable); [|reflexivity]. destruct (assocs dom attrs); reflexivity.
    - destruct (assocs dom attrs); reflexivity.
  Qed.

  (* ---------------- blocks without duplicate names *)
  Theorem nodup_preserved raising a v pr im b :
    Inv b -> Accepted a -> prio_imp raising pr = Some im -> NoDupNames b ->
    NoDupNames (after b (setProperty false raising (ByName a (VOk v) pr) true true b)).
  Proof.
    intros HI Ha Hp Hd.
    rewrite (set_replaces_effective_or_appends _ _ _ _ _ _ HI Ha Hp). simpl.
    destruct (effective (by_name (norm (plit a))) b) as [[i p]|] eqn:E.
    - unfold NoDupNames. now rewrite names_replace_at.
    - unfold NoDupNames, names. rewrite props_of_app, map_app. simpl.
      apply NoDup_snoc; [exact Hd|].
      rewrite in_map_iff. intros (q & Eq & Hq).
      rewrite effective_none in E. apply in_props_of in Hq. specialize (E q Hq).
      unfold by_name in E. rewrite Eq, eqs_refl in E. discriminate.
  Qed.

  (* reading back through ANY spelling r that normalises to the stored name (the stored literal name itself,
     the spelling used for setting when it is canonical, another case/escape variant) *)
  Theorem set_then_get raising a v pr im b r :
    Inv b -> Accepted a -> prio_imp raising pr = Some im -> NoDupNames b ->
    norm r = norm (plit a) ->
    let b' := after b (setProperty false raising (ByName a (VOk v) pr) true true b) in
    getPropertyValue r true b' = RVal v /\ getPropertyPriority r true b' = im.
  Proof.
    intros HI Ha Hp Hd Hr b'.
    assert (Hd' : NoDupNames b') by (apply (nodup_preserved raising a v pr im b); auto).
    assert (HI' : Inv b') by (apply Inv_set; simpl; auto).
    (* the entry that was written *)
    assert (Hnew : exists q, In (IProp q) b' /\ name q = norm (plit a) /\ value q = v /\ imp q = im).
    { unfold b'. rewrite (set_replaces_effective_or_appends _ _ _ _ _ _ HI Ha Hp). simpl.
      destruct (effective (by_name (norm (plit a))) b) as [[i p]|] eqn:E.
      - apply effective_sound in E as [Hi M]. exists (set_vp p v im). repeat split; auto.
        + eapply nth_error_In. apply replace_at_hit. exact Hi.
        + unfold by_name in M. apply eqs_spec in M. exact M.
      - exists (new_prop a v im). repeat split; auto. apply in_or_app. simpl. auto. }
    destruct Hnew as (q & Hq & Nq & Vq & Iq).
    unfold StyleDecl.getPropertyValue, StyleDecl.getPropertyPriority.
    rewrite (get_is_effective _ _ HI'), Hr.
    destruct (effective (by_name (norm (plit a))) b') as [[j e]|] eqn:E.
    - apply effective_sound in E as [Hj M]. unfold by_name in M. apply eqs_spec in M.
      assert (e = q).
      { apply (nodup_name_unique (props_of b')); auto.
        - apply in_props_of. eapply nth_error_In; eauto.
        - now apply in_props_of.
        - congruence. }
      subst e. now rewrite Vq, Iq.
    - rewrite effective_none in E. specialize (E q Hq). unfold by_name in E.
      rewrite Nq, eqs_refl in E. discriminate.
  Qed.

  Corollary set_then_get_stored raising a v pr im b :
    Inv b -> Accepted a -> prio_imp raising pr = Some im -> NoDupNames b ->
    let b' := after b (setProperty false raising (ByName a (VOk v) pr) true true b) in
    getPropertyValue (plit a) true b' = RVal v /\ getPropertyPriority (plit a) true b' = im.
  Proof. intros HI Ha Hp Hd. apply set_then_get; auto. Qed.

  Corollary set_then_get_same_spelling raising a v pr im b :
    Inv b -> Accepted a -> WfName a -> prio_imp raising pr = Some im -> NoDupNames b ->
    let b' := after b (setProperty false raising (ByName a (VOk v) pr) true true b) in
    getPropertyValue (raw a) true b' = RVal v /\ getPropertyPriority (raw a) true b' = im.
  Proof. intros HI Ha [_ Hw] Hp Hd. apply set_then_get; auto. Qed.

  (* ---------------- literal-name mode (normalize=False): which entry each accessor / mutator picks *)
  Definition by_lit (nm : str) (p : prop) : bool := eqs nm (lit p).
  Definition lits (b : block) : list str := map lit (props_of b).
  Definition NoDupLits (b : block) : Prop := NoDup (lits b).

  Theorem get_literal_is_effective nm b :
    getProperty nm false b = effective (by_lit nm) b.
  Proof. rewrite get_is_effective_gen. apply effective_ext. intros p _. reflexivity. Qed.

  Theorem remove_literal_exact nm b :
    removeProperty false nm false b =
    Done (filter (fun it => match it with IProp p => negb (eqs (lit p) nm) | _ => true end) b)
         (getPropertyValue nm false b).
  Proof. reflexivity. Qed.

  (* the last entry selected by f (position and entry) *)
  Definition last_entry (f : prop -> bool) (b : block) : option (nat * prop) :=
    match last_where (is_match f) (indexed b) with Some ip => as_prop ip | None => None end.

  Lemma last_entry_sound f b i p :
    last_entry f b = Some (i, p) -> nth_error b i = Some (IProp p) /\ f p = true.
  Proof.
    unfold last_entry. destruct (last_where (is_match f) (indexed b)) as [ip|] eqn:E; [|discriminate].
    intros H. apply as_prop_some in H; subst. apply last_where_spec in E as (l1 & l2 & E & F & _).
    split; [|exact F]. apply In_indexed. rewrite E. apply in_or_app. simpl. auto.
  Qed.

  Lemma last_entry_none f b : last_entry f b = None <-> forall p, In (IProp p) b -> f p = false.
  Proof.
    unfold last_entry. split.
    - intros H p Hp. destruct (last_where (is_match f) (indexed b)) as [ip|] eqn:E.
      + pose proof (last_where_spec _ _ _ E) as (l1 & l2 & _ & F & _). unfold is_match in F.
        destruct ip as [j [q|c|u]]; simpl in *; discriminate.
      + destruct (indexed_In _ _ Hp) as [i Hi]. apply (proj1 (last_where_none _ _) E) in Hi. exact Hi.
    - intros H. replace (last_where (is_match f) (indexed b)) with (@None (nat * item)); auto.
      symmetry. apply last_where_none. intros [i it] Hi. unfold is_match. simpl.
      destruct it; auto. apply H. apply In_indexed in Hi. eapply nth_error_In; eauto.
  Qed.

  Lemma first_hit_literal nm nn (sel : prop -> bool) (l : list (nat * item)) :
    first_hit nm nn false
      (rev (flat_map (fun ip : nat * item => match ip with
                                             | (i, IProp p) => if sel p then [Some (i, p)] else []
                                             | _ => []
                                             end) l)) =
    match last_where (is_match (fun p => sel p && eqs (lit p) nm)) l with
    | Some ip => match as_prop ip with Some (i, _) => HAt i | None => HNone end
    | None => HNone
    end.
  Proof.
    induction l as [|[i it] l IH] using rev_ind; [reflexivity|].
    rewrite flat_map_app, rev_app_distr, last_where_snoc. simpl flat_map.
    destruct it as [p|c|u].
    - change (is_match (fun p0 => sel p0 && eqs (lit p0) nm) (i, IProp p)) with (sel p && eqs (lit p) nm).
      destruct (sel p); simpl.
      + destruct (eqs (lit p) nm); [reflexivity|exact IH].
      + exact IH.
    - change (is_match (fun p0 => sel p0 && eqs (lit p0) nm) (i, IComment c)) with false. exact IH.
    - change (is_match (fun p0 => sel p0 && eqs (lit p0) nm) (i, IUnknown u)) with false. exact IH.
  Qed.

  (* setProperty(name, v, normalize=False): overwrites the LAST entry whose literal name is the look-up name
     (not the literal-effective one: an earlier !important entry of that literal name is left alone), else appends *)
  Theorem set_literal_spec raising a v pr im b :
    Inv b -> Accepted a -> prio_imp raising pr = Some im ->
    setProperty false raising (ByName a (VOk v) pr) false true b =
    Done (match last_entry (fun p => eqs (lit p) (set_name a)) b with
          | Some (i, _) => replace_at i v im b
          | None => b ++ [IProp (new_prop a v im)]
          end) RNone.
  Proof.
    intros HI Ha Hp. pose proof Ha as (Hn & _ & _).
    unfold StyleDecl.setProperty. rewrite (build_ok _ _ _ _ _ Hn Hp).
    change (if true && negb (eqs (norm (raw a)) (name (new_prop a v im))) then lit (new_prop a v im) else raw a)
      with (set_name a).
    set (nm := set_name a).
    unfold getProperties. rewrite andb_false_r. simpl negb. cbv iota.
    rewrite (first_hit_literal nm (norm nm) (fun p => is_nil (norm nm) || eqs (name p) (norm nm)) (indexed b)).
    unfold last_entry.
    rewrite (last_where_ext (is_match (fun p => (is_nil (norm nm) || eqs (name p) (norm nm)) && eqs (lit p) nm))
                            (is_match (fun p => eqs (lit p) nm))).
    - destruct (last_where (is_match (fun p => eqs (lit p) nm)) (indexed b)) as [[i [p|c|u]]|]; reflexivity.
    - intros [i it] Hi. unfold is_match. simpl. destruct it as [p|c|u]; auto.
      destruct (eqs (lit p) nm) eqn:E; [|now rewrite andb_false_r].
      rewrite andb_true_r. apply eqs_spec in E.
      apply In_indexed in Hi. apply nth_error_In in Hi.
      unfold Inv in HI. rewrite Forall_forall in HI. specialize (HI _ Hi). simpl in HI.
      rewrite HI, E, eqs_refl. now rewrite orb_true_r.
  Qed.

  Lemma lits_replace_at i v im b : lits (replace_at i v im b) = lits b.
  Proof.
    unfold lits. revert i; induction b as [|it b IH]; intros [|i]; simpl; auto.
    - destruct it; reflexivity.
    - specialize (IH i). destruct it; simpl; rewrite ?map_app; simpl; congruence.
  Qed.

  Lemma nodup_lit_unique (ps : list prop) p q :
    NoDup (map lit ps) -> In p ps -> In q ps -> lit p = lit q -> p = q.
  Proof.
    induction ps as [|x ps IH]; simpl; intros Hn Hp Hq E; [tauto|].
    inversion Hn as [|? ? Hx Hr]; subst.
    destruct Hp as [->|Hp], Hq as [->|Hq]; auto.
    - exfalso. apply Hx. rewrite E. now apply in_map.
    - exfalso. apply Hx. rewrite <- E. now apply in_map.
  Qed.

  Lemma NoDupNames_Lits b : Inv b -> NoDupNames b -> NoDupLits b.
  Proof.
    intros HI. unfold NoDupNames, NoDupLits, names, lits.
    assert (E : map name (props_of b) = map norm (map lit (props_of b))).
    { rewrite map_map. apply map_ext_in. intros p Hp. apply in_props_of in Hp.
      unfold Inv in HI. rewrite Forall_forall in HI. apply (HI _ Hp). }
    rewrite E. apply NoDup_map_inv.
  Qed.

  (* literal-mode read-back: the name must be given as it is stored (the documented contract "always lowercase
     (even if not normalized)"): set_name a = plit a.  Distinct LITERAL names suffice and are preserved. *)
  Theorem set_then_get_literal raising a v pr im b :
    Inv b -> Accepted a -> set_name a = plit a -> prio_imp raising pr = Some im -> NoDupLits b ->
    let b' := after b (setProperty false raising (ByName a (VOk v) pr) false true b) in
    NoDupLits b' /\ getPropertyValue (plit a) false b' = RVal v /\ getPropertyPriority (plit a) false b' = im.
  Proof.
    intros HI Ha Hs Hp Hd b'.
    assert (Hb' : b' = match last_entry (fun p => eqs (lit p) (plit a)) b with
                       | Some (i, _) => replace_at i v im b
                       | None => b ++ [IProp (new_prop a v im)]
                       end).
    { unfold b'. rewrite (set_literal_spec _ _ _ _ _ _ HI Ha Hp), Hs. reflexivity. }
    assert (Hd' : NoDupLits b').
    { rewrite Hb'. destruct (last_entry (fun p => eqs (lit p) (plit a)) b) as [[i p]|] eqn:E.
      - unfold NoDupLits. now rewrite lits_replace_at.
      - unfold NoDupLits, lits. rewrite props_of_app, map_app. simpl. apply NoDup_snoc; [exact Hd|].
        rewrite in_map_iff. intros (q & Eq & Hq). rewrite last_entry_none in E.
        apply in_props_of in Hq. specialize (E q Hq). simpl in E. rewrite Eq, eqs_refl in E. discriminate. }
    split; [exact Hd'|].
    assert (Hnew : exists q, In (IProp q) b' /\ lit q = plit a /\ value q = v /\ imp q = im).
    { rewrite Hb'. destruct (last_entry (fun p => eqs (lit p) (plit a)) b) as [[i p]|] eqn:E.
      - apply last_entry_sound in E as [Hi M]. exists (set_vp p v im). repeat split; auto.
        + eapply nth_error_In. apply replace_at_hit. exact Hi.
        + apply eqs_spec in M. exact M.
      - exists (new_prop a v im). repeat split; auto. apply in_or_app. simpl. auto. }
    destruct Hnew as (q & Hq & Lq & Vq & Iq).
    unfold StyleDecl.getPropertyValue, StyleDecl.getPropertyPriority.
    rewrite get_literal_is_effective.
    destruct (effective (by_lit (plit a)) b') as [[j e]|] eqn:E.
    - apply effective_sound in E as [Hj M]. unfold by_lit in M. apply eqs_spec in M.
      assert (e = q).
      { apply (nodup_lit_unique (props_of b')); auto.
        - apply in_props_of. eapply nth_error_In; eauto.
        - now apply in_props_of.
        - congruence. }
      subst e. now rewrite Vq, Iq.
    - rewrite effective_none in E. specialize (E q Hq). unfold by_lit in E.
      rewrite Lq, eqs_refl in E. discriminate.
  Qed.

  (* when literal and normalised look-up agree: every entry of that name is spelled exactly nm *)
  Theorem literal_eq_normalized nm b :
    Inv b -> (forall p, In (IProp p) b -> name p = norm nm -> lit p = nm) ->
    getProperty nm false b = getProperty nm true b.
  Proof.
    intros HI H. rewrite !get_is_effective_gen. apply effective_ext. intros p Hp.
    unfold matches. simpl. destruct (eqs (norm nm) (name p)) eqn:E; simpl; auto.
    apply eqs_spec in E. symmetry in E. rewrite (H p Hp E), eqs_refl. reflexivity.
  Qed.

  (* ---------------- the setProperty loop never meets None (property.name on None would crash) *)
  Lemma first_hit_no_crash nm nn normalize l :
    Forall (fun x => x <> None) l -> first_hit nm nn normalize l <> HCrash.
  Proof.
    induction l as [|[[i p]|] l IH]; simpl; intros H; try discriminate.
    - inversion H; subst. destruct (normalize && eqs (name p) nn); [discriminate|].
      destruct (eqs (lit p) nm); [discriminate|]. auto.
    - inversion H; subst. congruence.
  Qed.

  Lemma getProperties_no_none nm all b : Forall (fun x => x <> None) (getProperties norm nm all b).
  Proof.
    unfold getProperties.
    destruct (negb (is_nil nm) && negb all).
    - destruct (getProperty nm true b); repeat constructor. discriminate.
    - destruct (negb all); [apply iter_effective|].
      apply Forall_forall. intros x Hx. apply in_flat_map in Hx as ([i it] & _ & Hx).
      destruct it; simpl in Hx; try tauto.
      destruct (is_nil (norm nm) || eqs (name p) (norm nm)); simpl in Hx; [|tauto].
      destruct Hx as [<-|[]]. discriminate.
  Qed.

  Theorem step_never_crashes ro o b : step ro o b <> Raised ECrash.
  Proof.
    assert (R : forall ro nm n, removeProperty ro nm n b <> Raised ECrash).
    { intros r nm n. unfold StyleDecl.removeProperty. destruct r; discriminate. }
    assert (SP : forall ro raising arg n x, setProperty ro raising arg n x b <> Raised ECrash).
    { intros r raising arg n x. unfold StyleDecl.setProperty. destruct r; [discriminate|].
      assert (G : forall (nm : str) (wf : bool) (newp : prop),
        (if wf then
           if x then
             match first_hit nm (norm nm) n (rev (getProperties norm nm (negb n) b)) with
             | HAt i => Done (replace_at i (value newp) (imp newp) b) RNone
             | HNone => Done (b ++ [IProp newp]) RNone
             | HCrash => Raised ECrash
             end
           else Done (b ++ [IProp newp]) RNone
         else if raising then Raised ESyntax else Done b RNone) <> Raised ECrash).
      { intros nm wf newp. destruct wf; [|destruct raising; discriminate].
        destruct x; [|discriminate].
        destruct (first_hit nm (norm nm) n (rev (getProperties norm nm (negb n) b))) eqn:E; try discriminate.
        exfalso. revert E. apply first_hit_no_crash. apply Forall_rev. apply getProperties_no_none. }
      destruct arg as [a v pr|wf p]; [|apply G].
      destruct v; [apply R| |].
      - destruct (build norm raising a VBad pr); [discriminate|apply G].
      - destruct (build norm raising a (VOk v) pr); [discriminate|apply G]. }
    destruct o; simpl; auto.
    - destruct (mems dom settable); [|discriminate]. destruct (assocs dom attrs); [|discriminate].
      specialize (SP ro raising (ByName (cssname_arg s) v PNone) true true).
      destruct (setProperty ro raising (ByName (cssname_arg s) v PNone) true true b); congruence.
    - destruct (assocs dom attrs); [|discriminate].
      specialize (R ro s true). destruct (removeProperty ro s true b); congruence.
    - unfold setText. destruct ro; [discriminate|]. destruct (malformed && raising); discriminate.
  Qed.

  (* ---------------- attributes forward (generic part) *)
  Theorem attr_is_alias dom c :
    mems dom settable = true -> assocs dom attrs = Some c ->
    (forall b, get_attr norm attrs dom b = Some (getPropertyValue c true b)) /\
    (forall ro raising v b,
        after b (step ro (OSetAttr raising dom v) b) =
        after b (step ro (OSet raising (ByName (cssname_arg c) v PNone) true true) b)) /\
    (forall ro b, after b (step ro (ODelAttr dom) b) = after b (step ro (ORemove c true) b)).
  Proof.
    intros Hs Ha. repeat split.
    - intros b. unfold get_attr. now rewrite Ha.
    - intros ro raising v b. simpl. rewrite Hs, Ha.
      destruct (setProperty ro raising (ByName (cssname_arg c) v PNone) true true b); reflexivity.
    - intros ro b. simpl. rewrite Ha. destruct (removeProperty ro c true b); reflexivity.
  Qed.
End Facts.

(* ------------------------------------------------------------------ finite statements over the regenerated tables *)
Module G := CssV.Gen.CssProperties.

(* the hand model of _toDOMname agrees with the running code on every known property name *)
Lemma toDOM_table : forallb (fun nd => eqs (toDOM (fst nd)) (snd nd)) G.dom_pairs = true.
Proof. vm_compute. reflexivity. Qed.

(* every known property: its camel-case attribute is settable and its accessors are bound to that very name *)
Definition alias_ok (n : str) : bool :=
  mems (toDOM n) G.dom_known &&
  match assocs (toDOM n) G.attr_table with Some c => eqs c n | None => false end.

Lemma camel_alias_b : forallb alias_ok G.known_names = true.
Proof. vm_compute. reflexivity. Qed.

(* known names are plain [a-z-]+ words: the Property constructor and normalize leave them alone
   (model side; the implementation side is checked by the harness for every name) *)
Definition plain_name (n : str) : bool :=
  negb (is_nil n) && forallb (fun c => ((97 <=? c) && (c <=? 122))%N || N.eqb c 45) n.
Lemma known_names_plain : forallb plain_name G.known_names = true.
Proof. vm_compute. reflexivity. Qed.
Lemma known_names_normalized : forallb (fun n => eqs (norm_i n) n) G.known_names = true.
Proof. vm_compute. reflexivity. Qed.

Theorem camel_alias n :
  In n G.known_names ->
  mems (toDOM n) settable_i = true /\ assocs (toDOM n) attrs_i = Some n.
Proof.
  intros H. pose proof camel_alias_b as A. rewrite forallb_forall in A. specialize (A n H).
  unfold alias_ok in A. apply andb_true_iff in A as [A1 A2]. split; [exact A1|].
  unfold attrs_i. destruct (assocs (toDOM n) G.attr_table) as [c|]; [|discriminate].
  apply eqs_spec in A2. now subst.
Qed.

(* ------------------------------------------------------------------ witnesses (instance: norm = Tokenizer.normalize) *)
Definition nm_color : namearg := mkName (s "color") (s "color") true.
Definition blk_dup : block :=
  [IProp (mkProp (s "color") (s "color") 1%N true); IComment 1%N; IProp (mkProp (s "color") (s "color") 2%N false)].

(* with duplicate names the side condition of set_then_get is necessary: the !important entry is the
   effective one, it is overwritten in place by a normal value, and the other entry becomes effective *)
Lemma set_then_get_dup_witness :
  Inv norm_i blk_dup /\ WfName norm_i nm_color /\
  getPropertyValue norm_i (s "color") true
    (after blk_dup (setProperty norm_i false true (ByName nm_color (VOk 3%N) PNone) true true blk_dup)) = RVal 2%N.
Proof.
  split; [|split].
  - repeat constructor.
  - split; reflexivity.
  - vm_compute. reflexivity.
Qed.

(* helper.normalize is not idempotent (escaped backslash): a name reported by keys(), used as an argument,
   designates another name *)
Lemma normalize_not_idempotent :
  let x := [111; 92; 92; 120]%N in norm_i (norm_i x) <> norm_i x.
Proof. vm_compute. discriminate. Qed.

(* a spelling with surrounding whitespace is accepted by the Property constructor; since fix
   C11-set-name-as-stored the entry it is stored as is the one replaced (no second entry).  Look-ups stay by
   norm(spelling): reading through ' color ' itself finds nothing, so the hypothesis norm r = norm plit of
   set_then_get is necessary for the READING spelling. *)
Definition nm_ws : namearg := mkName (s " color ") (s "color") true.
Lemma whitespace_spelling_witness :
  let b := [IProp (mkProp (s "color") (s "color") 1%N false)] in
  let b' := after b (setProperty norm_i false true (ByName nm_ws (VOk 2%N) PNone) true true b) in
  norm_i (raw nm_ws) <> norm_i (plit nm_ws) /\
  b' = [IProp (mkProp (s "color") (s "color") 2%N false)] /\
  getPropertyValue norm_i (s "color") true b' = RVal 2%N /\
  getPropertyValue norm_i (raw nm_ws) true b' = REmpty.
Proof.
  cbv zeta. split; [vm_compute; discriminate|]. repeat split; vm_compute; reflexivity.
Qed.

(* literal-name mode replaces the LAST entry with that literal name, not the literal-effective one *)
Lemma set_literal_replaces_last_witness :
  after blk_dup (setProperty norm_i false true (ByName nm_color (VOk 3%N) PNone) false true blk_dup)
  = [IProp (mkProp (s "color") (s "color") 1%N true); IComment 1%N; IProp (mkProp (s "color") (s "color") 3%N false)].
Proof. vm_compute. reflexivity. Qed.

(* seed C11-2 territory: the generated accessors must look up by NORMALISED name.  On a block whose entry is
   spelled c\olor the attribute `color` reads it (model = code: _getP -> getPropertyValue(CSSName)), whereas a
   literal-mode look-up of `color` finds nothing; the same for deletion. *)
Definition blk_esc : block := map mk_item_i [DDecl (s "c\olor") 1%N false].
Lemma alias_needs_normalized_lookup_witness :
  Inv norm_i blk_esc /\
  get_attr norm_i attrs_i (s "color") blk_esc = Some (RVal 1%N) /\
  getPropertyValue norm_i (s "color") false blk_esc = REmpty /\
  after blk_esc (step_i false (ODelAttr (s "color")) blk_esc) = [] /\
  after blk_esc (removeProperty norm_i false (s "color") false blk_esc) = blk_esc.
Proof. split; [apply Inv_mk_items|]. repeat split; vm_compute; reflexivity. Qed.

Definition nm_esc : namearg := mkName (s "c\olor") (s "c\olor") true.
Example set_then_get_literal_ex :
  Accepted nm_esc /\ set_name norm_i nm_esc = plit nm_esc /\ NoDupLits blk_esc /\
  after blk_esc (setProperty norm_i false true (ByName nm_esc (VOk 5%N) PImportant) false true blk_esc)
  = [IProp (mkProp (s "c\olor") (s "color") 5%N true)].
Proof.
  split; [repeat split; discriminate|]. split; [vm_compute; reflexivity|].
  split; [vm_compute; repeat constructor; simpl; tauto|]. vm_compute. reflexivity.
Qed.

(* non-vacuity *)
Definition blk_ex : block :=
  map mk_item_i [DDecl (s "c\olor") 1%N false; DComment 7%N; DDecl (s "top") 2%N true; DUnknown 3%N].
Example blk_ex_ok : Inv norm_i blk_ex /\ NoDupNames blk_ex /\ keys blk_ex = [s "color"; s "top"].
Proof.
  split; [apply Inv_mk_items|]. split; [|vm_compute; reflexivity].
  vm_compute. repeat constructor; simpl; intuition discriminate.
Qed.
Example set_then_get_ex :
  getPropertyValue norm_i (s "COLOR") true
    (after blk_ex (setProperty norm_i false true (ByName (mkName (s "COLOR") (s "color") true) (VOk 9%N) PImportant) true true blk_ex))
  = RVal 9%N.
Proof. vm_compute. reflexivity. Qed.
Example wfname_ex : WfName norm_i (mkName (s "C\OLOR") (s "c\olor") true).
Proof. split; vm_compute; reflexivity. Qed.
Example remove_ex :
  step_i false (ORemove (s "COLOR") true) blk_dup = Done [IComment 1%N] (RVal 1%N).
Proof. vm_compute. reflexivity. Qed.
Example alias_ex :
  after [] (step_i false (OSetAttr true (s "overflowX") (VOk 4%N)) [])
  = [IProp (mkProp (s "overflow-x") (s "overflow-x") 4%N false)].
Proof. vm_compute. reflexivity. Qed.
