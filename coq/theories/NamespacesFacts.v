(* NamespacesFacts.v -- proofs about the namespace model (C15) *)
From CssV Require Import Base Namespaces.

(* ------------------------------------------------------------------ small list facts *)
Lemma mems_In x l : mems x l = true <-> In x l.
Proof.
  induction l as [|y t IH]; simpl; [split; [discriminate|tauto]|].
  rewrite orb_true_iff, eqs_spec, IH. tauto.
Qed.

Lemma eqs_false a b : eqs a b = false <-> a <> b.
Proof.
  split; intros H.
  - intros E. apply eqs_spec in E. congruence.
  - destruct (eqs a b) eqn:E; [apply eqs_spec in E; contradiction|reflexivity].
Qed.

Lemma items_of_app a b : items_of (a ++ b) = items_of a ++ items_of b.
Proof. unfold items_of. apply flat_map_app. Qed.

Lemma nsl_app a b : nsl (a ++ b) = nsl a ++ nsl b.
Proof. induction a as [|r a IH]; simpl; [reflexivity|]. destruct r; simpl; rewrite IH; reflexivity. Qed.

Lemma existsb_app' {A} (f : A -> bool) a b : existsb f (a ++ b) = existsb f a || existsb f b.
Proof. apply existsb_app. Qed.

(* ------------------------------------------------------------------ A. prefix resolution *)
Lemma undeclared_rejected d k p n its :
  In (PSel k (FPfx p) n) its -> dget d p = None -> resolve_all d its = None.
Proof.
  induction its as [|x t IH]; simpl; [tauto|]. intros [->|Hin] Hd.
  - simpl. rewrite Hd. destruct k; reflexivity.
  - rewrite (IH Hin Hd). destruct (resolve d x); reflexivity.
Qed.

Definition default_of (d : dict) : nsuri := match dget d [] with Some u => UStr u | None => UNone end.

(* what the property demands of the stored item for a selector written with the given prefix form *)
Definition binds (d : dict) (pi : pitem) (it : item) : Prop :=
  match pi with
  | POther => it = IOther
  | PSel k (FPfx p) n => exists u, dget d p = Some u /\ it = IPair k (UStr u) n
  | PSel k FStar n => it = IPair k UAny n
  | PSel KAttr FNone n | PSel KAttr FEmpty n => it = IAttr n
  | PSel k FNone n => it = IPair k (default_of d) n
  | PSel k FEmpty n => it = IPair k (UStr []) n
  end.

Lemma resolve_binds d pi it : resolve d pi = Some it -> binds d pi it.
Proof.
  destruct pi as [k f n|]; simpl; [|congruence].
  destruct k, f; simpl; unfold default_of; try (intros H; inversion H; reflexivity);
    destruct (dget d p) eqn:E; try discriminate; intros H; inversion H; eauto.
Qed.

Lemma resolve_all_binds d its r : resolve_all d its = Some r -> Forall2 (binds d) its r.
Proof.
  revert r; induction its as [|x t IH]; simpl; intros r H.
  - inversion H. constructor.
  - destruct (resolve d x) eqn:E1; [|discriminate]. destruct (resolve_all d t) eqn:E2; [|discriminate].
    inversion H; subst. constructor; [now apply resolve_binds|now apply IH].
Qed.

(* the dictionary in force while the rule sets are parsed: later declarations of a prefix replace earlier ones *)
Lemma dget_dset_same d k v : dget (dset d k v) k = Some v.
Proof.
  induction d as [|[k' v'] t IH]; simpl.
  - now rewrite eqs_refl.
  - destruct (eqs k' k) eqn:E; simpl; rewrite E; [reflexivity|exact IH].
Qed.
Lemma dget_dset_other d k v k2 : k2 <> k -> dget (dset d k v) k2 = dget d k2.
Proof.
  intros Hne. induction d as [|[k' v'] t IH]; simpl.
  - destruct (eqs k k2) eqn:E; [apply eqs_spec in E; congruence|reflexivity].
  - destruct (eqs k' k) eqn:E; simpl.
    + apply eqs_spec in E. subst k'. destruct (eqs k k2) eqn:E2; [apply eqs_spec in E2; congruence|reflexivity].
    + destruct (eqs k' k2); [reflexivity|exact IH].
Qed.

(* ------------------------------------------------------------------ B. frame: namespace operations never touch a selector *)
Lemma items_of_insert_ns i r sh : items_of (insert_at i (RNs r) sh) = items_of sh.
Proof.
  revert sh; induction i as [|i IH]; intros sh; [reflexivity|].
  destruct sh as [|y t]; [reflexivity|]. simpl. unfold items_of in *. simpl. now rewrite IH.
Qed.

Lemma items_of_remove i sh x :
  nth_error sh i = Some x -> rule_items x = [] -> items_of (remove_at i sh) = items_of sh.
Proof.
  revert i; induction sh as [|y t IH]; intros [|i] H Hx; simpl in *; try discriminate.
  - inversion H; subst. unfold items_of. simpl. now rewrite Hx.
  - unfold items_of in *. simpl. now rewrite (IH i H Hx).
Qed.

Lemma items_of_upd k f sh : items_of (upd_ns k f sh) = items_of sh.
Proof.
  revert k; induction sh as [|y t IH]; intros k; [reflexivity|].
  destruct y; simpl; try (unfold items_of in *; simpl; now rewrite IH).
  destruct k; [reflexivity|]. unfold items_of in *. simpl. now rewrite IH.
Qed.

Lemma items_of_clean_loop v rest : forall kept,
  items_of (fst (clean_loop v kept rest)) = items_of (kept ++ rest).
Proof.
  induction rest as [|x t IH]; intros kept; simpl; [now rewrite app_nil_r|].
  destruct x; try (rewrite IH, <- app_assoc; reflexivity).
  destruct (pair_in (prefix r) (uri r) v); [rewrite IH, <- app_assoc; reflexivity|].
  destruct (can_delete r (kept ++ RNs r :: t)); simpl; [|reflexivity].
  rewrite IH. rewrite !items_of_app. reflexivity.
Qed.

Lemma items_of_clean sh : items_of (fst (clean sh)) = items_of sh.
Proof. unfold clean. now rewrite items_of_clean_loop. Qed.

(* insert_ns either leaves the sheet alone or returns the cleaned sheet *)
Lemma insert_ns_cases r idx io sh :
  fst (insert_ns r idx io sh) = sh \/
  exists i, place_ns idx io sh = inl i /\ fst (insert_ns r idx io sh) = fst (clean (insert_at i (RNs r) sh)).
Proof.
  unfold insert_ns. destruct (place_ns idx io sh) as [i|]; [|now left].
  destruct (same_binding (view sh) r); [now left|].
  destruct (clean (insert_at i (RNs r) sh)) as [sh' oc] eqn:E.
  destruct oc; simpl; [right; exists i; split; [reflexivity|now rewrite E]|now left|right; exists i; split; [reflexivity|now rewrite E]].
Qed.

Lemma items_of_insert r idx io sh : items_of (fst (insert_ns r idx io sh)) = items_of sh.
Proof.
  destruct (insert_ns_cases r idx io sh) as [E|(i & _ & E)]; rewrite E; [reflexivity|].
  now rewrite items_of_clean, items_of_insert_ns.
Qed.

Lemma items_of_delete_ns i sh r :
  nth_error sh i = Some (RNs r) -> items_of (fst (delete_rule i sh)) = items_of sh.
Proof.
  intros H. unfold delete_rule. rewrite H. destruct (can_delete r sh); [|reflexivity].
  simpl. now apply (items_of_remove i sh (RNs r)).
Qed.

(* order invariant: once a rule set or @media block has been seen there is no @namespace rule any more *)
Fixpoint ordered (sh : sheet) : bool :=
  match sh with
  | [] => true
  | r :: t => if is_body r then negb (existsb is_ns t) else ordered t
  end.

Lemma no_ns_ordered sh : existsb is_ns sh = false -> ordered sh = true.
Proof.
  induction sh as [|r t IH]; simpl; [reflexivity|]. intros H. apply orb_false_iff in H as [H1 H2].
  destruct (is_body r); [now rewrite H2|now apply IH].
Qed.

Lemma no_ns_nsl sh : existsb is_ns sh = false -> nsl sh = [].
Proof.
  induction sh as [|r t IH]; simpl; [reflexivity|]. intros H. apply orb_false_iff in H as [H1 H2].
  destruct r; simpl in *; try discriminate; now apply IH.
Qed.

Lemma existsb_remove {A} (f : A -> bool) i l : existsb f l = false -> existsb f (remove_at i l) = false.
Proof.
  revert i; induction l as [|x t IH]; intros [|i]; simpl; auto; intros H; apply orb_false_iff in H as [H1 H2]; auto.
  rewrite H1. simpl. now apply IH.
Qed.

Lemma ordered_remove i sh : ordered sh = true -> ordered (remove_at i sh) = true.
Proof.
  revert i; induction sh as [|r t IH]; intros [|i] H; simpl in *; auto.
  - destruct (is_body r); [|exact H]. apply no_ns_ordered. now apply negb_true_iff in H.
  - destruct (is_body r); [|now apply IH]. apply negb_true_iff in H. apply negb_true_iff. now apply existsb_remove.
Qed.

Lemma ordered_remove_mid a x b : ordered (a ++ x :: b) = true -> ordered (a ++ b) = true.
Proof.
  induction a as [|r a IH]; simpl; intros H.
  - destruct (is_body x); [|exact H]. apply negb_true_iff in H. now apply no_ns_ordered.
  - destruct (is_body r); [|now apply IH]. apply negb_true_iff in H. apply negb_true_iff.
    rewrite existsb_app in *. simpl in H. apply orb_false_iff in H as [H1 H2]. apply orb_false_iff in H2 as [_ H2].
    now rewrite H1, H2.
Qed.

Lemma ordered_insert i r sh :
  existsb is_body (firstn i sh) = false -> ordered sh = true -> ordered (insert_at i (RNs r) sh) = true.
Proof.
  revert sh; induction i as [|i IH]; intros sh Hb Ho; simpl; [exact Ho|].
  destruct sh as [|y t]; [reflexivity|]. simpl in *. apply orb_false_iff in Hb as [Hy Hb].
  rewrite Hy in *. now apply IH.
Qed.

Lemma ordered_upd k f sh : ordered (upd_ns k f sh) = ordered sh.
Proof.
  assert (E : forall k sh, existsb is_ns (upd_ns k f sh) = existsb is_ns sh).
  { clear. intros k sh; revert k; induction sh as [|y t IH]; intros k; [reflexivity|].
    destruct y; simpl; try now rewrite IH. destruct k; simpl; [reflexivity|reflexivity]. }
  revert k; induction sh as [|y t IH]; intros k; [reflexivity|].
  destruct y; simpl; try (now rewrite ?E, ?IH).
  destruct k; simpl; [reflexivity|apply IH].
Qed.

Lemma ordered_clean_loop v rest : forall kept,
  ordered (kept ++ rest) = true -> ordered (fst (clean_loop v kept rest)) = true.
Proof.
  induction rest as [|x t IH]; intros kept H; simpl; [now rewrite app_nil_r in H|].
  destruct x; try (apply IH; rewrite <- app_assoc; exact H).
  destruct (pair_in (prefix r) (uri r) v); [apply IH; rewrite <- app_assoc; exact H|].
  destruct (can_delete r (kept ++ RNs r :: t)); simpl; [|exact H].
  apply IH. now apply ordered_remove_mid in H.
Qed.

(* the prefix of the sheet that precedes (and includes) the last @namespace rule holds no rule set *)
Lemma after_last_ns_spec sh : forall i acc j,
  after_last_ns sh i acc = Some j ->
  (acc = Some j) \/ (exists a b r, sh = a ++ RNs r :: b /\ j = i + S (length a)).
Proof.
  induction sh as [|x t IH]; intros i acc j H; simpl in H; [now left|].
  apply IH in H as [H|(a & b & r & -> & ->)].
  - destruct (is_ns x) eqn:E; [|now left]. inversion H; subst. right. destruct x; try discriminate.
    exists [], t, r. split; [reflexivity|simpl; lia].
  - right. exists (x :: a), b, r. split; [reflexivity|simpl; lia].
Qed.

Lemma ordered_prefix_nobody a r b : ordered (a ++ RNs r :: b) = true -> existsb is_body a = false.
Proof.
  induction a as [|x a IH]; simpl; [reflexivity|]. intros H.
  destruct (is_body x) eqn:E; [|now apply IH].
  apply negb_true_iff in H. rewrite existsb_app in H. simpl in H. apply orb_false_iff in H as [_ H]. discriminate.
Qed.

Lemma first_index_spec {A} (f : A -> bool) l : forall i j,
  first_index f l i = Some j -> exists k, j = i + k /\ existsb f (firstn k l) = false.
Proof.
  induction l as [|x t IH]; intros i j H; simpl in H; [discriminate|].
  destruct (f x) eqn:E.
  - inversion H; subst. exists 0. split; [lia|reflexivity].
  - apply IH in H as (k & -> & Hk). exists (S k). split; [lia|]. simpl. now rewrite E, Hk.
Qed.
Lemma first_index_none {A} (f : A -> bool) l : forall i, first_index f l i = None -> existsb f l = false.
Proof.
  induction l as [|x t IH]; intros i H; simpl in *; [reflexivity|].
  destruct (f x); [discriminate|]. simpl. now apply (IH (S i)).
Qed.
Lemma existsb_firstn_false {A} (f : A -> bool) k l : existsb f l = false -> existsb f (firstn k l) = false.
Proof.
  revert l; induction k as [|k IH]; intros [|x t] H; simpl in *; auto.
  apply orb_false_iff in H as [H1 H2]. now rewrite H1, IH.
Qed.
Lemma body_stops l : existsb stops_ns l = false -> existsb is_body l = false.
Proof.
  induction l as [|x t IH]; simpl; [reflexivity|]. intros H. apply orb_false_iff in H as [H1 H2].
  rewrite (IH H2). destruct x; simpl in *; try discriminate; reflexivity.
Qed.

Lemma firstn_snoc {A} (a : list A) x b : firstn (S (length a)) (a ++ x :: b) = a ++ [x].
Proof. induction a as [|y a IH]; simpl; [reflexivity|]. simpl in IH. now rewrite IH. Qed.

Lemma place_ns_nobody idx io sh i :
  ordered sh = true -> place_ns idx io sh = inl i -> existsb is_body (firstn i sh) = false.
Proof.
  intros Ho. unfold place_ns.
  destruct (Nat.ltb (length sh) (match idx with Some i0 => i0 | None => length sh end)); [discriminate|].
  destruct io.
  - destruct (after_last_ns sh 0 None) as [j|] eqn:E.
    + intros H; inversion H; subst. apply after_last_ns_spec in E as [E|(a & b & r & -> & ->)]; [discriminate|].
      replace (0 + S (length a)) with (S (length a)) by lia. rewrite firstn_snoc, existsb_app. simpl.
      now rewrite (ordered_prefix_nobody _ _ _ Ho).
    + destruct (first_index stops_ns sh 0) as [j|] eqn:E2.
      * intros H; inversion H; subst. apply first_index_spec in E2 as (k & -> & Hk). simpl. now apply body_stops.
      * intros H; inversion H; subst. apply first_index_none in E2. apply existsb_firstn_false. now apply body_stops.
  - destruct (existsb is_charset _); [discriminate|].
    destruct (existsb is_body (firstn _ sh)) eqn:E; [discriminate|]. intros H; inversion H; subst. exact E.
Qed.

Lemma ordered_insert_ns r idx io sh : ordered sh = true -> ordered (fst (insert_ns r idx io sh)) = true.
Proof.
  intros Ho. destruct (insert_ns_cases r idx io sh) as [E|(i & Ep & E)]; rewrite E; [exact Ho|].
  unfold clean. apply ordered_clean_loop. simpl. apply ordered_insert; [|exact Ho].
  now apply (place_ns_nobody idx io).
Qed.

Lemma ordered_delete i sh : ordered sh = true -> ordered (fst (delete_rule i sh)) = true.
Proof.
  intros Ho. unfold delete_rule. destruct (nth_error sh i) as [[r| | | |]|]; simpl; try exact Ho;
    try (now apply ordered_remove).
  destruct (can_delete r sh); simpl; [now apply ordered_remove|exact Ho].
Qed.

Lemma find_last_from_lt p l : forall i acc k,
  find_last_from p l i acc = Some k -> (acc = Some k) \/ (i <= k < i + length l).
Proof.
  induction l as [|r t IH]; intros i acc k H; simpl in H; [now left|].
  apply IH in H as [H|H]; [|right; simpl; lia].
  destruct (eqs (prefix r) p); [inversion H; subst; right; simpl; lia|now left].
Qed.
Lemma find_last_lt p l k : find_last p l = Some k -> k < length l.
Proof. unfold find_last. intros H. apply find_last_from_lt in H as [H|H]; [discriminate|lia]. Qed.

(* in an ordered sheet the rule found at (index among @namespace rules) is never a rule set *)
Lemma ordered_nth_nobody sh : forall k x,
  ordered sh = true -> k < length (nsl sh) -> nth_error sh k = Some x -> rule_items x = [].
Proof.
  induction sh as [|r t IH]; intros k x Ho Hk Hn; [destruct k; discriminate|].
  simpl in Ho. destruct (is_body r) eqn:Eb.
  - apply negb_true_iff in Ho. apply no_ns_nsl in Ho. destruct r; simpl in *; try discriminate; rewrite Ho in Hk; simpl in Hk; lia.
  - destruct k as [|k]; simpl in Hn.
    + inversion Hn; subst. destruct x; simpl in *; try discriminate; reflexivity.
    + apply (IH k x Ho); [|exact Hn]. destruct r; simpl in *; lia.
Qed.

Lemma ns_abs_spec sh : forall k j, ns_abs k sh = Some j -> exists r, nth_error sh j = Some (RNs r).
Proof.
  induction sh as [|x t IH]; intros k j H; simpl in H; [discriminate|].
  destruct x; try (destruct (ns_abs k t) as [j'|] eqn:E; [|discriminate]; inversion H; subst; simpl; now apply (IH k)).
  destruct k as [|k]; [inversion H; subst; simpl; eauto|].
  destruct (ns_abs k t) as [j'|] eqn:E; [|discriminate]. inversion H; subst. simpl. now apply (IH k).
Qed.

(* no order hypothesis is needed any more: the rule deleted through the mapping is an @namespace rule *)
Lemma items_of_delitem p sh : items_of (fst (delitem p sh)) = items_of sh.
Proof.
  unfold delitem. destruct (find_last p (nsl sh)) as [k|]; [|reflexivity].
  destruct (ns_abs k sh) as [j|] eqn:E; [|reflexivity].
  apply ns_abs_spec in E as (r & Hr). now apply (items_of_delete_ns j sh r).
Qed.

Lemma items_of_setitem p u sh : items_of (fst (setitem p u sh)) = items_of sh.
Proof.
  unfold setitem. destruct (find_last p (nsl sh)) as [k|].
  - destruct (nth_error (nsl sh) k); [|reflexivity].
    destruct (dhas (view sh) p && negb (eqs (uri n) u)); [reflexivity|].
    destruct (mems u (dvals (view sh))); [apply items_of_upd|reflexivity].
  - destruct u; [reflexivity|apply items_of_insert].
Qed.

Lemma ordered_setitem p u sh : ordered sh = true -> ordered (fst (setitem p u sh)) = true.
Proof.
  intros Ho. unfold setitem. destruct (find_last p (nsl sh)) as [k|].
  - destruct (nth_error (nsl sh) k); [|exact Ho].
    destruct (dhas (view sh) p && negb (eqs (uri n) u)); [exact Ho|].
    destruct (mems u (dvals (view sh))); simpl; [now rewrite ordered_upd|exact Ho].
  - destruct u; [exact Ho|now apply ordered_insert_ns].
Qed.

Lemma step_frame o sh :
  ordered sh = true -> items_of (fst (step o sh)) = items_of sh /\ ordered (fst (step o sh)) = true.
Proof.
  intros Ho. destruct o; simpl.
  - split; [apply items_of_setitem|now apply ordered_setitem].
  - split; [apply items_of_delitem|]. unfold delitem. destruct (find_last p (nsl sh)) as [k|]; [|exact Ho].
    destruct (ns_abs k sh); [now apply ordered_delete|exact Ho].
  - split; [apply items_of_insert|now apply ordered_insert_ns].
  - split; [apply items_of_insert|now apply ordered_insert_ns].
  - unfold insert_text. destruct (Nat.ltb _ _); [now split|]. destruct (dhas (view sh) p); [now split|].
    split; [apply items_of_insert|now apply ordered_insert_ns].
  - unfold insert_text. destruct (Nat.ltb _ _); [now split|]. destruct (dhas (view sh) p); [now split|].
    split; [apply items_of_insert|now apply ordered_insert_ns].
  - destruct (nth_error sh i) as [[r| | | |]|] eqn:E; try now split.
    split; [now apply (items_of_delete_ns i sh r)|now apply ordered_delete].
Qed.

Lemma step_items o sh : items_of (fst (step o sh)) = items_of sh.
Proof.
  destruct o; simpl.
  - apply items_of_setitem.
  - apply items_of_delitem.
  - apply items_of_insert.
  - apply items_of_insert.
  - unfold insert_text. destruct (Nat.ltb _ _); [reflexivity|]. destruct (dhas (view sh) p); [reflexivity|apply items_of_insert].
  - unfold insert_text. destruct (Nat.ltb _ _); [reflexivity|]. destruct (dhas (view sh) p); [reflexivity|apply items_of_insert].
  - destruct (nth_error sh i) as [[r| | | |]|] eqn:E; try reflexivity. now apply (items_of_delete_ns i sh r).
Qed.
Lemma run_items ops : forall sh, items_of (run ops sh) = items_of sh.
Proof. induction ops as [|o t IH]; intros sh; simpl; [reflexivity|]. now rewrite IH, step_items. Qed.

Lemma run_frame ops : forall sh,
  ordered sh = true -> items_of (run ops sh) = items_of sh /\ ordered (run ops sh) = true.
Proof.
  induction ops as [|o t IH]; intros sh Ho; simpl; [now split|].
  destruct (step_frame o sh Ho) as [H1 H2]. destruct (IH _ H2) as [H3 H4]. split; [congruence|exact H4].
Qed.

(* ------------------------------------------------------------------ parsing yields an ordered sheet *)
Lemma ordered_snoc_other a x : ordered a = true -> is_ns x = false -> ordered (a ++ [x]) = true.
Proof.
  induction a as [|r a IH]; simpl; intros Ho Hx.
  - destruct (is_body x); reflexivity.
  - destruct (is_body r); [|now apply IH]. apply negb_true_iff in Ho. apply negb_true_iff.
    rewrite existsb_app. simpl. now rewrite Ho, Hx.
Qed.
Lemma ordered_snoc_ns a r : existsb is_body a = false -> ordered (a ++ [RNs r]) = true.
Proof.
  induction a as [|x a IH]; simpl; [reflexivity|]. intros H. apply orb_false_iff in H as [H1 H2].
  rewrite H1. now apply IH.
Qed.
Lemma replace_uri_kind p u x : is_body (replace_uri p u x) = is_body x /\ is_ns (replace_uri p u x) = is_ns x.
Proof. destruct x; simpl; auto. destruct (eqs (prefix r) p); auto. Qed.
Lemma map_replace_existsb p u sh :
  existsb is_body (map (replace_uri p u) sh) = existsb is_body sh /\
  existsb is_ns (map (replace_uri p u) sh) = existsb is_ns sh.
Proof.
  induction sh as [|x t [IH1 IH2]]; simpl; [auto|].
  destruct (replace_uri_kind p u x) as [E1 E2]. now rewrite E1, E2, IH1, IH2.
Qed.
Lemma map_replace_ordered p u sh : ordered (map (replace_uri p u) sh) = ordered sh.
Proof.
  induction sh as [|x t IH]; simpl; [reflexivity|].
  destruct (replace_uri_kind p u x) as [E1 _]. rewrite E1.
  destruct (map_replace_existsb p u t) as [_ E]. now rewrite E, IH.
Qed.

Lemma parse_loop_ordered l : forall d e sh,
  ordered sh = true -> (e <= 2 -> existsb is_body sh = false) ->
  ordered (parse_loop d e sh l) = true.
Proof.
  induction l as [|x t IH]; intros d e sh Ho Hb; simpl; [exact Ho|].
  destruct x.
  - destruct (Nat.ltb 2 e) eqn:E; [now apply IH|]. apply Nat.ltb_ge in E.
    destruct (dhas d p).
    + apply IH; [now rewrite map_replace_ordered|]. intros _.
      destruct (map_replace_existsb p u sh) as [E1 _]. rewrite E1. now apply Hb.
    + apply IH; [apply ordered_snoc_ns; now apply Hb|]. intros _. rewrite existsb_app. simpl. rewrite (Hb E). reflexivity.
  - destruct (resolve_all d l); apply IH; try exact Ho; try (intros; lia).
    now apply ordered_snoc_other.
  - apply IH; [now apply ordered_snoc_other|intros; lia].
  - destruct (Nat.ltb 0 e) eqn:E; [now apply IH|]. apply Nat.ltb_ge in E.
    apply IH; [now apply ordered_snoc_other|]. intros _. rewrite existsb_app. simpl. rewrite Hb by lia. reflexivity.
  - apply IH; [now apply ordered_snoc_other|]. intros H. assert (H' : e <= 2) by (destruct e; lia). rewrite existsb_app. simpl. rewrite (Hb H'). reflexivity.
Qed.

Lemma parse_ordered l : ordered (fst (parse l)) = true.
Proof.
  unfold parse, clean. apply ordered_clean_loop. simpl. now apply parse_loop_ordered.
Qed.

(* ------------------------------------------------------------------ C. every @namespace rule keeps (and prints) its URI *)
Definition good (r : nsrule) : Prop :=
  (prefix r = [] /\ items r = [NUri (uri r)]) \/ items r = [NPrefix (prefix r); NUri (uri r)].
Definition goodr (x : rule) : Prop := match x with RNs r => good r | _ => True end.
Definition AllGood (sh : sheet) : Prop := Forall goodr sh.

Lemma good_ser r : good r -> ser_ns r = Some (prefix r, uri r) /\ In (NUri (uri r)) (items r).
Proof.
  unfold good, ser_ns. intros [[Hp Hi]|Hi]; rewrite Hi; simpl; [rewrite Hp|]; auto.
Qed.
Lemma good_obj p u : good (mk_obj p u).
Proof. right. reflexivity. Qed.
Lemma good_text p u : good (mk_text p u).
Proof. destruct p; [left|right]; simpl; auto. Qed.
Lemma good_set_prefix p r : good r -> good (set_prefix p r).
Proof. unfold good, set_prefix. intros [[Hp Hi]|Hi]; rewrite Hi; simpl; right; reflexivity. Qed.
Lemma good_replace p u x : goodr x -> goodr (replace_uri p u x).
Proof.
  destruct x; simpl; auto. destruct (eqs (prefix r) p); simpl; auto.
  unfold good. intros [[Hp Hi]|Hi]; rewrite Hi; simpl; [left|right]; auto.
Qed.

Lemma forall_insert {A} (P : A -> Prop) i x l : P x -> Forall P l -> Forall P (insert_at i x l).
Proof.
  revert l; induction i as [|i IH]; intros l Hx Hl; simpl; [now constructor|].
  destruct l as [|y t]; [now constructor|]. inversion Hl; subst. constructor; auto.
Qed.
Lemma forall_remove {A} (P : A -> Prop) i l : Forall P l -> Forall P (remove_at i l).
Proof.
  revert i; induction l as [|y t IH]; intros [|i] Hl; simpl; auto; inversion Hl; subst; auto.
Qed.
Lemma forall_clean_loop (P : rule -> Prop) v rest : forall kept,
  Forall P (kept ++ rest) -> Forall P (fst (clean_loop v kept rest)).
Proof.
  induction rest as [|x t IH]; intros kept H; simpl; [now rewrite app_nil_r in H|].
  destruct x; try (apply IH; rewrite <- app_assoc; exact H).
  destruct (pair_in (prefix r) (uri r) v); [apply IH; rewrite <- app_assoc; exact H|].
  destruct (can_delete r (kept ++ RNs r :: t)); simpl; [|exact H].
  apply IH. apply Forall_app in H as [H1 H2]. inversion H2; subst. apply Forall_app. now split.
Qed.
Lemma allgood_upd k p sh : AllGood sh -> AllGood (upd_ns k (set_prefix p) sh).
Proof.
  unfold AllGood. revert k; induction sh as [|x t IH]; intros k H; simpl; [constructor|].
  inversion H; subst. destruct x; try (constructor; auto).
  destruct k; constructor; auto. now apply good_set_prefix.
Qed.
Lemma allgood_insert r idx io sh : good r -> AllGood sh -> AllGood (fst (insert_ns r idx io sh)).
Proof.
  intros Hr H. destruct (insert_ns_cases r idx io sh) as [E|(i & _ & E)]; rewrite E; [exact H|].
  unfold clean, AllGood. apply forall_clean_loop. simpl. now apply forall_insert.
Qed.
Lemma allgood_delete i sh : AllGood sh -> AllGood (fst (delete_rule i sh)).
Proof.
  intros H. unfold delete_rule. destruct (nth_error sh i) as [[r| | | |]|]; simpl; try exact H;
    try (now apply forall_remove).
  destruct (can_delete r sh); simpl; [now apply forall_remove|exact H].
Qed.
Lemma step_allgood o sh : AllGood sh -> AllGood (fst (step o sh)).
Proof.
  intros H. destruct o; simpl.
  - unfold setitem. destruct (find_last p (nsl sh)) as [k|].
    + destruct (nth_error (nsl sh) k); [|exact H].
      destruct (dhas (view sh) p && negb (eqs (uri n) u)); [exact H|].
      destruct (mems u (dvals (view sh))); simpl; [now apply allgood_upd|exact H].
    + destruct u; [exact H|]. apply allgood_insert; [apply good_obj|exact H].
  - unfold delitem. destruct (find_last p (nsl sh)) as [k|]; [|exact H]. destruct (ns_abs k sh); [now apply allgood_delete|exact H].
  - apply allgood_insert; [apply good_obj|exact H].
  - apply allgood_insert; [apply good_obj|exact H].
  - unfold insert_text. destruct (Nat.ltb _ _); [exact H|]. destruct (dhas (view sh) p); [exact H|].
    apply allgood_insert; [apply good_text|exact H].
  - unfold insert_text. destruct (Nat.ltb _ _); [exact H|]. destruct (dhas (view sh) p); [exact H|].
    apply allgood_insert; [apply good_text|exact H].
  - destruct (nth_error sh i) as [[r| | | |]|]; try exact H. now apply allgood_delete.
Qed.
Lemma run_allgood ops : forall sh, AllGood sh -> AllGood (run ops sh).
Proof. induction ops as [|o t IH]; intros sh H; simpl; [exact H|]. apply IH. now apply step_allgood. Qed.

Lemma parse_loop_allgood l : forall d e sh, AllGood sh -> AllGood (parse_loop d e sh l).
Proof.
  unfold AllGood. induction l as [|x t IH]; intros d e sh H; simpl; [exact H|].
  destruct x.
  - destruct (Nat.ltb 2 e); [now apply IH|]. destruct (dhas d p); apply IH.
    + apply Forall_forall. intros y Hy. apply in_map_iff in Hy as (z & <- & Hz). apply good_replace.
      rewrite Forall_forall in H. now apply H.
    + apply Forall_app. split; [exact H|]. constructor; [apply good_text|constructor].
  - destruct (resolve_all d l); apply IH; try exact H. apply Forall_app. split; [exact H|]. repeat constructor.
  - apply IH. apply Forall_app. split; [exact H|]. repeat constructor.
  - destruct (Nat.ltb 0 e); apply IH; try exact H. apply Forall_app. split; [exact H|]. repeat constructor.
  - apply IH. apply Forall_app. split; [exact H|]. repeat constructor.
Qed.
Lemma parse_allgood l : AllGood (fst (parse l)).
Proof.
  unfold parse, clean, AllGood. apply forall_clean_loop. simpl. apply parse_loop_allgood. constructor.
Qed.

Lemma allgood_nsl sh r : AllGood sh -> In r (nsl sh) -> good r.
Proof.
  unfold AllGood. induction sh as [|x t IH]; simpl; [tauto|]. intros H Hin. inversion H; subst.
  destruct x; simpl in *; auto. destruct Hin as [<-|Hin]; auto.
Qed.

(* ------------------------------------------------------------------ D. a used URI keeps a declaration *)
Definition cnt (u : str) (sh : sheet) : nat := count_uri u (nsl sh).

Lemma existsb_concat {A} (f : A -> bool) ls : existsb (existsb f) ls = existsb f (concat ls).
Proof. induction ls as [|l t IH]; simpl; [reflexivity|]. now rewrite existsb_app, IH. Qed.
Lemma used_items u sh : used u sh = existsb (item_uses u) (items_of sh).
Proof.
  unfold used, items_of. induction sh as [|x t IH]; simpl; [reflexivity|].
  rewrite existsb_app, IH. f_equal. destruct x; simpl; auto. apply existsb_concat.
Qed.
Lemma count_app u a b : count_uri u (a ++ b) = count_uri u a + count_uri u b.
Proof. induction a as [|r a IH]; simpl; [reflexivity|]. rewrite IH. lia. Qed.

Lemma cnt_remove_ns u i sh r :
  nth_error sh i = Some (RNs r) -> cnt u sh = cnt u (remove_at i sh) + (if eqs (uri r) u then 1 else 0).
Proof.
  unfold cnt. revert i; induction sh as [|x t IH]; intros [|i] H; simpl in *; try discriminate.
  - inversion H; subst. simpl. lia.
  - destruct x; simpl; rewrite ?(IH i H); lia.
Qed.
Lemma nsl_remove_other i sh x : nth_error sh i = Some x -> is_ns x = false -> nsl (remove_at i sh) = nsl sh.
Proof.
  revert i; induction sh as [|y t IH]; intros [|i] H Hx; simpl in *; try discriminate.
  - inversion H; subst. destruct x; simpl in *; try discriminate; reflexivity.
  - destruct y; simpl; rewrite ?(IH i H Hx); reflexivity.
Qed.
Lemma cnt_insert u i r sh : cnt u (insert_at i (RNs r) sh) = cnt u sh + (if eqs (uri r) u then 1 else 0).
Proof.
  unfold cnt. revert sh; induction i as [|i IH]; intros sh; simpl; [lia|].
  destruct sh as [|y t]; simpl; [lia|]. destruct y; simpl; rewrite IH; lia.
Qed.
Lemma cnt_upd u k p sh : cnt u (upd_ns k (set_prefix p) sh) = cnt u sh.
Proof.
  unfold cnt. revert k; induction sh as [|y t IH]; intros k; simpl; [reflexivity|].
  destruct y; simpl; rewrite ?IH; try reflexivity. destruct k; simpl; [reflexivity|now rewrite IH].
Qed.

Lemma can_delete_keeps u r sh :
  can_delete r sh = true -> used u sh = true -> 1 <= cnt u sh ->
  1 + (if eqs (uri r) u then 1 else 0) <= cnt u sh.
Proof.
  unfold can_delete, cnt. intros Hc Hu Hn. destruct (eqs (uri r) u) eqn:E; [|lia].
  apply eqs_spec in E. subst u. rewrite Hu in Hc. simpl in Hc. apply negb_true_iff, Nat.eqb_neq in Hc. lia.
Qed.

Lemma used_mid u a r b : used u (a ++ RNs r :: b) = used u (a ++ b).
Proof. unfold used. rewrite !existsb_app. reflexivity. Qed.
Lemma cnt_mid u a r b : cnt u (a ++ RNs r :: b) = cnt u (a ++ b) + (if eqs (uri r) u then 1 else 0).
Proof. unfold cnt. rewrite !nsl_app. simpl. rewrite !count_app. simpl. lia. Qed.

Lemma clean_loop_count u v rest : forall kept,
  used u (kept ++ rest) = true -> 1 <= cnt u (kept ++ rest) -> 1 <= cnt u (fst (clean_loop v kept rest)).
Proof.
  induction rest as [|x t IH]; intros kept Hu Hn; simpl; [now rewrite app_nil_r in Hn|].
  destruct x; try (apply IH; rewrite <- app_assoc; assumption).
  destruct (pair_in (prefix r) (uri r) v); [apply IH; rewrite <- app_assoc; assumption|].
  destruct (can_delete r (kept ++ RNs r :: t)) eqn:Ec; simpl; [|exact Hn].
  pose proof (can_delete_keeps u r _ Ec Hu Hn) as Hk.
  apply IH; [now rewrite used_mid in Hu|]. rewrite cnt_mid in Hk. lia.
Qed.

Lemma insert_count u r idx io sh :
  used u sh = true -> 1 <= cnt u sh -> 1 <= cnt u (fst (insert_ns r idx io sh)).
Proof.
  intros Hu Hn. destruct (insert_ns_cases r idx io sh) as [E|(i & _ & E)]; rewrite E; [exact Hn|].
  unfold clean. apply clean_loop_count; simpl.
  - rewrite used_items, items_of_insert_ns, <- used_items. exact Hu.
  - rewrite cnt_insert. lia.
Qed.
Lemma delete_count u i sh :
  used u sh = true -> 1 <= cnt u sh -> 1 <= cnt u (fst (delete_rule i sh)).
Proof.
  intros Hu Hn. unfold delete_rule. destruct (nth_error sh i) as [x|] eqn:E; [|exact Hn].
  destruct x; simpl; try (unfold cnt; rewrite (nsl_remove_other i sh _ E); [exact Hn|reflexivity]).
  destruct (can_delete r sh) eqn:Ec; simpl; [|exact Hn].
  pose proof (can_delete_keeps u r _ Ec Hu Hn) as Hk. rewrite (cnt_remove_ns u i sh r E) in Hk. lia.
Qed.
Lemma step_count u o sh : used u sh = true -> 1 <= cnt u sh -> 1 <= cnt u (fst (step o sh)).
Proof.
  intros Hu Hn. destruct o; simpl.
  - unfold setitem. destruct (find_last p (nsl sh)) as [k|].
    + destruct (nth_error (nsl sh) k); [|exact Hn].
      destruct (dhas (view sh) p && negb (eqs (uri n) u0)); [exact Hn|].
      destruct (mems u0 (dvals (view sh))); simpl; [now rewrite cnt_upd|exact Hn].
    + destruct u0; [exact Hn|now apply insert_count].
  - unfold delitem. destruct (find_last p (nsl sh)) as [k|]; [|exact Hn]. destruct (ns_abs k sh); [now apply delete_count|exact Hn].
  - now apply insert_count.
  - now apply insert_count.
  - unfold insert_text. destruct (Nat.ltb _ _); [exact Hn|]. destruct (dhas (view sh) p); [exact Hn|now apply insert_count].
  - unfold insert_text. destruct (Nat.ltb _ _); [exact Hn|]. destruct (dhas (view sh) p); [exact Hn|now apply insert_count].
  - destruct (nth_error sh i) as [[r| | | |]|]; try exact Hn. now apply delete_count.
Qed.

Lemma run_count u ops : forall sh,
  used u sh = true -> 1 <= cnt u sh ->
  used u (run ops sh) = true /\ 1 <= cnt u (run ops sh).
Proof.
  induction ops as [|o t IH]; intros sh Hu Hn; simpl; [now split|].
  apply IH; [|now apply step_count].
  rewrite used_items, step_items, <- used_items. exact Hu.
Qed.

Lemma cnt_In u sh : 1 <= cnt u sh <-> exists r, In r (nsl sh) /\ uri r = u.
Proof.
  unfold cnt. induction (nsl sh) as [|r t IH]; simpl; [split; [lia|intros (r & [] & _)]|].
  destruct (eqs (uri r) u) eqn:E.
  - apply eqs_spec in E. split; [eauto|lia].
  - apply eqs_false in E. rewrite IH. split; intros (r' & H1 & H2); eauto.
    destruct H1 as [<-|H1]; [contradiction|eauto].
Qed.

(* a selector item with a string URI makes that URI "used" *)
Lemma pair_used k u n sh : In (IPair k (UStr u) n) (items_of sh) -> used u sh = true.
Proof.
  intros H. rewrite used_items. apply existsb_exists. eexists; split; [exact H|]. simpl. apply eqs_refl.
Qed.

(* ------------------------------------------------------------------ E. the view of a clean sheet *)
Definition Clean (sh : sheet) : Prop := NoDup (map prefix (nsl sh)) /\ NoDup (map uri (nsl sh)).
Definition pr (r : nsrule) : str * str := (prefix r, uri r).

Lemma dset_fresh d k v : ~ In k (map fst d) -> dset d k v = d ++ [(k, v)].
Proof.
  induction d as [|[k' v'] t IH]; simpl; [reflexivity|]. intros H.
  destruct (eqs k' k) eqn:E; [apply eqs_spec in E; subst; tauto|]. rewrite IH; tauto.
Qed.

Lemma view_of_clean l :
  NoDup (map prefix l) -> NoDup (map uri l) -> view_of l = rev (map pr l).
Proof.
  induction l as [|r t IH]; simpl; [reflexivity|]. intros Hp Hu. inversion Hp; subst. inversion Hu; subst.
  unfold view_step. rewrite (IH H2 H4).
  assert (E1 : mems (uri r) (dvals (rev (map pr t))) = false).
  { destruct (mems _ _) eqn:E; [|reflexivity]. apply mems_In in E. unfold dvals in E.
    rewrite map_rev, map_map, <- in_rev in E. simpl in E. contradiction. }
  rewrite E1. apply dset_fresh. rewrite map_rev, map_map, <- in_rev. simpl. exact H1.
Qed.

Lemma view_clean sh : Clean sh -> view sh = rev (ns_pairs sh).
Proof. intros [H1 H2]. unfold view, ns_pairs. now apply view_of_clean. Qed.

Lemma pair_in_In p u d : pair_in p u d = true <-> In (p, u) d.
Proof.
  induction d as [|[p' u'] t IH]; simpl; [split; [discriminate|tauto]|].
  rewrite orb_true_iff, andb_true_iff, !eqs_spec, IH. split.
  - intros [[-> ->]|H]; auto.
  - intros [H|H]; [inversion H; auto|auto].
Qed.

Lemma clean_loop_noop v rest : forall kept,
  (forall r, In r (nsl rest) -> In (pr r) v) -> clean_loop v kept rest = (kept ++ rest, Ok).
Proof.
  induction rest as [|x t IH]; intros kept H; simpl; [now rewrite app_nil_r|].
  destruct x; simpl in H; try (rewrite IH by exact H; now rewrite <- app_assoc).
  assert (E : pair_in (prefix r) (uri r) v = true) by (apply pair_in_In; apply (H r); now left).
  rewrite E, IH by (intros; apply H; now right). now rewrite <- app_assoc.
Qed.

(* on a clean sheet _cleanNamespaces removes nothing: every @namespace rule is effective *)
Lemma clean_noop sh : Clean sh -> clean sh = (sh, Ok).
Proof.
  intros Hc. unfold clean. rewrite (clean_loop_noop _ sh []); [reflexivity|].
  intros r Hr. rewrite (view_clean sh Hc). apply -> in_rev. unfold ns_pairs. now apply (in_map pr).
Qed.

(* as a mapping: prefix p is bound to u exactly when a rule declares it *)
Lemma dget_In_nodup d k v : NoDup (map fst d) -> (dget d k = Some v <-> In (k, v) d).
Proof.
  induction d as [|[k' v'] t IH]; simpl; intros Hn; [split; [discriminate|tauto]|].
  inversion Hn; subst. destruct (eqs k' k) eqn:E.
  - apply eqs_spec in E. subst k'. split.
    + intros H; inversion H; auto.
    + intros [H|H]; [inversion H; auto|]. exfalso. apply H1. now apply (in_map fst) in H.
  - apply eqs_false in E. rewrite (IH H2). split; [auto|]. intros [H|H]; [inversion H; congruence|exact H].
Qed.

Lemma view_binds sh p u : Clean sh -> (dget (view sh) p = Some u <-> exists r, In r (nsl sh) /\ prefix r = p /\ uri r = u).
Proof.
  intros Hc. rewrite (view_clean sh Hc). destruct Hc as [Hp _].
  rewrite dget_In_nodup.
  - rewrite <- in_rev. unfold ns_pairs. rewrite in_map_iff. split.
    + intros (r & E & Hr). inversion E; subst. eauto.
    + intros (r & Hr & <- & <-). eauto.
  - rewrite map_rev. unfold ns_pairs. rewrite map_map. simpl. now apply NoDup_rev.
Qed.

(* ------------------------------------------------------------------ statements used by props/C15.v *)
Lemma undeclared_rule_dropped d e sh k p n its t :
  In (PSel k (FPfx p) n) its -> dget d p = None ->
  resolve_all d its = None /\ parse_loop d e sh (SStyle its :: t) = parse_loop d 3 sh t.
Proof. intros Hin Hd. pose proof (undeclared_rejected d k p n its Hin Hd) as H. split; [exact H|]. simpl. now rewrite H. Qed.

Lemma pairs_frame ops sh : pairs (run ops sh) = pairs sh /\ items_of (run ops sh) = items_of sh.
Proof. unfold pairs. rewrite run_items. now split. Qed.

(* parsed sheets keep every @namespace rule in front of every rule set / @media block, through any history *)
Lemma order_kept stmts ops : ordered (run ops (fst (parse stmts))) = true.
Proof. apply run_frame, parse_ordered. Qed.

Lemma ns_rule_keeps_uri_parsed stmts ops r :
  In r (nsl (run ops (fst (parse stmts)))) -> ser_ns r = Some (prefix r, uri r) /\ In (NUri (uri r)) (items r).
Proof. intros H. apply good_ser. apply (allgood_nsl _ r (run_allgood ops _ (parse_allgood stmts)) H). Qed.

Lemma delete_protected_step sh i r :
  nth_error sh i = Some (RNs r) -> used (uri r) sh = true -> cnt (uri r) sh = 1 ->
  step (ODelRule i) sh = (sh, Raise ENoMod) /\ delete_rule i sh = (sh, Raise ENoMod).
Proof.
  intros Hn Hu Hc. simpl. unfold delete_rule. rewrite Hn. unfold can_delete. unfold cnt in Hc. rewrite Hu, Hc. simpl. auto.
Qed.

Lemma used_uri_stays_declared sh ops k u n :
  In (IPair k (UStr u) n) (items_of sh) -> (exists r, In r (nsl sh) /\ uri r = u) ->
  In (IPair k (UStr u) n) (items_of (run ops sh)) /\ exists r, In r (nsl (run ops sh)) /\ uri r = u.
Proof.
  intros Hin Hd. split.
  - now rewrite run_items.
  - apply cnt_In. apply cnt_In in Hd. apply (run_count u ops sh); [now apply (pair_used k u n)|exact Hd].
Qed.

Lemma view_matches_clean sh :
  Clean sh ->
  view sh = rev (ns_pairs sh) /\
  (forall p u, dget (view sh) p = Some u <-> exists r, In r (nsl sh) /\ prefix r = p /\ uri r = u) /\
  clean sh = (sh, Ok).
Proof. intros Hc. split; [now apply view_clean|]. split; [intros; now apply view_binds|now apply clean_noop]. Qed.


(* ================================================================== mixed histories: namespace + selector-side operations *)
(* every selector item that carries a non-empty string URI is declared by some @namespace rule *)
Definition Bound (sh : sheet) : Prop :=
  forall k u n, In (IPair k (UStr u) n) (items_of sh) -> u <> [] -> 1 <= cnt u sh.

Lemma dget_In_vals d k v : dget d k = Some v -> In v (dvals d).
Proof.
  induction d as [|[k' v'] t IH]; simpl; [discriminate|]. destruct (eqs k' k); intros H; [inversion H; now left|right; auto].
Qed.
Lemma dset_vals d k v x : In x (dvals (dset d k v)) -> In x (dvals d) \/ x = v.
Proof.
  induction d as [|[k' v'] t IH]; simpl; [intros [H|[]]; auto|].
  destruct (eqs k' k); simpl; intros [H|H]; auto. destruct (IH H); auto.
Qed.
Lemma view_vals_declared l u : In u (dvals (view_of l)) -> exists r, In r l /\ uri r = u.
Proof.
  induction l as [|r t IH]; simpl; [tauto|]. unfold view_step.
  destruct (mems (uri r) (dvals (view_of t))).
  - intros H. destruct (IH H) as (r' & H1 & H2). eauto.
  - intros H. apply dset_vals in H as [H|H]; [destruct (IH H) as (r' & H1 & H2); eauto|eauto].
Qed.
Lemma view_get_declared sh p u : dget (view sh) p = Some u -> 1 <= cnt u sh.
Proof. intros H. apply cnt_In. apply view_vals_declared. now apply dget_In_vals in H. Qed.

Lemma default_of_str d u : default_of d = UStr u -> dget d [] = Some u.
Proof. unfold default_of. destruct (dget d []); intros H; inversion H; reflexivity. Qed.

(* an item resolved against a dictionary whose entries are all declared is bound to a declared URI *)
Lemma resolve_declared_gen d (P : str -> Prop) pi k u n :
  (forall p, dget d p = Some u -> P u) ->
  resolve d pi = Some (IPair k (UStr u) n) -> u <> [] -> P u.
Proof.
  intros GET H Hu. apply resolve_binds in H. destruct pi as [k' f n'|]; simpl in H; [|discriminate].
  destruct k', f; simpl in H; try discriminate;
    try (destruct H as (u' & Hp & E); injection E as _ E2 _; subst u'; now apply (GET p));
    try (injection H as _ E _; first [ congruence | symmetry in E; apply default_of_str in E; now apply (GET []) ]).
Qed.
Lemma resolve_declared sh pi k u n :
  resolve (view sh) pi = Some (IPair k (UStr u) n) -> u <> [] -> 1 <= cnt u sh.
Proof. apply (resolve_declared_gen (view sh) (fun u => 1 <= cnt u sh)). intros p. apply view_get_declared. Qed.

Definition New (sh : sheet) (it : item) : Prop := exists pi, resolve (view sh) pi = Some it.

Lemma resolve_all_In d l r it : resolve_all d l = Some r -> In it r -> exists pi, resolve d pi = Some it.
Proof.
  revert r; induction l as [|x t IH]; simpl; intros r H Hin.
  - inversion H; subst. destruct Hin.
  - destruct (resolve d x) eqn:E1; [|discriminate]. destruct (resolve_all d t) eqn:E2; [|discriminate].
    inversion H; subst. destruct Hin as [<-|Hin]; eauto.
Qed.

Lemma in_items_nth sh r x it : nth_error sh r = Some x -> In it (rule_items x) -> In it (items_of sh).
Proof.
  revert r; induction sh as [|y t IH]; intros [|r] H Hin; simpl in H; try discriminate.
  - inversion H; subst. unfold items_of. simpl. apply in_or_app. now left.
  - unfold items_of in *. simpl. apply in_or_app. right. now apply (IH r).
Qed.
Lemma in_set_nth {A} i (x y : A) l : In y (set_nth i x l) -> In y l \/ y = x.
Proof.
  revert i; induction l as [|z t IH]; intros [|i]; simpl; auto.
  - intros [H|H]; auto.
  - intros [H|H]; auto. destruct (IH i H); auto.
Qed.
Lemma in_remove_at {A} i (y : A) l : In y (remove_at i l) -> In y l.
Proof. revert i; induction l as [|z t IH]; intros [|i]; simpl; auto. intros [H|H]; auto. right. now apply (IH i). Qed.
Lemma in_insert_at {A} i (x y : A) l : In y (insert_at i x l) -> In y l \/ y = x.
Proof.
  revert l; induction i as [|i IH]; intros l; simpl; [intros [H|H]; auto|].
  destruct l as [|z t]; simpl; [intros [H|[]]; auto|]. intros [H|H]; auto. destruct (IH t H); auto.
Qed.
Lemma items_cons x t it : In it (items_of (x :: t)) <-> In it (rule_items x) \/ In it (items_of t).
Proof. unfold items_of. simpl. rewrite in_app_iff. tauto. Qed.
Lemma items_set_nth r y sh it :
  In it (items_of (set_nth r y sh)) -> In it (items_of sh) \/ In it (rule_items y).
Proof.
  revert r; induction sh as [|z t IH]; intros [|r]; cbn [set_nth]; auto; rewrite !items_cons; intros [H|H]; auto.
  destruct (IH r H); auto.
Qed.
Lemma items_insert_at i y sh it :
  In it (items_of (insert_at i y sh)) -> In it (items_of sh) \/ In it (rule_items y).
Proof.
  revert sh; induction i as [|i IH]; intros sh; cbn [insert_at].
  - rewrite items_cons. tauto.
  - destruct sh as [|z t]; rewrite !items_cons; [tauto|]. intros [H|H]; auto. destruct (IH t H); auto.
Qed.
Lemma items_remove_at i sh it : In it (items_of (remove_at i sh)) -> In it (items_of sh).
Proof.
  revert i; induction sh as [|z t IH]; intros [|i]; cbn [remove_at]; auto; rewrite !items_cons; auto.
  intros [H|H]; auto. right. now apply (IH i).
Qed.
Lemma in_concat_set_nth {A} j (its : list A) rs it : In it (concat (set_nth j its rs)) -> In it (concat rs) \/ In it its.
Proof.
  intros H. apply in_concat in H as (l & Hl & Hin). apply in_set_nth in Hl as [Hl| ->]; auto.
  left. apply in_concat. eauto.
Qed.
Lemma get_style_items a sh its it : get_style a sh = Some its -> In it its -> In it (items_of sh).
Proof.
  destruct a as [r|r j]; simpl.
  - destruct (nth_error sh r) as [[| | | |]|] eqn:E; try discriminate. intros H Hin. inversion H; subst.
    now apply (in_items_nth sh r (RStyle its)).
  - destruct (nth_error sh r) as [[| | | |]|] eqn:E; try discriminate. intros H Hin.
    apply (in_items_nth sh r (RMedia rs)); [exact E|]. simpl. apply in_concat. exists its. split; [|exact Hin].
    now apply nth_error_In in H.
Qed.
Lemma put_style_items a its' sh it :
  In it (items_of (put_style a its' sh)) -> In it (items_of sh) \/ In it its'.
Proof.
  destruct a as [r|r j]; simpl.
  - apply items_set_nth.
  - destruct (nth_error sh r) as [[| | | |]|] eqn:E; auto. intros H. apply items_set_nth in H as [H|H]; auto.
    simpl in H. apply in_concat_set_nth in H as [H|H]; auto. left. now apply (in_items_nth sh r (RMedia rs)).
Qed.

Lemma sstep_items o sh it : In it (items_of (fst (sstep o sh))) -> In it (items_of sh) \/ New sh it.
Proof.
  unfold New. destruct o; simpl.
  - destruct (get_style a sh) as [its|] eqn:G; [|auto]. destruct (Nat.ltb i (length its)); [|auto].
    destruct (resolve (view sh) pi) as [x|] eqn:R; [|auto]. simpl. intros H.
    apply put_style_items in H as [H|H]; auto. apply in_set_nth in H as [H| ->]; eauto.
    left. now apply (get_style_items a sh its).
  - destruct (get_style a sh) as [its|] eqn:G; [|auto].
    destruct (resolve_all (view sh) l) as [r|] eqn:R; [|auto]. simpl. intros H.
    apply put_style_items in H as [H|H]; auto. right. now apply (resolve_all_In _ l r).
  - destruct (get_style a sh) as [its|] eqn:G; [|auto].
    destruct (resolve (view sh) pi) as [x|] eqn:R; [|auto]. simpl. intros H.
    apply put_style_items in H as [H|H]; auto. apply in_app_or in H as [H|[<-|[]]]; eauto.
    apply filter_In in H as [H _]. left. now apply (get_style_items a sh its).
  - destruct (get_style a sh) as [its|] eqn:G; [|auto].
    destruct (Nat.ltb i (length its) && Nat.ltb 1 (length its)); [|auto]. simpl. intros H.
    apply put_style_items in H as [H|H]; auto. apply in_remove_at in H. left. now apply (get_style_items a sh its).
  - destruct idx as [i|].
    + destruct (Nat.ltb (length sh) i); [auto|]. destruct (resolve_all (view sh) l) as [r|] eqn:R; [|auto].
      destruct (existsb blocks_body (skipn i sh)); [auto|]. simpl. intros H.
      apply items_insert_at in H as [H|H]; auto. right. now apply (resolve_all_In _ l r).
    + destruct (resolve_all (view sh) l) as [r|] eqn:R; [|auto]. simpl. rewrite items_of_app. intros H.
      apply in_app_or in H as [H|H]; auto. apply items_cons in H as [H|[]]. right. now apply (resolve_all_In _ l r).
  - destruct (nth_error sh r) as [[| | | |]|] eqn:E; auto.
    destruct (Nat.ltb (length rs) _); [auto|]. destruct (resolve_all (view sh) l) as [r'|] eqn:R; [|auto].
    simpl. intros H. apply items_set_nth in H as [H|H]; auto. simpl in H.
    apply in_concat in H as (x & Hx & Hin). apply in_insert_at in Hx as [Hx| ->].
    + left. apply (in_items_nth sh r (RMedia rs)); [exact E|]. simpl. apply in_concat. eauto.
    + right. now apply (resolve_all_In _ l r').
  - destruct a as [r|r j].
    + destruct (nth_error sh r) as [[| | | |]|] eqn:E; auto. simpl. intros H. left. now apply (items_remove_at r).
    + destruct (nth_error sh r) as [[| | | |]|] eqn:E; auto. destruct (Nat.ltb j (length rs)); [|auto].
      simpl. intros H. apply items_set_nth in H as [H|H]; auto. simpl in H. left.
      apply (in_items_nth sh r (RMedia rs)); [exact E|]. simpl.
      apply in_concat in H as (x & Hx & Hin). apply in_remove_at in Hx. apply in_concat. eauto.
Qed.

(* selector-side operations never touch an @namespace rule *)
Lemma nsl_set_nth r x y sh :
  nth_error sh r = Some x -> is_ns x = false -> is_ns y = false -> nsl (set_nth r y sh) = nsl sh.
Proof.
  revert r; induction sh as [|z t IH]; intros [|r] H Hx Hy; simpl in *; try discriminate.
  - inversion H; subst. destruct x, y; simpl in *; try discriminate; reflexivity.
  - destruct z; simpl; rewrite ?(IH r H Hx Hy); reflexivity.
Qed.
Lemma nsl_insert_other i y sh : is_ns y = false -> nsl (insert_at i y sh) = nsl sh.
Proof.
  intros Hy. revert sh; induction i as [|i IH]; intros sh; simpl.
  - destruct y; simpl in *; try discriminate; reflexivity.
  - destruct sh as [|z t]; simpl; [destruct y; simpl in *; try discriminate; reflexivity|].
    destruct z; simpl; rewrite ?IH; reflexivity.
Qed.
Lemma nsl_put_style a its its' sh : get_style a sh = Some its -> nsl (put_style a its' sh) = nsl sh.
Proof.
  destruct a as [r|r j]; simpl.
  - destruct (nth_error sh r) as [[| | | |]|] eqn:E; try discriminate. intros _. now apply (nsl_set_nth r (RStyle its0)).
  - destruct (nth_error sh r) as [[| | | |]|] eqn:E; try discriminate. intros _. now apply (nsl_set_nth r (RMedia rs)).
Qed.
Lemma sstep_nsl o sh : nsl (fst (sstep o sh)) = nsl sh.
Proof.
  destruct o; simpl.
  - destruct (get_style a sh) as [its|] eqn:G; [|reflexivity]. destruct (Nat.ltb i (length its)); [|reflexivity].
    destruct (resolve (view sh) pi); [|reflexivity]. simpl. now apply (nsl_put_style a its).
  - destruct (get_style a sh) as [its|] eqn:G; [|reflexivity].
    destruct (resolve_all (view sh) l); [|reflexivity]. simpl. now apply (nsl_put_style a its).
  - destruct (get_style a sh) as [its|] eqn:G; [|reflexivity].
    destruct (resolve (view sh) pi); [|reflexivity]. simpl. now apply (nsl_put_style a its).
  - destruct (get_style a sh) as [its|] eqn:G; [|reflexivity].
    destruct (Nat.ltb i (length its) && Nat.ltb 1 (length its)); [|reflexivity]. simpl. now apply (nsl_put_style a its).
  - destruct idx as [i|].
    + destruct (Nat.ltb (length sh) i); [reflexivity|]. destruct (resolve_all (view sh) l); [|reflexivity].
      destruct (existsb blocks_body (skipn i sh)); [reflexivity|]. simpl. now apply nsl_insert_other.
    + destruct (resolve_all (view sh) l); [|reflexivity]. simpl. rewrite nsl_app. simpl. now rewrite app_nil_r.
  - destruct (nth_error sh r) as [[| | | |]|] eqn:E; try reflexivity.
    destruct (Nat.ltb (length rs) _); [reflexivity|]. destruct (resolve_all (view sh) l); [|reflexivity].
    simpl. now apply (nsl_set_nth r (RMedia rs)).
  - destruct a as [r|r j].
    + destruct (nth_error sh r) as [[| | | |]|] eqn:E; try reflexivity. simpl. now apply (nsl_remove_other r sh (RStyle its)).
    + destruct (nth_error sh r) as [[| | | |]|] eqn:E; try reflexivity. destruct (Nat.ltb j (length rs)); [|reflexivity].
      simpl. now apply (nsl_set_nth r (RMedia rs)).
Qed.

Lemma sstep_bound o sh : Bound sh -> Bound (fst (sstep o sh)).
Proof.
  intros Hb k u n Hin Hu. unfold cnt. rewrite sstep_nsl. apply sstep_items in Hin as [Hin|(pi & Hr)].
  - now apply (Hb k u n).
  - now apply (resolve_declared sh pi k u n).
Qed.
Lemma step_bound o sh : Bound sh -> Bound (fst (step o sh)).
Proof.
  intros Hb k u n Hin Hu. rewrite step_items in Hin.
  apply step_count; [now apply (pair_used k u n)|now apply (Hb k u n)].
Qed.
Lemma mstep_bound o sh : Bound sh -> Bound (fst (mstep o sh)).
Proof. destruct o; simpl; [apply step_bound|apply sstep_bound]. Qed.
Lemma mrun_bound ops : forall sh, Bound sh -> Bound (mrun ops sh).
Proof. induction ops as [|o t IH]; intros sh H; simpl; [exact H|]. apply IH. now apply mstep_bound. Qed.

(* parsing establishes Bound *)
Definition repl (p u : str) (r : nsrule) : nsrule :=
  if eqs (prefix r) p then mkNs (prefix r) u (replace_uri_item u (items r)) else r.
Lemma nsl_map_replace p u sh : nsl (map (replace_uri p u) sh) = map (repl p u) (nsl sh).
Proof.
  induction sh as [|x t IH]; simpl; [reflexivity|]. destruct x; simpl; try exact IH.
  unfold repl. destruct (eqs (prefix r) p); simpl; now rewrite IH.
Qed.
Lemma items_map_replace p u sh : items_of (map (replace_uri p u) sh) = items_of sh.
Proof.
  unfold items_of. induction sh as [|x t IH]; simpl; [reflexivity|]. rewrite IH. f_equal.
  destruct x; simpl; auto. destruct (eqs (prefix r) p); reflexivity.
Qed.

Definition DictOk (d : dict) (sh : sheet) : Prop :=
  forall p u, dget d p = Some u -> exists r, In r (nsl sh) /\ prefix r = p /\ uri r = u.

Lemma resolve_dict_declared d sh pi k u n :
  DictOk d sh -> resolve d pi = Some (IPair k (UStr u) n) -> u <> [] -> 1 <= cnt u sh.
Proof.
  intros Hd. apply (resolve_declared_gen d (fun u => 1 <= cnt u sh)).
  intros p Hp. apply cnt_In. destruct (Hd p u Hp) as (r & H1 & _ & H3). eauto.
Qed.

Lemma resolve_rules_In d rs it :
  In it (concat (resolve_rules d rs)) -> exists pi, resolve d pi = Some it.
Proof.
  induction rs as [|x t IH]; simpl; [tauto|]. destruct (resolve_all d x) as [r|] eqn:E; [|exact IH].
  simpl. intros H. apply in_app_or in H as [H|H]; [now apply (resolve_all_In d x r)|auto].
Qed.

Lemma bound_snoc_body sh d x :
  DictOk d sh -> Bound sh -> is_ns x = false ->
  (forall it, In it (rule_items x) -> exists pi, resolve d pi = Some it) -> Bound (sh ++ [x]).
Proof.
  intros Hd Hb Hx Hn k u n Hin Hu. unfold cnt. rewrite nsl_app.
  replace (nsl [x]) with (@nil nsrule) by (destruct x; simpl in *; try discriminate; reflexivity).
  rewrite app_nil_r. rewrite items_of_app in Hin. apply in_app_or in Hin as [Hin|Hin]; [now apply (Hb k u n)|].
  apply items_cons in Hin as [Hin|[]]. destruct (Hn _ Hin) as (pi & Hr).
  now apply (resolve_dict_declared d sh pi k u n).
Qed.
Lemma dictok_snoc_other d sh x : DictOk d sh -> is_ns x = false -> DictOk d (sh ++ [x]).
Proof.
  intros Hd Hx p u H. destruct (Hd p u H) as (r & H1 & H2). exists r. split; [|exact H2].
  rewrite nsl_app. apply in_or_app. now left.
Qed.

Lemma parse_loop_bound l : forall d e sh,
  DictOk d sh -> Bound sh -> (e <= 2 -> items_of sh = []) -> Bound (parse_loop d e sh l).
Proof.
  induction l as [|x t IH]; intros d e sh Hd Hb He; simpl; [exact Hb|].
  destruct x.
  - destruct (Nat.ltb 2 e) eqn:E; [now apply IH|]. apply Nat.ltb_ge in E. specialize (He E).
    destruct (dhas d p) eqn:Eh.
    + apply IH.
      * intros q v Hq. rewrite nsl_map_replace. destruct (eqs q p) eqn:Eq.
        -- apply eqs_spec in Eq. subst q. rewrite dget_dset_same in Hq. inversion Hq; subst.
           unfold dhas in Eh. destruct (dget d p) as [old|] eqn:Eo; [|discriminate].
           destruct (Hd p old Eo) as (r & H1 & H2 & H3). exists (repl p v r). split; [now apply in_map|].
           unfold repl. rewrite H2, eqs_refl. simpl. auto.
        -- apply eqs_false in Eq. rewrite dget_dset_other in Hq by exact Eq.
           destruct (Hd q v Hq) as (r & H1 & H2 & H3). exists r. split.
           ++ replace r with (repl p u r); [now apply in_map|]. unfold repl.
              destruct (eqs (prefix r) p) eqn:E2; [apply eqs_spec in E2; congruence|reflexivity].
           ++ auto.
      * intros k v n Hin. rewrite items_map_replace, He in Hin. destruct Hin.
      * intros _. now rewrite items_map_replace.
    + apply IH.
      * intros q v Hq. rewrite nsl_app. simpl. destruct (eqs q p) eqn:Eq.
        -- apply eqs_spec in Eq. subst q. rewrite dget_dset_same in Hq. inversion Hq; subst.
           exists (mk_text p v). split; [apply in_or_app; right; now left|]. destruct p; auto.
        -- apply eqs_false in Eq. rewrite dget_dset_other in Hq by exact Eq.
           destruct (Hd q v Hq) as (r & H1 & H2). exists r. split; [apply in_or_app; now left|exact H2].
      * intros k v n Hin. rewrite items_of_app, He in Hin. destruct Hin.
      * intros _. rewrite items_of_app, He. reflexivity.
  - destruct (resolve_all d l) as [r|] eqn:R; apply IH; try assumption; try (intros; lia).
    + now apply dictok_snoc_other.
    + apply (bound_snoc_body sh d); auto. simpl. intros it Hin. now apply (resolve_all_In d l r).
  - apply IH; try (intros; lia).
    + now apply dictok_snoc_other.
    + apply (bound_snoc_body sh d); auto. simpl. apply resolve_rules_In.
  - destruct (Nat.ltb 0 e) eqn:E; [now apply IH|]. apply IH.
    + now apply dictok_snoc_other.
    + apply (bound_snoc_body sh d); auto. simpl. tauto.
    + intros _. rewrite items_of_app, He by (apply Nat.ltb_ge in E; lia). reflexivity.
  - apply IH.
    + now apply dictok_snoc_other.
    + apply (bound_snoc_body sh d); auto. simpl. tauto.
    + intros H. assert (H' : e <= 2) by (destruct e; lia). rewrite items_of_app, (He H'). reflexivity.
Qed.

Lemma clean_bound sh : Bound sh -> Bound (fst (clean sh)).
Proof.
  intros Hb k u n Hin Hu. rewrite items_of_clean in Hin. unfold clean. apply clean_loop_count; simpl.
  - now apply (pair_used k u n).
  - now apply (Hb k u n).
Qed.

Lemma parse_bound l : Bound (fst (parse l)).
Proof.
  unfold parse. apply clean_bound. apply parse_loop_bound.
  - intros p u H. discriminate.
  - intros k u n H. destruct H.
  - reflexivity.
Qed.

(* the statement for histories that mix both kinds of operation *)
Lemma used_uri_declared_mixed stmts ops k u n :
  In (IPair k (UStr u) n) (items_of (mrun ops (fst (parse stmts)))) -> u <> [] ->
  exists r, In r (nsl (mrun ops (fst (parse stmts)))) /\ uri r = u.
Proof. intros H Hu. apply cnt_In. now apply (mrun_bound ops _ (parse_bound stmts) k u n). Qed.

Lemma delete_protected_bound sh i r k n :
  nth_error sh i = Some (RNs r) -> In (IPair k (UStr (uri r)) n) (items_of sh) -> cnt (uri r) sh = 1 ->
  mstep (MN (ODelRule i)) sh = (sh, Raise ENoMod).
Proof.
  intros Hn Hin Hc. simpl. apply (delete_protected_step sh i r Hn); [now apply (pair_used k _ n)|exact Hc].
Qed.

Lemma selector_op_spec o sh :
  nsl (fst (sstep o sh)) = nsl sh /\
  forall it, In it (items_of (fst (sstep o sh))) -> In it (items_of sh) \/ exists pi, resolve (view sh) pi = Some it.
Proof. split; [apply sstep_nsl|intros it; apply sstep_items]. Qed.

(* ================================================================== re-parsing the serialised sheet (positive part) *)
(* an item can be spelt under the mapping v: its URI has a usable prefix *)
Definition default_is (v : dict) (u : str) : bool :=
  match dget v [] with Some du => eqs du u | None => false end.
Definition spellable_b (v : dict) (it : item) : bool :=
  match it with
  | IPair k u _ =>
      let attr := kind_eqb k KAttr in
      match u with
      | UAny => true
      | UNone => negb attr && negb (dhas v [])
      | UStr [] => negb attr
      | UStr u => if attr
                  then negb (default_is v u) &&        (* an attribute needs a NON-default prefix *)
                       match prefix_for v u with Some (_ :: _) => true | _ => false end
                  else mems u (dvals v)                (* default namespace or any prefix *)
      end
  | IAttr _ | IOther => true
  end.
Definition Spellable (sh : sheet) : Prop := forallb (spellable_b (view sh)) (items_of sh) = true.
Definition UrisNonEmpty (sh : sheet) : Prop := forallb (fun r => negb (eqs (uri r) [])) (nsl sh) = true.

Lemma prefix_for_In v u p : prefix_for v u = Some p -> In (p, u) v.
Proof.
  induction v as [|[p' u'] t IH]; simpl; [discriminate|]. destruct (eqs u' u) eqn:E.
  - apply eqs_spec in E. intros H; inversion H; subst. now left.
  - intros H. right. auto.
Qed.
Lemma prefix_for_some v u : In u (dvals v) -> exists p, prefix_for v u = Some p.
Proof.
  induction v as [|[p' u'] t IH]; simpl; [tauto|]. destruct (eqs u' u) eqn:E; [eauto|].
  intros [H|H]; [apply eqs_false in E; contradiction|auto].
Qed.
Lemma prefix_for_none v u : ~ In u (dvals v) -> prefix_for v u = None.
Proof.
  induction v as [|[p' u'] t IH]; simpl; [reflexivity|]. intros H. destruct (eqs u' u) eqn:E.
  - apply eqs_spec in E. tauto.
  - apply IH. tauto.
Qed.

(* the serialiser's choice, case by case *)
Lemma form_of_default v u : default_is v u = true -> form_of v (UStr u) = FNone.
Proof.
  unfold default_is, form_of. destruct (dget v []) as [[|c0 du]|]; try discriminate; intros H; cbn in *; rewrite H; reflexivity.
Qed.
Lemma form_of_prefixed v u : default_is v u = false -> form_of v (UStr u) =
  match prefix_for v u with Some [] => FEmpty | Some p => FPfx p | None => FEmpty end.
Proof.
  unfold default_is, form_of. destruct (dget v []) as [[|c0 du]|]; intros H; cbn in *; rewrite ?H; reflexivity.
Qed.
Lemma form_of_none v : dget v [] = None -> form_of v UNone = FNone.
Proof. unfold form_of. intros ->. reflexivity. Qed.
Lemma form_of_any v : form_of v UAny = FStar.
Proof. unfold form_of. destruct (dget v []) as [[|c du]|]; reflexivity. Qed.

Lemma resolve_ser_item v d it :
  NoDup (map fst v) -> ~ In [] (dvals v) -> (forall p, dget d p = dget v p) ->
  spellable_b v it = true -> resolve d (ser_item v it) = Some it.
Proof.
  intros Hk He Hd Hs. destruct it as [k u n|n|]; [|reflexivity|reflexivity].
  unfold ser_item. destruct u as [| |u].
  - (* bound to no declaration: only spellable without a default namespace *)
    simpl in Hs. apply andb_true_iff in Hs as [Hka Hdef]. unfold dhas in Hdef.
    destruct (dget v []) eqn:E; [discriminate|]. rewrite (form_of_none v E).
    destruct k; simpl in *; try discriminate; rewrite Hd, E; reflexivity.
  - rewrite form_of_any. destruct k; reflexivity.
  - destruct u as [|c u].
    + (* '' = no namespace *)
      simpl in Hs. assert (E0 : default_is v [] = false).
      { unfold default_is. destruct (dget v []) as [du|] eqn:E; [|reflexivity]. apply eqs_false. intros ->.
        apply He. now apply dget_In_vals in E. }
      rewrite (form_of_prefixed v [] E0), (prefix_for_none v [] He).
      destruct k; simpl in *; try discriminate; reflexivity.
    + set (u0 := c :: u) in *. destruct (default_is v u0) eqn:Edef.
      * (* the default namespace *)
        rewrite (form_of_default v u0 Edef). unfold default_is in Edef.
        destruct (dget v []) as [du|] eqn:E; [|discriminate]. apply eqs_spec in Edef. subst du.
        destruct k; simpl in Hs; try (simpl; rewrite Hd, E; reflexivity).
        unfold default_is in Hs. rewrite E in Hs. unfold u0 in Hs. rewrite eqs_refl in Hs. discriminate.
      * rewrite (form_of_prefixed v u0 Edef).
        assert (Hin : In u0 (dvals v)).
        { destruct k; simpl in Hs; unfold u0 in *; try (now apply mems_In in Hs).
          apply andb_true_iff in Hs as [_ Hs]. destruct (prefix_for v (c :: u)) as [p|] eqn:Ep; [|discriminate].
          apply prefix_for_In in Ep. apply (in_map snd) in Ep. exact Ep. }
        destruct (prefix_for_some v u0 Hin) as (p & Ep). rewrite Ep.
        assert (Eg : dget d p = Some u0).
        { rewrite Hd. apply dget_In_nodup; [exact Hk|]. now apply prefix_for_In. }
        destruct p as [|c1 p].
        -- exfalso. rewrite Hd in Eg. unfold default_is in Edef. rewrite Eg in Edef. unfold u0 in Edef.
           rewrite eqs_refl in Edef. discriminate.
        -- destruct k; simpl; rewrite Eg; reflexivity.
Qed.

(* the dictionary a re-parse accumulates from the @namespace rules of a sheet *)
Fixpoint dfold (d : dict) (sh : sheet) : dict :=
  match sh with
  | [] => d
  | RNs r :: t => dfold (dset d (prefix r) (uri r)) t
  | _ :: t => dfold d t
  end.
Lemma dfold_no_ns d sh : existsb is_ns sh = false -> dfold d sh = d.
Proof.
  revert d; induction sh as [|x t IH]; intros d H; simpl; [reflexivity|].
  simpl in H. apply orb_false_iff in H as [H1 H2]. destruct x; simpl in *; try discriminate; now apply IH.
Qed.

Section Reparse.
Variable v : dict.
Hypothesis Hk : NoDup (map fst v).
Hypothesis He : ~ In [] (dvals v).

Lemma resolve_all_ser d its :
  (forall p, dget d p = dget v p) -> forallb (spellable_b v) its = true ->
  resolve_all d (map (ser_item v) its) = Some its.
Proof.
  intros Hd. induction its as [|x t IH]; simpl; [reflexivity|]. intros H. apply andb_true_iff in H as [H1 H2].
  rewrite (resolve_ser_item v d x Hk He Hd H1), (IH H2). reflexivity.
Qed.
Lemma resolve_rules_ser d rs :
  (forall p, dget d p = dget v p) -> forallb (spellable_b v) (concat rs) = true ->
  resolve_rules d (map (map (ser_item v)) rs) = rs.
Proof.
  intros Hd. induction rs as [|x t IH]; simpl; [reflexivity|]. rewrite forallb_app. intros H.
  apply andb_true_iff in H as [H1 H2]. rewrite (resolve_all_ser d x Hd H1), (IH H2). reflexivity.
Qed.

Lemma reparse_loop : forall sh d e acc,
  ordered sh = true ->
  (e <= 2 \/ existsb is_ns sh = false) ->
  AllGood sh ->
  (forall p, dget (dfold d sh) p = dget v p) ->
  forallb (spellable_b v) (items_of sh) = true ->
  items_of (parse_loop d e acc (flat_map (ser_rule v) sh)) = items_of acc ++ items_of sh.
Proof.
  induction sh as [|x t IH]; intros d e acc Ho H2 Hg H4 Hs.
  - simpl. unfold items_of. simpl. now rewrite app_nil_r.
  - inversion Hg as [|? ? Hgx Hgt]; subst.
    assert (Hst : forallb (spellable_b v) (rule_items x) = true /\ forallb (spellable_b v) (items_of t) = true).
    { unfold items_of in Hs. simpl in Hs. rewrite forallb_app in Hs. now apply andb_true_iff in Hs. }
    destruct Hst as [Hsx Hst].
    assert (Eit : forall a, items_of a ++ items_of (x :: t) = (items_of a ++ rule_items x) ++ items_of t).
    { intros a. unfold items_of. simpl. now rewrite app_assoc. }
    destruct x as [r|its|rs| |].
    + (* @namespace rule *)
      simpl in Hgx. destruct (good_ser r Hgx) as [Eser _].
      assert (E2 : e <= 2).
      { destruct H2 as [H2|H2]; [exact H2|]. simpl in H2. discriminate. }
      cbn [flat_map ser_rule]. rewrite Eser. cbn [app parse_loop].
      assert (El : Nat.ltb 2 e = false) by (apply Nat.ltb_ge; exact E2). rewrite El.
      rewrite Eit. cbn [rule_items]. rewrite app_nil_r. simpl in Ho. simpl in H4.
      destruct (dhas d (prefix r)).
      * rewrite (IH (dset d (prefix r) (uri r)) 2 (map (replace_uri (prefix r) (uri r)) acc));
          [now rewrite items_map_replace|exact Ho|left; lia|exact Hgt|exact H4|exact Hst].
      * rewrite (IH (dset d (prefix r) (uri r)) 2 (acc ++ [RNs (mk_text (prefix r) (uri r))]));
          [|exact Ho|left; lia|exact Hgt|exact H4|exact Hst].
        rewrite items_of_app. unfold items_of at 2. simpl. now rewrite app_nil_r.
    + (* rule set *)
      simpl in Ho. apply negb_true_iff in Ho.
      assert (Hd : forall p, dget d p = dget v p).
      { intros p. rewrite <- H4. simpl. now rewrite (dfold_no_ns d t Ho). }
      cbn [flat_map ser_rule app parse_loop]. cbn [rule_items] in Hsx. rewrite (resolve_all_ser d its Hd Hsx).
      rewrite (IH d 3 (acc ++ [RStyle its]));
        [|now apply no_ns_ordered|right; exact Ho|exact Hgt|intros p; rewrite (dfold_no_ns d t Ho); apply Hd|exact Hst].
      rewrite Eit. rewrite items_of_app. unfold items_of at 2. simpl. now rewrite app_nil_r.
    + (* @media *)
      simpl in Ho. apply negb_true_iff in Ho.
      assert (Hd : forall p, dget d p = dget v p).
      { intros p. rewrite <- H4. simpl. now rewrite (dfold_no_ns d t Ho). }
      destruct rs as [|r0 rs'].
      * cbn [flat_map ser_rule app]. rewrite Eit. cbn [rule_items concat]. rewrite app_nil_r.
        apply IH; [now apply no_ns_ordered|right; exact Ho|exact Hgt|intros p; rewrite (dfold_no_ns d t Ho); apply Hd|exact Hst].
      * cbn [flat_map ser_rule app parse_loop]. cbn [rule_items] in Hsx.
        rewrite (resolve_rules_ser d (r0 :: rs') Hd Hsx).
        rewrite (IH d 3 (acc ++ [RMedia (r0 :: rs')]));
          [|now apply no_ns_ordered|right; exact Ho|exact Hgt|intros p; rewrite (dfold_no_ns d t Ho); apply Hd|exact Hst].
        rewrite Eit. rewrite items_of_app. unfold items_of at 2. simpl. now rewrite !app_nil_r.
    + (* @charset *)
      simpl in Ho. simpl in H4. cbn [flat_map ser_rule app parse_loop]. rewrite Eit. cbn [rule_items]. rewrite app_nil_r.
      assert (H2' : forall e', (e <= 2 -> e' <= 2) -> e' <= 2 \/ existsb is_ns t = false).
      { intros e' Hle. destruct H2 as [H2|H2]; [left; auto|right; simpl in H2; exact H2]. }
      destruct (Nat.ltb 0 e) eqn:E0.
      * apply IH; [exact Ho|apply H2'; auto|exact Hgt|exact H4|exact Hst].
      * rewrite (IH d 1 (acc ++ [RCharset])); [|exact Ho|apply H2'; intros; lia|exact Hgt|exact H4|exact Hst].
        rewrite items_of_app. unfold items_of at 2. simpl. now rewrite app_nil_r.
    + (* comment *)
      simpl in Ho. simpl in H4. cbn [flat_map ser_rule app parse_loop]. rewrite Eit. cbn [rule_items]. rewrite app_nil_r.
      rewrite (IH d (Nat.max 1 e) (acc ++ [RComment])); [|exact Ho| |exact Hgt|exact H4|exact Hst].
      * rewrite items_of_app. unfold items_of at 2. simpl. now rewrite app_nil_r.
      * destruct H2 as [H2|H2]; [left; destruct e; simpl; lia|right; simpl in H2; exact H2].
Qed.
End Reparse.

Lemma dfold_fresh sh : forall d,
  NoDup (map fst d ++ map prefix (nsl sh)) -> dfold d sh = d ++ ns_pairs sh.
Proof.
  unfold ns_pairs. induction sh as [|x t IH]; intros d H; simpl; [now rewrite app_nil_r|].
  destruct x; simpl; try (now apply IH).
  simpl in H. assert (Hf : ~ In (prefix r) (map fst d)).
  { apply NoDup_remove_2 in H. intros Hin. apply H. apply in_or_app. now left. }
  rewrite (dset_fresh d _ _ Hf). rewrite IH.
  - now rewrite <- app_assoc.
  - rewrite map_app. simpl. rewrite <- app_assoc. simpl.
    apply NoDup_remove_1 in H as H'. 
    replace (map fst d ++ prefix r :: map prefix (nsl t)) with (map fst d ++ [prefix r] ++ map prefix (nsl t)) by reflexivity.
    apply NoDup_remove_2 in H as H2.
    clear - H' H2 H. revert H. generalize (map prefix (nsl t)) (map fst d) (prefix r). clear.
    intros l2 l1 a H. exact H.
Qed.

Lemma dget_same_elements (l1 l2 : dict) k :
  NoDup (map fst l1) -> NoDup (map fst l2) -> (forall x, In x l1 <-> In x l2) -> dget l1 k = dget l2 k.
Proof.
  intros N1 N2 Hx. destruct (dget l1 k) as [a|] eqn:E1.
  - apply (dget_In_nodup l1 k a N1) in E1. apply Hx in E1. symmetry. now apply dget_In_nodup.
  - destruct (dget l2 k) as [b|] eqn:E2; [|reflexivity].
    apply (dget_In_nodup l2 k b N2) in E2. apply Hx in E2. apply (dget_In_nodup l1 k b N1) in E2. congruence.
Qed.

(* THE positive statement: a clean sheet whose items are all spellable re-parses to the same items *)
Lemma reparse_items sh :
  Clean sh -> AllGood sh -> ordered sh = true -> UrisNonEmpty sh -> Spellable sh ->
  items_of (reparse sh) = items_of sh /\ pairs (reparse sh) = pairs sh.
Proof.
  intros Hc Hg Ho Hu Hs.
  assert (E : items_of (reparse sh) = items_of sh).
  { unfold reparse, parse, ser. rewrite items_of_clean.
    assert (Ev := view_clean sh Hc). destruct Hc as [Hp Hur].
    assert (Nk : NoDup (map fst (rev (ns_pairs sh)))).
    { rewrite map_rev. unfold ns_pairs. rewrite map_map. simpl. now apply NoDup_rev. }
    rewrite (reparse_loop (view sh)); try assumption.
    - reflexivity.
    - now rewrite Ev.
    - rewrite Ev. unfold dvals. rewrite map_rev, <- in_rev. unfold ns_pairs. rewrite map_map. simpl.
      intros Hin. apply in_map_iff in Hin as (r & Hr & Hin). unfold UrisNonEmpty in Hu.
      rewrite forallb_forall in Hu. specialize (Hu r Hin). rewrite Hr, eqs_refl in Hu. discriminate.
    - left. lia.
    - intros p. rewrite dfold_fresh by (simpl; exact Hp). simpl. rewrite Ev.
      apply dget_same_elements.
      + unfold ns_pairs. rewrite map_map. simpl. exact Hp.
      + exact Nk.
      + intros x. apply in_rev. }
  split; [exact E|]. unfold pairs. now rewrite E.
Qed.

Lemma reparse_items_reachable stmts ops :
  let sh := run ops (fst (parse stmts)) in
  Clean sh -> UrisNonEmpty sh -> Spellable sh ->
  items_of (reparse sh) = items_of sh /\ pairs (reparse sh) = pairs sh.
Proof.
  intros sh Hc Hu Hs. apply reparse_items; auto.
  - apply run_allgood, parse_allgood.
  - apply order_kept.
Qed.

(* ================================================================== a rejected operation leaves the sheet unchanged *)
Lemma insert_rejected r idx io sh e : snd (insert_ns r idx io sh) = Raise e -> fst (insert_ns r idx io sh) = sh.
Proof.
  unfold insert_ns. destruct (place_ns idx io sh) as [i|]; [|reflexivity].
  destruct (same_binding (view sh) r); [reflexivity|].
  destruct (clean (insert_at i (RNs r) sh)) as [sh' oc]. destruct oc; simpl; [discriminate|reflexivity|discriminate].
Qed.
Lemma delete_rejected i sh e : snd (delete_rule i sh) = Raise e -> fst (delete_rule i sh) = sh.
Proof.
  unfold delete_rule. destruct (nth_error sh i) as [[r| | | |]|]; simpl; try discriminate; try reflexivity.
  destruct (can_delete r sh); simpl; [discriminate|reflexivity].
Qed.
Lemma step_rejected o sh e : snd (step o sh) = Raise e -> fst (step o sh) = sh.
Proof.
  destruct o; simpl.
  - unfold setitem. destruct (find_last p (nsl sh)) as [k|].
    + destruct (nth_error (nsl sh) k); [|reflexivity].
      destruct (dhas (view sh) p && negb (eqs (uri n) u)); [reflexivity|].
      destruct (mems u (dvals (view sh))); simpl; discriminate.
    + destruct u; [reflexivity|apply insert_rejected].
  - unfold delitem. destruct (find_last p (nsl sh)) as [k|]; [|reflexivity].
    destruct (ns_abs k sh); [apply delete_rejected|reflexivity].
  - apply insert_rejected.
  - apply insert_rejected.
  - unfold insert_text. destruct (Nat.ltb _ _); [reflexivity|]. destruct (dhas (view sh) p); [reflexivity|apply insert_rejected].
  - unfold insert_text. destruct (Nat.ltb _ _); [reflexivity|]. destruct (dhas (view sh) p); [reflexivity|apply insert_rejected].
  - destruct (nth_error sh i) as [[r| | | |]|]; try (simpl; discriminate). apply delete_rejected.
Qed.
Lemma sstep_rejected o sh e : snd (sstep o sh) = Raise e -> fst (sstep o sh) = sh.
Proof.
  destruct o; simpl.
  - destruct (get_style a sh) as [its|]; [|reflexivity]. destruct (Nat.ltb i (length its)); [|reflexivity].
    destruct (resolve (view sh) pi); [simpl; discriminate|reflexivity].
  - destruct (get_style a sh); [|reflexivity]. destruct (resolve_all (view sh) l); [simpl; discriminate|reflexivity].
  - destruct (get_style a sh); [|reflexivity]. destruct (resolve (view sh) pi); [simpl; discriminate|reflexivity].
  - destruct (get_style a sh) as [its|]; [|reflexivity].
    destruct (Nat.ltb i (length its) && Nat.ltb 1 (length its)); [simpl; discriminate|reflexivity].
  - destruct idx as [i|].
    + destruct (Nat.ltb (length sh) i); [reflexivity|]. destruct (resolve_all (view sh) l); [|reflexivity].
      destruct (existsb blocks_body (skipn i sh)); [reflexivity|simpl; discriminate].
    + destruct (resolve_all (view sh) l); [simpl; discriminate|reflexivity].
  - destruct (nth_error sh r) as [[| | | |]|]; try reflexivity.
    destruct (Nat.ltb (length rs) _); [reflexivity|]. destruct (resolve_all (view sh) l); [simpl; discriminate|reflexivity].
  - destruct a as [r|r j].
    + destruct (nth_error sh r) as [[| | | |]|]; try reflexivity. simpl. discriminate.
    + destruct (nth_error sh r) as [[| | | |]|]; try reflexivity. destruct (Nat.ltb j (length rs)); [simpl; discriminate|reflexivity].
Qed.
Lemma mstep_rejected o sh e : snd (mstep o sh) = Raise e -> fst (mstep o sh) = sh.
Proof. destruct o; simpl; [apply step_rejected|apply sstep_rejected]. Qed.
