(* NamespacesFacts.v -- proofs about the namespace model (C15) *)
From CssV Require Import Base Namespaces.

(* ------------------------------------------------------------------ small list facts *)
Lemma mems_In x l : mems x l = true <-> In x l.
Proof.
  induction l as [|y t IH]; simpl; [split; [discriminate|tauto]|].
  rewrite orb_true_iff, eqs_spec, IH. tauto.
Qed.

Lemma eqs_false a b : eqs a b = false <-> a <> b.
Proof.
  split; intros H.
  - intros E. apply eqs_spec in E. congruence.
  - destruct (eqs a b) eqn:E; [apply eqs_spec in E; contradiction|reflexivity].
Qed.

Lemma items_of_app a b : items_of (a ++ b) = items_of a ++ items_of b.
Proof. unfold items_of. apply flat_map_app. Qed.

Lemma nsl_app a b : nsl (a ++ b) = nsl a ++ nsl b.
Proof. induction a as [|r a IH]; simpl; [reflexivity|]. destruct r; simpl; rewrite IH; reflexivity. Qed.

Lemma existsb_app' {A} (f : A -> bool) a b : existsb f (a ++ b) = existsb f a || existsb f b.
Proof. apply existsb_app. Qed.

(* ------------------------------------------------------------------ A. prefix resolution *)
Lemma undeclared_rejected d k p n its :
  In (PSel k (FPfx p) n) its -> dget d p = None -> resolve_all d its = None.
Proof.
  induction its as [|x t IH]; simpl; [tauto|]. intros [->|Hin] Hd.
  - simpl. rewrite Hd. destruct k; reflexivity.
  - rewrite (IH Hin Hd). destruct (resolve d x); reflexivity.
Qed.

Definition default_of (d : dict) : nsuri := match dget d [] with Some u => UStr u | None => UNone end.

(* what the property demands of the stored item for a selector written with the given prefix form *)
Definition binds (d : dict) (pi : pitem) (it : item) : Prop :=
  match pi with
  | POther => it = IOther
  | PSel k (FPfx p) n => exists u, dget d p = Some u /\ it = IPair k (UStr u) n
  | PSel k FStar n => it = IPair k UAny n
  | PSel KAttr FNone n | PSel KAttr FEmpty n => it = IAttr n
  | PSel k FNone n => it = IPair k (default_of d) n
  | PSel k FEmpty n => it = IPair k (UStr []) n
  end.

Lemma resolve_binds d pi it : resolve d pi = Some it -> binds d pi it.
Proof.
  destruct pi as [k f n|]; simpl; [|congruence].
  destruct k, f; simpl; unfold default_of; try (intros H; inversion H; reflexivity);
    destruct (dget d p) eqn:E; try discriminate; intros H; inversion H; eauto.
Qed.

Lemma resolve_all_binds d its r : resolve_all d its = Some r -> Forall2 (binds d) its r.
Proof.
  revert r; induction its as [|x t IH]; simpl; intros r H.
  - inversion H. constructor.
  - destruct (resolve d x) eqn:E1; [|discriminate]. destruct (resolve_all d t) eqn:E2; [|discriminate].
    inversion H; subst. constructor; [now apply resolve_binds|now apply IH].
Qed.

(* the dictionary in force while the rule sets are parsed: later declarations of a prefix replace earlier ones *)
Lemma dget_dset_same d k v : dget (dset d k v) k = Some v.
Proof.
  induction d as [|[k' v'] t IH]; simpl.
  - now rewrite eqs_refl.
  - destruct (eqs k' k) eqn:E; simpl; rewrite E; [reflexivity|exact IH].
Qed.
Lemma dget_dset_other d k v k2 : k2 <> k -> dget (dset d k v) k2 = dget d k2.
Proof.
  intros Hne. induction d as [|[k' v'] t IH]; simpl.
  - destruct (eqs k k2) eqn:E; [apply eqs_spec in E; congruence|reflexivity].
  - destruct (eqs k' k) eqn:E; simpl.
    + apply eqs_spec in E. subst k'. destruct (eqs k k2) eqn:E2; [apply eqs_spec in E2; congruence|reflexivity].
    + destruct (eqs k' k2); [reflexivity|exact IH].
Qed.

(* ------------------------------------------------------------------ B. frame: namespace operations never touch a selector *)
Lemma items_of_insert_ns i r sh : items_of (insert_at i (RNs r) sh) = items_of sh.
Proof.
  revert sh; induction i as [|i IH]; intros sh; [reflexivity|].
  destruct sh as [|y t]; [reflexivity|]. simpl. unfold items_of in *. simpl. now rewrite IH.
Qed.

Lemma items_of_remove i sh x :
  nth_error sh i = Some x -> rule_items x = [] -> items_of (remove_at i sh) = items_of sh.
Proof.
  revert i; induction sh as [|y t IH]; intros [|i] H Hx; simpl in *; try discriminate.
  - inversion H; subst. unfold items_of. simpl. now rewrite Hx.
  - unfold items_of in *. simpl. now rewrite (IH i H Hx).
Qed.

Lemma items_of_upd k f sh : items_of (upd_ns k f sh) = items_of sh.
Proof.
  revert k; induction sh as [|y t IH]; intros k; [reflexivity|].
  destruct y; simpl; try (unfold items_of in *; simpl; now rewrite IH).
  destruct k; [reflexivity|]. unfold items_of in *. simpl. now rewrite IH.
Qed.

Lemma items_of_clean_loop v rest : forall kept,
  items_of (fst (clean_loop v kept rest)) = items_of (kept ++ rest).
Proof.
  induction rest as [|x t IH]; intros kept; simpl; [now rewrite app_nil_r|].
  destruct x; try (rewrite IH, <- app_assoc; reflexivity).
  destruct (pair_in (prefix r) (uri r) v); [rewrite IH, <- app_assoc; reflexivity|].
  destruct (can_delete r (kept ++ RNs r :: t)); simpl; [|reflexivity].
  rewrite IH. rewrite !items_of_app. reflexivity.
Qed.

Lemma items_of_clean sh : items_of (fst (clean sh)) = items_of sh.
Proof. unfold clean. now rewrite items_of_clean_loop. Qed.

Lemma items_of_insert r idx io sh : items_of (fst (insert_ns r idx io sh)) = items_of sh.
Proof.
  unfold insert_ns. destruct (place_ns idx io sh); [|reflexivity].
  destruct (same_binding (view sh) r); [reflexivity|].
  now rewrite items_of_clean, items_of_insert_ns.
Qed.

Lemma items_of_delete_ns i sh r :
  nth_error sh i = Some (RNs r) -> items_of (fst (delete_rule i sh)) = items_of sh.
Proof.
  intros H. unfold delete_rule. rewrite H. destruct (can_delete r sh); [|reflexivity].
  simpl. now apply (items_of_remove i sh (RNs r)).
Qed.

(* order invariant: once a rule set or @media block has been seen there is no @namespace rule any more *)
Fixpoint ordered (sh : sheet) : bool :=
  match sh with
  | [] => true
  | r :: t => if is_body r then negb (existsb is_ns t) else ordered t
  end.

Lemma no_ns_ordered sh : existsb is_ns sh = false -> ordered sh = true.
Proof.
  induction sh as [|r t IH]; simpl; [reflexivity|]. intros H. apply orb_false_iff in H as [H1 H2].
  destruct (is_body r); [now rewrite H2|now apply IH].
Qed.

Lemma no_ns_nsl sh : existsb is_ns sh = false -> nsl sh = [].
Proof.
  induction sh as [|r t IH]; simpl; [reflexivity|]. intros H. apply orb_false_iff in H as [H1 H2].
  destruct r; simpl in *; try discriminate; now apply IH.
Qed.

Lemma existsb_remove {A} (f : A -> bool) i l : existsb f l = false -> existsb f (remove_at i l) = false.
Proof.
  revert i; induction l as [|x t IH]; intros [|i]; simpl; auto; intros H; apply orb_false_iff in H as [H1 H2]; auto.
  rewrite H1. simpl. now apply IH.
Qed.

Lemma ordered_remove i sh : ordered sh = true -> ordered (remove_at i sh) = true.
Proof.
  revert i; induction sh as [|r t IH]; intros [|i] H; simpl in *; auto.
  - destruct (is_body r); [|exact H]. apply no_ns_ordered. now apply negb_true_iff in H.
  - destruct (is_body r); [|now apply IH]. apply negb_true_iff in H. apply negb_true_iff. now apply existsb_remove.
Qed.

Lemma ordered_remove_mid a x b : ordered (a ++ x :: b) = true -> ordered (a ++ b) = true.
Proof.
  induction a as [|r a IH]; simpl; intros H.
  - destruct (is_body x); [|exact H]. apply negb_true_iff in H. now apply no_ns_ordered.
  - destruct (is_body r); [|now apply IH]. apply negb_true_iff in H. apply negb_true_iff.
    rewrite existsb_app in *. simpl in H. apply orb_false_iff in H as [H1 H2]. apply orb_false_iff in H2 as [_ H2].
    now rewrite H1, H2.
Qed.

Lemma ordered_insert i r sh :
  existsb is_body (firstn i sh) = false -> ordered sh = true -> ordered (insert_at i (RNs r) sh) = true.
Proof.
  revert sh; induction i as [|i IH]; intros sh Hb Ho; simpl; [exact Ho|].
  destruct sh as [|y t]; [reflexivity|]. simpl in *. apply orb_false_iff in Hb as [Hy Hb].
  rewrite Hy in *. now apply IH.
Qed.

Lemma ordered_upd k f sh : ordered (upd_ns k f sh) = ordered sh.
Proof.
  assert (E : forall k sh, existsb is_ns (upd_ns k f sh) = existsb is_ns sh).
  { clear. intros k sh; revert k; induction sh as [|y t IH]; intros k; [reflexivity|].
    destruct y; simpl; try now rewrite IH. destruct k; simpl; [reflexivity|reflexivity]. }
  revert k; induction sh as [|y t IH]; intros k; [reflexivity|].
  destruct y; simpl; try (now rewrite ?E, ?IH).
  destruct k; simpl; [reflexivity|apply IH].
Qed.

Lemma ordered_clean_loop v rest : forall kept,
  ordered (kept ++ rest) = true -> ordered (fst (clean_loop v kept rest)) = true.
Proof.
  induction rest as [|x t IH]; intros kept H; simpl; [now rewrite app_nil_r in H|].
  destruct x; try (apply IH; rewrite <- app_assoc; exact H).
  destruct (pair_in (prefix r) (uri r) v); [apply IH; rewrite <- app_assoc; exact H|].
  destruct (can_delete r (kept ++ RNs r :: t)); simpl; [|exact H].
  apply IH. now apply ordered_remove_mid in H.
Qed.

(* the prefix of the sheet that precedes (and includes) the last @namespace rule holds no rule set *)
Lemma after_last_ns_spec sh : forall i acc j,
  after_last_ns sh i acc = Some j ->
  (acc = Some j) \/ (exists a b r, sh = a ++ RNs r :: b /\ j = i + S (length a)).
Proof.
  induction sh as [|x t IH]; intros i acc j H; simpl in H; [now left|].
  apply IH in H as [H|(a & b & r & -> & ->)].
  - destruct (is_ns x) eqn:E; [|now left]. inversion H; subst. right. destruct x; try discriminate.
    exists [], t, r. split; [reflexivity|simpl; lia].
  - right. exists (x :: a), b, r. split; [reflexivity|simpl; lia].
Qed.

Lemma ordered_prefix_nobody a r b : ordered (a ++ RNs r :: b) = true -> existsb is_body a = false.
Proof.
  induction a as [|x a IH]; simpl; [reflexivity|]. intros H.
  destruct (is_body x) eqn:E; [|now apply IH].
  apply negb_true_iff in H. rewrite existsb_app in H. simpl in H. apply orb_false_iff in H as [_ H]. discriminate.
Qed.

Lemma first_index_spec {A} (f : A -> bool) l : forall i j,
  first_index f l i = Some j -> exists k, j = i + k /\ existsb f (firstn k l) = false.
Proof.
  induction l as [|x t IH]; intros i j H; simpl in H; [discriminate|].
  destruct (f x) eqn:E.
  - inversion H; subst. exists 0. split; [lia|reflexivity].
  - apply IH in H as (k & -> & Hk). exists (S k). split; [lia|]. simpl. now rewrite E, Hk.
Qed.
Lemma first_index_none {A} (f : A -> bool) l : forall i, first_index f l i = None -> existsb f l = false.
Proof.
  induction l as [|x t IH]; intros i H; simpl in *; [reflexivity|].
  destruct (f x); [discriminate|]. simpl. now apply (IH (S i)).
Qed.
Lemma existsb_firstn_false {A} (f : A -> bool) k l : existsb f l = false -> existsb f (firstn k l) = false.
Proof.
  revert l; induction k as [|k IH]; intros [|x t] H; simpl in *; auto.
  apply orb_false_iff in H as [H1 H2]. now rewrite H1, IH.
Qed.
Lemma body_stops l : existsb stops_ns l = false -> existsb is_body l = false.
Proof.
  induction l as [|x t IH]; simpl; [reflexivity|]. intros H. apply orb_false_iff in H as [H1 H2].
  rewrite (IH H2). destruct x; simpl in *; try discriminate; reflexivity.
Qed.

Lemma firstn_snoc {A} (a : list A) x b : firstn (S (length a)) (a ++ x :: b) = a ++ [x].
Proof. induction a as [|y a IH]; simpl; [reflexivity|]. simpl in IH. now rewrite IH. Qed.

Lemma place_ns_nobody idx io sh i :
  ordered sh = true -> place_ns idx io sh = inl i -> existsb is_body (firstn i sh) = false.
Proof.
  intros Ho. unfold place_ns.
  destruct (Nat.ltb (length sh) (match idx with Some i0 => i0 | None => length sh end)); [discriminate|].
  destruct io.
  - destruct (after_last_ns sh 0 None) as [j|] eqn:E.
    + intros H; inversion H; subst. apply after_last_ns_spec in E as [E|(a & b & r & -> & ->)]; [discriminate|].
      replace (0 + S (length a)) with (S (length a)) by lia. rewrite firstn_snoc, existsb_app. simpl.
      now rewrite (ordered_prefix_nobody _ _ _ Ho).
    + destruct (first_index stops_ns sh 0) as [j|] eqn:E2.
      * intros H; inversion H; subst. apply first_index_spec in E2 as (k & -> & Hk). simpl. now apply body_stops.
      * intros H; inversion H; subst. apply first_index_none in E2. apply existsb_firstn_false. now apply body_stops.
  - destruct (existsb is_charset _); [discriminate|].
    destruct (existsb is_body (firstn _ sh)) eqn:E; [discriminate|]. intros H; inversion H; subst. exact E.
Qed.

Lemma ordered_insert_ns r idx io sh : ordered sh = true -> ordered (fst (insert_ns r idx io sh)) = true.
Proof.
  intros Ho. unfold insert_ns. destruct (place_ns idx io sh) as [i|] eqn:E; [|exact Ho].
  destruct (same_binding (view sh) r); [exact Ho|].
  unfold clean. apply ordered_clean_loop. simpl. apply ordered_insert; [|exact Ho].
  now apply (place_ns_nobody idx io).
Qed.

Lemma ordered_delete i sh : ordered sh = true -> ordered (fst (delete_rule i sh)) = true.
Proof.
  intros Ho. unfold delete_rule. destruct (nth_error sh i) as [[r| | | |]|]; simpl; try exact Ho;
    try (now apply ordered_remove).
  destruct (can_delete r sh); simpl; [now apply ordered_remove|exact Ho].
Qed.

Lemma find_last_from_lt p l : forall i acc k,
  find_last_from p l i acc = Some k -> (acc = Some k) \/ (i <= k < i + length l).
Proof.
  induction l as [|r t IH]; intros i acc k H; simpl in H; [now left|].
  apply IH in H as [H|H]; [|right; simpl; lia].
  destruct (eqs (prefix r) p); [inversion H; subst; right; simpl; lia|now left].
Qed.
Lemma find_last_lt p l k : find_last p l = Some k -> k < length l.
Proof. unfold find_last. intros H. apply find_last_from_lt in H as [H|H]; [discriminate|lia]. Qed.

(* in an ordered sheet the rule found at (index among @namespace rules) is never a rule set *)
Lemma ordered_nth_nobody sh : forall k x,
  ordered sh = true -> k < length (nsl sh) -> nth_error sh k = Some x -> rule_items x = [].
Proof.
  induction sh as [|r t IH]; intros k x Ho Hk Hn; [destruct k; discriminate|].
  simpl in Ho. destruct (is_body r) eqn:Eb.
  - apply negb_true_iff in Ho. apply no_ns_nsl in Ho. destruct r; simpl in *; try discriminate; rewrite Ho in Hk; simpl in Hk; lia.
  - destruct k as [|k]; simpl in Hn.
    + inversion Hn; subst. destruct x; simpl in *; try discriminate; reflexivity.
    + apply (IH k x Ho); [|exact Hn]. destruct r; simpl in *; lia.
Qed.

Lemma ns_abs_spec sh : forall k j, ns_abs k sh = Some j -> exists r, nth_error sh j = Some (RNs r).
Proof.
  induction sh as [|x t IH]; intros k j H; simpl in H; [discriminate|].
  destruct x; try (destruct (ns_abs k t) as [j'|] eqn:E; [|discriminate]; inversion H; subst; simpl; now apply (IH k)).
  destruct k as [|k]; [inversion H; subst; simpl; eauto|].
  destruct (ns_abs k t) as [j'|] eqn:E; [|discriminate]. inversion H; subst. simpl. now apply (IH k).
Qed.

(* no order hypothesis is needed any more: the rule deleted through the mapping is an @namespace rule *)
Lemma items_of_delitem p sh : items_of (fst (delitem p sh)) = items_of sh.
Proof.
  unfold delitem. destruct (find_last p (nsl sh)) as [k|]; [|reflexivity].
  destruct (ns_abs k sh) as [j|] eqn:E; [|reflexivity].
  apply ns_abs_spec in E as (r & Hr). now apply (items_of_delete_ns j sh r).
Qed.

Lemma items_of_setitem p u sh : items_of (fst (setitem p u sh)) = items_of sh.
Proof.
  unfold setitem. destruct (find_last p (nsl sh)) as [k|].
  - destruct (nth_error (nsl sh) k); [|reflexivity].
    destruct (dhas (view sh) p && negb (eqs (uri n) u)); [reflexivity|].
    destruct (mems u (dvals (view sh))); [apply items_of_upd|reflexivity].
  - destruct u; [reflexivity|apply items_of_insert].
Qed.

Lemma ordered_setitem p u sh : ordered sh = true -> ordered (fst (setitem p u sh)) = true.
Proof.
  intros Ho. unfold setitem. destruct (find_last p (nsl sh)) as [k|].
  - destruct (nth_error (nsl sh) k); [|exact Ho].
    destruct (dhas (view sh) p && negb (eqs (uri n) u)); [exact Ho|].
    destruct (mems u (dvals (view sh))); simpl; [now rewrite ordered_upd|exact Ho].
  - destruct u; [exact Ho|now apply ordered_insert_ns].
Qed.

Lemma step_frame o sh :
  ordered sh = true -> items_of (fst (step o sh)) = items_of sh /\ ordered (fst (step o sh)) = true.
Proof.
  intros Ho. destruct o; simpl.
  - split; [apply items_of_setitem|now apply ordered_setitem].
  - split; [apply items_of_delitem|]. unfold delitem. destruct (find_last p (nsl sh)) as [k|]; [|exact Ho].
    destruct (ns_abs k sh); [now apply ordered_delete|exact Ho].
  - split; [apply items_of_insert|now apply ordered_insert_ns].
  - split; [apply items_of_insert|now apply ordered_insert_ns].
  - unfold insert_text. destruct (Nat.ltb _ _); [now split|]. destruct (dhas (view sh) p); [now split|].
    split; [apply items_of_insert|now apply ordered_insert_ns].
  - unfold insert_text. destruct (Nat.ltb _ _); [now split|]. destruct (dhas (view sh) p); [now split|].
    split; [apply items_of_insert|now apply ordered_insert_ns].
  - destruct (nth_error sh i) as [[r| | | |]|] eqn:E; try now split.
    split; [now apply (items_of_delete_ns i sh r)|now apply ordered_delete].
Qed.

Lemma step_items o sh : items_of (fst (step o sh)) = items_of sh.
Proof.
  destruct o; simpl.
  - apply items_of_setitem.
  - apply items_of_delitem.
  - apply items_of_insert.
  - apply items_of_insert.
  - unfold insert_text. destruct (Nat.ltb _ _); [reflexivity|]. destruct (dhas (view sh) p); [reflexivity|apply items_of_insert].
  - unfold insert_text. destruct (Nat.ltb _ _); [reflexivity|]. destruct (dhas (view sh) p); [reflexivity|apply items_of_insert].
  - destruct (nth_error sh i) as [[r| | | |]|] eqn:E; try reflexivity. now apply (items_of_delete_ns i sh r).
Qed.
Lemma run_items ops : forall sh, items_of (run ops sh) = items_of sh.
Proof. induction ops as [|o t IH]; intros sh; simpl; [reflexivity|]. now rewrite IH, step_items. Qed.

Lemma run_frame ops : forall sh,
  ordered sh = true -> items_of (run ops sh) = items_of sh /\ ordered (run ops sh) = true.
Proof.
  induction ops as [|o t IH]; intros sh Ho; simpl; [now split|].
  destruct (step_frame o sh Ho) as [H1 H2]. destruct (IH _ H2) as [H3 H4]. split; [congruence|exact H4].
Qed.

(* ------------------------------------------------------------------ parsing yields an ordered sheet *)
Lemma ordered_snoc_other a x : ordered a = true -> is_ns x = false -> ordered (a ++ [x]) = true.
Proof.
  induction a as [|r a IH]; simpl; intros Ho Hx.
  - destruct (is_body x); reflexivity.
  - destruct (is_body r); [|now apply IH]. apply negb_true_iff in Ho. apply negb_true_iff.
    rewrite existsb_app. simpl. now rewrite Ho, Hx.
Qed.
Lemma ordered_snoc_ns a r : existsb is_body a = false -> ordered (a ++ [RNs r]) = true.
Proof.
  induction a as [|x a IH]; simpl; [reflexivity|]. intros H. apply orb_false_iff in H as [H1 H2].
  rewrite H1. now apply IH.
Qed.
Lemma replace_uri_kind p u x : is_body (replace_uri p u x) = is_body x /\ is_ns (replace_uri p u x) = is_ns x.
Proof. destruct x; simpl; auto. destruct (eqs (prefix r) p); auto. Qed.
Lemma map_replace_existsb p u sh :
  existsb is_body (map (replace_uri p u) sh) = existsb is_body sh /\
  existsb is_ns (map (replace_uri p u) sh) = existsb is_ns sh.
Proof.
  induction sh as [|x t [IH1 IH2]]; simpl; [auto|].
  destruct (replace_uri_kind p u x) as [E1 E2]. now rewrite E1, E2, IH1, IH2.
Qed.
Lemma map_replace_ordered p u sh : ordered (map (replace_uri p u) sh) = ordered sh.
Proof.
  induction sh as [|x t IH]; simpl; [reflexivity|].
  destruct (replace_uri_kind p u x) as [E1 _]. rewrite E1.
  destruct (map_replace_existsb p u t) as [_ E]. now rewrite E, IH.
Qed.

Lemma parse_loop_ordered l : forall d e sh,
  ordered sh = true -> (e <= 2 -> existsb is_body sh = false) ->
  ordered (parse_loop d e sh l) = true.
Proof.
  induction l as [|x t IH]; intros d e sh Ho Hb; simpl; [exact Ho|].
  destruct x.
  - destruct (Nat.ltb 2 e) eqn:E; [now apply IH|]. apply Nat.ltb_ge in E.
    destruct (dhas d p).
    + apply IH; [now rewrite map_replace_ordered|]. intros _.
      destruct (map_replace_existsb p u sh) as [E1 _]. rewrite E1. now apply Hb.
    + apply IH; [apply ordered_snoc_ns; now apply Hb|]. intros _. rewrite existsb_app. simpl. rewrite (Hb E). reflexivity.
  - destruct (resolve_all d l); apply IH; try exact Ho; try (intros; lia).
    now apply ordered_snoc_other.
  - apply IH; [now apply ordered_snoc_other|intros; lia].
  - destruct (Nat.ltb 0 e) eqn:E; [now apply IH|]. apply Nat.ltb_ge in E.
    apply IH; [now apply ordered_snoc_other|]. intros _. rewrite existsb_app. simpl. rewrite Hb by lia. reflexivity.
  - apply IH; [now apply ordered_snoc_other|]. intros H. assert (H' : e <= 2) by (destruct e; lia). rewrite existsb_app. simpl. rewrite (Hb H'). reflexivity.
Qed.

Lemma parse_ordered l : ordered (fst (parse l)) = true.
Proof.
  unfold parse, clean. apply ordered_clean_loop. simpl. now apply parse_loop_ordered.
Qed.

(* ------------------------------------------------------------------ C. every @namespace rule keeps (and prints) its URI *)
Definition good (r : nsrule) : Prop :=
  (prefix r = [] /\ items r = [NUri (uri r)]) \/ items r = [NPrefix (prefix r); NUri (uri r)].
Definition goodr (x : rule) : Prop := match x with RNs r => good r | _ => True end.
Definition AllGood (sh : sheet) : Prop := Forall goodr sh.

Lemma good_ser r : good r -> ser_ns r = Some (prefix r, uri r) /\ In (NUri (uri r)) (items r).
Proof.
  unfold good, ser_ns. intros [[Hp Hi]|Hi]; rewrite Hi; simpl; [rewrite Hp|]; auto.
Qed.
Lemma good_obj p u : good (mk_obj p u).
Proof. right. reflexivity. Qed.
Lemma good_text p u : good (mk_text p u).
Proof. destruct p; [left|right]; simpl; auto. Qed.
Lemma good_set_prefix p r : good r -> good (set_prefix p r).
Proof. unfold good, set_prefix. intros [[Hp Hi]|Hi]; rewrite Hi; simpl; right; reflexivity. Qed.
Lemma good_replace p u x : goodr x -> goodr (replace_uri p u x).
Proof.
  destruct x; simpl; auto. destruct (eqs (prefix r) p); simpl; auto.
  unfold good. intros [[Hp Hi]|Hi]; rewrite Hi; simpl; [left|right]; auto.
Qed.

Lemma forall_insert {A} (P : A -> Prop) i x l : P x -> Forall P l -> Forall P (insert_at i x l).
Proof.
  revert l; induction i as [|i IH]; intros l Hx Hl; simpl; [now constructor|].
  destruct l as [|y t]; [now constructor|]. inversion Hl; subst. constructor; auto.
Qed.
Lemma forall_remove {A} (P : A -> Prop) i l : Forall P l -> Forall P (remove_at i l).
Proof.
  revert i; induction l as [|y t IH]; intros [|i] Hl; simpl; auto; inversion Hl; subst; auto.
Qed.
Lemma forall_clean_loop (P : rule -> Prop) v rest : forall kept,
  Forall P (kept ++ rest) -> Forall P (fst (clean_loop v kept rest)).
Proof.
  induction rest as [|x t IH]; intros kept H; simpl; [now rewrite app_nil_r in H|].
  destruct x; try (apply IH; rewrite <- app_assoc; exact H).
  destruct (pair_in (prefix r) (uri r) v); [apply IH; rewrite <- app_assoc; exact H|].
  destruct (can_delete r (kept ++ RNs r :: t)); simpl; [|exact H].
  apply IH. apply Forall_app in H as [H1 H2]. inversion H2; subst. apply Forall_app. now split.
Qed.
Lemma allgood_upd k p sh : AllGood sh -> AllGood (upd_ns k (set_prefix p) sh).
Proof.
  unfold AllGood. revert k; induction sh as [|x t IH]; intros k H; simpl; [constructor|].
  inversion H; subst. destruct x; try (constructor; auto).
  destruct k; constructor; auto. now apply good_set_prefix.
Qed.
Lemma allgood_insert r idx io sh : good r -> AllGood sh -> AllGood (fst (insert_ns r idx io sh)).
Proof.
  intros Hr H. unfold insert_ns. destruct (place_ns idx io sh); [|exact H].
  destruct (same_binding (view sh) r); [exact H|].
  unfold clean, AllGood. apply forall_clean_loop. simpl. now apply forall_insert.
Qed.
Lemma allgood_delete i sh : AllGood sh -> AllGood (fst (delete_rule i sh)).
Proof.
  intros H. unfold delete_rule. destruct (nth_error sh i) as [[r| | | |]|]; simpl; try exact H;
    try (now apply forall_remove).
  destruct (can_delete r sh); simpl; [now apply forall_remove|exact H].
Qed.
Lemma step_allgood o sh : AllGood sh -> AllGood (fst (step o sh)).
Proof.
  intros H. destruct o; simpl.
  - unfold setitem. destruct (find_last p (nsl sh)) as [k|].
    + destruct (nth_error (nsl sh) k); [|exact H].
      destruct (dhas (view sh) p && negb (eqs (uri n) u)); [exact H|].
      destruct (mems u (dvals (view sh))); simpl; [now apply allgood_upd|exact H].
    + destruct u; [exact H|]. apply allgood_insert; [apply good_obj|exact H].
  - unfold delitem. destruct (find_last p (nsl sh)) as [k|]; [|exact H]. destruct (ns_abs k sh); [now apply allgood_delete|exact H].
  - apply allgood_insert; [apply good_obj|exact H].
  - apply allgood_insert; [apply good_obj|exact H].
  - unfold insert_text. destruct (Nat.ltb _ _); [exact H|]. destruct (dhas (view sh) p); [exact H|].
    apply allgood_insert; [apply good_text|exact H].
  - unfold insert_text. destruct (Nat.ltb _ _); [exact H|]. destruct (dhas (view sh) p); [exact H|].
    apply allgood_insert; [apply good_text|exact H].
  - destruct (nth_error sh i) as [[r| | | |]|]; try exact H. now apply allgood_delete.
Qed.
Lemma run_allgood ops : forall sh, AllGood sh -> AllGood (run ops sh).
Proof. induction ops as [|o t IH]; intros sh H; simpl; [exact H|]. apply IH. now apply step_allgood. Qed.

Lemma parse_loop_allgood l : forall d e sh, AllGood sh -> AllGood (parse_loop d e sh l).
Proof.
  unfold AllGood. induction l as [|x t IH]; intros d e sh H; simpl; [exact H|].
  destruct x.
  - destruct (Nat.ltb 2 e); [now apply IH|]. destruct (dhas d p); apply IH.
    + apply Forall_forall. intros y Hy. apply in_map_iff in Hy as (z & <- & Hz). apply good_replace.
      rewrite Forall_forall in H. now apply H.
    + apply Forall_app. split; [exact H|]. constructor; [apply good_text|constructor].
  - destruct (resolve_all d l); apply IH; try exact H. apply Forall_app. split; [exact H|]. repeat constructor.
  - apply IH. apply Forall_app. split; [exact H|]. repeat constructor.
  - destruct (Nat.ltb 0 e); apply IH; try exact H. apply Forall_app. split; [exact H|]. repeat constructor.
  - apply IH. apply Forall_app. split; [exact H|]. repeat constructor.
Qed.
Lemma parse_allgood l : AllGood (fst (parse l)).
Proof.
  unfold parse, clean, AllGood. apply forall_clean_loop. simpl. apply parse_loop_allgood. constructor.
Qed.

Lemma allgood_nsl sh r : AllGood sh -> In r (nsl sh) -> good r.
Proof.
  unfold AllGood. induction sh as [|x t IH]; simpl; [tauto|]. intros H Hin. inversion H; subst.
  destruct x; simpl in *; auto. destruct Hin as [<-|Hin]; auto.
Qed.

(* ------------------------------------------------------------------ D. a used URI keeps a declaration *)
Definition cnt (u : str) (sh : sheet) : nat := count_uri u (nsl sh).

Lemma existsb_concat {A} (f : A -> bool) ls : existsb (existsb f) ls = existsb f (concat ls).
Proof. induction ls as [|l t IH]; simpl; [reflexivity|]. now rewrite existsb_app, IH. Qed.
Lemma used_items u sh : used u sh = existsb (item_uses u) (items_of sh).
Proof.
  unfold used, items_of. induction sh as [|x t IH]; simpl; [reflexivity|].
  rewrite existsb_app, IH. f_equal. destruct x; simpl; auto. apply existsb_concat.
Qed.
Lemma count_app u a b : count_uri u (a ++ b) = count_uri u a + count_uri u b.
Proof. induction a as [|r a IH]; simpl; [reflexivity|]. rewrite IH. lia. Qed.

Lemma cnt_remove_ns u i sh r :
  nth_error sh i = Some (RNs r) -> cnt u sh = cnt u (remove_at i sh) + (if eqs (uri r) u then 1 else 0).
Proof.
  unfold cnt. revert i; induction sh as [|x t IH]; intros [|i] H; simpl in *; try discriminate.
  - inversion H; subst. simpl. lia.
  - destruct x; simpl; rewrite ?(IH i H); lia.
Qed.
Lemma nsl_remove_other i sh x : nth_error sh i = Some x -> is_ns x = false -> nsl (remove_at i sh) = nsl sh.
Proof.
  revert i; induction sh as [|y t IH]; intros [|i] H Hx; simpl in *; try discriminate.
  - inversion H; subst. destruct x; simpl in *; try discriminate; reflexivity.
  - destruct y; simpl; rewrite ?(IH i H Hx); reflexivity.
Qed.
Lemma cnt_insert u i r sh : cnt u (insert_at i (RNs r) sh) = cnt u sh + (if eqs (uri r) u then 1 else 0).
Proof.
  unfold cnt. revert sh; induction i as [|i IH]; intros sh; simpl; [lia|].
  destruct sh as [|y t]; simpl; [lia|]. destruct y; simpl; rewrite IH; lia.
Qed.
Lemma cnt_upd u k p sh : cnt u (upd_ns k (set_prefix p) sh) = cnt u sh.
Proof.
  unfold cnt. revert k; induction sh as [|y t IH]; intros k; simpl; [reflexivity|].
  destruct y; simpl; rewrite ?IH; try reflexivity. destruct k; simpl; [reflexivity|now rewrite IH].
Qed.

Lemma can_delete_keeps u r sh :
  can_delete r sh = true -> used u sh = true -> 1 <= cnt u sh ->
  1 + (if eqs (uri r) u then 1 else 0) <= cnt u sh.
Proof.
  unfold can_delete, cnt. intros Hc Hu Hn. destruct (eqs (uri r) u) eqn:E; [|lia].
  apply eqs_spec in E. subst u. rewrite Hu in Hc. simpl in Hc. apply negb_true_iff, Nat.eqb_neq in Hc. lia.
Qed.

Lemma used_mid u a r b : used u (a ++ RNs r :: b) = used u (a ++ b).
Proof. unfold used. rewrite !existsb_app. reflexivity. Qed.
Lemma cnt_mid u a r b : cnt u (a ++ RNs r :: b) = cnt u (a ++ b) + (if eqs (uri r) u then 1 else 0).
Proof. unfold cnt. rewrite !nsl_app. simpl. rewrite !count_app. simpl. lia. Qed.

Lemma clean_loop_count u v rest : forall kept,
  used u (kept ++ rest) = true -> 1 <= cnt u (kept ++ rest) -> 1 <= cnt u (fst (clean_loop v kept rest)).
Proof.
  induction rest as [|x t IH]; intros kept Hu Hn; simpl; [now rewrite app_nil_r in Hn|].
  destruct x; try (apply IH; rewrite <- app_assoc; assumption).
  destruct (pair_in (prefix r) (uri r) v); [apply IH; rewrite <- app_assoc; assumption|].
  destruct (can_delete r (kept ++ RNs r :: t)) eqn:Ec; simpl; [|exact Hn].
  pose proof (can_delete_keeps u r _ Ec Hu Hn) as Hk.
  apply IH; [now rewrite used_mid in Hu|]. rewrite cnt_mid in Hk. lia.
Qed.

Lemma insert_count u r idx io sh :
  used u sh = true -> 1 <= cnt u sh -> 1 <= cnt u (fst (insert_ns r idx io sh)).
Proof.
  intros Hu Hn. unfold insert_ns. destruct (place_ns idx io sh) as [i|]; [|exact Hn].
  destruct (same_binding (view sh) r); [exact Hn|].
  unfold clean. apply clean_loop_count; simpl.
  - rewrite used_items, items_of_insert_ns, <- used_items. exact Hu.
  - rewrite cnt_insert. lia.
Qed.
Lemma delete_count u i sh :
  used u sh = true -> 1 <= cnt u sh -> 1 <= cnt u (fst (delete_rule i sh)).
Proof.
  intros Hu Hn. unfold delete_rule. destruct (nth_error sh i) as [x|] eqn:E; [|exact Hn].
  destruct x; simpl; try (unfold cnt; rewrite (nsl_remove_other i sh _ E); [exact Hn|reflexivity]).
  destruct (can_delete r sh) eqn:Ec; simpl; [|exact Hn].
  pose proof (can_delete_keeps u r _ Ec Hu Hn) as Hk. rewrite (cnt_remove_ns u i sh r E) in Hk. lia.
Qed.
Lemma step_count u o sh : used u sh = true -> 1 <= cnt u sh -> 1 <= cnt u (fst (step o sh)).
Proof.
  intros Hu Hn. destruct o; simpl.
  - unfold setitem. destruct (find_last p (nsl sh)) as [k|].
    + destruct (nth_error (nsl sh) k); [|exact Hn].
      destruct (dhas (view sh) p && negb (eqs (uri n) u0)); [exact Hn|].
      destruct (mems u0 (dvals (view sh))); simpl; [now rewrite cnt_upd|exact Hn].
    + destruct u0; [exact Hn|now apply insert_count].
  - unfold delitem. destruct (find_last p (nsl sh)) as [k|]; [|exact Hn]. destruct (ns_abs k sh); [now apply delete_count|exact Hn].
  - now apply insert_count.
  - now apply insert_count.
  - unfold insert_text. destruct (Nat.ltb _ _); [exact Hn|]. destruct (dhas (view sh) p); [exact Hn|now apply insert_count].
  - unfold insert_text. destruct (Nat.ltb _ _); [exact Hn|]. destruct (dhas (view sh) p); [exact Hn|now apply insert_count].
  - destruct (nth_error sh i) as [[r| | | |]|]; try exact Hn. now apply delete_count.
Qed.

Lemma run_count u ops : forall sh,
  used u sh = true -> 1 <= cnt u sh ->
  used u (run ops sh) = true /\ 1 <= cnt u (run ops sh).
Proof.
  induction ops as [|o t IH]; intros sh Hu Hn; simpl; [now split|].
  apply IH; [|now apply step_count].
  rewrite used_items, step_items, <- used_items. exact Hu.
Qed.

Lemma cnt_In u sh : 1 <= cnt u sh <-> exists r, In r (nsl sh) /\ uri r = u.
Proof.
  unfold cnt. induction (nsl sh) as [|r t IH]; simpl; [split; [lia|intros (r & [] & _)]|].
  destruct (eqs (uri r) u) eqn:E.
  - apply eqs_spec in E. split; [eauto|lia].
  - apply eqs_false in E. rewrite IH. split; intros (r' & H1 & H2); eauto.
    destruct H1 as [<-|H1]; [contradiction|eauto].
Qed.

(* a selector item with a string URI makes that URI "used" *)
Lemma pair_used k u n sh : In (IPair k (UStr u) n) (items_of sh) -> used u sh = true.
Proof.
  intros H. rewrite used_items. apply existsb_exists. eexists; split; [exact H|]. simpl. apply eqs_refl.
Qed.

(* ------------------------------------------------------------------ E. the view of a clean sheet *)
Definition Clean (sh : sheet) : Prop := NoDup (map prefix (nsl sh)) /\ NoDup (map uri (nsl sh)).
Definition pr (r : nsrule) : str * str := (prefix r, uri r).

Lemma dset_fresh d k v : ~ In k (map fst d) -> dset d k v = d ++ [(k, v)].
Proof.
  induction d as [|[k' v'] t IH]; simpl; [reflexivity|]. intros H.
  destruct (eqs k' k) eqn:E; [apply eqs_spec in E; subst; tauto|]. rewrite IH; tauto.
Qed.

Lemma view_of_clean l :
  NoDup (map prefix l) -> NoDup (map uri l) -> view_of l = rev (map pr l).
Proof.
  induction l as [|r t IH]; simpl; [reflexivity|]. intros Hp Hu. inversion Hp; subst. inversion Hu; subst.
  unfold view_step. rewrite (IH H2 H4).
  assert (E1 : mems (uri r) (dvals (rev (map pr t))) = false).
  { destruct (mems _ _) eqn:E; [|reflexivity]. apply mems_In in E. unfold dvals in E.
    rewrite map_rev, map_map, <- in_rev in E. simpl in E. contradiction. }
  rewrite E1. apply dset_fresh. rewrite map_rev, map_map, <- in_rev. simpl. exact H1.
Qed.

Lemma view_clean sh : Clean sh -> view sh = rev (ns_pairs sh).
Proof. intros [H1 H2]. unfold view, ns_pairs. now apply view_of_clean. Qed.

Lemma pair_in_In p u d : pair_in p u d = true <-> In (p, u) d.
Proof.
  induction d as [|[p' u'] t IH]; simpl; [split; [discriminate|tauto]|].
  rewrite orb_true_iff, andb_true_iff, !eqs_spec, IH. split.
  - intros [[-> ->]|H]; auto.
  - intros [H|H]; [inversion H; auto|auto].
Qed.

Lemma clean_loop_noop v rest : forall kept,
  (forall r, In r (nsl rest) -> In (pr r) v) -> clean_loop v kept rest = (kept ++ rest, Ok).
Proof.
  induction rest as [|x t IH]; intros kept H; simpl; [now rewrite app_nil_r|].
  destruct x; simpl in H; try (rewrite IH by exact H; now rewrite <- app_assoc).
  assert (E : pair_in (prefix r) (uri r) v = true) by (apply pair_in_In; apply (H r); now left).
  rewrite E, IH by (intros; apply H; now right). now rewrite <- app_assoc.
Qed.

(* on a clean sheet _cleanNamespaces removes nothing: every @namespace rule is effective *)
Lemma clean_noop sh : Clean sh -> clean sh = (sh, Ok).
Proof.
  intros Hc. unfold clean. rewrite (clean_loop_noop _ sh []); [reflexivity|].
  intros r Hr. rewrite (view_clean sh Hc). apply -> in_rev. unfold ns_pairs. now apply (in_map pr).
Qed.

(* as a mapping: prefix p is bound to u exactly when a rule declares it *)
Lemma dget_In_nodup d k v : NoDup (map fst d) -> (dget d k = Some v <-> In (k, v) d).
Proof.
  induction d as [|[k' v'] t IH]; simpl; intros Hn; [split; [discriminate|tauto]|].
  inversion Hn; subst. destruct (eqs k' k) eqn:E.
  - apply eqs_spec in E. subst k'. split.
    + intros H; inversion H; auto.
    + intros [H|H]; [inversion H; auto|]. exfalso. apply H1. now apply (in_map fst) in H.
  - apply eqs_false in E. rewrite (IH H2). split; [auto|]. intros [H|H]; [inversion H; congruence|exact H].
Qed.

Lemma view_binds sh p u : Clean sh -> (dget (view sh) p = Some u <-> exists r, In r (nsl sh) /\ prefix r = p /\ uri r = u).
Proof.
  intros Hc. rewrite (view_clean sh Hc). destruct Hc as [Hp _].
  rewrite dget_In_nodup.
  - rewrite <- in_rev. unfold ns_pairs. rewrite in_map_iff. split.
    + intros (r & E & Hr). inversion E; subst. eauto.
    + intros (r & Hr & <- & <-). eauto.
  - rewrite map_rev. unfold ns_pairs. rewrite map_map. simpl. now apply NoDup_rev.
Qed.

(* ------------------------------------------------------------------ statements used by props/C15.v *)
Lemma undeclared_rule_dropped d e sh k p n its t :
  In (PSel k (FPfx p) n) its -> dget d p = None ->
  resolve_all d its = None /\ parse_loop d e sh (SStyle its :: t) = parse_loop d 3 sh t.
Proof. intros Hin Hd. pose proof (undeclared_rejected d k p n its Hin Hd) as H. split; [exact H|]. simpl. now rewrite H. Qed.

Lemma pairs_frame ops sh : pairs (run ops sh) = pairs sh /\ items_of (run ops sh) = items_of sh.
Proof. unfold pairs. rewrite run_items. now split. Qed.

(* parsed sheets keep every @namespace rule in front of every rule set / @media block, through any history *)
Lemma order_kept stmts ops : ordered (run ops (fst (parse stmts))) = true.
Proof. apply run_frame, parse_ordered. Qed.

Lemma ns_rule_keeps_uri_parsed stmts ops r :
  In r (nsl (run ops (fst (parse stmts)))) -> ser_ns r = Some (prefix r, uri r) /\ In (NUri (uri r)) (items r).
Proof. intros H. apply good_ser. apply (allgood_nsl _ r (run_allgood ops _ (parse_allgood stmts)) H). Qed.

Lemma delete_protected_step sh i r :
  nth_error sh i = Some (RNs r) -> used (uri r) sh = true -> cnt (uri r) sh = 1 ->
  step (ODelRule i) sh = (sh, Raise ENoMod) /\ delete_rule i sh = (sh, Raise ENoMod).
Proof.
  intros Hn Hu Hc. simpl. unfold delete_rule. rewrite Hn. unfold can_delete. unfold cnt in Hc. rewrite Hu, Hc. simpl. auto.
Qed.

Lemma used_uri_stays_declared sh ops k u n :
  In (IPair k (UStr u) n) (items_of sh) -> (exists r, In r (nsl sh) /\ uri r = u) ->
  In (IPair k (UStr u) n) (items_of (run ops sh)) /\ exists r, In r (nsl (run ops sh)) /\ uri r = u.
Proof.
  intros Hin Hd. split.
  - now rewrite run_items.
  - apply cnt_In. apply cnt_In in Hd. apply (run_count u ops sh); [now apply (pair_used k u n)|exact Hd].
Qed.

Lemma view_matches_clean sh :
  Clean sh ->
  view sh = rev (ns_pairs sh) /\
  (forall p u, dget (view sh) p = Some u <-> exists r, In r (nsl sh) /\ prefix r = p /\ uri r = u) /\
  clean sh = (sh, Ok).
Proof. intros Hc. split; [now apply view_clean|]. split; [intros; now apply view_binds|now apply clean_noop]. Qed.
