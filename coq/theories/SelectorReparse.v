(* SelectorReparse.v -- C16: specificity is stable under serialise + re-parse.
   ser_tokens (Selector.v) maps the seq of a grammar selector to the tokens of its serialisation; here: those tokens
   are again a rendering of a Declared selector with the same specificity (a canonical layout), so
   specificity_correct applies to them.                                                                            *)
From CssV Require Import Base Gen.PyTables Tokenizer Gen.SelConsts Selector SelectorFacts.
From CssV Require Gen.Quote.

(* ------------------------------------------------------------------ str.lower() is idempotent *)
Lemma lower_table_idem : forallb (fun kv : N * str => eqs (lower (snd kv)) (snd kv)) lower_table = true.
Proof. vm_compute. reflexivity. Qed.
Lemma assoc_lower_idem c tb :
  forallb (fun kv : N * str => eqs (lower (snd kv)) (snd kv)) tb = true ->
  assoc_lower c tb = [c] \/ lower (assoc_lower c tb) = assoc_lower c tb.
Proof.
  induction tb as [|[k v] tb IH]; cbn [assoc_lower forallb snd]; intros H; [left; reflexivity|].
  apply andb_true_iff in H as [H1 H2]. destruct (N.eqb k c); [right; now apply eqs_spec|auto].
Qed.
Lemma lower_char_idem c : lower (lower_char c) = lower_char c.
Proof.
  unfold lower_char at 2. unfold lower_char at 1. destruct (N.ltb c 128) eqn:L.
  - destruct (N.leb 65 c && N.leb c 90) eqn:U.
    + apply andb_true_iff in U as [U1 U2]. apply N.leb_le in U1, U2.
      unfold lower. cbn [flat_map]. rewrite app_nil_r. unfold lower_char.
      assert (A : N.ltb (c + 32) 128 = true) by (apply N.ltb_lt; lia). rewrite A.
      assert (B : N.leb (c + 32) 90 = false) by (apply N.leb_gt; lia). rewrite B, andb_false_r. reflexivity.
    + unfold lower. cbn [flat_map]. rewrite app_nil_r. unfold lower_char. rewrite L, U. reflexivity.
  - destruct (assoc_lower_idem c lower_table lower_table_idem) as [E|E]; [|exact E].
    rewrite E. unfold lower. cbn [flat_map]. rewrite app_nil_r. unfold lower_char. rewrite L. exact E.
Qed.
Lemma lower_idem x : lower (lower x) = lower x.
Proof.
  induction x as [|c r IH]; [reflexivity|]. unfold lower in *. cbn [flat_map]. rewrite flat_map_app, IH.
  f_equal. apply lower_char_idem.
Qed.

(* ------------------------------------------------------------------ the serialiser fold *)
Lemma ser_acc_app ns a b out : ser_acc ns (a ++ b) out = ser_acc ns b (ser_acc ns a out).
Proof. apply fold_left_app. Qed.
Lemma ser_acc_cons ns i b out : ser_acc ns (i :: b) out = ser_acc ns b (ser_item ns out i).
Proof. reflexivity. Qed.

Definition hdS (out : list stok) : bool := match out with t :: _ => is_t (sty t) TS | [] => false end.
Lemma drop_S_no out : hdS out = false -> drop_S out = out.
Proof. destruct out as [|t r]; [reflexivity|]. cbn [hdS drop_S]. intros ->. reflexivity. Qed.

(* layout *)
Definition cmts (w : wsl) : list str := flat_map (fun x => match x with WS _ => [] | WC v => [v] end) w.
Definition wcs (c : list str) : wsl := map WC c.
Lemma r_ws_wcs c : r_ws (wcs c) = r_cm c.
Proof. unfold r_ws, wcs, r_cm. rewrite map_map. reflexivity. Qed.
Lemma ser_cm ns c out : ser_acc ns (its_cm c) out = rev (r_cm c) ++ out.
Proof.
  revert out. induction c as [|v c IH]; intros out; [reflexivity|].
  cbn [its_cm map r_cm]. rewrite ser_acc_cons. cbn [ser_item it_comment]. fold (its_cm c). rewrite IH.
  fold (r_cm c). lsimp. reflexivity.
Qed.
Lemma its_wsI_cm w : its_wsI w = its_cm (cmts w).
Proof.
  induction w as [|x w IH]; [reflexivity|]. destruct x; cbn [its_wsI cmts flat_map app]; [exact IH|].
  fold (its_wsI w). fold (cmts w). rewrite IH. reflexivity.
Qed.
Lemma ser_wsI ns w out : ser_acc ns (its_wsI w) out = rev (r_cm (cmts w)) ++ out.
Proof. rewrite its_wsI_cm. apply ser_cm. Qed.
Lemma hdS_cm c out : hdS out = false -> hdS (rev (r_cm c) ++ out) = false.
Proof.
  intros H. destruct (rev (r_cm c)) as [|t r] eqn:E; [exact H|].
  assert (In t (r_cm c)) by (apply in_rev; rewrite E; left; reflexivity).
  unfold r_cm in H0. apply in_map_iff in H0 as (v & <- & _). reflexivity.
Qed.
Lemma ok_cm_cmts w : ok_ws w = true -> ok_cm (cmts w) = true.
Proof.
  induction w as [|x w IH]; [reflexivity|]. cbn [ok_ws forallb]. intros H. apply andb_true_iff in H as [H1 H2].
  destruct x; cbn [cmts flat_map app]; [now apply IH|]. cbn [ok_cm forallb]. cbn [ok_w] in H1. rewrite H1.
  now apply IH.
Qed.
Lemma ok_ws_wcs c : ok_cm c = true -> ok_ws (wcs c) = true.
Proof. induction c as [|v c IH]; [reflexivity|]. cbn. intros H. apply andb_true_iff in H as [-> H]. now apply IH. Qed.

(* ------------------------------------------------------------------ namespaces *)
Definition NsOk (ns : ns_map) : Prop :=
  forallb (fun kv : str * str => match fst kv with [] => true | p => ident p end) ns = true.
Lemma prefix_for_ok ns x p : NsOk ns -> prefix_for x ns = Some p ->
  (p = [] \/ ident p = true) /\ assoc_s p ns <> None.
Proof.
  unfold NsOk. induction ns as [|[k v] ns IH]; cbn [prefix_for forallb fst assoc_s]; intros Hok H; [discriminate|].
  apply andb_true_iff in Hok as [H1 H2]. destruct (eqs v x).
  - injection H as <-. split; [destruct k; [left; reflexivity|right; exact H1]|]. rewrite eqs_refl. discriminate.
  - destruct (IH H2 H) as [A B]. split; [exact A|]. destruct (eqs k p); [discriminate|exact B].
Qed.

Definition cq_of (ns : ns_map) (u : nsuri) : nsq :=
  match pair_prefix ns u with
  | None => NsDefault
  | Some [] => NsNo
  | Some p => if eqs p (s "*") then NsAny else NsP p
  end.
Lemma r_ns_cq ns u :
  r_ns (cq_of ns u) = match pair_prefix ns u with None => [] | Some p => prefix_tokens p end.
Proof.
  unfold cq_of. destruct (pair_prefix ns u) as [[|c r]|]; try reflexivity.
  unfold prefix_tokens. destruct (eqs (c :: r) (s "*")); reflexivity.
Qed.
Lemma declared_cq ns u : NsOk ns -> declared ns (cq_of ns u) = true.
Proof.
  intros Hok. unfold cq_of, pair_prefix.
  destruct (_ || _); [reflexivity|]. destruct u as [| |x]; try reflexivity.
  destruct (prefix_for x ns) as [p|] eqn:E; [|reflexivity].
  destruct (prefix_for_ok ns x p Hok E) as [[->|Hi] Hn]; [reflexivity|].
  destruct p as [|c r]; [reflexivity|]. destruct (eqs (c :: r) (s "*")); [reflexivity|].
  cbn [declared]. rewrite Hi. destruct (assoc_s (c :: r) ns); [reflexivity|congruence].
Qed.

Lemma ser_pair ns typ u n out : typ <> I_universal ->
  ser_item ns out (typ, VPair u n) = rev (r_ns (cq_of ns u) ++ [mkS TIDENT n]) ++ out.
Proof.
  intros Ht. cbn [ser_item]. rewrite r_ns_cq. destruct typ; try congruence;
    (destruct (pair_prefix ns u); lsimp; reflexivity).
Qed.
Lemma ser_univ ns u out :
  ser_item ns out (I_universal, VPair u (s "*")) = rev (r_ns (cq_of ns u) ++ [ch "*"]) ++ out.
Proof. cbn [ser_item]. rewrite r_ns_cq. destruct (pair_prefix ns u); lsimp; reflexivity. Qed.

(* ------------------------------------------------------------------ attribute selectors *)
Definition c_attns (ns : ns_map) (q : nsq) : nsq :=
  match q with NsDefault | NsNo => NsDefault | _ => cq_of ns (uri_of ns q) end.
Definition c_av (v : attv) : attv :=
  match v with AvI x => AvI x | AvS x => AvS (Gen.Quote.hstring (strval_d x)) end.
Definition c_attr (ns : ns_map) (a : attr) : attr :=
  mkAttr (wcs (cmts (at_w1 a))) (c_attns ns (at_ns a)) (at_name a) (wcs (cmts (at_w2 a)))
         (match at_rest a with
          | None => None
          | Some (o, w3, v, w4) => Some (o, wcs (cmts w3), c_av v, wcs (cmts w4))
          end).

Lemma ser_attname ns q n out :
  ser_item ns out (it_attname ns q n) = rev (r_ns (c_attns ns q) ++ [mkS TIDENT n]) ++ out.
Proof.
  destruct q; cbn [it_attname c_attns]; try reflexivity; apply ser_pair; discriminate.
Qed.
Lemma ser_op ns o out : hdS out = false -> ser_item ns out (it_op o) = r_op o :: out.
Proof. intros H. destruct o; cbn [it_op ser_item r_op]; try reflexivity. now rewrite drop_S_no. Qed.
Lemma ser_av ns v out : ser_item ns out (it_av v) = r_av (c_av v) :: out.
Proof. destruct v; reflexivity. Qed.
Lemma hdS_ns_name q n out : hdS (rev (r_ns q ++ [mkS TIDENT n]) ++ out) = false.
Proof. rewrite rev_app_distr. reflexivity. Qed.

Lemma ser_attr ns a out :
  ser_acc ns (its_attr ns a) out = rev (r_attr (c_attr ns a)) ++ out.
Proof.
  unfold its_attr, r_attr, c_attr. cbn [at_w1 at_ns at_name at_w2 at_rest].
  rewrite ser_acc_cons. cbn [ser_item]. rewrite ser_acc_app, ser_wsI.
  rewrite ser_acc_cons, ser_attname. rewrite ser_acc_app, ser_wsI. rewrite ser_acc_app.
  unfold ser_acc at 1. cbn [fold_left].
  set (o1 := rev (r_cm (cmts (at_w2 a))) ++ rev (r_ns (c_attns ns (at_ns a)) ++ [mkS TIDENT (at_name a)]) ++
             rev (r_cm (cmts (at_w1 a))) ++ mkS TCHAR (s "[") :: out).
  assert (H1 : hdS o1 = false).
  { unfold o1. apply hdS_cm. apply hdS_ns_name. }
  rewrite !r_ws_wcs.
  destruct (at_rest a) as [[[[o w3] v] w4]|].
  - rewrite ser_acc_cons, (ser_op ns o o1 H1). rewrite ser_acc_app, ser_wsI, ser_acc_cons, ser_av, ser_wsI.
    cbn [ser_item]. rewrite drop_S_no.
    + rewrite !r_ws_wcs. unfold o1, ch. lsimp. reflexivity.
    + apply hdS_cm. destruct v; reflexivity.
  - cbn [ser_acc fold_left ser_item app]. rewrite drop_S_no by exact H1. unfold o1, ch. lsimp. reflexivity.
Qed.

Lemma quoted_hstring v : quoted (Gen.Quote.hstring v) = true.
Proof. unfold Gen.Quote.hstring. cbn [app quoted]. reflexivity. Qed.
Lemma declared_c_attns ns q : NsOk ns -> declared ns (c_attns ns q) = true.
Proof. intros H. destruct q; cbn [c_attns]; try reflexivity; now apply declared_cq. Qed.
Lemma ok_c_attr ns a : NsOk ns -> ok_attr ns a = true -> ok_attr ns (c_attr ns a) = true.
Proof.
  intros Hns H. unfold ok_attr in *. do 4 (apply andb_true_iff in H; destruct H as [H ?]).
  unfold c_attr. cbn [at_w1 at_ns at_name at_w2 at_rest].
  rewrite (ok_ws_wcs _ (ok_cm_cmts _ H)), (declared_c_attns ns _ Hns), H2, (ok_ws_wcs _ (ok_cm_cmts _ H1)). cbn [andb].
  destruct (at_rest a) as [[[[o w3] v] w4]|]; [|reflexivity].
  do 2 (apply andb_true_iff in H0; destruct H0 as [H0 ?]).
  rewrite (ok_ws_wcs _ (ok_cm_cmts _ H0)), (ok_ws_wcs _ (ok_cm_cmts _ H5)). cbn [andb].
  destruct v; cbn [c_av]; [exact H4|apply quoted_hstring].
Qed.

(* ------------------------------------------------------------------ functional-pseudo arguments *)
Inductive atom := AW (x : wtok) | AE (t : etok).
Definition r_atom (a : atom) : stok := match a with AW x => r_w x | AE t => r_et t end.
Definition ok_atom (a : atom) : bool := match a with AW x => ok_w x | AE t => ok_et t end.
Definition is_ae (a : atom) : bool := match a with AE _ => true | _ => false end.
Fixpoint grp (al : list atom) : wsl * expr :=
  match al with
  | [] => ([], [])
  | AW x :: r => let (w, e) := grp r in (x :: w, e)
  | AE t :: r => let (w, e) := grp r in ([], (t, w) :: e)
  end.
Lemma r_grp al : r_ws (fst (grp al)) ++ r_expr (snd (grp al)) = map r_atom al.
Proof.
  induction al as [|a al IH]; [reflexivity|]. destruct a; cbn [grp]; destruct (grp al) as [w e]; cbn [fst snd] in *.
  - cbn [r_ws map app r_atom]. f_equal. exact IH.
  - cbn [r_ws map app r_expr flat_map fst snd r_atom]. f_equal. exact IH.
Qed.
Lemma ok_grp al : forallb ok_atom al = true ->
  ok_ws (fst (grp al)) = true /\ forallb (fun p => ok_et (fst p) && ok_ws (snd p)) (snd (grp al)) = true.
Proof.
  induction al as [|a al IH]; [split; reflexivity|]. cbn [forallb]. intros H. apply andb_true_iff in H as [H1 H2].
  destruct (IH H2) as [A B]. destruct a; cbn [grp]; destruct (grp al) as [w e]; cbn [fst snd ok_atom] in *.
  - split; [cbn [ok_ws forallb]; rewrite H1; exact A|exact B].
  - split; [reflexivity|]. cbn [forallb fst snd]. rewrite H1, A, B. reflexivity.
Qed.
Lemma grp_ne al : existsb is_ae al = true -> snd (grp al) <> [].
Proof.
  induction al as [|a al IH]; [discriminate|]. destruct a; cbn [existsb is_ae orb grp]; destruct (grp al) as [w e];
    cbn [snd] in *; [exact IH|discriminate].
Qed.

(* arg items *)
Definition ok_argitem (i : item) : bool :=
  match i with
  | (I_S, VStr v) => eqs v (s " ")
  | (I_COMMENT, VComment v) => opaque v
  | (I_plus, VStr v) => eqs v (s "+")
  | (I_minus, VStr v) => eqs v (s "-")
  | (I_DIMENSION, VStr v) | (I_NUMBER, VStr v) => opaque v
  | (I_STRING, VStr _) => true
  | (I_IDENT, VStr v) => ident v
  | _ => false
  end.
Definition is_etitem (i : item) : bool :=
  match fst i with I_plus | I_minus | I_DIMENSION | I_NUMBER | I_STRING | I_IDENT => true | _ => false end.

Section Args.
Variable fn : item.
Hypothesis fn_nS : hS [fn] = false.
Hypothesis fn_nPM : hPM [fn] = false.

Definition argacc (q : list item) : Prop :=
  exists l, q = l ++ [fn] /\ forallb ok_argitem l = true.

Lemma argacc_argw q x : ok_w x = true -> argacc q -> argacc (sq_argw q x).
Proof.
  intros Hx (l & -> & Hl). destruct x as [v|v]; cbn [sq_argw].
  - destruct l as [|i l].
    + cbn [app]. rewrite fn_nPM. cbn [negb andb]. exists [(I_S, VStr (s " "))]. split; reflexivity.
    + cbn [app]. destruct (negb (hPM (i :: l ++ [fn]))); cbn [andb].
      * exists ((I_S, VStr (s " ")) :: i :: l). split; [reflexivity|]. cbn [forallb ok_argitem] in *. exact Hl.
      * exists (i :: l). split; [reflexivity|exact Hl].
  - exists (it_comment v :: l). split; [reflexivity|]. cbn [forallb ok_argitem it_comment]. cbn [ok_w] in Hx.
    rewrite Hx. exact Hl.
Qed.
Lemma argacc_argws w : forall q, ok_ws w = true -> argacc q -> argacc (sq_argws w q).
Proof.
  induction w as [|x w IH]; intros q Hw Hq; [exact Hq|]. cbn [ok_ws forallb] in Hw. apply andb_true_iff in Hw as [H1 H2].
  unfold sq_argws. cbn [fold_left]. apply (IH _ H2). now apply argacc_argw.
Qed.
Lemma strval_quoted v : quoted v = true -> True. Proof. auto. Qed.
Lemma argacc_et t q : ok_et t = true -> argacc q -> argacc (sq_et t q).
Proof.
  intros Ht (l & -> & Hl). destruct t; cbn [sq_et ok_et] in *.
  - destruct l as [|i l].
    + cbn [app]. rewrite fn_nS. exists [(I_plus, VStr (s "+"))]. split; reflexivity.
    + cbn [app]. destruct (hS (i :: l ++ [fn])); cbn [tl].
      * exists ((I_plus, VStr (s "+")) :: l). split; [reflexivity|]. cbn [forallb] in *.
        apply andb_true_iff in Hl as [_ Hl]. exact Hl.
      * exists ((I_plus, VStr (s "+")) :: i :: l). split; [reflexivity|exact Hl].
  - exists ((I_minus, VStr (s "-")) :: l). split; [reflexivity|exact Hl].
  - exists ((I_DIMENSION, VStr v) :: l). split; [reflexivity|]. cbn [forallb ok_argitem]. rewrite Ht. exact Hl.
  - exists ((I_NUMBER, VStr v) :: l). split; [reflexivity|]. cbn [forallb ok_argitem]. rewrite Ht. exact Hl.
  - exists ((I_STRING, VStr (strval_d v)) :: l). split; [reflexivity|exact Hl].
  - exists ((I_IDENT, VStr v) :: l). split; [reflexivity|]. cbn [forallb ok_argitem]. rewrite Ht. exact Hl.
Qed.
Lemma argacc_expr e : forall q, forallb (fun p => ok_et (fst p) && ok_ws (snd p)) e = true -> argacc q -> argacc (sq_expr e q).
Proof.
  induction e as [|[t w] e IH]; intros q He Hq; [exact Hq|]. cbn [forallb fst snd] in He.
  apply andb_true_iff in He as [H1 H2]. apply andb_true_iff in H1 as [H0 H1]. cbn [sq_expr].
  apply (IH _ H2). apply argacc_argws; [exact H1|]. now apply argacc_et.
Qed.

(* an argument item of an etok kind survives *)
Definition has_et (q : list item) : bool := existsb is_etitem q.
Lemma has_et_argw q x : has_et q = true -> has_et (sq_argw q x) = true.
Proof.
  intros H. destruct x; cbn [sq_argw]; [destruct (_ && _)|]; unfold has_et in *; cbn [existsb]; rewrite ?H;
    rewrite ?orb_true_r; auto.
Qed.
Lemma has_et_argws w : forall q, has_et q = true -> has_et (sq_argws w q) = true.
Proof. induction w as [|x w IH]; intros q H; [exact H|]. unfold sq_argws. cbn [fold_left]. apply IH. now apply has_et_argw. Qed.
Lemma has_et_et t q : has_et (sq_et t q) = true.
Proof. destruct t; cbn [sq_et]; try reflexivity. destruct (hS q); reflexivity. Qed.
Lemma has_et_expr e : forall q, (e <> [] \/ has_et q = true) -> has_et (sq_expr e q) = true.
Proof.
  induction e as [|[t w] e IH]; intros q H; [destruct H; [congruence|assumption]|].
  cbn [sq_expr]. apply IH. right. apply has_et_argws. apply has_et_et.
Qed.
End Args.

(* serialising argument items: the output stays a list of layout / expression tokens *)
Definition drop_ra (ra : list atom) : list atom := match ra with AW (WS _) :: r => r | _ => ra end.
Definition base_ok (base : list stok) : Prop :=
  hdS base = false /\ match base with m :: _ => is_t (sty m) TCHAR && eqs (sval m) (s "-") = false | [] => True end.
Lemma drop_S_ra ra base : base_ok base -> drop_S (map r_atom ra ++ base) = map r_atom (drop_ra ra) ++ base.
Proof.
  intros [Hb _]. destruct ra as [|a r]; [cbn [map app drop_ra]; now apply drop_S_no|].
  destruct a as [[v|v]|t]; cbn [map app drop_ra r_atom r_w drop_S sty is_t tty_eqb]; try reflexivity.
  destruct t; reflexivity.
Qed.
Definition ra_minus (ra : list atom) : bool := match ra with AE EMinus :: _ => true | _ => false end.
Lemma merge_minus_ra t v can ra base : base_ok base ->
  merge_minus t v can (map r_atom ra ++ base) =
  if can && ra_minus ra then mkS t (s "-" ++ v) :: map r_atom (tl ra) ++ base else mkS t v :: map r_atom ra ++ base.
Proof.
  intros [_ Hb]. unfold merge_minus. destruct ra as [|a r].
  - cbn [map app ra_minus]. rewrite andb_false_r. destruct base as [|m b]; [reflexivity|]. rewrite <- andb_assoc, Hb, andb_false_r. reflexivity.
  - cbn [map app]. destruct a as [[x|x]|e]; [| |destruct e]; destruct can; reflexivity.
Qed.

Definition has_ae (ra : list atom) : bool := existsb is_ae ra.
Lemma opaque_minus v : opaque (s "-" ++ v) = true. Proof. reflexivity. Qed.
Lemma ident_minus v : ident v = true -> ident (s "-" ++ v) = true.
Proof. intros H. apply ident_namechars in H. cbn. exact H. Qed.

Lemma ser_arg_step ns i ra base : base_ok base -> ok_argitem i = true -> forallb ok_atom ra = true ->
  exists ra', ser_item ns (map r_atom ra ++ base) i = map r_atom ra' ++ base /\ forallb ok_atom ra' = true /\
              (has_ae ra = true \/ is_etitem i = true -> has_ae ra' = true).
Proof.
  intros Hb Hi Hra. destruct i as [t v]. destruct t, v; try discriminate Hi; cbn [ok_argitem] in Hi; cbn [ser_item].
  - (* COMMENT *) exists (AW (WC v) :: ra). repeat split; [cbn; rewrite Hi; exact Hra|]. intros [H|H]; [cbn; exact H|discriminate].
  - (* S *) rewrite (drop_S_ra ra base Hb). exists (AW (WS (s " ")) :: drop_ra ra). split; [reflexivity|]. split.
    + cbn [forallb ok_atom ok_w]. destruct ra as [|[[x|x]|e] r]; cbn [drop_ra]; auto; cbn [forallb] in Hra;
        apply andb_true_iff in Hra as [_ Hra]; exact Hra.
    + intros [H|H]; [|discriminate]. destruct ra as [|[[x|x]|e] r]; cbn [drop_ra has_ae existsb is_ae orb] in *; auto.
  - (* NUMBER *) rewrite (merge_minus_ra TNUMBER v (numstart v) ra base Hb). destruct (numstart v && ra_minus ra) eqn:M.
    + destruct ra as [|[x|[]] r]; try (rewrite andb_false_r in M; discriminate M). cbn [tl].
      exists (AE (ENum (s "-" ++ v)) :: r). split; [reflexivity|]. split; [|intros _; reflexivity].
      cbn [forallb] in *. apply andb_true_iff in Hra as [_ Hra]. exact Hra.
    + exists (AE (ENum v) :: ra). split; [reflexivity|]. split; [cbn; rewrite Hi; exact Hra|intros _; reflexivity].
  - (* DIMENSION *) rewrite (merge_minus_ra TDIMENSION v (numstart v) ra base Hb). destruct (numstart v && ra_minus ra) eqn:M.
    + destruct ra as [|[x|[]] r]; try (rewrite andb_false_r in M; discriminate M). cbn [tl].
      exists (AE (EDim (s "-" ++ v)) :: r). split; [reflexivity|]. split; [|intros _; reflexivity].
      cbn [forallb] in *. apply andb_true_iff in Hra as [_ Hra]. exact Hra.
    + exists (AE (EDim v) :: ra). split; [reflexivity|]. split; [cbn; rewrite Hi; exact Hra|intros _; reflexivity].
  - (* STRING *) exists (AE (EStr (Gen.Quote.hstring v)) :: ra). split; [reflexivity|]. split; [|intros _; reflexivity].
    cbn [forallb ok_atom ok_et]. rewrite quoted_hstring. exact Hra.
  - (* IDENT *) rewrite (merge_minus_ra TIDENT v (namestart v) ra base Hb). destruct (namestart v && ra_minus ra) eqn:M.
    + destruct ra as [|[x|[]] r]; try (rewrite andb_false_r in M; discriminate M). cbn [tl].
      exists (AE (EId (s "-" ++ v)) :: r). split; [reflexivity|]. split; [|intros _; reflexivity].
      cbn [forallb ok_atom ok_et] in *. rewrite (ident_minus v Hi). apply andb_true_iff in Hra as [_ Hra]. exact Hra.
    + exists (AE (EId v) :: ra). split; [reflexivity|]. split; [cbn; rewrite Hi; exact Hra|intros _; reflexivity].
  - (* plus *) apply eqs_spec in Hi. subst v. rewrite (drop_S_ra ra base Hb).
    exists (AW (WS (s " ")) :: AE EPlus :: AW (WS (s " ")) :: drop_ra ra). split; [reflexivity|]. split; [|intros _; reflexivity].
    cbn [forallb ok_atom ok_w ok_et]. destruct ra as [|[[x|x]|e] r]; cbn [drop_ra]; auto; cbn [forallb] in Hra;
      apply andb_true_iff in Hra as [_ Hra]; exact Hra.
  - (* minus *) apply eqs_spec in Hi. subst v. exists (AE EMinus :: ra). split; [reflexivity|]. split; [exact Hra|intros _; reflexivity].
Qed.

Lemma ser_args ns its : forall ra base, base_ok base -> forallb ok_argitem its = true -> forallb ok_atom ra = true ->
  exists ra', ser_acc ns its (map r_atom ra ++ base) = map r_atom ra' ++ base /\ forallb ok_atom ra' = true /\
              (has_ae ra = true \/ existsb is_etitem its = true -> has_ae ra' = true).
Proof.
  induction its as [|i its IH]; intros ra base Hb Hi Hra.
  - exists ra. split; [reflexivity|]. split; [exact Hra|]. intros [H|H]; [exact H|discriminate].
  - cbn [forallb] in Hi. apply andb_true_iff in Hi as [H1 H2]. rewrite ser_acc_cons.
    destruct (ser_arg_step ns i ra base Hb H1 Hra) as (ra1 & E1 & O1 & A1). rewrite E1.
    destruct (IH ra1 base Hb H2 O1) as (ra2 & E2 & O2 & A2). exists ra2. split; [exact E2|]. split; [exact O2|].
    intros [H|H]; apply A2; [left; apply A1; left; exact H|].
    cbn [existsb] in H. apply orb_true_iff in H as [H|H]; [left; apply A1; right; exact H|right; exact H].
Qed.

(* ------------------------------------------------------------------ pseudo-classes / pseudo-elements *)
Lemma colon_tokens_body dbl y : N.eqb (hd 0%N y) 58 = false ->
  colon_tokens (colon_str dbl ++ y) =
  colons dbl ++ (if last_is 40 y then [mkS TFUNCTION y] else [mkS TIDENT y]).
Proof.
  intros Hy. unfold colon_tokens. destruct dbl.
  - reflexivity.
  - destruct y as [|c r]; [reflexivity|]. cbn [hd] in Hy.
    assert (S2 : starts (s "::") (colon_str false ++ c :: r) = false).
    { change (colon_str false ++ c :: r) with (58%N :: c :: r). change (s "::") with [58%N; 58%N]. cbn [starts].
      rewrite N.eqb_refl, (N.eqb_sym 58 c), Hy. reflexivity. }
    rewrite S2. reflexivity.
Qed.
Lemma colon_tokens_id dbl x : ident x = true -> colon_tokens (colon_str dbl ++ x) = colons dbl ++ [mkS TIDENT x].
Proof.
  intros Hx. pose proof (last_is_nc x (ident_namechars x Hx)) as L. rewrite colon_tokens_body, L; [reflexivity|].
  destruct x as [|c r]; [discriminate|]. cbn [ident forallb] in Hx. apply andb_true_iff in Hx as [Hc _].
  destruct (namechar_facts c Hc) as (A & _). exact A.
Qed.
Lemma colon_tokens_fn dbl x : ident x = true ->
  colon_tokens (colon_str dbl ++ x ++ s "(") = colons dbl ++ [mkS TFUNCTION (x ++ s "(")].
Proof.
  intros Hx. pose proof (last_is_app 40 x : last_is 40 (x ++ s "(") = true) as L. rewrite colon_tokens_body, L; [reflexivity|].
  destruct x as [|c r]; [discriminate|]. cbn [ident forallb] in Hx. apply andb_true_iff in Hx as [Hc _].
  destruct (namechar_facts c Hc) as (A & _). exact A.
Qed.

Lemma forallb_rev {A} (f : A -> bool) l : forallb f (rev l) = forallb f l.
Proof. induction l as [|a l IH]; [reflexivity|]. cbn [rev forallb]. rewrite forallb_app, IH. cbn. rewrite andb_true_r. apply andb_comm. Qed.
Lemma existsb_rev {A} (f : A -> bool) l : existsb f (rev l) = existsb f l.
Proof. induction l as [|a l IH]; [reflexivity|]. cbn [rev existsb]. rewrite existsb_app, IH. cbn. rewrite orb_false_r. apply orb_comm. Qed.

Lemma ser_pseudo ns p out : ok_pseudo p = true ->
  exists p', ser_acc ns (its_pseudo p) out = rev (r_pseudo p') ++ out /\ ok_pseudo p' = true /\
             sp_pseudo p' = sp_pseudo p /\ pseudo_is_element p' = pseudo_is_element p /\
             hdS (rev (r_pseudo p') ++ out) = false.
Proof.
  destruct p as [dbl n|dbl n w e]; cbn [ok_pseudo]; intros H.
  - pose proof (lower_ident n H) as Hl. exists (PsId dbl (lower n)).
    unfold its_pseudo. cbn [sq_pseudo rev app]. rewrite ser_acc_cons. cbn [ser_acc fold_left].
    assert (E : ser_item ns out (pseudo_ityp (PsId dbl n), VStr (colon_str dbl ++ lower n)) =
                rev (colon_tokens (colon_str dbl ++ lower n)) ++ out).
    { cbn [pseudo_ityp]. destruct (dbl || is_legacy n); reflexivity. }
    rewrite E, (colon_tokens_id dbl (lower n) Hl). cbn [r_pseudo]. split; [reflexivity|]. split; [exact Hl|].
    unfold sp_pseudo, pseudo_is_element, is_legacy. rewrite lower_idem. repeat split.
    rewrite rev_app_distr. reflexivity.
  - do 3 (apply andb_true_iff in H; destruct H as [H ?]). rename H into Hn, H2 into Hnot, H1 into Hw, H0 into He.
    pose proof (lower_ident n Hn) as Hl. apply negb_true_iff in Hnot.
    unfold its_pseudo. cbn [sq_pseudo].
    set (fn := (pseudo_ityp (PsFn dbl n w e), VStr (colon_str dbl ++ lower n ++ s "("))).
    assert (F1 : hS [fn] = false) by (unfold fn; destruct dbl; reflexivity).
    assert (F2 : hPM [fn] = false) by (unfold fn; destruct dbl; reflexivity).
    unfold ok_expr in He.
    assert (Hne : e <> []) by (destruct e; [discriminate|discriminate]).
    assert (He' : forallb (fun p => ok_et (fst p) && ok_ws (snd p)) e = true) by (destruct e; [discriminate|exact He]).
    clear He. rename He' into He.
    assert (A0 : argacc fn [fn]) by (exists []; split; reflexivity).
    pose proof (argacc_expr fn F1 F2 e _ He (argacc_argws fn F2 w _ Hw A0)) as (l & El & Ol).
    assert (Het : existsb is_etitem l = true).
    { pose proof (has_et_expr e (sq_argws w [fn]) (or_introl Hne)) as X.
      unfold has_et in X. rewrite El, existsb_app in X. cbn [existsb] in X.
      assert (is_etitem fn = false) by (unfold fn, is_etitem; cbn [fst pseudo_ityp]; destruct dbl; reflexivity).
      rewrite H, orb_false_r in X. exact X. }
    unfold item in *. rewrite El. cbn [rev]. rewrite rev_app_distr. cbn [rev app].
    rewrite ser_acc_cons.
    assert (E : ser_item ns out fn = rev (colon_tokens (colon_str dbl ++ lower n ++ s "(")) ++ out).
    { unfold fn. cbn [pseudo_ityp]. destruct dbl; reflexivity. }
    rewrite E, (colon_tokens_fn dbl (lower n) Hl). rewrite ser_acc_app.
    set (base := rev (colons dbl ++ [mkS TFUNCTION (lower n ++ s "(")]) ++ out).
    assert (Hb : base_ok base).
    { unfold base. rewrite rev_app_distr. split; reflexivity. }
    destruct (ser_args ns (rev l) [] base Hb) as (ra & Er & Or & Ar); [now rewrite forallb_rev|reflexivity|].
    cbn [map app] in Er. rewrite Er. cbn [ser_acc fold_left ser_item].
    rewrite (drop_S_ra ra base Hb).
    set (al := rev (drop_ra ra)).
    assert (Oal : forallb ok_atom al = true).
    { unfold al. rewrite forallb_rev. destruct ra as [|[[x|x]|t] r]; cbn [drop_ra]; auto.
      cbn [forallb] in Or. apply andb_true_iff in Or as [_ Or]. exact Or. }
    assert (Aal : existsb is_ae al = true).
    { unfold al. rewrite existsb_rev. assert (X : has_ae ra = true) by (apply Ar; right; now rewrite existsb_rev).
      destruct ra as [|[[x|x]|t] r]; cbn [drop_ra]; auto. }
    destruct (ok_grp al Oal) as [Gw Ge]. pose proof (grp_ne al Aal) as Gn. pose proof (r_grp al) as Gr.
    exists (PsFn dbl (lower n) (fst (grp al)) (snd (grp al))). split; [|split; [|split; [|split]]].
    + cbn [r_pseudo]. unfold base. rewrite (app_assoc (r_ws _) (r_expr _)), Gr. unfold al. rewrite map_rev. unfold ch. lsimp. rewrite rev_involutive.
      reflexivity.
    + cbn [ok_pseudo]. rewrite Hl, lower_idem, Hnot, Gw. cbn [negb andb]. unfold ok_expr.
      destruct (snd (grp al)); [congruence|exact Ge].
    + unfold sp_pseudo, is_where. rewrite lower_idem. reflexivity.
    + reflexivity.
    + cbn [r_pseudo]. unfold ch. lsimp. reflexivity.
Qed.

Ltac lsimp_in H := repeat (progress (cbn [rev app] in H; rewrite ?rev_app_distr, <- ?app_assoc in H)).
(* ------------------------------------------------------------------ simple selectors, compounds *)
Lemma ser_class ns n out : ser_item ns out (I_class, VStr (s "." ++ n)) = rev [ch "."; mkS TIDENT n] ++ out.
Proof. reflexivity. Qed.

Lemma ser_negarg ns a out : NsOk ns -> ok_negarg ns a = true ->
  exists a', ser_acc ns (its_negarg ns a) out = rev (r_negarg a') ++ out /\ ok_negarg ns a' = true /\
             sp_negarg a' = sp_negarg a /\ hdS (rev (r_negarg a') ++ out) = false.
Proof.
  intros Hns. destruct a; cbn [ok_negarg its_negarg]; intros H.
  - apply andb_true_iff in H as [H1 H2]. exists (NaType (cq_of ns (uri_of ns q)) n).
    cbn [ser_acc fold_left]. unfold it_tname. rewrite ser_pair by discriminate. cbn [r_negarg ok_negarg sp_negarg].
    rewrite (declared_cq ns _ Hns), H2. repeat split. apply hdS_ns_name.
  - exists (NaUniv (cq_of ns (uri_of ns q))). cbn [ser_acc fold_left]. unfold it_univ. rewrite ser_univ.
    cbn [r_negarg ok_negarg sp_negarg]. rewrite (declared_cq ns _ Hns). repeat split. rewrite rev_app_distr. reflexivity.
  - exists (NaHash v). repeat split; assumption.
  - exists (NaClass n). repeat split; assumption.
  - exists (NaAttr (c_attr ns a)). rewrite ser_attr. cbn [r_negarg ok_negarg sp_negarg]. rewrite (ok_c_attr ns a Hns H).
    repeat split. unfold r_attr, ch. lsimp. reflexivity.
  - destruct (ser_pseudo ns p out H) as (p' & E & O & S1 & _ & Hh). exists (NaPseudo p'). repeat split; assumption.
Qed.

Lemma colon_not : colon_tokens (s ":not(") = [ch ":"; mkS TFUNCTION (s "not(")].
Proof. reflexivity. Qed.

Lemma ser_simple ns x out : NsOk ns -> ok_simple ns x = true ->
  exists x', ser_acc ns (its_simple ns x) out = rev (r_simple x') ++ out /\ ok_simple ns x' = true /\
             sp_simple x' = sp_simple x /\ hdS (rev (r_simple x') ++ out) = false.
Proof.
  intros Hns. destruct x; cbn [ok_simple its_simple]; intros H.
  - exists (SHash v). repeat split; assumption.
  - exists (SClass n). repeat split; assumption.
  - exists (SAttr (c_attr ns a)). rewrite ser_attr. cbn [r_simple ok_simple sp_simple]. rewrite (ok_c_attr ns a Hns H).
    repeat split. unfold r_attr, ch. lsimp. reflexivity.
  - apply andb_true_iff in H as [H1 H2]. destruct (ser_pseudo ns p out H1) as (p' & E & O & S1 & S2 & Hh).
    exists (SPseudo p'). cbn [r_simple ok_simple sp_simple]. rewrite O, S2, H2. repeat split; assumption.
  - do 2 (apply andb_true_iff in H; destruct H as [H ?]).
    rewrite ser_acc_cons. cbn [ser_item]. rewrite colon_not. rewrite ser_acc_app, ser_wsI, ser_acc_app.
    destruct (ser_negarg ns a (rev (r_cm (cmts w1)) ++ rev [ch ":"; mkS TFUNCTION (s "not(")] ++ out) Hns H1)
      as (a' & E & O & S1 & Hh).
    rewrite E. rewrite ser_acc_app, ser_wsI. cbn [ser_acc fold_left ser_item]. rewrite drop_S_no by (apply hdS_cm; exact Hh).
    exists (SNot (wcs (cmts w1)) a' (wcs (cmts w2))). cbn [r_simple ok_simple sp_simple].
    rewrite !r_ws_wcs, (ok_ws_wcs _ (ok_cm_cmts _ H)), O, (ok_ws_wcs _ (ok_cm_cmts _ H0)).
    split; [unfold ch; lsimp; reflexivity|]. split; [reflexivity|]. split; [exact S1|]. unfold ch. lsimp. reflexivity.
Qed.

Lemma ser_head ns h out : NsOk ns -> ok_head ns h = true ->
  exists h', ser_acc ns (its_head ns h) out = rev (r_head h') ++ out /\ ok_head ns h' = true /\
             sp_head h' = sp_head h /\ (h = HNone <-> h' = HNone) /\ (h <> HNone -> hdS (rev (r_head h') ++ out) = false).
Proof.
  intros Hns. destruct h; cbn [ok_head its_head]; intros H.
  - exists HNone. repeat split; auto. congruence.
  - apply andb_true_iff in H as [H1 H2]. exists (HType (cq_of ns (uri_of ns q)) n).
    cbn [ser_acc fold_left]. unfold it_tname. rewrite ser_pair by discriminate. cbn [r_head ok_head sp_head].
    rewrite (declared_cq ns _ Hns), H2. repeat split; try discriminate. intros _. apply hdS_ns_name.
  - exists (HUniv (cq_of ns (uri_of ns q))). cbn [ser_acc fold_left]. unfold it_univ. rewrite ser_univ.
    cbn [r_head ok_head sp_head]. rewrite (declared_cq ns _ Hns). repeat split; try discriminate.
    intros _. rewrite rev_app_distr. reflexivity.
Qed.

Lemma ser_rest ns l : forall out, NsOk ns -> forallb (fun p => ok_cm (fst p) && ok_simple ns (snd p)) l = true ->
  exists l', ser_acc ns (flat_map (fun p => its_cm (fst p) ++ its_simple ns (snd p)) l) out =
             rev (flat_map (fun p => r_cm (fst p) ++ r_simple (snd p)) l') ++ out /\
             forallb (fun p => ok_cm (fst p) && ok_simple ns (snd p)) l' = true /\
             sum3 (map (fun p => sp_simple (snd p)) l') = sum3 (map (fun p => sp_simple (snd p)) l) /\
             (l = [] <-> l' = []) /\
             (l <> [] -> hdS (rev (flat_map (fun p => r_cm (fst p) ++ r_simple (snd p)) l') ++ out) = false).
Proof.
  induction l as [|[cm x] l IH]; intros out Hns Hl.
  - exists []. repeat split; auto. congruence.
  - cbn [forallb fst snd] in Hl. apply andb_true_iff in Hl as [H1 H2]. apply andb_true_iff in H1 as [H0 H1].
    cbn [flat_map fst snd]. rewrite <- app_assoc, ser_acc_app, ser_cm, ser_acc_app.
    destruct (ser_simple ns x (rev (r_cm cm) ++ out) Hns H1) as (x' & E & O & S1 & Hh). rewrite E.
    destruct (IH (rev (r_simple x') ++ rev (r_cm cm) ++ out) Hns H2) as (l' & E2 & O2 & S2 & N2 & Hh2). rewrite E2.
    exists ((cm, x') :: l'). cbn [flat_map fst snd forallb map sum3 fold_right]. rewrite H0, O, O2, S1.
    split; [lsimp; reflexivity|]. split; [reflexivity|]. split; [f_equal; exact S2|]. split; [split; discriminate|].
    intros _. destruct l as [|y l0].
    + destruct N2 as [N2 _]. rewrite (N2 eq_refl). cbn [flat_map app]. rewrite app_nil_r. lsimp.
      lsimp_in Hh. exact Hh.
    + specialize (Hh2 ltac:(discriminate)). lsimp. lsimp_in Hh2. exact Hh2.
Qed.

Lemma ser_compound ns c out : NsOk ns -> ok_compound ns c = true ->
  exists c', ser_acc ns (its_compound ns c) out = rev (r_compound c') ++ out /\ ok_compound ns c' = true /\
             sp_compound c' = sp_compound c /\ hdS (rev (r_compound c') ++ out) = false.
Proof.
  intros Hns H. unfold ok_compound in H. do 3 (apply andb_true_iff in H; destruct H as [H ?]).
  rename H into Hh, H2 into Hr, H1 into Hp, H0 into Hne. apply negb_true_iff in Hne.
  unfold its_compound. rewrite ser_acc_app.
  destruct (ser_head ns (c_head c) out Hns Hh) as (h' & E1 & O1 & S1 & N1 & B1). rewrite E1. rewrite ser_acc_app.
  destruct (ser_rest ns (c_rest c) (rev (r_head h') ++ out) Hns Hr) as (l' & E2 & O2 & S2 & N2 & B2). rewrite E2.
  destruct (c_pe c) as [[cm p]|] eqn:Epe.
  - do 2 (apply andb_true_iff in Hp; destruct Hp as [Hp ?]). rewrite ser_acc_app, ser_cm.
    destruct (ser_pseudo ns p (rev (r_cm cm) ++ rev (flat_map (fun p0 => r_cm (fst p0) ++ r_simple (snd p0)) l') ++
                               rev (r_head h') ++ out) H0) as (p' & E3 & O3 & S3 & S4 & B3).
    rewrite E3. exists (mkCompound h' l' (Some (cm, p'))). unfold r_compound, ok_compound, sp_compound.
    cbn [c_head c_rest c_pe]. rewrite O1, O2, Hp, O3, S4, H, S1, S2, S3. cbn [andb].
    split; [lsimp; reflexivity|]. split; [destruct h', l'; reflexivity|]. split; [rewrite Epe; reflexivity|].
    lsimp. lsimp_in B3. exact B3.
  - cbn [ser_acc fold_left]. exists (mkCompound h' l' None). unfold r_compound, ok_compound, sp_compound.
    cbn [c_head c_rest c_pe]. rewrite O1, O2, S1, S2. cbn [andb].
    split; [lsimp; reflexivity|]. split; [|split; [rewrite Epe; reflexivity|]].
    + destruct (c_head c) eqn:Eh, (c_rest c) eqn:Er; try discriminate Hne;
        destruct h', l'; try reflexivity;
        try (destruct N1 as [_ N1]; specialize (N1 eq_refl); discriminate N1);
        try (destruct N2 as [_ N2]; specialize (N2 eq_refl); discriminate N2).
    + rewrite app_nil_r. destruct (c_rest c) as [|y l0] eqn:Er.
      * destruct N2 as [N2 _]. rewrite (N2 eq_refl). cbn [flat_map app]. rewrite app_nil_r. apply B1.
        destruct (c_head c); [discriminate Hne|discriminate|discriminate].
      * specialize (B2 ltac:(discriminate)). lsimp. lsimp_in B2. exact B2.
Qed.

(* ------------------------------------------------------------------ root-level layout *)
Definition dropW (ru : wsl) : wsl := match ru with WS _ :: r => r | _ => ru end.
Definition stepB (ru : wsl) (x : wtok) : wsl := match x with WS _ => WS (s " ") :: dropW ru | WC v => WC v :: ru end.
Definition nrmB (w : wsl) (ru : wsl) : wsl := fold_left stepB w ru.
Lemma drop_S_ru ru base : hdS base = false -> drop_S (map r_w ru ++ base) = map r_w (dropW ru) ++ base.
Proof.
  intros Hb. destruct ru as [|[v|v] r]; cbn [map app dropW r_w drop_S sty is_t tty_eqb]; try reflexivity.
  now apply drop_S_no.
Qed.
Lemma ser_wsB ns w : forall ru base, hdS base = false ->
  ser_acc ns (its_wsB w) (map r_w ru ++ base) = map r_w (nrmB w ru) ++ base.
Proof.
  induction w as [|x w IH]; intros ru base Hb; [reflexivity|]. cbn [its_wsB map]. rewrite ser_acc_cons.
  fold (its_wsB w). unfold nrmB. cbn [fold_left]. fold (nrmB w (stepB ru x)). rewrite <- (IH _ base Hb). f_equal.
  destruct x as [v|v]; cbn [ser_item it_desc it_comment stepB map r_w]; [|reflexivity].
  rewrite (drop_S_ru ru base Hb). reflexivity.
Qed.
Definition ok_wsl_b (ru : wsl) : bool := forallb ok_w ru.
Lemma ok_stepB ru x : ok_w x = true -> ok_wsl_b ru = true -> ok_wsl_b (stepB ru x) = true.
Proof.
  intros Hx Hr. destruct x as [v|v].
  - cbn [stepB]. change (ok_wsl_b (WS (s " ") :: dropW ru)) with (ok_wsl_b (dropW ru)).
    destruct ru as [|[u|u] r]; cbn [dropW]; auto. unfold ok_wsl_b in *. cbn [forallb] in Hr.
    apply andb_true_iff in Hr as [_ Hr]. exact Hr.
  - cbn [stepB]. unfold ok_wsl_b in *. cbn [forallb]. rewrite Hx. exact Hr.
Qed.
Lemma ok_nrmB w : forall ru, ok_ws w = true -> ok_wsl_b ru = true -> ok_wsl_b (nrmB w ru) = true.
Proof.
  induction w as [|x w IH]; intros ru Hw Hr; [exact Hr|]. cbn [ok_ws forallb] in Hw. apply andb_true_iff in Hw as [H1 H2].
  unfold nrmB. cbn [fold_left]. apply (IH _ H2). now apply ok_stepB.
Qed.
Definition isWS (x : wtok) : bool := match x with WS _ => true | _ => false end.
Lemma hasW_nrmB w : forall ru, existsb isWS ru = true \/ existsb isWS w = true -> existsb isWS (nrmB w ru) = true.
Proof.
  induction w as [|x w IH]; intros ru H; [destruct H; [assumption|discriminate]|].
  unfold nrmB. cbn [fold_left]. apply IH. destruct x as [v|v]; cbn [stepB].
  - left. reflexivity.
  - cbn [existsb isWS orb] in *. destruct H as [H|H]; [left; exact H|right; exact H].
Qed.
Lemma its_wsB_app a b : its_wsB (a ++ b) = its_wsB a ++ its_wsB b.
Proof. unfold its_wsB. apply map_app. Qed.
Lemma its_wsB_removelast w : removelast (its_wsB w) = its_wsB (removelast w).
Proof.
  induction w as [|x w IH]; [reflexivity|]. destruct w as [|y w]; [reflexivity|].
  change (its_wsB (x :: y :: w)) with (match x with WS _ => it_desc | WC v => it_comment v end :: its_wsB (y :: w)).
  change (removelast (x :: y :: w)) with (x :: removelast (y :: w)).
  change (its_wsB (x :: removelast (y :: w))) with (match x with WS _ => it_desc | WC v => it_comment v end :: its_wsB (removelast (y :: w))).
  rewrite <- IH. reflexivity.
Qed.
Lemma forallb_removelast {A} (f : A -> bool) l : forallb f l = true -> forallb f (removelast l) = true.
Proof.
  induction l as [|x l IH]; [reflexivity|]. destruct l as [|y l]; [reflexivity|].
  change (removelast (x :: y :: l)) with (x :: removelast (y :: l)). cbn [forallb]. intros H.
  apply andb_true_iff in H as [H1 H2]. rewrite H1. apply IH. exact H2.
Qed.
Lemma ok_ws_removelast w : ok_ws w = true -> ok_ws (removelast w) = true.
Proof. apply forallb_removelast. Qed.
Lemma ok_ws_rev w : ok_ws (rev w) = ok_ws w.
Proof. unfold ok_ws. apply forallb_rev. Qed.
Lemma r_ws_rev ru : r_ws (rev ru) = rev (map r_w ru).
Proof. unfold r_ws. apply map_rev. Qed.

Lemma ok_dropW ru : ok_wsl_b ru = true -> ok_wsl_b (dropW ru) = true.
Proof.
  destruct ru as [|[u|u] r]; cbn [dropW]; auto. unfold ok_wsl_b. cbn [forallb]. intros H.
  apply andb_true_iff in H as [_ H]. exact H.
Qed.

Lemma ser_comb_char ns w1 w2 x nm out : hdS out = false -> ok_ws w1 = true -> ok_ws w2 = true ->
  (nm = I_child \/ nm = I_adjacent_sibling \/ nm = I_following_sibling) ->
  exists a b, ser_acc ns ((if ends_WS w1 then removelast (its_wsB w1) else its_wsB w1) ++ (nm, VStr (s x)) :: its_wsI w2) out =
              rev (r_ws a ++ ch x :: r_ws b) ++ out /\ ok_ws a = true /\ ok_ws b = true.
Proof.
  intros Ho H1 H2 Hnm.
  set (w1' := if ends_WS w1 then removelast w1 else w1).
  assert (Ew : (if ends_WS w1 then removelast (its_wsB w1) else its_wsB w1) = its_wsB w1').
  { unfold w1'. destruct (ends_WS w1); [apply its_wsB_removelast|reflexivity]. }
  assert (Ow : ok_ws w1' = true) by (unfold w1'; destruct (ends_WS w1); [now apply ok_ws_removelast|exact H1]).
  rewrite Ew, ser_acc_app. pose proof (ser_wsB ns w1' [] out Ho) as E1. cbn [map app] in E1. rewrite E1.
  set (R1 := nrmB w1' []). assert (OR : ok_wsl_b R1 = true) by (apply ok_nrmB; [exact Ow|reflexivity]).
  rewrite ser_acc_cons.
  assert (E2 : ser_item ns (map r_w R1 ++ out) (nm, VStr (s x)) = sp_tok :: ch x :: sp_tok :: map r_w (dropW R1) ++ out).
  { destruct Hnm as [-> | [-> | ->]]; cbn [ser_item]; rewrite (drop_S_ru R1 out Ho); reflexivity. }
  rewrite E2, ser_wsI.
  exists (rev (dropW R1) ++ [WS (s " ")]), (WS (s " ") :: wcs (cmts w2)). split; [|split].
  - unfold r_ws at 1. rewrite map_app. fold (r_ws (rev (dropW R1))). rewrite r_ws_rev.
    cbn [r_ws map r_w]. fold (r_ws (wcs (cmts w2))). rewrite r_ws_wcs. unfold sp_tok. lsimp. rewrite rev_involutive.
    reflexivity.
  - unfold ok_ws. rewrite forallb_app. fold (ok_ws (rev (dropW R1))). rewrite ok_ws_rev.
    pose proof (ok_dropW R1 OR) as X. unfold ok_wsl_b in X. unfold ok_ws. rewrite X. reflexivity.
  - cbn [ok_ws forallb ok_w]. apply (ok_ws_wcs _ (ok_cm_cmts _ H2)).
Qed.

Lemma ser_comb ns cb out : hdS out = false -> ok_comb cb = true ->
  exists cb', ser_acc ns (its_comb cb) out = rev (r_comb cb') ++ out /\ ok_comb cb' = true.
Proof.
  intros Ho H. destruct cb; cbn [ok_comb its_comb] in *.
  - do 2 (apply andb_true_iff in H; destruct H as [H ?]).
    assert (Ei : its_wsB w1 ++ it_desc :: its_wsB w2 = its_wsB (w1 ++ WS sp :: w2)) by (rewrite its_wsB_app; reflexivity).
    rewrite Ei. pose proof (ser_wsB ns (w1 ++ WS sp :: w2) [] out Ho) as E1. cbn [map app] in E1. rewrite E1.
    set (R := nrmB (w1 ++ WS sp :: w2) []).
    assert (OR : ok_wsl_b R = true).
    { apply ok_nrmB; [|reflexivity]. unfold ok_ws. rewrite forallb_app. cbn [forallb ok_w]. unfold ok_ws in *.
      rewrite H, H1, H0. reflexivity. }
    assert (HW : existsb isWS (rev R) = true).
    { rewrite existsb_rev. apply hasW_nrmB. right. rewrite existsb_app. cbn. apply orb_true_r. }
    apply existsb_exists in HW as (y & Hin & Hy). destruct y as [v|v]; [|discriminate].
    apply in_split in Hin as (a & b & Eab).
    assert (Oab : ok_ws (a ++ WS v :: b) = true) by (rewrite <- Eab, ok_ws_rev; exact OR).
    unfold ok_ws in Oab. rewrite forallb_app in Oab. cbn [forallb ok_w] in Oab.
    apply andb_true_iff in Oab as [Oa Ob]. apply andb_true_iff in Ob as [Ov Ob].
    exists (CDesc a v b). split.
    + cbn [r_comb]. assert (X : r_ws a ++ mkS TS v :: r_ws b = r_ws (a ++ WS v :: b)) by (unfold r_ws; rewrite map_app; reflexivity).
      rewrite X, <- Eab, r_ws_rev, rev_involutive. reflexivity.
    + cbn [ok_comb]. unfold ok_ws. rewrite Oa, Ov, Ob. reflexivity.
  - apply andb_true_iff in H as [H1 H2].
    destruct (ser_comb_char ns w1 w2 ">" I_child out Ho H1 H2 (or_introl eq_refl)) as (a & b & E & Oa & Ob).
    exists (CChild a b). split; [exact E|]. cbn [ok_comb]. rewrite Oa, Ob. reflexivity.
  - apply andb_true_iff in H as [H1 H2].
    destruct (ser_comb_char ns w1 w2 "+" I_adjacent_sibling out Ho H1 H2 (or_intror (or_introl eq_refl))) as (a & b & E & Oa & Ob).
    exists (CAdj a b). split; [exact E|]. cbn [ok_comb]. rewrite Oa, Ob. reflexivity.
  - apply andb_true_iff in H as [H1 H2].
    destruct (ser_comb_char ns w1 w2 "~" I_following_sibling out Ho H1 H2 (or_intror (or_intror eq_refl))) as (a & b & E & Oa & Ob).
    exists (CSib a b). split; [exact E|]. cbn [ok_comb]. rewrite Oa, Ob. reflexivity.
Qed.

Lemma ser_more ns l : forall out, NsOk ns -> hdS out = false ->
  forallb (fun p => ok_comb (fst p) && ok_compound ns (snd p)) l = true ->
  exists l', ser_acc ns (flat_map (fun p => its_comb (fst p) ++ its_compound ns (snd p)) l) out =
             rev (flat_map (fun p => r_comb (fst p) ++ r_compound (snd p)) l') ++ out /\
             forallb (fun p => ok_comb (fst p) && ok_compound ns (snd p)) l' = true /\
             sum3 (map (fun p => sp_compound (snd p)) l') = sum3 (map (fun p => sp_compound (snd p)) l) /\
             hdS (rev (flat_map (fun p => r_comb (fst p) ++ r_compound (snd p)) l') ++ out) = false.
Proof.
  induction l as [|[cb cp] l IH]; intros out Hns Ho Hl.
  - exists []. repeat split; auto.
  - cbn [forallb fst snd] in Hl. apply andb_true_iff in Hl as [H1 H2]. apply andb_true_iff in H1 as [H0 H1].
    cbn [flat_map fst snd]. rewrite <- app_assoc, ser_acc_app.
    destruct (ser_comb ns cb out Ho H0) as (cb' & E1 & O1). rewrite E1. rewrite ser_acc_app.
    destruct (ser_compound ns cp (rev (r_comb cb') ++ out) Hns H1) as (cp' & E2 & O2 & S2 & B2). rewrite E2.
    destruct (IH _ Hns B2 H2) as (l' & E3 & O3 & S3 & B3). rewrite E3.
    exists ((cb', cp') :: l'). cbn [flat_map fst snd forallb]. rewrite O1, O2, O3.
    split; [lsimp; reflexivity|]. split; [reflexivity|]. split; [|lsimp; lsimp_in B3; exact B3].
    unfold sum3 in *. cbn [map fold_right fst snd]. rewrite S2, S3. reflexivity.
Qed.

(* ------------------------------------------------------------------ the whole selector *)
Theorem reparse_canon ns x : NsOk ns -> Declared ns x ->
  exists x', Declared ns x' /\ sp_selector x' = sp_selector x /\ render x' = ser_tokens ns (seq_of ns x).
Proof.
  intros Hns H. unfold Declared, declared_b in H. do 3 (apply andb_true_iff in H; destruct H as [H ?]).
  rename H into Hl, H2 into Hf, H1 into Hm, H0 into Ht.
  unfold ser_tokens, seq_of. rewrite ser_acc_app, ser_wsI, app_nil_r. rewrite ser_acc_app.
  destruct (ser_compound ns (s_first x) (rev (r_cm (cmts (s_lead x)))) Hns Hf) as (c' & E1 & O1 & S1 & B1). rewrite E1.
  rewrite ser_acc_app.
  destruct (ser_more ns (s_more x) _ Hns B1 Hm) as (m' & E2 & O2 & S2 & B2). rewrite E2.
  set (base := rev (flat_map (fun p => r_comb (fst p) ++ r_compound (snd p)) m') ++ rev (r_compound c') ++
               rev (r_cm (cmts (s_lead x)))) in *.
  set (t' := if ends_WS (s_trail x) then removelast (s_trail x) else s_trail x).
  assert (Et : (if ends_WS (s_trail x) then removelast (its_wsB (s_trail x)) else its_wsB (s_trail x)) = its_wsB t').
  { unfold t'. destruct (ends_WS (s_trail x)); [apply its_wsB_removelast|reflexivity]. }
  assert (Ot : ok_ws t' = true) by (unfold t'; destruct (ends_WS (s_trail x)); [now apply ok_ws_removelast|exact Ht]).
  rewrite Et. pose proof (ser_wsB ns t' [] base B2) as E3. cbn [map app] in E3. rewrite E3.
  rewrite (drop_S_ru _ base B2).
  set (R := dropW (nrmB t' [])).
  assert (OR : ok_wsl_b R = true) by (apply ok_dropW, ok_nrmB; [exact Ot|reflexivity]).
  exists (mkSel (wcs (cmts (s_lead x))) c' m' (rev R)). split; [|split].
  - unfold Declared, declared_b. cbn [s_lead s_first s_more s_trail].
    rewrite (ok_ws_wcs _ (ok_cm_cmts _ Hl)), O1, O2, ok_ws_rev. exact OR.
  - unfold sp_selector. cbn [s_first s_more]. rewrite S1, S2. reflexivity.
  - unfold render. cbn [s_lead s_first s_more s_trail]. rewrite r_ws_wcs, r_ws_rev. unfold base.
    lsimp. rewrite !rev_involutive. reflexivity.
Qed.

(* specificity is stable under serialise + re-parse (token level) *)
Theorem specificity_reparse_tokens_lemma ns x : NsOk ns -> Declared ns x ->
  wellformed (run ns (prepass (ser_tokens ns (seq_of ns x)))) = true /\
  spec (run ns (prepass (ser_tokens ns (seq_of ns x)))) = spec (run ns (prepass (render x))).
Proof.
  intros Hns H. destruct (reparse_canon ns x Hns H) as (x' & D' & S' & R'). rewrite <- R'.
  destruct (specificity_correct_lemma ns x' D') as [W1 P1]. destruct (specificity_correct_lemma ns x H) as [_ P2].
  split; [exact W1|]. rewrite P1, P2. unfold ids, classes_attrs_pseudoclasses, types_pseudoelements. rewrite S'. reflexivity.
Qed.

(* text level: with the tokenizer as a parameter.  The hypothesis says that the tokenizer reads the serialised text
   of a grammar selector as the token list ser_tokens describes; it is validated on every generated derivation by
   the correspondence (ser_seq = selectorText, and Tokenizer(selectorText) = ser_tokens). *)
Section TextLevel.
  Variable tokens_of : str -> list stok.
  Hypothesis ser_text_tokenizes : forall ns x t, NsOk ns -> Declared ns x ->
    ser_seq ns (seq_of ns x) = Some t -> tokens_of t = ser_tokens ns (seq_of ns x).

  Theorem specificity_reparse_lemma ns x t : NsOk ns -> Declared ns x ->
    ser_seq ns (seq (run ns (prepass (render x)))) = Some t ->
    wellformed (run ns (prepass (tokens_of t))) = true /\
    spec (run ns (prepass (tokens_of t))) = spec (run ns (prepass (render x))).
  Proof.
    intros Hns H Ht. rewrite (seq_is_expected_lemma ns x H) in Ht.
    rewrite (ser_text_tokenizes ns x t Hns H Ht). now apply specificity_reparse_tokens_lemma.
  Qed.
End TextLevel.
