(* Respell.v -- C10: the spellings CSS defines as equivalent, as relations over code-point
   strings, and the small functions of /repo that make them equivalent.

   Uses the shared tokenizer model (unicodesub, normalize, normalize_u, lower, finish_token over
   the regenerated regexes/tables).
   Hand-written here (line references to /repo/src/css_parser):
     priority_of        property.py:378        newpriority = self._normalize(new['literalpriority'])
     uritokenvalue      util.py:271-286        (after fix 7eb8545: content starts after the first paren)
     urivalue           helper.py:123-134
   util.Base._normalizeatkeyword (commit a785d04, the key CSSRule._setAtkeyword and the @media dispatch compare) is
   normalize after unicodesub = Tokenizer.normalize_u; the harness ties the two on every at-keyword case.
   Definitions only; proofs are in RespellFacts.v.                                          *)
From CssV Require Import Base Regex Gen.TokTables Gen.PyTables Tokenizer.

(* ------------------------------------------------------------------ string helpers modelled here
   helper.stringvalue (helper.py) and util.Base._stringtokenvalue (util.py) are the same expression
   value.replace('\\' + value[0], value[0])[1:-1]; transcribed by hand (the C03 builder's Gen/Quote.v holds a
   regenerated copy for its own theorems; this file does not depend on it) and compared with the implementation
   by the S / H commands of the function-level correspondence.                                          *)
Inductive res (A : Type) : Type := Ok (a : A) | Crash.      (* Crash = IndexError on value[0] *)
Arguments Ok {A} a.
Arguments Crash {A}.
Definition py_index0 (x : str) : res N := match x with c :: _ => Ok c | [] => Crash end.
(* x.replace(a, b), a non-empty: leftmost, non-overlapping; fuel S (length x) is never exhausted *)
Fixpoint py_replace_fuel (fuel : nat) (x a b : str) : str :=
  match fuel with
  | O => x
  | S f =>
    match x with
    | [] => []
    | c :: x' => if starts a x then b ++ py_replace_fuel f (skipn (length a) x) a b
                 else c :: py_replace_fuel f x' a b
    end
  end.
Definition py_replace (x a b : str) : str := py_replace_fuel (S (length x)) x a b.
Definition py_slice_nn (a b : nat) (x : str) : str := firstn (length x - a - b) (skipn a x).   (* x[a:len-b] *)
Definition hstringvalue (v : str) : res str :=
  match py_index0 v with Crash => Crash | Ok c => Ok (py_slice_nn 1 1 (py_replace v [92%N; c] [c])) end.
Definition stringtokenvalue (t : option tok) : res (option str) :=
  match t with
  | Some t => match hstringvalue (val t) with Crash => Crash | Ok v => Ok (Some v) end
  | None => Ok None
  end.

(* ------------------------------------------------------------------ character classes *)
Definition hex_ranges : list (N * N) := [(48, 57); (97, 102); (65, 70)]%N.          (* [0-9a-fA-F] *)
Definition ws_ranges : list (N * N) := [(9, 9); (13, 13); (10, 10); (12, 12); (32, 32)]%N.  (* [\t\r\n\f\x20] *)
Definition is_hexb (c : N) : bool := in_ranges c hex_ranges.
Definition is_wsb (c : N) : bool := in_ranges c ws_ranges.
Arguments is_hexb : simpl never.
Arguments is_wsb : simpl never.

(* the three generated regexes, spelled out (RespellFacts proves the generated ones ARE these, by
   reflexivity: an edit of the source patterns breaks that proof, not silently the theorems) *)
Definition re_hexrun : re := Rep (Cls false hex_ranges) 1 (Some 6).
Definition re_optws : re := Rep (Alt (Cat (Chr 13) (Chr 10)) (Cls false ws_ranges)) 0 (Some 1).
Definition my_unicodesub : re := Cat (Chr 92) (Cat re_hexrun re_optws).
Definition my_simpleescapes : re := Cat (Chr 92) (Cls true hex_ranges).

(* ------------------------------------------------------------------ case / literal-escape respelling *)
(* c' is c, or the other ASCII case of the ASCII letter c *)
Definition case_var (c c' : N) : Prop :=
  c' = c \/ ((65 <= c)%N /\ (c <= 90)%N /\ c' = (c + 32)%N) \/ ((97 <= c)%N /\ (c <= 122)%N /\ c' = (c - 32)%N).

(* s' spells s with: any ASCII letter in the other case; any non-hex character c written \c or
   an existing \c written c (c itself may change case); `\` followed by a hex digit (an unresolved
   hex escape, which normalize leaves alone) stays a unit; a trailing lone backslash stays.     *)
Inductive CaseOrLiteralRespelling : str -> str -> Prop :=
| cl_nil : CaseOrLiteralRespelling [] []
| cl_plain c c' x x' : c <> 92%N -> case_var c c' ->
    CaseOrLiteralRespelling x x' -> CaseOrLiteralRespelling (c :: x) (c' :: x')
| cl_esc c c' x x' : c <> 92%N -> is_hexb c = false -> case_var c c' ->
    CaseOrLiteralRespelling x x' -> CaseOrLiteralRespelling (c :: x) (92%N :: c' :: x')
| cl_unesc c c' x x' : c <> 92%N -> is_hexb c = false -> case_var c c' ->
    CaseOrLiteralRespelling x x' -> CaseOrLiteralRespelling (92%N :: c :: x) (c' :: x')
| cl_escesc c c' x x' : is_hexb c = false -> case_var c c' ->
    CaseOrLiteralRespelling x x' -> CaseOrLiteralRespelling (92%N :: c :: x) (92%N :: c' :: x')
| cl_hexesc h h' x x' : is_hexb h = true -> case_var h h' ->
    CaseOrLiteralRespelling x x' -> CaseOrLiteralRespelling (92%N :: h :: x) (92%N :: h' :: x')
| cl_trail : CaseOrLiteralRespelling [92%N] [92%N].

(* what normalize's substitution does, as a structural function (RespellFacts: strip_eq) *)
Fixpoint strip_spec (t : str) : str :=
  match t with
  | [] => []
  | x :: t' =>
    if N.eqb x 92 then
      match t' with
      | [] => [x]
      | c :: r => if is_hexb c then x :: strip_spec t' else c :: strip_spec r
      end
    else x :: strip_spec t'
  end.

(* ------------------------------------------------------------------ hex-escape respelling *)
(* the legal terminators of a hex escape: none, or one of  space tab \n \f \r  or \r\n *)
Inductive Terminator : str -> Prop :=
| tm_none : Terminator []
| tm_sp : Terminator [32%N]
| tm_tab : Terminator [9%N]
| tm_nl : Terminator [10%N]
| tm_ff : Terminator [12%N]
| tm_cr : Terminator [13%N]
| tm_crnl : Terminator [13%N; 10%N].

Definition head_not (p : N -> bool) (t : str) : Prop :=
  match t with [] => True | x :: _ => p x = false end.

(* the condition the proof forces on an escape of nd digits, terminator tm, followed by rest:
   - no terminator: the next character must not be whitespace of the class (it would be eaten), and
     when fewer than 6 digits are written it must not be a hex digit (it would be read as a digit);
   - terminator \r: the next character must not be \n (\r\n would be eaten as one terminator);
   - any other terminator: nothing.                                                             *)
Definition term_ok (nd : nat) (tm rest : str) : Prop :=
  match tm with
  | [] => head_not is_wsb rest /\ ((nd < 6)%nat -> head_not is_hexb rest)
  | [c] => if N.eqb c 13 then head_not (fun x => N.eqb x 10) rest else True
  | _ => True
  end.

Definition hexdigits (ds : str) : Prop := forallb is_hexb ds = true.

(* s' spells s with some characters c written as \ + 1..6 hex digits of value c + legal terminator
   (c <= sys.maxunicode); an escape above sys.maxunicode is not an escape at all: it stays verbatim
   (hr_over); a backslash that is written plainly must not be followed by a hex digit.            *)
Inductive HexRespelling : str -> str -> Prop :=
| hr_nil : HexRespelling [] []
| hr_plain c x x' : (c <> 92%N \/ head_not is_hexb x') ->
    HexRespelling x x' -> HexRespelling (c :: x) (c :: x')
| hr_esc c ds tm x x' : ds <> [] -> (length ds <= 6)%nat -> hexdigits ds -> hex_num ds = c ->
    (c <= maxunicode)%N -> Terminator tm -> term_ok (length ds) tm x' ->
    HexRespelling x x' -> HexRespelling (c :: x) (92%N :: ds ++ tm ++ x')
| hr_over ds tm x x' : ds <> [] -> (length ds <= 6)%nat -> hexdigits ds ->
    (maxunicode < hex_num ds)%N -> Terminator tm -> term_ok (length ds) tm x' ->
    HexRespelling x x' -> HexRespelling (92%N :: ds ++ tm ++ x) (92%N :: ds ++ tm ++ x').

(* what the unicodesub regex matches at the start of t, as a structural function *)
Fixpoint hexrun (n : nat) (t : str) : nat :=
  match n, t with
  | S n', x :: r => if is_hexb x then S (hexrun n' r) else O
  | _, _ => O
  end.
Definition wslen (t : str) : nat :=
  match t with
  | [] => O
  | x :: r => if N.eqb x 13 && (match r with y :: _ => N.eqb y 10 | [] => false end) then 2
              else if is_wsb x then 1 else O
  end.
Definition usub_len (t : str) : option nat :=
  match t with
  | [] => None
  | x :: r => if N.eqb x 92 then
                match hexrun 6 r with
                | O => None
                | S n => Some (S (S n + wslen (skipn (S n) r)))
                end
              else None
  end.

(* both kinds of respelling, hex escapes outermost (the tokenizer resolves them first) *)
Definition Respelling (name spelled : str) : Prop :=
  exists mid, CaseOrLiteralRespelling name mid /\ HexRespelling mid spelled.

(* ------------------------------------------------------------------ call sites modelled here *)
(* property.py:378 *)
Definition priority_of (literalpriority : str) : str := normalize literalpriority.

(* str.strip() with the interpreter's whitespace table *)
Definition is_pyspace (c : N) : bool := mem c py_space.
Arguments is_pyspace : simpl never.
Fixpoint lstrip (x : str) : str :=
  match x with c :: r => if is_pyspace c then lstrip r else x | [] => [] end.
Definition py_strip (x : str) : str := rev (lstrip (rev (lstrip x))).

(* x[x.find('(')+1:] : everything after the first paren; the whole string when there is none (find = -1) *)
Fixpoint after_paren_aux (x : str) : option str :=
  match x with
  | [] => None
  | c :: r => if N.eqb c 40 then Some r else after_paren_aux r
  end.
Definition after_paren (x : str) : str := match after_paren_aux x with Some r => r | None => x end.

Definition is_quote (c : N) : bool := N.eqb c 39 || N.eqb c 34.
Arguments is_quote : simpl never.

(* util.py:271-286 (uritokenvalue) and helper.py:123-134 (urivalue) compute the same function of the
   token value / of the url text:  content = v[v.find('(')+1:-1].strip(); a content that starts with a
   quote and ends with the same quote is unquoted by  .replace('\\'+q, q)[1:-1]                    *)
Definition uricontent (v : str) : str := py_strip (removelast (after_paren v)).
Definition unquote_if_quoted (u : str) : str :=
  match u with
  | [] => u
  | c :: _ => if is_quote c && N.eqb c (last u 0%N)
              then py_slice_nn 1 1 (py_replace u [92%N; c] [c]) else u
  end.
Definition urivalue (v : str) : str := unquote_if_quoted (uricontent v).

(* the spellings of a string / URL the theorems speak about *)
Definition escq (q : N) (v : str) : str := flat_map (fun c => if N.eqb c q then [92%N; q] else [c]) v.
Definition quoted (q : N) (v : str) : str := q :: escq q v ++ [q].
Definition url_bare (pre w1 v w2 : str) : str := pre ++ [40%N] ++ w1 ++ v ++ w2 ++ [41%N].
Definition url_quoted (pre w1 : str) (q : N) (v w2 : str) : str := pre ++ [40%N] ++ w1 ++ quoted q v ++ w2 ++ [41%N].
Definition string_token (v : str) : tok := mkTok (s "STRING") v v 1 1.

(* the spellings of one letter that the letter macros U R L of cssproductions.py list:
   both cases, \ + 0..4 zeros + the two code points in hex + optional terminator, and the literal
   escapes of both cases (offered by the macros for the non-hex letters only)                       *)
Definition zeros : list str := [[]; [48]; [48; 48]; [48; 48; 48]; [48; 48; 48; 48]]%N.
Definition terms : list str := [[]; [32]; [9]; [10]; [12]; [13]; [13; 10]]%N.
Definition hex_digit_spellings (d : N) : list N :=       (* both cases of one hex digit *)
  if (N.leb 97 d && N.leb d 102) then [d; N.sub d 32] else [d].
Definition hex2_spellings (c : N) : list str :=          (* c < 256 written with exactly two digits *)
  let dig (v : N) := if N.ltb v 10 then N.add v 48 else N.add v 87 in
  flat_map (fun a => map (fun b => [a; b]) (hex_digit_spellings (dig (N.modulo c 16))))
           (hex_digit_spellings (dig (N.div c 16))).
Definition letter_spellings (lo : N) : list str :=       (* lo = the lower-case ASCII letter *)
  let up := N.sub lo 32 in
  [[lo]; [up]; [92%N; lo]; [92%N; up]] ++
  flat_map (fun z => flat_map (fun h => map (fun t => 92%N :: z ++ h ++ t) terms)
                              (hex2_spellings lo ++ hex2_spellings up)) zeros.
Definition url_spellings : list str :=
  flat_map (fun u => flat_map (fun r => map (fun l => u ++ r ++ l) (letter_spellings 108))
                              (letter_spellings 114)) (letter_spellings 117).
