(* Globals.v -- C06: the process-global cells of css_parser and the brackets the public entry
   points implement around them.  Definitions only (proofs: GlobalsFacts.v).

   Cells (one record G):
     saved      css_parser.prodparser.savedTokens            (prodparser.py: module level, a stack: append/pop)
     pushed     css_parser.prodparser.tokenizer._pushed      (tokenize2.py Tokenizer.push/clear; drained by tokenize)
     raising    css_parser.log.raiseExceptions               (errorhandler.py; flipped by parse.py CSSParser.__parseSetting)
     ser/prefs/level/memo/sellevel
                css_parser.ser (identity), its .prefs (an abstract preference vector, whether the caller
                mutated it in place or replaced it; bit 0 of the code = prefs.indentSpecificities),
                ._level, the selector memo len(._selectors), ._selectorlevel          (serialize.py)
     dx         cssproductions.PRODUCTIONS contains the DXImageTransform production (settings.set)
     cache      tokenize2._TOKENIZER_CACHE: key -> compiled (macros, productions) configuration
     profile    css_parser.profile (the global Profiles object: addProfile/removeProfile/defaultProfiles), abstract
     logcfg     level and handlers of css_parser.log, abstract
     parsers    the CSSParser objects the caller has constructed: (the slot self.__globalRaising, where
                a tree keeps the flag on the object: written at construction and/or at parse entry;
                the raiseExceptions argument)  -- caller-owned, not a library global
   Not cells: util.Base's class-level tokenizer / productions and prodparser.tokenizer's compiled
   productions are fixed at import time (the translator checks that nothing assigns them afterwards).

   What a call *does* inside its bracket is not modelled: a body is an arbitrary strategy
   (list obs -> action) that sees every observation it has made so far and chooses the next primitive
   event on the cells; theorems quantify over all bodies.  The only thing the code is trusted for
   (and the harness checks on traced runs) is the shape of the primitive events and of the brackets,
   the latter regenerated from the source as a [sites] record (Gen/GlobalSites.v). *)
From CssV Require Import Base.

(* -------------------------------------------------------------------------------- bracket table *)
Record sites := mkSites {
  parse_sets_flag        : bool;  (* parseString/parseStyle write log.raiseExceptions on entry            *)
  parse_restores_normal  : bool;  (* ... write it back before a normal return                              *)
  parse_restores_exc     : bool;  (* ... and in a finally clause that covers the whole body                *)
  parse_saves_at_entry   : bool;  (* the value written back was read on entry (false: in CSSParser.__init__) *)
  parse_saved_in_frame   : bool;  (* ... and is kept in the frame of the running parse (returned by
                                     __parseSetting(True) and handed back), not on the parser object *)
  pp_clears_pushed       : bool;  (* ProdParser.__init__ (clear=True at every call site): tokenizer.clear()  *)
  pp_clears_saved        : bool;  (* ProdParser.__init__: del savedTokens[:]                                 *)
  comb_restores_normal   : bool;  (* csscombine: setSerializer(oldser) before the normal return              *)
  comb_restores_exc      : bool;  (* ... in a finally clause covering everything after the swap              *)
  level_restored_exc     : bool;  (* every  self._level += 1  is undone in a finally clause                  *)
  memo_guarded           : bool;  (* _selectors/_selectorlevel are touched only under prefs.indentSpecificities *)
  memo_scoped            : bool;  (* the selector memo lives for one serialization of one sheet: do_CSSStyleSheet
                                     starts from an empty memo and puts the previous one back in a finally
                                     clause; outside a sheet the memo is not used                            *)
  cache_key_full         : bool;  (* the key of _TOKENIZER_CACHE contains the macro definitions (not only their names) *)
  dx_clears_cache        : bool   (* settings.set clears the cache when it changes PRODUCTIONS (the key of the
                                     default configuration does not mention the content of PRODUCTIONS)       *)
}.

Definition well_bracketed (st : sites) : bool :=
  parse_restores_normal st && parse_restores_exc st && parse_saves_at_entry st && parse_saved_in_frame st &&
  pp_clears_pushed st && pp_clears_saved st &&
  comb_restores_normal st && comb_restores_exc st && level_restored_exc st && memo_guarded st &&
  memo_scoped st && cache_key_full st && dx_clears_cache st.

(* the tree as pinned (before the fix: commits of C06), transcribed by hand; used for the _refuted theorems *)
Definition pinned : sites :=
  mkSites true true false false false true false true false true true false true true.

(* -------------------------------------------------------------------------------- state *)
Definition tkey := (option (N * N) * option N)%type.   (* macros = (names, definitions), productions; None = default *)
Definition tcfg := ((N * N) * N)%type.                 (* the configuration a Tokenizer ends up running *)

Record G := mkG {
  saved : list N; pushed : list N; raising : bool;
  ser : N; prefs : N; level : Z; memo : N; sellevel : Z;
  dx : bool; parsers : list (bool * bool);
  profile : N; logcfg : N; cache : list (tkey * tcfg)
}.

(* the state after `import css_parser`: the default configuration has been compiled once (module-level tokenizers) *)
Definition G0 : G := mkG [] [] true 0%N 0%N 0%Z 0%N 0%Z false [] 0%N 0%N [((None, None), ((0, 0), 0))%N].

Definition indent_pref (p : N) : bool := N.odd p.

Definition set_stash (sv pu : list N) (g : G) : G :=
  mkG sv pu (raising g) (ser g) (prefs g) (level g) (memo g) (sellevel g) (dx g) (parsers g) (profile g) (logcfg g) (cache g).
Definition set_raising (b : bool) (g : G) : G :=
  mkG (saved g) (pushed g) b (ser g) (prefs g) (level g) (memo g) (sellevel g) (dx g) (parsers g) (profile g) (logcfg g) (cache g).
Definition set_ser (i p : N) (lv : Z) (m : N) (sl : Z) (g : G) : G :=
  mkG (saved g) (pushed g) (raising g) i p lv m sl (dx g) (parsers g) (profile g) (logcfg g) (cache g).
Definition set_prefs (p : N) (g : G) : G := set_ser (ser g) p (level g) (memo g) (sellevel g) g.
Definition set_level (lv : Z) (g : G) : G := set_ser (ser g) (prefs g) lv (memo g) (sellevel g) g.
Definition set_memo (m : N) (sl : Z) (g : G) : G := set_ser (ser g) (prefs g) (level g) m sl g.
Definition set_dx_cache (c : list (tkey * tcfg)) (g : G) : G :=
  mkG (saved g) (pushed g) (raising g) (ser g) (prefs g) (level g) (memo g) (sellevel g) true (parsers g) (profile g) (logcfg g) c.
Definition set_cache (c : list (tkey * tcfg)) (g : G) : G :=
  mkG (saved g) (pushed g) (raising g) (ser g) (prefs g) (level g) (memo g) (sellevel g) (dx g) (parsers g) (profile g) (logcfg g) c.
Definition set_parsers (ps : list (bool * bool)) (g : G) : G :=
  mkG (saved g) (pushed g) (raising g) (ser g) (prefs g) (level g) (memo g) (sellevel g) (dx g) ps (profile g) (logcfg g) (cache g).
Definition add_parser (p : bool * bool) (g : G) : G := set_parsers (parsers g ++ [p]) g.
Definition set_profile (p : N) (g : G) : G :=
  mkG (saved g) (pushed g) (raising g) (ser g) (prefs g) (level g) (memo g) (sellevel g) (dx g) (parsers g) p (logcfg g) (cache g).
Definition set_logcfg (l : N) (g : G) : G :=
  mkG (saved g) (pushed g) (raising g) (ser g) (prefs g) (level g) (memo g) (sellevel g) (dx g) (parsers g) (profile g) l (cache g).

(* -------------------------------------------------------------------------------- the tokenizer cache *)
(* tokenize2.py Tokenizer.__init__: hash_key = str((sorted(macros.items()) | macros, productions)) is computed from
   the ARGUMENTS (None stays None), the compiled configuration from the arguments with None replaced by the
   module-level MACROS / PRODUCTIONS (the latter changed by settings.set). *)
Definition resolve (dxv : bool) (m : option (N * N)) (p : option N) : tcfg :=
  (match m with Some x => x | None => (0, 0)%N end,
   match p with Some y => y | None => if dxv then 1%N else 0%N end).

Definition keyfn (st : sites) (m : option (N * N)) (p : option N) : tkey :=
  (if cache_key_full st then m else option_map (fun x => (fst x, 0%N)) m, p).

Definition eqb_oN (a b : option N) : bool :=
  match a, b with Some x, Some y => N.eqb x y | None, None => true | _, _ => false end.
Definition eqb_oNN (a b : option (N * N)) : bool :=
  match a, b with
  | Some (x1, x2), Some (y1, y2) => N.eqb x1 y1 && N.eqb x2 y2
  | None, None => true | _, _ => false end.
Definition eqb_key (a b : tkey) : bool := eqb_oNN (fst a) (fst b) && eqb_oN (snd a) (snd b).

Fixpoint lookup (k : tkey) (c : list (tkey * tcfg)) : option tcfg :=
  match c with [] => None | (k', v) :: r => if eqb_key k k' then Some v else lookup k r end.

(* -------------------------------------------------------------------------------- primitive events *)
Inductive ev :=
| EvInit                     (* ProdParser()                       prodparser.py ProdParser.__init__          *)
| EvPop                      (* token = savedTokens.pop()          prodparser.py parse loop (IndexError = none) *)
| EvSave (t : N)             (* savedTokens.append(token)          prodparser.py NoMatch + stopIfNoMoreMatch   *)
| EvPush (t : N)             (* tokenizer.push(token)              prodparser.py stopAndKeep / ParseError      *)
| EvTake                     (* the shared tokenizer's generator yields one pushed token  tokenize2.py:150     *)
| EvLog                      (* log.error/warn/...: reads log.raiseExceptions, level, handlers  errorhandler.py *)
| EvSer (m : N) (sl : Z)     (* one call into css_parser.ser: reads ser, prefs, _level, _selectorlevel and,
                                under indentSpecificities, the memo; under that preference it may replace
                                memo and _selectorlevel by (m, sl)                                              *)
| EvTok (m : option (N * N)) (p : option N)
                             (* Tokenizer(macros, productions): looks the key up in _TOKENIZER_CACHE, compiles and
                                stores on a miss; the tokenizer then runs the configuration it got             *)
| EvProf.                    (* property validation: reads css_parser.profile                                  *)

Inductive term := TRet | TExc | TFuel | TUninit | TNestSet.
(* TFuel: the body did not stop within the fuel; TUninit: the body touched the token stash / push-back
   list before constructing a ProdParser -- no code path does (ProdParser.parse is a method, the shared
   tokenizer is only used from ProdParser._texttotokens); the harness checks it on every traced call.
   TNestSet: a callback changed one of the caller's settings (excluded: settings are changed by the
   caller between calls, not from inside a fetcher / replacer / log handler). *)

Inductive obs :=
| ONone
| OTok (t : option N)
| OFlag (b : bool) (l : N)
| OSer (i p : N) (lv sl : Z) (mm : option N)
| OCfg (c : tcfg)
| OProf (p : N)
| ONest (r : list (list obs * term)).   (* what a nested public call made from a callback returned *)

(* A body may call back into the public API (a fetcher, a replaceUrls replacer, a log handler that
   parses): [Nest c] runs the whole bracket of c inside the running one, to any depth.  Bodies are
   strategies: they see every observation made so far. *)
Inductive action :=
| Do (e : ev) | Ret | Exc
| ExcInRule                        (* exception propagating out of do_CSSStyleRule between _level += 1 and -= 1 *)
| Nest (c : call)
with call :=
| CSetRaising (b : bool)            (* css_parser.log.raiseExceptions = b                            *)
| CSetSer (i p : N)                 (* css_parser.setSerializer(CSSSerializer(prefs p))  (a fresh object) *)
| CSetPrefs (p : N)                 (* css_parser.ser.prefs.<x> = v / useMinified() / useDefaults() / ser.prefs = Preferences(..) *)
| CSetDX                            (* settings.set('DXImageTransform.Microsoft', True)               *)
| CSetProfile (p : N)               (* css_parser.profile.addProfile / removeProfile / defaultProfiles = ... *)
| CSetLog (l : N)                   (* css_parser.log.setLevel / addHandler / removeHandler / setLog; CSSParser(log=, loglevel=) *)
| CNewParser (praise : bool) (l : option N)
                                    (* CSSParser(raiseExceptions=praise[, log=, loglevel=]): constructs a Tokenizer();
                                       with log arguments it also changes level/handlers of css_parser.log *)
| CParse (who : option nat) (b : list obs -> action)
    (* parseString/parseStyle (parseFile, parseUrl delegate) of the who-th parser object; None = the
       module-level functions, which construct CSSParser() on entry *)
| CCombine (fresh fp : N) (b1 bm b2 : list obs -> action)
    (* script.csscombine: parse (b1) with an internal CSSParser(), resolveImports + encoding (bm),
       then serialisation (b2) under a fresh serializer (fresh, fp) swapped in for the caller's *)
| CPlain (b : list obs -> action).  (* every other entry point: constructors, text setters, append*, getters,
                                       resolveImports, replaceUrls, Tokenizer(...) *)

Definition body := list obs -> action.

Definition reads_memo (st : sites) (g : G) : bool := indent_pref (prefs g) || negb (memo_guarded st).

(* None = TUninit *)
Definition do_ev (st : sites) (inited : bool) (e : ev) (g : G) : option (G * obs * bool) :=
  match e with
  | EvInit =>
      Some (set_stash (if pp_clears_saved st then [] else saved g)
                      (if pp_clears_pushed st then [] else pushed g) g, ONone, true)
  | EvPop => if inited then Some (set_stash (tl (saved g)) (pushed g) g, OTok (hd_error (saved g)), true) else None
  | EvSave t => if inited then Some (set_stash (t :: saved g) (pushed g) g, ONone, true) else None
  | EvPush t => if inited then Some (set_stash (saved g) (t :: pushed g) g, ONone, true) else None
  | EvTake => if inited then Some (set_stash (saved g) (tl (pushed g)) g, OTok (hd_error (pushed g)), true) else None
  | EvLog => Some (g, OFlag (raising g) (logcfg g), inited)
  | EvSer m sl =>
      Some (if reads_memo st g then set_memo m sl g else g,
            OSer (ser g) (prefs g) (level g) (sellevel g) (if reads_memo st g then Some (memo g) else None),
            inited)
  | EvTok m p =>
      let k := keyfn st m p in
      match lookup k (cache g) with
      | Some v => Some (g, OCfg v, inited)
      | None => let v := resolve (dx g) m p in Some (set_cache ((k, v) :: cache g) g, OCfg v, inited)
      end
  | EvProf => Some (g, OProf (profile g), inited)
  end.

(* Tokenizer() with the default tables, as constructed by CSSParser.__init__ *)
Definition tok_default (st : sites) (g : G) : G :=
  match do_ev st false (EvTok None None) g with Some (g', _, _) => g' | None => g end.

Definition is_setter (c : call) : bool :=
  match c with
  | CSetRaising _ | CSetSer _ _ | CSetPrefs _ | CSetDX | CSetProfile _ | CSetLog _ | CNewParser _ _ => true
  | _ => false
  end.

Definition res := list (list obs * term).

Definition is_ret (t : term) : bool := match t with TRet => true | _ => false end.

Fixpoint set_slot (n : nat) (v : bool) (ps : list (bool * bool)) : list (bool * bool) :=
  match n, ps with
  | O, (_, pr) :: r => (v, pr) :: r
  | S k, p :: r => p :: set_slot k v r
  | _, [] => []
  end.

(* the parse bracket: parse.py CSSParser.parseString / parseStyle around a body, whose execution is
   the argument [ex] (= the body run with the remaining fuel).
   The value written back at the end comes from
     - the frame of this activation              (parse_saves_at_entry && parse_saved_in_frame)
     - otherwise the parser object's slot self.__globalRaising, read when the parse ends; the slot is
       written at construction (parse_saves_at_entry = false: the pinned tree) or on every entry
       (parse_saves_at_entry = true, parse_saved_in_frame = false): a nested parse on the same object
       then overwrites it.
   who = None: the parser object is private to this activation (module-level functions, csscombine). *)
Definition parse_bracket (st : sites) (who : option nat) (praise : bool)
    (ex : G -> G * (list obs * term)) (g : G) : G * (list obs * term) :=
  let entryflag := raising g in
  let in_frame := parse_saves_at_entry st && parse_saved_in_frame st in
  let g0 := match who with
            | Some n => if parse_saves_at_entry st && negb (parse_saved_in_frame st)
                        then set_parsers (set_slot n entryflag (parsers g)) g else g
            | None => g
            end in
  let g1 := if parse_sets_flag st then set_raising praise g0 else g0 in
  let '(g2, r) := ex g1 in
  let restoreval := if in_frame then entryflag else
                    match who with
                    | Some n => match nth_error (parsers g2) n with Some p => fst p | None => entryflag end
                    | None => entryflag
                    end in
  let restore := if is_ret (snd r) then parse_restores_normal st else parse_restores_exc st in
  (if restore then set_raising restoreval g2 else g2, r).

(* the memo bracket of serialize.py do_CSSStyleSheet, abstracted to the activation: with memo_scoped a
   body starts from an empty selector memo and the previous one is put back when the body ends, however
   it ends (inside the body the memo may be carried from one serialization to the next: more than the
   code allows, which only makes the theorems stronger) *)
Definition memo_bracket (st : sites) (ex : G -> G * (list obs * term)) (g : G) : G * (list obs * term) :=
  if memo_scoped st then
    let '(g', r) := ex (set_memo 0 0 g) in (set_memo (memo g) (sellevel g) g', r)
  else ex g.

(* exec: one body; step: one call (bracket + bodies).  One fuel bounds the whole activation tree. *)
Fixpoint exec (st : sites) (fuel : nat) (b : body) (inited : bool) (os : list obs) (g : G) {struct fuel}
  : G * (list obs * term) :=
  match fuel with
  | O => (g, (os, TFuel))
  | S f =>
      match b os with
      | Ret => (g, (os, TRet))
      | Exc => (g, (os, TExc))
      | ExcInRule => (if level_restored_exc st then g else set_level (level g + 1) g, (os, TExc))
      | Do e =>
          match do_ev st inited e g with
          | None => (g, (os, TUninit))
          | Some (g', o, i') => exec st f b i' (os ++ [o]) g'
          end
      | Nest c =>
          if is_setter c then (g, (os, TNestSet)) else
          let '(g', r) := step st f c g in exec st f b inited (os ++ [ONest r]) g'
      end
  end
with step (st : sites) (fuel : nat) (c : call) (g : G) {struct fuel} : G * res :=
  match fuel with
  | O => (g, [([], TFuel)])
  | S f =>
  match c with
  | CSetRaising b => (set_raising b g, [])
  | CSetSer i p => (set_ser i p 0 0 0 g, [])
  | CSetPrefs p => (set_prefs p g, [])
  | CSetDX => (set_dx_cache (if dx_clears_cache st then [] else cache g) g, [])
  | CSetProfile p => (set_profile p g, [])
  | CSetLog l => (set_logcfg l g, [])
  | CNewParser praise l =>
      let g1 := match l with Some x => set_logcfg x g | None => g end in
      (add_parser (raising g, praise) (tok_default st g1), [])
  | CParse who b =>
      match who with
      | None => let '(g', r) := parse_bracket st None false (memo_bracket st (exec st f b false [])) g in (g', [r])
      | Some n => match nth_error (parsers g) n with
                  | Some p => let '(g', r) := parse_bracket st (Some n) (snd p) (memo_bracket st (exec st f b false [])) g in (g', [r])
                  | None => (g, [])          (* no such parser object: not a call *)
                  end
      end
  | CCombine fresh fp b1 bm b2 =>
      let '(g1, r1) := parse_bracket st None false (memo_bracket st (exec st f b1 false [])) g in
      if negb (is_ret (snd r1)) then (g1, [r1]) else
      let '(g2, rm) := memo_bracket st (exec st f bm false []) g1 in
      if negb (is_ret (snd rm)) then (g2, [r1; rm]) else
      let g3 := set_ser fresh fp 0 0 0 g2 in
      let '(g4, r2) := memo_bracket st (exec st f b2 false []) g3 in
      let restore := if is_ret (snd r2) then comb_restores_normal st else comb_restores_exc st in
      (if restore then set_ser (ser g2) (prefs g2) (level g2) (memo g2) (sellevel g2) g4 else g4, [r1; rm; r2])
  | CPlain b => let '(g', r) := memo_bracket st (exec st f b false []) g in (g', [r])
  end
  end.

Definition run (st : sites) (fuel : nat) (hist : list call) (g : G) : G :=
  fold_left (fun g c => fst (step st fuel c g)) hist g.
Definition result (st : sites) (fuel : nat) (g : G) (c : call) : res := snd (step st fuel c g).

Definition setters (hist : list call) : list call := filter is_setter hist.

(* what a caller can observe of the process-wide settings:
   raiseExceptions, serializer, its preferences, DX production, profiles, log level/handlers *)
Definition settings := (bool * N * N * bool * N * N)%type.
Definition observable (g : G) : settings := (raising g, ser g, prefs g, dx g, profile g, logcfg g).

Definition set_by (s : settings) (c : call) : settings :=
  let '(r, i, p, d, pf, l) := s in
  match c with
  | CSetRaising b => (b, i, p, d, pf, l)
  | CSetSer i' p' => (r, i', p', d, pf, l)
  | CSetPrefs p' => (r, i, p', d, pf, l)
  | CSetDX => (r, i, p, true, pf, l)
  | CSetProfile pf' => (r, i, p, d, pf', l)
  | CSetLog l' => (r, i, p, d, pf, l')
  | CNewParser _ (Some l') => (r, i, p, d, pf, l')
  | _ => s
  end.
Definition last_set_by_caller (hist : list call) : settings := fold_left set_by hist (observable G0).

(* the caller never switches the experimental indentSpecificities preference on (needed only for trees
   without memo_scoped) *)
Definition no_indent_call (c : call) : bool :=
  match c with CSetSer _ p | CSetPrefs p => negb (indent_pref p) | _ => true end.
Definition no_indent (hist : list call) : bool := forallb no_indent_call hist.

(* a body that replays a fixed list of actions (what the harness feeds the model with) *)
Definition script (l : list action) : body := fun os => nth (length os) l Ret.

(* -------------------------------------------------------------------------------- correspondence *)
(* One traced call of the implementation: the call, and the cells read after it. *)
Definition eqb_lN (a b : list N) : bool := eqs a b.
Definition eqb_G (a b : G) : bool :=
  eqb_lN (saved a) (saved b) && eqb_lN (pushed a) (pushed b) && Bool.eqb (raising a) (raising b) &&
  N.eqb (ser a) (ser b) && N.eqb (prefs a) (prefs b) && Z.eqb (level a) (level b) &&
  N.eqb (memo a) (memo b) && Z.eqb (sellevel a) (sellevel b) && Bool.eqb (dx a) (dx b) &&
  Nat.eqb (length (parsers a)) (length (parsers b)) &&
  N.eqb (profile a) (profile b) && N.eqb (logcfg a) (logcfg b) && Nat.eqb (length (cache a)) (length (cache b)).

Definition term_code (t : term) : nat :=
  match t with TRet => 0 | TExc => 1 | TFuel => 2 | TUninit => 3 | TNestSet => 4 end.

(* first index at which the model's post-state differs from the observed one, or a call whose replay
   ends in TFuel/TUninit/TNestSet at top level (the trace is not a behaviour of the model) *)
Fixpoint first_disagreement (st : sites) (fuel k : nat) (tr : list (call * G)) (g : G) : option nat :=
  match tr with
  | [] => None
  | (c, seen) :: tr' =>
      let '(g', r) := step st fuel c g in
      if existsb (fun x => Nat.leb 2 (term_code (snd x))) r then Some k
      else if eqb_G g' seen then first_disagreement st fuel (S k) tr' g' else Some k
  end.
