(* CodecStream.v -- codecs.getreader('css'): what DOES hold for the StreamReader.
   The class never learns that the stream ended, so it cannot equal the one-shot decoder (an undecided header or a
   truncated character at the end is simply not returned).  What holds:
     sr_chunking   how the stream is cut into read()s does not matter for what has been returned so far;
     sr_decided    once the header is decided, what has been returned is a PREFIX of the one-shot text, and the missing
                   rest is exactly what the underlying decoder would still emit when told `final` -- nothing is lost
                   or altered in between;
     sr_undecided  before that nothing is returned and every byte is kept. *)
From CssV Require Import Base CodecPyLib Gen.CodecFns Codec CodecConcrete CodecDetect CodecFacts.
Local Open Scope Z_scope.

Arguments rs_dec {dst} _.
Arguments rs_enc {dst} _.
Arguments rs_force {dst} _.
Arguments rs_bytes {dst} _.

(* the encoding chosen on a prefix is chosen again on every extension, also after it was stored as self.encoding *)
Lemma pick_stable enc force p q e :
  pick_encoding enc force p false = PEnc e -> pick_encoding (Some e) force (p ++ q) false = PEnc e.
Proof.
  unfold pick_encoding. destruct force; cbn [negb].
  - intros _. reflexivity.
  - replace (match enc with Some _ => true | None => true end) with true by (destruct enc; reflexivity).
    destruct (detect_total p false) as [[[e0|] x] Hd]; rewrite Hd; [|destruct enc; discriminate].
    rewrite (detect_monotone _ q false _ _ Hd). destruct (is_css e0); [destruct enc; discriminate|].
    destruct enc as [g|]; rewrite !andb_true_r.
    + destruct x; intros [= <-]; reflexivity.
    + intros [= <-]. destruct x; reflexivity.
Qed.

Section Stream.
  Variable dst : Type.
  Variable dinit : str -> option dst.
  Variable dstep : dst -> str -> bool -> dst * res str.
  Variable dshot : str -> str -> res str.
  Hypothesis dstep_concat : forall d a b fin d' o1, dstep d a false = (d', Ok o1) ->
    dstep d (a ++ b) fin =
    (fst (dstep d' b fin), match snd (dstep d' b fin) with Ok o2 => Ok (o1 ++ o2) | Err e => Err e end).
  Hypothesis dstep_error : forall d a b fin d' e, dstep d a false = (d', Err e) -> snd (dstep d (a ++ b) fin) = Err e.

  Notation sr_step := (sr_step dst dinit dstep).
  Notation sr_init := (sr_init dst).

  (* (ii) the header is decided on the bytes w: the text returned so far, completed by what the underlying decoder
     emits at `final`, IS the one-shot text *)
  Theorem sr_decided_thm enc force w st' r d' :
    sr_step (sr_init enc force) w = (st', Ok r) -> rs_dec st' = Some d' ->
    (forall e, pick_encoding enc force w true = PEnc e ->
       dshot e w = match dinit e with None => Err ELookup | Some d => snd (dstep d w true) end) ->
    decode dshot w enc force = match snd (dstep d' [] true) with Ok o2 => Ok (r ++ o2) | Err e => Err e end.
  Proof.
    unfold Codec.sr_step, Codec.sr_init. cbn [rs_dec rs_bytes rs_enc rs_force app].
    destruct w as [|c w]; [intros [= <- <-]; discriminate|]. set (data := c :: w).
    destruct (pick_encoding enc force data false) as [|x|e] eqn:Hp; try (intros [= <- <-]; discriminate); try discriminate.
    assert (Hpt : pick_encoding enc force data true = PEnc e).
    { destruct (pick_mono enc force data [] true) as [H|H]; [congruence|]. rewrite app_nil_r in H. congruence. }
    destruct (dinit e) as [d0|] eqn:Hi; [|discriminate].
    destruct (dstep d0 data false) as [d1 [o|x]] eqn:Hs; [|discriminate].
    destruct (fixencoding o (nosig e) false) as [t|] eqn:Hf; [|intros [= <- <-]; discriminate].
    intros [= <- <-]. cbn [rs_dec]. intros [= <-] Hshot.
    unfold decode. rewrite Hpt, (Hshot e Hpt), Hi.
    pose proof (dstep_concat _ _ [] true _ _ Hs) as Hc. rewrite app_nil_r in Hc. rewrite Hc. cbn [snd].
    destruct (snd (dstep d1 [] true)) as [o2|x]; [|reflexivity].
    rewrite fix_nosig in Hf. now rewrite (fix_monotone _ o2 _ true _ Hf).
  Qed.

  (* (iii) nothing was returned: no reader has been adopted, every byte is still there *)
  Theorem sr_undecided_thm enc force w st' r :
    sr_step (sr_init enc force) w = (st', Ok r) -> rs_dec st' = None -> r = [] /\ rs_bytes st' = w.
  Proof.
    unfold Codec.sr_step, Codec.sr_init. cbn [rs_dec rs_bytes rs_enc rs_force app].
    destruct w as [|c w]; [intros [= <- <-]; auto|]. set (data := c :: w).
    destruct (pick_encoding enc force data false) as [|x|e]; try (intros [= <- <-]; auto); try discriminate.
    destruct (dinit e) as [d0|]; [|discriminate].
    destruct (dstep d0 data false) as [d1 [o|x]]; [|discriminate].
    destruct (fixencoding o (nosig e) false) as [t|]; intros [= <- <-]; cbn [rs_dec rs_bytes]; [discriminate|auto].
  Qed.

  (* ---------------------------------------------------------------- (i) chunking *)
  Notation sr_trace := (sr_trace dst dinit dstep).

  Definition sr_body (st : rstate dst) (data : str) : rstate dst * res str :=
    match pick_encoding (rs_enc st) (rs_force st) data false with
    | PBuffer => (mkR dst None (rs_enc st) (rs_force st) data, Ok [])
    | PFail e => (st, Err e)
    | PEnc e =>
      match dinit e with
      | None => (mkR dst None (Some e) (rs_force st) data, Err ELookup)
      | Some d0 =>
        match snd (dstep d0 data false) with
        | Err x => (mkR dst None (Some e) (rs_force st) data, Err x)
        | Ok o =>
          match fixencoding o (nosig e) false with
          | None => (mkR dst None (Some e) (rs_force st) data, Ok [])
          | Some t => (mkR dst (Some (fst (dstep d0 data false))) (Some e) (rs_force st) [], Ok t)
          end
        end
      end
    end.

  Lemma sr_step_pre st nd : rs_dec st = None ->
    sr_step st nd = match rs_bytes st ++ nd with [] => (st, Ok []) | _ => sr_body st (rs_bytes st ++ nd) end.
  Proof.
    intros H. unfold Codec.sr_step, sr_body. rewrite H. destruct (rs_bytes st ++ nd) as [|c data]; [reflexivity|].
    destruct (pick_encoding (rs_enc st) (rs_force st) (c :: data) false) as [|x|e]; try reflexivity;
      destruct (dinit e) as [d0|]; try reflexivity; destruct (dstep d0 (c :: data) false) as [d1 [o|x]]; reflexivity.
  Qed.

  Lemma sr_body_ext st st2 data : rs_enc st2 = rs_enc st -> rs_force st2 = rs_force st ->
    snd (sr_body st2 data) = snd (sr_body st data).
  Proof.
    intros H1 H2. unfold sr_body. rewrite H1, H2.
    destruct (pick_encoding (rs_enc st) (rs_force st) data false) as [|x|e]; reflexivity.
  Qed.

  Lemma sr_merge st a b :
    snd (sr_step st (a ++ b)) = seqr (snd (sr_step st a)) (snd (sr_step (fst (sr_step st a)) b)).
  Proof.
    destruct (rs_dec st) as [d|] eqn:Hd.
    - unfold Codec.sr_step at 1 2 4. rewrite Hd.
      destruct (dstep d a false) as [d1 [o1|x]] eqn:Hs.
      + rewrite (dstep_concat _ _ b false _ _ Hs). cbn [fst snd seqr]. unfold Codec.sr_step. cbn [rs_dec].
        destruct (dstep d1 b false) as [d2 [o2|y]]; reflexivity.
      + pose proof (dstep_error _ _ b false _ _ Hs) as E. destruct (dstep d (a ++ b) false) as [d2 r2].
        cbn [snd] in *. subst. reflexivity.
    - rewrite !(sr_step_pre st _ Hd). rewrite app_assoc.
      destruct (rs_bytes st ++ a) as [|c data] eqn:Hda.
      + cbn [fst snd seqr app]. rewrite (sr_step_pre st _ Hd).
        apply app_eq_nil in Hda as [Hb ->]. rewrite Hb. cbn [app].
        destruct b as [|c b]; [reflexivity|]. destruct (snd (sr_body st (c :: b))); reflexivity.
      + set (x := c :: data) in *. assert (Hne : x ++ b <> []) by (subst x; discriminate).
        destruct (x ++ b) as [|c2 xb] eqn:Hxb; [congruence|]. rewrite <- Hxb. clear Hne.
        unfold sr_body at 1 2 3.
        destruct (pick_mono (rs_enc st) (rs_force st) x b false) as [Hp|Hp].
        * rewrite Hp. cbn [fst snd seqr]. rewrite sr_step_pre by reflexivity. cbn [rs_bytes]. rewrite Hxb, <- Hxb.
          rewrite (sr_body_ext st) by reflexivity.
          fold (sr_body st (x ++ b)). destruct (snd (sr_body st (x ++ b))); reflexivity.
        * rewrite Hp. destruct (pick_encoding (rs_enc st) (rs_force st) x false) as [|y|e] eqn:Hpx.
          -- cbn [fst snd seqr]. rewrite sr_step_pre by reflexivity. cbn [rs_bytes]. rewrite Hxb, <- Hxb.
             rewrite (sr_body_ext st) by reflexivity. unfold sr_body. rewrite Hp.
             reflexivity.
          -- reflexivity.
          -- destruct (dinit e) as [d0|] eqn:Hi; [|reflexivity].
             destruct (dstep d0 x false) as [d1 [o|y]] eqn:Hs; cbn [fst snd].
             ++ rewrite (dstep_concat _ _ b false _ _ Hs). cbn [fst snd].
                destruct (fixencoding o (nosig e) false) as [t|] eqn:Hf; cbn [fst snd seqr].
                ** unfold Codec.sr_step. cbn [rs_dec].
                   destruct (dstep d1 b false) as [d2 [o2|z]]; cbn [fst snd]; [|reflexivity].
                   now rewrite (fix_monotone _ o2 _ false _ Hf).
                ** rewrite sr_step_pre by reflexivity. cbn [rs_bytes]. rewrite Hxb, <- Hxb.
                   unfold sr_body. cbn [rs_enc rs_force]. rewrite (pick_stable _ _ _ b _ Hpx), Hi.
                   rewrite (dstep_concat _ _ b false _ _ Hs). cbn [fst snd].
                   destruct (snd (dstep d1 b false)) as [o2|z]; [|reflexivity].
                   destruct (fixencoding (o ++ o2) (nosig e) false); reflexivity.
             ++ pose proof (dstep_error _ _ b false _ _ Hs) as E. rewrite E. reflexivity.
  Qed.

  (* how the stream is cut into reads does not matter *)
  Theorem sr_chunking_thm chunks : forall st,
    collapse (sr_trace st chunks) = snd (sr_step st (concat chunks)).
  Proof.
    induction chunks as [|c r IH]; intros st.
    - cbn [Codec.sr_trace concat collapse]. destruct (snd (sr_step st [])); [now rewrite app_nil_r|reflexivity].
    - cbn [Codec.sr_trace concat]. rewrite sr_merge. specialize (IH (fst (sr_step st c))).
      destruct (sr_step st c) as [st' [o|e]]; cbn [fst snd seqr collapse] in *; [now rewrite IH|reflexivity].
  Qed.
End Stream.
