From CssV Require Import Base Tokenizer CodecPyLib Gen.CodecFns Codec.
