(* CodecFacts.v -- theorems about the css codec model: detection priority, @charset rewriting,
   chunking invariance of the incremental decoder / encoder, decode after encode. *)
From CssV Require Import Base CodecPyLib Gen.CodecFns Codec CodecDetect.
Local Open Scope Z_scope.

(* ================================================================== detection priority (all continuations) *)
Definition sig_name : str := s "utf-8-sig".
Definition utf16 : str := s "utf-16".
Definition utf32 : str := s "utf-32".

Ltac to4 := rewrite detect_4; rewrite (post_li _ _ 4) by (apply len4 || lia); unfold C4; cbn [eqs].
Ltac done_leaf := vm_compute; try match goal with |- context[if ?f then _ else _] => destruct f end; reflexivity.

Lemma bom_utf8sig r fin : detectencoding_str (239 :: 187 :: 191 :: r)%N fin = Some (Some sig_name, true).
Proof.
  destruct r as [|b3 r]; [rewrite detect_3; done_leaf|]. to4. sp3 b3; done_leaf.
Qed.

Lemma bom_utf16_be r fin : detectencoding_str (254 :: 255 :: r)%N fin = Some (Some utf16, true).
Proof.
  destruct r as [|b2 [|b3 r]]; [rewrite detect_2; done_leaf|rewrite detect_3; unfold C3; sp2 b2; done_leaf|].
  to4. sp2 b2; try solve [done_leaf]; sp3 b3; done_leaf.
Qed.

Lemma bom_utf16_le b2 b3 r fin : (b2 <> 0 \/ b3 <> 0)%N ->
  detectencoding_str (255 :: 254 :: b2 :: b3 :: r)%N fin = Some (Some utf16, true).
Proof.
  intros H. to4. sp2 b2; sp3 b3; try solve [done_leaf]; exfalso; destruct H as [H|H]; now apply H.
Qed.

Lemma bom_utf16_le_3 b2 fin : (b2 <> 0)%N -> detectencoding_str [255; 254; b2]%N fin = Some (Some utf16, true).
Proof. intros H. rewrite detect_3. unfold C3. sp2 b2; try solve [done_leaf]. now exfalso. Qed.

(* end of input right after ff fe (the repaired case) *)
Lemma bom_utf16_le_only : detectencoding_str [255; 254]%N true = Some (Some utf16, true).
Proof. reflexivity. Qed.
Lemma bom_utf16_le_only0 : detectencoding_str [255; 254; 0]%N true = Some (Some utf16, true).
Proof. reflexivity. Qed.

Lemma bom_utf32_le r fin : detectencoding_str (255 :: 254 :: 0 :: 0 :: r)%N fin = Some (Some utf32, true).
Proof. to4. done_leaf. Qed.

Lemma bom_utf32_be r fin : detectencoding_str (0 :: 0 :: 254 :: 255 :: r)%N fin = Some (Some utf32, true).
Proof. to4. done_leaf. Qed.

(* the rule head as it looks in UTF-16/32 without BOM (table at the top of _codec3.py): implicit detection *)
Lemma implicit_utf32_le r fin : detectencoding_str (64 :: 0 :: 0 :: 0 :: r)%N fin = Some (Some (s "utf-32-le"), false).
Proof. to4. done_leaf. Qed.
Lemma implicit_utf32_be r fin : detectencoding_str (0 :: 0 :: 0 :: 64 :: r)%N fin = Some (Some (s "utf-32-be"), false).
Proof. to4. done_leaf. Qed.
Lemma implicit_utf16_le r fin : detectencoding_str (64 :: 0 :: 99 :: 0 :: r)%N fin = Some (Some (s "utf-16-le"), false).
Proof. to4. done_leaf. Qed.
Lemma implicit_utf16_be r fin : detectencoding_str (0 :: 64 :: r)%N fin = Some (Some (s "utf-16-be"), false).
Proof.
  destruct r as [|b2 [|b3 r]]; [rewrite detect_2; done_leaf|rewrite detect_3; unfold C3; sp2 b2; done_leaf|].
  to4. sp2 b2; try solve [done_leaf]; sp3 b3; done_leaf.
Qed.

Lemma notin_find_none c x : ~ In c x -> find_char c x = None.
Proof.
  induction x as [|a x IH]; simpl; intros H; [reflexivity|].
  destruct (N.eqb a c) eqn:E; [apply N.eqb_eq in E; tauto|]. rewrite IH; tauto.
Qed.

Lemma charset_branch_hit e rest k : ~ In 34%N e ->
  charset_branch (prefix ++ e ++ 34%N :: rest) k = Some (Some e, true).
Proof.
  intros H. unfold charset_branch.
  assert (Hs : starts prefix (prefix ++ e ++ 34%N :: rest) = true) by (apply starts_spec; eauto).
  rewrite Hs. change (skipn 10 (prefix ++ e ++ 34%N :: rest)) with (e ++ 34%N :: rest).
  rewrite find_char_skip by exact H. rewrite firstn_app_lt by lia. now rewrite firstn_all.
Qed.

Lemma charset_branch_miss e k : ~ In 34%N e -> charset_branch (prefix ++ e) k = k.
Proof.
  intros H. unfold charset_branch.
  assert (Hs : starts prefix (prefix ++ e) = true) by (apply starts_spec; eauto).
  rewrite Hs. change (skipn 10 (prefix ++ e)) with e. now rewrite notin_find_none.
Qed.

Lemma post_charset input f :
  dpost 512 4 input f =
  charset_branch input (if f then Some (Some utf8, false) else Some (None, false)).
Proof.
  unfold dpost. cbv beta zeta. fold prefix. rewrite !charset_branch_eq.
  change (512 =? 0) with false. change (Z.land 512 (512 - 1) =? 0) with true.
  change (Z.land 512 2 =? 0) with true. cbn [Z.eqb Z.geb Z.compare Pos.compare Pos.compare_cont andb negb].
  destruct f; reflexivity.
Qed.

(* a leading  @charset "e"  rule names the encoding, whatever follows *)
Lemma charset_rule_detected e rest fin : ~ In 34%N e ->
  detectencoding_str (prefix ++ e ++ 34%N :: rest) fin = Some (Some e, true).
Proof.
  intros H.
  change (prefix ++ e ++ 34%N :: rest) with (64 :: 99 :: 104 :: 97 :: ([114; 115; 101; 116; 32; 34] ++ e ++ 34 :: rest))%N.
  rewrite detect_4. rewrite (post_li _ _ 4) by (apply len4 || lia).
  replace (C4 64 99 104 97) with 512 by (vm_compute; reflexivity).
  rewrite post_charset.
  change (64 :: 99 :: 104 :: 97 :: ([114; 115; 101; 116; 32; 34] ++ e ++ 34 :: rest))%N with (prefix ++ e ++ 34%N :: rest).
  now apply charset_branch_hit.
Qed.

(* an unterminated rule at end of input: UTF-8 *)
Lemma charset_unterminated e : ~ In 34%N e ->
  detectencoding_str (prefix ++ e) true = Some (Some utf8, false).
Proof.
  intros H.
  change (prefix ++ e) with (64 :: 99 :: 104 :: 97 :: ([114; 115; 101; 116; 32; 34] ++ e))%N.
  rewrite detect_4. rewrite (post_li _ _ 4) by (apply len4 || lia).
  replace (C4 64 99 104 97) with 512 by (vm_compute; reflexivity).
  rewrite post_charset.
  change (64 :: 99 :: 104 :: 97 :: ([114; 115; 101; 116; 32; 34] ++ e))%N with (prefix ++ e).
  now rewrite charset_branch_miss.
Qed.

(* no BOM byte, no '@', no NUL in front: UTF-8, implicitly, already on the first byte *)
Lemma default_utf8_first b0 r fin : (b0 <> 239 -> b0 <> 255 -> b0 <> 254 -> b0 <> 64 -> b0 <> 0 ->
  detectencoding_str (b0 :: r) fin = Some (Some utf8, false))%N.
Proof.
  intros H1 H2 H3 H4 H5.
  destruct r as [|b1 [|b2 [|b3 r]]];
    [rewrite detect_1; unfold C1|rewrite detect_2; unfold C2|rewrite detect_3; unfold C3|to4];
    sp0 b0; try contradiction; done_leaf.
Qed.

Lemma default_utf8_empty : detectencoding_str [] true = Some (Some utf8, false).
Proof. reflexivity. Qed.

(* ================================================================== _fixencoding / detectencoding_unicode *)
Lemma is_sig_utf8 : is_sig utf8 = false.
Proof. reflexivity. Qed.

Lemma nosig_idem e : nosig (nosig e) = nosig e.
Proof. unfold nosig. destruct (is_sig e) eqn:E; [|now rewrite E]. fold utf8. now rewrite is_sig_utf8. Qed.

Lemma fix_nosig t e f : fixencoding t (nosig e) f = fixencoding t e f.
Proof. rewrite !fix_eq. unfold fix_ref. now rewrite nosig_idem. Qed.

Lemma fix_final_some t e : exists r, fixencoding t e true = Some r.
Proof.
  rewrite fix_eq. unfold fix_ref. destruct (starts prefix t).
  - destruct (find_char 34%N (skipn 10 t)); eauto.
  - rewrite !orb_true_r. eauto.
Qed.

Lemma fix_monotone t u e fin r :
  fixencoding t e false = Some r -> fixencoding (t ++ u) e fin = Some (r ++ u).
Proof.
  rewrite !fix_eq. unfold fix_ref. destruct (starts prefix t) eqn:Hs.
  - pose proof (starts_prefix_len _ Hs) as Hl. rewrite (starts_app _ _ u Hs).
    rewrite skipn_app_le by exact Hl.
    destruct (find_char 34%N (skipn 10 t)) as [k|] eqn:Hf; [|discriminate].
    rewrite (find_char_app _ _ u _ Hf). intros H. inversion H; subst.
    apply find_char_lt in Hf. rewrite skipn_length in Hf.
    rewrite skipn_app_le by lia. unfold prefix. cbn [app]. now rewrite <- app_assoc.
  - rewrite orb_false_r. intros H.
    destruct (10 <? length t)%nat eqn:Hlt.
    + inversion H; subst. apply Nat.ltb_lt in Hlt.
      rewrite starts_app_long by (simpl; lia). rewrite Hs.
      assert (E : (10 <? length (r ++ u))%nat = true) by (apply Nat.ltb_lt; rewrite app_length; lia).
      now rewrite E.
    + simpl in H. destruct (starts t prefix) eqn:Hp; [discriminate|]. inversion H; subst.
      apply Nat.ltb_ge in Hlt.
      rewrite not_prefix_ext_starts by (simpl; lia || exact Hp).
      rewrite (not_prefix_ext _ _ u Hp). simpl. now rewrite orb_true_r.
Qed.

Lemma nth_error_skipn {A} (l : list A) k a : nth_error l k = Some a -> skipn k l = a :: skipn (S k) l.
Proof.
  revert k; induction l as [|x l IH]; intros [|k] H; simpl in *; try discriminate.
  - now inversion H.
  - now apply IH.
Qed.

Lemma skipn_add {A} a b (l : list A) : skipn (a + b) l = skipn b (skipn a l).
Proof.
  revert l; induction a as [|a IH]; intros l; simpl; [reflexivity|].
  destruct l as [|x l]; [now rewrite skipn_nil|apply IH].
Qed.

(* the rewrite is idempotent when the (normalised) name contains no double quote *)
Lemma fix_idem t e f r : ~ In 34%N (nosig e) ->
  fixencoding t e f = Some r -> fixencoding r e true = Some r.
Proof.
  intros Hq. rewrite !fix_eq. unfold fix_ref at 1. destruct (starts prefix t) eqn:Hs.
  - destruct (find_char 34%N (skipn 10 t)) as [k|] eqn:Hf.
    + intros H.
      assert (Hr : r = prefix ++ nosig e ++ skipn (10 + k) t) by congruence. clear H. rewrite Hr. clear Hr r.
      pose proof (find_char_nth _ _ _ Hf) as Hn. apply nth_error_skipn in Hn.
      rewrite skipn_add, Hn. unfold fix_ref.
      assert (Hs2 : starts prefix (prefix ++ nosig e ++ 34%N :: skipn (S k) (skipn 10 t)) = true)
        by (apply starts_spec; eauto).
      rewrite Hs2.
      change (skipn 10 (prefix ++ nosig e ++ 34%N :: skipn (S k) (skipn 10 t)))
        with (nosig e ++ 34%N :: skipn (S k) (skipn 10 t)).
      rewrite find_char_skip by exact Hq.
      do 2 f_equal.
      change (skipn (10 + length (nosig e)) (prefix ++ nosig e ++ 34%N :: skipn (S k) (skipn 10 t)))
        with (skipn (length (nosig e)) (nosig e ++ 34%N :: skipn (S k) (skipn 10 t))).
      rewrite skipn_app_le by lia. rewrite skipn_all. reflexivity.
    + destruct f; [|discriminate]. intros H. inversion H; subst. unfold fix_ref. now rewrite Hs, Hf.
  - intros H.
    assert (r = t) by (destruct ((10 <? length t)%nat || negb (starts t prefix) || f); now inversion H).
    subst. unfold fix_ref. rewrite Hs. now rewrite !orb_true_r.
Qed.

Lemma detectu_monotone p q fin e x :
  detectencoding_unicode p false = (Some e, x) -> detectencoding_unicode (p ++ q) fin = (Some e, x).
Proof.
  rewrite !detectu_eq. unfold detectu_ref. destruct (starts prefix p) eqn:Hs.
  - pose proof (starts_prefix_len _ Hs) as Hl. rewrite (starts_app _ _ q Hs).
    rewrite skipn_app_le by exact Hl.
    destruct (find_char 34%N (skipn 10 p)) as [k|] eqn:Hf; [|discriminate].
    rewrite (find_char_app _ _ q _ Hf). intros H. inversion H; subst.
    rewrite firstn_app_lt; [reflexivity|]. apply find_char_lt in Hf. lia.
  - rewrite orb_false_l. destruct (starts p prefix) eqn:Hp; cbn [negb]; [discriminate|]. intros H.
    assert (E1 : starts prefix (p ++ q) = false).
    { destruct (le_lt_dec (length p) 10) as [L|L].
      - apply not_prefix_ext_starts; [simpl; lia|exact Hp].
      - rewrite starts_app_long by (simpl; lia). exact Hs. }
    rewrite E1, (not_prefix_ext _ _ q Hp). cbn [negb]. rewrite orb_true_r. exact H.
Qed.

(* once the text-level detector has an answer, _fixencoding has one too *)
Lemma detectu_some_fix p e e' :
  fst (detectencoding_unicode p false) = Some e -> fixencoding p e' false = fixencoding p e' true.
Proof.
  rewrite detectu_eq, !fix_eq. unfold detectu_ref, fix_ref. destruct (starts prefix p) eqn:Hs.
  - destruct (find_char 34%N (skipn 10 p)); [reflexivity|discriminate].
  - simpl. destruct (starts p prefix); simpl; [discriminate|]. now rewrite !orb_true_r.
Qed.

(* ================================================================== which encoding is used *)
Lemma pick_explicit e input fin : pick_encoding (Some e) true input fin = PEnc e.
Proof. reflexivity. Qed.

Lemma pick_final_not_buffer enc force input : pick_encoding enc force input true <> PBuffer.
Proof.
  unfold pick_encoding. destruct (detect_final input) as [e [x He]]. rewrite He.
  destruct enc as [e'|]; [destruct force|]; cbn [negb]; try discriminate;
    destruct (is_css e); try discriminate; destruct (x && _); discriminate.
Qed.

Lemma pick_mono enc force p q fin :
  pick_encoding enc force p false = PBuffer \/
  pick_encoding enc force (p ++ q) fin = pick_encoding enc force p false.
Proof.
  unfold pick_encoding.
  destruct (match enc with None => true | Some _ => negb force end); [|now right].
  destruct (detect_total p false) as [[[e|] x] Hd]; rewrite Hd; [right|now left].
  now rewrite (detect_monotone _ q fin _ _ Hd).
Qed.

(* ================================================================== chunking invariance *)
Arguments ds_dec {dst} _.
Arguments ds_enc {dst} _.
Arguments ds_force {dst} _.
Arguments ds_buf {dst} _.
Arguments ds_fixed {dst} _.
Arguments es_enc {est} _.
Arguments es_encoding {est} _.
Arguments es_buf {est} _.

Section Facts.
  Variable dst : Type.
  Variable dinit : str -> option dst.
  Variable dstep : dst -> str -> bool -> dst * res str.
  Variable dshot : str -> str -> res str.
  Variable est : Type.
  Variable einit : str -> option est.
  Variable estep : est -> str -> bool -> est * res str.
  Variable eshot : str -> str -> res str.

  (* feeding a then b  ==  feeding a ++ b ; an error is final *)
  Hypothesis dstep_concat : forall d a b fin d' o1, dstep d a false = (d', Ok o1) ->
    dstep d (a ++ b) fin =
    (fst (dstep d' b fin), match snd (dstep d' b fin) with Ok o2 => Ok (o1 ++ o2) | Err e => Err e end).
  Hypothesis dstep_error : forall d a b fin d' e, dstep d a false = (d', Err e) -> snd (dstep d (a ++ b) fin) = Err e.
  (* one-shot = incremental from the initial state with final *)
  Hypothesis dshot_spec : forall e b,
    dshot e b = match dinit e with None => Err ELookup | Some d => snd (dstep d b true) end.
  Hypothesis estep_concat : forall d a b fin d' o1, estep d a false = (d', Ok o1) ->
    estep d (a ++ b) fin =
    (fst (estep d' b fin), match snd (estep d' b fin) with Ok o2 => Ok (o1 ++ o2) | Err e => Err e end).
  Hypothesis estep_error : forall d a b fin d' e, estep d a false = (d', Err e) -> snd (estep d (a ++ b) fin) = Err e.
  Hypothesis eshot_spec : forall e t,
    eshot e t = match einit e with None => Err ELookup | Some d => snd (estep d t true) end.

  Notation dec_with := (dec_with dst dstep).
  Notation dec_step := (dec_step dst dinit dstep).
  Notation dec_feed := (dec_feed dst dinit dstep).
  Notation enc_step := (enc_step est einit estep).
  Notation enc_feed := (enc_feed est einit estep).

  Definition seqr (r1 r2 : res str) : res str :=
    match r1 with
    | Ok o => match r2 with Ok o' => Ok (o ++ o') | Err e => Err e end
    | Err e => Err e
    end.

  Lemma dec_with_merge st d a b fin :
    snd (dec_with st d (a ++ b) fin) =
    seqr (snd (dec_with st d a false)) (snd (dec_step (fst (dec_with st d a false)) b fin)).
  Proof.
    unfold Codec.dec_with. destruct (ds_enc st) as [enc|] eqn:Henc; [|reflexivity].
    destruct (dstep d a false) as [d' [o1|e]] eqn:H1.
    2:{ pose proof (dstep_error _ _ b fin _ _ H1) as E. destruct (dstep d (a ++ b) fin) as [d2 r2].
        simpl in E. subst r2. reflexivity. }
    rewrite (dstep_concat _ _ b fin _ _ H1).
    destruct (ds_fixed st) eqn:Hfx.
    - cbn [fst snd]. unfold Codec.dec_step, Codec.dec_with. cbn [ds_dec ds_enc ds_fixed ds_buf ds_force].
      try rewrite Henc. destruct (dstep d' b fin) as [d2 [o2|e2]]; reflexivity.
    - destruct (fixencoding (ds_buf st ++ o1) (nosig enc) false) as [r1|] eqn:Hf1.
      + cbn [fst snd]. unfold Codec.dec_step, Codec.dec_with. cbn [ds_dec ds_enc ds_fixed ds_buf ds_force].
        try rewrite Henc. destruct (dstep d' b fin) as [d2 [o2|e2]]; cbn [fst snd]; [|reflexivity].
        rewrite app_assoc. rewrite (fix_monotone _ o2 _ fin _ Hf1). reflexivity.
      + cbn [fst snd]. unfold Codec.dec_step, Codec.dec_with. cbn [ds_dec ds_enc ds_fixed ds_buf ds_force].
        try rewrite Henc. destruct (dstep d' b fin) as [d2 [o2|e2]]; cbn [fst snd]; [|reflexivity].
        rewrite app_assoc.
        destruct (fixencoding ((ds_buf st ++ o1) ++ o2) (nosig enc) fin); reflexivity.
  Qed.

  Lemma dec_merge st a b fin :
    snd (dec_step st (a ++ b) fin) =
    seqr (snd (dec_step st a false)) (snd (dec_step (fst (dec_step st a false)) b fin)).
  Proof.
    unfold Codec.dec_step at 1 2 4. destruct (ds_dec st) as [d|] eqn:Hd; [apply dec_with_merge|].
    rewrite app_assoc.
    destruct (pick_mono (ds_enc st) (ds_force st) (ds_buf st ++ a) b fin) as [Hb|Hm].
    - rewrite Hb. cbn [fst snd seqr]. unfold Codec.dec_step. cbn [ds_dec ds_enc ds_force ds_buf ds_fixed].
      destruct (pick_encoding (ds_enc st) (ds_force st) ((ds_buf st ++ a) ++ b) fin) as [|e|e]; try reflexivity.
      destruct (dinit e); [|reflexivity].
      match goal with |- ?x = _ => destruct x end; reflexivity.
    - rewrite Hm. destruct (pick_encoding (ds_enc st) (ds_force st) (ds_buf st ++ a) false) as [|e|e] eqn:Hp.
      + cbn [fst snd seqr]. unfold Codec.dec_step. cbn [ds_dec ds_enc ds_force ds_buf ds_fixed]. rewrite Hm. reflexivity.
      + reflexivity.
      + destruct (dinit e) as [d|]; [|reflexivity]. apply dec_with_merge.
  Qed.

  Lemma dec_feed_merge chunks : forall st last,
    dec_feed st chunks last = snd (dec_step st (concat chunks ++ last) true).
  Proof.
    induction chunks as [|c r IH]; intros st last; [reflexivity|].
    cbn [Codec.dec_feed concat]. rewrite <- app_assoc, dec_merge.
    destruct (dec_step st c false) as [st' [o|e]]; cbn [fst snd seqr]; [|reflexivity].
    now rewrite IH.
  Qed.

  Lemma dec_single enc force input :
    snd (dec_step (dec_init dst enc force) input true) = decode dshot input enc force.
  Proof.
    unfold Codec.dec_step, dec_init, decode. cbn [ds_dec ds_enc ds_force ds_buf ds_fixed app].
    destruct (pick_encoding enc force input true) as [|e|e] eqn:Hp.
    - exfalso. eapply pick_final_not_buffer. exact Hp.
    - reflexivity.
    - rewrite dshot_spec. destruct (dinit e) as [d|]; [|reflexivity].
      unfold Codec.dec_with. cbn [ds_dec ds_enc ds_force ds_buf ds_fixed app].
      destruct (dstep d input true) as [d' [o|x]]; cbn [snd]; [|reflexivity].
      rewrite fix_nosig. destruct (fix_final_some o e) as [r Hr]. rewrite Hr. reflexivity.
  Qed.

  (* the same when the one-shot law is only known for the encoding and input at hand *)
  Lemma dec_single_cond enc force input :
    (forall e, pick_encoding enc force input true = PEnc e ->
       dshot e input = match dinit e with None => Err ELookup | Some d => snd (dstep d input true) end) ->
    snd (dec_step (dec_init dst enc force) input true) = decode dshot input enc force.
  Proof.
    intros Hshot. unfold Codec.dec_step, dec_init, decode. cbn [ds_dec ds_enc ds_force ds_buf ds_fixed app].
    destruct (pick_encoding enc force input true) as [|e|e] eqn:Hp.
    - exfalso. eapply pick_final_not_buffer. exact Hp.
    - reflexivity.
    - rewrite (Hshot e eq_refl). destruct (dinit e) as [d|]; [|reflexivity].
      unfold Codec.dec_with. cbn [ds_dec ds_enc ds_force ds_buf ds_fixed app].
      destruct (dstep d input true) as [d' [o|x]]; cbn [snd]; [|reflexivity].
      rewrite fix_nosig. destruct (fix_final_some o e) as [r Hr]. rewrite Hr. reflexivity.
  Qed.

  Theorem incdec_chunking_cond_thm enc force chunks last :
    (forall e, pick_encoding enc force (concat chunks ++ last) true = PEnc e ->
       dshot e (concat chunks ++ last) =
       match dinit e with None => Err ELookup | Some d => snd (dstep d (concat chunks ++ last) true) end) ->
    dec_feed (dec_init dst enc force) chunks last = decode dshot (concat chunks ++ last) enc force.
  Proof. intros H. rewrite dec_feed_merge. now apply dec_single_cond. Qed.

  (* THE decoder theorem: every way of cutting the byte stream gives the one-shot result *)
  Theorem incdec_chunking_thm enc force chunks last :
    dec_feed (dec_init dst enc force) chunks last = decode dshot (concat chunks ++ last) enc force.
  Proof. rewrite dec_feed_merge. apply dec_single. Qed.

  (* ---------------------------------------------------------------- encoder *)
  Lemma not_quote_utf8 : ~ In 34%N (nosig utf8).
  Proof. vm_compute. intuition discriminate. Qed.

  Lemma estep_merge e a b fin :
    snd (estep e (a ++ b) fin) =
    seqr (snd (estep e a false)) (snd (estep (fst (estep e a false)) b fin)).
  Proof.
    destruct (estep e a false) as [e' [o1|x]] eqn:H1.
    - rewrite (estep_concat _ _ b fin _ _ H1). cbn [fst snd seqr]. reflexivity.
    - rewrite (estep_error _ _ b fin _ _ H1). reflexivity.
  Qed.

  (* the tail of enc_step once encoding and (rewritten) input are known *)
  Definition enc_go (bufold : str) (enc : str) (input : str) (final : bool) : estate est * res str :=
    if is_css enc then (mkE est None (Some enc) bufold, Err EValue)
    else match einit enc with
         | None => (mkE est None (Some enc) bufold, Err ELookup)
         | Some e =>
           match (if is_sig enc then fixencoding input utf8 true else Some input) with
           | None => (mkE est (Some e) (Some enc) [], Err EType)
           | Some input => (mkE est (Some (fst (estep e input final))) (Some enc) [], snd (estep e input final))
           end
         end.

  Lemma enc_go_buf b1 b2 enc x f : snd (enc_go b1 enc x f) = snd (enc_go b2 enc x f).
  Proof.
    unfold enc_go. destruct (is_css enc); [reflexivity|]. destruct (einit enc); [|reflexivity].
    destruct (if is_sig enc then fixencoding x utf8 true else Some x); reflexivity.
  Qed.

  Lemma enc_go_merge bufold enc x b fin :
    (is_sig enc = true -> exists r, fixencoding x utf8 true = Some r /\ fixencoding (x ++ b) utf8 true = Some (r ++ b)) ->
    snd (enc_go bufold enc (x ++ b) fin) =
    seqr (snd (enc_go bufold enc x false)) (snd (enc_step (fst (enc_go bufold enc x false)) b fin)).
  Proof.
    intros Hsig. unfold enc_go. destruct (is_css enc); [reflexivity|].
    destruct (einit enc) as [e|]; [|reflexivity].
    assert (G : forall y, snd (estep e (y ++ b) fin) =
              seqr (snd (estep e y false))
                   (snd (enc_step (mkE est (Some (fst (estep e y false))) (Some enc) []) b fin))).
    { intros y. rewrite estep_merge. destruct (estep e y false) as [e' [o1|z]]; cbn [fst snd seqr]; [|reflexivity].
      unfold Codec.enc_step; cbn [es_enc]. destruct (estep e' b fin) as [e2 [o2|z]]; reflexivity. }
    destruct (is_sig enc) eqn:Hs.
    - destruct (Hsig eq_refl) as [r [H1 H2]]. rewrite H1, H2. cbn [fst snd]. apply G.
    - cbn [fst snd]. apply G.
  Qed.

  Lemma enc_step_unfold st input final :
    es_enc st = None ->
    enc_step st input final =
    match es_encoding st with
    | Some enc => match fixencoding (es_buf st ++ input) (nosig enc) final with
                  | None => (mkE est None (es_encoding st) (es_buf st ++ input), Ok [])
                  | Some ni => enc_go (es_buf st) enc ni final
                  end
    | None => match fst (detectencoding_unicode (es_buf st ++ input) final) with
              | None => if final then enc_go (es_buf st) utf8 (es_buf st ++ input) final
                        else (mkE est None None (es_buf st ++ input), Ok [])
              | Some enc => enc_go (es_buf st) enc (es_buf st ++ input) final
              end
    end.
  Proof.
    intros H. unfold Codec.enc_step, enc_go, utf8. rewrite H.
    destruct (es_encoding st) as [enc|].
    - destruct (fixencoding (es_buf st ++ input) (nosig enc) final) as [ni|]; [|reflexivity].
      destruct (is_css enc); [reflexivity|]. destruct (einit enc) as [e|]; [|reflexivity].
      match goal with |- context[if is_sig ?e then ?a else ?b] => destruct (if is_sig e then a else b) as [i|] end; [|reflexivity].
      destruct (estep e i final); reflexivity.
    - destruct (fst (detectencoding_unicode (es_buf st ++ input) final)) as [enc|]; cbv beta iota zeta.
      + destruct (is_css enc); [reflexivity|]. destruct (einit enc) as [e|]; [|reflexivity].
        match goal with |- context[if is_sig ?e then ?a else ?b] => destruct (if is_sig e then a else b) as [i|] end; [|reflexivity].
        destruct (estep e i final); reflexivity.
      + destruct final; [|reflexivity]. cbv beta iota zeta.
        destruct (is_css (s "utf-8")); [reflexivity|]. destruct (einit (s "utf-8")) as [e|]; [|reflexivity].
        match goal with |- context[if is_sig ?e then ?a else ?b] => destruct (if is_sig e then a else b) as [i|] end; [|reflexivity].
        destruct (estep e i true); reflexivity.
  Qed.

  Lemma enc_merge st a b fin :
    snd (enc_step st (a ++ b) fin) =
    seqr (snd (enc_step st a false)) (snd (enc_step (fst (enc_step st a false)) b fin)).
  Proof.
    destruct (es_enc st) as [e|] eqn:He.
    - unfold Codec.enc_step at 1 2 4. rewrite He.
      pose proof (estep_merge e a b fin) as M.
      destruct (estep e a false) as [e' [o1|x]]; destruct (estep e (a ++ b) fin) as [e2 r2];
        cbn [fst snd] in *; unfold Codec.enc_step; cbn [es_enc]; rewrite M;
        try reflexivity.
      destruct (estep e' b fin); reflexivity.
    - rewrite !(enc_step_unfold st _ _ He). rewrite app_assoc.
      destruct (es_encoding st) as [enc|] eqn:Henc.
      + destruct (fixencoding (es_buf st ++ a) (nosig enc) false) as [ni|] eqn:Hf.
        * rewrite (fix_monotone _ b _ fin _ Hf). apply enc_go_merge. intros Hs.
          assert (Hn : nosig enc = utf8) by (unfold nosig; now rewrite Hs).
          rewrite Hn in Hf. exists ni. split.
          -- eapply fix_idem; [apply not_quote_utf8|exact Hf].
          -- eapply fix_idem; [apply not_quote_utf8|]. apply (fix_monotone _ b _ fin _ Hf).
        * cbn [fst snd seqr]. rewrite enc_step_unfold by reflexivity. cbn [es_encoding es_buf].
          destruct (fixencoding ((es_buf st ++ a) ++ b) (nosig enc) fin) as [ni|]; [|reflexivity].
          rewrite (enc_go_buf (es_buf st ++ a) (es_buf st)).
          destruct (snd (enc_go (es_buf st) enc ni fin)); reflexivity.
      + destruct (detectencoding_unicode (es_buf st ++ a) false) as [[enc|] x] eqn:Hd.
        * rewrite (detectu_monotone _ b fin _ _ Hd). cbn [fst].
          (* sig: the whole prefix is fixed with final=True at detection time *)
          assert (Hfx : fixencoding (es_buf st ++ a) utf8 false = fixencoding (es_buf st ++ a) utf8 true)
            by (eapply detectu_some_fix; rewrite Hd; reflexivity).
          apply enc_go_merge. intros _.
          destruct (fix_final_some (es_buf st ++ a) utf8) as [r Hr]. exists r. split; [exact Hr|].
          rewrite Hr in Hfx. apply (fix_monotone _ b _ true _ Hfx).
        * cbn [fst snd seqr]. rewrite enc_step_unfold by reflexivity. cbn [es_encoding es_buf].
          destruct (fst (detectencoding_unicode ((es_buf st ++ a) ++ b) fin)) as [enc|];
            [|destruct fin; [|reflexivity]];
            rewrite (enc_go_buf (es_buf st ++ a) (es_buf st));
            match goal with |- _ = match ?x with _ => _ end => destruct x end; reflexivity.
  Qed.

  Lemma enc_feed_merge chunks : forall st last,
    enc_feed st chunks last = snd (enc_step st (concat chunks ++ last) true).
  Proof.
    induction chunks as [|c r IH]; intros st last; [reflexivity|].
    cbn [Codec.enc_feed concat]. rewrite <- app_assoc, enc_merge.
    destruct (enc_step st c false) as [st' [o|e]]; cbn [fst snd seqr]; [|reflexivity].
    now rewrite IH.
  Qed.

  Lemma enc_single enc input :
    snd (enc_step (enc_init est enc) input true) = encode eshot input enc.
  Proof.
    rewrite enc_step_unfold by reflexivity. unfold enc_init, encode, encode_with, enc_go.
    cbn [es_encoding es_buf app]. destruct enc as [enc|].
    - rewrite fix_nosig. destruct (fix_final_some input enc) as [r Hr]. rewrite Hr. cbv beta iota.
      destruct (is_css enc); [reflexivity|]. rewrite eshot_spec.
      destruct (einit enc) as [e|]; [|reflexivity].
      destruct (is_sig enc) eqn:Hs.
      + assert (Hn : nosig enc = utf8) by (unfold nosig; now rewrite Hs).
        rewrite <- fix_nosig, Hn in Hr. rewrite (fix_idem _ _ _ _ not_quote_utf8 Hr).
        reflexivity.
      + reflexivity.
    - fold utf8. destruct (fst (detectencoding_unicode input true)) as [enc|]; cbv beta iota.
      + destruct (is_css enc); [reflexivity|].
        destruct (is_sig enc); [destruct (fix_final_some input utf8) as [i Hi]; rewrite Hi|]; cbv beta iota;
          try rewrite eshot_spec; destruct (einit enc) as [e|]; try reflexivity.
      + destruct (is_css utf8); [reflexivity|]. rewrite is_sig_utf8. cbv beta iota. rewrite eshot_spec.
        destruct (einit utf8) as [e|]; reflexivity.
  Qed.

  (* THE encoder theorem *)
  Theorem incenc_chunking_thm enc chunks last :
    enc_feed (enc_init est enc) chunks last = encode eshot (concat chunks ++ last) enc.
  Proof. rewrite enc_feed_merge. apply enc_single. Qed.


  (* ---------------------------------------------------------------- StreamWriter: writes without a final call *)
  Lemma sw_chunking_thm r : forall st c,
    collapse (enc_trace_nf est einit estep st (c :: r)) = snd (enc_step st (c ++ concat r) false).
  Proof.
    induction r as [|c2 r IH]; intros st c.
    - cbn [Codec.enc_trace_nf concat]. rewrite app_nil_r.
      destruct (enc_step st c false) as [st' [o|e]]; cbn [collapse snd]; [now rewrite app_nil_r|reflexivity].
    - cbn [concat]. rewrite enc_merge. specialize (IH (fst (enc_step st c false)) c2).
      cbn [Codec.enc_trace_nf] in *.
      destruct (enc_step st c false) as [st' [o|e]]; cbn [fst snd seqr collapse] in *; [|reflexivity].
      now rewrite IH.
  Qed.

  (* the header is decided on the text t without knowing that it is complete *)
  Definition decided (enc : option str) (t : str) : Prop :=
    match enc with
    | Some e => fixencoding t (nosig e) false <> None
    | None => fst (detectencoding_unicode t false) <> None
    end.

  Lemma enc_go_final bufold enc x :
    (forall e y, snd (estep e y false) = snd (estep e y true)) ->
    snd (enc_go bufold enc x false) = snd (enc_go bufold enc x true).
  Proof.
    intros Hf. unfold enc_go. destruct (is_css enc); [reflexivity|]. destruct (einit enc); [|reflexivity].
    destruct (if is_sig enc then fixencoding x utf8 true else Some x); [|reflexivity]. cbn [snd]. apply Hf.
  Qed.

  (* once the header is decided a StreamWriter has written exactly what the one-shot encoder returns *)
  Theorem sw_decided_thm enc t :
    (forall e y, snd (estep e y false) = snd (estep e y true)) ->     (* encoders ignore `final` *)
    decided enc t ->
    snd (enc_step (enc_init est enc) t false) = encode eshot t enc.
  Proof.
    intros Hf Hd. rewrite <- enc_single. rewrite !enc_step_unfold by reflexivity.
    unfold enc_init. cbn [es_encoding es_buf app]. destruct enc as [e|]; cbn [decided] in Hd.
    - destruct (fixencoding t (nosig e) false) as [r|] eqn:Hr; [|congruence].
      pose proof (fix_monotone _ [] _ true _ Hr) as Hr'. rewrite !app_nil_r in Hr'. rewrite Hr'.
      now apply enc_go_final.
    - destruct (detectencoding_unicode t false) as [[e|] x] eqn:Hu; cbn [fst] in *; [|congruence].
      pose proof (detectu_monotone _ [] true _ _ Hu) as Hu'. rewrite app_nil_r in Hu'. rewrite Hu'. cbn [fst].
      now apply enc_go_final.
  Qed.

  (* ... and before that it has written nothing (the text is kept in its buffer) *)
  Theorem sw_undecided_thm enc t : ~ decided enc t -> snd (enc_step (enc_init est enc) t false) = Ok [].
  Proof.
    intros Hd. rewrite enc_step_unfold by reflexivity. unfold enc_init. cbn [es_encoding es_buf app].
    destruct enc as [e|]; cbn [decided] in Hd.
    - destruct (fixencoding t (nosig e) false); [exfalso; apply Hd; discriminate|reflexivity].
    - destruct (fst (detectencoding_unicode t false)); [exfalso; apply Hd; discriminate|reflexivity].
  Qed.

  (* ---------------------------------------------------------------- decode after encode *)
  Theorem decode_encode_thm e t b :
    (forall x y, eshot e x = Ok y -> dshot e y = Ok x) ->      (* the codec named e is invertible *)
    ~ In 34%N (nosig e) ->
    encode eshot t (Some e) = Ok b ->
    exists r, fixencoding t e true = Some r /\ decode dshot b (Some e) true = Ok r.
  Proof.
    intros Hinv Hq. unfold encode, encode_with, decode. rewrite pick_explicit.
    destruct (is_css e); [discriminate|].
    destruct (fixencoding t e true) as [r|] eqn:Hr; [|discriminate].
    intros Hb. exists r. split; [reflexivity|]. rewrite (Hinv _ _ Hb).
    now rewrite (fix_idem _ _ _ _ Hq Hr).
  Qed.
End Facts.

(* ================================================================== the hypotheses are satisfiable *)
(* a one-byte-per-character codec named "latin-1": stateless, never fails *)
Definition id_init (e : str) : option unit := if eqs e (s "latin-1") then Some tt else None.
Definition id_step (_ : unit) (b : str) (_ : bool) : unit * res str := (tt, Ok b).
Definition id_shot (e : str) (b : str) : res str := if eqs e (s "latin-1") then Ok b else Err ELookup.

Lemma id_concat d a b fin d' o1 : id_step d a false = (d', Ok o1) ->
  id_step d (a ++ b) fin =
  (fst (id_step d' b fin), match snd (id_step d' b fin) with Ok o2 => Ok (o1 ++ o2) | Err e => Err e end).
Proof. unfold id_step. intros [= <- <-]. reflexivity. Qed.
Lemma id_error d a b fin d' e : id_step d a false = (d', Err e) -> snd (id_step d (a ++ b) fin) = Err e.
Proof. unfold id_step. discriminate. Qed.
Lemma id_shot_spec e b :
  id_shot e b = match id_init e with None => Err ELookup | Some d => snd (id_step d b true) end.
Proof. unfold id_shot, id_init. destruct (eqs e (s "latin-1")); reflexivity. Qed.
