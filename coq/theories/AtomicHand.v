(* AtomicHand.v -- hand transcriptions of the setters translate/scripts.py refuses (C19).

   Property.cssValue  (css/property.py, _setCSSValue):

       @Deprecated('Use ``property.propertyValue`` instead.')
       def _setCSSValue(self, cssText):
           self._setPropertyValue(cssText)

   The translator refuses it because the property's fset is the wrapper closure built by
   helper.Deprecated (it cannot locate a plain def).  The wrapper only calls warnings.warn and then the
   function; the body is exactly one call of _setPropertyValue, i.e. the script of Property.propertyValue
   (generated).  Both modes of the _mediaQuery flag are listed, like the generated scripts.            *)
From CssV Require Import Base Atomic AtomicFacts AtomicLenient Gen.Scripts.
Open Scope string_scope.
Open Scope list_scope.

Definition lscript_Property_cssValue : lscript := LScope lscript_Property_propertyValue.
Definition lscript_Property_cssValue__mediaQuery_ : lscript := LScope lscript_Property_propertyValue__mediaQuery_.
Definition script_Property_cssValue : script := erase lscript_Property_cssValue.
Definition script_Property_cssValue__mediaQuery_ : script := erase lscript_Property_cssValue__mediaQuery_.

Definition hand_scripts : list (string * script) :=
  [ ("Property.cssValue", script_Property_cssValue);
    ("Property.cssValue[_mediaQuery]", script_Property_cssValue__mediaQuery_) ].

Definition hand_lscripts : list (string * lscript) :=
  [ ("Property.cssValue", lscript_Property_cssValue);
    ("Property.cssValue[_mediaQuery]", lscript_Property_cssValue__mediaQuery_) ].

(* every text setter of the anchored files: generated + hand-transcribed *)
Definition setters : list (string * script) := anchored_scripts ++ hand_scripts.
Definition lsetters : list (string * lscript) := anchored_lscripts ++ hand_lscripts.

Fixpoint names_in (ns : list string) (l : list (string * script)) : bool :=
  match ns with
  | [] => true
  | n :: r => existsb (fun p => String.eqb (fst p) n) l && names_in r l
  end.

(* ------------------------------------------------------------------ facts about the setter scripts
   (finite checks by vm_compute over the generated list; restated in props/C19.v)                   *)
(* no open finding in raising mode any more (CSSImportRule.cssText loads the imported sheet before it commits) *)
Definition open_finding (name : string) : bool := false.

Definition all_atomic_but_open : bool :=
  forallb (fun p : string * script => open_finding (fst p) || atomic (snd p)) setters.

Lemma all_atomic_but_open_true : all_atomic_but_open = true.
Proof. vm_compute. reflexivity. Qed.

Lemma setters_unchanged_partial :
  forall name s, In (name, s) setters -> open_finding name = false ->
    forall ro tr, exec ro s tr -> raises tr -> written tr = [].
Proof.
  intros name s Hin Hopen. apply atomic_sound.
  pose proof all_atomic_but_open_true as H. unfold all_atomic_but_open in H.
  rewrite forallb_forall in H. specialize (H _ Hin). cbn [fst snd] in H.
  apply orb_true_iff in H as [H|H]; [congruence|exact H].
Qed.

Lemma refused_are_transcribed : names_in refused_anchored hand_scripts = true.
Proof. vm_compute. reflexivity. Qed.

Lemma setters_unchanged :
  forall name s, In (name, s) setters ->
    forall ro tr, exec ro s tr -> raises tr -> written tr = [].
Proof. intros name s Hin. exact (setters_unchanged_partial name s Hin eq_refl). Qed.

Lemma repaired_setters_atomic :
  atomic script_CSSMediaRule_cssText = true /\ atomic script_MarginRule_cssText = true /\
  atomic script_Property_cssText = true /\ atomic script_Property_priority = true /\
  atomic script_MediaList_mediaText = true /\ atomic script_PropertyValue_cssText = true /\
  atomic script_ColorValue_cssText = true /\ atomic script_CSSNamespaceRule_cssText = true /\
  atomic script_CSSImportRule_href = true /\ atomic script_CSSImportRule_cssText = true.
Proof. vm_compute. repeat split; reflexivity. Qed.

(* ------------------------------------------------------------------ lenient mode (second theorem) *)
(* not covered by the lenient statement:
   - Property.cssText[_mediaQuery]: the `_mediaQuery and not valuetokens` shortcut resets value and priority although the
     name may have been rejected; the mode is selected by a private constructor flag that nothing in the library sets. *)
Definition lenient_excluded (name : string) : bool :=
  String.eqb name "Property.cssText[_mediaQuery]".

Definition all_lenient_but_excluded : bool :=
  forallb (fun p : string * lscript => lenient_excluded (fst p) || atomic_lenient (snd p)) lsetters.

Lemma all_lenient_but_excluded_true : all_lenient_but_excluded = true.
Proof. vm_compute. reflexivity. Qed.

Lemma lsetters_unchanged_partial :
  forall name s, In (name, s) lsetters -> lenient_excluded name = false ->
    forall ro ws f o, lexec ro s false (ws, f, o) -> f = true \/ o = ORaise -> ws = [].
Proof.
  intros name s Hin Hex. apply atomic_lenient_sound.
  pose proof all_lenient_but_excluded_true as H. unfold all_lenient_but_excluded in H.
  rewrite forallb_forall in H. specialize (H _ Hin). cbn [fst snd] in H.
  apply orb_true_iff in H as [H|H]; [congruence|exact H].
Qed.

(* the two lists describe the same setters: the raising-mode script is the erasure of the lenient one *)
Lemma setters_are_erased : map (fun p : string * lscript => (fst p, erase (snd p))) lsetters = setters.
Proof. reflexivity. Qed.

Lemma mq_shortcut_refuted : atomic_lenient lscript_Property_cssText__mediaQuery_ = false.
Proof. vm_compute. reflexivity. Qed.

(* the first theorem carried to the refined scripts through `erase` (lexec_erase): for every setter but the open finding,
   no execution of the refined script - whatever its commit flag did - writes to the object and then raises *)
Lemma lsetters_raise_unchanged_partial :
  forall name ls, In (name, ls) lsetters -> open_finding name = false ->
    forall ro fin ws f, lexec ro ls fin (ws, f, ORaise) -> ws = [].
Proof.
  intros name ls Hin Hopen ro fin ws f He.
  assert (In (name, erase ls) setters) as Hs.
  { rewrite <- setters_are_erased. apply (in_map (fun p : string * lscript => (fst p, erase (snd p))) _ _ Hin). }
  exact (setters_unchanged_partial name (erase ls) Hs Hopen ro (ws, ORaise) (lexec_erase _ _ _ _ He) eq_refl).
Qed.
