(* Selector.v -- hand-written model of css_parser.css.selector.Selector._setSelectorText
   (selector.py:195-790) over the constants regenerated into Gen/SelConsts.v.
   Input: the token list (type, value) the tokenizer produced; namespaces as an association list.
   Line references are to /repo/src/css_parser/css/selector.py.                                   *)
From CssV Require Import Base Gen.PyTables Tokenizer Gen.SelConsts.
From CssV Require Upto.

(* ------------------------------------------------------------------ token types *)
Inductive tty :=
| TIDENT | TFUNCTION | TCHAR | THASH | TSTRING | TNUMBER | TDIMENSION | TS | TCOMMENT | TATKEYWORD
| TPREFIXMATCH | TSUFFIXMATCH | TSUBSTRINGMATCH | TDASHMATCH | TINCLUDES | TEOF
| Tclass | Tpseudo_class | Tpseudo_element | Tnegation | Tuniversal | Tnamespace_prefix   (* synthetic, l.227-290 *)
| TOther.

Definition tty_table : list (str * tty) :=
  [(s "IDENT", TIDENT); (s "FUNCTION", TFUNCTION); (s "CHAR", TCHAR); (s "HASH", THASH); (s "STRING", TSTRING);
   (s "NUMBER", TNUMBER); (s "DIMENSION", TDIMENSION); (s "S", TS); (s "COMMENT", TCOMMENT);
   (s "ATKEYWORD", TATKEYWORD); (s "PREFIXMATCH", TPREFIXMATCH); (s "SUFFIXMATCH", TSUFFIXMATCH);
   (s "SUBSTRINGMATCH", TSUBSTRINGMATCH); (s "DASHMATCH", TDASHMATCH); (s "INCLUDES", TINCLUDES); (s "EOF", TEOF);
   (s "class", Tclass); (s "pseudo-class", Tpseudo_class); (s "pseudo-element", Tpseudo_element);
   (s "negation", Tnegation); (s "universal", Tuniversal); (s "namespace_prefix", Tnamespace_prefix)].

Fixpoint assoc_s {A} (x : str) (l : list (str * A)) : option A :=
  match l with [] => None | (k, v) :: r => if eqs k x then Some v else assoc_s x r end.
Fixpoint rassoc_t (t : tty) (l : list (str * tty)) (eqb : tty -> tty -> bool) : option str :=
  match l with [] => None | (k, v) :: r => if eqb v t then Some k else rassoc_t t r eqb end.

Definition tty_eqb (a b : tty) : bool :=
  match a, b with
  | TIDENT, TIDENT | TFUNCTION, TFUNCTION | TCHAR, TCHAR | THASH, THASH | TSTRING, TSTRING | TNUMBER, TNUMBER
  | TDIMENSION, TDIMENSION | TS, TS | TCOMMENT, TCOMMENT | TATKEYWORD, TATKEYWORD | TPREFIXMATCH, TPREFIXMATCH
  | TSUFFIXMATCH, TSUFFIXMATCH | TSUBSTRINGMATCH, TSUBSTRINGMATCH | TDASHMATCH, TDASHMATCH | TINCLUDES, TINCLUDES
  | TEOF, TEOF | Tclass, Tclass | Tpseudo_class, Tpseudo_class | Tpseudo_element, Tpseudo_element
  | Tnegation, Tnegation | Tuniversal, Tuniversal | Tnamespace_prefix, Tnamespace_prefix | TOther, TOther => true
  | _, _ => false
  end.

Definition tty_of_str (x : str) : tty := match assoc_s x tty_table with Some t => t | None => TOther end.
Definition tty_str (t : tty) : option str := rassoc_t t tty_table tty_eqb.

(* productions dict of the _parse call (l.740-762) + util's default EOF, regenerated *)
Definition handler_of (t : tty) : option handler :=
  match tty_str t with Some n => assoc_s n dispatch | None => None end.

Record stok := mkS { sty : tty; sval : str }.

(* ------------------------------------------------------------------ small string helpers *)
Fixpoint last_is (c : N) (v : str) : bool :=             (* v.endswith(chr c) *)
  match v with [] => false | x :: r => match r with [] => N.eqb x c | _ => last_is c r end end.

(* helper.normalize: strip the backslash of simple escapes (\ + non-hex char), then lower() *)
Definition is_hex (c : N) : bool :=
  (N.leb 48 c && N.leb c 57) || (N.leb 97 c && N.leb c 102) || (N.leb 65 c && N.leb c 70).
Fixpoint unesc (x : str) : str :=
  match x with
  | [] => []
  | c :: r => if N.eqb c 92
              then match r with
                   | d :: r' => if is_hex d then c :: unesc r else d :: unesc r'
                   | [] => [c]
                   end
              else c :: unesc r
  end.
Definition normalize (x : str) : str := lower (unesc x).

(* Base._stringtokenvalue (util.py:258-269):  value.replace('\\'+value[0], value[0])[1:-1] ; IndexError on '' *)
Fixpoint repl_q (q : N) (v : str) : str :=
  match v with
  | [] => []
  | c :: r => if N.eqb c 92
              then match r with
                   | d :: r' => if N.eqb d q then q :: repl_q q r' else c :: repl_q q r
                   | [] => [c]
                   end
              else c :: repl_q q r
  end.
Definition strval (v : str) : option str :=
  match v with [] => None | q :: _ => Some (removelast (tl (repl_q q v))) end.

(* helper.unescape (prefix before the namespace lookup, l.355): the backslash before g-z G-Z _ non-ASCII, and before
   "-" unless that backslash starts the string, is removed; case and every other escape are kept *)
Definition nameesc (d : N) (first : bool) : bool :=
  (N.leb 103 d && N.leb d 122) || (N.leb 71 d && N.leb d 90) || N.eqb d 95 || N.leb 128 d || (N.eqb d 45 && negb first).
Fixpoint unesc_name (first : bool) (x : str) : str :=
  match x with
  | [] => []
  | c :: r => if N.eqb c 92
              then match r with
                   | d :: r' => if nameesc d first then d :: unesc_name false r' else c :: unesc_name false r
                   | [] => [c]
                   end
              else c :: unesc_name false r
  end.

(* val.split('|') unpacked into two names: ValueError unless exactly one '|' *)
Fixpoint split_bar (v : str) : option (str * str) :=
  match v with
  | [] => None
  | c :: r => if N.eqb c 124 then (if mem 124 r then None else Some ([], r))
              else match split_bar r with Some (a, b) => Some (c :: a, b) | None => None end
  end.

(* ------------------------------------------------------------------ pre-pass (l.235-292) *)
Definition is_t (a b : tty) := tty_eqb a b.
Definition pseudo_ty (pv : str) : tty := if starts (s "::") pv then Tpseudo_element else Tpseudo_class.

(* acc is the list `tokens` reversed: its head is tokens[-1] *)
Definition pstep (acc : list stok) (t : stok) : list stok :=
  let typ := sty t in
  let val := sval t in
  match acc with
  | [] => if eqs val (s "*") then [mkS Tuniversal val]                                   (* l.275 *)
          else if eqs val (s "|") then [mkS Tnamespace_prefix val]                       (* l.285 *)
          else [t]
  | p :: acc' =>
    let pv := sval p in
    if eqs val (s ":") && eqs pv (s ":") then mkS typ (s "::") :: acc'                   (* l.238 *)
    else if is_t typ TIDENT && eqs pv (s ".") then mkS Tclass (s "." ++ val) :: acc'     (* l.243 *)
    else if is_t typ TIDENT && starts (s ":") pv && negb (last_is 40 pv)
         then mkS (pseudo_ty pv) (pv ++ val) :: acc'                                     (* l.247 *)
    else if is_t typ TFUNCTION && eqs (normalize val) (s "not(") && eqs (s ":") pv
         then mkS Tnegation (s ":" ++ val) :: acc'                                       (* l.257 *)
    else if is_t typ TFUNCTION && starts (s ":") pv
         then mkS (pseudo_ty pv) (pv ++ val) :: acc'                                     (* l.260 *)
    else if eqs val (s "*") && is_t (sty p) Tnamespace_prefix && last_is 124 pv
         then mkS Tuniversal (pv ++ val) :: acc'                                         (* l.269 *)
    else if eqs val (s "*") then mkS Tuniversal val :: acc                               (* l.275 *)
    else if eqs val (s "|") && (is_t (sty p) TIDENT || is_t (sty p) Tuniversal) && negb (mem 124 pv)
         then mkS Tnamespace_prefix (pv ++ s "|") :: acc'                                (* l.279 *)
    else if eqs val (s "|") then mkS Tnamespace_prefix val :: acc                        (* l.285 *)
    else t :: acc
  end.

Definition prepass (ts : list stok) : list stok := rev (fold_left pstep ts []).

(* ------------------------------------------------------------------ machine state *)
Inductive cx := CAttrib | CNegation | CPseudoClass | CPseudoElement.     (* '' (root) = empty stack *)

Inductive ityp :=
| I_COMMENT | I_S | I_descendant | I_universal | I_PREFIX | I_pseudo_class | I_pseudo_element
| I_NUMBER | I_DIMENSION | I_STRING | I_IDENT
| I_prefixmatch | I_suffixmatch | I_substringmatch | I_dashmatch | I_includes
| I_attribute_selector | I_attribute_value | I_negation_type_selector | I_type_selector | I_class | I_id
| I_attribute_end | I_equals | I_negation_end | I_plus | I_minus | I_function_end | I_attribute_start
| I_child | I_adjacent_sibling | I_following_sibling | I_negation_start.

Definition ityp_str (t : ityp) : str :=
  match t with
  | I_COMMENT => s "COMMENT" | I_S => s "S" | I_descendant => s "descendant" | I_universal => s "universal"
  | I_PREFIX => s "_PREFIX" | I_pseudo_class => s "pseudo-class" | I_pseudo_element => s "pseudo-element"
  | I_NUMBER => s "NUMBER" | I_DIMENSION => s "DIMENSION" | I_STRING => s "STRING" | I_IDENT => s "IDENT"
  | I_prefixmatch => s "prefixmatch" | I_suffixmatch => s "suffixmatch" | I_substringmatch => s "substringmatch"
  | I_dashmatch => s "dashmatch" | I_includes => s "includes"
  | I_attribute_selector => s "attribute-selector" | I_attribute_value => s "attribute-value"
  | I_negation_type_selector => s "negation-type-selector" | I_type_selector => s "type-selector"
  | I_class => s "class" | I_id => s "id" | I_attribute_end => s "attribute-end" | I_equals => s "equals"
  | I_negation_end => s "negation-end" | I_plus => s "plus" | I_minus => s "minus"
  | I_function_end => s "function-end" | I_attribute_start => s "attribute-start" | I_child => s "child"
  | I_adjacent_sibling => s "adjacent-sibling" | I_following_sibling => s "following-sibling"
  | I_negation_start => s "negation-start"
  end.

Inductive nsuri := UAny | UNone | UStr (u : str).          (* css_parser._ANYNS, None, a URI *)
Inductive ival := VStr (v : str) | VPair (u : nsuri) (n : str) | VComment (v : str).
Definition item := (ityp * ival)%type.

Record st := mkSt {
  expd : exp;             (* `expected` *)
  ctx : list cx;          (* new['context'] without the bottom '' ; head = [-1] *)
  pfx : option str;       (* new['_PREFIX'] *)
  spb : nat; spc : nat; spd : nat;   (* new['specificity'][1..3] *)
  wf : bool;              (* new['wellformed'] and _parse's wellformed *)
  sq : list item          (* seq, reversed *)
}.

Definition set_e (e : exp) (σ : st) : st := mkSt e (ctx σ) (pfx σ) (spb σ) (spc σ) (spd σ) (wf σ) (sq σ).
Definition set_ctx (c : list cx) (σ : st) : st := mkSt (expd σ) c (pfx σ) (spb σ) (spc σ) (spd σ) (wf σ) (sq σ).
Definition set_pfx (p : option str) (σ : st) : st := mkSt (expd σ) (ctx σ) p (spb σ) (spc σ) (spd σ) (wf σ) (sq σ).
Definition bad (σ : st) : st := mkSt (expd σ) (ctx σ) (pfx σ) (spb σ) (spc σ) (spd σ) false (sq σ).
Definition push_item (i : item) (σ : st) : st :=
  mkSt (expd σ) (ctx σ) (pfx σ) (spb σ) (spc σ) (spd σ) (wf σ) (i :: sq σ).
Definition bump (i : nat) (σ : st) : st :=        (* new['specificity'][i] += 1 *)
  match i with
  | 1%nat => mkSt (expd σ) (ctx σ) (pfx σ) (S (spb σ)) (spc σ) (spd σ) (wf σ) (sq σ)
  | 2%nat => mkSt (expd σ) (ctx σ) (pfx σ) (spb σ) (S (spc σ)) (spd σ) (wf σ) (sq σ)
  | 3%nat => mkSt (expd σ) (ctx σ) (pfx σ) (spb σ) (spc σ) (S (spd σ)) (wf σ) (sq σ)
  | _ => σ       (* index 0 (style attribute) is not observed by the model *)
  end.

Definition is_cx (a b : cx) : bool :=
  match a, b with CAttrib, CAttrib | CNegation, CNegation | CPseudoClass, CPseudoClass
                | CPseudoElement, CPseudoElement => true | _, _ => false end.
Definition top_is (c : cx) (σ : st) : bool := match ctx σ with x :: _ => is_cx x c | [] => false end.
Definition top_pseudo (σ : st) : bool :=                      (* context.startswith('pseudo-') *)
  match ctx σ with CPseudoClass :: _ | CPseudoElement :: _ => true | _ => false end.
Definition pop (σ : st) : st := set_ctx (tl (ctx σ)) σ.
Definition push (c : cx) (σ : st) : st := set_ctx (c :: ctx σ) σ.

Definition ns_map := list (str * str).      (* prefix -> URI *)

Definition ends_selector (t : ityp) : bool :=          (* typ.endswith('-selector') *)
  match t with I_attribute_selector | I_negation_type_selector | I_type_selector => true | _ => false end.
Definition ityp_is (t : ityp) (name : str) : bool := eqs (ityp_str t) name.
Definition ival_is (v : ival) (x : str) : bool := match v with VStr w => eqs w x | _ => false end.

(* the specificity part of append() (l.367-375), with the regenerated literals *)
Definition count (σ : st) (typ : ityp) (val : ival) : st :=
  match ctx σ with
  | [] | CNegation :: _ =>
    if ityp_is typ spec_b_type then bump (nth 0 spec_bump_index 0%nat) σ
    else if ival_is val spec_c_val || mem_str (ityp_str typ) spec_c_types then
      (if negb (ityp_is typ spec_c_except_type) || negb (ival_is val spec_c_except_val)
       then bump (nth 1 spec_bump_index 0%nat) σ else σ)
    else if mem_str (ityp_str typ) spec_d_types then bump (nth 2 spec_bump_index 0%nat) σ
    else σ
  | _ => σ
  end.

(* append() (l.304-380); None = an uncaught Python exception *)
Definition append (ns : ns_map) (σ : st) (val : ival) (typ : ityp) : option st :=
  match typ, val with
  | I_PREFIX, VStr v => Some (set_pfx (Some (removelast v)) σ)                           (* l.322 *)
  | _, _ =>
    let r := match pfx σ with
             | Some p => Some (Some p, val, set_pfx None σ)                              (* l.328 *)
             | None =>
               match typ, val with
               | I_universal, VStr v =>
                 if mem 124 v then match split_bar v with                                (* l.331 *)
                                   | Some (p, v') => Some (Some p, VStr v', σ)
                                   | None => None
                                   end
                 else Some (None, val, σ)
               | _, _ => Some (None, val, σ)
               end
             end in
    match r with
    | None => None
    | Some (prefix, val1, σ1) =>
      let truthy := match prefix with Some (_ :: _) => true | _ => false end in
      let after (val2 : ival) := Some (push_item (typ, val2) (count σ1 typ val2)) in
      if (ends_selector typ || ityp_is typ (s "universal"))
         && negb (ityp_is typ (s "attribute-selector") && negb truthy)                   (* l.338 *)
      then
        let name := match val1 with VStr v => v | VPair _ v => v | VComment v => v end in
        match prefix with
        | None => after (VPair (match assoc_s [] ns with Some u => UStr u | None => UNone end) name)
        | Some p =>
          if eqs p (s "*") then after (VPair UAny name)
          else match p with
               | [] => after (VPair (UStr []) name)
               | _ => match assoc_s (unesc_name true p) ns with                           (* l.355-356 *)
                      | Some u => after (VPair (UStr u) name)
                      | None => Some (bad σ1)                                            (* l.356-362 *)
                      end
               end
        end
      else after val1
    end
  end.

(* ------------------------------------------------------------------ handlers *)
Definition vstr (t : stok) : ival := VStr (sval t).
Definition ret (f : exp -> exp) (σ0 : st) (r : option st) : option st :=
  option_map (set_e (f (expd σ0))) r.

Definition h_COMMENT ns σ t := ret R_COMMENT_0 σ (append ns σ (VComment (sval t)) I_COMMENT).

Definition last_pm (σ : st) : bool :=        (* seq[-1].value in ('+', '-') *)
  match sq σ with (_, v) :: _ => ival_is v (s "+") || ival_is v (s "-") | [] => false end.
Definition last_S (σ : st) : bool :=         (* seq and seq[-1].value == S *)
  match sq σ with (_, v) :: _ => ival_is v (s " ") | [] => false end.
Definition nonempty_sq (σ : st) : bool := match sq σ with [] => false | _ => true end.

Definition h_S ns σ (t : stok) :=
  let e := expd σ in
  if top_pseudo σ then
    ret R_S_0 σ (if nonempty_sq σ && negb (last_pm σ) then append ns σ (VStr (s " ")) I_S else Some σ)
  else if negb (top_is CAttrib σ) && T_S_0 e then ret R_S_1 σ (append ns σ (VStr (s " ")) I_descendant)
  else ret R_S_2 σ (Some σ).

Definition h_universal ns σ t :=
  if T_universal_0 (expd σ) then
    ret (if top_is CNegation σ then R_universal_0 else R_universal_1) σ (append ns σ (vstr t) I_universal)
  else ret R_universal_2 σ (Some (bad σ)).

Definition h_namespace_prefix ns σ t :=
  if top_is CAttrib σ && T_namespace_prefix_0 (expd σ) then ret R_namespace_prefix_0 σ (append ns σ (vstr t) I_PREFIX)
  else if T_namespace_prefix_1 (expd σ) then ret R_namespace_prefix_1 σ (append ns σ (vstr t) I_PREFIX)
  else ret R_namespace_prefix_2 σ (Some (bad σ)).

Definition h_pseudo ns σ t :=
  let val := normalize (sval t) in
  if T_pseudo_0 (expd σ) then
    let elem := mem_str val legacy_pseudo_elements || is_t (sty t) Tpseudo_element in
    let typ := if elem then I_pseudo_element else I_pseudo_class in
    let r := append ns σ (VStr val) typ in
    if last_is 40 val then
      ret R_pseudo_0 σ (option_map (push (if elem then CPseudoElement else CPseudoClass)) r)
    else if top_is CNegation σ then ret R_pseudo_1 σ r
    else if elem then ret R_pseudo_2 σ r
    else ret R_pseudo_3 σ r
  else ret R_pseudo_4 σ (Some (bad σ)).

Definition h_expression ns σ t :=
  if top_pseudo σ then
    ret R_expression_0 σ (append ns σ (vstr t) (if is_t (sty t) TNUMBER then I_NUMBER else I_DIMENSION))
  else ret R_expression_1 σ (Some (bad σ)).

Definition lower_ty (t : tty) : ityp :=
  match t with TPREFIXMATCH => I_prefixmatch | TSUFFIXMATCH => I_suffixmatch | TSUBSTRINGMATCH => I_substringmatch
             | TDASHMATCH => I_dashmatch | _ => I_includes end.
Definition h_attcombinator ns σ t :=
  if top_is CAttrib σ && T_attcombinator_0 (expd σ) then ret R_attcombinator_0 σ (append ns σ (vstr t) (lower_ty (sty t)))
  else ret R_attcombinator_1 σ (Some (bad σ)).

Definition h_string ns σ t :=
  match strval (sval t) with
  | None => None                                                                       (* IndexError *)
  | Some v =>
    if top_is CAttrib σ && T_string_0 (expd σ) then ret R_string_0 σ (append ns σ (VStr v) I_STRING)
    else if top_pseudo σ then ret R_string_1 σ (append ns σ (VStr v) I_STRING)
    else ret R_string_2 σ (Some (bad σ))
  end.

Definition h_ident ns σ t :=
  let e := expd σ in
  if top_is CAttrib σ && T_ident_0 e then ret R_ident_0 σ (append ns σ (vstr t) I_attribute_selector)
  else if top_is CAttrib σ && T_ident_1 e then ret R_ident_1 σ (append ns σ (vstr t) I_attribute_value)
  else if top_is CNegation σ then ret R_ident_2 σ (append ns σ (vstr t) I_negation_type_selector)
  else if top_pseudo σ then ret R_ident_3 σ (append ns σ (vstr t) I_IDENT)
  else if T_ident_2 e || T_ident_3 e then ret R_ident_4 σ (append ns σ (vstr t) I_type_selector)
  else ret R_ident_5 σ (Some (bad σ)).

Definition h_class ns σ t :=
  if T_class_0 (expd σ) then
    ret (if top_is CNegation σ then R_class_0 else R_class_1) σ (append ns σ (vstr t) I_class)
  else ret R_class_2 σ (Some (bad σ)).

Definition h_hash ns σ t :=
  if T_hash_0 (expd σ) then
    ret (if top_is CNegation σ then R_hash_0 else R_hash_1) σ (append ns σ (vstr t) I_id)
  else ret R_hash_2 σ (Some (bad σ)).

Definition in_pm (v : str) : bool :=       (* val in '+-'  (substring) *)
  eqs v [] || eqs v (s "+") || eqs v (s "-") || eqs v (s "+-").
Definition in_comb (v : str) : bool :=     (* val in '+>~' (substring) *)
  eqs v [] || eqs v (s "+") || eqs v (s ">") || eqs v (s "~") || eqs v (s "+>") || eqs v (s ">~") || eqs v (s "+>~").
Definition replace_last (i : item) (σ : st) : st :=
  mkSt (expd σ) (ctx σ) (pfx σ) (spb σ) (spc σ) (spd σ) (wf σ) (i :: tl (sq σ)).

Definition h_char ns σ t :=
  let e := expd σ in
  let val := sval t in
  if eqs (s "]") val && top_is CAttrib σ && T_char_0 e then                              (* l.632 *)
    match append ns σ (vstr t) I_attribute_end with
    | None => None
    | Some σ1 => let σ2 := pop σ1 in
                 ret (if top_is CNegation σ2 then R_char_0 else R_char_1) σ (Some σ2)
    end
  else if eqs (s "=") val && top_is CAttrib σ && T_char_1 e then                         (* l.642 *)
    ret R_char_2 σ (append ns σ (vstr t) I_equals)
  else if eqs (s ")") val && top_is CNegation σ && T_char_2 e then                       (* l.649 *)
    ret R_char_3 σ (option_map pop (append ns σ (vstr t) I_negation_end))
  else if in_pm val && top_pseudo σ then                                                 (* l.657 *)
    match (if eqs val (s "+") then Some I_plus else if eqs val (s "-") then Some I_minus else None) with
    | None => None                                                                       (* KeyError *)
    | Some nm =>
      if eqs val (s "+") && last_S σ then ret R_char_4 σ (Some (replace_last (nm, vstr t) σ))
      else ret R_char_4 σ (append ns σ (vstr t) nm)
    end
  else if eqs (s ")") val && top_pseudo σ && T_char_3 e then                             (* l.667 *)
    match append ns σ (vstr t) I_function_end with
    | None => None
    | Some σ1 => let σ2 := pop σ1 in
                 ret (if top_is CNegation σ2 then R_char_5
                      else if top_is CPseudoElement σ then R_char_6 else R_char_7) σ (Some σ2)
    end
  else if eqs (s "[") val && T_char_4 e then                                             (* l.681 *)
    ret R_char_8 σ (option_map (push CAttrib) (append ns σ (vstr t) I_attribute_start))
  else if in_comb val && T_char_5 e then                                                 (* l.687 *)
    match (if eqs val (s ">") then Some I_child else if eqs val (s "+") then Some I_adjacent_sibling
           else if eqs val (s "~") then Some I_following_sibling else None) with
    | None => None                                                                       (* KeyError *)
    | Some nm =>
      if last_S σ then ret R_char_9 σ (Some (replace_last (nm, vstr t) σ))
      else ret R_char_9 σ (append ns σ (vstr t) nm)
    end
  else if eqs (s ",") val then ret R_char_10 σ (Some (bad σ))
  else ret R_char_11 σ (Some (bad σ)).

Definition h_negation ns σ t :=
  if T_negation_0 (expd σ) then
    ret R_negation_0 σ (append ns (push CNegation σ) (VStr (normalize (sval t))) I_negation_start)
  else ret R_negation_1 σ (Some (bad σ)).

Definition h_atkeyword (ns : ns_map) σ (t : stok) := ret R_atkeyword_0 σ (Some (bad σ)).

(* one iteration of _parse's loop (util.py:486-492) *)
Definition mstep (ns : ns_map) (σ : st) (t : stok) : option st :=
  match handler_of (sty t) with
  | None => Some (bad σ)
  | Some H_COMMENT => h_COMMENT ns σ t
  | Some H_S => h_S ns σ t
  | Some H_atkeyword => h_atkeyword ns σ t
  | Some H_attcombinator => h_attcombinator ns σ t
  | Some H_char => h_char ns σ t
  | Some H_class => h_class ns σ t
  | Some H_expression => h_expression ns σ t
  | Some H_hash => h_hash ns σ t
  | Some H_ident => h_ident ns σ t
  | Some H_namespace_prefix => h_namespace_prefix ns σ t
  | Some H_negation => h_negation ns σ t
  | Some H_pseudo => h_pseudo ns σ t
  | Some H_string => h_string ns σ t
  | Some H_universal => h_universal ns σ t
  | Some H_default_EOF => ret R_default_EOF σ (Some σ)
  end.

Fixpoint msteps (ns : ns_map) (σ : st) (ts : list stok) : option st :=
  match ts with
  | [] => Some σ
  | t :: r => match mstep ns σ t with Some σ' => msteps ns σ' r | None => None end
  end.

Definition st0 : st := mkSt E_initial [] None 0 0 0 true [].

(* post-conditions (l.765-792) *)
Inductive result := Rejected | Accepted (b c d : nat) (seq : list item).

Definition blank (v : ival) : bool :=      (* hasattr(value, 'strip') and value.strip() == '' *)
  match v with VStr w => forallb (fun c => mem c py_space) w | _ => false end.
Definition finish (σ : st) : result :=
  let e := expd σ in
  let ok := wf σ && negb (negb (match ctx σ with [] => true | _ => false end) || negb (nonempty_sq σ))
            && negb (Tpost_0 e) && negb (Tpost_1 e && nonempty_sq σ) in
  let q := match sq σ with (_, v) :: r => if blank v then r else sq σ | [] => [] end in
  if ok then (match q with [] => Rejected | _ => Accepted (spb σ) (spc σ) (spd σ) (rev q) end)
  else Rejected.

Definition run (ns : ns_map) (glued : list stok) : option result :=
  option_map finish (msteps ns st0 glued).

Definition wellformed (r : option result) : bool := match r with Some (Accepted _ _ _ _) => true | _ => false end.
Definition spec (r : option result) : nat * nat * nat * nat :=
  match r with Some (Accepted b c d _) => (0, b, c, d)%nat | _ => (0, 0, 0, 0)%nat end.

(* input conversion: tokenizer tokens -> machine tokens *)
Definition of_tok (t : Tokenizer.tok) : stok := mkS (tty_of_str (Tokenizer.ty t)) (Tokenizer.val t).
Definition select (ns : ns_map) (ts : list (str * str)) : option result :=
  run ns (prepass (map (fun tv => mkS (tty_of_str (fst tv)) (snd tv)) ts)).

(* ================================================================== the level-3 selector grammar
   AST + renderer to TOKENS, with every layout choice (whitespace / comments) explicit.              *)
Inductive wtok := WS (v : str) | WC (v : str).             (* an S token / a COMMENT token *)
Definition wsl := list wtok.
Definition r_w (w : wtok) : stok := match w with WS v => mkS TS v | WC v => mkS TCOMMENT v end.
Definition r_ws (w : wsl) : list stok := map r_w w.
Definition r_cm (c : list str) : list stok := map (mkS TCOMMENT) c.

Definition ch (x : string) : stok := mkS TCHAR (s x).

Inductive nsq := NsDefault | NsAny | NsNo | NsP (p : str).        (* a   *|a   |a   p|a *)
Definition r_ns (q : nsq) : list stok :=
  match q with
  | NsDefault => []
  | NsAny => [ch "*"; ch "|"]
  | NsNo => [ch "|"]
  | NsP p => [mkS TIDENT p; ch "|"]
  end.

Inductive attop := OpEq | OpIncl | OpDash | OpPre | OpSuf | OpSub.
Definition r_op (o : attop) : stok :=
  match o with
  | OpEq => ch "=" | OpIncl => mkS TINCLUDES (s "~=") | OpDash => mkS TDASHMATCH (s "|=")
  | OpPre => mkS TPREFIXMATCH (s "^=") | OpSuf => mkS TSUFFIXMATCH (s "$=") | OpSub => mkS TSUBSTRINGMATCH (s "*=")
  end.
Inductive attv := AvI (v : str) | AvS (v : str).
Definition r_av (v : attv) : stok := match v with AvI x => mkS TIDENT x | AvS x => mkS TSTRING x end.

Record attr := mkAttr { at_w1 : wsl; at_ns : nsq; at_name : str; at_w2 : wsl;
                        at_rest : option (attop * wsl * attv * wsl) }.
Definition r_attr (a : attr) : list stok :=
  ch "[" :: r_ws (at_w1 a) ++ r_ns (at_ns a) ++ mkS TIDENT (at_name a) :: r_ws (at_w2 a) ++
  match at_rest a with
  | None => []
  | Some (o, w3, v, w4) => r_op o :: r_ws w3 ++ r_av v :: r_ws w4
  end ++ [ch "]"].

Inductive etok := EPlus | EMinus | EDim (v : str) | ENum (v : str) | EStr (v : str) | EId (v : str).
Definition r_et (e : etok) : stok :=
  match e with
  | EPlus => ch "+" | EMinus => ch "-" | EDim v => mkS TDIMENSION v | ENum v => mkS TNUMBER v
  | EStr v => mkS TSTRING v | EId v => mkS TIDENT v
  end.
Definition expr := list (etok * wsl).
Definition r_expr (e : expr) : list stok := flat_map (fun p => r_et (fst p) :: r_ws (snd p)) e.

(* pseudo: dbl = "::" ;  PsId = :name ,  PsFn = :name( S* expression ) *)
Inductive pseudo := PsId (dbl : bool) (n : str) | PsFn (dbl : bool) (n : str) (w : wsl) (e : expr).
Definition colons (dbl : bool) : list stok := if dbl then [ch ":"; ch ":"] else [ch ":"].
Definition r_pseudo (p : pseudo) : list stok :=
  match p with
  | PsId dbl n => colons dbl ++ [mkS TIDENT n]
  | PsFn dbl n w e => colons dbl ++ mkS TFUNCTION (n ++ s "(") :: r_ws w ++ r_expr e ++ [ch ")"]
  end.

Inductive negarg :=
| NaType (q : nsq) (n : str) | NaUniv (q : nsq) | NaHash (v : str) | NaClass (n : str) | NaAttr (a : attr)
| NaPseudo (p : pseudo).
Definition r_negarg (a : negarg) : list stok :=
  match a with
  | NaType q n => r_ns q ++ [mkS TIDENT n]
  | NaUniv q => r_ns q ++ [ch "*"]
  | NaHash v => [mkS THASH v]
  | NaClass n => [ch "."; mkS TIDENT n]
  | NaAttr a => r_attr a
  | NaPseudo p => r_pseudo p
  end.

Inductive simple :=
| SHash (v : str) | SClass (n : str) | SAttr (a : attr) | SPseudo (p : pseudo)
| SNot (w1 : wsl) (a : negarg) (w2 : wsl).
Definition r_simple (x : simple) : list stok :=
  match x with
  | SHash v => [mkS THASH v]
  | SClass n => [ch "."; mkS TIDENT n]
  | SAttr a => r_attr a
  | SPseudo p => r_pseudo p
  | SNot w1 a w2 => ch ":" :: mkS TFUNCTION (s "not(") :: r_ws w1 ++ r_negarg a ++ r_ws w2 ++ [ch ")"]
  end.

Inductive head := HNone | HType (q : nsq) (n : str) | HUniv (q : nsq).
Definition r_head (h : head) : list stok :=
  match h with HNone => [] | HType q n => r_ns q ++ [mkS TIDENT n] | HUniv q => r_ns q ++ [ch "*"] end.

(* a compound: optional head, simple selectors (comments may separate them), optional final pseudo-element *)
Record compound := mkCompound { c_head : head; c_rest : list (list str * simple); c_pe : option (list str * pseudo) }.
Definition r_compound (c : compound) : list stok :=
  r_head (c_head c) ++ flat_map (fun p => r_cm (fst p) ++ r_simple (snd p)) (c_rest c) ++
  match c_pe c with None => [] | Some (cm, p) => r_cm cm ++ r_pseudo p end.

Inductive comb := CDesc (w1 : wsl) (sp : str) (w2 : wsl)            (* at least the S token sp *)
                | CChild (w1 w2 : wsl) | CAdj (w1 w2 : wsl) | CSib (w1 w2 : wsl).
Definition r_comb (c : comb) : list stok :=
  match c with
  | CDesc w1 sp w2 => r_ws w1 ++ mkS TS sp :: r_ws w2
  | CChild w1 w2 => r_ws w1 ++ ch ">" :: r_ws w2
  | CAdj w1 w2 => r_ws w1 ++ ch "+" :: r_ws w2
  | CSib w1 w2 => r_ws w1 ++ ch "~" :: r_ws w2
  end.

Record selector := mkSel { s_lead : wsl; s_first : compound; s_more : list (comb * compound); s_trail : wsl }.
Definition render (x : selector) : list stok :=
  r_ws (s_lead x) ++ r_compound (s_first x) ++
  flat_map (fun p => r_comb (fst p) ++ r_compound (snd p)) (s_more x) ++ r_ws (s_trail x).

(* ------------------------------------------------------------------ the CSS definition of specificity *)
Definition is_legacy (n : str) : bool := mem_str (s ":" ++ lower n) legacy_pseudo_elements.
Definition is_where (n : str) : bool := eqs (lower n) (s "where").
Definition v3 := (nat * nat * nat)%type.
Definition add3 (a b : v3) : v3 :=
  match a, b with (a1, a2, a3), (b1, b2, b3) => (a1 + b1, a2 + b2, a3 + b3)%nat end.
Definition sp_pseudo (p : pseudo) : v3 :=
  match p with
  | PsId true _ => (0, 0, 1)
  | PsId false n => if is_legacy n then (0, 0, 1) else (0, 1, 0)
  | PsFn true _ _ _ => (0, 0, 1)
  | PsFn false n _ _ => if is_where n then (0, 0, 0) else (0, 1, 0)
  end%nat.
Definition sp_negarg (a : negarg) : v3 :=
  match a with
  | NaType _ _ => (0, 0, 1) | NaUniv _ => (0, 0, 0) | NaHash _ => (1, 0, 0) | NaClass _ => (0, 1, 0)
  | NaAttr _ => (0, 1, 0) | NaPseudo p => sp_pseudo p
  end%nat.
Definition sp_simple (x : simple) : v3 :=
  match x with
  | SHash _ => (1, 0, 0) | SClass _ => (0, 1, 0) | SAttr _ => (0, 1, 0) | SPseudo p => sp_pseudo p
  | SNot _ a _ => sp_negarg a          (* :not() itself counts nothing, its argument counts as its own kind *)
  end%nat.
Definition sp_head (h : head) : v3 := match h with HType _ _ => (0, 0, 1) | _ => (0, 0, 0) end%nat.
Definition sum3 (l : list v3) : v3 := fold_right add3 (0, 0, 0)%nat l.
Definition sp_compound (c : compound) : v3 :=
  add3 (sp_head (c_head c))
       (add3 (sum3 (map (fun p => sp_simple (snd p)) (c_rest c)))
             (match c_pe c with Some (_, p) => sp_pseudo p | None => (0, 0, 0)%nat end)).
Definition sp_selector (x : selector) : v3 :=
  add3 (sp_compound (s_first x)) (sum3 (map (fun p => sp_compound (snd p)) (s_more x))).
Definition ids (x : selector) : nat := fst (fst (sp_selector x)).
Definition classes_attrs_pseudoclasses (x : selector) : nat := snd (fst (sp_selector x)).
Definition types_pseudoelements (x : selector) : nat := snd (sp_selector x).

(* ------------------------------------------------------------------ side conditions of the grammar *)
(* identifier spelled without escapes: name characters only, does not start with a digit *)
Definition namechar (c : N) : bool :=
  (N.leb 97 c && N.leb c 122) || (N.leb 65 c && N.leb c 90) || (N.leb 48 c && N.leb c 57)
  || N.eqb c 45 || N.eqb c 95 || N.leb 128 c.
Definition ident (n : str) : bool := match n with [] => false | _ => forallb namechar n end.
(* a token value the pre-pass does not react to *)
Definition opaque (v : str) : bool :=
  match v with
  | [] => true
  | c :: r => negb (N.eqb c 58)
              && negb ((N.eqb c 42 || N.eqb c 124 || N.eqb c 46) && match r with [] => true | _ => false end)
  end.
Definition hashv (v : str) : bool :=        (* a HASH token value: starts with # *)
  match v with c :: _ => N.eqb c 35 | [] => false end.
Definition quoted (v : str) : bool :=       (* a STRING token value: starts with a quote *)
  match v with c :: _ => N.eqb c 34 || N.eqb c 39 | [] => false end.

Definition ok_w (w : wtok) : bool := match w with WS v => opaque v | WC v => opaque v end.
Definition ok_ws (w : wsl) : bool := forallb ok_w w.
Definition declared (ns : ns_map) (q : nsq) : bool :=
  match q with NsP p => ident p && match assoc_s p ns with Some _ => true | None => false end | _ => true end.
Definition ok_attr (ns : ns_map) (a : attr) : bool :=
  ok_ws (at_w1 a) && declared ns (at_ns a) && ident (at_name a) && ok_ws (at_w2 a) &&
  match at_rest a with
  | None => true
  | Some (_, w3, v, w4) => ok_ws w3 && ok_ws w4 && match v with AvI x => ident x | AvS x => quoted x end
  end.
Definition ok_et (e : etok) : bool :=
  match e with EPlus | EMinus => true | EDim v | ENum v => opaque v | EStr v => quoted v | EId v => ident v end.
Definition ok_expr (e : expr) : bool :=
  match e with [] => false | _ => forallb (fun p => ok_et (fst p) && ok_ws (snd p)) e end.
Definition ok_pseudo (p : pseudo) : bool :=
  match p with
  | PsId _ n => ident n
  | PsFn _ n w e => ident n && negb (eqs (lower n) (s "not")) && ok_ws w && ok_expr e
  end.
(* does the machine treat the pseudo as a pseudo-element (after which only a combinator may follow)? *)
Definition pseudo_is_element (p : pseudo) : bool :=
  match p with PsId dbl n => dbl || is_legacy n | PsFn dbl _ _ _ => dbl end.
Definition ok_negarg (ns : ns_map) (a : negarg) : bool :=
  match a with
  | NaType q n => declared ns q && ident n
  | NaUniv q => declared ns q
  | NaHash v => hashv v
  | NaClass n => ident n
  | NaAttr a => ok_attr ns a
  | NaPseudo p => ok_pseudo p
  end.
Definition ok_simple (ns : ns_map) (x : simple) : bool :=
  match x with
  | SHash v => hashv v
  | SClass n => ident n
  | SAttr a => ok_attr ns a
  | SPseudo p => ok_pseudo p && negb (pseudo_is_element p)
  | SNot w1 a w2 => ok_ws w1 && ok_negarg ns a && ok_ws w2
  end.
Definition ok_cm (c : list str) : bool := forallb opaque c.
Definition ok_head (ns : ns_map) (h : head) : bool :=
  match h with HNone => true | HType q n => declared ns q && ident n | HUniv q => declared ns q end.
Definition ok_compound (ns : ns_map) (c : compound) : bool :=
  ok_head ns (c_head c) && forallb (fun p => ok_cm (fst p) && ok_simple ns (snd p)) (c_rest c) &&
  match c_pe c with None => true | Some (cm, p) => ok_cm cm && ok_pseudo p && pseudo_is_element p end &&
  negb (match c_head c, c_rest c, c_pe c with HNone, [], None => true | _, _, _ => false end).
Definition ok_comb (c : comb) : bool :=
  match c with
  | CDesc w1 sp w2 => ok_ws w1 && opaque sp && ok_ws w2
  | CChild w1 w2 | CAdj w1 w2 | CSib w1 w2 => ok_ws w1 && ok_ws w2
  end.
(* Declared ns sel: the selector is a derivation of the grammar (names are plain identifiers, layout tokens are
   whitespace/comments) and every namespace prefix it uses is declared in ns *)
Definition declared_b (ns : ns_map) (x : selector) : bool :=
  ok_ws (s_lead x) && ok_compound ns (s_first x) &&
  forallb (fun p => ok_comb (fst p) && ok_compound ns (snd p)) (s_more x) && ok_ws (s_trail x).
Definition Declared (ns : ns_map) (x : selector) : Prop := declared_b ns x = true.

(* names for the extraction (the driver compares both normalizers) *)
Definition sel_normalize (x : str) : str := normalize x.
Definition tok_normalize (x : str) : str := Tokenizer.normalize x.

(* ------------------------------------------------------------------ the Selector object under re-assignment
   (l.783-792): seq / specificity are committed only `if wellformed:`; a rejected assignment (logged or raised)
   leaves the object describing the selector it held before.                                                   *)
Record held := mkHeld { h_spec : nat * nat * nat; h_seq : list item }.      (* h_seq = [] : nothing held yet *)
Definition held0 : held := mkHeld (0, 0, 0)%nat [].
Definition commit (h : held) (r : result) : held :=
  match r with Accepted b c d q => mkHeld (b, c, d) q | Rejected => h end.
(* one assignment of already pre-passed tokens; None = an uncaught non-DOM exception *)
Definition assign_glued (ns : ns_map) (h : held) (glued : list stok) : option held :=
  option_map (commit h) (run ns glued).
Fixpoint assigns (ns : ns_map) (h : held) (hist : list (list (str * str))) : option held :=
  match hist with
  | [] => Some h
  | ts :: r => match select ns ts with
               | Some res => assigns ns (commit h res) r
               | None => None
               end
  end.
Definition assigns0 (ns : ns_map) (hist : list (list (str * str))) : option held := assigns ns held0 hist.

(* ================================================================== @page selectors
   CSSPageRule.__parseSelectorText (csspagerule.py:154-245) on the token list, and the commit discipline of
   CSSPageRule._setSelectorText (l.388-394) / _setCssText (l.300-360).                                           *)
Inductive pexp := PE_page | PE_colon_or_EOF | PE_EOF.
Definition item2 := (str * str)%type.            (* (type, value) of a Seq item; comments carry their text *)
Record pst := mkP {
  p_e : pexp;
  p_wf : bool;          (* new['wellformed'] and _parse's wellformed *)
  p_err : bool;         (* some log.error was issued (raises in raising mode) *)
  p_lastS : bool;       (* new['last-S'] *)
  p_name : nat; p_first : nat; p_lr : nat;
  p_seq : list item2    (* reversed *)
}.
Definition p_bad (σ : pst) : pst := mkP (p_e σ) false true (p_lastS σ) (p_name σ) (p_first σ) (p_lr σ) (p_seq σ).
Definition p_logerr (σ : pst) : pst := mkP (p_e σ) (p_wf σ) true (p_lastS σ) (p_name σ) (p_first σ) (p_lr σ) (p_seq σ).
Definition p_push (i : item2) (σ : pst) : pst :=
  mkP (p_e σ) (p_wf σ) (p_err σ) (p_lastS σ) (p_name σ) (p_first σ) (p_lr σ) (i :: p_seq σ).
Definition is_pe (a b : pexp) : bool :=
  match a, b with PE_page, PE_page | PE_colon_or_EOF, PE_colon_or_EOF | PE_EOF, PE_EOF => true | _, _ => false end.

(* _parse's loop with the four productions + util's default ATKEYWORD / EOF; None = not modelled
   (the default ATKEYWORD production builds a CSSUnknownRule from the rest of the tokens) *)
Fixpoint prun (σ : pst) (ts : list stok) : option pst :=
  match ts with
  | [] => Some σ
  | t :: r =>
    match sty t with
    | TCHAR =>                                                                          (* _char, l.165-196 *)
      if negb (p_lastS σ) && (is_pe (p_e σ) PE_page || is_pe (p_e σ) PE_colon_or_EOF) && eqs (s ":") (sval t) then
        match r with
        | [] => Some (p_logerr σ)                                                       (* StopIteration *)
        | i :: r' =>
          if is_t (sty i) TIDENT then
            let nval := normalize (sval i) in
            let fst1 := eqs nval (s "first") in
            prun (mkP PE_EOF (p_wf σ) (p_err σ) (p_lastS σ) (p_name σ)
                      (if fst1 then 1%nat else p_first σ) (if fst1 then p_lr σ else 1%nat)
                      ((s "pseudo", sval t ++ sval i) :: p_seq σ)) r'
          else prun (p_logerr σ) r'
        end
      else prun (p_bad σ) r
    | TS => prun (if is_pe (p_e σ) PE_colon_or_EOF                                      (* S, l.198-203 *)
                  then mkP (p_e σ) (p_wf σ) (p_err σ) true (p_name σ) (p_first σ) (p_lr σ) (p_seq σ) else σ) r
    | TIDENT =>                                                                         (* IDENT, l.205-222 *)
      if is_pe (p_e σ) PE_page then
        if eqs (normalize (sval t)) (s "auto")
        then prun (mkP PE_colon_or_EOF (p_wf σ) true (p_lastS σ) (p_name σ) (p_first σ) (p_lr σ) (p_seq σ)) r
        else prun (mkP PE_colon_or_EOF (p_wf σ) (p_err σ) (p_lastS σ) 1%nat (p_first σ) (p_lr σ)
                       ((s "IDENT", sval t) :: p_seq σ)) r
      else prun (p_bad σ) r
    | TCOMMENT => prun (p_push (s "COMMENT", sval t) σ) r                               (* COMMENT, l.224-227 *)
    | TATKEYWORD => if is_pe (p_e σ) PE_EOF then prun (p_bad σ) r else None
    | TEOF => prun (mkP PE_EOF (p_wf σ) (p_err σ) (p_lastS σ) (p_name σ) (p_first σ) (p_lr σ) (p_seq σ)) r
    | _ => prun (p_bad σ) r                                                             (* no production *)
    end
  end.

Definition pst0 : pst := mkP PE_page true false false 0 0 0 [].
Inductive presult := PAccepted (n f l : nat) (seq : list item2) | PRejected | PUnmodelled.
(* raising = css_parser.log.raiseExceptions: the first log.error raises and nothing is committed *)
Definition run_page (raising : bool) (ts : list stok) : presult :=
  match prun pst0 ts with
  | None => PUnmodelled
  | Some σ => if p_wf σ && negb (raising && p_err σ)
              then PAccepted (p_name σ) (p_first σ) (p_lr σ) (rev (p_seq σ)) else PRejected
  end.
Definition page_spec (r : presult) : nat * nat * nat :=
  match r with PAccepted n f l _ => (n, f, l) | _ => (0, 0, 0)%nat end.

(* what a CSSPageRule object reports *)
Record pheld := mkPH { ph_spec : nat * nat * nat; ph_seq : list item2 }.
Definition pheld0 : pheld := mkPH (0, 0, 0)%nat [].
(* the part of _setCssText that is not modelled (brace matching, declarations, margin rules) enters as the
   observable class of the block: BOk, BLogged (an error is logged inside the block: raises in raising mode, the rest
   is committed in logging mode), BReject (no '{', no '}', trailing content: ok = False) *)
Inductive blockfault := BOk | BLogged | BReject.
Inductive passign :=
| ASel (ts : list stok)                                       (* rule.selectorText = ... *)
| ACss (ispage : bool) (sel : list stok) (b : blockfault).    (* rule.cssText = '@page' sel '{' ... *)
Definition pcommit (h : pheld) (ok : bool) (r : presult) : option pheld :=
  match r with
  | PUnmodelled => None
  | PRejected => Some h
  | PAccepted n f l q => Some (if ok then mkPH (n, f, l) q else h)
  end.
Definition page_assign (raising : bool) (h : pheld) (a : passign) : option pheld :=
  match a with
  | ASel ts => pcommit h true (run_page raising ts)
  | ACss false _ _ => Some h                                  (* not an @page rule: InvalidModificationErr *)
  | ACss true ts b =>
    pcommit h (match b with BOk => true | BLogged => negb raising | BReject => false end) (run_page raising ts)
  end.
Fixpoint page_assigns (raising : bool) (h : pheld) (hist : list passign) : option pheld :=
  match hist with
  | [] => Some h
  | a :: r => match page_assign raising h a with Some h' => page_assigns raising h' r | None => None end
  end.

(* page selector grammar:  S* [ IDENT ]? [ ':' (first|left|right) ]? S*  with comments; no whitespace between the
   name and the pseudo page (comments are allowed there) *)
Inductive ppseudo := PFirst | PLeft | PRight.
Definition ppseudo_name (p : ppseudo) : str :=
  match p with PFirst => s "first" | PLeft => s "left" | PRight => s "right" end.
Record pagesel := mkPage { pg_lead : wsl; pg_name : option str; pg_cm : list str; pg_pseudo : option ppseudo;
                           pg_trail : wsl }.
Definition render_page (p : pagesel) : list stok :=
  r_ws (pg_lead p) ++ match pg_name p with Some n => [mkS TIDENT n] | None => [] end ++ r_cm (pg_cm p) ++
  match pg_pseudo p with Some x => [ch ":"; mkS TIDENT (ppseudo_name x)] | None => [] end ++ r_ws (pg_trail p).
Definition ok_page (p : pagesel) : bool :=
  match pg_name p with Some n => negb (eqs (normalize n) (s "auto")) | None => true end.
Definition named (p : pagesel) : nat := match pg_name p with Some _ => 1 | None => 0 end.
Definition first_page (p : pagesel) : nat := match pg_pseudo p with Some PFirst => 1 | _ => 0 end.
Definition left_or_right (p : pagesel) : nat := match pg_pseudo p with Some PLeft | Some PRight => 1 | _ => 0 end.

(* ================================================================== SelectorList._setSelectorText (selectorlist.py:160-221)
   split at top-level commas with the shared model of _tokensupto2(listseponly=True), every member parsed by its own
   Selector; one rejected member (or a trailing / leading comma, or no tokens) rejects the whole list.              *)
Definition tty_name (t : tty) : str := match tty_str t with Some n => n | None => s "?" end.
Definition to_tok (t : stok) : Tokenizer.tok := Tokenizer.mkTok (tty_name (sty t)) (sval t) (sval t) 0 0.
Definition tok_pair (t : Tokenizer.tok) : str * str := (Tokenizer.ty t, Tokenizer.val t).

Inductive slexp := SL_init | SL_comma | SL_none.       (* `expected`: True / ',' / None *)
Definition member := (nat * nat * nat * list item)%type.
Inductive slresult := SLRejected | SLAccepted (members : list member).

Fixpoint sl_loop (fuel : nat) (ns : ns_map) (ts : list Tokenizer.tok) (acc : list member) (wf : bool) (e : slexp)
  : option slresult :=
  match fuel with
  | O => None
  | S f =>
    match Upto.upto Upto.FListSep None ts with
    | ([], _) =>                                                                      (* l.205 break, l.207-216 *)
      Some (match e with SL_none => if wf then SLAccepted acc else SLRejected | _ => SLRejected end)
    | ((x :: r) as run, rest) =>
      let comma := eqs (Tokenizer.val (last r x)) (s ",") in                          (* l.193 *)
      let seltoks := if comma then removelast run else run in
      match select ns (map tok_pair seltoks) with                                     (* l.198 *)
      | None => None
      | Some (Accepted b c d q) => sl_loop f ns rest (acc ++ [(b, c, d, q)]) wf (if comma then SL_comma else SL_none)
      | Some Rejected => sl_loop f ns rest acc false (if comma then SL_comma else SL_none)
      end
    end
  end.
Definition sl_run (ns : ns_map) (ts : list Tokenizer.tok) : option slresult :=
  sl_loop (S (length ts)) ns ts [] true SL_init.
Definition sl_select (ns : ns_map) (ts : list (str * str)) : option slresult :=
  sl_run ns (map (fun tv => Tokenizer.mkTok (fst tv) (snd tv) (snd tv) 0 0) ts).

(* a comma separated list of grammar selectors, as tokens *)
Definition comma_tok : Tokenizer.tok := Tokenizer.mkTok (s "CHAR") (s ",") (s ",") 0 0.
Definition sel_toks (x : selector) : list Tokenizer.tok := map to_tok (render x).
Fixpoint join_commas (l : list (list Tokenizer.tok)) : list Tokenizer.tok :=
  match l with
  | [] => []
  | [x] => x
  | x :: r => x ++ comma_tok :: join_commas r
  end.
(* side condition of the list theorem: no token of the member's rendering ends the comma search (its brackets are
   balanced and no non-IDENT layout/number token has the value "," or ""); checked per case by the harness *)
Definition md_list : Upto.mode := Upto.mode_of Upto.FListSep None.
Definition sep_free (x : selector) : bool :=
  Upto.closed md_list (0, 0, 0)%Z (sel_toks x) && Upto.zero (Upto.after (0, 0, 0)%Z (sel_toks x)) &&
  negb (eqs (Tokenizer.val (last (sel_toks x) comma_tok)) (s ",")).

(* ================================================================== do_css_Selector (serialize.py:849-888)
   the machine's seq back to text: every item goes through Out.append (the shared model OutModel.append over the
   regenerated preferences / literals of Gen/Prefs.v) with space=False, strings additionally with keepS=True;
   (uri, name) items are written with the prefix the namespace view gives.  The namespace view of a stand-alone
   Selector is its used-namespaces copy; since every URI that occurs in an item is "used", lookups give the same
   answers as on ns itself (ns is taken to have pairwise different prefixes, as a dict has).                      *)
From CssV Require OutModel.
From CssV Require Gen.Quote.
From CssV Require Gen.Prefs.

Fixpoint prefix_for (u : str) (ns : ns_map) : option str :=          (* prefixForNamespaceURI: first match *)
  match ns with [] => None | (p, x) :: r => if eqs x u then Some p else prefix_for u r end.

Definition pair_prefix (ns : ns_map) (u : nsuri) : option str :=     (* None: the bare name is written *)
  let default := assoc_s [] ns in
  let same := match default, u with                                  (* DEFAULTURI == namespaceURI *)
              | Some d, UStr x => eqs d x
              | None, UNone => true
              | _, _ => false
              end in
  let falsy_default := match default with None | Some [] => true | _ => false end in
  if same || (falsy_default && match u with UNone => true | _ => false end) then None
  else Some (match u with
             | UAny => s "*"
             | UStr x => match prefix_for x ns with Some p => p | None => [] end
             | UNone => []                                           (* IndexError -> '' *)
             end).
Definition pair_text (ns : ns_map) (u : nsuri) (name : str) : str :=
  match pair_prefix ns u with None => name | Some p => p ++ s "|" ++ name end.

Definition out_item (ns : ns_map) (i : item) : OutModel.item :=
  let ty := Some (ityp_str (fst i)) in
  match snd i with
  | VPair u n => OutModel.mkItem (OutModel.VStr (pair_text ns u n)) ty false false false false []
  | VComment v => OutModel.mkItem (OutModel.VObj true (Some v) None) ty false true false false []
  | VStr v => OutModel.mkItem (OutModel.VStr v) ty false true false false (Gen.Quote.hstring v)
  end.
Definition ser_seq (ns : ns_map) (q : list item) : option str :=
  OutModel.out_text Gen.Prefs.prefs_default 0 (map (out_item ns) q).
Definition ser_result (ns : ns_map) (r : option result) : option str :=
  match r with Some (Accepted _ _ _ q) => ser_seq ns q | _ => None end.
Definition select_ser (ns : ns_map) (ts : list (str * str)) : option str := ser_result ns (select ns ts).
Definition sel_run (ns : ns_map) (glued : list stok) : option result := run ns glued.
Definition sel_prepass (ts : list stok) : list stok := prepass ts.

(* ================================================================== the seq of a grammar selector, explicitly
   (what Selector.seq holds after parsing render sel), by structural recursion.  Items are listed in source order.
   The only context dependent steps are local: inside functional-pseudo arguments (S is dropped after + / -, a "+"
   replaces a preceding blank item) and a combinator replacing the descendant item of the whitespace before it. *)
Definition it_comment (v : str) : item := (I_COMMENT, VComment v).
Definition its_cm (c : list str) : list item := map it_comment c.
Definition its_wsI (w : wsl) : list item :=                       (* whitespace ignored, comments kept *)
  flat_map (fun x => match x with WS _ => [] | WC v => [it_comment v] end) w.
Definition it_desc : item := (I_descendant, VStr (s " ")).
Definition its_wsB (w : wsl) : list item :=                       (* after a compound: S = descendant combinator *)
  map (fun x => match x with WS _ => it_desc | WC v => it_comment v end) w.

Definition uri_of (ns : ns_map) (q : nsq) : nsuri :=
  match q with
  | NsDefault => match assoc_s [] ns with Some u => UStr u | None => UNone end
  | NsAny => UAny
  | NsNo => UStr []
  | NsP p => match assoc_s p ns with Some u => UStr u | None => UNone end
  end.
Definition it_attname (ns : ns_map) (q : nsq) (n : str) : item :=
  match q with
  | NsDefault | NsNo => (I_attribute_selector, VStr n)
  | _ => (I_attribute_selector, VPair (uri_of ns q) n)
  end.
Definition it_op (o : attop) : item :=
  match o with
  | OpEq => (I_equals, VStr (s "=")) | OpIncl => (I_includes, VStr (s "~=")) | OpDash => (I_dashmatch, VStr (s "|="))
  | OpPre => (I_prefixmatch, VStr (s "^=")) | OpSuf => (I_suffixmatch, VStr (s "$=")) | OpSub => (I_substringmatch, VStr (s "*="))
  end.
Definition strval_d (v : str) : str := match strval v with Some x => x | None => [] end.
Definition it_av (v : attv) : item :=
  match v with AvI x => (I_attribute_value, VStr x) | AvS x => (I_STRING, VStr (strval_d x)) end.
Definition its_attr (ns : ns_map) (a : attr) : list item :=
  (I_attribute_start, VStr (s "[")) :: its_wsI (at_w1 a) ++ it_attname ns (at_ns a) (at_name a) :: its_wsI (at_w2 a) ++
  match at_rest a with
  | None => []
  | Some (o, w3, v, w4) => it_op o :: its_wsI w3 ++ it_av v :: its_wsI w4
  end ++ [(I_attribute_end, VStr (s "]"))].

(* functional-pseudo arguments: the machine's own steps on the (reversed) seq *)
Definition hS (q : list item) : bool := match q with (_, v) :: _ => ival_is v (s " ") | [] => false end.
Definition hPM (q : list item) : bool :=
  match q with (_, v) :: _ => ival_is v (s "+") || ival_is v (s "-") | [] => false end.
Definition sq_argw (q : list item) (x : wtok) : list item :=
  match x with
  | WS _ => if match q with [] => false | _ => true end && negb (hPM q) then (I_S, VStr (s " ")) :: q else q
  | WC v => it_comment v :: q
  end.
Definition sq_argws (w : wsl) (q : list item) : list item := fold_left sq_argw w q.
Definition sq_et (t : etok) (q : list item) : list item :=
  match t with
  | EPlus => if hS q then (I_plus, VStr (s "+")) :: tl q else (I_plus, VStr (s "+")) :: q
  | EMinus => (I_minus, VStr (s "-")) :: q
  | EDim v => (I_DIMENSION, VStr v) :: q
  | ENum v => (I_NUMBER, VStr v) :: q
  | EStr v => (I_STRING, VStr (strval_d v)) :: q
  | EId v => (I_IDENT, VStr v) :: q
  end.
Fixpoint sq_expr (e : expr) (q : list item) : list item :=
  match e with [] => q | (t, w) :: r => sq_expr r (sq_argws w (sq_et t q)) end.

Definition pseudo_ityp (p : pseudo) : ityp :=
  match p with
  | PsId dbl n => if dbl || is_legacy n then I_pseudo_element else I_pseudo_class
  | PsFn dbl _ _ _ => if dbl then I_pseudo_element else I_pseudo_class
  end.
Definition colon_str (dbl : bool) : str := if dbl then s "::" else s ":".
Definition sq_pseudo (p : pseudo) (q : list item) : list item :=
  match p with
  | PsId dbl n => (pseudo_ityp p, VStr (colon_str dbl ++ lower n)) :: q
  | PsFn dbl n w e =>
    (I_function_end, VStr (s ")")) :: sq_expr e (sq_argws w ((pseudo_ityp p, VStr (colon_str dbl ++ lower n ++ s "(")) :: q))
  end.
Definition its_pseudo (p : pseudo) : list item := rev (sq_pseudo p []).

Definition it_tname (ns : ns_map) (neg : bool) (q : nsq) (n : str) : item :=
  (if neg then I_negation_type_selector else I_type_selector, VPair (uri_of ns q) n).
Definition it_univ (ns : ns_map) (q : nsq) : item := (I_universal, VPair (uri_of ns q) (s "*")).
Definition its_negarg (ns : ns_map) (a : negarg) : list item :=
  match a with
  | NaType q n => [it_tname ns true q n]
  | NaUniv q => [it_univ ns q]
  | NaHash v => [(I_id, VStr v)]
  | NaClass n => [(I_class, VStr (s "." ++ n))]
  | NaAttr a => its_attr ns a
  | NaPseudo p => its_pseudo p
  end.
Definition its_simple (ns : ns_map) (x : simple) : list item :=
  match x with
  | SHash v => [(I_id, VStr v)]
  | SClass n => [(I_class, VStr (s "." ++ n))]
  | SAttr a => its_attr ns a
  | SPseudo p => its_pseudo p
  | SNot w1 a w2 => (I_negation_start, VStr (s ":not(")) :: its_wsI w1 ++ its_negarg ns a ++ its_wsI w2 ++
                    [(I_negation_end, VStr (s ")"))]
  end.
Definition its_head (ns : ns_map) (h : head) : list item :=
  match h with HNone => [] | HType q n => [it_tname ns false q n] | HUniv q => [it_univ ns q] end.
Definition its_compound (ns : ns_map) (c : compound) : list item :=
  its_head ns (c_head c) ++ flat_map (fun p => its_cm (fst p) ++ its_simple ns (snd p)) (c_rest c) ++
  match c_pe c with None => [] | Some (cm, p) => its_cm cm ++ its_pseudo p end.
Definition ends_WS (w : wsl) : bool := match rev w with WS _ :: _ => true | _ => false end.
Definition its_comb (c : comb) : list item :=
  match c with
  | CDesc w1 sp w2 => its_wsB w1 ++ it_desc :: its_wsB w2
  | CChild w1 w2 => (if ends_WS w1 then removelast (its_wsB w1) else its_wsB w1) ++ (I_child, VStr (s ">")) :: its_wsI w2
  | CAdj w1 w2 => (if ends_WS w1 then removelast (its_wsB w1) else its_wsB w1) ++ (I_adjacent_sibling, VStr (s "+")) :: its_wsI w2
  | CSib w1 w2 => (if ends_WS w1 then removelast (its_wsB w1) else its_wsB w1) ++ (I_following_sibling, VStr (s "~")) :: its_wsI w2
  end.
Definition seq_of (ns : ns_map) (x : selector) : list item :=
  its_wsI (s_lead x) ++ its_compound ns (s_first x) ++
  flat_map (fun p => its_comb (fst p) ++ its_compound ns (snd p)) (s_more x) ++
  (if ends_WS (s_trail x) then removelast (its_wsB (s_trail x)) else its_wsB (s_trail x)).
Definition seq (r : option result) : list item := match r with Some (Accepted _ _ _ q) => q | _ => [] end.


(* ================================================================== the serialised selector as TOKENS
   what the tokenizer makes of ser_seq's text, written directly: a blank chunk of Out is one S token, the
   remove-last-if-S of Out.append is drop_S.  (Tie: compared with Tokenizer(selectorText) on every accepted case.) *)
Definition sp_tok : stok := mkS TS (s " ").
Definition drop_S (out : list stok) : list stok :=
  match out with t :: r => if is_t (sty t) TS then r else out | [] => [] end.
Definition colon_tokens (v : str) : list stok :=                   (* ":x"  "::x"  ":f("  "::f(" *)
  let body (r : str) := if last_is 40 r then [mkS TFUNCTION r] else [mkS TIDENT r] in
  if starts (s "::") v then ch ":" :: ch ":" :: body (skipn 2 v) else ch ":" :: body (tl v).
Definition prefix_tokens (p : str) : list stok :=
  match p with
  | [] => [ch "|"]
  | _ => if eqs p (s "*") then [ch "*"; ch "|"] else [mkS TIDENT p; ch "|"]
  end.
(* "-" directly followed by a number / dimension / name is ONE token for the tokenizer ("- 2" is written "-2") *)
Definition numstart (v : str) : bool :=
  match v with c :: _ => (N.leb 48 c && N.leb c 57) || N.eqb c 46 | [] => false end.
Definition namestart (v : str) : bool :=
  match v with c :: _ => namechar c && negb (N.eqb c 45) && negb (N.leb 48 c && N.leb c 57) | [] => false end.
Definition merge_minus (t : tty) (v : str) (can : bool) (out : list stok) : list stok :=
  match out with
  | m :: r => if can && is_t (sty m) TCHAR && eqs (sval m) (s "-") then mkS t (s "-" ++ v) :: r else mkS t v :: out
  | [] => [mkS t v]
  end.
Definition ser_item (ns : ns_map) (out : list stok) (i : item) : list stok :=
  match i with
  | (typ, VPair u n) =>
    let name := match typ with I_universal => mkS TCHAR n | _ => mkS TIDENT n end in
    name :: match pair_prefix ns u with None => [] | Some p => rev (prefix_tokens p) end ++ out
  | (_, VComment v) => mkS TCOMMENT v :: out
  | (typ, VStr v) =>
    match typ with
    | I_descendant | I_S => sp_tok :: drop_S out
    | I_child | I_adjacent_sibling | I_following_sibling | I_plus => sp_tok :: mkS TCHAR v :: sp_tok :: drop_S out
    | I_function_end | I_negation_end | I_attribute_end | I_equals => mkS TCHAR v :: drop_S out
    | I_minus | I_attribute_start => mkS TCHAR v :: out
    | I_includes => mkS TINCLUDES v :: out
    | I_dashmatch => mkS TDASHMATCH v :: out
    | I_prefixmatch => mkS TPREFIXMATCH v :: out
    | I_suffixmatch => mkS TSUFFIXMATCH v :: out
    | I_substringmatch => mkS TSUBSTRINGMATCH v :: out
    | I_STRING => mkS TSTRING (Gen.Quote.hstring v) :: out
    | I_id => mkS THASH v :: out
    | I_class => mkS TIDENT (tl v) :: ch "." :: out
    | I_pseudo_class | I_pseudo_element | I_negation_start => rev (colon_tokens v) ++ out
    | I_NUMBER => merge_minus TNUMBER v (numstart v) out
    | I_DIMENSION => merge_minus TDIMENSION v (numstart v) out
    | I_IDENT => merge_minus TIDENT v (namestart v) out
    | _ => mkS TIDENT v :: out
    end
  end.
Definition ser_acc (ns : ns_map) (q : list item) (out : list stok) : list stok := fold_left (ser_item ns) q out.
Definition ser_tokens (ns : ns_map) (q : list item) : list stok := rev (drop_S (ser_acc ns q [])).
Definition select_ser_tokens (ns : ns_map) (ts : list (str * str)) : list stok :=
  ser_tokens ns (seq (select ns ts)).
