(* LexemeRegex.v -- general facts about the CPS matcher used by the C09 lexeme theorems:
   * Fails / First : "no path at all" / "the highest-priority path consumes exactly e"
     with composition lemmas for Cat, Alt, Rep (first_rep = cls_star_maximal in general form);
   * fc : computed first-character sets, fc_fails (an expression that is not nullable and whose
     first-character set excludes c cannot match a text starting with c);
   * bounds / repr : every character behaves like the representative of its boundary interval,
     so first-character tables over finitely many representatives speak about all characters. *)
From CssV Require Import Base Regex RegexFacts.

Definition lst (p : option N) (t : str) : option N := fold_left (fun _ x => Some x) t p.

Lemma lst_app p a b : lst p (a ++ b) = lst (lst p a) b.
Proof. unfold lst. apply fold_left_app. Qed.

Section Paths.
Context {R : Type}.

Definition Fails (ma : matcher R) (t : str) : Prop := forall p k, ma p t k = None.
Definition First (ma : matcher R) (e rest : str) : Prop :=
  forall p k v, k (lst p e) rest = Some v -> ma p (e ++ rest) k = Some v.

(* ---- single-character expressions ---- *)
Definition chartest (r : re) : option (N -> bool) :=
  match r with
  | Chr c => Some (fun x => N.eqb x c)
  | NotChr c => Some (fun x => negb (N.eqb x c))
  | Any => Some (fun x => negb (N.eqb x 10))
  | Cls neg rs => Some (fun x => xorb neg (in_ranges x rs))
  | _ => None
  end.

Lemma m_single r f : chartest r = Some f -> forall p t (k : cont R),
  m r p t k = match t with x :: t' => if f x then k (Some x) t' else None | [] => None end.
Proof.
  destruct r; simpl; intros H; inversion H; subst; intros p t k; destruct t as [|x t']; auto.
  - destruct (N.eqb x c); reflexivity.
  - destruct (N.eqb x 10); reflexivity.
Qed.

Lemma first_single r f x rest : chartest r = Some f -> f x = true -> First (m r) [x] rest.
Proof. intros H Hx p k v Hk. rewrite (m_single _ _ H). simpl. rewrite Hx. exact Hk. Qed.

Lemma fails_single r f x t : chartest r = Some f -> f x = false -> Fails (m r) (x :: t).
Proof. intros H Hx p k. rewrite (m_single _ _ H). now rewrite Hx. Qed.

Lemma fails_single_nil r f : chartest r = Some f -> Fails (m r) [].
Proof. intros H p k. now rewrite (m_single _ _ H). Qed.

(* ---- composition ---- *)
Lemma first_eps rest : First (m Eps) [] rest.
Proof. intros p k v H. exact H. Qed.

Lemma first_cat a b e1 e2 rest :
  First (m a) e1 (e2 ++ rest) -> First (m b) e2 rest -> First (m (Cat a b)) (e1 ++ e2) rest.
Proof.
  intros Ha Hb p k v Hk. cbn [m]. rewrite <- app_assoc. apply Ha. apply Hb. now rewrite <- lst_app.
Qed.

Lemma first_alt_l a b e rest : First (m a) e rest -> First (m (Alt a b)) e rest.
Proof. intros Ha p k v Hk. cbn [m]. now rewrite (Ha p k v Hk). Qed.

Lemma first_alt_r a b e rest : Fails (m a) (e ++ rest) -> First (m b) e rest -> First (m (Alt a b)) e rest.
Proof. intros Fa Hb p k v Hk. cbn [m]. rewrite Fa. now apply Hb. Qed.

Lemma fails_cat_l a b t : Fails (m a) t -> Fails (m (Cat a b)) t.
Proof. intros Fa p k. cbn [m]. apply Fa. Qed.

Lemma fails_cat_single a f b x t : chartest a = Some f -> Fails (m b) t -> Fails (m (Cat a b)) (x :: t).
Proof. intros H Fb p k. cbn [m]. rewrite (m_single _ _ H). destruct (f x); auto. Qed.

Lemma fails_alt a b t : Fails (m a) t -> Fails (m b) t -> Fails (m (Alt a b)) t.
Proof. intros Fa Fb p k. cbn [m]. rewrite Fa. apply Fb. Qed.

Lemma rep_iter_fails ma t : Fails ma t ->
  forall fuel k lo hi p, rep_iter ma k fuel lo hi p t = match fuel, lo with S _, O => k p t | _, _ => None end.
Proof.
  intros F fuel k lo hi p. destruct fuel as [|f]; [reflexivity|]. cbn [rep_iter]. rewrite F.
  destruct hi as [[|h]|]; reflexivity.
Qed.

Lemma fails_rep_pos a lo hi t : Fails (m a) t -> lo <> O -> Fails (m (Rep a lo hi)) t.
Proof. intros F Hlo p k. cbn [m]. rewrite (rep_iter_fails _ _ F). destruct lo; congruence. Qed.

(* a repeat whose body cannot match here and whose lower bound is 0 matches the empty text *)
Lemma first_rep_none a hi rest : Fails (m a) rest -> First (m (Rep a O hi)) [] rest.
Proof. intros F p k v Hk. cbn [m app]. rewrite (rep_iter_fails _ _ F). exact Hk. Qed.

(* ---- greedy repeats: the first path takes every element offered ---- *)
Fixpoint FirstSeq (ma : matcher R) (es : list str) (rest : str) : Prop :=
  match es with
  | [] => True
  | e :: es' => e <> [] /\ First ma e (concat es' ++ rest) /\ FirstSeq ma es' rest
  end.

Definition hi_ok (hi : option nat) (n : nat) : Prop :=
  match hi with None => True | Some h => (n <= h)%nat end.

Lemma first_rep_iter ma es : forall rest fuel lo hi,
  FirstSeq ma es rest -> (length es < fuel)%nat -> (lo <= length es)%nat -> hi_ok hi (length es) ->
  (hi = Some (length es) \/ Fails ma rest) ->
  forall p k v, k (lst p (concat es)) rest = Some v ->
  rep_iter ma k fuel lo hi p (concat es ++ rest) = Some v.
Proof.
  induction es as [|e es IH]; intros rest fuel lo hi Hs Hf Hlo Hhi Hstop p k v Hk.
  - destruct fuel as [|f]; [simpl in Hf; lia|]. simpl in *. assert (lo = O) by lia. subst lo.
    destruct hi as [[|h]|]; try exact Hk.
    + destruct Hstop as [E|F]; [discriminate|]. now rewrite F.
    + destruct Hstop as [E|F]; [discriminate|]. now rewrite F.
  - destruct fuel as [|f]; [simpl in Hf; lia|]. destruct Hs as (Hne & He & Hs).
    cbn [rep_iter]. simpl concat. rewrite <- app_assoc.
    assert (Hmore : ma p (e ++ concat es ++ rest)
              (fun (p0 : option N) (t' : str) =>
                 if Nat.ltb (length t') (length (e ++ concat es ++ rest))
                 then rep_iter ma k f (Nat.pred lo) (option_map Nat.pred hi) p0 t' else None) = Some v).
    { apply He.
      assert (L : Nat.ltb (length (concat es ++ rest)) (length (e ++ concat es ++ rest)) = true).
      { apply Nat.ltb_lt. rewrite (app_length e). destruct e; [congruence|simpl; lia]. }
      rewrite L. apply IH; auto.
      - simpl in Hf. lia.
      - simpl in Hlo. lia.
      - destruct hi as [h|]; simpl in *; lia.
      - destruct Hstop as [E|F]; [left|right; assumption]. subst hi. reflexivity.
      - simpl in Hk. now rewrite lst_app in Hk. }
    destruct hi as [[|h]|].
    + simpl in Hhi. lia.
    + now rewrite Hmore.
    + now rewrite Hmore.
Qed.

Lemma firstseq_len ma es rest : FirstSeq ma es rest -> (length es <= length (concat es))%nat.
Proof.
  induction es as [|e es IH]; simpl; [lia|]. intros (Hne & _ & Hs). rewrite app_length.
  specialize (IH Hs). destruct e; [congruence|simpl; lia].
Qed.

(* cls_star_maximal, general form: a greedy repeat takes exactly the offered elements when the
   body cannot continue afterwards (or the upper bound is reached) *)
Lemma first_rep a lo hi es rest :
  FirstSeq (m a) es rest -> (lo <= length es)%nat -> hi_ok hi (length es) ->
  (hi = Some (length es) \/ Fails (m a) rest) ->
  First (m (Rep a lo hi)) (concat es) rest.
Proof.
  intros Hs Hlo Hhi Hstop p k v Hk. cbn [m]. apply first_rep_iter; auto.
  pose proof (firstseq_len _ _ _ Hs). rewrite app_length. lia.
Qed.

(* runs of single characters *)
Lemma firstseq_run a f xs rest : chartest a = Some f -> forallb f xs = true ->
  FirstSeq (m a) (map (fun x => [x]) xs) rest.
Proof.
  intros H. induction xs as [|x xs IH]; simpl; [trivial|]. intros Hx. apply andb_true_iff in Hx as [Hx Hxs].
  repeat split; [discriminate| |now apply IH]. now apply (first_single _ _ _ _ H).
Qed.

Lemma concat_singletons (xs : str) : concat (map (fun x => [x]) xs) = xs.
Proof. induction xs; simpl; congruence. Qed.

Definition head_not (f : N -> bool) (t : str) : bool :=
  match t with [] => true | c :: _ => negb (f c) end.

Lemma fails_head a f t : chartest a = Some f -> head_not f t = true -> Fails (m a) t.
Proof.
  intros H Hh. destruct t as [|c t]; [now apply (fails_single_nil _ _ H)|].
  apply (fails_single _ _ _ _ H). simpl in Hh. now apply negb_true_iff in Hh.
Qed.

Lemma first_run a f lo xs rest : chartest a = Some f -> forallb f xs = true -> (lo <= length xs)%nat ->
  head_not f rest = true -> First (m (Rep a lo None)) xs rest.
Proof.
  intros H Hxs Hlo Hh. rewrite <- (concat_singletons xs). apply first_rep.
  - now apply (firstseq_run _ _ _ _ H).
  - now rewrite map_length.
  - exact I.
  - right. now apply (fails_head _ _ _ H).
Qed.

(* the continuation of a run fails at every split point => the whole repeat fails *)
Lemma rep_run_none a f : chartest a = Some f -> forall xs rest (k : cont R),
  forallb f xs = true -> head_not f rest = true ->
  (forall i p', (i <= length xs)%nat -> k p' (skipn i xs ++ rest) = None) ->
  forall fuel lo hi p, rep_iter (m a) k fuel lo hi p (xs ++ rest) = None.
Proof.
  intros H xs. induction xs as [|x xs IH]; intros rest k Hxs Hh Hk fuel lo hi p.
  - simpl. rewrite (rep_iter_fails _ _ (fails_head _ _ _ H Hh)).
    destruct fuel, lo; auto. apply (Hk O p). simpl; lia.
  - destruct fuel as [|fu]; [reflexivity|]. simpl in Hxs. apply andb_true_iff in Hxs as [Hx Hxs].
    change ((x :: xs) ++ rest) with (x :: xs ++ rest).
    assert (E : forall lo' hi', (if Nat.ltb (length (xs ++ rest)) (length (x :: xs ++ rest))
                 then rep_iter (m a) k fu lo' hi' (Some x) (xs ++ rest)
                 else None) = None).
    { intros lo' hi'. destruct (Nat.ltb _ _); [|reflexivity]. apply IH; auto.
      intros i p' Hi. apply (Hk (S i) p'). simpl; lia. }
    assert (K0 : k p (x :: xs ++ rest) = None) by (apply (Hk O p); simpl; lia).
    cbn [rep_iter]. rewrite (m_single _ _ H). rewrite Hx, E.
    destruct hi as [[|h]|]; (destruct lo; [exact K0|reflexivity]).
Qed.

Lemma fails_cat_run a f lo hi b xs rest : chartest a = Some f ->
  forallb f xs = true -> head_not f rest = true ->
  (forall i, (i <= length xs)%nat -> Fails (m b) (skipn i xs ++ rest)) ->
  Fails (m (Cat (Rep a lo hi) b)) (xs ++ rest).
Proof.
  intros H Hxs Hh Hb p k. cbn [m]. apply (rep_run_none _ _ H); auto.
  intros i p' Hi. now apply Hb.
Qed.

End Paths.

Lemma first_rmatch r e rest p : First (R:=nat) (m r) e rest -> rmatch r p (e ++ rest) = Some (length e).
Proof.
  intros H. unfold rmatch. apply H. f_equal. rewrite app_length. lia.
Qed.

Lemma fails_rmatch r t p : Fails (R:=nat) (m r) t -> rmatch r p t = None.
Proof. intros H. apply H. Qed.

(* ------------------------------------------------------------------ first-character sets *)
Fixpoint fc (r : re) (c : N) : bool :=
  match r with
  | Eps | NotBehind _ | Ahead _ | NotAhead _ | Bos | Eos => false
  | Chr x => N.eqb c x
  | NotChr x => negb (N.eqb c x)
  | Any => negb (N.eqb c 10)
  | Cls neg rs => xorb neg (in_ranges c rs)
  | Cat a b => fc a c || (nullable a && fc b c)
  | Alt a b => fc a c || fc b c
  | Rep a _ _ | LazyRep a _ _ => fc a c
  end.

Section FC.
Context {R : Type}.

Lemma rep_iter_noconsume (ma : matcher R) c t :
  (forall p k v, ma p (c :: t) k = Some v -> exists p', k p' (c :: t) = Some v) ->
  forall fuel k lo hi p v, rep_iter ma k fuel lo hi p (c :: t) = Some v -> lo = O /\ k p (c :: t) = Some v.
Proof.
  intros Hma fuel k lo hi p v H. destruct fuel as [|f]; [discriminate|]. cbn [rep_iter] in H.
  match type of H with context [ma p (c :: t) ?kk] => set (K := kk) in H end.
  assert (E : ma p (c :: t) K = None).
  { destruct (ma p (c :: t) K) as [v0|] eqn:E; [|reflexivity]. apply Hma in E as (p' & E).
    unfold K in E. rewrite Nat.ltb_irrefl in E. discriminate. }
  rewrite E in H. destruct hi as [[|h]|]; (destruct lo; [split; [reflexivity|exact H]|discriminate]).
Qed.

Lemma lazy_iter_noconsume (ma : matcher R) c t :
  (forall p k v, ma p (c :: t) k = Some v -> exists p', k p' (c :: t) = Some v) ->
  forall fuel k lo hi p v, lazy_iter ma k fuel lo hi p (c :: t) = Some v -> lo = O /\ k p (c :: t) = Some v.
Proof.
  intros Hma fuel k lo hi p v H. destruct fuel as [|f]; [discriminate|]. cbn [lazy_iter] in H.
  match type of H with context [ma p (c :: t) ?kk] => set (K := kk) in H end.
  assert (E : ma p (c :: t) K = None).
  { destruct (ma p (c :: t) K) as [v0|] eqn:E; [|reflexivity]. apply Hma in E as (p' & E).
    unfold K in E. rewrite Nat.ltb_irrefl in E. discriminate. }
  rewrite E in H. destruct lo.
  - destruct (k p (c :: t)) as [v0|] eqn:Ek.
    + inversion H; subst. auto.
    + destruct hi as [[|h]|]; discriminate.
  - destruct hi as [[|h]|]; discriminate.
Qed.

Lemma fc_noconsume r c : fc r c = false -> forall p t (k : cont R) v,
  m r p (c :: t) k = Some v -> nullable r = true /\ exists p', k p' (c :: t) = Some v.
Proof.
  induction r as [|x|x| |neg rs|a IHa b IHb|a IHa b IHb|a IHa lo hi|a IHa lo hi|x|x|x| |];
    cbn [fc nullable]; intros Hfc p t k v H; cbn [m] in H.
  - eauto.
  - rewrite Hfc in H. discriminate.
  - apply negb_false_iff in Hfc. rewrite Hfc in H. discriminate.
  - apply negb_false_iff in Hfc. rewrite Hfc in H. discriminate.
  - rewrite Hfc in H. discriminate.
  - apply orb_false_iff in Hfc as [Ha Hb]. apply (IHa Ha) in H as (Na & p1 & H1).
    rewrite Na in Hb. simpl in Hb. apply (IHb Hb) in H1 as (Nb & p2 & H2). rewrite Na, Nb. eauto.
  - apply orb_false_iff in Hfc as [Ha Hb]. destruct (m a p (c :: t) k) as [v0|] eqn:E.
    + inversion H; subst v0. apply (IHa Ha) in E as (Na & p1 & H1). rewrite Na. eauto.
    + apply (IHb Hb) in H as (Nb & p1 & H1). rewrite Nb, orb_true_r. eauto.
  - apply rep_iter_noconsume in H as [-> H]; [eauto|].
    intros p0 k0 v0 H0. apply (IHa Hfc) in H0 as (_ & H0). exact H0.
  - apply lazy_iter_noconsume in H as [-> H]; [eauto|].
    intros p0 k0 v0 H0. apply (IHa Hfc) in H0 as (_ & H0). exact H0.
  - split; [reflexivity|]. destruct p as [y|]; [destruct (N.eqb y x); [discriminate|]|]; eauto.
  - split; [reflexivity|]. destruct (N.eqb c x); [eauto|discriminate].
  - split; [reflexivity|]. destruct (N.eqb c x); [discriminate|eauto].
  - split; [reflexivity|]. destruct p; [discriminate|eauto].
  - split; [reflexivity|]. destruct t; [destruct (N.eqb c 10); [eauto|discriminate]|discriminate].
Qed.

(* first_char_dispatch, expression level *)
Lemma fc_fails r c t : nullable r = false -> fc r c = false -> Fails (R:=R) (m r) (c :: t).
Proof.
  intros Hn Hfc p k. destruct (m r p (c :: t) k) as [v|] eqn:E; [|reflexivity].
  apply (fc_noconsume _ _ Hfc) in E as [E _]. congruence.
Qed.

Lemma fails_nil r : nullable r = false -> Fails (R:=R) (m r) [].
Proof.
  intros Hn p k. destruct (m r p [] k) as [v|] eqn:E; [|reflexivity].
  apply m_sound in E as (p' & t' & _ & _ & L). specialize (L Hn). simpl in L. lia.
Qed.

Definition fc_head (r : re) (t : str) : bool := match t with [] => false | c :: _ => fc r c end.

Lemma fc_head_fails r t : nullable r = false -> fc_head r t = false -> Fails (R:=R) (m r) t.
Proof. destruct t as [|c t]; intros Hn H; [now apply fails_nil|now apply fc_fails]. Qed.
End FC.

(* ------------------------------------------------------------------ boundary intervals *)
Fixpoint range_bounds (rs : list (N * N)) : list N :=
  match rs with [] => [] | (lo, hi) :: r => lo :: N.succ hi :: range_bounds r end.

Fixpoint bounds (r : re) : list N :=
  match r with
  | Chr x | NotChr x => [x; N.succ x]
  | Any => [10%N; 11%N]
  | Cls _ rs => range_bounds rs
  | Cat a b | Alt a b => bounds a ++ bounds b
  | Rep a _ _ | LazyRep a _ _ => bounds a
  | _ => []
  end.

Definition sameb (B : list N) (c c' : N) : Prop := forall b, In b B -> N.leb b c = N.leb b c'.

Lemma eqb_leb c x : N.eqb c x = N.leb x c && negb (N.leb (N.succ x) c).
Proof.
  destruct (N.eqb_spec c x), (N.leb_spec x c), (N.leb_spec (N.succ x) c); simpl; try reflexivity; lia.
Qed.

Lemma in_ranges_same rs c c' : sameb (range_bounds rs) c c' -> in_ranges c rs = in_ranges c' rs.
Proof.
  induction rs as [|[lo hi] rs IH]; intros H; simpl; [reflexivity|].
  assert (H1 : N.leb lo c = N.leb lo c') by (apply H; simpl; auto).
  assert (H2 : N.leb (N.succ hi) c = N.leb (N.succ hi) c') by (apply H; simpl; auto).
  rewrite IH by (intros b Hb; apply H; simpl; auto). rewrite H1. f_equal. f_equal.
  destruct (N.leb_spec c hi), (N.leb_spec c' hi), (N.leb_spec (N.succ hi) c), (N.leb_spec (N.succ hi) c');
    try reflexivity; try lia; discriminate.
Qed.

Lemma fc_same r c c' : sameb (bounds r) c c' -> fc r c = fc r c'.
Proof.
  induction r as [|x|x| |neg rs|a IHa b IHb|a IHa b IHb|a IHa lo hi|a IHa lo hi|x|x|x| |];
    cbn [fc bounds]; intros H; try reflexivity.
  - rewrite !eqb_leb. rewrite (H x), (H (N.succ x)); simpl; auto.
  - rewrite !eqb_leb. rewrite (H x), (H (N.succ x)); simpl; auto.
  - rewrite !eqb_leb. rewrite (H 10%N), (H (N.succ 10)); simpl; auto.
  - f_equal. now apply in_ranges_same.
  - rewrite IHa, IHb; auto; intros x Hx; apply H; apply in_or_app; auto.
  - rewrite IHa, IHb; auto; intros x Hx; apply H; apply in_or_app; auto.
  - auto.
  - auto.
Qed.

(* the representative of c w.r.t. a boundary list: the largest boundary <= c (0 if none) *)
Definition repr (B : list N) (c : N) : N := fold_left N.max (filter (fun b => N.leb b c) B) 0%N.

Lemma fold_max_ge l : forall a, (a <= fold_left N.max l a)%N.
Proof. induction l as [|x l IH]; simpl; intros a; [lia|]. specialize (IH (N.max a x)). lia. Qed.

Lemma fold_max_in l : forall a b, In b l -> (b <= fold_left N.max l a)%N.
Proof.
  induction l as [|x l IH]; simpl; intros a b Hb; [contradiction|]. destruct Hb as [->|H].
  - pose proof (fold_max_ge l (N.max a b)). lia.
  - now apply IH.
Qed.

Lemma fold_max_bound l c : forall a, (a <= c)%N -> (forall b, In b l -> (b <= c)%N) -> (fold_left N.max l a <= c)%N.
Proof.
  induction l as [|x l IH]; simpl; intros a Ha H; [assumption|]. apply IH; [|auto].
  specialize (H x (or_introl eq_refl)). lia.
Qed.

Lemma repr_le B c : (repr B c <= c)%N.
Proof.
  unfold repr. apply fold_max_bound; [lia|]. intros b Hb. apply filter_In in Hb as [_ Hb]. now apply N.leb_le.
Qed.

Lemma repr_ge B c b : In b B -> (b <= c)%N -> (b <= repr B c)%N.
Proof.
  intros Hb Hle. unfold repr. apply fold_max_in. apply filter_In. split; [assumption|now apply N.leb_le].
Qed.

Lemma repr_same B c : sameb B c (repr B c).
Proof.
  intros b Hb. destruct (N.leb_spec b c) as [Hle|Hgt].
  - symmetry. apply N.leb_le. now apply repr_ge.
  - symmetry. apply N.leb_gt. pose proof (repr_le B c). lia.
Qed.

Lemma fold_max_mem l : forall a, fold_left N.max l a = a \/ In (fold_left N.max l a) l.
Proof.
  induction l as [|x l IH]; simpl; intros a; [auto|].
  destruct (IH (N.max a x)) as [E|E]; [|auto]. rewrite E.
  destruct (N.max_spec a x) as [[_ ->]|[_ ->]]; auto.
Qed.

Lemma repr_in B c : In (repr B c) (0%N :: B).
Proof.
  unfold repr. destruct (fold_max_mem (filter (fun b => N.leb b c) B) 0%N) as [E|E].
  - rewrite E. simpl; auto.
  - right. apply filter_In in E. tauto.
Qed.

Lemma sameb_incl B B' c c' : incl B' B -> sameb B c c' -> sameb B' c c'.
Proof. intros Hi H b Hb. apply H. now apply Hi. Qed.
