(* UrlQuoteFacts.v -- proofs about the URI quoting helpers (C12): for every URL string that
   helper.string can represent (CssV.QuoteStrFacts.representable_str: any code points, backslashes and
   newline characters included, except a backslash run of odd length directly before a double
   quote), helper.uri writes a text whose first token
   is the URI token spanning exactly that text, and helper.urivalue / _uritokenvalue read the
   original string back from the token value.  The URI production is taken apart structurally
   (re_URI_shape, by reflexivity against the regenerated Gen/Productions.v); its quoted body is the
   string body of the STRING production (re_SC_is_body_dq), so C03's lemmas about helper.string
   (body_iter, unicodesub_loop, replace_loop) are reused; character-class facts that depend on the
   regenerated tables are finite checks by vm_compute.                                          *)
From CssV Require Import Base Regex RegexFacts Gen.Productions Gen.TokTables Gen.PyTables Tokenizer TokenizerFacts
  Quote Gen.Quote QuoteFacts QuoteStrFacts Gen.UrlQuote UrlQuote.

(* ------------------------------------------------------------------ str library *)

Lemma lstrip_nonspace c t : is_space c = false -> lstrip (c :: t) = c :: t.
Proof. intros H. simpl. rewrite H. reflexivity. Qed.
Lemma rstrip_nonspace t c : is_space c = false -> rstrip (t ++ [c]) = t ++ [c].
Proof.
  intros H. unfold rstrip. rewrite rev_app_distr. cbn [rev app]. rewrite lstrip_nonspace by exact H.
  cbn [rev]. rewrite rev_involutive. reflexivity.
Qed.
Lemma strip_nonspace c t d : is_space c = false -> is_space d = false -> strip (c :: t ++ [d]) = c :: t ++ [d].
Proof.
  intros Hc Hd. unfold strip. rewrite lstrip_nonspace by exact Hc.
  change (c :: t ++ [d]) with ((c :: t) ++ [d]). apply rstrip_nonspace. exact Hd.
Qed.
Lemma strip_ends t : (forall c r, t = c :: r -> is_space c = false) ->
  (forall r d, t = r ++ [d] -> is_space d = false) -> strip t = t.
Proof.
  intros Hh Hl. destruct t as [|c t]; [reflexivity|].
  destruct t as [|x t] using rev_ind.
  - unfold strip. rewrite lstrip_nonspace by (eapply Hh; reflexivity).
    change [c] with ([] ++ [c]). apply rstrip_nonspace. eapply Hh. reflexivity.
  - apply strip_nonspace; [eapply Hh; reflexivity|]. eapply (Hl (c :: t)). reflexivity.
Qed.

Lemma slice_mid a body b lo e : length a = lo -> length b = e -> slice lo e (a ++ body ++ b) = body.
Proof.
  intros Ha Hb. unfold slice. rewrite !app_length, Ha, Hb.
  rewrite skipn_app, <- Ha, skipn_all, Nat.sub_diag. cbn [skipn app].
  replace (length a + (length body + e) - e - length a)%nat with (length body + 0)%nat by lia.
  rewrite firstn_app_2. cbn [firstn]. apply app_nil_r.
Qed.

(* ------------------------------------------------------------------ generic matcher facts *)
Lemma in_ranges_false_intro c rs :
  (forall lo hi, In (lo, hi) rs -> (c < lo \/ hi < c)%N) -> in_ranges c rs = false.
Proof.
  induction rs as [|[lo hi] rs IH]; intros H; [reflexivity|]. cbn [in_ranges].
  rewrite IH by (intros; apply H; right; assumption). rewrite orb_false_r.
  destruct (H lo hi (or_introl eq_refl)) as [Hlt|Hlt].
  - replace (N.leb lo c) with false by (symmetry; apply N.leb_gt; lia). reflexivity.
  - replace (N.leb c hi) with false by (symmetry; apply N.leb_gt; lia). apply andb_false_r.
Qed.
Lemma in_ranges_true_elim c rs : in_ranges c rs = true -> exists lo hi, In (lo, hi) rs /\ (lo <= c <= hi)%N.
Proof.
  induction rs as [|[lo hi] rs IH]; [discriminate|]. cbn [in_ranges]. intros H.
  apply orb_true_iff in H as [H|H].
  - apply andb_true_iff in H as [H1 H2]. apply N.leb_le in H1, H2. exists lo, hi. split; [left; reflexivity|lia].
  - destruct (IH H) as (lo' & hi' & Hin & Hr). exists lo', hi'. split; [right; exact Hin|exact Hr].
Qed.

Lemma m_cat {R} a b p t (k : cont R) : m (Cat a b) p t k = m a p t (fun p' t' => m b p' t' k).
Proof. reflexivity. Qed.
Lemma m_alt {R} a b p t (k : cont R) :
  m (Alt a b) p t k = match m a p t k with Some v => Some v | None => m b p t k end.
Proof. reflexivity. Qed.
Lemma m_rep {R} a lo hi p t (k : cont R) : m (Rep a lo hi) p t k = rep_iter (m a) k (S (length t)) lo hi p t.
Proof. reflexivity. Qed.
Lemma m_chr_hit {R} c p t (k : cont R) : m (Chr c) p (c :: t) k = k (Some c) t.
Proof. cbn [m]. rewrite N.eqb_refl. reflexivity. Qed.
Lemma m_catchr_miss {R} c b x p t (k : cont R) : x <> c -> m (Cat (Chr c) b) p (x :: t) k = None.
Proof. intros H. cbn [m]. destruct (N.eqb_spec x c); [contradiction|reflexivity]. Qed.

(* `cls*` in front of a character outside the class consumes nothing *)
Lemma rep_cls_skip {R} rs x t p (k : cont R) :
  in_ranges x rs = false -> m (Rep (Cls false rs) 0 None) p (x :: t) k = k p (x :: t).
Proof. intros H. cbn [m rep_iter length]. rewrite H. reflexivity. Qed.

(* greedy repetition over a text made of units the body matches in exactly one way, followed by a
   text the body does not match: the repetition takes all units, provided the continuation accepts *)
Lemma rep_iter_units {R} (ma : matcher R) (k : cont R) rest r :
  (forall p k', ma p rest k' = None) ->
  (forall p, k p rest = Some r) ->
  forall us, Forall (fun u => u <> [] /\ forall p t k', exists p', ma p (u ++ t) k' = k' p' t) us ->
  forall fuel p, (length (concat us ++ rest) < fuel)%nat ->
  rep_iter ma k fuel 0 None p (concat us ++ rest) = Some r.
Proof.
  intros Hrest Hk us Hus. induction Hus as [|u us [Hne Hu] _ IH]; intros fuel p Hf.
  - destruct fuel as [|f]; [lia|]. cbn [concat app rep_iter]. rewrite Hrest. apply Hk.
  - destruct fuel as [|f]; [lia|]. cbn [concat] in Hf |- *. rewrite <- app_assoc in Hf |- *. cbn [rep_iter].
    destruct (Hu p (concat us ++ rest)
                 (fun p0 t' => if Nat.ltb (length t') (length (u ++ concat us ++ rest))
                               then rep_iter ma k f (Nat.pred 0) (option_map Nat.pred None) p0 t' else None))
      as [p' Hp']. rewrite Hp'.
    assert (Hlt : Nat.ltb (length (concat us ++ rest)) (length (u ++ concat us ++ rest)) = true).
    { apply Nat.ltb_lt. rewrite (app_length u). destruct u; [congruence|simpl; lia]. }
    rewrite Hlt. cbn [Nat.pred option_map]. rewrite IH; [reflexivity|].
    rewrite (app_length u) in Hf. destruct u; [congruence|simpl in Hf; lia].
Qed.

(* ------------------------------------------------------------------ the pieces of the URI production *)
Definition uri_pieces :=
  match re_URI with
  | Cat u (Cat r (Cat l (Cat (Chr 40) (Cat (Rep (Cls false ws) 0 None)
      (Cat (Alt (Alt (Cat (Chr 34) (Cat (Rep sc 0 None) (Chr 34))) (Cat (Chr 39) s2)) (Rep uc 0 None))
           (Cat (Rep (Cls false ws') 0 None) (Chr 41))))))) => Some (u, r, l, ws, ws', sc, s2, uc)
  | _ => None
  end.
Definition re_U := Eval vm_compute in match uri_pieces with Some (u, _, _, _, _, _, _, _) => u | None => Eps end.
Definition re_R := Eval vm_compute in match uri_pieces with Some (_, r, _, _, _, _, _, _) => r | None => Eps end.
Definition re_L := Eval vm_compute in match uri_pieces with Some (_, _, l, _, _, _, _, _) => l | None => Eps end.
Definition ws_ranges := Eval vm_compute in match uri_pieces with Some (_, _, _, ws, _, _, _, _) => ws | None => [] end.
Definition ws_ranges' := Eval vm_compute in match uri_pieces with Some (_, _, _, _, ws, _, _, _) => ws | None => [] end.
Definition re_SC := Eval vm_compute in match uri_pieces with Some (_, _, _, _, _, sc, _, _) => sc | None => Eps end.
Definition re_S2 := Eval vm_compute in match uri_pieces with Some (_, _, _, _, _, _, s2, _) => s2 | None => Eps end.
Definition re_UC := Eval vm_compute in match uri_pieces with Some (_, _, _, _, _, _, _, uc) => uc | None => Eps end.

Lemma re_URI_shape :
  re_URI = Cat re_U (Cat re_R (Cat re_L (Cat (Chr 40) (Cat (Rep (Cls false ws_ranges) 0 None)
             (Cat (Alt (Alt (Cat (Chr 34) (Cat (Rep re_SC 0 None) (Chr 34))) (Cat (Chr 39) re_S2)) (Rep re_UC 0 None))
                  (Cat (Rep (Cls false ws_ranges') 0 None) (Chr 41))))))).
Proof. reflexivity. Qed.

Lemma U_step {R} p t (k : cont R) : m re_U p (117%N :: t) k = k (Some 117%N) t.
Proof. unfold re_U. cbn. destruct (k (Some 117%N) t); reflexivity. Qed.
Lemma R_step {R} p t (k : cont R) : m re_R p (114%N :: t) k = k (Some 114%N) t.
Proof. unfold re_R. cbn. destruct (k (Some 114%N) t); reflexivity. Qed.
Lemma L_step {R} p t (k : cont R) : m re_L p (108%N :: t) k = k (Some 108%N) t.
Proof. unfold re_L. cbn. destruct (k (Some 108%N) t); reflexivity. Qed.

Definition sc_ranges := Eval vm_compute in match re_SC with Alt (Cls true rs) _ => rs | _ => [] end.
Definition uc_ranges := Eval vm_compute in match re_UC with Alt (Cls false rs) _ => rs | _ => [] end.
Definition na_ranges := Eval vm_compute in match re_UC with Alt _ (Alt (Cls true rs) _) => rs | _ => [] end.

Lemma re_SC_is_body_dq : re_SC = body_dq.
Proof. reflexivity. Qed.

Lemma UC_plain {R} c p t (k : cont R) :
  (in_ranges c uc_ranges = true \/ in_ranges c na_ranges = false) -> c <> 92%N ->
  m re_UC p (c :: t) k = k (Some c) t.
Proof.
  intros H Hb. unfold re_UC. cbn [m]. destruct (N.eqb_spec c 92); [contradiction|].
  unfold uc_ranges, na_ranges in H.
  repeat match goal with
         | |- context [in_ranges c ?l] => let E := fresh "E" in destruct (in_ranges c l) eqn:E
         end; cbn [xorb]; destruct (k (Some c) t); try reflexivity;
    destruct H as [H|H]; discriminate H.
Qed.
Lemma UC_stop {R} p t (k : cont R) : m re_UC p (41%N :: t) k = None.
Proof. unfold re_UC. cbn. reflexivity. Qed.

(* ------------------------------------------------------------------ range tables *)
Definition ranges_subset (small big : list (N * N)) : bool :=
  forallb (fun a => existsb (fun b => N.leb (fst b) (fst a) && N.leb (snd a) (snd b)) big) small.
Lemma ranges_subset_sound small big c :
  ranges_subset small big = true -> in_ranges c small = true -> in_ranges c big = true.
Proof.
  intros Hs H. apply in_ranges_true_elim in H as (lo & hi & Hin & Hr).
  unfold ranges_subset in Hs. rewrite forallb_forall in Hs. specialize (Hs _ Hin).
  apply existsb_exists in Hs as ([lo' hi'] & Hin' & Hb). cbn [fst snd] in Hb.
  apply andb_true_iff in Hb as [H1 H2]. apply N.leb_le in H1, H2.
  clear Hin. induction big as [|[a b] big IH]; [destruct Hin'|]. cbn [in_ranges].
  destruct Hin' as [E|Hin']; [injection E as -> ->|rewrite IH by exact Hin'; apply orb_true_r].
  replace (N.leb lo' c) with true by (symmetry; apply N.leb_le; lia).
  replace (N.leb c hi') with true by (symmetry; apply N.leb_le; lia). reflexivity.
Qed.

Definition forb_ranges := Eval vm_compute in
  match re_forbidden_in_uri with Cat (LazyRep Any 0 None) (Cls false rs) => rs | _ => [] end.
Lemma forbidden_shape : re_forbidden_in_uri = Cat (LazyRep Any 0 None) (Cls false forb_ranges).
Proof. reflexivity. Qed.

(* a character helper.uri may leave unquoted *)
Definition bare (c : N) : Prop := in_ranges c forb_ranges = false /\ c <> 92%N.

Lemma lazy_any_none {R} rs (k0 : cont R) : in_ranges 10 rs = true -> (forall p t, k0 p t <> None) ->
  forall v fuel p, (length v < fuel)%nat ->
  lazy_iter (m Any) (fun p t => m (Cls false rs) p t k0) fuel 0 None p v = None ->
  forall c, In c v -> in_ranges c rs = false.
Proof.
  intros Hnl Hk. induction v as [|x v IH]; intros fuel p Hf H c Hc; [destruct Hc|].
  destruct fuel as [|f]; [lia|]. cbn [lazy_iter m xorb] in H.
  destruct (in_ranges x rs) eqn:Ex; cbn [xorb] in H.
  - destruct (k0 (Some x) v) eqn:Ek; [discriminate H|]. exfalso. apply (Hk _ _ Ek).
  - destruct (N.eqb_spec x 10) as [->|Hx]; [congruence|].
    cbn [length] in H. replace (Nat.ltb (length v) (S (length v))) with true in H by (symmetry; apply Nat.ltb_lt; lia).
    cbn [Nat.pred option_map] in H.
    destruct Hc as [<-|Hc]; [exact Ex|]. eapply IH; [|exact H|exact Hc]. simpl in Hf. lia.
Qed.

Lemma forbidden_false v : forbidden v = false -> forall c, In c v -> in_ranges c forb_ranges = false.
Proof.
  unfold forbidden. rewrite forbidden_shape. unfold rmatch. cbn [m]. intros H.
  match type of H with (match ?X with _ => _ end) = _ => destruct X eqn:E; [discriminate H|] end.
  apply (lazy_any_none forb_ranges (fun _ t' => Some (length v - length t')%nat) eq_refl) with (fuel := S (length v)) (p := None).
  - intros p t. discriminate.
  - apply Nat.lt_succ_diag_r.
  - exact E.
Qed.

Lemma space_forbidden : forallb (fun c => in_ranges c forb_ranges) py_space = true.
Proof. vm_compute. reflexivity. Qed.
Lemma bare_not_space c : in_ranges c forb_ranges = false -> is_space c = false.
Proof.
  intros H. destruct (is_space c) eqn:E; [|reflexivity]. unfold is_space in E. apply mem_In in E.
  pose proof space_forbidden as Hs. rewrite forallb_forall in Hs. rewrite (Hs _ E) in H. discriminate.
Qed.

Lemma ws_forbidden : ranges_subset ws_ranges forb_ranges = true. Proof. vm_compute. reflexivity. Qed.
Lemma ws'_forbidden : ranges_subset ws_ranges' forb_ranges = true. Proof. vm_compute. reflexivity. Qed.
Lemma bare_not_ws c : in_ranges c forb_ranges = false -> in_ranges c ws_ranges = false.
Proof.
  intros H. destruct (in_ranges c ws_ranges) eqn:E; [|reflexivity].
  rewrite (ranges_subset_sound _ _ _ ws_forbidden E) in H. discriminate.
Qed.

Lemma ascii_bare_url :
  forallb (fun c => implb (negb (in_ranges c forb_ranges) && negb (N.eqb c 92)) (in_ranges c uc_ranges))
          (map N.of_nat (seq 0 128)) = true.
Proof. vm_compute. reflexivity. Qed.

Lemma bare_url c : bare c -> in_ranges c uc_ranges = true \/ in_ranges c na_ranges = false.
Proof.
  intros [Hf Hb]. destruct (in_ranges c na_ranges) eqn:E; [left|right; reflexivity].
  apply in_ranges_true_elim in E as (lo & hi & Hin & Hr).
  assert (Hc : (c < 128)%N).
  { unfold na_ranges in Hin. repeat (destruct Hin as [Hin|Hin]; [injection Hin as <- <-; lia|]). destruct Hin. }
  pose proof ascii_bare_url as Ha. rewrite forallb_forall in Ha.
  assert (Hin' : In c (map N.of_nat (seq 0 128))).
  { rewrite <- (N2Nat.id c). apply in_map. apply in_seq. lia. }
  specialize (Ha _ Hin'). rewrite Hf in Ha. destruct (N.eqb_spec c 92); [contradiction|].
  exact Ha.
Qed.

Lemma forb_consts : in_ranges 34 forb_ranges = true /\ in_ranges 39 forb_ranges = true /\ in_ranges 41 forb_ranges = true.
Proof. vm_compute. auto. Qed.

(* ------------------------------------------------------------------ the URI production on url( body ) *)
Definition re_BODY := Alt (Alt (Cat (Chr 34) (Cat (Rep re_SC 0 None) (Chr 34))) (Cat (Chr 39) re_S2)) (Rep re_UC 0 None).
Definition re_TAIL := Cat (Rep (Cls false ws_ranges') 0 None) (Chr 41).

Lemma tail_step {R} p follow (kf : cont R) : m re_TAIL p (41%N :: follow) kf = kf (Some 41%N) follow.
Proof. unfold re_TAIL. rewrite m_cat. rewrite rep_cls_skip by reflexivity. apply m_chr_hit. Qed.

Lemma concat_singletons (v : str) : concat (map (fun c => [c]) v) = v.
Proof. induction v as [|c v IH]; simpl; [reflexivity|]. rewrite IH. reflexivity. Qed.

Lemma body_bare {R} v follow p (kf : cont R) r :
  (forall c, In c v -> bare c) -> (forall p', kf p' follow = Some r) ->
  m re_BODY p (v ++ 41%N :: follow) (fun p' t' => m re_TAIL p' t' kf) = Some r.
Proof.
  intros Hv Hk. unfold re_BODY. rewrite !m_alt.
  assert (H1 : forall b, m (Cat (Chr 34) b) p (v ++ 41%N :: follow) (fun p' t' => m re_TAIL p' t' kf) = None).
  { intros b. destruct v as [|c v]; cbn [app]; apply m_catchr_miss; [discriminate|].
    intros ->. destruct (Hv 34%N (or_introl eq_refl)) as [Hf _]. rewrite (proj1 forb_consts) in Hf. discriminate. }
  assert (H2 : forall b, m (Cat (Chr 39) b) p (v ++ 41%N :: follow) (fun p' t' => m re_TAIL p' t' kf) = None).
  { intros b. destruct v as [|c v]; cbn [app]; apply m_catchr_miss; [discriminate|].
    intros ->. destruct (Hv 39%N (or_introl eq_refl)) as [Hf _]. rewrite (proj1 (proj2 forb_consts)) in Hf. discriminate. }
  rewrite H1, H2, m_rep.
  replace (v ++ 41%N :: follow) with (concat (map (fun c => [c]) v) ++ 41%N :: follow)
    by (rewrite concat_singletons; reflexivity).
  apply rep_iter_units.
  - intros p0 k'. apply UC_stop.
  - intros p0. rewrite tail_step. apply Hk.
  - apply Forall_forall. intros u Hu. apply in_map_iff in Hu as (c & <- & Hc). split; [discriminate|].
    intros p0 t k'. exists (Some c). cbn [app]. apply UC_plain; [apply bare_url, Hv, Hc|apply Hv, Hc].
  - lia.
Qed.

(* ------------------------------------------------------------------ the string inside url(): no cleanstring
   The tokenizer applies cleanstring to STRING tokens only, so inside url("...") a backslash directly
   before a newline character needs no line continuation: helper.string(value, False) writes
   backslash + newline escape, which is read back.  C03's body_iter / unicodesub_loop are stated for
   rep_ok (which excludes that case because of STRING tokens); here they are re-proved for the
   spelling hstring_loop under rep_okc (everything but an odd backslash run before a double quote). *)
Section UriUnits.
  Variable R : Type.
  Variables (kq : cont R) (res : R) (follow : str).
  Hypothesis Hkq : forall p, kq p (34%N :: follow) = Some res.

  Lemma body_iter_uri : forall r st, rep_okc st r = true ->
    Iter R kq res (pre st ++ hstring_loop st r ++ 34%N :: follow).
  Proof.
    assert (Upair : Unit R [92; 92]%N) by (apply unit_pair; reflexivity).
    assert (P53 : Unit R [53%N]) by (apply unit_plain; discriminate).
    assert (P99 : Unit R [99%N]) by (apply unit_plain; discriminate).
    assert (P32 : Unit R [32%N]) by (apply unit_plain; discriminate).
    assert (Pnl : forall h, h = 97%N \/ h = 100%N \/ h = 99%N -> Unit R [h])
      by (intros h [->|[->| ->]]; apply unit_plain; discriminate).
    induction r as [|c r IH]; intros st Hok.
    - destruct st; cbn [pre hstring_loop app]; unfold str_end1, str_end2.
      + apply Iter_close. exact Hkq.
      + apply (Iter_unit R kq res [92; 92]%N); [exact Upair|discriminate|apply Iter_close; exact Hkq].
      + apply (Iter_unit R kq res [92; 92]%N); [exact Upair|discriminate|].
        apply (Iter_unit R kq res [92; 53; 99; 32]%N); [apply unit_5c|discriminate|apply Iter_close; exact Hkq].
    - cbn [rep_okc] in Hok. cbn [hstring_loop]. unfold str_bs, str_s1_first, str_s2_first, str_s1_hex, str_s2_hex, str_s1_else, str_s2_else.
      destruct st; destruct (N.eqb_spec c 92) as [->|Hc].
      + apply (IH S1 Hok).
      + destruct (unit_str_plain R c Hc) as (us & -> & Hu & Hn). cbn [pre app]. rewrite <- app_assoc.
        apply Iter_units; auto. apply (IH SN Hok).
      + cbn [pre app]. apply (IH S2 Hok).
      + (* S1, other: not a quote *)
        apply andb_true_iff in Hok as [H1 H3]. apply negb_true_iff in H1. apply N.eqb_neq in H1.
        cbn [pre app]. change (mem c str_hexdigits) with (ishex c).
        destruct (str_plain_cases c Hc) as [[-> _]|[[-> Ep]|[[-> Ep]|[[-> Ep]|(_ & Hn & Ep)]]]]; try congruence; rewrite Ep.
        * (* \n *) change (ishex 10) with false. cbv iota. cbn [app].
          apply (Iter_unit R kq res [92; 92]%N); [exact Upair|discriminate|].
          apply (Iter_unit R kq res [97%N]); [apply Pnl; auto|discriminate|].
          apply (Iter_unit R kq res [32%N]); [exact P32|discriminate|apply (IH SN H3)].
        * change (ishex 13) with false. cbv iota. cbn [app].
          apply (Iter_unit R kq res [92; 92]%N); [exact Upair|discriminate|].
          apply (Iter_unit R kq res [100%N]); [apply Pnl; auto|discriminate|].
          apply (Iter_unit R kq res [32%N]); [exact P32|discriminate|apply (IH SN H3)].
        * change (ishex 12) with false. cbv iota. cbn [app].
          apply (Iter_unit R kq res [92; 92]%N); [exact Upair|discriminate|].
          apply (Iter_unit R kq res [99%N]); [apply Pnl; auto|discriminate|].
          apply (Iter_unit R kq res [32%N]); [exact P32|discriminate|apply (IH SN H3)].
        * destruct (ishex c) eqn:Eh; cbn [app].
          -- apply (Iter_unit R kq res [92; 53; 99; 32]%N); [apply unit_5c|discriminate|].
             apply (Iter_unit R kq res [c]); [apply plain_hexdigit; exact Eh|discriminate|apply (IH SN H3)].
          -- apply (Iter_unit R kq res [92%N; c]); [apply unit_pair; assumption|discriminate|apply (IH SN H3)].
      + cbn [pre app]. apply (Iter_unit R kq res [92; 92]%N); [exact Upair|discriminate|]. apply (IH S1 Hok).
      + (* S2, other *)
        cbn [pre app]. change (mem c str_hexdigits) with (ishex c). destruct (ishex c) eqn:Eh; cbn [app].
        * apply (Iter_unit R kq res [92; 92]%N); [exact Upair|discriminate|].
          apply (Iter_unit R kq res [53%N]); [exact P53|discriminate|]. apply (Iter_unit R kq res [99%N]); [exact P99|discriminate|].
          apply (Iter_unit R kq res [32%N]); [exact P32|discriminate|].
          destruct (unit_str_plain R c Hc) as (us & -> & Hu & Hn). rewrite <- app_assoc.
          apply Iter_units; auto. apply (IH SN Hok).
        * apply (Iter_unit R kq res [92; 92]%N); [exact Upair|discriminate|].
          destruct (unit_str_plain R c Hc) as (us & -> & Hu & Hn). rewrite <- app_assoc.
          apply Iter_units; auto. apply (IH SN Hok).
  Qed.
End UriUnits.

Lemma unicodesub_loop_uri tl tb : Us tl tb -> (exists x t', tl = x :: t' /\ ishex x = false) ->
  forall r st, rep_okc st r = true -> Us (hstring_loop st r ++ tl) (bloop st r ++ tb).
Proof.
  intros Htl (x0 & t0 & Etl & Hx0). induction r as [|c r IH]; intros st Hok.
  - destruct st; cbn [hstring_loop bloop app]; unfold str_end1, str_end2; cbn [app].
    + exact Htl.
    + apply Us_bs; [reflexivity|]. rewrite Etl. apply Us_bs; [exact Hx0|]. rewrite <- Etl. exact Htl.
    + apply Us_bs; [reflexivity|]. apply Us_5c. exact Htl.
  - cbn [rep_okc] in Hok. cbn [hstring_loop bloop].
    unfold str_bs, str_s1_first, str_s2_first, str_s1_hex, str_s2_hex, str_s1_else, str_s2_else.
    change (mem c str_hexdigits) with (ishex c).
    assert (Hhd : c <> 92%N -> ishex c = false -> exists y t', str_plain c ++ hstring_loop SN r ++ tl = y :: t' /\ ishex y = false).
    { intros Hc Eh. destruct (str_plain_cases c Hc) as [[-> ->]|[[-> ->]|[[-> ->]|[[-> ->]|(_ & _ & ->)]]]]; cbn [app]; eauto. }
    destruct st; destruct (N.eqb_spec c 92) as [->|Hc].
    + apply (IH S1 Hok).
    + rewrite <- !app_assoc. apply bplain_str_plain; [exact Hc|right; exact I|apply (IH SN Hok)].
    + cbn [app]. destruct (loop_head S2 r tl) as [t' Et']; [discriminate|]. rewrite Et'.
      apply Us_bs; [reflexivity|]. rewrite <- Et'. apply (IH S2 Hok).
    + apply andb_true_iff in Hok as [H1 H3]. apply negb_true_iff in H1. apply N.eqb_neq in H1.
      destruct (ishex c) eqn:Eh; cbn [app].
      * destruct (str_plain_cases c Hc) as [[-> _]|[[-> _]|[[-> _]|[[-> _]|(_ & _ & Ep)]]]]; try congruence; try discriminate.
        rewrite Ep. unfold bplain. replace (N.eqb c 34) with false by (symmetry; apply N.eqb_neq; exact H1). cbn [app].
        apply Us_5c. apply Us_plain; [exact Hc|]. apply (IH SN H3).
      * rewrite <- !app_assoc. destruct (Hhd Hc eq_refl) as (y & t' & Ey & Hy). rewrite Ey.
        apply Us_bs; [exact Hy|]. rewrite <- Ey.
        apply bplain_str_plain; [exact Hc|right; exact I|apply (IH SN H3)].
    + cbn [app]. destruct (loop_head S1 r tl) as [t' Et']; [discriminate|]. rewrite Et'.
      apply Us_bs; [reflexivity|]. rewrite <- Et'. apply (IH S1 Hok).
    + destruct (ishex c) eqn:Eh; cbn [app].
      * destruct (str_plain_cases c Hc) as [[-> _]|[[-> _]|[[-> _]|[[-> _]|(H34 & _ & Ep)]]]]; try discriminate.
        rewrite Ep. unfold bplain. replace (N.eqb c 34) with false by (symmetry; apply N.eqb_neq; exact H34). cbn [app].
        apply Us_5c. apply Us_plain; [exact Hc|]. apply (IH SN Hok).
      * rewrite <- !app_assoc. destruct (Hhd Hc eq_refl) as (y & t' & Ey & Hy). rewrite Ey.
        apply Us_bs; [exact Hy|]. rewrite <- Ey.
        apply bplain_str_plain; [exact Hc|right; exact I|apply (IH SN Hok)].
Qed.

(* the quoted body: body_iter_uri, the closing quote, then the tail *)
Lemma body_quoted {R} v follow p (kf : cont R) r :
  representable_str v -> (forall p', kf p' follow = Some r) ->
  m re_BODY p (34%N :: hstring_loop SN v ++ 34%N :: 41%N :: follow) (fun p' t' => m re_TAIL p' t' kf) = Some r.
Proof.
  intros Hv Hk. unfold re_BODY. rewrite !m_alt, m_cat, m_chr_hit, m_cat, m_rep, re_SC_is_body_dq.
  pose proof (body_iter_uri R (fun p0 t0 => m (Chr 34) p0 t0 (fun p' t' => m re_TAIL p' t' kf)) r (41%N :: follow)) as Hi.
  rewrite (Hi (fun p0 => eq_trans (m_chr_hit 34 p0 _ _) (eq_trans (tail_step _ _ _) (Hk _))) v SN Hv); [reflexivity|].
  cbn [pre app]. lia.
Qed.

Definition url4 : str := [117%N; 114%N; 108%N; 40%N].

Lemma uri_match_body body follow prev :
  (forall R p (kf : cont R) r, (forall p', kf p' follow = Some r) ->
      m re_BODY p (body ++ 41%N :: follow) (fun p' t' => m re_TAIL p' t' kf) = Some r) ->
  (forall c r, body = c :: r -> in_ranges c ws_ranges = false) ->
  rmatch re_URI prev (url4 ++ body ++ 41%N :: follow) = Some (length (url4 ++ body ++ [41%N])).
Proof.
  intros Hb Hws. rewrite re_URI_shape. unfold rmatch, url4. cbn [app].
  rewrite m_cat, U_step, m_cat, R_step, m_cat, L_step, m_cat, m_chr_hit, m_cat.
  assert (Hskip : forall (k : cont nat) p, m (Rep (Cls false ws_ranges) 0 None) p (body ++ 41%N :: follow) k = k p (body ++ 41%N :: follow)).
  { intros k p. destruct body as [|c b]; cbn [app]; apply rep_cls_skip; [reflexivity|]. eapply Hws. reflexivity. }
  rewrite Hskip, m_cat. fold re_BODY. fold re_TAIL.
  erewrite (Hb nat); [reflexivity|]. intros p'. cbn beta. f_equal.
  cbn [length]. rewrite !app_length. cbn [length]. lia.
Qed.

(* ------------------------------------------------------------------ the tokenizer on a text that starts with url(...) *)
Lemma S_miss prev t : rmatch re_S prev (117%N :: t) = None.
Proof. unfold rmatch, re_S. rewrite m_rep. cbn [rep_iter length m in_ranges]. reflexivity. Qed.
Lemma BOM_miss t : rmatch (snd bom_production) None (117%N :: t) = None.
Proof. reflexivity. Qed.

Lemma try_prods_skip name r ps dc fs prev rest :
  eqs name (s "CHAR") = false -> rmatch r prev rest = None ->
  try_prods ((name, r) :: ps) dc fs prev rest = try_prods ps dc fs prev rest.
Proof. intros H1 H2. cbn [try_prods]. rewrite H1, H2, andb_false_r. reflexivity. Qed.

Lemma try_prods_take name r ps dc fs prev rest n :
  eqs name (s "CHAR") = false -> eqs name (s "IDENT") = false -> eqs name (s "INVALID") = false ->
  eqs name (s "FUNCTION") = false -> rmatch r prev rest = Some n ->
  try_prods ((name, r) :: ps) dc fs prev rest = Some (Step name (firstn n rest) true).
Proof.
  intros H1 H2 H3 H4 H5. cbn [try_prods]. rewrite H1, H2, H3, H4, H5, !andb_false_r. reflexivity.
Qed.

Lemma try_prods_uri dc fs prev t n :
  rmatch re_URI prev (117%N :: t) = Some n ->
  try_prods productions dc fs prev (117%N :: t) = Some (Step (s "URI") (firstn n (117%N :: t)) true).
Proof.
  intros H. unfold productions. rewrite try_prods_skip by (reflexivity || apply S_miss).
  apply try_prods_take; try reflexivity. exact H.
Qed.

Lemma loop_uri fuel dc fs prev t n l c :
  rmatch re_URI prev (117%N :: t) = Some n -> (length (117%N :: t) < fuel)%nat ->
  exists ts, loop fuel dc fs prev (117%N :: t) l c =
             Some (mkTok (s "URI") (firstn n (117%N :: t)) (unicodesub (firstn n (117%N :: t))) l c :: ts).
Proof.
  intros H Hf. destruct fuel as [|fu]; [lia|]. cbn [loop].
  change (mem 117%N fastchars) with false. cbv iota. rewrite (try_prods_uri _ _ _ _ _ H).
  unfold finish_token. change (mem_str (s "URI") resolved_types) with true.
  change (mem_str (s "URI") clean_types) with false. cbv iota.
  destruct (upd_pos l c (firstn n (117%N :: t))) as [l' c'].
  destruct (loop_total fu dc fs (last_opt prev (firstn n (117%N :: t)))
                       (skipn (length (firstn n (117%N :: t))) (117%N :: t)) l' c') as [ts Hts].
  { pose proof (rmatch_pos _ _ _ _ uri_nonnullable H) as Hn. rewrite skipn_length, firstn_length. cbn [length] in *. lia. }
  rewrite Hts. cbn [option_map]. change (eqs (s "URI") (s "COMMENT")) with false. cbn [negb].
  rewrite orb_true_r. eauto.
Qed.

Lemma tokenize_uri dc fs t n :
  rmatch re_URI None (117%N :: t) = Some n ->
  exists ts, tokenize dc fs (117%N :: t) =
             Some (mkTok (s "URI") (firstn n (117%N :: t)) (unicodesub (firstn n (117%N :: t))) 1 1 :: ts).
Proof.
  intros H. unfold tokenize. rewrite BOM_miss.
  change (starts (s "@charset ") (117%N :: t)) with false. cbv iota.
  destruct (loop_uri (S (length (117%N :: t))) dc fs None t n 1 1 H) as [ts Hts]; [lia|].
  rewrite Hts. cbn [option_map app]. eauto.
Qed.

Lemma tokenize_uri4 dc fs x n :
  rmatch re_URI None (url4 ++ x) = Some n ->
  exists ts, tokenize dc fs (url4 ++ x) =
             Some (mkTok (s "URI") (firstn n (url4 ++ x)) (unicodesub (firstn n (url4 ++ x))) 1 1 :: ts).
Proof. exact (tokenize_uri dc fs ([114%N; 108%N; 40%N] ++ x) n). Qed.

(* ------------------------------------------------------------------ reading the value back *)
Lemma inner_url4 body : inner 40 1 1 (url4 ++ body ++ [41%N]) = strip body.
Proof.
  unfold inner, url4. cbn [app index_of N.eqb Pos.eqb option_map Nat.add].
  f_equal. apply (slice_mid [117%N; 114%N; 108%N; 40%N] body [41%N]); reflexivity.
Qed.

Lemma firstn_found body follow :
  firstn (length (url4 ++ body ++ [41%N])) (url4 ++ body ++ 41%N :: follow) = url4 ++ body ++ [41%N].
Proof.
  replace (url4 ++ body ++ 41%N :: follow) with ((url4 ++ body ++ [41%N]) ++ follow)
    by (rewrite <- !app_assoc; reflexivity).
  rewrite firstn_app, firstn_all, Nat.sub_diag. cbn [firstn]. apply app_nil_r.
Qed.


(* what "the URL v survives output" means for one serialised url(...) followed by any text:
   the tokenizer's first token is the URI token spanning exactly helper.uri(v), and both readers of
   that token's value (helper.urivalue for declaration values, _uritokenvalue for @import) return v *)
Definition survives (v : str) : Prop :=
  forall dc fs follow, exists t ts,
    tokenize dc fs (huri v ++ follow) = Some (t :: ts) /\
    ty t = s "URI" /\ raw t = huri v /\ line t = 1%nat /\ col t = 1%nat /\
    urivalue (val t) = Ok v /\ uritokenvalue (val t) = Ok v.

Lemma huri_bare v : forbidden v = false -> huri v = url4 ++ v ++ [41%N].
Proof. intros H. unfold huri. rewrite H. reflexivity. Qed.
Lemma huri_quoted v : forbidden v = true -> huri v = url4 ++ (34%N :: hstring_loop SN v ++ [34%N]) ++ [41%N].  (* hstring_uri *)
Proof. intros H. unfold huri. rewrite H, hstring_unfold. reflexivity. Qed.

(* body = what is written between url( and ), vbody = the same part of the token value (after unicodesub) *)
Lemma survives_body v body vbody :
  huri v = url4 ++ body ++ [41%N] ->
  (forall follow prev, rmatch re_URI prev (url4 ++ body ++ 41%N :: follow) = Some (length (url4 ++ body ++ [41%N]))) ->
  unicodesub (url4 ++ body ++ [41%N]) = url4 ++ vbody ++ [41%N] ->
  strip vbody = vbody ->
  (if quoted [39%N; 34%N] vbody then
     match py_index0 vbody with
     | Crash => Crash
     | Ok q => Ok (py_slice_nn 1 1 (py_replace vbody [92%N; q] [q]))
     end
   else Ok vbody) = Ok v ->
  survives v.
Proof.
  intros Hh Hm Hu Hstrip Hval dc fs follow. rewrite Hh.
  replace ((url4 ++ body ++ [41%N]) ++ follow) with (url4 ++ body ++ 41%N :: follow)
    by (rewrite <- !app_assoc; reflexivity).
  destruct (tokenize_uri4 dc fs _ _ (Hm follow None)) as [ts Hts].
  rewrite firstn_found in Hts.
  eexists _, ts. split; [exact Hts|]. cbn [ty raw val line col].
  rewrite Hu. repeat split; try reflexivity.
  - unfold urivalue. change urivalue_paren with 40%N. change urivalue_off with 1%nat. change urivalue_end with 1%nat.
    rewrite inner_url4, Hstrip. change urivalue_quotes with [39%N; 34%N]. unfold hstringvalue. exact Hval.
  - unfold uritokenvalue. change uritoken_paren with 40%N. change uritoken_off with 1%nat. change uritoken_end with 1%nat.
    rewrite inner_url4, Hstrip. change uritoken_quotes with [39%N; 34%N].
    change uritoken_esc with 92%N. change uritoken_lo with 1%nat. change uritoken_hi with 1%nat. exact Hval.
Qed.

Lemma forb_bs : in_ranges 92 forb_ranges = true.
Proof. vm_compute. reflexivity. Qed.

Theorem uri_bare_lemma v : forbidden v = false -> survives v.
Proof.
  intros Hf. pose proof (forbidden_false v Hf) as Hc.
  assert (Hb : ~ In 92%N v).
  { intros Hin. apply Hc in Hin. rewrite forb_bs in Hin. discriminate. }
  assert (Hbare : forall c, In c v -> bare c).
  { intros c Hin. split; [apply Hc, Hin|]. intros ->. contradiction. }
  apply (survives_body v v v).
  - apply huri_bare, Hf.
  - intros follow prev. apply uri_match_body.
    + intros R p kf r Hk. apply body_bare; assumption.
    + intros c r ->. apply bare_not_ws, Hc. left. reflexivity.
  - apply unicodesub_nobs. unfold url4. intros Hin. apply in_app_or in Hin as [Hin|Hin].
    + cbn [In] in Hin. destruct Hin as [E|[E|[E|[E|[]]]]]; discriminate E.
    + apply in_app_or in Hin as [Hin|[E|[]]]; [contradiction|discriminate E].
  - apply strip_ends.
    + intros c r ->. apply bare_not_space, Hc. left. reflexivity.
    + intros r d ->. apply bare_not_space, Hc, in_or_app. right. left. reflexivity.
  - destruct v as [|q r]; [reflexivity|]. unfold quoted. cbn [mem].
    assert (Hq : in_ranges q forb_ranges = false) by (apply Hc; left; reflexivity).
    destruct (N.eqb_spec 39 q) as [<-|_]; [rewrite (proj1 (proj2 forb_consts)) in Hq; discriminate|].
    destruct (N.eqb_spec 34 q) as [<-|_]; [rewrite (proj1 forb_consts) in Hq; discriminate|]. reflexivity.
Qed.

Theorem uri_quoted_lemma v : representable_str v -> forbidden v = true -> survives v.
Proof.
  intros Hv Hf.
  apply (survives_body v (34%N :: hstring_loop SN v ++ [34%N]) (34%N :: bloop SN v ++ [34%N])).
  - apply huri_quoted; assumption.
  - intros follow prev. apply uri_match_body.
    + intros R p kf r Hk. cbn [app]. rewrite <- app_assoc. cbn [app]. apply body_quoted; assumption.
    + intros c r E. injection E as <- _. reflexivity.
  - unfold unicodesub, sub_all, url4. cbn [app]. rewrite <- !app_assoc. cbn [app].
    assert (Utl : Us [34%N; 41%N] [34%N; 41%N]) by (repeat (apply Us_plain; [discriminate|]); apply Us_nil).
    assert (HU : Us (117 :: 114 :: 108 :: 40 :: 34 :: hstring_loop SN v ++ [34; 41])%N
                    (117 :: 114 :: 108 :: 40 :: 34 :: bloop SN v ++ [34; 41])%N).
    { do 5 (apply Us_plain; [discriminate|]).
      apply unicodesub_loop_uri; [exact Utl| |exact Hv]. exists 34%N, [41%N]. split; reflexivity. }
    apply HU. lia.
  - apply strip_nonspace; reflexivity.
  - unfold quoted. cbn [mem N.eqb Pos.eqb orb andb].
    change (34%N :: bloop SN v ++ [34%N]) with ((34%N :: bloop SN v) ++ [34%N]). rewrite last_last. cbn [N.eqb Pos.eqb].
    cbn [app py_index0]. unfold py_replace. cbn [length].
    rewrite (Rp_plain 34 (bloop SN v ++ [34%N]) (v ++ [34%N])); [|discriminate|apply (replacec_loop v SN Hv)|cbn [length]; lia].
    rewrite py_slice_1_1. reflexivity.
Qed.

(* every value helper.string can represent survives; which form helper.uri chooses does not matter *)
Theorem uri_roundtrip_lemma v : representable_str v -> survives v.
Proof.
  intros Hv. destruct (forbidden v) eqn:E.
  - apply uri_quoted_lemma; assumption.
  - apply uri_bare_lemma. exact E.
Qed.

(* the property's own set (no backslash, no newline character) is inside the representable values *)
Definition UrlChars (v : str) : Prop :=
  forall c, In c v -> c <> 92%N /\ c <> 10%N /\ c <> 13%N /\ c <> 12%N.
Lemma UrlChars_representable v : UrlChars v -> representable_str v.
Proof. intros H. apply nobs_representable_str. intros Hin. apply H in Hin. tauto. Qed.

(* a value with a backslash is always written quoted (the bare form would start an escape) *)
Lemma backslash_is_quoted v : In 92%N v -> forbidden v = true.
Proof.
  intros Hin. destruct (forbidden v) eqn:E; [reflexivity|].
  pose proof (forbidden_false v E _ Hin) as H. rewrite forb_bs in H. discriminate.
Qed.
